import DuneVerif.Model.C05Async
/-!
C05 helper lemmas, part 9 (round three): the asynchronous system refines the synchronous history semantics.

* `worldStep_eq_local`: the collective step is the composition gather → messages land → scatter;
* `AOK`: what the invariant needs to know about the communicators (posted sends match posted receives, all posted sends
  are waited for);
* `AInv`: the invariant of the asynchronous system (every outstanding send belongs to the communication its sender is
  still inside; send `k` of `p` to `q` is transferred iff receive `k` of `q` from `p` is complete; the state of every
  process is the synchronous state for every schedule function that extends the recorded schedules);
* `AInv.step`, `areach_inv`.
Core Lean only.
-/
namespace DV.C05

section
variable {Val Data : Type}

/-! ### buffers -/

@[simp] theorem PState.setRecvB_recvB (s : PState Val Data) (fwd : Bool) (b : List Val) : (s.setRecvB fwd b).recvB fwd = b := by
  cases fwd <;> rfl
@[simp] theorem PState.setRecvB_sendB (s : PState Val Data) (fwd : Bool) (b : List Val) :
    (s.setRecvB fwd b).sendB fwd = s.sendB fwd := by
  cases fwd <;> rfl
@[simp] theorem PState.setSendB_sendB (s : PState Val Data) (fwd : Bool) (b : List Val) : (s.setSendB fwd b).sendB fwd = b := by
  cases fwd <;> rfl
@[simp] theorem PState.setSendB_recvB (s : PState Val Data) (fwd : Bool) (b : List Val) :
    (s.setSendB fwd b).recvB fwd = s.recvB fwd := by
  cases fwd <;> rfl
@[simp] theorem PState.setRecvB_cont (s : PState Val Data) (fwd : Bool) (b : List Val) : (s.setRecvB fwd b).cont = s.cont := by
  cases fwd <;> rfl
@[simp] theorem PState.setSendB_cont (s : PState Val Data) (fwd : Bool) (b : List Val) : (s.setSendB fwd b).cont = s.cont := by
  cases fwd <;> rfl
@[simp] theorem PState.setRecvB_setRecvB (s : PState Val Data) (fwd : Bool) (b b' : List Val) :
    (s.setRecvB fwd b).setRecvB fwd b' = s.setRecvB fwd b' := by
  cases fwd <;> rfl
theorem PState.setRecvB_self (s : PState Val Data) (fwd : Bool) : s.setRecvB fwd (s.recvB fwd) = s := by
  cases fwd <;> rfl

@[simp] theorem landP_sendB (comm : Nat → Comm) (fwd : Bool) (q p : Nat) (m : List Val) (s : PState Val Data) :
    (landP comm fwd q p m s).sendB fwd = s.sendB fwd := by
  simp [landP]

/-- the messages of `arr` land one after the other = `recvBufAfter` -/
theorem foldl_landP (comm : Nat → Comm) (fwd : Bool) (q : Nat) (msg : Nat → List Val) :
    ∀ (arr : List Nat) (s : PState Val Data),
      arr.foldl (fun s p => landP comm fwd q p (msg p) s) s =
        s.setRecvB fwd ((comm q).recvBufAfter fwd msg (s.recvB fwd) arr)
  | [], s => by simp [Comm.recvBufAfter, PState.setRecvB_self]
  | a :: as, s => by
    rw [List.foldl_cons, foldl_landP comm fwd q msg as]
    simp only [landP, PState.setRecvB_recvB, PState.setRecvB_setRecvB, Comm.recvBufAfter, List.foldl_cons]
    cases (comm q).msg a <;> rfl

theorem foldl_landP_sendB (comm : Nat → Comm) (fwd : Bool) (q : Nat) (msg : Nat → List Val) (arr : List Nat)
    (s : PState Val Data) : (arr.foldl (fun s p => landP comm fwd q p (msg p) s) s).sendB fwd = s.sendB fwd := by
  rw [foldl_landP]; simp

/-- **the collective step is local**: `worldStep` on `q` = scatter ∘ (messages of the gathered send buffers land) ∘ gather -/
theorem worldStep_eq_local (comm : Nat → Comm) (gather : Data → Nat → Nat → Val) (scatter : Data → Val → Nat → Nat → Data)
    (r : Round) (st : Nat → PState Val Data) (q : Nat) :
    worldStep comm gather scatter r st q =
      finishP comm scatter r.fwd q (r.order q)
        ((r.arr q).foldl (fun s p => landP comm r.fwd q p
            ((comm p).msgTo r.fwd ((gatherP comm gather r.fwd p (st p)).sendB r.fwd) q) s)
          (gatherP comm gather r.fwd q (st q))) := by
  rw [foldl_landP]
  simp only [worldStep, finishP, stepCalls, stepRecvBuf, stepSendBuf, gatherP, PState.setSendB_sendB, PState.setSendB_recvB,
    PState.setRecvB_recvB, PState.setRecvB_cont, PState.setSendB_cont]
  cases r.fwd <;> rfl

/-! ### the function update -/

@[simp] theorem upd_same {α : Type} (f : Nat → α) (p : Nat) (v : α) : upd f p v p = v := by simp [upd]
theorem upd_other {α : Type} (f : Nat → α) {p x : Nat} (v : α) (h : x ≠ p) : upd f p v x = f x := by simp [upd, h]

/-! ### hypotheses about the communicators -/

structure AOK (A : ASys Val Data) : Prop where
  matched : ∀ fwd p q, p < A.P → q < A.P → (q ∈ (A.comm p).postedSends fwd ↔ p ∈ (A.comm q).postedRecvs fwd)
  sendsLt : ∀ fwd p q, p < A.P → q ∈ (A.comm p).postedSends fwd → q < A.P
  recvsLt : ∀ fwd p q, p < A.P → q ∈ (A.comm p).postedRecvs fwd → q < A.P
  sendsNodup : ∀ fwd p, ((A.comm p).postedSends fwd).Nodup
  recvsNodup : ∀ fwd p, ((A.comm p).postedRecvs fwd).Nodup
  /-- every send that is posted is waited for before `sendRecv` returns -/
  waited : ∀ fwd p, ∀ q ∈ (A.comm p).postedSends fwd, q ∈ (A.comm p).waitedSends fwd

/-- the send `p` posted to `q` in communication `k` has been transferred -/
def sentDone (σ : Nat → AProc Val Data) (p q k : Nat) : Prop :=
  k < (σ p).k ∨ (k = (σ p).k ∧ (σ p).inC = true ∧ (q, k) ∉ (σ p).outS)
/-- the receive `q` posted for `p` in communication `k` is complete -/
def recvDone (σ : Nat → AProc Val Data) (q p k : Nat) : Prop :=
  k < (σ q).k ∨ (k = (σ q).k ∧ (σ q).inC = true ∧ p ∉ (σ q).pendR)

/-- the state of a process inside communication `k`, in terms of the synchronous semantics -/
def midState (A : ASys Val Data) (st0 : Nat → PState Val Data) (sched : Nat → Nat → List Nat × List Nat) (k p : Nat)
    (arrd : List Nat) : PState Val Data :=
  arrd.foldl (fun st p' => landP A.comm (A.dir k) p p' (specMsg A st0 sched k p' p) st)
    (gatherP A.comm A.gather (A.dir k) p (applyPre (A.pre k p) (specSt A st0 sched k p)))

structure AInv (A : ASys Val Data) (st0 : Nat → PState Val Data) (s : AState Val Data) : Prop where
  outS_ok : ∀ p, p < A.P → ∀ e ∈ (s.σ p).outS,
    (s.σ p).inC = true ∧ e.2 = (s.σ p).k ∧ e.1 ∈ (A.comm p).postedSends (A.dir (s.σ p).k)
  outS_nodup : ∀ p, p < A.P → ((s.σ p).outS.map (·.1)).Nodup
  recv_ok : ∀ q, q < A.P → (s.σ q).inC = true →
    ((s.σ q).pendR ++ (s.σ q).arrd).Perm ((A.comm q).postedRecvs (A.dir (s.σ q).k))
  idle_ok : ∀ q, q < A.P → (s.σ q).inC = false → (s.σ q).pendR = [] ∧ (s.σ q).arrd = []
  sync : ∀ k p q, p < A.P → q < A.P → q ∈ (A.comm p).postedSends (A.dir k) → (sentDone s.σ p q k ↔ recvDone s.σ q p k)
  len : ∀ p, p < A.P → (s.σ p).k ≤ A.dirs.length ∧ ((s.σ p).inC = true → (s.σ p).k < A.dirs.length)
  ghost : ∀ k p v, s.gh k p = some v → p < A.P ∧ k < (s.σ p).k ∧
    v.1.Perm ((A.comm p).postedRecvs (A.dir k)) ∧ v.2.Perm v.1
  data : ∀ sched, Extends sched s.gh → ∀ p, p < A.P →
    ((s.σ p).inC = false → (s.σ p).st = specSt A st0 sched (s.σ p).k p) ∧
    ((s.σ p).inC = true → (s.σ p).st = midState A st0 sched (s.σ p).k p (s.σ p).arrd)

theorem AInv.init (A : ASys Val Data) (st0 : Nat → PState Val Data) : AInv A st0 (AState.init st0) where
  outS_ok := by intro p _ e he; simp [AState.init] at he
  outS_nodup := by intro p _; simp [AState.init]
  recv_ok := by intro q _ h; simp [AState.init] at h
  idle_ok := by intro q _ _; simp [AState.init]
  sync := by
    intro k p q _ _ _
    simp [sentDone, recvDone, AState.init]
  len := by intro p _; simp [AState.init]
  ghost := by intro k p v h; simp [AState.init] at h
  data := by
    intro sched _ p _
    simp [AState.init, specSt]

/-! ### a process enters a communication -/

theorem AInv.enter {A : ASys Val Data} {st0 : Nat → PState Val Data} (hA : AOK A) {s : AState Val Data}
    (h : AInv A st0 s) (p0 : Nat) (hp0 : p0 < A.P) (hin : (s.σ p0).inC = false) (hk : (s.σ p0).k < A.dirs.length)
    (σ' : Nat → AProc Val Data) (hσ0 : σ' p0 = enterProc A p0 (s.σ p0)) (hσx : ∀ x, x ≠ p0 → σ' x = s.σ x) :
    AInv A st0 { σ := σ', gh := s.gh } := by
  have hout : (s.σ p0).outS = [] := List.eq_nil_iff_forall_not_mem.mpr (fun e he => by
    have := (h.outS_ok p0 hp0 e he).1
    rw [hin] at this
    cases this)
  refine ⟨?_, ?_, ?_, ?_, ?_, ?_, ?_, ?_⟩
  · -- outS_ok
    intro p hp e he
    by_cases hpp : p = p0
    · subst hpp
      simp only [hσ0, enterProc, hout, List.nil_append, List.mem_map] at he ⊢
      obtain ⟨q, hq, rfl⟩ := he
      refine ⟨?_, ?_, hq⟩ <;> trivial
    · simp only [hσx p hpp] at he ⊢
      exact h.outS_ok p hp e he
  · -- outS_nodup
    intro p hp
    by_cases hpp : p = p0
    · subst hpp
      simp only [hσ0, enterProc, hout, List.nil_append, List.map_map]
      have : ((fun x : Nat × Nat => x.1) ∘ fun q => (q, (s.σ p).k)) = id := rfl
      rw [this, List.map_id]
      exact hA.sendsNodup _ _
    · simp only [hσx p hpp]
      exact h.outS_nodup p hp
  · -- recv_ok
    intro q hq hi
    by_cases hqq : q = p0
    · subst hqq
      simp only [hσ0, enterProc, List.append_nil]
      exact List.Perm.refl _
    · simp only [hσx q hqq] at hi ⊢
      exact h.recv_ok q hq hi
  · -- idle_ok
    intro q hq hi
    by_cases hqq : q = p0
    · subst hqq
      simp only [hσ0, enterProc] at hi
      cases hi
    · simp only [hσx q hqq] at hi ⊢
      exact h.idle_ok q hq hi
  · -- sync
    intro k p q hp hq hmem
    have hs : sentDone σ' p q k ↔ sentDone s.σ p q k := by
      by_cases hpp : p = p0
      · subst hpp
        simp only [sentDone, hσ0, enterProc, hout, List.nil_append, hin]
        constructor
        · rintro (h1 | ⟨h1, _, h3⟩)
          · exact Or.inl h1
          · exfalso
            apply h3
            subst h1
            exact List.mem_map.2 ⟨q, hmem, rfl⟩
        · rintro (h1 | ⟨_, h2, _⟩)
          · exact Or.inl h1
          · cases h2
      · simp only [sentDone, hσx p hpp]
    have hr : recvDone σ' q p k ↔ recvDone s.σ q p k := by
      by_cases hqq : q = p0
      · subst hqq
        simp only [recvDone, hσ0, enterProc, hin]
        constructor
        · rintro (h1 | ⟨h1, _, h3⟩)
          · exact Or.inl h1
          · exfalso
            apply h3
            subst h1
            exact (hA.matched _ p q hp hq).1 hmem
        · rintro (h1 | ⟨_, h2, _⟩)
          · exact Or.inl h1
          · cases h2
      · simp only [recvDone, hσx q hqq]
    rw [hs, hr]
    exact h.sync k p q hp hq hmem
  · -- len
    intro p hp
    by_cases hpp : p = p0
    · subst hpp
      simp only [hσ0, enterProc]
      exact ⟨Nat.le_of_lt hk, fun _ => hk⟩
    · simp only [hσx p hpp]
      exact h.len p hp
  · -- ghost
    intro k p v hv
    have := h.ghost k p v hv
    by_cases hpp : p = p0
    · subst hpp
      simp only [hσ0, enterProc]
      exact this
    · simp only [hσx p hpp]
      exact this
  · -- data
    intro sched hext p hp
    by_cases hpp : p = p0
    · subst hpp
      simp only [hσ0]
      constructor
      · intro hc
        simp [enterProc] at hc
      · intro _
        simp only [enterProc]
        rw [((h.data sched hext p hp).1 hin)]
        rfl
    · simp only [hσx p hpp]
      exact h.data sched hext p hp

/-! ### a process leaves `sendRecv` -/

theorem specSt_succ_eq (A : ASys Val Data) (st0 : Nat → PState Val Data) (sched : Nat → Nat → List Nat × List Nat)
    (k p : Nat) :
    specSt A st0 sched (k + 1) p =
      finishP A.comm A.scatter (A.dir k) p (sched k p).2 (midState A st0 sched k p (sched k p).1) := by
  simp only [specSt, worldStep_eq_local, roundOf, midState, specMsg]

theorem AInv.finish {A : ASys Val Data} {st0 : Nat → PState Val Data} (hA : AOK A) {s : AState Val Data}
    (h : AInv A st0 s) (p0 : Nat) (order : List Nat) (hp0 : p0 < A.P) (hin : (s.σ p0).inC = true)
    (hpend : (s.σ p0).pendR = [])
    (hw : ∀ e ∈ (s.σ p0).outS, e.2 = (s.σ p0).k → e.1 ∉ (A.comm p0).waitedSends (A.dir (s.σ p0).k))
    (hord : order.Perm (s.σ p0).arrd)
    (σ' : Nat → AProc Val Data) (hσ0 : σ' p0 = finishProc A p0 order (s.σ p0)) (hσx : ∀ x, x ≠ p0 → σ' x = s.σ x)
    (gh' : Ghost)
    (hgh : gh' = fun k x => if k = (s.σ p0).k ∧ x = p0 then some ((s.σ p0).arrd, order) else s.gh k x) :
    AInv A st0 { σ := σ', gh := gh' } := by
  have hout : (s.σ p0).outS = [] := List.eq_nil_iff_forall_not_mem.mpr (fun e he => by
    have h1 := h.outS_ok p0 hp0 e he
    exact hw e he h1.2.1 (hA.waited _ _ _ h1.2.2))
  have hkn : (s.σ p0).k < A.dirs.length := (h.len p0 hp0).2 hin
  have harr : (s.σ p0).arrd.Perm ((A.comm p0).postedRecvs (A.dir (s.σ p0).k)) := by
    have := h.recv_ok p0 hp0 hin
    rwa [hpend, List.nil_append] at this
  refine ⟨?_, ?_, ?_, ?_, ?_, ?_, ?_, ?_⟩
  · -- outS_ok
    intro p hp e he
    by_cases hpp : p = p0
    · subst hpp
      simp only [hσ0, finishProc, hout] at he
      cases he
    · simp only [hσx p hpp] at he ⊢
      exact h.outS_ok p hp e he
  · intro p hp
    by_cases hpp : p = p0
    · subst hpp
      simp only [hσ0, finishProc, hout, List.map_nil]
      exact List.nodup_nil
    · simp only [hσx p hpp]
      exact h.outS_nodup p hp
  · intro q hq hi
    by_cases hqq : q = p0
    · subst hqq
      simp [hσ0, finishProc] at hi
    · simp only [hσx q hqq] at hi ⊢
      exact h.recv_ok q hq hi
  · intro q hq hi
    by_cases hqq : q = p0
    · subst hqq
      simp [hσ0, finishProc]
    · simp only [hσx q hqq] at hi ⊢
      exact h.idle_ok q hq hi
  · -- sync
    intro k p q hp hq hmem
    have hs : sentDone σ' p q k ↔ sentDone s.σ p q k := by
      by_cases hpp : p = p0
      · subst hpp
        simp only [sentDone, hσ0, finishProc, hin, hout]
        constructor
        · rintro (h1 | ⟨_, h2, _⟩)
          · rcases Nat.lt_succ_iff_lt_or_eq.1 h1 with h3 | h3
            · exact Or.inl h3
            · exact Or.inr ⟨h3, trivial, by simp⟩
          · cases h2
        · rintro (h1 | ⟨h1, _, _⟩)
          · exact Or.inl (Nat.lt_succ_of_lt h1)
          · exact Or.inl (h1 ▸ Nat.lt_succ_self _)
      · simp only [sentDone, hσx p hpp]
    have hr : recvDone σ' q p k ↔ recvDone s.σ q p k := by
      by_cases hqq : q = p0
      · subst hqq
        simp only [recvDone, hσ0, finishProc, hin, hpend]
        constructor
        · rintro (h1 | ⟨_, h2, _⟩)
          · rcases Nat.lt_succ_iff_lt_or_eq.1 h1 with h3 | h3
            · exact Or.inl h3
            · exact Or.inr ⟨h3, trivial, by simp⟩
          · cases h2
        · rintro (h1 | ⟨h1, _, _⟩)
          · exact Or.inl (Nat.lt_succ_of_lt h1)
          · exact Or.inl (h1 ▸ Nat.lt_succ_self _)
      · simp only [recvDone, hσx q hqq]
    rw [hs, hr]
    exact h.sync k p q hp hq hmem
  · -- len
    intro p hp
    by_cases hpp : p = p0
    · subst hpp
      simp only [hσ0, finishProc]
      exact ⟨hkn, fun hc => by cases hc⟩
    · simp only [hσx p hpp]
      exact h.len p hp
  · -- ghost
    intro k p v hv
    subst hgh
    simp only at hv
    by_cases hc : k = (s.σ p0).k ∧ p = p0
    · rw [if_pos hc] at hv
      obtain ⟨rfl, rfl⟩ := hc
      cases hv
      simp only [hσ0, finishProc]
      exact ⟨hp0, Nat.lt_succ_self _, harr, hord⟩
    · rw [if_neg hc] at hv
      have := h.ghost k p v hv
      by_cases hpp : p = p0
      · subst hpp
        simp only [hσ0, finishProc]
        exact ⟨this.1, Nat.lt_succ_of_lt this.2.1, this.2.2⟩
      · simp only [hσx p hpp]
        exact this
  · -- data
    intro sched hext p hp
    subst hgh
    have hext0 : Extends sched s.gh := by
      intro k x v hv
      apply hext k x v
      simp only
      by_cases hc : k = (s.σ p0).k ∧ x = p0
      · obtain ⟨rfl, rfl⟩ := hc
        exact absurd (h.ghost _ _ v hv).2.1 (Nat.lt_irrefl _)
      · rw [if_neg hc]
        exact hv
    have hsch : sched (s.σ p0).k p0 = ((s.σ p0).arrd, order) := by
      apply hext
      simp
    by_cases hpp : p = p0
    · subst hpp
      simp only [hσ0]
      constructor
      · intro _
        simp only [finishProc]
        rw [specSt_succ_eq, hsch, (h.data sched hext0 p hp).2 hin]
      · intro hc
        simp [finishProc] at hc
    · simp only [hσx p hpp]
      exact h.data sched hext0 p hp

/-! ### a message is transferred -/

theorem midState_snoc (A : ASys Val Data) (st0 : Nat → PState Val Data) (sched : Nat → Nat → List Nat × List Nat)
    (k p : Nat) (arrd : List Nat) (p' : Nat) :
    midState A st0 sched k p (arrd ++ [p']) =
      landP A.comm (A.dir k) p p' (specMsg A st0 sched k p' p) (midState A st0 sched k p arrd) := by
  simp only [midState, List.foldl_append, List.foldl_cons, List.foldl_nil]

theorem midState_sendB (A : ASys Val Data) (st0 : Nat → PState Val Data) (sched : Nat → Nat → List Nat × List Nat)
    (k p : Nat) (arrd : List Nat) :
    (midState A st0 sched k p arrd).sendB (A.dir k) =
      (gatherP A.comm A.gather (A.dir k) p (applyPre (A.pre k p) (specSt A st0 sched k p))).sendB (A.dir k) := by
  simp only [midState]
  exact foldl_landP_sendB A.comm (A.dir k) p (fun p' => specMsg A st0 sched k p' p) arrd _

/-- what a transfer needs to know: the send at the head of the queue belongs to the communication the receiver is in -/
theorem AInv.transfer_round {A : ASys Val Data} {st0 : Nat → PState Val Data} (hA : AOK A) {s : AState Val Data}
    (h : AInv A st0 s) (p0 q0 k' : Nat) (hp0 : p0 < A.P) (hq0 : q0 < A.P)
    (hmem : (q0, k') ∈ (s.σ p0).outS) (hinq : (s.σ q0).inC = true) (hpend : p0 ∈ (s.σ q0).pendR) :
    k' = (s.σ p0).k ∧ (s.σ q0).k = (s.σ p0).k ∧ (s.σ p0).inC = true := by
  obtain ⟨hinp, hk', hsend⟩ := h.outS_ok p0 hp0 _ hmem
  simp only at hk' hsend
  subst hk'
  refine ⟨rfl, ?_, hinp⟩
  -- the send of communication k_p0 is not transferred, so the receive is not complete: k_q0 ≤ k_p0
  have hnot : ¬ sentDone s.σ p0 q0 (s.σ p0).k := by
    rintro (h1 | ⟨_, _, h3⟩)
    · exact Nat.lt_irrefl _ h1
    · exact h3 hmem
  have hnr : ¬ recvDone s.σ q0 p0 (s.σ p0).k := fun hr => hnot ((h.sync _ p0 q0 hp0 hq0 hsend).2 hr)
  have hle : (s.σ q0).k ≤ (s.σ p0).k := Nat.le_of_not_lt (fun hlt => hnr (Or.inl hlt))
  rcases Nat.lt_or_eq_of_le hle with hlt | heq
  · -- k_q0 < k_p0: p0 has finished communication k_q0, in which it sent to q0; so q0's receive is complete
    exfalso
    have hrecv : p0 ∈ (A.comm q0).postedRecvs (A.dir (s.σ q0).k) :=
      (h.recv_ok q0 hq0 hinq).subset (List.mem_append_left _ hpend)
    have hsend' : q0 ∈ (A.comm p0).postedSends (A.dir (s.σ q0).k) := (hA.matched _ p0 q0 hp0 hq0).2 hrecv
    have hrd := (h.sync _ p0 q0 hp0 hq0 hsend').1 (Or.inl hlt)
    rcases hrd with h1 | ⟨_, _, h3⟩
    · exact Nat.lt_irrefl _ h1
    · exact h3 hpend
  · exact heq

/-- the message a transfer reads from the sender's buffer NOW is the message the sender gathered for the communication
    the receiver is in -/
theorem AInv.transfer_msg {A : ASys Val Data} {st0 : Nat → PState Val Data} (hA : AOK A) {s : AState Val Data}
    (h : AInv A st0 s) (p0 q0 k' : Nat) (hp0 : p0 < A.P) (hq0 : q0 < A.P)
    (hmem : (q0, k') ∈ (s.σ p0).outS) (hinq : (s.σ q0).inC = true) (hpend : p0 ∈ (s.σ q0).pendR)
    (sched : Nat → Nat → List Nat × List Nat) (hext : Extends sched s.gh) :
    transferMsg A p0 q0 k' (s.σ p0) = specMsg A st0 sched (s.σ q0).k p0 q0 := by
  obtain ⟨hk', hkq, hinp⟩ := h.transfer_round hA p0 q0 k' hp0 hq0 hmem hinq hpend
  simp only [transferMsg, specMsg]
  rw [(h.data sched hext p0 hp0).2 hinp, hk', ← hkq]
  rw [hkq, midState_sendB, ← hkq]

theorem AInv.transfer {A : ASys Val Data} {st0 : Nat → PState Val Data} (hA : AOK A) {s : AState Val Data}
    (h : AInv A st0 s) (p0 q0 k' : Nat) (pre post : List (Nat × Nat)) (hp0 : p0 < A.P) (hq0 : q0 < A.P)
    (hout : (s.σ p0).outS = pre ++ (q0, k') :: post) (hpre : ∀ e ∈ pre, e.1 ≠ q0) (hinq : (s.σ q0).inC = true)
    (hpend : p0 ∈ (s.σ q0).pendR)
    (σ' : Nat → AProc Val Data)
    (hk : ∀ x, (σ' x).k = (s.σ x).k) (hi : ∀ x, (σ' x).inC = (s.σ x).inC)
    (ho0 : (σ' p0).outS = pre ++ post) (hox : ∀ x, x ≠ p0 → (σ' x).outS = (s.σ x).outS)
    (hr0 : (σ' q0).pendR = (s.σ q0).pendR.erase p0) (hrx : ∀ x, x ≠ q0 → (σ' x).pendR = (s.σ x).pendR)
    (ha0 : (σ' q0).arrd = (s.σ q0).arrd ++ [p0]) (hax : ∀ x, x ≠ q0 → (σ' x).arrd = (s.σ x).arrd)
    (hs0 : (σ' q0).st = landP A.comm (A.dir (s.σ q0).k) q0 p0 (transferMsg A p0 q0 k' (s.σ p0)) (s.σ q0).st)
    (hsx : ∀ x, x ≠ q0 → (σ' x).st = (s.σ x).st) :
    AInv A st0 { σ := σ', gh := s.gh } := by
  have hmem : (q0, k') ∈ (s.σ p0).outS := by rw [hout]; simp
  obtain ⟨hk', hkq, hinp⟩ := h.transfer_round hA p0 q0 k' hp0 hq0 hmem hinq hpend
  -- no other entry for q0 in the queue
  have hnd := h.outS_nodup p0 hp0
  rw [hout, List.map_append, List.map_cons, List.nodup_append] at hnd
  have hpost : ∀ e ∈ post, e.1 ≠ q0 := by
    intro e he heq
    have := (List.nodup_cons.1 hnd.2.1).1
    exact this (List.mem_map.2 ⟨e, he, heq⟩)
  have hnotin : (q0, k') ∉ pre ++ post := by
    intro hc
    rcases List.mem_append.1 hc with hc | hc
    · exact hpre _ hc rfl
    · exact hpost _ hc rfl
  have hsubl : ∀ e, e ∈ pre ++ post → e ∈ (s.σ p0).outS := by
    intro e he
    rw [hout]
    rcases List.mem_append.1 he with he | he
    · exact List.mem_append_left _ he
    · exact List.mem_append_right _ (List.mem_cons_of_mem _ he)
  have hrecvq := h.recv_ok q0 hq0 hinq
  have hpnd : (s.σ q0).pendR.Nodup := by
    have : ((s.σ q0).pendR ++ (s.σ q0).arrd).Nodup := (hrecvq.nodup_iff).2 (hA.recvsNodup _ _)
    exact (List.nodup_append.1 this).1
  refine ⟨?_, ?_, ?_, ?_, ?_, ?_, ?_, ?_⟩
  · -- outS_ok
    intro p hp e he
    simp only [hk, hi] at he ⊢
    by_cases hpp : p = p0
    · subst hpp
      rw [ho0] at he
      exact h.outS_ok p hp e (hsubl e he)
    · rw [hox p hpp] at he
      exact h.outS_ok p hp e he
  · intro p hp
    simp only
    by_cases hpp : p = p0
    · subst hpp
      rw [ho0]
      have := h.outS_nodup p hp
      rw [hout] at this
      refine this.sublist ?_
      apply List.Sublist.map
      exact List.Sublist.append (List.Sublist.refl _) (List.sublist_cons_self _ _)
    · rw [hox p hpp]
      exact h.outS_nodup p hp
  · -- recv_ok
    intro q hq hiq
    simp only [hk, hi] at hiq ⊢
    by_cases hqq : q = q0
    · subst hqq
      rw [hr0, ha0]
      have h1 : (s.σ q).pendR.Perm (p0 :: (s.σ q).pendR.erase p0) := List.perm_cons_erase hpend
      have h2 : ((s.σ q).pendR.erase p0 ++ ((s.σ q).arrd ++ [p0])).Perm (p0 :: ((s.σ q).pendR.erase p0 ++ (s.σ q).arrd)) := by
        rw [← List.append_assoc]
        exact List.perm_append_singleton _ _
      have h3 : (p0 :: ((s.σ q).pendR.erase p0 ++ (s.σ q).arrd)).Perm ((s.σ q).pendR ++ (s.σ q).arrd) :=
        (h1.append_right (s.σ q).arrd).symm
      exact (h2.trans h3).trans hrecvq
    · rw [hrx q hqq, hax q hqq]
      exact h.recv_ok q hq hiq
  · -- idle_ok
    intro q hq hiq
    simp only [hi] at hiq ⊢
    have hqq : q ≠ q0 := by
      rintro rfl
      rw [hinq] at hiq
      cases hiq
    rw [hrx q hqq, hax q hqq]
    exact h.idle_ok q hq hiq
  · -- sync
    intro k p q hp hq hm
    have hs : sentDone σ' p q k ↔ (sentDone s.σ p q k ∨ (p = p0 ∧ q = q0 ∧ k = k')) := by
      simp only [sentDone, hk, hi]
      by_cases hpp : p = p0
      · subst hpp
        rw [ho0, hout]
        constructor
        · rintro (h1 | ⟨h1, h2, h3⟩)
          · exact Or.inl (Or.inl h1)
          · by_cases hqk : (q, k) = (q0, k')
            · cases hqk
              exact Or.inr ⟨rfl, rfl, rfl⟩
            · refine Or.inl (Or.inr ⟨h1, h2, ?_⟩)
              intro hc
              rcases List.mem_append.1 hc with hc | hc
              · exact h3 (List.mem_append_left _ hc)
              · rcases List.mem_cons.1 hc with hc | hc
                · exact hqk hc
                · exact h3 (List.mem_append_right _ hc)
        · rintro ((h1 | ⟨h1, h2, h3⟩) | ⟨_, rfl, rfl⟩)
          · exact Or.inl h1
          · refine Or.inr ⟨h1, h2, fun hc => h3 ?_⟩
            rcases List.mem_append.1 hc with hc | hc
            · exact List.mem_append_left _ hc
            · exact List.mem_append_right _ (List.mem_cons_of_mem _ hc)
          · exact Or.inr ⟨hk', hinp, hnotin⟩
      · rw [hox p hpp]
        constructor
        · exact fun hx => Or.inl hx
        · rintro (hx | ⟨hx, _, _⟩)
          · exact hx
          · exact absurd hx hpp
    have hr : recvDone σ' q p k ↔ (recvDone s.σ q p k ∨ (p = p0 ∧ q = q0 ∧ k = k')) := by
      simp only [recvDone, hk, hi]
      by_cases hqq : q = q0
      · subst hqq
        rw [hr0]
        constructor
        · rintro (h1 | ⟨h1, h2, h3⟩)
          · exact Or.inl (Or.inl h1)
          · by_cases hpp : p = p0
            · subst hpp
              exact Or.inr ⟨rfl, rfl, by rw [h1, hkq, hk']⟩
            · exact Or.inl (Or.inr ⟨h1, h2, fun hc => h3 ((List.mem_erase_of_ne hpp).2 hc)⟩)
        · rintro ((h1 | ⟨h1, h2, h3⟩) | ⟨rfl, _, rfl⟩)
          · exact Or.inl h1
          · exact Or.inr ⟨h1, h2, fun hc => h3 (List.mem_of_mem_erase hc)⟩
          · refine Or.inr ⟨by rw [hkq, hk'], hinq, ?_⟩
            intro hc
            exact ((hpnd.mem_erase_iff).1 hc).1 rfl
      · rw [hrx q hqq]
        constructor
        · exact fun hx => Or.inl hx
        · rintro (hx | ⟨_, hx, _⟩)
          · exact hx
          · exact absurd hx hqq
    rw [hs, hr, h.sync k p q hp hq hm]
  · -- len
    intro p hp
    simp only [hk, hi]
    exact h.len p hp
  · -- ghost
    intro k p v hv
    simp only [hk]
    exact h.ghost k p v hv
  · -- data
    intro sched hext p hp
    simp only [hk, hi]
    by_cases hpq : p = q0
    · subst hpq
      refine ⟨fun hc => (by rw [hinq] at hc; cases hc), fun _ => ?_⟩
      rw [hs0, ha0, midState_snoc, (h.data sched hext p hp).2 hinq]
      congr 1
      -- the message that is read now is the message of the same communication
      simp only [transferMsg, specMsg]
      rw [(h.data sched hext p0 hp0).2 hinp, hk', ← hkq]
      rw [hkq, midState_sendB, ← hkq]
    · rw [hsx p hpq, hax p hpq]
      exact h.data sched hext p hp

/-! ### every step keeps the invariant -/

theorem AInv.step {A : ASys Val Data} {st0 : Nat → PState Val Data} (hA : AOK A) {s s' : AState Val Data}
    (h : AInv A st0 s) (hs : AStep A s s') : AInv A st0 s' := by
  cases hs with
  | enter p hp hin hk => exact h.enter hA p hp hin hk _ (upd_same _ _ _) (fun x hx => upd_other _ _ hx)
  | finish p order hp hin hpend hw hord =>
    exact h.finish hA p order hp hin hpend hw hord _ (upd_same _ _ _) (fun x hx => upd_other _ _ hx) _ rfl
  | transfer p q k' pre post hp hq hout hpre hinq hpend =>
    apply h.transfer hA p q k' pre post hp hq hout hpre hinq hpend
    · intro x
      simp only [upd, landProc]
      by_cases hxq : x = q <;> by_cases hxp : x = p <;> by_cases hqp : q = p <;> simp_all
    · intro x
      simp only [upd, landProc]
      by_cases hxq : x = q <;> by_cases hxp : x = p <;> by_cases hqp : q = p <;> simp_all
    · simp only [upd, landProc]
      by_cases hqp : p = q <;> simp_all
    · intro x hx
      simp only [upd, landProc]
      by_cases hxq : x = q <;> by_cases hqp : q = p <;> simp_all
    · simp only [upd, landProc]
      by_cases hqp : q = p <;> simp_all
    · intro x hx
      simp only [upd, landProc]
      by_cases hxp : x = p <;> simp_all
    · simp only [upd, landProc]
      by_cases hqp : q = p <;> simp_all
    · intro x hx
      simp only [upd, landProc]
      by_cases hxp : x = p <;> simp_all
    · simp only [upd, landProc]
      by_cases hqp : q = p <;> simp_all
    · intro x hx
      simp only [upd, landProc]
      by_cases hxp : x = p <;> simp_all

theorem areach_inv {A : ASys Val Data} {st0 : Nat → PState Val Data} (hA : AOK A) {s : AState Val Data}
    (hr : AReach A st0 s) : AInv A st0 s := by
  induction hr with
  | init => exact AInv.init A st0
  | step _ hs ih => exact ih.step hA hs

/-! ### the synchronous semantics is `runSt` -/

theorem runSt_append (comm : Nat → Comm) (gather : Data → Nat → Nat → Val) (scatter : Data → Val → Nat → Nat → Data) :
    ∀ (rs : List Round) (r : Round) (st : Nat → PState Val Data),
      runSt comm gather scatter (rs ++ [r]) st = worldStep comm gather scatter r (runSt comm gather scatter rs st)
  | [], _, _ => rfl
  | _ :: rs, r, st => by
    simp only [List.cons_append, runSt]
    exact runSt_append comm gather scatter rs r _

/-- without user assignments between the communications the synchronous semantics is `runSt` on the history whose
    schedules are the given ones -/
theorem specSt_eq_runSt (A : ASys Val Data) (st0 : Nat → PState Val Data) (sched : Nat → Nat → List Nat × List Nat)
    (hpre : ∀ k p c, A.pre k p c = c) :
    ∀ k, specSt A st0 sched k = runSt A.comm A.gather A.scatter ((List.range k).map (roundOf A sched)) st0
  | 0 => rfl
  | k + 1 => by
    rw [List.range_succ, List.map_append, List.map_cons, List.map_nil, runSt_append, ← specSt_eq_runSt A st0 sched hpre k]
    simp only [specSt, applyPre, hpre]

/-! ### no deadlock -/

theorem exists_min_below (f : Nat → Nat) : ∀ P, 0 < P → ∃ p, p < P ∧ ∀ x, x < P → f p ≤ f x
  | 0, h => absurd h (Nat.lt_irrefl 0)
  | 1, _ => ⟨0, Nat.zero_lt_one, fun x hx => by
      have : x = 0 := Nat.lt_one_iff.1 hx
      subst this
      exact Nat.le_refl _⟩
  | P + 2, _ => by
    obtain ⟨p, hp, hmin⟩ := exists_min_below f (P + 1) (Nat.succ_pos _)
    by_cases hc : f p ≤ f (P + 1)
    · refine ⟨p, Nat.lt_succ_of_lt hp, fun x hx => ?_⟩
      rcases Nat.lt_succ_iff_lt_or_eq.1 hx with hx | rfl
      · exact hmin x hx
      · exact hc
    · refine ⟨P + 1, Nat.lt_succ_self _, fun x hx => ?_⟩
      rcases Nat.lt_succ_iff_lt_or_eq.1 hx with hx | rfl
      · exact Nat.le_trans (Nat.le_of_lt (Nat.lt_of_not_le hc)) (hmin x hx)
      · exact Nat.le_refl _

/-- the oldest entry of a queue for destination `q` -/
theorem split_first_dest (q : Nat) : ∀ (l : List (Nat × Nat)), (∃ e, e ∈ l ∧ e.1 = q) →
    ∃ pre k' post, l = pre ++ (q, k') :: post ∧ ∀ e, e ∈ pre → e.1 ≠ q
  | [], h => by obtain ⟨e, he, _⟩ := h; cases he
  | x :: xs, h => by
    by_cases hx : x.1 = q
    · refine ⟨[], x.2, xs, ?_, fun e he => by cases he⟩
      rw [← hx]
      rfl
    · have : ∃ e, e ∈ xs ∧ e.1 = q := by
        obtain ⟨e, he, heq⟩ := h
        rcases List.mem_cons.1 he with rfl | he
        · exact absurd heq hx
        · exact ⟨e, he, heq⟩
      obtain ⟨pre, k', post, hl, hpre⟩ := split_first_dest q xs this
      refine ⟨x :: pre, k', post, by rw [hl]; rfl, fun e he => ?_⟩
      rcases List.mem_cons.1 he with rfl | he
      · exact hx
      · exact hpre e he

/-- progress measure of one process: twice the finished communications, plus one inside `sendRecv` -/
def AProc.mu (a : AProc Val Data) : Nat := 2 * a.k + (if a.inC then 1 else 0)

/-- **no state with an unfinished process is stuck** -/
theorem AInv.progress {A : ASys Val Data} {st0 : Nat → PState Val Data} (hA : AOK A) {s : AState Val Data}
    (h : AInv A st0 s) (hnot : ∃ p, p < A.P ∧ (s.σ p).k < A.dirs.length) : ∃ s', AStep A s s' := by
  obtain ⟨p', hp', hk'⟩ := hnot
  obtain ⟨p, hp, hmin⟩ := exists_min_below (fun x => (s.σ x).mu) A.P (Nat.lt_of_le_of_lt (Nat.zero_le _) hp')
  have hkp : (s.σ p).k < A.dirs.length := by
    have h1 := hmin p' hp'
    simp only [AProc.mu] at h1
    have h2 : (if (s.σ p).inC = true then 1 else 0) ≥ 0 := Nat.zero_le _
    have h3 : (if (s.σ p').inC = true then 1 else 0) ≤ 1 := by split <;> simp
    omega
  cases hin : (s.σ p).inC with
  | false => exact ⟨_, AStep.enter s p hp hin hkp⟩
  | true =>
    have hmu : (s.σ p).mu = 2 * (s.σ p).k + 1 := by simp [AProc.mu, hin]
    -- a neighbour at the same communication, inside sendRecv, whenever it is not ahead
    have hsame : ∀ x, x < A.P → ¬ (s.σ p).k < (s.σ x).k → (s.σ x).k = (s.σ p).k ∧ (s.σ x).inC = true := by
      intro x hx hnlt
      have h1 := hmin x hx
      rw [hmu] at h1
      simp only [AProc.mu] at h1
      cases hix : (s.σ x).inC with
      | false => rw [hix] at h1; simp at h1; omega
      | true => rw [hix] at h1; simp at h1; exact ⟨by omega, rfl⟩
    cases hpr : (s.σ p).pendR with
    | cons r rest =>
      -- the receive from r is pending: r has posted the matching send and it is still outstanding
      have hrp : r ∈ (s.σ p).pendR := by rw [hpr]; simp
      have hrecv : r ∈ (A.comm p).postedRecvs (A.dir (s.σ p).k) :=
        (h.recv_ok p hp hin).subset (List.mem_append_left _ hrp)
      have hr : r < A.P := hA.recvsLt _ p r hp hrecv
      have hsend : p ∈ (A.comm r).postedSends (A.dir (s.σ p).k) := (hA.matched _ r p hr hp).2 hrecv
      have hnr : ¬ recvDone s.σ p r (s.σ p).k := by
        rintro (h1 | ⟨_, _, h3⟩)
        · exact Nat.lt_irrefl _ h1
        · exact h3 hrp
      have hns : ¬ sentDone s.σ r p (s.σ p).k := fun hs => hnr ((h.sync _ r p hr hp hsend).1 hs)
      obtain ⟨hkr, hir⟩ := hsame r hr (fun hlt => hns (Or.inl hlt))
      have hmem : (p, (s.σ p).k) ∈ (s.σ r).outS := by
        apply Classical.byContradiction
        intro hc
        exact hns (Or.inr ⟨hkr.symm, hir, hc⟩)
      obtain ⟨pre, k', post, hl, hpre⟩ := split_first_dest p (s.σ r).outS ⟨_, hmem, rfl⟩
      exact ⟨_, AStep.transfer s r p k' pre post hr hp hl hpre hin hrp⟩
    | nil =>
      cases hou : (s.σ p).outS with
      | nil =>
        refine ⟨_, AStep.finish s p (s.σ p).arrd hp hin hpr ?_ (List.Perm.refl _)⟩
        intro e he
        rw [hou] at he
        cases he
      | cons e rest =>
        have hep : e ∈ (s.σ p).outS := by rw [hou]; simp
        obtain ⟨_, hek, hes⟩ := h.outS_ok p hp e hep
        have hq : e.1 < A.P := hA.sendsLt _ p e.1 hp hes
        have hns : ¬ sentDone s.σ p e.1 (s.σ p).k := by
          rintro (h1 | ⟨_, _, h3⟩)
          · exact Nat.lt_irrefl _ h1
          · apply h3
            rw [← hek]
            exact hep
        have hnr : ¬ recvDone s.σ e.1 p (s.σ p).k := fun hr => hns ((h.sync _ p e.1 hp hq hes).2 hr)
        obtain ⟨hkq, hiq⟩ := hsame e.1 hq (fun hlt => hnr (Or.inl hlt))
        have hmem : p ∈ (s.σ e.1).pendR := by
          apply Classical.byContradiction
          intro hc
          exact hnr (Or.inr ⟨hkq.symm, hiq, hc⟩)
        obtain ⟨pre, k', post, hl, hpre⟩ := split_first_dest e.1 (s.σ p).outS ⟨e, hep, rfl⟩
        exact ⟨_, AStep.transfer s p e.1 k' pre post hp hq hl hpre hiq hmem⟩

/-! ### every move decreases a measure -/

theorem sum_range_lt (f g : Nat → Nat) (q : Nat) : ∀ P, q < P → (∀ x, x ≠ q → g x = f x) → g q < f q →
    ((List.range P).map g).sum < ((List.range P).map f).sum := by
  intro P
  induction P with
  | zero => intro h; omega
  | succ n ih =>
    intro hq hx hlt
    rw [List.range_succ, List.map_append, List.map_append, List.sum_append, List.sum_append]
    simp only [List.map_cons, List.map_nil, List.sum_cons, List.sum_nil, Nat.add_zero]
    by_cases hn : q = n
    · subst hn
      have hsame : (List.range q).map g = (List.range q).map f := by
        apply List.map_congr_left
        intro z hz
        have : z ≠ q := by have := List.mem_range.mp hz; omega
        exact hx z this
      rw [hsame]
      omega
    · have hlt' : q < n := by omega
      have := ih hlt' hx hlt
      have hne : n ≠ q := fun h => hn h.symm
      rw [hx n hne]
      omega

/-- what process `p` still has to do: per outstanding phase of the history more than it can ever have pending receives,
    plus the pending receives -/
def AProc.todo (A : ASys Val Data) (p : Nat) (a : AProc Val Data) : Nat :=
  (1 + ((A.comm p).postedRecvs true).length + ((A.comm p).postedRecvs false).length) *
      (2 * (A.dirs.length - a.k) - (if a.inC then 1 else 0)) + a.pendR.length

def atodo (A : ASys Val Data) (σ : Nat → AProc Val Data) : Nat := ((List.range A.P).map fun p => (σ p).todo A p).sum

theorem postedRecvs_len_le (A : ASys Val Data) (p : Nat) (d : Bool) :
    ((A.comm p).postedRecvs d).length <
      1 + ((A.comm p).postedRecvs true).length + ((A.comm p).postedRecvs false).length := by
  cases d <;> omega

theorem todo_arith (W r x : Nat) (hr : r < W) (hx : 0 < x) : W * (x - 1) + r < W * x := by
  obtain ⟨y, rfl⟩ : ∃ y, x = y + 1 := ⟨x - 1, by omega⟩
  simp only [Nat.add_sub_cancel, Nat.mul_succ]
  omega

theorem todo_outS (A : ASys Val Data) (p : Nat) (a : AProc Val Data) (o : List (Nat × Nat)) :
    AProc.todo A p { a with outS := o } = AProc.todo A p a := rfl

theorem todo_landProc (A : ASys Val Data) (q p : Nat) (m : List Val) (b b' : AProc Val Data) (hmem : p ∈ b.pendR)
    (hk : b.k = b'.k) (hi : b.inC = b'.inC) (hp : b.pendR = b'.pendR) :
    (landProc A q p m b).todo A q + 1 = b'.todo A q := by
  have hl : (b.pendR.erase p).length + 1 = b'.pendR.length := by
    rw [List.length_erase_of_mem hmem, ← hp]
    have : 0 < b.pendR.length := List.length_pos_of_mem hmem
    omega
  show (1 + ((A.comm q).postedRecvs true).length + ((A.comm q).postedRecvs false).length) *
        (2 * (A.dirs.length - b.k) - (if b.inC then 1 else 0)) + (b.pendR.erase p).length + 1 =
      (1 + ((A.comm q).postedRecvs true).length + ((A.comm q).postedRecvs false).length) *
        (2 * (A.dirs.length - b'.k) - (if b'.inC then 1 else 0)) + b'.pendR.length
  rw [hk, hi]
  omega

theorem AInv.step_todo_lt {A : ASys Val Data} {st0 : Nat → PState Val Data} {s s' : AState Val Data}
    (h : AInv A st0 s) (hs : AStep A s s') : atodo A s'.σ < atodo A s.σ := by
  cases hs with
  | enter p hp hin hk =>
    apply sum_range_lt _ _ p A.P hp
    · intro x hx
      simp only [upd_other _ _ hx]
    · have e1 : (enterProc A p (s.σ p)).todo A p =
          (1 + ((A.comm p).postedRecvs true).length + ((A.comm p).postedRecvs false).length) *
            (2 * (A.dirs.length - (s.σ p).k) - 1) + ((A.comm p).postedRecvs (A.dir (s.σ p).k)).length := by
        simp [AProc.todo, enterProc]
      have e2 : (s.σ p).todo A p =
          (1 + ((A.comm p).postedRecvs true).length + ((A.comm p).postedRecvs false).length) *
            (2 * (A.dirs.length - (s.σ p).k)) := by
        simp [AProc.todo, hin, (h.idle_ok p hp hin).1]
      simp only [upd_same]
      rw [e1, e2]
      exact todo_arith _ _ _ (postedRecvs_len_le A p _) (by omega)
  | finish p order hp hin hpend hw hord =>
    apply sum_range_lt _ _ p A.P hp
    · intro x hx
      simp only [upd_other _ _ hx]
    · have hk := (h.len p hp).2 hin
      have e1 : (finishProc A p order (s.σ p)).todo A p =
          (1 + ((A.comm p).postedRecvs true).length + ((A.comm p).postedRecvs false).length) *
            (2 * (A.dirs.length - ((s.σ p).k + 1))) := by
        simp [AProc.todo, finishProc]
      have e2 : (s.σ p).todo A p =
          (1 + ((A.comm p).postedRecvs true).length + ((A.comm p).postedRecvs false).length) *
            (2 * (A.dirs.length - (s.σ p).k) - 1) := by
        simp [AProc.todo, hin, hpend]
      simp only [upd_same]
      rw [e1, e2]
      apply Nat.mul_lt_mul_of_pos_left
      · omega
      · omega
  | transfer p q k' pre post hp hq hout hpre hinq hpend =>
    apply sum_range_lt _ _ q A.P hq
    · intro x hx
      simp only [upd, hx, if_false]
      by_cases hxp : x = p
      · simp only [hxp, if_true]
        exact todo_outS A p (s.σ p) _
      · simp only [hxp, if_false]
    · simp only [upd_same]
      refine Nat.lt_of_succ_le (Nat.le_of_eq (todo_landProc A q p _ _ (s.σ q) ?_ ?_ ?_ ?_))
      · by_cases hqp : q = p
        · subst hqp; simpa [upd_same] using hpend
        · simpa [upd_other _ _ hqp] using hpend
      · by_cases hqp : q = p
        · subst hqp; simp [upd_same]
        · simp [upd_other _ _ hqp]
      · by_cases hqp : q = p
        · subst hqp; simp [upd_same]
        · simp [upd_other _ _ hqp]
      · by_cases hqp : q = p
        · subst hqp; simp [upd_same]
        · simp [upd_other _ _ hqp]

end

end DV.C05
