/-
C12 — two concrete renderings of a hierarchy (all keys dotted / every entry under its own [group]) with their
denotations and well-formedness, used to show that the hypotheses of `parse_render` are satisfiable for every
hierarchy and that groups and dotted keys spell the same assignments.
-/
import DuneVerif.Proofs.C12Tree

namespace DV.C12

/-- a character that may occur in a key component -/
def keyChar (c : Char) : Bool := !isWs c && c != '=' && c != '#' && c != '[' && c != ']' && c != '.'

/-- a key component of the documented dialect: non-empty, over `keyChar` (⊇ `[A-Za-z0-9_]`) -/
def compOK (c : Str) : Bool := !c.isEmpty && c.all keyChar

/-- a value that can be written down: one of the two quote characters does not occur in it, and its first
    line has no `#` (left undetermined by the documentation) -/
def valOK (v : Str) : Bool :=
  (v.all (· != '"') || v.all (· != '\'')) && (v.takeWhile (· != '\n')).all (· != '#')

/-- lexical condition on a full key as written in front of `=` -/
def keyOK (k : Str) : Bool :=
  k.all (fun c => c != '=' && c != '#' && c != '\n') && trimmed k && k.head? != some '['

def pickQuote (v : Str) : Char := if v.all (· != '"') then '"' else '\''

def quotedAssign (key value : Str) : Item := .assign [] key [] [] (some (pickQuote value)) value [] none

theorem quotedAssign_wf (key value : Str) (hk : keyOK key = true) (hv : valOK value = true) :
    (quotedAssign key value).wf = true := by
  simp only [keyOK, Bool.and_eq_true] at hk
  simp only [valOK, Bool.and_eq_true, Bool.or_eq_true] at hv
  simp only [quotedAssign, Item.wf, blankStr, List.all_nil, Bool.true_and, hk.1.1, hk.1.2, hk.2, Option.all_none,
    Bool.and_true, Option.isNone_none, Bool.or_true, hv.2]
  unfold pickQuote
  split
  · rename_i h; simp [isQuote, h]
  · rename_i h
    rcases hv.1 with h1 | h1
    · exact absurd h1 h
    · simp [isQuote, h1]

/-! ### rendering 1: dotted keys only -/

def dottedItems (es : List (Str × Str)) : List Item := es.map fun e => quotedAssign e.1 e.2

theorem denote_dotted : ∀ (es : List (Str × Str)), denote [] (dottedItems es) = es
  | [] => rfl
  | (k, v) :: r => by
    simp only [dottedItems, List.map_cons, quotedAssign, denote, List.nil_append]
    rw [show List.map (fun e : Str × Str => Item.assign [] e.1 [] [] (some (pickQuote e.2)) e.2 [] none) r = dottedItems r from rfl,
      denote_dotted r]

theorem dotted_wf (es : List (Str × Str)) (h : ∀ e ∈ es, keyOK e.1 = true ∧ valOK e.2 = true) :
    ∀ it ∈ dottedItems es, it.wf = true := by
  intro it hit
  simp only [dottedItems, List.mem_map] at hit
  obtain ⟨e, he, rfl⟩ := hit
  exact quotedAssign_wf e.1 e.2 (h e he).1 (h e he).2

/-! ### rendering 2: one `[group]` header per entry, the key is the last component -/

def groupedItem (e : List Str × Str) : List Item :=
  [.header [] [] (joinDots e.1.dropLast) [] [], quotedAssign (e.1.getLast?.getD []) e.2]

def groupedItems (ps : List (List Str × Str)) : List Item := ps.flatMap groupedItem

theorem joinC_concat (c : Char) : ∀ (g : List Str) (x : Str), g ≠ [] → joinC c (g ++ [x]) = joinC c g ++ c :: x
  | [], _, h => absurd rfl h
  | [a], x, _ => by simp [joinC]
  | a :: b :: r, x, _ => by
    have ih := joinC_concat c (b :: r) x (by simp)
    simp only [List.cons_append, joinC] at ih ⊢
    rw [ih]
    simp

theorem joinC_ne_nil (c : Char) : ∀ (g : List Str), g ≠ [] → (∀ x ∈ g, x ≠ []) → joinC c g ≠ []
  | [], h, _ => absurd rfl h
  | [a], _, h => by simpa [joinC] using h a (by simp)
  | a :: b :: r, _, h => by
    simp only [joinC]
    have := h a (by simp)
    cases a with
    | nil => exact absurd rfl this
    | cons x y => simp

theorem joinC_all (c : Char) (P : Char → Bool) (hc : P c = true) : ∀ (g : List Str), (∀ x ∈ g, x.all P = true) →
    (joinC c g).all P = true
  | [], _ => rfl
  | [a], h => by simpa [joinC] using h a (by simp)
  | a :: b :: r, h => by
    have ih := joinC_all c P hc (b :: r) (fun x hx => h x (List.mem_cons_of_mem _ hx))
    simp only [joinC, List.all_append, List.all_cons, Bool.and_eq_true]
    exact ⟨h a (by simp), hc, ih⟩

theorem trimmed_of_no_ws {s : Str} (h : s.all (fun c => !isWs c) = true) : trimmed s = true := by
  simp only [trimmed, Bool.and_eq_true]
  constructor
  · cases s with
    | nil => rfl
    | cons c r => simp at h; simp [h.1]
  · cases hl : s.getLast? with
    | none => rfl
    | some c =>
      have := (List.all_eq_true.mp h) c (List.mem_of_getLast? hl)
      simpa using this

theorem keyChar_not_ws {c : Char} (h : keyChar c = true) : (!isWs c) = true := by
  simp only [keyChar, Bool.and_eq_true] at h
  exact h.1.1.1.1.1

/-- what one grouped entry denotes, from any prefix in force -/
theorem denote_grouped_one (e : List Str × Str) (hne : e.1 ≠ []) (hc : ∀ c ∈ e.1, compOK c = true)
    (pfx : Str) (r : List Item) :
    denote pfx (groupedItem e ++ r) = (joinDots e.1, e.2) :: denote (newPrefix (joinDots e.1.dropLast)) r := by
  obtain ⟨g, x, hgx⟩ : ∃ g x, e.1 = g ++ [x] := by
    rcases List.eq_nil_or_concat e.1 with h | ⟨g, x, h⟩
    · exact absurd h hne
    · exact ⟨g, x, by rw [h, List.concat_eq_append]⟩
  simp only [groupedItem, quotedAssign, List.cons_append, List.nil_append, denote]
  rw [hgx]
  simp only [List.dropLast_concat, List.getLast?_concat, Option.getD_some]
  congr 1
  cases g with
  | nil => simp [joinDots, joinC, newPrefix]
  | cons a b =>
    have hne' : joinC '.' (a :: b) ≠ [] := by
      apply joinC_ne_nil '.' (a :: b) (by simp)
      intro y hy
      have := hc y (by rw [hgx]; simp only [List.mem_append]; exact Or.inl hy)
      simp only [compOK, Bool.and_eq_true, Bool.not_eq_true', List.isEmpty_eq_false_iff] at this
      exact this.1
    simp only [joinDots, newPrefix, hne', if_false]
    rw [joinC_concat '.' (a :: b) x (by simp)]
    simp

theorem denote_grouped : ∀ (ps : List (List Str × Str)), (∀ e ∈ ps, e.1 ≠ [] ∧ ∀ c ∈ e.1, compOK c = true) →
    ∀ (pfx : Str), denote pfx (groupedItems ps) = ps.map (fun e => (joinDots e.1, e.2))
  | [], _, _ => rfl
  | e :: r, h, pfx => by
    have := denote_grouped_one e (h e (by simp)).1 (h e (by simp)).2 pfx (groupedItems r)
    simp only [groupedItems, List.flatMap_cons] at this ⊢
    rw [this]
    simp only [List.map_cons]
    congr 1
    exact denote_grouped r (fun x hx => h x (List.mem_cons_of_mem _ hx)) _

theorem compOK_keyOK {c : Str} (h : compOK c = true) : keyOK c = true := by
  simp only [compOK, Bool.and_eq_true] at h
  have hall := List.all_eq_true.mp h.2
  simp only [keyOK, Bool.and_eq_true]
  refine ⟨⟨?_, ?_⟩, ?_⟩
  · rw [List.all_eq_true]
    intro x hx
    have := hall x hx
    simp only [keyChar, Bool.and_eq_true] at this
    have hnl : x ≠ '\n' := by
      intro e
      rw [e] at this
      simp [isWs] at this
    simp only [Bool.and_eq_true]
    exact ⟨⟨this.1.1.1.1.2, this.1.1.1.2⟩, by simpa using hnl⟩
  · apply trimmed_of_no_ws
    rw [List.all_eq_true]
    intro x hx
    exact keyChar_not_ws (hall x hx)
  · cases c with
    | nil => simp
    | cons x r =>
      have := hall x (by simp)
      simp only [keyChar, Bool.and_eq_true] at this
      simpa using this.1.1.2

theorem grouped_wf (ps : List (List Str × Str))
    (h : ∀ e ∈ ps, e.1 ≠ [] ∧ (∀ c ∈ e.1, compOK c = true) ∧ valOK e.2 = true) :
    ∀ it ∈ groupedItems ps, it.wf = true := by
  intro it hit
  simp only [groupedItems, List.mem_flatMap] at hit
  obtain ⟨e, he, hit⟩ := hit
  obtain ⟨hne, hc, hv⟩ := h e he
  simp only [groupedItem, List.mem_cons, List.mem_nil_iff, or_false] at hit
  rcases hit with rfl | rfl
  · -- the header
    have hall : (joinDots e.1.dropLast).all (fun c => !isWs c && c != '\n' && c != ']') = true := by
      apply joinC_all '.' _ (by decide)
      intro x hx
      have := hc x (List.dropLast_subset _ hx)
      simp only [compOK, Bool.and_eq_true] at this
      rw [List.all_eq_true]
      intro y hy
      have hk := (List.all_eq_true.mp this.2) y hy
      have hws := keyChar_not_ws hk
      simp only [keyChar, Bool.and_eq_true] at hk
      have hnl : y ≠ '\n' := by
        intro e; rw [e] at hws; simp [isWs] at hws
      simp only [Bool.and_eq_true]
      exact ⟨⟨hws, by simpa using hnl⟩, hk.1.2⟩
    have hall' := List.all_eq_true.mp hall
    simp only [Item.wf, blankStr, noNl, List.all_nil, Bool.true_and, Bool.and_eq_true]
    refine ⟨⟨?_, ?_⟩, ?_⟩
    · rw [List.all_eq_true]; intro x hx
      have := hall' x hx; simp only [Bool.and_eq_true] at this; exact this.1.2
    · rw [List.all_eq_true]; intro x hx
      have := hall' x hx; simp only [Bool.and_eq_true] at this; exact this.2
    · apply trimmed_of_no_ws
      rw [List.all_eq_true]; intro x hx
      have := hall' x hx; simp only [Bool.and_eq_true] at this; exact this.1.1
  · -- the assignment
    apply quotedAssign_wf _ _ _ hv
    obtain ⟨g, x, hgx⟩ : ∃ g x, e.1 = g ++ [x] := by
      rcases List.eq_nil_or_concat e.1 with h | ⟨g, x, h⟩
      · exact absurd h hne
      · exact ⟨g, x, by rw [h, List.concat_eq_append]⟩
    rw [hgx]
    simp only [List.getLast?_concat, Option.getD_some]
    exact compOK_keyOK (hc x (by rw [hgx]; simp))

end DV.C12
