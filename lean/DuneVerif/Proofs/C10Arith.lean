/-
C10 helper lemmas, part 2: the carry loops `addLoop`, `incrLoop`, `subLoop`.  Core Lean only.
-/
import DuneVerif.Proofs.C10Basic

namespace DV.C10
open DV.C10.Gen

/-! ### operator+= -/

theorem addLoop_length : ∀ (a x : List Nat) (c : Nat), a.length = x.length → (addLoop a x c).length = a.length
  | [], [], _, _ => rfl
  | [], _ :: _, _, h => by simp at h
  | _ :: _, [], _, h => by simp at h
  | a :: as, x :: xs, c, h => by
    simp only [addLoop, List.length_cons]
    rw [addLoop_length as xs _ (by simpa using h)]

theorem addLoop_digs : ∀ (a x : List Nat) (c : Nat), Digs (addLoop a x c)
  | [], _, _ => by simp [addLoop]
  | _ :: _, [], _ => by simp [addLoop]
  | a :: as, x :: xs, c => by
    simp only [addLoop, digs_cons, and_bitmask]
    exact ⟨Nat.mod_lt _ B_pos, addLoop_digs as xs _⟩

theorem addLoop_val : ∀ (a x : List Nat) (c : Nat), a.length = x.length → Digs a → Digs x → c ≤ 1 →
    val (addLoop a x c) = (val a + val x + c) % W a.length
  | [], [], c, _, _, _, _ => by simp [addLoop, W, Nat.mod_one]
  | [], _ :: _, _, h, _, _, _ => by simp at h
  | _ :: _, [], _, h, _, _, _ => by simp at h
  | a :: as, x :: xs, c, h, ha, hx, hc => by
    rw [digs_cons] at ha hx
    have hB := B_eq
    have hc' : (a + x + c) / B ≤ 1 := by
      have h1 := ha.1; have h2 := hx.1
      rw [B_eq] at *; omega
    simp only [addLoop, and_bitmask, shr_bits, and_overflowmask hc', val_cons, List.length_cons, W_succ]
    rw [addLoop_val as xs _ (by simpa using h) ha.2 hx.2 hc']
    have e : a + B * val as + (x + B * val xs) + c = (a + x + c) + B * (val as + val xs) := by
      rw [Nat.mul_add]; omega
    rw [e, digit_step, Nat.add_comm ((a + x + c) / B)]

theorem add_wf {n : Nat} {a x : List Nat} (ha : Wf n a) (hx : Wf n x) : Wf n (add a x) :=
  ⟨by rw [add, addLoop_length _ _ _ (by rw [ha.1, hx.1]), ha.1], addLoop_digs _ _ _⟩

theorem add_val' {n : Nat} {a x : List Nat} (ha : Wf n a) (hx : Wf n x) :
    val (add a x) = (val a + val x) % W n := by
  rw [add, addLoop_val a x 0 (by rw [ha.1, hx.1]) ha.2 hx.2 (by omega), ha.1, Nat.add_zero]

/-! ### operator++ -/

theorem incrLoop_length : ∀ (a : List Nat) (c : Nat), (incrLoop a c).length = a.length
  | [], _ => rfl
  | a :: as, c => by simp only [incrLoop, List.length_cons]; rw [incrLoop_length as _]

theorem incrLoop_digs : ∀ (a : List Nat) (c : Nat), Digs (incrLoop a c)
  | [], _ => by simp [incrLoop]
  | a :: as, c => by
    simp only [incrLoop, digs_cons, and_bitmask]
    exact ⟨Nat.mod_lt _ B_pos, incrLoop_digs as _⟩

theorem incrLoop_val : ∀ (a : List Nat) (c : Nat), Digs a → c ≤ 1 →
    val (incrLoop a c) = (val a + c) % W a.length
  | [], c, _, _ => by simp [incrLoop, W, Nat.mod_one]
  | a :: as, c, ha, hc => by
    rw [digs_cons] at ha
    have hB := B_eq
    have hc' : (a + c) / B ≤ 1 := by
      have h1 := ha.1
      rw [B_eq] at *; omega
    simp only [incrLoop, and_bitmask, shr_bits, and_overflowmask hc', val_cons, List.length_cons, W_succ]
    rw [incrLoop_val as _ ha.2 hc']
    have e : a + B * val as + c = (a + c) + B * val as := by omega
    rw [e, digit_step, Nat.add_comm ((a + c) / B)]

theorem incr_wf {n : Nat} {a : List Nat} (ha : Wf n a) : Wf n (incr a) :=
  ⟨by rw [incr, incrLoop_length, ha.1], incrLoop_digs _ _⟩

theorem incr_val' {n : Nat} {a : List Nat} (ha : Wf n a) : val (incr a) = (val a + 1) % W n := by
  rw [incr, incrLoop_val a 1 ha.2 (by omega), ha.1]

/-! ### operator-= -/

theorem subLoop_length : ∀ (a x : List Nat) (c : Nat), a.length = x.length → (subLoop a x c).length = a.length
  | [], [], _, _ => rfl
  | [], _ :: _, _, h => by simp at h
  | _ :: _, [], _, h => by simp at h
  | a :: as, x :: xs, c, h => by
    simp only [subLoop]
    split <;> simp only [List.length_cons] <;> rw [subLoop_length as xs _ (by simpa using h)]

theorem subLoop_digs : ∀ (a x : List Nat) (c : Nat), Digs a → Digs (subLoop a x c)
  | [], _, _, _ => by simp [subLoop]
  | _ :: _, [], _, _ => by simp [subLoop]
  | a :: as, x :: xs, c, ha => by
    rw [digs_cons] at ha
    have hm := bitmask_succ
    have h1 := ha.1
    simp only [subLoop]
    split
    · rw [digs_cons]; exact ⟨by omega, subLoop_digs as xs _ ha.2⟩
    · rw [digs_cons]; exact ⟨by omega, subLoop_digs as xs _ ha.2⟩

/-- borrow invariant: the loop computes `a - x - c` up to one final borrow of `W` -/
theorem subLoop_val : ∀ (a x : List Nat) (c : Nat), a.length = x.length → Digs a → Digs x → c ≤ 1 →
    ∃ b, b ≤ 1 ∧ val (subLoop a x c) + val x + c = val a + b * W a.length
  | [], [], c, _, _, _, hc => ⟨c, hc, by simp [subLoop, W]⟩
  | [], _ :: _, _, h, _, _, _ => by simp at h
  | _ :: _, [], _, h, _, _, _ => by simp at h
  | a :: as, x :: xs, c, h, ha, hx, hc => by
    rw [digs_cons] at ha hx
    have hm := bitmask_succ
    have hB := B_eq
    have h1 := ha.1
    have h2 := hx.1
    simp only [subLoop]
    split
    · rename_i hle
      obtain ⟨b, hb, ih⟩ := subLoop_val as xs 0 (by simpa using h) ha.2 hx.2 (by omega)
      refine ⟨b, hb, ?_⟩
      simp only [val_cons, List.length_cons, W_succ]
      rw [Nat.mul_left_comm b B]
      generalize b * W as.length = t at *
      rw [B_eq] at *
      omega
    · rename_i hle
      obtain ⟨b, hb, ih⟩ := subLoop_val as xs 1 (by simpa using h) ha.2 hx.2 (by omega)
      refine ⟨b, hb, ?_⟩
      simp only [val_cons, List.length_cons, W_succ]
      rw [Nat.mul_left_comm b B]
      generalize b * W as.length = t at *
      rw [B_eq] at *
      omega

theorem sub_wf {n : Nat} {a x : List Nat} (ha : Wf n a) (hx : Wf n x) : Wf n (sub a x) :=
  ⟨by rw [sub, subLoop_length _ _ _ (by rw [ha.1, hx.1]), ha.1], subLoop_digs _ _ _ ha.2⟩

theorem sub_val' {n : Nat} {a x : List Nat} (ha : Wf n a) (hx : Wf n x) :
    val (sub a x) = (val a + W n - val x) % W n := by
  obtain ⟨b, hb, h⟩ := subLoop_val a x 0 (by rw [ha.1, hx.1]) ha.2 hx.2 (by omega)
  have h1 := val_lt ha
  have h2 := val_lt hx
  have h3 := val_lt (sub_wf ha hx)
  rw [ha.1] at h
  change val (sub a x) + val x + 0 = _ at h
  have hb' : b = 0 ∨ b = 1 := by omega
  rcases hb' with rfl | rfl
  · have e : val a + W n - val x = (val a - val x) + W n := by omega
    rw [e, Nat.add_mod_right, Nat.mod_eq_of_lt (by omega)]; omega
  · rw [Nat.mod_eq_of_lt (by omega)]; omega

theorem sub_val_of_le {n : Nat} {a x : List Nat} (ha : Wf n a) (hx : Wf n x) (h : val x ≤ val a) :
    val (sub a x) = val a - val x := by
  rw [sub_val' ha hx]
  have h1 := val_lt ha
  have e : val a + W n - val x = (val a - val x) + W n := by omega
  rw [e, Nat.add_mod_right, Nat.mod_eq_of_lt (by omega)]

end DV.C10
