/-
C03 helper lemmas, part 3: the invariant of the state machine (every reachable state), merge/endResize facts,
renumbering, the reverse table.  Core Lean only.
-/
import DuneVerif.Proofs.C03Search

namespace DV.C03

def AllValid (xs : List Pair) : Prop := ∀ p ∈ xs, p.l.valid = true

/-- holds in every reachable state (theorem `run_inv`) -/
structure Inv (s : ISet) : Prop where
  sorted : SortedLex s.loc
  freshValid : AllValid s.fresh
  ground : s.st = .ground → s.fresh = [] ∧ AllValid s.loc
  nodel : s.del = false → AllValid s.loc

theorem init_inv : Inv init := by
  refine ⟨?_, ?_, ?_, ?_⟩ <;> simp [init, SortedLex, AllValid]

/-! ### `SortedLex` only depends on the keys -/

def KL (k1 k2 : Int × Nat) : Prop := k1.1 < k2.1 ∨ (k1.1 = k2.1 ∧ k1.2 ≤ k2.2)

theorem sortedLex_iff_keys (xs : List Pair) : SortedLex xs ↔ (xs.map key).Pairwise KL := by
  rw [List.pairwise_map]; exact Iff.rfl

theorem sortedLex_of_keys_eq {xs ys : List Pair} (h : xs.map key = ys.map key) (hs : SortedLex xs) : SortedLex ys := by
  rw [sortedLex_iff_keys] at *; rw [← h]; exact hs

theorem strictG_iff_globals (xs : List Pair) : StrictG xs ↔ (globals xs).Pairwise (· < ·) := by
  unfold globals; rw [List.pairwise_map]; exact Iff.rfl

theorem globals_eq_of_keys_eq {xs ys : List Pair} (h : xs.map key = ys.map key) : globals xs = globals ys := by
  have : (xs.map key).map (·.1) = (ys.map key).map (·.1) := by rw [h]
  simpa [globals, List.map_map, key, Function.comp_def] using this

/-- ascending in (global, attribute) with pairwise distinct globals = strictly ascending globals -/
theorem strictG_of_sortedLex_nodup {xs : List Pair} (hs : SortedLex xs) (hn : (globals xs).Nodup) : StrictG xs := by
  induction xs with
  | nil => simp [StrictG]
  | cons x xs ih =>
    unfold SortedLex at hs
    unfold StrictG
    rw [List.pairwise_cons] at hs ⊢
    simp only [globals, List.map_cons, List.nodup_cons] at hn
    refine ⟨?_, ih hs.2 hn.2⟩
    intro y hy
    have hle := keyLe_g (hs.1 y hy)
    have hne : x.g ≠ y.g := fun h => hn.1 (h ▸ List.mem_map.2 ⟨y, hy, rfl⟩)
    omega

theorem StrictG.nodup {xs : List Pair} (hs : StrictG xs) : (globals xs).Nodup := by
  rw [strictG_iff_globals] at hs
  exact List.Pairwise.imp (fun h => Int.ne_of_lt h) hs

theorem StrictG.keysNodup {xs : List Pair} (hs : StrictG xs) : KeysNodup xs := by
  unfold StrictG at hs
  exact List.Pairwise.imp (fun {a b} (h : a.g < b.g) (hk : key a = key b) => by
    have : a.g = b.g := congrArg Prod.fst hk
    omega) hs

/-- on strictly ascending globals, ascending (global, attribute) holds and the strict comparison of the code is true -/
theorem StrictG.before {xs : List Pair} (hs : StrictG xs) : xs.Pairwise (fun a b => before a b = true) := by
  unfold StrictG at hs
  exact List.Pairwise.imp (fun {a b} (h : a.g < b.g) => (before_iff a b).2 (Or.inl h)) hs

/-! ### `modifyAt` -/

theorem modifyAt_length (f : Pair → Pair) : ∀ (i : Nat) (xs : List Pair), (modifyAt f i xs).length = xs.length
  | i, [] => by cases i <;> rfl
  | 0, _ :: _ => rfl
  | i+1, _ :: ps => by simp [modifyAt, modifyAt_length f i ps]

/-- a projection that `f` does not change is not changed in the list -/
theorem modifyAt_map {β : Type} (f : Pair → Pair) (h : Pair → β) (hf : ∀ p, h (f p) = h p) :
    ∀ (i : Nat) (xs : List Pair), (modifyAt f i xs).map h = xs.map h
  | i, [] => by cases i <;> rfl
  | 0, p :: ps => by simp [modifyAt, hf]
  | i+1, p :: ps => by simp [modifyAt, modifyAt_map f h hf i ps]

theorem mem_modifyAt (f : Pair → Pair) : ∀ (i : Nat) (xs : List Pair) (q : Pair),
    q ∈ modifyAt f i xs → q ∈ xs ∨ ∃ p ∈ xs, q = f p
  | i, [], q, h => by cases i <;> simp [modifyAt] at h
  | 0, p :: ps, q, h => by
    rcases List.mem_cons.1 h with rfl | h
    · exact Or.inr ⟨p, List.mem_cons_self, rfl⟩
    · exact Or.inl (List.mem_cons_of_mem _ h)
  | i+1, p :: ps, q, h => by
    rcases List.mem_cons.1 h with rfl | h
    · exact Or.inl List.mem_cons_self
    · rcases mem_modifyAt f i ps q h with h | ⟨p', hp', rfl⟩
      · exact Or.inl (List.mem_cons_of_mem _ h)
      · exact Or.inr ⟨p', List.mem_cons_of_mem _ hp', rfl⟩

/-- with pairwise distinct globals, changing position `i` = changing the entry with that global index -/
theorem modifyAt_eq_map (f : Pair → Pair) : ∀ (i : Nat) (xs : List Pair) (p : Pair), StrictG xs → xs[i]? = some p →
    modifyAt f i xs = xs.map (fun q => if q.g = p.g then f q else q)
  | _, [], _, _, h => by simp at h
  | 0, x :: xs, p, hs, h => by
    simp at h; subst h
    unfold StrictG at hs
    rw [List.pairwise_cons] at hs
    simp only [modifyAt, List.map_cons, if_true]
    congr 1
    symm
    calc xs.map (fun q => if q.g = x.g then f q else q) = xs.map id := by
          apply List.map_congr_left
          intro q hq
          have := hs.1 q hq
          have hne : ¬ q.g = x.g := by omega
          simp [hne]
      _ = xs := List.map_id _
  | i+1, x :: xs, p, hs, h => by
    have h' : xs[i]? = some p := by simpa using h
    unfold StrictG at hs
    rw [List.pairwise_cons] at hs
    have hp : p ∈ xs := List.mem_of_getElem? h'
    have := hs.1 p hp
    have hne : ¬ x.g = p.g := by omega
    simp only [modifyAt, List.map_cons, hne, if_false]
    rw [modifyAt_eq_map f i xs p hs.2 h']

/-! ### `findKey` -/

theorem findKey_some {g : Int} {a : Nat} : ∀ {xs : List Pair} {i : Nat}, findKey g a xs = some i →
    ∃ p, xs[i]? = some p ∧ p.g = g ∧ p.l.attr = a
  | [], _, h => by simp [findKey] at h
  | x :: xs, i, h => by
    unfold findKey at h
    split at h
    · next hx => cases h; exact ⟨x, by simp, hx.1, hx.2⟩
    · rw [Option.map_eq_some_iff] at h
      obtain ⟨j, hj, rfl⟩ := h
      obtain ⟨p, hp, hpg⟩ := findKey_some hj
      exact ⟨p, by simpa using hp, hpg⟩

theorem findKey_none {g : Int} {a : Nat} : ∀ {xs : List Pair}, findKey g a xs = none →
    ∀ p ∈ xs, ¬ (p.g = g ∧ p.l.attr = a)
  | [], _, p, hp => by cases hp
  | x :: xs, h, p, hp => by
    unfold findKey at h
    split at h
    · cases h
    · next hx =>
      rw [Option.map_eq_none_iff] at h
      rcases List.mem_cons.1 hp with rfl | hp
      · exact hx
      · exact findKey_none h p hp

/-! ### renumbering -/

theorem renumFrom_length : ∀ (k : Nat) (xs : List Pair), (renumFrom k xs).length = xs.length
  | _, [] => rfl
  | k, _ :: ps => by simp [renumFrom, renumFrom_length (k+1) ps]

theorem renumFrom_getElem? : ∀ (k : Nat) (xs : List Pair) (i : Nat),
    (renumFrom k xs)[i]? = (xs[i]?).map (fun p => setLoc p (k + i))
  | _, [], _ => by simp [renumFrom]
  | k, p :: ps, 0 => by simp [renumFrom, setLoc]
  | k, p :: ps, i+1 => by
    simp only [renumFrom, List.getElem?_cons_succ]
    rw [renumFrom_getElem? (k+1) ps i]
    congr 1; funext q; congr 1; omega

theorem renumFrom_map {β : Type} (h : Pair → β) (hf : ∀ p k, h (setLoc p k) = h p) :
    ∀ (k : Nat) (xs : List Pair), (renumFrom k xs).map h = xs.map h
  | _, [] => rfl
  | k, p :: ps => by
    simp only [renumFrom, List.map_cons]
    rw [renumFrom_map h hf (k+1) ps]
    congr 1
    exact hf p k

/-- after renumbering from `k` the local numbers are `k, k+1, …` in iteration order -/
theorem renumFrom_locs : ∀ (k : Nat) (xs : List Pair), (renumFrom k xs).map (·.l.loc) = List.range' k xs.length
  | _, [] => rfl
  | k, p :: ps => by
    simp only [renumFrom, List.map_cons, List.length_cons, List.range'_succ]
    rw [renumFrom_locs (k+1) ps]
    rfl

theorem maxLocal_renumFrom : ∀ (xs : List Pair) (k : Nat) (m : Nat), xs ≠ [] → m ≤ k →
    maxLocal (renumFrom k xs) m = k + xs.length - 1
  | [], _, _, h, _ => absurd rfl h
  | p :: ps, k, m, _, hm => by
    cases ps with
    | nil => simp only [renumFrom, maxLocal, setLoc, List.length_cons, List.length_nil]; omega
    | cons q qs =>
      have ih := maxLocal_renumFrom (q :: qs) (k+1) (max m k) (by simp) (by omega)
      show maxLocal (renumFrom (k+1) (q :: qs)) (max m k) = _
      rw [ih]
      simp only [List.length_cons]; omega

/-- number of entries strictly before `p` in the order of the code's comparison -/
def rank (p : Pair) (xs : List Pair) : Nat := xs.countP (fun q => before q p)

theorem renumFrom_eq_rank : ∀ (k : Nat) (xs : List Pair), xs.Pairwise (fun a b => before a b = true) →
    renumFrom k xs = xs.map (fun p => setLoc p (k + rank p xs))
  | _, [], _ => rfl
  | k, x :: xs, hs => by
    rw [List.pairwise_cons] at hs
    have hxx : before x x = false := by simp [before]
    have hx0 : rank x (x :: xs) = 0 := by
      unfold rank
      rw [List.countP_cons, hxx]
      simp only [Bool.false_eq_true, if_false, Nat.add_zero]
      rw [List.countP_eq_zero]
      intro q hq
      have := (before_iff x q).1 (hs.1 q hq)
      have h2 := before_false_iff q x
      simp only [Bool.not_eq_true]
      rw [h2]; omega
    simp only [renumFrom, List.map_cons, hx0, Nat.add_zero]
    congr 1
    · rw [renumFrom_eq_rank (k+1) xs hs.2]
      apply List.map_congr_left
      intro q hq
      have : rank q (x :: xs) = rank q xs + 1 := by
        unfold rank; rw [List.countP_cons, hs.1 q hq]; simp
      rw [this]; congr 1; omega

/-! ### merge / endResize -/

theorem merge_st (s : ISet) : (merge s).st = s.st ∧ (merge s).seq = s.seq ∧ (merge s).del = s.del := by
  unfold merge; split
  · simp
  · split <;> simp

theorem merge_fresh (s : ISet) : (merge s).fresh = [] := by
  unfold merge; split
  · rfl
  · split
    · rfl
    · next h1 h2 =>
      have : ¬ s.fresh.length > 0 := fun h => h2 (by simp [h])
      exact List.eq_nil_of_length_eq_zero (by omega)

/-- contents of the merge: the old entries not marked DELETED and the new entries -/
theorem merge_loc_perm (s : ISet) (hnodel : s.del = false → AllValid s.loc) :
    (merge s).loc.Perm (s.loc.filter (·.l.valid) ++ s.fresh) := by
  unfold merge; split
  · next h =>
    have : s.loc = [] := List.eq_nil_of_length_eq_zero h
    simp [this]
  · split
    · exact mergeLoop_perm _ _
    · next h1 h2 =>
      have hf : s.fresh = [] := by
        have : ¬ s.fresh.length > 0 := fun h => h2 (by simp [h])
        exact List.eq_nil_of_length_eq_zero (by omega)
      have hd : s.del = false := by
        cases hdel : s.del with
        | false => rfl
        | true => exact absurd (by simp [hdel]) h2
      have : s.loc.filter (·.l.valid) = s.loc := List.filter_eq_self.2 (hnodel hd)
      simp [hf, this]

theorem merge_sorted (s : ISet) (h1 : SortedLex s.loc) (h2 : SortedLex s.fresh) : SortedLex (merge s).loc := by
  unfold merge; split
  · exact h2
  · split
    · exact mergeLoop_sorted _ _ h1 h2
    · exact h1

theorem merge_valid (s : ISet) (hf : AllValid s.fresh) (hnodel : s.del = false → AllValid s.loc) :
    AllValid (merge s).loc := by
  intro p hp
  rcases List.mem_append.1 ((merge_loc_perm s hnodel).mem_iff.1 hp) with h | h
  · simpa using (List.mem_filter.1 h).2
  · exact hf p h

theorem endResize_ok {s s' : ISet} (h : endResize s = .ok s') :
    s.st = .resize ∧ s'.loc = (merge { s with fresh := sortFresh s.fresh }).loc ∧
    s'.fresh = (merge { s with fresh := sortFresh s.fresh }).fresh ∧ s'.seq = s.seq + 1 ∧ s'.st = .ground ∧ s'.del = s.del := by
  unfold endResize at h
  split at h
  · cases h
  · next hst =>
    have hst' : s.st = .resize := by
      cases hs : s.st with
      | ground => simp [hs] at hst
      | resize => rfl
    have hm := merge_st { s with fresh := sortFresh s.fresh }
    simp only at hm
    cases h
    exact ⟨hst', rfl, rfl, by simp [hm.2.1], rfl, hm.2.2⟩

theorem endResize_spec {s s' : ISet} (hinv : Inv s) (h : endResize s = .ok s') :
    s'.loc.Perm (s.loc.filter (·.l.valid) ++ s.fresh) ∧ SortedLex s'.loc ∧ AllValid s'.loc ∧ s'.fresh = [] ∧
    s'.seq = s.seq + 1 ∧ s'.st = .ground ∧ s'.del = s.del := by
  obtain ⟨_, h1, h2, h3, h4, h5⟩ := endResize_ok h
  have hnodel : ({ s with fresh := sortFresh s.fresh } : ISet).del = false →
      AllValid ({ s with fresh := sortFresh s.fresh } : ISet).loc := hinv.nodel
  refine ⟨?_, ?_, ?_, ?_, h3, h4, h5⟩
  · rw [h1]
    exact (merge_loc_perm _ hnodel).trans (List.Perm.append (List.Perm.refl _) (sortFresh_perm _))
  · rw [h1]; exact merge_sorted _ hinv.sorted (sortFresh_sorted _)
  · rw [h1]
    apply merge_valid _ _ hnodel
    intro p hp
    exact hinv.freshValid p ((sortFresh_perm _).mem_iff.1 hp)
  · rw [h2]; exact merge_fresh _

theorem setLocalVia_some {s s' : ISet} {g : Int} {l : Nat} (h : setLocalVia s g l = some s') :
    ∃ i p, getL s.loc g = some (i, p) ∧ s' = { s with loc := modifyAt (fun p => setLoc p l) i s.loc } := by
  unfold setLocalVia at h
  rw [Option.map_eq_some_iff] at h
  obtain ⟨⟨i, p⟩, h1, rfl⟩ := h
  exact ⟨i, p, h1, rfl⟩

/-! ### every operation keeps the invariant -/

theorem step_inv {s : ISet} (hinv : Inv s) (op : Op) : Inv (step s op).1 := by
  cases op with
  | beginResize =>
    simp only [step, beginResize]
    split
    · exact hinv
    · next hst =>
      have hst : s.st = .ground := by simpa using hst
      exact ⟨hinv.sorted, hinv.freshValid, fun h => (by cases h), fun _ => (hinv.ground hst).2⟩
  | add g l a p =>
    simp only [step, add]
    split
    · exact hinv
    · next hst =>
      have hst : s.st = .resize := by simpa using hst
      refine ⟨hinv.sorted, ?_, fun h => by simp [lift, hst] at h, hinv.nodel⟩
      intro q hq
      rcases List.mem_append.1 hq with hq | hq
      · exact hinv.freshValid q hq
      · simp at hq; subst hq; rfl
  | addG g =>
    simp only [step, add]
    split
    · exact hinv
    · next hst =>
      have hst : s.st = .resize := by simpa using hst
      refine ⟨hinv.sorted, ?_, fun h => by simp [lift, hst] at h, hinv.nodel⟩
      intro q hq
      rcases List.mem_append.1 hq with hq | hq
      · exact hinv.freshValid q hq
      · simp at hq; subst hq; rfl
  | markDel g a =>
    simp only [step]
    split
    · exact hinv
    · next i hi =>
      simp only [markAsDeleted]
      split
      · exact hinv
      · next hst =>
        have hst : s.st = .resize := by simpa using hst
        refine ⟨?_, hinv.freshValid, fun h => by simp [lift, hst] at h, fun h => by simp [lift] at h⟩
        exact sortedLex_of_keys_eq (modifyAt_map setDeleted key (fun _ => rfl) i s.loc).symm hinv.sorted
  | endResize =>
    simp only [step]
    cases h : endResize s with
    | error e => exact hinv
    | ok s' =>
      obtain ⟨_, h2, h3, h4, _, h6, _⟩ := endResize_spec hinv h
      exact ⟨h2, by simp [lift, h4, AllValid], fun _ => ⟨h4, h3⟩, fun _ => h3⟩
  | renumber =>
    simp only [step, renumberLocal]
    split
    · exact hinv
    · have hv : ∀ (xs : List Pair), AllValid xs → AllValid (renumFrom 0 xs) := by
        intro xs hx q hq
        have h1 : (renumFrom 0 xs).map (·.l.valid) = xs.map (·.l.valid) := renumFrom_map _ (fun _ _ => rfl) 0 xs
        have : q.l.valid ∈ xs.map (·.l.valid) := h1 ▸ List.mem_map.2 ⟨q, hq, rfl⟩
        obtain ⟨q', hq', he⟩ := List.mem_map.1 this
        rw [← he]; exact hx q' hq'
      refine ⟨?_, hinv.freshValid, fun h => ⟨(hinv.ground h).1, hv _ (hinv.ground h).2⟩, fun h => hv _ (hinv.nodel h)⟩
      exact sortedLex_of_keys_eq (renumFrom_map key (fun _ _ => rfl) 0 s.loc).symm hinv.sorted
  | exists_ g => exact hinv
  | at_ g => exact hinv
  | get g => simp only [step]; split <;> exact hinv
  | setLocal g l =>
    simp only [step]
    split
    · split
      · exact hinv
      · next s' h =>
        obtain ⟨i, p, _, rfl⟩ := setLocalVia_some h
        have hv : ∀ (xs : List Pair), AllValid xs →
            AllValid (modifyAt (fun p => setLoc p l) i xs) := by
          intro xs hx q hq
          rcases mem_modifyAt _ i xs q hq with hq | ⟨p', hp', rfl⟩
          · exact hx q hq
          · exact hx p' hp'
        refine ⟨?_, hinv.freshValid, fun h => ⟨(hinv.ground h).1, hv _ (hinv.ground h).2⟩, fun h => hv _ (hinv.nodel h)⟩
        exact sortedLex_of_keys_eq (modifyAt_map (fun p => setLoc p l) key (fun _ => rfl) i s.loc).symm hinv.sorted
    · exact hinv
  | seqNo => exact hinv
  | size => exact hinv
  | state => exact hinv
  | dump => exact hinv
  | lookup => exact hinv
  | lookupN n => simp only [step]; split <;> exact hinv

theorem runFrom_inv : ∀ (h : List Op) (s : ISet), Inv s → Inv (runFrom s h).1
  | [], _, hinv => hinv
  | op :: ops, s, hinv => by
    simp only [runFrom]
    exact runFrom_inv ops _ (step_inv hinv op)

theorem run_inv (h : List Op) : Inv (run h) := runFrom_inv h init init_inv

theorem runFrom_append (s : ISet) (h1 h2 : List Op) :
    (runFrom s (h1 ++ h2)).1 = (runFrom (runFrom s h1).1 h2).1 := by
  induction h1 generalizing s with
  | nil => rfl
  | cons op ops ih => simp only [List.cons_append, runFrom]; exact ih _

/-! ### the reverse table -/

theorem setAt_spec (v : Pair) : ∀ (i : Nat) (t : List (Option Pair)), i < t.length →
    ∃ t', setAt v i t = some t' ∧ t'.length = t.length ∧ ∀ j, t'[j]? = if j = i then some (some v) else t[j]?
  | _, [], h => by simp at h
  | 0, x :: ts, _ => by
    refine ⟨some v :: ts, rfl, rfl, ?_⟩
    intro j; cases j <;> simp
  | i+1, x :: ts, h => by
    obtain ⟨t', h1, h2, h3⟩ := setAt_spec v i ts (by simpa using h)
    refine ⟨x :: t', by simp [setAt, h1], by simp [h2], ?_⟩
    intro j
    cases j with
    | zero => simp
    | succ j => simp [h3 j]

theorem fillTable_spec : ∀ (xs : List Pair) (t : List (Option Pair)), (∀ p ∈ xs, p.l.loc < t.length) →
    ∃ t', fillTable xs t = some t' ∧ t'.length = t.length ∧
      (∀ j, (∀ p ∈ xs, p.l.loc ≠ j) → t'[j]? = t[j]?) ∧
      (∀ p ∈ xs, ∃ q ∈ xs, q.l.loc = p.l.loc ∧ t'[p.l.loc]? = some (some q))
  | [], t, _ => ⟨t, rfl, rfl, fun _ _ => rfl, fun _ h => by cases h⟩
  | x :: xs, t, hb => by
    obtain ⟨t1, h1, h2, h3⟩ := setAt_spec x x.l.loc t (hb x List.mem_cons_self)
    obtain ⟨t2, g1, g2, g3, g4⟩ := fillTable_spec xs t1 (fun p hp => by rw [h2]; exact hb p (List.mem_cons_of_mem _ hp))
    refine ⟨t2, by simp [fillTable, h1, g1], by rw [g2, h2], ?_, ?_⟩
    · intro j hj
      rw [g3 j (fun p hp => hj p (List.mem_cons_of_mem _ hp)), h3 j]
      have : j ≠ x.l.loc := fun h => hj x List.mem_cons_self h.symm
      simp [this]
    · intro p hp
      rcases List.mem_cons.1 hp with rfl | hp
      · by_cases hex : ∃ q ∈ xs, q.l.loc = p.l.loc
        · obtain ⟨q, hq, hql⟩ := hex
          obtain ⟨q', hq', hq'l, hq't⟩ := g4 q hq
          exact ⟨q', List.mem_cons_of_mem _ hq', by rw [hq'l, hql], by rw [← hql]; exact hq't⟩
        · refine ⟨p, List.mem_cons_self, rfl, ?_⟩
          rw [g3 p.l.loc (fun q hq hql => hex ⟨q, hq, hql⟩), h3]
          simp
      · obtain ⟨q, hq, hql, hqt⟩ := g4 p hp
        exact ⟨q, List.mem_cons_of_mem _ hq, hql, hqt⟩

theorem maxLocal_ge : ∀ (xs : List Pair) (m : Nat), m ≤ maxLocal xs m ∧ ∀ p ∈ xs, p.l.loc ≤ maxLocal xs m
  | [], m => ⟨Nat.le_refl _, fun _ h => by cases h⟩
  | x :: xs, m => by
    obtain ⟨h1, h2⟩ := maxLocal_ge xs (max m x.l.loc)
    refine ⟨by simp only [maxLocal]; omega, ?_⟩
    intro p hp
    rcases List.mem_cons.1 hp with rfl | hp
    · simp only [maxLocal]; omega
    · exact h2 p hp

theorem eq_of_nodup_map {β : Type} (f : Pair → β) : ∀ (xs : List Pair), (xs.map f).Nodup →
    ∀ p ∈ xs, ∀ q ∈ xs, f p = f q → p = q
  | [], _, p, hp, _, _, _ => by cases hp
  | x :: xs, hn, p, hp, q, hq, hf => by
    simp only [List.map_cons, List.nodup_cons] at hn
    rcases List.mem_cons.1 hp with hpx | hp'
    · rcases List.mem_cons.1 hq with hqx | hq'
      · rw [hpx, hqx]
      · exact absurd (by rw [← hpx, hf]; exact List.mem_map.2 ⟨q, hq', rfl⟩) hn.1
    · rcases List.mem_cons.1 hq with hqx | hq'
      · exact absurd (by rw [← hqx, ← hf]; exact List.mem_map.2 ⟨p, hp', rfl⟩) hn.1
      · exact eq_of_nodup_map f xs hn.2 p hp' q hq' hf

theorem replicate_none_getElem? (n j : Nat) (hj : j < n) : (List.replicate n (none : Option Pair))[j]? = some none := by
  simp [hj]

end DV.C03
