import DuneVerif.Model.C08
/-!
# C08 — the caller's output containers of `DynamicMatrixHelp::eigenValuesNonSym`

Whatever the two containers hold when the routine is entered (left-overs of an earlier call with a larger or smaller
matrix, vectors of the wrong length, nothing at all), the routine never writes outside them and leaves exactly what a
call with fresh containers returns.  Core Lean only.
-/
namespace DV.C08

variable {α C K : Type}

theorem vresize_length (n : Nat) (c : α) (l : List α) : (vresize n c l).length = n := by
  unfold vresize
  rw [List.length_append, List.length_take, List.length_replicate]
  omega

/-- resize, then assign all `n` entries: nothing of the previous content survives -/
theorem storePrefix_vresize (n : Nat) (f : Nat → α) (c : α) (l : List α) :
    storePrefix n f (vresize n c l) = some ((List.range n).map f) := by
  unfold storePrefix
  have h := vresize_length n c l
  rw [if_pos (by omega), List.drop_eq_nil_of_le (by omega), List.append_nil]

/-- without the resize a container that is too short is written past its end … -/
theorem storePrefix_short (n : Nat) (f : Nat → α) (l : List α) (h : l.length < n) : storePrefix n f l = none := by
  unfold storePrefix
  rw [if_neg (by omega)]

/-- … and one that is too long keeps its tail -/
theorem storePrefix_long (n : Nat) (f : Nat → α) (l : List α) (h : n ≤ l.length) :
    storePrefix n f l = some ((List.range n).map f ++ l.drop n) := by
  unfold storePrefix
  rw [if_pos h]

/-- invariant of the loop over the eigenvector list: entries below `i` are final, the length stays `n` -/
theorem nsVecLoop_spec (n : Nat) (vr : Nat → K) (zero : K) (target : Nat → List K)
    (ht : ∀ i, target i = (List.range n).map fun j => vr (n * i + j)) :
    ∀ (fuel i : Nat) (acc : List (List K)), i + fuel = n → acc.length = n →
      (∀ k, k < i → acc[k]? = some (target k)) →
      ∃ out, nsVecLoop n vr zero fuel i acc = some out ∧ out.length = n ∧ ∀ k, k < n → out[k]? = some (target k) := by
  intro fuel
  induction fuel with
  | zero =>
    intro i acc hi hl hk
    refine ⟨acc, rfl, hl, ?_⟩
    intro k hkn
    exact hk k (by omega)
  | succ fuel ih =>
    intro i acc hi hl hk
    have hin : i < acc.length := by omega
    unfold nsVecLoop
    rw [List.getElem?_eq_getElem hin]
    simp only []
    rw [storePrefix_vresize]
    simp only []
    apply ih (i + 1) (acc.set i _) (by omega) (by rw [List.length_set]; exact hl)
    intro k hk1
    by_cases hki : k = i
    · subst hki
      rw [List.getElem?_set_self hin, ht]
    · rw [List.getElem?_set_ne (by omega)]
      exact hk k (by omega)

/-- the eigenvector list after the call, for every previous content -/
theorem nsStoreVectors_eq (n : Nat) (vr : Nat → K) (zero : K) (pre : List (List K)) :
    nsStoreVectors n vr zero pre
      = some ((List.range n).map fun i => (List.range n).map fun j => vr (n * i + j)) := by
  unfold nsStoreVectors
  obtain ⟨out, ho, hl, hk⟩ :=
    nsVecLoop_spec n vr zero (fun i => (List.range n).map fun j => vr (n * i + j)) (fun _ => rfl) n 0
      (vresize n [] pre) (by omega) (vresize_length n [] pre) (fun k hk => absurd hk (Nat.not_lt_zero k))
  rw [ho]
  congr 1
  apply List.ext_getElem?
  intro k
  by_cases hkn : k < n
  · rw [hk k hkn, List.getElem?_map, List.getElem?_range hkn]
    rfl
  · rw [List.getElem?_eq_none (by omega), List.getElem?_eq_none (by rw [List.length_map, List.length_range]; omega)]

/-- one call: never out of bounds, result = result with fresh containers (vectors untouched if none were requested) -/
theorem nsStep_eq (zc : C) (zk : K) (st : NsOut C K) (c : NsCall C K) :
    nsStep zc zk st c = some ⟨nsFreshVals c, if c.wantVec then nsFreshVecs c else st.vecs⟩ := by
  unfold nsStep
  rw [storePrefix_vresize]
  simp only []
  cases hv : c.wantVec with
  | false => simp [nsFreshVals]
  | true =>
    simp only [if_true]
    rw [nsStoreVectors_eq]
    rfl

/-- the vectors a history leaves behind: those of the last call that asked for vectors, else the initial ones -/
def lastVecs (init : List (List K)) : List (NsCall C K) → List (List K)
  | [] => init
  | c :: cs => lastVecs (if c.wantVec then nsFreshVecs c else init) cs

/-- the values a history leaves behind: those of the last call -/
def lastVals (init : List C) : List (NsCall C K) → List C
  | [] => init
  | c :: cs => lastVals (nsFreshVals c) cs

/-- any history of calls on the same containers, started from any content -/
theorem nsRun_eq (zc : C) (zk : K) (cs : List (NsCall C K)) :
    ∀ st : NsOut C K, nsRun zc zk st cs = some ⟨lastVals st.vals cs, lastVecs st.vecs cs⟩ := by
  induction cs with
  | nil => intro st; rfl
  | cons c cs ih =>
    intro st
    unfold nsRun
    rw [nsStep_eq]
    simp only []
    rw [ih]
    rfl

theorem lastVals_append (init : List C) (cs : List (NsCall C K)) (c : NsCall C K) :
    lastVals init (cs ++ [c]) = nsFreshVals c := by
  induction cs generalizing init with
  | nil => rfl
  | cons d ds ih => exact ih _

theorem lastVecs_append (init : List (List K)) (cs : List (NsCall C K)) (c : NsCall C K) :
    lastVecs init (cs ++ [c]) = if c.wantVec then nsFreshVecs c else lastVecs init cs := by
  induction cs generalizing init with
  | nil => rfl
  | cons d ds ih => exact ih _

theorem nsFreshVecs_length (c : NsCall C K) : (nsFreshVecs c).length = c.n := by
  unfold nsFreshVecs
  rw [List.length_map, List.length_range]

theorem nsFreshVals_length (c : NsCall C K) : (nsFreshVals c).length = c.n := by
  unfold nsFreshVals
  rw [List.length_map, List.length_range]

/-- vector `i` of a fresh result has `n` entries, entry `j` is `vr[n*i + j]` -/
theorem nsFreshVecs_get (c : NsCall C K) (i : Nat) (hi : i < c.n) :
    (nsFreshVecs c)[i]? = some ((List.range c.n).map fun j => c.vr (c.n * i + j)) := by
  unfold nsFreshVecs
  rw [List.getElem?_map, List.getElem?_range hi]
  rfl

end DV.C08
