/-
C10 helper lemmas, part 11 (round four): the in-place, possibly self-aliased digit loops on an indexed store
(`Model/C10Mem.lean`) compute what the value-level loops compute.  Core Lean only.
-/
import DuneVerif.Model.C10Mem
import DuneVerif.Proofs.C10Hist

set_option linter.unusedSimpArgs false

namespace DV.C10
open DV.C10.Gen

theorem drop_eq_getD_cons : ∀ (l : List Nat) (i : Nat), i < l.length → l.drop i = l.getD i 0 :: l.drop (i + 1)
  | [], i, h => by simp at h
  | a :: l, 0, _ => by simp
  | a :: l, i + 1, h => by
    have := drop_eq_getD_cons l i (by simpa using h)
    simpa using this

theorem take_succ_set : ∀ (l : List Nat) (i d : Nat), i < l.length → (l.set i d).take (i + 1) = l.take i ++ [d]
  | [], i, _, h => by simp at h
  | a :: l, 0, d, _ => by simp
  | a :: l, i + 1, d, h => by
    have := take_succ_set l i d (by simpa using h)
    simpa using this

theorem drop_succ_set : ∀ (l : List Nat) (i d : Nat), (l.set i d).drop (i + 1) = l.drop (i + 1)
  | [], i, _ => by simp
  | a :: l, 0, d => by simp
  | a :: l, i + 1, d => by
    have := drop_succ_set l i d
    simpa using this

theorem zipLoop_nil (f : Round) (x : List Nat) (c : Nat) : zipLoop f [] x c = [] := by
  simp [zipLoop]

/-- invariant of the in-place loop: after `i` rounds the store is the finished prefix followed by the untouched rest,
    and the remaining rounds do to the rest what the value-level loop does — also when the right operand is the store
    itself, because round `i` reads `digit[i]` before it writes it and never looks at a lower index again -/
theorem memLoop_inv (f : Round) (ali : Bool) (x : List Nat) :
    ∀ (fuel i c : Nat) (mem : List Nat), i + fuel = mem.length → (ali = false → x.length = mem.length) →
      memLoop f ali x fuel i c mem =
        mem.take i ++ zipLoop f (mem.drop i) ((if ali then mem else x).drop i) c
  | 0, i, c, mem, hi, _ => by
    have : i = mem.length := by omega
    subst this
    simp [memLoop, zipLoop_nil]
  | fuel + 1, i, c, mem, hi, hx => by
    have hlt : i < mem.length := by omega
    unfold memLoop
    cases ali with
    | true =>
      simp only [if_true]
      rw [memLoop_inv f true x fuel (i + 1) _ (mem.set i _) (by simp; omega) (by simp)]
      simp only [if_true]
      rw [take_succ_set mem i _ hlt, drop_succ_set, drop_eq_getD_cons mem i hlt]
      simp [zipLoop]
    | false =>
      have hxl : x.length = mem.length := hx rfl
      simp only [Bool.false_eq_true, if_false]
      rw [memLoop_inv f false x fuel (i + 1) _ (mem.set i _) (by simp; omega) (by simp [hxl])]
      simp only [Bool.false_eq_true, if_false]
      rw [take_succ_set mem i _ hlt, drop_succ_set, drop_eq_getD_cons mem i hlt,
        drop_eq_getD_cons x i (by omega)]
      simp [zipLoop]

theorem memLoop_eq (f : Round) (ali : Bool) {a x : List Nat} (hx : x.length = a.length) (c : Nat) :
    memLoop f ali x a.length 0 c a = zipLoop f a (if ali then a else x) c := by
  rw [memLoop_inv f ali x a.length 0 c a (by omega) (fun _ => hx)]
  simp

/-! the value-level loops of `Model/C10.lean` are `zipLoop` of the corresponding round -/

theorem addLoop_eq_zip : ∀ (a x : List Nat) (c : Nat), addLoop a x c = zipLoop addRound a x c
  | [], _, _ => by simp [addLoop, zipLoop]
  | _ :: _, [], _ => by simp [addLoop, zipLoop]
  | a :: as, x :: xs, c => by
    simp only [addLoop, zipLoop, addRound]
    rw [addLoop_eq_zip as xs]

theorem subLoop_eq_zip : ∀ (a x : List Nat) (c : Nat), subLoop a x c = zipLoop subRound a x c
  | [], _, _ => by simp [subLoop, zipLoop]
  | _ :: _, [], _ => by simp [subLoop, zipLoop]
  | a :: as, x :: xs, c => by
    simp only [subLoop, zipLoop, subRound]
    by_cases h : x + c ≤ a
    · simp only [h, if_true]
      rw [subLoop_eq_zip as xs]
    · simp only [h, if_false]
      rw [subLoop_eq_zip as xs]

theorem band_eq_zip : ∀ (a x : List Nat) (c : Nat), band a x = zipLoop andRound a x c
  | [], _, _ => by simp [band, zipLoop]
  | _ :: _, [], _ => by simp [band, zipLoop]
  | a :: as, x :: xs, c => by
    simp only [band, zipLoop, andRound]
    rw [band_eq_zip as xs c]

theorem bor_eq_zip : ∀ (a x : List Nat) (c : Nat), bor a x = zipLoop orRound a x c
  | [], _, _ => by simp [bor, zipLoop]
  | _ :: _, [], _ => by simp [bor, zipLoop]
  | a :: as, x :: xs, c => by
    simp only [bor, zipLoop, orRound]
    rw [bor_eq_zip as xs c]

theorem bxor_eq_zip : ∀ (a x : List Nat) (c : Nat), bxor a x = zipLoop xorRound a x c
  | [], _, _ => by simp [bxor, zipLoop]
  | _ :: _, [], _ => by simp [bxor, zipLoop]
  | a :: as, x :: xs, c => by
    simp only [bxor, zipLoop, xorRound]
    rw [bxor_eq_zip as xs c]

/-- every compound operator on the store, with the right operand other storage or the store itself, returns what
    the value-level operator returns on the two values -/
theorem applyBinMem_eq (k : Nat) (o : BinOp) (ali : Bool) {a x : List Nat} (hx : x.length = a.length) :
    applyBinMem k o ali a x = applyBin k o a (if ali then a else x) := by
  cases o
  · simp only [applyBinMem, applyBin, add, memLoop_eq addRound ali hx, addLoop_eq_zip]
  · simp only [applyBinMem, applyBin, sub, memLoop_eq subRound ali hx, subLoop_eq_zip]
  · simp only [applyBinMem, applyBin]
  · simp only [applyBinMem, applyBin]
  · simp only [applyBinMem, applyBin]
  · simp only [applyBinMem, applyBin, memLoop_eq andRound ali hx, ← band_eq_zip]
  · simp only [applyBinMem, applyBin, memLoop_eq orRound ali hx, ← bor_eq_zip]
  · simp only [applyBinMem, applyBin, memLoop_eq xorRound ali hx, ← bxor_eq_zip]

theorem stepMem_eq {k : Nat} {r : Regs} (hr : WfRegs (ndigits k) r) (st : Stmt) : stepMem k r st = step4 k r st := by
  unfold stepMem
  split
  · rename_i o d s
    have hl : (r.get s).length = (r.get d).length := by rw [(hr.get s).1, (hr.get d).1]
    rw [applyBinMem_eq k o (d == s) hl]
    have hsame : (if (d == s) = true then r.get d else r.get s) = r.get s := by
      cases d <;> cases s <;> rfl
    rw [hsame]
    simp [step4, Stmt.valid, POp.valid, step, commitObs]
  · rfl

theorem runMem_eq {k : Nat} : ∀ (p : List Stmt) (r : Regs), WfRegs (ndigits k) r → runMem k r p = run4 k r p
  | [], _, _ => rfl
  | st :: p, r, hr => by
    unfold runMem run4
    rw [stepMem_eq hr st]
    cases hs : step4 k r st with
    | none => rfl
    | some q =>
      obtain ⟨r1, o1⟩ := q
      have hr1 := (step4_refines hr st).2 r1 o1 hs
      simp only
      rw [runMem_eq p r1 hr1]
      cases run4 k r1 p <;> rfl

end DV.C10
