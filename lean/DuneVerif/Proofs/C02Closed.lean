import DuneVerif.Gen.C02
import Mathlib.LinearAlgebra.Matrix.Determinant.Basic
import Mathlib.LinearAlgebra.Matrix.Notation
import Mathlib.Tactic.FieldSimp
import Mathlib.Tactic.Ring
import Mathlib.Tactic.LinearCombination
/-! C02 helpers for the closed-form theorems: the generated result records as Mathlib vectors / matrices. -/
namespace DV.C02
open Matrix
variable {K : Type} [Field K]

def v1 (r : Gen.V1 K) : Fin 1 → K := ![r.x0]
def v2 (r : Gen.V2 K) : Fin 2 → K := ![r.x0, r.x1]
def v3 (r : Gen.V3 K) : Fin 3 → K := ![r.x0, r.x1, r.x2]
def m1 (r : Gen.M1 K) : Matrix (Fin 1) (Fin 1) K := !![r.m00]
def m2 (r : Gen.M2 K) : Matrix (Fin 2) (Fin 2) K := !![r.m00, r.m01; r.m10, r.m11]
def m3 (r : Gen.M3 K) : Matrix (Fin 3) (Fin 3) K :=
  !![r.m00, r.m01, r.m02; r.m10, r.m11, r.m12; r.m20, r.m21, r.m22]

/-- `t` is the inverse of the (source's) determinant expression `e`, which equals the nonzero `d` -/
theorem inv_key {e t d : K} (ht : e⁻¹ = t) (hd : d ≠ 0) (he : e = d) : e * t = 1 := by
  subst ht; subst he; exact mul_inv_cancel₀ hd

theorem det_fin_one' (A : Matrix (Fin 1) (Fin 1) K) : A.det = A 0 0 := by
  simp [Matrix.det_unique]

end DV.C02
