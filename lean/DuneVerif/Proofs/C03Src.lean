/-
C03 helper lemmas, part 5: the hand-written model coincides with the interpretation (Model/C03Src.lean) of the pieces
regenerated from the source (Gen/C03.lean).  The lemmas are proved for the *canonical* pieces (`canonLoop`, …); that
the generated definitions ARE the canonical ones is checked by `rfl` in Props/C03.lean — a changed source makes
exactly those `rfl`s fail.  Core Lean only.
-/
import DuneVerif.Proofs.C03Spec
import DuneVerif.Model.C03Src

namespace DV.C03
open Src

/-! ### mutators -/

theorem mutatorSrc_wantsGround (e : Effects) (f : ISet → ISet) (s : ISet) (exc : String) (fst : Bool) :
    mutatorSrc { inGround := false, inResize := true, exc := exc, first := fst } e f s =
      if s.st ≠ .ground then .error .invalidState else .ok (e.apply (f s)) := by
  unfold mutatorSrc Check.rejects
  cases s.st <;> simp

theorem mutatorSrc_wantsResize (e : Effects) (f : ISet → ISet) (s : ISet) (exc : String) (fst : Bool) :
    mutatorSrc { inGround := true, inResize := false, exc := exc, first := fst } e f s =
      if s.st ≠ .resize then .error .invalidState else .ok (e.apply (f s)) := by
  unfold mutatorSrc Check.rejects
  cases s.st <;> simp

/-! ### comparisons -/

def canonBefore : BE := .or (.lt (.var .g1) (.var .g2)) (.and (.eq (.var .g1) (.var .g2)) (.var .cmp12))
def canonAttrLt : BE := .lt (.var .a1) (.var .a2)

theorem beforeSrc_canon (x y : Pair) : beforeSrc canonBefore canonAttrLt x y = before x y := by
  simp only [beforeSrc, canonBefore, canonAttrLt, envPairs, envAttr, BE.eval, IE.eval]
  simp only [ilt, ieq, before, Int.ofNat_lt]
  rfl

/-! ### merge -/

theorem mergeInnerSrc_eq (takesOld inner : BE) (hb : ∀ o a, beforeSrc takesOld inner o a = before o a)
    (o : Pair) (r1 r2 : List Pair → List Pair) (hr : ∀ l, r1 l = r2 l) :
    ∀ added, mergeInnerSrc takesOld inner o r1 added = mergeInner o r2 added
  | [] => by simp [mergeInnerSrc, mergeInner, hr]
  | a :: as => by
    simp only [mergeInnerSrc, mergeInner, hb, hr]
    rw [mergeInnerSrc_eq takesOld inner hb o r1 r2 hr as]

theorem mergeLoopSrc_eq (takesOld inner drops keeps : BE) (hb : ∀ o a, beforeSrc takesOld inner o a = before o a)
    (hd : ∀ o, drops.eval (envOld o) = !o.l.valid) (hk : ∀ o, keeps.eval (envOld o) = o.l.valid) :
    ∀ old added, mergeLoopSrc takesOld inner drops keeps old added = mergeLoop old added
  | [], added => by cases added <;> rfl
  | o :: os, [] => by
    rw [mergeLoop_cons_nil]
    simp only [mergeLoopSrc, hk]
    rw [mergeLoopSrc_eq takesOld inner drops keeps hb hd hk os []]
  | o :: os, a :: as => by
    simp only [mergeLoopSrc, mergeLoop, hd]
    rw [mergeInnerSrc_eq takesOld inner hb o _ (mergeLoop os)
      (fun l => mergeLoopSrc_eq takesOld inner drops keeps hb hd hk os l) (a :: as),
      mergeLoopSrc_eq takesOld inner drops keeps hb hd hk os (a :: as)]

def canonDrops : BE := .var .oldDeleted
def canonKeeps : BE := .not (.var .oldDeleted)

theorem mergeLoopSrc_canon (old added : List Pair) :
    mergeLoopSrc canonBefore canonAttrLt canonDrops canonKeeps old added = mergeLoop old added :=
  mergeLoopSrc_eq canonBefore canonAttrLt canonDrops canonKeeps beforeSrc_canon
    (fun o => by simp [canonDrops, envOld, BE.eval]) (fun o => by simp [canonKeeps, envOld, BE.eval]) old added

/-! ### the binary search -/

def canonLoop : Loop :=
  { lowInit := .num 0, highInit := .sub (.var .size) (.num 1), probeInit := .num (-1),
    cond := .lt (.var .low) (.var .high), probe := .div (.add (.var .high) (.var .low)) (.num 2),
    test := .ge (.var .elem) (.var .glob), thenT := .high, thenE := .var .probe, elseT := .low,
    elseE := .add (.var .probe) (.num 1) }

theorem searchLoopSrc_canon (xs : List Pair) (g : Int) :
    ∀ (fuel : Nat) (low high probe : Int),
      (searchLoopSrc canonLoop xs g fuel low high probe).map (·.1) = searchLoop xs g fuel low high := by
  intro fuel
  induction fuel with
  | zero =>
    intro low high probe
    simp only [searchLoopSrc, searchLoop, canonLoop, BE.eval, IE.eval, envSearch]
    simp only [ilt]
    by_cases h : low < high <;> simp [h]
  | succ f ih =>
    intro low high probe
    simp only [searchLoopSrc, searchLoop, canonLoop, BE.eval, IE.eval, envSearch]
    simp only [ilt, ile]
    by_cases h : low < high
    · simp only [h, decide_true, if_true]
      cases hg : gAt xs (Int.tdiv (high + low) 2) with
      | none => rfl
      | some e =>
        simp only []
        by_cases hc : g ≤ e
        · simp only [hc, decide_true, if_true]
          exact ih low _ _
        · simp only [hc, decide_false, Bool.false_eq_true, if_false]
          exact ih _ high _
    · simp [h]

theorem searchSrc_canon (xs : List Pair) (g : Int) : (searchSrc canonLoop xs g).map (·.1) = search xs g := by
  unfold searchSrc search
  have := searchLoopSrc_canon xs g xs.length 0 ((xs.length : Int) - 1) (-1)
  simpa [canonLoop, IE.eval, envSearch] using this

def canonEmpty : BE := .eq (.var .size) (.num 0)
def canonMiss : BE := .ne (.var .elem) (.var .glob)

def canonExists : Search :=
  { loop := canonLoop, emptyTest := some canonEmpty, emptyAct := .retFalse, missTest := some canonMiss,
    missAct := .retFalse, foundAct := .retTrue }
def canonAt : Search :=
  { loop := canonLoop, emptyTest := some canonEmpty, emptyAct := .throwRange, missTest := some canonMiss,
    missAct := .throwRange, foundAct := .retElem }
def canonGet : Search :=
  { loop := canonLoop, emptyTest := none, emptyAct := .throwRange, missTest := none, missAct := .throwRange,
    foundAct := .retElem }

/-- reading an `Outcome` as the result type of each lookup -/
def Src.Outcome.toExists : Outcome → Option Bool
  | .bool b => some b
  | _ => none

def Src.Outcome.toAt : Outcome → Option (Except Err Pair)
  | .range => some (.error .range)
  | .elem _ p => some (.ok p)
  | _ => none

def Src.Outcome.toGet : Outcome → Option (Nat × Pair)
  | .elem i p => some (i, p)
  | _ => none

theorem canonEmpty_eval (n low probe g : Int) :
    canonEmpty.eval (envSearch n low 0 probe 0 g) = decide (n = 0) := by
  simp only [canonEmpty, BE.eval, IE.eval, envSearch]
  rfl

theorem canonMiss_eval (n low probe e g : Int) :
    canonMiss.eval (envSearch n low 0 probe e g) = decide (e ≠ g) := by
  simp only [canonMiss, BE.eval, IE.eval, envSearch]
  simp [ieq]

theorem lookupSrc_exists (xs : List Pair) (g : Int) : (lookupSrc canonExists xs g).toExists = existsL xs g := by
  have hs := searchSrc_canon xs g
  unfold lookupSrc existsL
  cases h : searchSrc canonLoop xs g with
  | none =>
    rw [h] at hs; simp only [Option.map_none] at hs
    simp only [canonExists, h, ← hs]; rfl
  | some lp =>
    obtain ⟨low, probe⟩ := lp
    rw [h] at hs; simp only [Option.map_some] at hs
    simp only [canonExists, h, ← hs, canonEmpty_eval]
    by_cases hl : xs.length = 0
    · simp [hl, actSrc, Outcome.toExists]
    · have hl' : ¬ (xs.length : Int) = 0 := by omega
      simp only [hl, hl', decide_false, Bool.false_eq_true, if_false]
      cases hg : gAt xs low with
      | none => rfl
      | some e =>
        simp only [canonMiss_eval]
        by_cases he : e ≠ g <;> simp [he, actSrc, Outcome.toExists]

theorem lookupSrc_at (xs : List Pair) (g : Int) : (lookupSrc canonAt xs g).toAt = atL xs g := by
  have hs := searchSrc_canon xs g
  unfold lookupSrc atL
  cases h : searchSrc canonLoop xs g with
  | none =>
    rw [h] at hs; simp only [Option.map_none] at hs
    simp only [canonAt, h, ← hs]; rfl
  | some lp =>
    obtain ⟨low, probe⟩ := lp
    rw [h] at hs; simp only [Option.map_some] at hs
    simp only [canonAt, h, ← hs, canonEmpty_eval]
    by_cases hl : xs.length = 0
    · simp [hl, actSrc, Outcome.toAt]
    · have hl' : ¬ (xs.length : Int) = 0 := by omega
      simp only [hl, hl', decide_false, Bool.false_eq_true, if_false]
      rw [gAt_eq_map]
      cases hp : pAt xs low with
      | none => rfl
      | some p =>
        simp only [Option.map_some, canonMiss_eval]
        by_cases he : p.g ≠ g <;> simp [he, actSrc, Outcome.toAt, hp]

theorem lookupSrc_get (xs : List Pair) (g : Int) : (lookupSrc canonGet xs g).toGet = getL xs g := by
  have hs := searchSrc_canon xs g
  unfold lookupSrc getL
  cases h : searchSrc canonLoop xs g with
  | none =>
    rw [h] at hs; simp only [Option.map_none] at hs
    simp only [canonGet, h, ← hs]; rfl
  | some lp =>
    obtain ⟨low, probe⟩ := lp
    rw [h] at hs; simp only [Option.map_some] at hs
    simp only [canonGet, h, ← hs, actSrc]
    cases hp : pAt xs low <;> simp [Outcome.toGet]

end DV.C03

namespace DV.C03
open Src

/-! ### round four: generic comparator, endResize statement order, renumberLocal loop, GlobalLookupIndexSet constructors -/

/-- with the generic `LocalIndexComparator` (always false; TL = LocalIndex) the comparison is the model's `before` on
pairs of equal attribute (the `NL` configurations have attribute 0 throughout) -/
theorem beforeSrc_generic (x y : Pair) (h : x.l.attr = y.l.attr) : beforeSrc canonBefore .ff x y = before x y := by
  simp only [beforeSrc, canonBefore, envPairs, BE.eval, IE.eval]
  simp only [ilt, ieq, before, h, Nat.lt_irrefl, decide_false, Bool.and_false]

def canonRenum : Renum := { start := 0, step := 1, value := .var .index }

theorem renumSrc_canon : ∀ (xs : List Pair) (k : Nat), renumSrc canonRenum (k : Int) xs = renumFrom k xs
  | [], _ => rfl
  | p :: ps, k => by
    have h := renumSrc_canon ps (k + 1)
    simp only [renumSrc, renumFrom, canonRenum, IE.eval, envIndex, Int.toNat_natCast] at h ⊢
    rw [← h]; rfl

def canonTableAuto : TableCtor :=
  { sizeInit := .num 0, foldMax := some (.var .locNo), cells := .add (.var .size) (.num 1),
    sizeFinal := .add (.var .size) (.num 1), slot := .var .locNo }

def canonTableSized : TableCtor :=
  { sizeInit := .var .tsize, foldMax := none, cells := .var .size, sizeFinal := .var .size, slot := .var .locNo }

theorem foldMaxSrc_canon : ∀ (xs : List Pair) (m : Nat), foldMaxSrc (.var .locNo) xs (m : Int) = (maxLocal xs m : Nat)
  | [], _ => rfl
  | p :: ps, m => by
    have h := foldMaxSrc_canon ps (max m p.l.loc)
    simp only [foldMaxSrc, maxLocal, IE.eval, envTable] at h ⊢
    rw [← h]
    congr 1
    simp only [Int.max_def, Nat.max_def]
    split <;> split <;> omega

theorem fillSrc_canon : ∀ (xs : List Pair) (t : List (Option Pair)), fillSrc (.var .locNo) xs t = fillTable xs t
  | [], _ => rfl
  | p :: ps, t => by
    simp only [fillSrc, fillTable, IE.eval, envTable, Int.toNat_natCast]
    have : ¬ ((p.l.loc : Int) < 0) := by omega
    simp only [this, if_false]
    congr 1
    funext t'
    exact fillSrc_canon ps t'

theorem tableSrc_auto (xs : List Pair) :
    tableSrc canonTableAuto 0 xs = (lookupAuto xs).map fun t => (t, ((maxLocal xs 0 + 1 : Nat) : Int)) := by
  have hm : foldMaxSrc (.var .locNo) xs 0 = ((maxLocal xs 0 : Nat) : Int) := foldMaxSrc_canon xs 0
  simp only [tableSrc, canonTableAuto, IE.eval, envTable, lookupAuto]
  rw [hm]
  have h1 : ¬ (((maxLocal xs 0 : Nat) : Int) + 1 < 0) := by omega
  have h2 : (((maxLocal xs 0 : Nat) : Int) + 1).toNat = maxLocal xs 0 + 1 := by omega
  simp only [h1, if_false, h2, fillSrc_canon]
  rfl

theorem tableSrc_sized (xs : List Pair) (n : Nat) :
    tableSrc canonTableSized n xs = (lookupSized xs n).map fun t => (t, (n : Int)) := by
  simp only [tableSrc, canonTableSized, IE.eval, envTable, lookupSized]
  have h1 : ¬ ((n : Int) < 0) := by omega
  simp only [h1, if_false, Int.toNat_natCast, fillSrc_canon]

end DV.C03

namespace DV.C03
open Src

/-! ### round four: merge() as a program, local index classes -/

def canonLoop1 : MLoop :=
  { needOld := true, needAdded := true,
    body := .ite canonDrops (.acts [.eraseOld])
      (.ite canonBefore (.acts [.pushOld, .eraseOld]) (.acts [.pushAdded, .eraseAdded])) }
def canonLoop2 : MLoop :=
  { needOld := true, needAdded := false, body := .ite canonKeeps (.acts [.pushOld, .eraseOld]) (.acts [.eraseOld]) }
def canonLoop3 : MLoop := { needOld := false, needAdded := true, body := .acts [.pushAdded, .eraseAdded] }

theorem envMerge_before (o a : Pair) (os as t : List Pair) :
    canonBefore.eval (envMerge canonAttrLt ⟨o :: os, a :: as, t⟩) = before o a := by
  have := beforeSrc_canon o a
  simp only [beforeSrc] at this
  rw [← this]
  simp only [canonBefore, BE.eval, IE.eval, envMerge, List.head?, Option.getD]

theorem loop1_canon : ∀ (fuel : Nat) (old added t : List Pair), old.length + added.length ≤ fuel →
    ∃ old' added' x, canonLoop1.run canonAttrLt fuel ⟨old, added, t⟩ = some ⟨old', added', t ++ x⟩ ∧
      (old' = [] ∨ added' = []) ∧ mergeLoop old added = x ++ mergeLoop old' added'
  | fuel, [], added, t, _ => by
    refine ⟨[], added, [], ?_, Or.inl rfl, by simp⟩
    cases fuel <;> simp [MLoop.run, MLoop.guard, canonLoop1]
  | fuel, o :: os, [], t, _ => by
    refine ⟨o :: os, [], [], ?_, Or.inr rfl, by simp⟩
    cases fuel <;> simp [MLoop.run, MLoop.guard, canonLoop1]
  | 0, o :: os, a :: as, t, h => by simp at h
  | fuel + 1, o :: os, a :: as, t, h => by
    have hg : canonLoop1.guard ⟨o :: os, a :: as, t⟩ = true := by simp [MLoop.guard, canonLoop1]
    rw [mergeLoop_cons_cons]
    simp only [MLoop.run, hg, if_true]
    by_cases hv : o.l.valid = true
    · have hd : canonDrops.eval (envMerge canonAttrLt ⟨o :: os, a :: as, t⟩) = false := by
        simp [canonDrops, BE.eval, envMerge, hv]
      by_cases hb : before o a = true
      · obtain ⟨old', added', x, h1, h2, h3⟩ := loop1_canon fuel os (a :: as) (t ++ [o]) (by simp at h ⊢; omega)
        refine ⟨old', added', o :: x, ?_, h2, by simp [hv, hb, h3]⟩
        simp only [canonLoop1, MTree.run, hd, envMerge_before, hb, Bool.false_eq_true, if_false, runActs,
          MAct.run, List.head?, Option.map_some, Option.bind_some] at h1 ⊢
        simpa using h1
      · obtain ⟨old', added', x, h1, h2, h3⟩ := loop1_canon fuel (o :: os) as (t ++ [a]) (by simp at h ⊢; omega)
        refine ⟨old', added', a :: x, ?_, h2, by simp [hv, hb, h3]⟩
        simp only [canonLoop1, MTree.run, hd, envMerge_before, hb, Bool.false_eq_true, if_false, runActs,
          MAct.run, List.head?, Option.map_some, Option.bind_some] at h1 ⊢
        simpa using h1
    · have hd : canonDrops.eval (envMerge canonAttrLt ⟨o :: os, a :: as, t⟩) = true := by
        simp [canonDrops, BE.eval, envMerge, hv]
      obtain ⟨old', added', x, h1, h2, h3⟩ := loop1_canon fuel os (a :: as) t (by simp at h ⊢; omega)
      refine ⟨old', added', x, ?_, h2, by simp [hv, h3]⟩
      simp only [canonLoop1, MTree.run, hd, if_true, runActs, MAct.run, Option.bind_some] at h1 ⊢
      exact h1

theorem loop2_canon : ∀ (fuel : Nat) (old added t : List Pair), old.length ≤ fuel →
    canonLoop2.run canonAttrLt fuel ⟨old, added, t⟩ = some ⟨[], added, t ++ old.filter (·.l.valid)⟩
  | fuel, [], added, t, _ => by cases fuel <;> simp [MLoop.run, MLoop.guard, canonLoop2]
  | 0, o :: os, added, t, h => by simp at h
  | fuel + 1, o :: os, added, t, h => by
    have hg : canonLoop2.guard ⟨o :: os, added, t⟩ = true := by simp [MLoop.guard, canonLoop2]
    simp only [MLoop.run, hg, if_true]
    by_cases hv : o.l.valid = true
    · have hk : canonKeeps.eval (envMerge canonAttrLt ⟨o :: os, added, t⟩) = true := by
        simp [canonKeeps, BE.eval, envMerge, hv]
      have ih := loop2_canon fuel os added (t ++ [o]) (by simp at h; omega)
      simp only [canonLoop2, MTree.run, hk, if_true, runActs, MAct.run, List.head?, Option.map_some,
        Option.bind_some] at ih ⊢
      rw [ih]; simp [hv]
    · have hk : canonKeeps.eval (envMerge canonAttrLt ⟨o :: os, added, t⟩) = false := by
        simp [canonKeeps, BE.eval, envMerge, hv]
      have ih := loop2_canon fuel os added t (by simp at h; omega)
      simp only [canonLoop2, MTree.run, hk, Bool.false_eq_true, if_false, runActs, MAct.run, Option.bind_some] at ih ⊢
      rw [ih]; simp [hv]

theorem loop3_canon : ∀ (fuel : Nat) (added t : List Pair), added.length ≤ fuel →
    canonLoop3.run canonAttrLt fuel ⟨[], added, t⟩ = some ⟨[], [], t ++ added⟩
  | fuel, [], t, _ => by cases fuel <;> simp [MLoop.run, MLoop.guard, canonLoop3]
  | 0, a :: as, t, h => by simp at h
  | fuel + 1, a :: as, t, h => by
    have hg : canonLoop3.guard ⟨[], a :: as, t⟩ = true := by simp [MLoop.guard, canonLoop3]
    have ih := loop3_canon fuel as (t ++ [a]) (by simp at h; omega)
    simp only [MLoop.run, hg, if_true]
    simp only [canonLoop3, MTree.run, runActs, MAct.run, List.head?, Option.map_some, Option.bind_some] at ih ⊢
    rw [ih]; simp

theorem mergeProgSrc_canon (old added : List Pair) :
    mergeProgSrc canonAttrLt [canonLoop1, canonLoop2, canonLoop3] old added = some (mergeLoop old added) := by
  obtain ⟨old', added', x, h1, h2, h3⟩ := loop1_canon (old.length + added.length) old added [] (Nat.le_refl _)
  simp only [mergeProgSrc, runLoops, h1, Option.bind_some]
  rcases h2 with rfl | rfl
  · rw [loop2_canon _ [] added' _ (by simp)]
    simp only [Option.bind_some]
    rw [loop3_canon _ added' _ (by simp)]
    simp [h3, mergeLoop_nil]
  · rw [loop2_canon _ old' [] _ (by simp)]
    simp only [Option.bind_some]
    rw [loop3_canon _ [] _ (by simp)]
    simp [h3, mergeLoop_nil_right]

theorem mergeSrc_canon (s : ISet) :
    mergeSrc [.assignNewToLocal, .clearNew] canonAttrLt [canonLoop1, canonLoop2, canonLoop3] s = some (merge s) := by
  unfold mergeSrc merge
  split
  · rfl
  · split
    · rw [mergeProgSrc_canon]; rfl
    · rfl

theorem build_canon3 (l a : Nat) (p : Bool) :
    LIdxCtor.build { loc := .param 0, attr := .param 1, pub := .param 2, state := .valid } [l, a, p.toNat] =
      { loc := l, attr := a, pub := p, valid := true } := by
  cases p <;> simp [LIdxCtor.build, Init.eval]

theorem build_canon2 (a : Nat) (p : Bool) :
    LIdxCtor.build { loc := .zero, attr := .param 0, pub := .param 1, state := .valid } [a, p.toNat] =
      { loc := 0, attr := a, pub := p, valid := true } := by
  cases p <;> simp [LIdxCtor.build, Init.eval]

theorem build_canon0 :
    LIdxCtor.build { loc := .zero, attr := .zero, pub := .falseV, state := .valid } [] = defaultLocal := by
  simp [LIdxCtor.build, Init.eval, defaultLocal]

theorem build_canon1 (l : Nat) :
    LIdxCtor.build { loc := .param 0, attr := .zero, pub := .falseV, state := .valid } [l] =
      { loc := l, attr := 0, pub := false, valid := true } := by
  simp [LIdxCtor.build, Init.eval]

theorem write_assign (x : LIdx) (k : Nat) : writeSrc [(.loc, .param 0)] [k] x = { x with loc := k } := by
  simp [writeSrc, Init.eval]

theorem write_setState (x : LIdx) : writeSrc [(.state, .param 0)] [1] x = { x with valid := false } ∧
    writeSrc [(.state, .param 0)] [0] x = { x with valid := true } := by
  simp [writeSrc, Init.eval]

end DV.C03
