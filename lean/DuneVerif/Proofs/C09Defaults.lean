import DuneVerif.Proofs.C09Nested
/-!
# C09 — the defaults of the abstraction layer (defaults.hh) and the type-level functions (core Lean only)

`mask`, `maskOr`, `maskAnd`, the default reductions through `anyTrue`, the horizontal `max`/`min`, `implCast`,
nested broadcast and `Scalar`/`Rebind`/`lanes`, all about the definitions the translator regenerates
(`Gen.maskCmp`, `Gen.maskOrOp`, `Gen.maskAndOp`, `Gen.defred_*`, `Gen.hloop_*`, `Gen.implCastSrc/Dst`, `Gen.Ty.*`).
-/
namespace DV.C09
open Gen

section Mask
variable {α : Type} {S S₂ : Nat}

theorem zipWith_replicate_right {β γ : Type} (f : α → β → γ) (v : Vec α S) (z : β) :
    Vector.zipWith f v (Vector.replicate S z) = v.map fun x => f x z := by
  apply Vector.ext; intro i hi; simp

/-- `mask(v)` is `v[l] != 0` in every lane -/
theorem mask_lanewise (sem : CmpOp → α → α → Option Bool) (zero : α) (v : Vec α S) :
    LanewiseUn (Simd.mask sem zero v) (fun x => sem .ne x zero) v := by
  have h : CmpOp.ofName maskCmp = some .ne := by decide
  unfold Simd.mask LanewiseUn
  rw [h]
  simp only [Option.bind_some]
  rw [lanewise_compareVV]
  simp only [Simd.broadcast, zipWith_replicate_right]

theorem mask_total (cmp : CmpOp → α → α → Bool) (zero : α) (v : Vec α S) :
    Simd.mask (fun o x y => some (cmp o x y)) zero v = some (v.map fun x => cmp .ne x zero) := by
  rw [mask_lanewise]
  exact allSome_map_some _ v

theorem boolSem_lor : Simd.boolSem .lor = fun a b => some (a || b) := by
  funext a b; simp [Simd.boolSem, BoolOp.symbol]
theorem boolSem_land : Simd.boolSem .land = fun a b => some (a && b) := by
  funext a b; simp [Simd.boolSem, BoolOp.symbol]

/-- `maskOr(v1, v2)` / `maskAnd(v1, v2)` combine the two masks lane by lane with `||` / `&&` -/
theorem maskOr_lanes (ma mb : Vec Bool S) :
    Simd.maskCombine maskOrOp Simd.boolSem (some ma) (some mb) = some (Vector.zipWith (fun a b => a || b) ma mb) := by
  have h : BoolOp.ofName maskOrOp = some .lor := by decide
  simp only [Simd.maskCombine, Option.bind_some, h]
  rw [lanewise_logicVV, boolSem_lor, allSome_zipWith_some]

theorem maskAnd_lanes (ma mb : Vec Bool S) :
    Simd.maskCombine maskAndOp Simd.boolSem (some ma) (some mb) = some (Vector.zipWith (fun a b => a && b) ma mb) := by
  have h : BoolOp.ofName maskAndOp = some .land := by decide
  simp only [Simd.maskCombine, Option.bind_some, h]
  rw [lanewise_logicVV, boolSem_land, allSome_zipWith_some]

end Mask

-- ------------------------------------------------------------------------------------------------
-- default reductions
-- ------------------------------------------------------------------------------------------------
section DefaultReductions
variable {S : Nat}

theorem lnot_bool (m : Vec Bool S) : Simd.lnot (fun b => some b) m = some (m.map (!·)) := by
  rw [lanewise_lnot]
  exact allSome_map_some _ m

private theorem any_not_eq (l : List Bool) : (l.map (!·)).any id = l.any (!·) := by
  simp [List.any_map, Function.comp_def]
private theorem not_any_not_eq (l : List Bool) : (!(l.map (!·)).any id) = l.all id := by
  induction l with
  | nil => rfl
  | cons x xs ih =>
    simp only [List.map_cons, List.any_cons, List.all_cons, id, Bool.not_or, Bool.not_not] at ih ⊢
    rw [ih]
private theorem not_any_eq (l : List Bool) : (!l.any id) = l.all (!·) := by
  induction l with
  | nil => rfl
  | cons x xs ih =>
    simp only [List.any_cons, List.all_cons, id, Bool.not_or] at ih ⊢
    rw [ih]

/-- a mask type that provides only `anyTrue` (and `operator!`) gets the other three reductions from defaults.hh;
    they compute the same ∃/∀ over the lanes as LoopSIMD's own overloads -/
theorem reduceDefault_eq (k : RedKind) (m : Vec Bool S) : Simd.reduceDefault k m = some (redSpec k m.toList) := by
  cases k with
  | anyTrue => simp only [Simd.reduceDefault, Simd.defaultOf]; exact reduceFlat_eq _ m
  | allTrue =>
    simp only [Simd.reduceDefault, Simd.defaultOf, Simd.defaultReduce, defred_allTrue, if_true, lnot_bool,
      Option.bind_some, reduceFlat_eq, Option.map_some, redSpec, Vector.toList_map]
    rw [not_any_not_eq]
  | anyFalse =>
    simp only [Simd.reduceDefault, Simd.defaultOf, Simd.defaultReduce, defred_anyFalse, if_true, lnot_bool,
      Option.bind_some, reduceFlat_eq, Option.map_some, redSpec, Vector.toList_map, Bool.false_eq_true, if_false]
    rw [any_not_eq]
  | allFalse =>
    simp only [Simd.reduceDefault, Simd.defaultOf, Simd.defaultReduce, defred_allFalse, if_true,
      Option.bind_some, reduceFlat_eq, Option.map_some, redSpec, Bool.false_eq_true, if_false]
    rw [not_any_eq]

/-- the same for *any* lawful SIMD type: with `anyTrue` meaning "some lane is true" and a lane-wise `!`, the
    three defaults of defaults.hh mean "all lanes true", "some lane false", "all lanes false" -/
theorem default_reductions_generic {V : Type → Type} {L : Nat} (X : SimdLike V L) (hX : X.Lawful) (m : V Bool) :
    (Simd.defaultReduce defred_allTrue (fun m => some (X.anyTrue m)) (fun m => some (X.map (!·) m)) m
        = some (decide (∀ l, X.lane l m = true))) ∧
    (Simd.defaultReduce defred_anyFalse (fun m => some (X.anyTrue m)) (fun m => some (X.map (!·) m)) m
        = some (decide (∃ l, X.lane l m = false))) ∧
    (Simd.defaultReduce defred_allFalse (fun m => some (X.anyTrue m)) (fun m => some (X.map (!·) m)) m
        = some (decide (∀ l, X.lane l m = false))) := by
  have hany : ∀ m' : V Bool, X.anyTrue m' = decide (∃ l, X.lane l m' = true) := by
    intro m'
    cases h : X.anyTrue m' with
    | true => simp [(hX.anyTrue_iff m').mp h]
    | false =>
      have : ¬ ∃ l, X.lane l m' = true := fun e => by rw [(hX.anyTrue_iff m').mpr e] at h; cases h
      simp [this]
  refine ⟨?_, ?_, ?_⟩
  · simp only [Simd.defaultReduce, defred_allTrue, if_true, Option.bind_some, Option.map_some, hany, hX.lane_map]
    congr 1
    by_cases h : ∀ l, X.lane l m = true
    · simp [h]
    · have : ∃ l, X.lane l m = false := by
        false_or_by_contra
        rename_i hne
        apply h
        intro l
        cases hv : X.lane l m with
        | true => rfl
        | false => exact absurd ⟨l, hv⟩ hne
      simp [h, this]
  · simp only [Simd.defaultReduce, defred_anyFalse, if_true, Option.bind_some, Option.map_some, hany, hX.lane_map,
      Bool.false_eq_true, if_false]
    congr 2
    apply propext
    constructor
    · rintro ⟨l, hl⟩; exact ⟨l, by simpa using hl⟩
    · rintro ⟨l, hl⟩; exact ⟨l, by simp [hl]⟩
  · simp only [Simd.defaultReduce, defred_allFalse, if_true, Option.bind_some, Option.map_some, hany,
      Bool.false_eq_true, if_false]
    congr 1
    by_cases h : ∀ l, X.lane l m = false
    · have : ¬ ∃ l, X.lane l m = true := by rintro ⟨l, hl⟩; rw [h l] at hl; cases hl
      simp [h, this]
    · have : ∃ l, X.lane l m = true := by
        false_or_by_contra
        rename_i hne
        apply h
        intro l
        cases hv : X.lane l m with
        | false => rfl
        | true => exact absurd ⟨l, hv⟩ hne
      simp [h, this]

end DefaultReductions

-- ------------------------------------------------------------------------------------------------
-- horizontal max / min
-- ------------------------------------------------------------------------------------------------
section Horizontal
variable {α : Type}

/-- the result of the horizontal maximum is one of the lanes … -/
theorem hmax_mem (lt : α → α → Bool) (l : List α) (m : α) (h : Simd.hmax lt l = some m) : m ∈ l := by
  cases l with
  | nil => simp [Simd.hmax] at h
  | cons x xs =>
    simp only [Simd.hmax, Option.some.injEq] at h
    subst h
    have : ∀ (ys : List α) (a : α), ys.foldl (fun m y => if lt m y then y else m) a ∈ a :: ys := by
      intro ys
      induction ys with
      | nil => intro a; simp
      | cons y ys ih =>
        intro a
        simp only [List.foldl_cons]
        have := ih (if lt a y then y else a)
        rcases List.mem_cons.mp this with e | e
        · rw [e]; by_cases c : lt a y = true <;> simp [c]
        · simp [e]
    exact this xs x

theorem hmin_mem (lt : α → α → Bool) (l : List α) (m : α) (h : Simd.hmin lt l = some m) : m ∈ l := by
  cases l with
  | nil => simp [Simd.hmin] at h
  | cons x xs =>
    simp only [Simd.hmin, Option.some.injEq] at h
    subst h
    have : ∀ (ys : List α) (a : α), ys.foldl (fun m y => if lt y m then y else m) a ∈ a :: ys := by
      intro ys
      induction ys with
      | nil => intro a; simp
      | cons y ys ih =>
        intro a
        simp only [List.foldl_cons]
        have := ih (if lt y a then y else a)
        rcases List.mem_cons.mp this with e | e
        · rw [e]; by_cases c : lt y a = true <;> simp [c]
        · simp [e]
    exact this xs x

/-- … and no lane is strictly greater, for every irreflexive transitive `<` (so also for IEEE `<` with NaNs) -/
theorem hmax_maximal (lt : α → α → Bool) (hirr : ∀ a, lt a a = false)
    (htr : ∀ a b c, lt a b = true → lt b c = true → lt a c = true)
    (l : List α) (m : α) (h : Simd.hmax lt l = some m) : ∀ x ∈ l, lt m x = false := by
  cases l with
  | nil => simp [Simd.hmax] at h
  | cons x xs =>
    simp only [Simd.hmax, Option.some.injEq] at h
    subst h
    have : ∀ (ys : List α) (a : α) (seen : List α), (∀ z ∈ seen, lt a z = false) →
        ∀ z ∈ seen ++ ys, lt (ys.foldl (fun m y => if lt m y then y else m) a) z = false := by
      intro ys
      induction ys with
      | nil => intro a seen hs z hz; simpa using hs z (by simpa using hz)
      | cons y ys ih =>
        intro a seen hs z hz
        simp only [List.foldl_cons]
        apply ih (if lt a y then y else a) (seen ++ [y])
        · intro w hw
          rcases List.mem_append.mp hw with hw | hw
          · by_cases c : lt a y = true
            · simp only [c, if_true]
              cases hyw : lt y w with
              | false => rfl
              | true => have := htr a y w c hyw; rw [hs w hw] at this; cases this
            · simp only [c, if_false]; exact hs w hw
          · have : w = y := by simpa using hw
            subst this
            by_cases c : lt a w = true
            · simp only [c, if_true]; exact hirr w
            · simp only [c, if_false]; simpa using c
        · simpa [List.append_assoc] using hz
    intro z hz
    have hseen : ∀ z ∈ [x], lt x z = false ∧ lt z x = false := by
      intro z hz
      have hzx : z = x := by simpa using hz
      rw [hzx]; exact ⟨hirr x, hirr x⟩
    exact this xs x [x] (fun z hz => by first | exact (hseen z hz).1 | exact (hseen z hz).2) z (by simpa using hz)

theorem hmin_minimal (lt : α → α → Bool) (hirr : ∀ a, lt a a = false)
    (htr : ∀ a b c, lt a b = true → lt b c = true → lt a c = true)
    (l : List α) (m : α) (h : Simd.hmin lt l = some m) : ∀ x ∈ l, lt x m = false := by
  cases l with
  | nil => simp [Simd.hmin] at h
  | cons x xs =>
    simp only [Simd.hmin, Option.some.injEq] at h
    subst h
    have : ∀ (ys : List α) (a : α) (seen : List α), (∀ z ∈ seen, lt z a = false) →
        ∀ z ∈ seen ++ ys, lt z (ys.foldl (fun m y => if lt y m then y else m) a) = false := by
      intro ys
      induction ys with
      | nil => intro a seen hs z hz; simpa using hs z (by simpa using hz)
      | cons y ys ih =>
        intro a seen hs z hz
        simp only [List.foldl_cons]
        apply ih (if lt y a then y else a) (seen ++ [y])
        · intro w hw
          rcases List.mem_append.mp hw with hw | hw
          · by_cases c : lt y a = true
            · simp only [c, if_true]
              cases hyw : lt w y with
              | false => rfl
              | true => have := htr w y a hyw c; rw [hs w hw] at this; cases this
            · simp only [c, if_false]; exact hs w hw
          · have : w = y := by simpa using hw
            subst this
            by_cases c : lt w a = true
            · simp only [c, if_true]; exact hirr w
            · simp only [c, if_false]; simpa using c
        · simpa [List.append_assoc] using hz
    intro z hz
    have hseen : ∀ z ∈ [x], lt x z = false ∧ lt z x = false := by
      intro z hz
      have hzx : z = x := by simpa using hz
      rw [hzx]; exact ⟨hirr x, hirr x⟩
    exact this xs x [x] (fun z hz => by first | exact (hseen z hz).1 | exact (hseen z hz).2) z (by simpa using hz)

/-- the translated loop of defaults.hh, run over a lane accessor that is defined on `0 … n-1`, is the fold over
    the list of lanes -/
theorem hreduce_eq_fold (H : HLoop) (hinit : H.init = 0) (hlo : H.lo = 1) (hhi : H.hiMinus = 0)
    (lt : α → α → Bool) (xs : List α) (get : Nat → Option α) (hget : ∀ i (h : i < xs.length), get i = some xs[i]) :
    Simd.hreduce H lt xs.length get =
      match xs with
      | [] => get 0
      | x :: ys => some (ys.foldl (fun m y => if (if H.accLeft then lt m y else lt y m) then y else m) x) := by
  cases xs with
  | nil =>
    simp only [Simd.hreduce, hinit, hlo, hhi, List.length_nil]
    cases get 0 <;> simp
  | cons x ys =>
    have h0 : get 0 = some x := hget 0 (by simp)
    simp only [Simd.hreduce, hinit, hlo, hhi, h0, Option.bind_some, List.length_cons, Nat.sub_zero, Nat.add_sub_cancel]
    have key : ∀ (k : Nat) (hk : k ≤ ys.length) (a : α),
        (List.range' 1 k).foldl (fun m l => m.bind fun m => (get l).map fun x =>
          if (if H.accLeft then lt m x else lt x m) then x else m) (some a) =
        some ((ys.take k).foldl (fun m y => if (if H.accLeft then lt m y else lt y m) then y else m) a) := by
      intro k
      induction k with
      | zero => intro _ a; simp
      | succ k ih =>
        intro hk a
        have hk' : k < ys.length := hk
        rw [List.range'_concat, List.foldl_append, ih (Nat.le_of_succ_le hk)]
        rw [List.take_succ_eq_append_getElem hk', List.foldl_append]
        have hg : get (1 + k) = some ys[k] := by
          have := hget (k + 1) (by simp; omega)
          simpa [Nat.add_comm] using this
        simp [hg]
    rw [key ys.length (Nat.le_refl _) x, List.take_length]

end Horizontal

section HorizontalVec
variable {α : Type} {S S₂ : Nat}

theorem hmaxFlat_eq (lt : α → α → Bool) (v : Vec α S) : Simd.hmaxFlat lt v = Simd.hmax lt v.toList := by
  have hlen : v.toList.length = laneCount S 1 := by simp [laneCount]
  unfold Simd.hmaxFlat
  rw [← hlen, hreduce_eq_fold hloop_max rfl rfl rfl lt v.toList (Simd.lane · v)
    (by intro i hi
        have hi' : i < S := by simpa using hi
        rw [lane_flat v i hi']; simp)]
  cases hv : v.toList with
  | nil =>
    have : S = 0 := by have := congrArg List.length hv; simpa using this
    subst this
    simp [Simd.hmax, Simd.lane, laneOuter]
  | cons x ys => simp [Simd.hmax, hloop_max]

theorem hminFlat_eq (lt : α → α → Bool) (v : Vec α S) : Simd.hminFlat lt v = Simd.hmin lt v.toList := by
  have hlen : v.toList.length = laneCount S 1 := by simp [laneCount]
  unfold Simd.hminFlat
  rw [← hlen, hreduce_eq_fold hloop_min rfl rfl rfl lt v.toList (Simd.lane · v)
    (by intro i hi
        have hi' : i < S := by simpa using hi
        rw [lane_flat v i hi']; simp)]
  cases hv : v.toList with
  | nil =>
    have : S = 0 := by have := congrArg List.length hv; simpa using this
    subst this
    simp [Simd.hmin, Simd.lane, laneOuter]
  | cons x ys => simp [Simd.hmin, hloop_min]

end HorizontalVec

section HorizontalNested
variable {α : Type} {S S₂ : Nat}

theorem flatten_length (v : Vec (Vec α S₂) S) : (Simd.flatten v).length = S * S₂ := by
  simp [Simd.flatten, List.length_flatten, List.map_map, Function.comp_def, List.map_const', List.sum_replicate_nat]

theorem flatten_getElem (v : Vec (Vec α S₂) S) (l : Nat) (h : l < (Simd.flatten v).length) :
    Simd.laneNested l v = some (Simd.flatten v)[l] := by
  have hl : l < S * S₂ := by rw [flatten_length] at h; exact h
  obtain ⟨h1, h2, e⟩ := nested_lane_divmod v l hl
  rw [e]
  congr 1
  -- entry `l` of the concatenation of `S` rows of length `S₂`
  have key : ∀ (rows : List (Vec α S₂)) (l : Nat) (hd : l / S₂ < rows.length) (hm : l % S₂ < S₂)
      (hf : l < (rows.map Vector.toList).flatten.length),
      (rows.map Vector.toList).flatten[l] = (rows[l / S₂])[l % S₂] := by
    intro rows
    induction rows with
    | nil => intro l hd; simp at hd
    | cons r rs ih =>
      intro l hd hm hf
      simp only [List.map_cons, List.flatten_cons]
      by_cases hlt : l < S₂
      · have hd0 : l / S₂ = 0 := Nat.div_eq_of_lt hlt
        have hm0 : l % S₂ = l := Nat.mod_eq_of_lt hlt
        rw [List.getElem_append_left (by simpa using hlt)]
        simp [hd0, hm0]
      · have hge : S₂ ≤ l := Nat.le_of_not_lt hlt
        have hS2 : 0 < S₂ := Nat.lt_of_le_of_lt (Nat.zero_le _) hm
        rw [List.getElem_append_right (by simpa using hge)]
        have hd1 : l / S₂ = (l - S₂) / S₂ + 1 := by
          rw [Nat.div_eq_sub_div hS2 hge]
        have hm1 : l % S₂ = (l - S₂) % S₂ := Nat.mod_eq_sub_mod hge
        have hd' : (l - S₂) / S₂ < rs.length := by
          rw [hd1] at hd; simpa using hd
        have := ih (l - S₂) hd' (by rw [← hm1]; exact hm) (by
          simp only [List.map_cons, List.flatten_cons, List.length_append, Vector.length_toList] at hf
          omega)
        simp only [Vector.length_toList]
        rw [this]
        simp only [hd1, hm1, List.getElem_cons_succ]
  have := key v.toList l (by simpa using h1) h2 (by simpa [Simd.flatten] using h)
  simp only [Simd.flatten]
  rw [this]
  simp

theorem hmaxNested_eq (lt : α → α → Bool) (v : Vec (Vec α S₂) S) :
    Simd.hmaxNested lt v = Simd.hmax lt (Simd.flatten v) := by
  have hlen : (Simd.flatten v).length = laneCount S S₂ := by rw [flatten_length]; rfl
  unfold Simd.hmaxNested
  rw [← hlen, hreduce_eq_fold hloop_max rfl rfl rfl lt (Simd.flatten v) (Simd.laneNested · v)
    (by intro i hi; exact flatten_getElem v i hi)]
  cases hv : Simd.flatten v with
  | nil =>
    have h0 : S * S₂ = 0 := by rw [← flatten_length v, hv]; rfl
    simp [Simd.hmax, Simd.laneNested, laneCount, h0]
  | cons x ys => simp [Simd.hmax, hloop_max]

theorem hminNested_eq (lt : α → α → Bool) (v : Vec (Vec α S₂) S) :
    Simd.hminNested lt v = Simd.hmin lt (Simd.flatten v) := by
  have hlen : (Simd.flatten v).length = laneCount S S₂ := by rw [flatten_length]; rfl
  unfold Simd.hminNested
  rw [← hlen, hreduce_eq_fold hloop_min rfl rfl rfl lt (Simd.flatten v) (Simd.laneNested · v)
    (by intro i hi; exact flatten_getElem v i hi)]
  cases hv : Simd.flatten v with
  | nil =>
    have h0 : S * S₂ = 0 := by rw [← flatten_length v, hv]; rfl
    simp [Simd.hmin, Simd.laneNested, laneCount, h0]
  | cons x ys => simp [Simd.hmin, hloop_min]

/-- the broadcasting constructor of a vector of vectors puts the scalar into every lane of every entry -/
theorem broadcastNested_lane (x : α) (l : Nat) (hl : l < S * S₂) :
    Simd.laneNested l (Simd.broadcastNested (S := S) (S₂ := S₂) x) = some x := by
  obtain ⟨h1, h2, e⟩ := nested_lane_divmod (Simd.broadcastNested (S := S) (S₂ := S₂) x) l hl
  rw [e]
  simp [Simd.broadcastNested, Simd.broadcast]

end HorizontalNested

-- ------------------------------------------------------------------------------------------------
-- implCast
-- ------------------------------------------------------------------------------------------------
section ImplCast
variable {α : Type} {S S₂ : Nat}

theorem implCastLanes_eq (n : Nat) (zero : α) (get : Nat → Option α) (g : Nat → α)
    (hg : ∀ l, l < n → get l = some (g l)) :
    Simd.implCastLanes n zero get = some (Vector.ofFn fun i : Fin n => g i.val) := by
  unfold Simd.implCastLanes
  have key : ∀ k, k ≤ n →
      (List.range k).foldl (fun (r : Option (Vec α n)) l => r.bind fun r => ((ixEval n l implCastSrc).bind get).bind fun x =>
        (ixEval n l implCastDst).bind fun d => if h : d < n then some (r.set d x h) else none) (some (Vector.replicate n zero)) =
      some (Vector.ofFn fun i : Fin n => if i.val < k then g i.val else zero) := by
    intro k
    induction k with
    | zero =>
      intro _
      simp only [List.range_zero, List.foldl_nil, Nat.not_lt_zero, if_false]
      congr 1
      apply Vector.ext; intro i hi; simp
    | succ k ih =>
      intro hk
      have hk' : k < n := hk
      rw [List.range_succ, List.foldl_append, ih (Nat.le_of_succ_le hk)]
      simp only [List.foldl_cons, List.foldl_nil, Option.bind_some, implCastSrc, implCastDst, ixEval, hg k hk', hk', dite_true]
      congr 1
      apply Vector.ext
      intro i hi
      rw [Vector.getElem_set]
      simp only [Vector.getElem_ofFn]
      by_cases hik : k = i
      · subst hik; simp
      · have h1 : (i < k + 1) = (i < k) := by
          apply propext; constructor <;> intro h <;> omega
        simp only [hik, if_false, h1]
  rw [key n (Nat.le_refl n)]
  congr 1
  apply Vector.ext
  intro i hi
  simp [hi]

theorem ofLanesFlat_eq (r : Vec α (laneCount S 1)) :
    Simd.ofLanesFlat r = some (Vector.ofFn fun i : Fin S => r[i.val]'(by simp [laneCount])) := by
  unfold Simd.ofLanesFlat
  rw [allSome_eq_some_iff]
  intro i hi
  have hi' : i < laneCount S 1 := by simpa [laneCount] using hi
  simp only [Vector.getElem_ofFn, laneOuter, laneInner, Nat.div_one, Nat.mod_one, and_self, if_true]
  exact Vector.getElem?_eq_getElem hi'

theorem ofLanesNested_eq (r : Vec α (laneCount S S₂)) :
    Simd.ofLanesNested r = some (Vector.ofFn fun i : Fin S => Vector.ofFn fun j : Fin S₂ =>
      r[i.val * S₂ + j.val]'(by simpa [laneCount] using nested_entry_lt i.isLt j.isLt)) := by
  unfold Simd.ofLanesNested
  rw [allSome_eq_some_iff]
  intro i hi
  simp only [Vector.getElem_ofFn]
  rw [allSome_eq_some_iff]
  intro j hj
  have hl : i * S₂ + j < laneCount S S₂ := by simpa [laneCount] using nested_entry_lt hi hj
  simp only [Vector.getElem_ofFn, laneOuter, laneInner, nested_entry_div hj, nested_entry_mod hj, and_self, if_true]
  exact Vector.getElem?_eq_getElem hl

/-- **implCast** from a vector of vectors to the flat vector with the same number of lanes keeps every lane -/
theorem implCastToFlat_lanes (zero : α) (u : Vec (Vec α S₂) S) :
    ∃ r, Simd.implCastToFlat zero u = some r ∧ ∀ l (_ : l < S * S₂), Simd.lane l r = Simd.laneNested l u := by
  let g : Nat → α := fun l => if h : l < S * S₂ then (SimdLike.nested S S₂).lane ⟨l, h⟩ u else zero
  have hg : ∀ l, l < laneCount (S * S₂) 1 → Simd.laneNested l u = some (g l) := by
    intro l hl
    have hl' : l < S * S₂ := by simpa [laneCount] using hl
    rw [laneNested_instance u ⟨l, hl'⟩]
    simp [g, hl']
  unfold Simd.implCastToFlat
  rw [implCastLanes_eq _ zero _ g hg]
  simp only [Option.bind_some]
  rw [ofLanesFlat_eq]
  refine ⟨_, rfl, ?_⟩
  intro l hl
  rw [lane_flat _ _ hl, Vector.getElem_ofFn, Vector.getElem_ofFn]
  have := hg l (by simpa [laneCount] using hl)
  rw [this]

/-- … and so does **implCast** from the flat vector to the vector of vectors -/
theorem implCastToNested_lanes (zero : α) (u : Vec α (S * S₂)) :
    ∃ r, Simd.implCastToNested zero u = some r ∧ ∀ l (_ : l < S * S₂), Simd.laneNested l r = Simd.lane l u := by
  let g : Nat → α := fun l => if h : l < S * S₂ then u[l] else zero
  have hg : ∀ l, l < laneCount S S₂ → Simd.lane l u = some (g l) := by
    intro l hl
    have hl' : l < S * S₂ := by simpa [laneCount] using hl
    rw [lane_flat u l hl']
    simp [g, hl']
  unfold Simd.implCastToNested
  rw [implCastLanes_eq _ zero _ g hg]
  simp only [Option.bind_some]
  rw [ofLanesNested_eq]
  refine ⟨_, rfl, ?_⟩
  intro l hl
  obtain ⟨h1, h2, e⟩ := nested_lane_divmod
    (Vector.ofFn fun i : Fin S => Vector.ofFn fun j : Fin S₂ =>
      (Vector.ofFn fun i : Fin (laneCount S S₂) => g i.val)[i.val * S₂ + j.val]'(by
        simpa [laneCount] using nested_entry_lt i.isLt j.isLt)) l hl
  rw [e, hg l (by simpa [laneCount] using hl)]
  simp only [Vector.getElem_ofFn]
  congr 2
  exact Nat.div_add_mod' l S₂

end ImplCast

-- ------------------------------------------------------------------------------------------------
-- type-level functions
-- ------------------------------------------------------------------------------------------------
section Types

theorem Ty.scalarOf_is_scalar (t : Ty) : ∃ s, t.scalarOf = .scalar s := by
  induction t with
  | scalar s => exact ⟨s, rfl⟩
  | loop t S ih => simpa [Ty.scalarOf] using ih

/-- `lanes<Rebind<U, V>>() = lanes<V>() * lanes<U>()`, in particular `= lanes<V>()` for a scalar `U` -/
theorem Ty.rebind_lanes (u t : Ty) : (Ty.rebind u t).lanes = t.lanes * u.lanes := by
  induction t with
  | scalar s => simp [Ty.rebind, Ty.lanes]
  | loop t S ih => simp [Ty.rebind, Ty.lanes, laneCount, ih, Nat.mul_assoc]

theorem Ty.rebind_scalarOf (s : String) (t : Ty) : (Ty.rebind (.scalar s) t).scalarOf = .scalar s := by
  induction t with
  | scalar _ => rfl
  | loop t S ih => simpa [Ty.rebind, Ty.scalarOf] using ih

/-- `Rebind<Scalar<V>, V> = V` -/
theorem Ty.rebind_self (t : Ty) : Ty.rebind t.scalarOf t = t := by
  induction t with
  | scalar s => rfl
  | loop t S ih => simp [Ty.rebind, Ty.scalarOf, ih]

end Types

end DV.C09
