import DuneVerif.Proofs.C02Outer
/-! C02: the triangular solves (back substitution of `solve`, forward/backward sweeps of `invert`). -/
namespace DV.C02
open Matrix
set_option linter.unusedSectionVars false

variable {n : Nat} {K : Type} [Field K]

theorem forUp_rel {β γ : Type} (R : β → γ → Prop) (b1 : Fin n → β → β) (b2 : Fin n → γ → γ) (i1 : β) (i2 : γ)
    (h0 : R i1 i2) (hs : ∀ k s1 s2, R s1 s2 → R (b1 k s1) (b2 k s2)) :
    R (forUp n i1 b1) (forUp n i2 b2) := by
  unfold forUp
  generalize List.finRange n = l
  induction l generalizing i1 i2 with
  | nil => exact h0
  | cons a t ih => exact ih _ _ (hs a _ _ h0)

theorem forDown_rel {β γ : Type} (R : β → γ → Prop) (b1 : Fin n → β → β) (b2 : Fin n → γ → γ) (i1 : β) (i2 : γ)
    (h0 : R i1 i2) (hs : ∀ k s1 s2, R s1 s2 → R (b1 k s1) (b2 k s2)) :
    R (forDown n i1 b1) (forDown n i2 b2) := by
  unfold forDown
  generalize List.finRange n = l
  induction l with
  | nil => exact h0
  | cons a t ih => exact hs a _ _ ih

/-- a loop that conditionally subtracts terms computes `a - Σ` -/
theorem forUp_sub_sum (a : K) (p : Fin n → Prop) [DecidablePred p] (g : Fin n → K) :
    forUp n a (fun j acc => if p j then acc - g j else acc) = a - ∑ j, if p j then g j else 0 := by
  have : forUp n a (fun j acc => if p j then acc - g j else acc) =
      a - ∑ j : Fin n, if p j ∧ j.1 < n then g j else 0 := by
    apply forUp_ind a _ (fun m acc => acc = a - ∑ j : Fin n, if p j ∧ j.1 < m then g j else 0)
    · simp
    · intro k acc ih
      have hsplit : ∀ j : Fin n, (if p j ∧ j.1 < k.1 + 1 then g j else 0) =
          (if p j ∧ j.1 < k.1 then g j else 0) + (if j = k then (if p k then g k else 0) else 0) := by
        intro j
        by_cases hjk : j = k
        · subst hjk; simp
        · have : j.1 ≠ k.1 := fun h => hjk (Fin.ext h)
          have h1 : (j.1 < k.1 + 1) ↔ j.1 < k.1 := by omega
          simp [hjk, h1]
      simp only [hsplit, Finset.sum_add_distrib, Finset.sum_ite_eq' Finset.univ k, Finset.mem_univ, if_true]
      rw [ih]
      split_ifs <;> ring
  rw [this]
  simp

/-! ### back substitution with the upper triangle -/

/-- one pass `i` of the back substitution, on plain functions -/
def bsStep (A : Mat n K) (i : Fin n) (x : Fin n → K) : Fin n → K :=
  fun r => if r = i then (forUp n (x i) fun j acc => if i < j then acc - A.f i j * x j else acc) / A.f i i
           else x r

theorem backSubst_f (A : Mat n K) (rhs : Vec n K) : (backSubst A rhs).f = forDown n rhs.f (bsStep A) := by
  unfold backSubst
  apply forDown_rel (fun (x : Vec n K) (f : Fin n → K) => x.f = f)
  · rfl
  · intro k s1 s2 h
    funext r
    simp [bsStep, ← h]

theorem backwardU_col (U B : Mat n K) (c : Fin n) :
    (fun r => (backwardU U B).f r c) = forDown n (fun r => B.f r c) (bsStep U) := by
  unfold backwardU
  apply forDown_rel (fun (X : Mat n K) (f : Fin n → K) => (fun r => X.f r c) = f)
  · rfl
  · intro k s1 s2 h
    funext r
    simp [bsStep, ← h]

/-- back substitution solves the upper triangular system `W_n(A) x = y` when the diagonal is nonzero -/
theorem bs_correct (A : Mat n K) (hd : ∀ j : Fin n, A.f j j ≠ 0) (y : Fin n → K) :
    Wview n A *ᵥ (forDown n y (bsStep A)) = y := by
  have key : (∀ r : Fin n, r.1 < 0 → (forDown n y (bsStep A)) r = y r) ∧
      ∀ r : Fin n, 0 ≤ r.1 → ∑ c, Wview n A r c * (forDown n y (bsStep A)) c = y r := by
    apply forDown_ind y (bsStep A) (fun m x => (∀ r : Fin n, r.1 < m → x r = y r) ∧
      ∀ r : Fin n, m ≤ r.1 → ∑ c, Wview n A r c * x c = y r)
    · exact ⟨fun _ _ => rfl, fun r hr => absurd r.2 (by omega)⟩
    · intro i x ⟨h1, h2⟩
      have hx' : ∀ r, r ≠ i → bsStep A i x r = x r := by
        intro r hr; simp [bsStep, hr]
      have hxi : bsStep A i x i = (y i - ∑ j, if i < j then A.f i j * x j else 0) / A.f i i := by
        simp only [bsStep, if_true]
        rw [forUp_sub_sum (x i) (fun j => i < j) (fun j => A.f i j * x j), h1 i (Nat.lt_succ_self _)]
      constructor
      · intro r hr
        have : r ≠ i := fun h => by subst h; omega
        rw [hx' r this]
        exact h1 r (by omega)
      · intro r hr
        by_cases hri : r = i
        · subst hri
          have hterm : ∀ c : Fin n, Wview n A r c * bsStep A r x c =
              (if c = r then A.f r r * bsStep A r x r else 0) + (if r < c then A.f r c * x c else 0) := by
            intro c
            by_cases hcr : c = r
            · subst hcr; simp [Wview]
            · rw [hx' c hcr]
              by_cases hlt : c < r
              · have : ¬ (r < c) := not_lt.mpr (le_of_lt hlt)
                simp [Wview, hlt, hcr, this]
              · have hgt : r < c := lt_of_le_of_ne (not_lt.mp hlt) (fun h => hcr h.symm)
                simp [Wview, hlt, hcr, hgt]
          simp only [hterm, Finset.sum_add_distrib, Finset.sum_ite_eq' Finset.univ r, Finset.mem_univ, if_true]
          rw [hxi]
          field_simp [hd r]
          ring
        · have hir : i < r := by
            have : r.1 ≠ i.1 := fun h => hri (Fin.ext h)
            simp only [Fin.lt_def]; omega
          have hterm : ∀ c : Fin n, Wview n A r c * bsStep A i x c = Wview n A r c * x c := by
            intro c
            by_cases hci : c = i
            · subst hci; simp [Wview, hir]
            · rw [hx' c hci]
          simp only [hterm]
          exact h2 r (by simp only [Fin.lt_def] at hir; omega)
  funext r
  exact key.2 r (Nat.zero_le _)

/-! ### forward substitution with the stored unit lower factor -/

/-- the inner loop `for j < i: y[i] -= L[i][j]*y[j]` on plain functions -/
def fwRow (L : Mat n K) (i : Fin n) (y : Fin n → K) : Fin n → K :=
  forUp n y fun j y => if j < i then (fun r => if r = i then y i - L.f i j * y j else y r) else y

theorem forwardL_col (L B : Mat n K) (c : Fin n) :
    (fun r => (forwardL L B).f r c) = forUp n (fun r => B.f r c) (fwRow L) := by
  unfold forwardL
  apply forUp_rel (fun (X : Mat n K) (f : Fin n → K) => (fun r => X.f r c) = f)
  · rfl
  · intro i s1 s2 h
    unfold fwRow
    apply forUp_rel (fun (X : Mat n K) (f : Fin n → K) => (fun r => X.f r c) = f)
    · exact h
    · intro j t1 t2 h'
      by_cases hji : j < i
      · simp only [hji, if_true]
        funext r
        simp [← h']
      · simp only [hji, if_false]; exact h'

theorem fwRow_eq (L : Mat n K) (i : Fin n) (y : Fin n → K) :
    fwRow L i y = fun r => if r = i then y i - ∑ j, if j < i then L.f i j * y j else 0 else y r := by
  have : fwRow L i y = fun r => if r = i then y i - ∑ j : Fin n, if j < i ∧ j.1 < n then L.f i j * y j else 0
      else y r := by
    unfold fwRow
    apply forUp_ind y _ (fun m y' => y' = fun r => if r = i then
      y i - ∑ j : Fin n, if j < i ∧ j.1 < m then L.f i j * y j else 0 else y r)
    · funext r; split_ifs with h
      · subst h; simp
      · rfl
    · intro k y' ih
      have hsplit : ∀ j : Fin n, (if j < i ∧ j.1 < k.1 + 1 then L.f i j * y j else 0) =
          (if j < i ∧ j.1 < k.1 then L.f i j * y j else 0) +
            (if j = k then (if k < i then L.f i k * y k else 0) else 0) := by
        intro j
        by_cases hjk : j = k
        · subst hjk; simp
        · have : j.1 ≠ k.1 := fun h => hjk (Fin.ext h)
          have h1 : (j.1 < k.1 + 1) ↔ j.1 < k.1 := by omega
          simp [hjk, h1]
      simp only [hsplit, Finset.sum_add_distrib, Finset.sum_ite_eq' Finset.univ k, Finset.mem_univ, if_true]
      by_cases hki : k < i
      · simp only [hki, if_true]
        have hk : y' k = y k := by
          rw [ih]; simp [ne_of_lt hki]
        funext r
        by_cases hri : r = i
        · subst hri
          simp only [if_true, hk]
          rw [ih]; simp only [if_true]; ring
        · simp only [hri, if_false]
          rw [ih]; simp [hri]
      · simp only [hki, if_false, add_zero]
        exact ih
  rw [this]
  simp

/-- forward substitution solves the unit lower triangular system `L_n(A) y' = y` -/
theorem fw_correct (L : Mat n K) (y : Fin n → K) :
    Lview n L *ᵥ (forUp n y (fwRow L)) = y := by
  have key : (∀ r : Fin n, n ≤ r.1 → (forUp n y (fwRow L)) r = y r) ∧
      ∀ r : Fin n, r.1 < n →
        (forUp n y (fwRow L)) r + ∑ c, (if c < r then L.f r c * (forUp n y (fwRow L)) c else 0) = y r := by
    apply forUp_ind y (fwRow L) (fun m y' => (∀ r : Fin n, m ≤ r.1 → y' r = y r) ∧
      ∀ r : Fin n, r.1 < m → y' r + ∑ c, (if c < r then L.f r c * y' c else 0) = y r)
    · exact ⟨fun _ _ => rfl, fun r hr => absurd hr (by omega)⟩
    · intro i y' ⟨h1, h2⟩
      rw [fwRow_eq]
      constructor
      · intro r hr
        have : r ≠ i := fun h => by subst h; omega
        simp only [this, if_false]
        exact h1 r (by omega)
      · intro r hr
        have hsum : ∀ r' : Fin n, r'.1 ≤ i.1 → ∀ c : Fin n,
            (if c < r' then L.f r' c * (if c = i then y' i - ∑ j, if j < i then L.f i j * y' j else 0 else y' c)
              else 0) = if c < r' then L.f r' c * y' c else 0 := by
          intro r' hr' c
          by_cases hc : c < r'
          · have : c ≠ i := fun h => by subst h; simp only [Fin.lt_def] at hc; omega
            simp [hc, this]
          · simp [hc]
        by_cases hri : r = i
        · subst hri
          simp only [if_true, hsum r (le_refl _)]
          rw [h1 r (le_refl _)]
          ring
        · simp only [hri, if_false, hsum r (by omega)]
          have : r.1 < i.1 := by
            have : r.1 ≠ i.1 := fun h => hri (Fin.ext h)
            omega
          exact h2 r this
  funext r
  have := key.2 r r.2
  rw [← this]
  simp only [mulVec, dotProduct]
  have hterm : ∀ c : Fin n, Lview n L r c * (forUp n y (fwRow L)) c =
      (if c = r then (forUp n y (fwRow L)) r else 0) + (if c < r then L.f r c * (forUp n y (fwRow L)) c else 0) := by
    intro c
    by_cases hcr : c = r
    · subst hcr; simp [Lview]
    · have : r ≠ c := fun h => hcr h.symm
      by_cases hlt : c < r
      · simp [Lview, hlt, hcr]
      · simp [Lview, hlt, hcr, this]
  simp only [hterm, Finset.sum_add_distrib, Finset.sum_ite_eq' Finset.univ r, Finset.mem_univ, if_true]

end DV.C02
