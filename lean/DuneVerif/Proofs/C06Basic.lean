import DuneVerif.Model.C06
/-! C06 helper lemmas, part 1: trackers, `skipZ`, the greedy packing `takeFit`, one send round. -/
namespace DV.C06
variable {α : Type}

/-- tracker without size array (send trackers; receive trackers of fixed-size communications) -/
def sendT (rank k : Nat) (is : List Nat) (f : Nat) : Tracker := ⟨rank, k, is, false, [], f⟩
/-- receive tracker of a variable-size communication -/
def recvT (rank k : Nat) (js ss : List Nat) : Tracker := ⟨rank, k, js, true, ss, 0⟩

def total (h : Handle α) (is : List Nat) : Nat := (is.flatMap h.data).length

@[simp] theorem total_nil (h : Handle α) : total h [] = 0 := rfl
@[simp] theorem total_cons (h : Handle α) (i : Nat) (is : List Nat) : total h (i :: is) = h.size i + total h is := by
  simp [total, Handle.size]
@[simp] theorem total_append (h : Handle α) (a b : List Nat) : total h (a ++ b) = total h a + total h b := by
  simp [total]

theorem total_eq_zero_iff (h : Handle α) (is : List Nat) : total h is = 0 ↔ ∀ i ∈ is, h.size i = 0 := by
  induction is with
  | nil => simp
  | cons i is ih => simp [ih]

/-! ### trackers -/

@[simp] theorem sendT_skip (r k is f) : (sendT r k is f).skipZeroIndices = sendT r k is f := by
  simp [sendT, Tracker.skipZeroIndices]

@[simp] theorem sendT_move (r k i is f) : (sendT r k (i :: is) f).moveToNextIndex = sendT r (k + 1) is f := by
  simp [sendT, Tracker.moveToNextIndex, Tracker.skipZeroIndices]

@[simp] theorem sendT_finished (r k is f) : (sendT r k is f).finished = is.isEmpty := rfl
@[simp] theorem sendT_left (r k is f) : (sendT r k is f).indicesLeft = is.length := rfl
@[simp] theorem sendT_iface (r k is f) : (sendT r k is f).iface = is := rfl
@[simp] theorem sendT_fixed (r k is f) : (sendT r k is f).fixedSize = f := rfl
@[simp] theorem sendT_index (r k is f) : (sendT r k is f).index = k := rfl
@[simp] theorem recvT_finished (r k js ss) : (recvT r k js ss).finished = js.isEmpty := rfl
@[simp] theorem recvT_left (r k js ss) : (recvT r k js ss).indicesLeft = js.length := rfl
@[simp] theorem recvT_fixed (r k js ss) : (recvT r k js ss).fixedSize = 0 := rfl

/-- state of a variable-size receive tracker that stands (after skipping) in front of `js`/`ss` -/
def recvS (r k : Nat) (js ss : List Nat) : Tracker :=
  recvT r (skipZ js ss k).2.2 (skipZ js ss k).1 (skipZ js ss k).2.1

theorem recvT_skip (r k js ss) : (recvT r k js ss).skipZeroIndices = recvS r k js ss := by
  simp [recvT, recvS, Tracker.skipZeroIndices]

theorem skipZ_idem : ∀ (js ss : List Nat) (k : Nat),
    skipZ (skipZ js ss k).1 (skipZ js ss k).2.1 (skipZ js ss k).2.2 = skipZ js ss k := by
  intro js ss k
  fun_induction skipZ js ss k with
  | case1 i is ss k ih => exact ih
  | case2 i is s ss k hs => simp [skipZ, hs]
  | case3 is ss k hne =>
    cases is with
    | nil => simp [skipZ]
    | cons i is' =>
      cases ss with
      | nil => simp [skipZ]
      | cons s ss' => exact (hne i is' s ss' rfl rfl).elim

@[simp] theorem recvS_skip (r k js ss) : (recvS r k js ss).skipZeroIndices = recvS r k js ss := by
  simp only [recvS, recvT_skip, skipZ_idem]

theorem recvS_zero (r k j js ss) : recvS r k (j :: js) (0 :: ss) = recvS r (k + 1) js ss := by
  simp [recvS, skipZ]

theorem recvS_pos (r k j js s ss) (hs : s ≠ 0) : recvS r k (j :: js) (s :: ss) = recvT r k (j :: js) (s :: ss) := by
  simp [recvS, skipZ, hs]

@[simp] theorem recvS_nil (r k ss) : recvS r k [] ss = recvT r k [] ss := by
  simp [recvS, skipZ]

theorem recvT_move (r k j js s ss) : (recvT r k (j :: js) (s :: ss)).moveToNextIndex = recvS r (k + 1) js ss := by
  simp [recvT, recvS, Tracker.moveToNextIndex, Tracker.skipZeroIndices]

theorem skipZ_length_le (js ss : List Nat) (k : Nat) : (skipZ js ss k).1.length ≤ js.length := by
  fun_induction skipZ js ss k with
  | case1 i is ss k ih => simp; omega
  | case2 i is s ss k hs => simp
  | case3 is ss k hne => simp

theorem recvS_left_le (r k js ss) : (recvS r k js ss).indicesLeft ≤ js.length := by
  simp [recvS, skipZ_length_le]

/-- the receive tracker in front of sizes that are all zero is finished -/
theorem recvS_allzero (h : Handle α) (r : Nat) : ∀ (is js : List Nat) (k : Nat), js.length = is.length →
    total h is = 0 → (recvS r k js (is.map h.size)).finished = true := by
  intro is
  induction is with
  | nil => intro js k hl _; cases js <;> simp_all
  | cons i is ih =>
    intro js k hl ht
    cases js with
    | nil => simp at hl
    | cons j js =>
      simp at ht
      simp only [List.map_cons, ht.1, recvS_zero]
      exact ih js (k + 1) (by simpa using hl) ht.2

theorem recvS_notfinished (h : Handle α) (r : Nat) : ∀ (is js : List Nat) (k : Nat), js.length = is.length →
    0 < total h is → (recvS r k js (is.map h.size)).finished = false := by
  intro is
  induction is with
  | nil => intro js k _ ht; simp at ht
  | cons i is ih =>
    intro js k hl ht
    cases js with
    | nil => simp at hl
    | cons j js =>
      by_cases hz : h.size i = 0
      · simp only [List.map_cons, hz, recvS_zero]
        exact ih js (k + 1) (by simpa using hl) (by simpa [hz] using ht)
      · simp [recvS_pos _ _ _ _ _ _ hz]

/-! ### MessageBuffer -/

@[simp] theorem buf_reset_size (b : MessageBuffer α) : b.reset.size = b.size := rfl
@[simp] theorem buf_reset_pos (b : MessageBuffer α) : b.reset.position = 0 := rfl
@[simp] theorem buf_reset_cells (b : MessageBuffer α) : b.reset.cells = [] := rfl

/-- a send buffer: everything written since the reset, nothing else -/
def MessageBuffer.fresh (b : MessageBuffer α) : Prop := b.cells.length = b.position

theorem buf_write_fresh (b : MessageBuffer α) (xs : List α) (hb : b.fresh) :
    b.write xs = ⟨b.size, b.cells ++ xs, b.position + xs.length⟩ := by
  unfold MessageBuffer.fresh at hb
  simp [MessageBuffer.write, ← hb]

/-! ### the greedy choice of one variable-size round -/

/-- indices packed into a buffer that already holds `used` items, and the indices left -/
def takeFit (h : Handle α) (B : Nat) : List Nat → Nat → List Nat × List Nat
  | [], _ => ([], [])
  | i :: is, used =>
    if used + h.size i ≤ B then ((i :: (takeFit h B is (used + h.size i)).1), (takeFit h B is (used + h.size i)).2)
    else ([], i :: is)

theorem takeFit_append (h : Handle α) (B : Nat) (is : List Nat) (used : Nat) :
    (takeFit h B is used).1 ++ (takeFit h B is used).2 = is := by
  fun_induction takeFit h B is used <;> simp_all

theorem takeFit_le (h : Handle α) (B : Nat) (is : List Nat) (used : Nat) (hu : used ≤ B) :
    used + total h (takeFit h B is used).1 ≤ B := by
  fun_induction takeFit h B is used with
  | case1 => simpa
  | case2 i is used hfit ih => have := ih hfit; simp; omega
  | case3 => simpa

/-- the first index left did not fit; in particular it is not empty -/
theorem takeFit_rest (h : Handle α) (B : Nat) (is : List Nat) (used : Nat) :
    ∀ i r, (takeFit h B is used).2 = i :: r → B < used + total h (takeFit h B is used).1 + h.size i := by
  fun_induction takeFit h B is used with
  | case1 => simp
  | case2 i is used hfit ih => intro i' r hr; have := ih i' r hr; simp; omega
  | case3 i is used hfit => intro i' r hr; simp at hr; simp [← hr.1]; omega

theorem takeFit_ne_nil (h : Handle α) (B : Nat) (i : Nat) (is : List Nat) (used : Nat) (hfit : used + h.size i ≤ B) :
    (takeFit h B (i :: is) used).1 ≠ [] := by
  simp [takeFit, hfit]

/-- zero-size indices always fit: if nothing was packed in a round that started with an empty buffer, all was zero -/
theorem takeFit_allzero (h : Handle α) (B : Nat) (is : List Nat) (used : Nat) (hu : used ≤ B)
    (hz : total h is = 0) : (takeFit h B is used).1 = is ∧ (takeFit h B is used).2 = [] := by
  fun_induction takeFit h B is used with
  | case1 => simp
  | case2 i is used hfit ih =>
    simp at hz
    have := ih hfit hz.2
    simp [this]
  | case3 i is used hfit => simp at hz; omega

/-! ### PackEntries, variable-size branch, on a send tracker -/

theorem packVarLoop_sendT (h : Handle α) (r : Nat) : ∀ (is : List Nat) (fuel k : Nat) (b : MessageBuffer α) (packed : Nat),
    is.length ≤ fuel → b.fresh →
    packVarLoop h fuel (sendT r k is 0) b packed =
      (packed + total h (takeFit h b.size is b.position).1,
       sendT r (k + (takeFit h b.size is b.position).1.length) (takeFit h b.size is b.position).2 0,
       ⟨b.size, b.cells ++ (takeFit h b.size is b.position).1.flatMap h.data,
        b.position + total h (takeFit h b.size is b.position).1⟩) := by
  intro is
  induction is with
  | nil =>
    intro fuel k b packed _ _
    cases fuel <;> simp [packVarLoop, takeFit]
  | cons i is ih =>
    intro fuel k b packed hf hb
    cases fuel with
    | zero => simp at hf
    | succ fuel =>
      simp only [packVarLoop, sendT_iface, MessageBuffer.hasSpaceForItems, decide_eq_true_eq]
      by_cases hfit : b.position + h.size i ≤ b.size
      · simp only [hfit, if_true, sendT_move, buf_write_fresh b _ hb, takeFit]
        have hb' : (⟨b.size, b.cells ++ h.data i, b.position + (h.data i).length⟩ : MessageBuffer α).fresh := by
          unfold MessageBuffer.fresh at *; simp [hb]
        rw [ih fuel (k + 1) _ (packed + h.size i) (by simpa using hf) hb']
        simp [Handle.size, Nat.add_assoc, Nat.add_comm 1]
      · simp [hfit, takeFit]

/-- `skipZeroSend` does nothing in front of a non-empty index -/
theorem skipZeroSend_pos (h : Handle α) (fuel : Nat) (t : Tracker) (i : Nat) (is : List Nat)
    (ht : t.iface = i :: is) (hp : h.size i ≠ 0) : skipZeroSend h fuel t = t := by
  cases fuel <;> simp [skipZeroSend, ht, hp]

theorem skipZeroSend_nil (h : Handle α) (fuel : Nat) (t : Tracker) (ht : t.iface = []) : skipZeroSend h fuel t = t := by
  cases fuel <;> simp [skipZeroSend, ht]

end DV.C06
