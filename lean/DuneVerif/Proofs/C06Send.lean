import DuneVerif.Proofs.C06Basic
/-! C06 helper lemmas, part 2: one send round in both modes, the blocks of indices of all rounds, `sendAll`. -/
namespace DV.C06
variable {α : Type}

/-- the precondition of the property for one index list: variable size (`f = 0`): every index fits into the buffer;
    fixed size `f ≥ 1`: every index has `f` items and `f` fits -/
def Fits (h : Handle α) (B f : Nat) (is : List Nat) : Prop :=
  (f = 0 ∧ ∀ i ∈ is, h.size i ≤ B) ∨ (f ≠ 0 ∧ f ≤ B ∧ ∀ i ∈ is, h.size i = f)

theorem Fits.tail {h : Handle α} {B f : Nat} {a r : List Nat} (hf : Fits h B f (a ++ r)) : Fits h B f r := by
  rcases hf with ⟨h0, hs⟩ | ⟨h0, h1, hs⟩
  · exact Or.inl ⟨h0, fun i hi => hs i (List.mem_append_right a hi)⟩
  · exact Or.inr ⟨h0, h1, fun i hi => hs i (List.mem_append_right a hi)⟩

theorem Fits.head_le {h : Handle α} {B f i : Nat} {is : List Nat} (hf : Fits h B f (i :: is)) : h.size i ≤ B := by
  rcases hf with ⟨_, hs⟩ | ⟨_, h1, hs⟩
  · exact hs i (by simp)
  · rw [hs i (by simp)]; exact h1

theorem total_fixed (h : Handle α) (f : Nat) : ∀ (is : List Nat), (∀ i ∈ is, h.size i = f) → total h is = is.length * f := by
  intro is
  induction is with
  | nil => simp
  | cons i is ih =>
    intro hs
    simp [hs i (by simp), ih (fun j hj => hs j (by simp [hj])), Nat.succ_mul, Nat.add_comm]

/-- what one round takes from the indices left: (block packed, indices left) -/
def round1 (h : Handle α) (B f : Nat) (is : List Nat) : List Nat × List Nat :=
  if f ≠ 0 then (is.take (min (B / f) is.length), is.drop (min (B / f) is.length)) else takeFit h B is 0

theorem round1_append (h : Handle α) (B f : Nat) (is : List Nat) : (round1 h B f is).1 ++ (round1 h B f is).2 = is := by
  unfold round1
  split
  · simp
  · exact takeFit_append h B is 0

theorem round1_ne_nil (h : Handle α) (B f : Nat) (is : List Nat) (hf : Fits h B f is) (hne : is ≠ []) :
    (round1 h B f is).1 ≠ [] := by
  cases is with
  | nil => exact absurd rfl hne
  | cons i is =>
    unfold round1
    rcases hf with ⟨h0, hs⟩ | ⟨h0, h1, hs⟩
    · simp only [h0, ne_eq, not_true_eq_false, if_false]
      exact takeFit_ne_nil h B i is 0 (by simpa using hs i (by simp))
    · simp only [h0, ne_eq, not_false_eq_true, if_true]
      have : 1 ≤ B / f := (Nat.le_div_iff_mul_le (Nat.pos_of_ne_zero h0)).2 (by simpa using h1)
      have hm : min (B / f) (i :: is).length = (min (B / f) (i :: is).length - 1) + 1 := by
        simp; omega
      rw [hm]; simp

theorem round1_total_le (h : Handle α) (B f : Nat) (is : List Nat) (hf : Fits h B f is) :
    total h (round1 h B f is).1 ≤ B := by
  unfold round1
  rcases hf with ⟨h0, hs⟩ | ⟨h0, h1, hs⟩
  · simp only [h0, ne_eq, not_true_eq_false, if_false]
    simpa using takeFit_le h B is 0 (Nat.zero_le _)
  · simp only [h0, ne_eq, not_false_eq_true, if_true]
    rw [total_fixed h f _ (fun i hi => hs i (List.mem_of_mem_take hi))]
    have : (List.take (min (B / f) is.length) is).length ≤ B / f := by simp; omega
    calc _ ≤ (B / f) * f := Nat.mul_le_mul_right f this
      _ ≤ B := Nat.div_mul_le_self B f

/-- the first index left over is not empty -/
theorem round1_rest_pos (h : Handle α) (B f : Nat) (is : List Nat) (hf : Fits h B f is) :
    ∀ i r, (round1 h B f is).2 = i :: r → h.size i ≠ 0 := by
  intro i r hr
  have happ := round1_append h B f is
  rcases hf with ⟨h0, hs⟩ | ⟨h0, h1, hs⟩
  · have hle := takeFit_le h B is 0 (Nat.zero_le _)
    unfold round1 at hr
    simp only [h0, ne_eq, not_true_eq_false, if_false] at hr
    have := takeFit_rest h B is 0 i r hr
    omega
  · have : i ∈ is := by rw [← happ, hr]; simp
    rw [hs i this]; exact h0

theorem round1_rest_total (h : Handle α) (B f : Nat) (is : List Nat) (hf : Fits h B f is)
    (hr : (round1 h B f is).2 ≠ []) : 0 < total h (round1 h B f is).2 := by
  cases hr' : (round1 h B f is).2 with
  | nil => exact absurd hr' hr
  | cons i r =>
    have := round1_rest_pos h B f is hf i r hr'
    simp; omega

/-- if a round packs no item, nothing is left (zero-size indices always fit) -/
theorem round1_zero (h : Handle α) (B f : Nat) (is : List Nat) (hf : Fits h B f is)
    (hz : total h (round1 h B f is).1 = 0) : (round1 h B f is).2 = [] := by
  rcases hf with ⟨h0, hs⟩ | ⟨h0, h1, hs⟩
  · cases hr : (round1 h B f is).2 with
    | nil => rfl
    | cons i r =>
      exfalso
      have hi : h.size i ≤ B := hs i (by rw [← round1_append h B f is, hr]; simp)
      unfold round1 at hr hz
      simp only [h0, ne_eq, not_true_eq_false, if_false] at hr hz
      have := takeFit_rest h B is 0 i r hr
      omega
  · cases his : is with
    | nil => simp [round1, h0]
    | cons i is' =>
      exfalso
      have hne := round1_ne_nil h B f is (Or.inr ⟨h0, h1, hs⟩) (by simp [his])
      have hmem : ∀ j ∈ (round1 h B f is).1, h.size j = f := fun j hj =>
        hs j (by rw [← round1_append h B f is]; exact List.mem_append_left _ hj)
      rw [total_fixed h f _ hmem] at hz
      have : (round1 h B f is).1.length ≠ 0 := by simpa using hne
      rcases Nat.mul_eq_zero.1 hz with h1 | h1 <;> contradiction

/-! ### SetupSendRequest on a send tracker -/

theorem packFixedLoop_sendT (h : Handle α) (r f : Nat) : ∀ (n : Nat) (is : List Nat) (k : Nat) (b : MessageBuffer α),
    n ≤ is.length → b.fresh →
    packFixedLoop h n (sendT r k is f) b =
      (sendT r (k + n) (is.drop n) f,
       ⟨b.size, b.cells ++ (is.take n).flatMap h.data, b.position + total h (is.take n)⟩) := by
  intro n
  induction n with
  | zero => intro is k b _ _; simp [packFixedLoop]
  | succ n ih =>
    intro is k b hn hb
    cases is with
    | nil => simp at hn
    | cons i is =>
      simp only [packFixedLoop, sendT_iface, sendT_move, buf_write_fresh b _ hb]
      have hb' : (⟨b.size, b.cells ++ h.data i, b.position + (h.data i).length⟩ : MessageBuffer α).fresh := by
        unfold MessageBuffer.fresh at *; simp [hb]
      rw [ih is (k + 1) _ (by simpa using hn) hb']
      simp [Handle.size, Nat.add_assoc, Nat.add_comm 1]

/-- `SetupSendRequest` in both modes: packs the block `round1` chooses, sends it if it holds an item -/
theorem setupSend_sendT (h : Handle α) (B f r k : Nat) (is : List Nat) (b : MessageBuffer α) (hb : b.size = B)
    (hf : Fits h B f is) :
    (setupSend h (sendT r k is f) b).tracker = sendT r (k + (round1 h B f is).1.length) (round1 h B f is).2 f ∧
    (setupSend h (sendT r k is f) b).buffer.size = B ∧
    (setupSend h (sendT r k is f) b).message =
      if total h (round1 h B f is).1 ≠ 0 then some ((round1 h B f is).1.flatMap h.data) else none := by
  have hrest := round1_rest_pos h B f is hf
  have hfresh : (b.reset).fresh := by simp [MessageBuffer.fresh]
  by_cases h0 : f = 0
  · -- variable size
    subst h0
    have hpk := packVarLoop_sendT h r is is.length k b.reset 0 (Nat.le_refl _) hfresh
    simp only [buf_reset_size, buf_reset_pos, buf_reset_cells, List.nil_append, Nat.zero_add, hb] at hpk
    have hr1 : round1 h B 0 is = takeFit h B is 0 := by simp [round1]
    rw [hr1] at hrest ⊢
    have hskip : ∀ fuel, skipZeroSend h fuel (sendT r (k + (takeFit h B is 0).1.length) (takeFit h B is 0).2 0) =
        sendT r (k + (takeFit h B is 0).1.length) (takeFit h B is 0).2 0 := by
      intro fuel
      cases hr : (takeFit h B is 0).2 with
      | nil => exact skipZeroSend_nil h fuel _ rfl
      | cons i rr => exact skipZeroSend_pos h fuel _ i rr rfl (hrest i rr hr)
    simp only [setupSend, packEntries, sendT_fixed, ne_eq, not_true_eq_false, if_false, sendT_skip, sendT_left, hpk,
      hskip]
    refine ⟨by trivial, by trivial, ?_⟩
    by_cases hz : total h (takeFit h B is 0).1 = 0
    · simp [hz]
    · simp only [hz, not_false_eq_true, if_true]
      congr 1
      exact List.take_of_length_le (by simp [total])
  · -- fixed size
    rcases hf with ⟨h0', _⟩ | ⟨_, h1, hs⟩
    · exact absurd h0' h0
    · have hn : min (B / f) is.length ≤ is.length := Nat.min_le_right _ _
      have hpk := packFixedLoop_sendT h r f (min (B / f) is.length) is k b.reset hn hfresh
      simp only [buf_reset_size, buf_reset_pos, buf_reset_cells, List.nil_append, Nat.zero_add, hb] at hpk
      have hr1 : round1 h B f is = (is.take (min (B / f) is.length), is.drop (min (B / f) is.length)) := by
        simp [round1, h0]
      rw [hr1] at hrest ⊢
      have hskip : ∀ fuel, skipZeroSend h fuel (sendT r (k + min (B / f) is.length) (is.drop (min (B / f) is.length)) f) =
          sendT r (k + min (B / f) is.length) (is.drop (min (B / f) is.length)) f := by
        intro fuel
        cases hr : is.drop (min (B / f) is.length) with
        | nil => exact skipZeroSend_nil h fuel _ rfl
        | cons i rr => exact skipZeroSend_pos h fuel _ i rr rfl (hrest i rr hr)
      have htot : total h (is.take (min (B / f) is.length)) = min (B / f) is.length * f := by
        rw [total_fixed h f _ (fun i hi => hs i (List.mem_of_mem_take hi))]
        simp [Nat.min_eq_left hn]
      simp only [setupSend, packEntries, sendT_fixed, ne_eq, h0, not_false_eq_true, if_true, sendT_left,
        buf_reset_size, hb, hpk, hskip, htot]
      refine ⟨by simp [Nat.min_eq_left hn], by trivial, ?_⟩
      by_cases hz : min (B / f) is.length * f = 0
      · simp [hz]
      · simp only [hz, not_false_eq_true, if_true]
        congr 1
        exact List.take_of_length_le (by rw [← htot]; simp [total])

/-! ### all rounds -/

/-- the blocks of indices of the successive rounds -/
def blocks (h : Handle α) (B f : Nat) : Nat → List Nat → List (List Nat)
  | 0, _ => []
  | fuel + 1, is =>
    if (round1 h B f is).2.isEmpty then [(round1 h B f is).1]
    else (round1 h B f is).1 :: blocks h B f fuel (round1 h B f is).2

/-- the messages: the data of every block that holds at least one item -/
def msgsOf (h : Handle α) (B f fuel : Nat) (is : List Nat) : List (List α) :=
  ((blocks h B f fuel is).map (fun a => a.flatMap h.data)).filter (fun m => !m.isEmpty)

theorem round1_rest_length (h : Handle α) (B f : Nat) (is : List Nat) (hf : Fits h B f is) (hne : is ≠ []) :
    (round1 h B f is).2.length < is.length := by
  have h1 := round1_ne_nil h B f is hf hne
  have h2 := congrArg List.length (round1_append h B f is)
  have : (round1 h B f is).1.length ≠ 0 := by simpa using h1
  simp at h2; omega

theorem round1_rest_lt_fuel (h : Handle α) (B f : Nat) (is : List Nat) (hf : Fits h B f is) (fuel : Nat)
    (hfu : is.length + 1 ≤ fuel + 1) (hr : (round1 h B f is).2 ≠ []) : (round1 h B f is).2.length + 1 ≤ fuel := by
  have hne : is ≠ [] := by
    intro e; subst e; apply hr
    have := round1_append h B f []
    simp at this; exact this.2
  have := round1_rest_length h B f is hf hne
  omega

theorem Fits.rest {h : Handle α} {B f : Nat} {is : List Nat} (hf : Fits h B f is) : Fits h B f (round1 h B f is).2 := by
  have := round1_append h B f is
  rw [← this] at hf
  exact hf.tail

theorem blocks_flatten (h : Handle α) (B f : Nat) : ∀ (fuel : Nat) (is : List Nat), is.length + 1 ≤ fuel →
    Fits h B f is → (blocks h B f fuel is).flatten = is := by
  intro fuel
  induction fuel with
  | zero => intro is hfu; omega
  | succ fuel ih =>
    intro is hfu hf
    unfold blocks
    by_cases hr : (round1 h B f is).2 = []
    · have := round1_append h B f is
      simp [hr] at this ⊢
      exact this
    · simp only [List.isEmpty_iff, hr, if_false, List.flatten_cons]
      rw [ih _ (round1_rest_lt_fuel h B f is hf fuel hfu hr) hf.rest]
      exact round1_append h B f is

theorem blocks_total_le (h : Handle α) (B f : Nat) : ∀ (fuel : Nat) (is : List Nat), Fits h B f is →
    ∀ a ∈ blocks h B f fuel is, total h a ≤ B := by
  intro fuel
  induction fuel with
  | zero => intro is _ a ha; simp [blocks] at ha
  | succ fuel ih =>
    intro is hf a ha
    unfold blocks at ha
    split at ha
    · simp at ha; subst ha; exact round1_total_le h B f is hf
    · simp at ha
      rcases ha with ha | ha
      · subst ha; exact round1_total_le h B f is hf
      · exact ih _ hf.rest a ha

theorem blocks_ne_nil (h : Handle α) (B f : Nat) : ∀ (fuel : Nat) (is : List Nat), Fits h B f is → is ≠ [] →
    ∀ a ∈ blocks h B f fuel is, a ≠ [] := by
  intro fuel
  induction fuel with
  | zero => intro is _ _ a ha; simp [blocks] at ha
  | succ fuel ih =>
    intro is hf hne a ha
    unfold blocks at ha
    by_cases hr : (round1 h B f is).2 = []
    · simp [hr] at ha; subst ha; exact round1_ne_nil h B f is hf hne
    · simp [hr] at ha
      rcases ha with ha | ha
      · subst ha; exact round1_ne_nil h B f is hf hne
      · exact ih _ hf.rest hr a ha

theorem sendAll_sendT (h : Handle α) (B f : Nat) : ∀ (fuel : Nat) (is : List Nat) (k r : Nat) (b : MessageBuffer α)
    (ini : Bool), is.length + 1 ≤ fuel → b.size = B → Fits h B f is → (ini = true ∨ 0 < total h is) →
    (sendAll h fuel ini (sendT r k is f) b).messages = msgsOf h B f fuel is ∧
    (sendAll h fuel ini (sendT r k is f) b).tracker.finished = true ∧
    (sendAll h fuel ini (sendT r k is f) b).stuck = false := by
  intro fuel
  induction fuel with
  | zero => intro is k r b ini hfu; omega
  | succ fuel ih =>
    intro is k r b ini hfu hb hf hini
    obtain ⟨ht, hbs, hm⟩ := setupSend_sendT h B f r k is b hb hf
    have happ := round1_append h B f is
    unfold sendAll msgsOf blocks
    by_cases hz : total h (round1 h B f is).1 = 0
    · -- nothing packed: everything was empty, no message
      have hr := round1_zero h B f is hf hz
      have hnil : (round1 h B f is).1.flatMap h.data = [] := List.eq_nil_of_length_eq_zero hz
      have htot : total h is = 0 := by rw [← happ, total_append, hz, hr]; simp
      have hini' : ini = true := by rcases hini with h1 | h1; exact h1; omega
      simp [hm, hz, ht, hr, hnil, hini']
    · have hne : ((round1 h B f is).1.flatMap h.data).isEmpty = false := by
        cases hd : (round1 h B f is).1.flatMap h.data with
        | nil => simp [total, hd] at hz
        | cons x xs => rfl
      by_cases hr : (round1 h B f is).2 = []
      · simp [hm, hz, ht, hr, hne]
      · have hr' : ((round1 h B f is).2.isEmpty) = false := by simpa using hr
        have hrec := ih (round1 h B f is).2 (k + (round1 h B f is).1.length) r (setupSend h (sendT r k is f) b).buffer
          false (round1_rest_lt_fuel h B f is hf fuel hfu hr) hbs hf.rest (Or.inr (round1_rest_total h B f is hf hr))
        simp only [hm, hz, ne_eq, not_false_eq_true, if_true, ht, sendT_skip, sendT_finished, hr', Bool.false_eq_true,
          if_false, List.map_cons, List.filter_cons, hne, Bool.not_false]
        refine ⟨?_, hrec.2.1, hrec.2.2⟩
        simp only [hrec.1, msgsOf]

end DV.C06
