import DuneVerif.Proofs.C13World
/-! C13, round three: a sync on a sub-communicator.

The model numbers the processes `0 … w.length-1`; the real code numbers them as the communicator of the remote indices
does.  When that communicator is a proper part of all processes (`MPI_Comm_split`), the harness lets the remaining
processes appear in the world as processes `k, k+1, …` that know nobody and are known to nobody.  The lemmas here show
that such processes do not take part: the sync of the whole world restricted to the first `k` processes is the sync of
the first `k` processes alone, and the others only pass through `finish`.  Core Lean only. -/
namespace DV.C13

theorem isNeighbour_nil (q : Nat) : isNeighbour [] q = false := by simp [isNeighbour]

/-- the contribution of process `p` to the inbox of `q` -/
def inboxOf (w : World) (q p : Nat) : Option (Nat × List Item) :=
  match w[p]? with
  | some st => if isNeighbour st.remote q then some (p, itemsFor st q) else none
  | none => none

theorem inbox_eq (w : World) (q : Nat) : inbox w q = (List.range w.length).filterMap (inboxOf w q) := rfl

theorem inboxOf_take (w : World) (k q p : Nat) (hp : p < k) : inboxOf (w.take k) q p = inboxOf w q p := by
  simp [inboxOf, hp]

theorem inboxOf_idle (w : World) (q p : Nat) (h : ∀ st : RankState, w[p]? = some st → st.remote = []) : inboxOf w q p = none := by
  unfold inboxOf
  cases hst : w[p]? with
  | none => rfl
  | some st => simp [h st hst, isNeighbour_nil]

theorem filterMap_range_none {β : Type} (f : Nat → Option β) (k : Nat) :
    ∀ n, (∀ p, k ≤ p → f p = none) → (List.range (k + n)).filterMap f = (List.range k).filterMap f
  | 0, _ => rfl
  | n + 1, h => by
    rw [← Nat.add_assoc, List.range_succ, List.filterMap_append, filterMap_range_none f k n h]
    simp [h (k + n) (Nat.le_add_right _ _)]

theorem filterMap_range_congr {β : Type} (f g : Nat → Option β) :
    ∀ k, (∀ p, p < k → f p = g p) → (List.range k).filterMap f = (List.range k).filterMap g
  | 0, _ => rfl
  | k + 1, h => by
    rw [List.range_succ, List.filterMap_append, List.filterMap_append,
      filterMap_range_congr f g k (fun p hp => h p (Nat.lt_succ_of_lt hp))]
    simp only [List.filterMap_cons, List.filterMap_nil, h k (Nat.lt_succ_self k)]

/-- processes from `k` on that know nobody send nothing: the inbox of any process is the inbox in the world of the
first `k` processes -/
theorem inbox_take (w : World) (k q : Nat) (hidle : ∀ (p : Nat) (st : RankState), k ≤ p → w[p]? = some st → st.remote = []) :
    inbox w q = inbox (w.take k) q := by
  rw [inbox_eq, inbox_eq]
  by_cases hk : k ≤ w.length
  · have hl : (w.take k).length = k := by simp [List.length_take, Nat.min_eq_left hk]
    obtain ⟨n, hn⟩ := Nat.exists_eq_add_of_le hk
    rw [hl, hn, filterMap_range_none (inboxOf w q) k n (fun p hp => inboxOf_idle w q p (hidle p · hp))]
    exact filterMap_range_congr _ _ k (fun p hp => (inboxOf_take w k q p hp).symm)
  · have : w.take k = w := List.take_of_length_le (Nat.le_of_lt (Nat.lt_of_not_le hk))
    rw [this]

/-- nobody lists process `q`: its inbox is empty -/
theorem inbox_unknown (w : World) (q : Nat) (h : ∀ (p : Nat) (st : RankState), w[p]? = some st → isNeighbour st.remote q = false) :
    inbox w q = [] := by
  rw [inbox_eq, List.filterMap_eq_nil_iff]
  intro p _
  unfold inboxOf
  cases hst : w[p]? with
  | none => rfl
  | some st => simp [h p st hst]

theorem sync_take (num : Int → Nat) (w : World) (k : Nat)
    (hidle : ∀ (p : Nat) (st : RankState), k ≤ p → w[p]? = some st → st.remote = []) (q : Nat) (hq : q < k) :
    (sync num w)[q]? = (sync num (w.take k))[q]? := by
  rw [sync_getElem?, sync_getElem?, List.getElem?_take, if_pos hq]
  cases w[q]? with
  | none => rfl
  | some st =>
    simp only [Option.map_some, syncRank]
    rw [inbox_take w k q hidle]

theorem sync_unknown (num : Int → Nat) (w : World) (q : Nat) (st : RankState) (hst : w[q]? = some st)
    (h : ∀ (p : Nat) (sp : RankState), w[p]? = some sp → isNeighbour sp.remote q = false) :
    (sync num w)[q]? = some (finish st) := by
  rw [sync_getElem?, hst]
  simp [syncRank, inbox_unknown w q h, recvAll]

end DV.C13
