/-
C16 — helper lemmas: lawfulness predicates for the primitives a facade is built on, and the
"advance = n single steps" induction.  Core Lean only.
-/
import DuneVerif.Proofs.C16Gen

namespace DV.C16

/-- The primitive laws a derived class must satisfy for the legacy facades to produce a lawful iterator:
`pos` is the position the iterator denotes, `same a b` says both belong to the same container. -/
structure LawfulCore {I : Type} (k : Core I) (pos : I → Int) (same : I → I → Prop) : Prop where
  inc_dec : ∀ i, k.decrement (k.increment i) = i
  dec_inc : ∀ i, k.increment (k.decrement i) = i
  adv_zero : ∀ i, k.advance i 0 = i
  adv_succ : ∀ i n, k.advance i (n + 1) = k.increment (k.advance i n)
  adv_pred : ∀ i n, k.advance i (n - 1) = k.decrement (k.advance i n)
  pos_inc : ∀ i, pos (k.increment i) = pos i + 1
  pos_dec : ∀ i, pos (k.decrement i) = pos i - 1
  pos_adv : ∀ i n, pos (k.advance i n) = pos i + n
  dist : ∀ a b, k.distanceTo a b = pos b - pos a
  equals_iff : ∀ a b, same a b → (k.equals a b = true ↔ pos a = pos b)
  same_symm : ∀ a b, same a b → same b a

/-- the same for the base iterator of the new `IteratorFacade` -/
structure LawfulBase {B : Type} (b : Base B) (pos : B → Int) (same : B → B → Prop) : Prop where
  inc_dec : ∀ i, b.dec (b.inc i) = i
  dec_inc : ∀ i, b.inc (b.dec i) = i
  add_zero : ∀ i, b.addAssign i 0 = i
  add_succ : ∀ i n, b.addAssign i (n + 1) = b.inc (b.addAssign i n)
  add_pred : ∀ i n, b.addAssign i (n - 1) = b.dec (b.addAssign i n)
  pos_inc : ∀ i, pos (b.inc i) = pos i + 1
  pos_dec : ∀ i, pos (b.dec i) = pos i - 1
  pos_add : ∀ i n, pos (b.addAssign i n) = pos i + n
  sub_pos : ∀ l r, b.sub l r = pos l - pos r
  eq_iff : ∀ l r, same l r → (b.eq l r = true ↔ pos l = pos r)
  lt_pos : ∀ l r, b.lt l r = decide (pos l < pos r)

theorem stepsNat_succ' {I : Type} (f : I → I) (n : Nat) (i : I) :
    stepsNat f (n + 1) i = f (stepsNat f n i) := by
  induction n generalizing i with
  | zero => rfl
  | succ m ih =>
    show stepsNat f (m + 1) (f i) = f (stepsNat f (m + 1) i)
    rw [ih (f i)]
    rfl

/-- generic induction: an `advance` that satisfies the zero/succ/pred recurrences is `n` single steps -/
theorem advance_eq_steps {I : Type} (inc dec : I → I) (adv : I → Int → I)
    (h0 : ∀ i, adv i 0 = i)
    (hs : ∀ i n, adv i (n + 1) = inc (adv i n))
    (hp : ∀ i n, adv i (n - 1) = dec (adv i n))
    (i : I) (n : Int) : adv i n = steps inc dec i n := by
  have hnat : ∀ m : Nat, adv i (m : Int) = stepsNat inc m i := by
    intro m
    induction m with
    | zero => exact h0 i
    | succ m ih =>
      rw [stepsNat_succ', ← ih]
      have : ((m + 1 : Nat) : Int) = (m : Int) + 1 := by omega
      rw [this, hs]
  have hneg : ∀ m : Nat, adv i (-(m : Int)) = stepsNat dec m i := by
    intro m
    induction m with
    | zero => exact h0 i
    | succ m ih =>
      rw [stepsNat_succ', ← ih]
      have : (-((m + 1 : Nat) : Int)) = (-(m : Int)) - 1 := by omega
      rw [this, hp]
  unfold steps
  by_cases hn : n ≥ 0
  · simp only [hn, if_true]
    have : n = (n.toNat : Int) := by omega
    rw [← hnat n.toNat, ← this]
  · simp only [hn, if_false]
    have : n = -((-n).toNat : Int) := by omega
    rw [← hneg (-n).toNat, ← this]

/-- `advance` composes additively: `advance (advance i a) b = advance i (a + b)` follows from the recurrences -/
theorem advance_add {I : Type} (inc dec : I → I) (adv : I → Int → I)
    (h0 : ∀ i, adv i 0 = i)
    (hs : ∀ i n, adv i (n + 1) = inc (adv i n))
    (hp : ∀ i n, adv i (n - 1) = dec (adv i n))
    (i : I) (a b : Int) : adv (adv i a) b = adv i (a + b) := by
  have hnat : ∀ m : Nat, adv (adv i a) (m : Int) = adv i (a + m) := by
    intro m
    induction m with
    | zero => simp [h0]
    | succ m ih =>
      have e1 : ((m + 1 : Nat) : Int) = (m : Int) + 1 := by omega
      have e2 : a + ((m : Int) + 1) = (a + (m : Int)) + 1 := by omega
      rw [e1, hs, ih, e2, hs]
  have hneg : ∀ m : Nat, adv (adv i a) (-(m : Int)) = adv i (a + -(m : Int)) := by
    intro m
    induction m with
    | zero => simp [h0]
    | succ m ih =>
      have e1 : (-((m + 1 : Nat) : Int)) = (-(m : Int)) - 1 := by omega
      have e2 : a + (-(m : Int) - 1) = (a + -(m : Int)) - 1 := by omega
      rw [e1, hp, ih, e2, hp]
  by_cases hb : b ≥ 0
  · have : b = (b.toNat : Int) := by omega
    rw [this]; exact hnat _
  · have : b = -((-b).toNat : Int) := by omega
    rw [this]; exact hneg _

/-- `inc` and `dec` are `advance` by `±1` -/
theorem inc_eq_advance {I : Type} (inc : I → I) (adv : I → Int → I)
    (h0 : ∀ i, adv i 0 = i) (hs : ∀ i n, adv i (n + 1) = inc (adv i n)) (i : I) : inc i = adv i 1 := by
  have := hs i 0
  rw [h0] at this
  simpa using this.symm

theorem dec_eq_advance {I : Type} (dec : I → I) (adv : I → Int → I)
    (h0 : ∀ i, adv i 0 = i) (hp : ∀ i n, adv i (n - 1) = dec (adv i n)) (i : I) : dec i = adv i (-1) := by
  have := hp i 0
  rw [h0] at this
  simpa using this.symm

theorem deltaSum_cons (st : Step) (s : List Step) : deltaSum (st :: s) = st.delta + deltaSum s := by
  unfold deltaSum
  simp only [List.map_cons, List.foldl_cons]
  have gen : ∀ (l : List Int) (x : Int), l.foldl (· + ·) x = x + l.foldl (· + ·) 0 := by
    intro l
    induction l with
    | nil => intro x; simp
    | cons y ys ih => intro x; simp only [List.foldl_cons]; rw [ih (x + y), ih (0 + y)]; omega
  rw [gen]; omega

/-- generic history lemma: if every stepping operator of `o` is `adv` by the step's displacement, a whole history is
one `adv` by the net displacement -/
theorem run_eq_advance {I : Type} (o : StepOps I) (adv : I → Int → I)
    (h0 : ∀ i, adv i 0 = i)
    (hadd : ∀ i a b, adv (adv i a) b = adv i (a + b))
    (hstep : ∀ i (st : Step), o.apply i st = adv i st.delta)
    (i : I) (s : List Step) : o.run i s = adv i (deltaSum s) := by
  induction s generalizing i with
  | nil => simp [StepOps.run, deltaSum, h0]
  | cons st s ih =>
    have : o.run i (st :: s) = o.run (o.apply i st) s := rfl
    rw [this, ih, hstep, hadd, deltaSum_cons]

theorem posCore_lawful : LawfulCore posCore It.pos (fun a b => a.cont = b.cont) where
  inc_dec i := by cases i; simp [posCore_increment, posCore_decrement]
  dec_inc i := by cases i; simp [posCore_increment, posCore_decrement]
  adv_zero i := by cases i; simp [posCore_advance]
  adv_succ i n := by cases i; simp [posCore_advance, posCore_increment]; omega
  adv_pred i n := by cases i; simp [posCore_advance, posCore_decrement]; omega
  pos_inc i := by simp [posCore_increment]
  pos_dec i := by simp [posCore_decrement]
  pos_adv i n := by simp [posCore_advance]
  dist a b := by simp [posCore_distanceTo]
  equals_iff a b h := by simp [posCore_equals, h]
  same_symm a b h := h.symm

/-- the ArrayList iterators: `equals` does not look at the container, which is sound for iterators of one list -/
theorem alCore_lawful : LawfulCore alCore It.pos (fun a b => a.cont = b.cont) where
  inc_dec i := by cases i; simp [alCore_increment, alCore_decrement]
  dec_inc i := by cases i; simp [alCore_increment, alCore_decrement]
  adv_zero i := by cases i; simp [alCore_advance]
  adv_succ i n := by cases i; simp [alCore_advance, alCore_increment]; omega
  adv_pred i n := by cases i; simp [alCore_advance, alCore_decrement]; omega
  pos_inc i := by simp [alCore_increment]
  pos_dec i := by simp [alCore_decrement]
  pos_adv i n := by simp [alCore_advance]
  dist a b := by simp [alCore_distanceTo]
  equals_iff a b _ := by simp [alCore_equals]
  same_symm a b h := h.symm

theorem stdBase_lawful : LawfulBase stdBase It.pos (fun a b => a.cont = b.cont) where
  inc_dec i := by cases i; simp [stdBase]
  dec_inc i := by cases i; simp [stdBase]
  add_zero i := by cases i; simp [stdBase]
  add_succ i n := by cases i; simp [stdBase]; omega
  add_pred i n := by cases i; simp [stdBase]; omega
  pos_inc i := by simp [stdBase]
  pos_dec i := by simp [stdBase]
  pos_add i n := by simp [stdBase]
  sub_pos l r := by simp [stdBase]
  eq_iff l r h := by simp [stdBase, h]
  lt_pos l r := by simp [stdBase]

theorem irBase_lawful : LawfulBase irBase IR.value (fun _ _ => True) where
  inc_dec i := by cases i; simp [irBase, IR.inc_spec, IR.dec_spec]
  dec_inc i := by cases i; simp [irBase, IR.inc_spec, IR.dec_spec]
  add_zero i := by cases i; simp [irBase, IR.addAssign_spec]
  add_succ i n := by cases i; simp [irBase, IR.addAssign_spec, IR.inc_spec]; omega
  add_pred i n := by cases i; simp [irBase, IR.addAssign_spec, IR.dec_spec]; omega
  pos_inc i := by simp [irBase, IR.inc_spec]
  pos_dec i := by simp [irBase, IR.dec_spec]
  pos_add i n := by simp [irBase, IR.addAssign_spec]
  sub_pos l r := by simp [irBase, IR.diff_spec]
  eq_iff l r _ := by simp [irBase, IR.eq_spec]
  lt_pos l r := by simp [irBase, IR.lt_spec]

theorem denseBase_lawful : LawfulBase denseBase It.pos (fun a b => a.cont = b.cont) where
  inc_dec i := by cases i; simp [denseBase, Legacy.preInc, Legacy.preDec, posCore_increment, posCore_decrement]
  dec_inc i := by cases i; simp [denseBase, Legacy.preInc, Legacy.preDec, posCore_increment, posCore_decrement]
  add_zero i := by cases i; simp [denseBase, Legacy.addAssign_spec, posCore_advance]
  add_succ i n := by cases i; simp [denseBase, Legacy.addAssign_spec, Legacy.preInc, posCore_advance, posCore_increment]; omega
  add_pred i n := by cases i; simp [denseBase, Legacy.addAssign_spec, Legacy.preDec, posCore_advance, posCore_decrement]; omega
  pos_inc i := by simp [denseBase, Legacy.preInc, posCore_increment]
  pos_dec i := by simp [denseBase, Legacy.preDec, posCore_decrement]
  pos_add i n := by simp [denseBase, Legacy.addAssign_spec, posCore_advance]
  sub_pos l r := by simp [denseBase, Legacy.diff_spec, posCore_distanceTo]; omega
  eq_iff l r h := by simp [denseBase, Legacy.eq_spec, posCore_equals, h]
  lt_pos l r := by simp [denseBase, Legacy.lt_spec, posCore_distanceTo]

end DV.C16
