/-
C16 — helper lemmas: lawfulness predicates for the primitives a facade is built on, and the
"advance = n single steps" induction.  Core Lean only.
-/
import DuneVerif.Model.C16

namespace DV.C16

/-- The primitive laws a derived class must satisfy for the legacy facades to produce a lawful iterator:
`pos` is the position the iterator denotes, `same a b` says both belong to the same container. -/
structure LawfulCore {I : Type} (k : Core I) (pos : I → Int) (same : I → I → Prop) : Prop where
  inc_dec : ∀ i, k.decrement (k.increment i) = i
  dec_inc : ∀ i, k.increment (k.decrement i) = i
  adv_zero : ∀ i, k.advance i 0 = i
  adv_succ : ∀ i n, k.advance i (n + 1) = k.increment (k.advance i n)
  adv_pred : ∀ i n, k.advance i (n - 1) = k.decrement (k.advance i n)
  pos_inc : ∀ i, pos (k.increment i) = pos i + 1
  pos_dec : ∀ i, pos (k.decrement i) = pos i - 1
  pos_adv : ∀ i n, pos (k.advance i n) = pos i + n
  dist : ∀ a b, k.distanceTo a b = pos b - pos a
  equals_iff : ∀ a b, same a b → (k.equals a b = true ↔ pos a = pos b)
  same_symm : ∀ a b, same a b → same b a

/-- the same for the base iterator of the new `IteratorFacade` -/
structure LawfulBase {B : Type} (b : Base B) (pos : B → Int) (same : B → B → Prop) : Prop where
  inc_dec : ∀ i, b.dec (b.inc i) = i
  dec_inc : ∀ i, b.inc (b.dec i) = i
  add_zero : ∀ i, b.addAssign i 0 = i
  add_succ : ∀ i n, b.addAssign i (n + 1) = b.inc (b.addAssign i n)
  add_pred : ∀ i n, b.addAssign i (n - 1) = b.dec (b.addAssign i n)
  pos_inc : ∀ i, pos (b.inc i) = pos i + 1
  pos_dec : ∀ i, pos (b.dec i) = pos i - 1
  pos_add : ∀ i n, pos (b.addAssign i n) = pos i + n
  sub_pos : ∀ l r, b.sub l r = pos l - pos r
  eq_iff : ∀ l r, same l r → (b.eq l r = true ↔ pos l = pos r)

theorem stepsNat_succ' {I : Type} (f : I → I) (n : Nat) (i : I) :
    stepsNat f (n + 1) i = f (stepsNat f n i) := by
  induction n generalizing i with
  | zero => rfl
  | succ m ih =>
    show stepsNat f (m + 1) (f i) = f (stepsNat f (m + 1) i)
    rw [ih (f i)]
    rfl

/-- generic induction: an `advance` that satisfies the zero/succ/pred recurrences is `n` single steps -/
theorem advance_eq_steps {I : Type} (inc dec : I → I) (adv : I → Int → I)
    (h0 : ∀ i, adv i 0 = i)
    (hs : ∀ i n, adv i (n + 1) = inc (adv i n))
    (hp : ∀ i n, adv i (n - 1) = dec (adv i n))
    (i : I) (n : Int) : adv i n = steps inc dec i n := by
  have hnat : ∀ m : Nat, adv i (m : Int) = stepsNat inc m i := by
    intro m
    induction m with
    | zero => exact h0 i
    | succ m ih =>
      rw [stepsNat_succ', ← ih]
      have : ((m + 1 : Nat) : Int) = (m : Int) + 1 := by omega
      rw [this, hs]
  have hneg : ∀ m : Nat, adv i (-(m : Int)) = stepsNat dec m i := by
    intro m
    induction m with
    | zero => exact h0 i
    | succ m ih =>
      rw [stepsNat_succ', ← ih]
      have : (-((m + 1 : Nat) : Int)) = (-(m : Int)) - 1 := by omega
      rw [this, hp]
  unfold steps
  by_cases hn : n ≥ 0
  · simp only [hn, if_true]
    have : n = (n.toNat : Int) := by omega
    rw [← hnat n.toNat, ← this]
  · simp only [hn, if_false]
    have : n = -((-n).toNat : Int) := by omega
    rw [← hneg (-n).toNat, ← this]

theorem posCore_lawful : LawfulCore posCore It.pos (fun a b => a.cont = b.cont) where
  inc_dec i := by cases i; simp [posCore]
  dec_inc i := by cases i; simp [posCore]
  adv_zero i := by cases i; simp [posCore]
  adv_succ i n := by cases i; simp [posCore]; omega
  adv_pred i n := by cases i; simp [posCore]; omega
  pos_inc i := by simp [posCore]
  pos_dec i := by simp [posCore]
  pos_adv i n := by simp [posCore]
  dist a b := by simp [posCore]
  equals_iff a b h := by simp [posCore, h]
  same_symm a b h := h.symm

theorem stdBase_lawful : LawfulBase stdBase It.pos (fun a b => a.cont = b.cont) where
  inc_dec i := by cases i; simp [stdBase]
  dec_inc i := by cases i; simp [stdBase]
  add_zero i := by cases i; simp [stdBase]
  add_succ i n := by cases i; simp [stdBase]; omega
  add_pred i n := by cases i; simp [stdBase]; omega
  pos_inc i := by simp [stdBase]
  pos_dec i := by simp [stdBase]
  pos_add i n := by simp [stdBase]
  sub_pos l r := by simp [stdBase]
  eq_iff l r h := by simp [stdBase, h]

theorem irBase_lawful : LawfulBase irBase IR.value (fun _ _ => True) where
  inc_dec i := by cases i; simp [irBase, IR.inc, IR.dec]
  dec_inc i := by cases i; simp [irBase, IR.inc, IR.dec]
  add_zero i := by cases i; simp [irBase, IR.addAssign]
  add_succ i n := by cases i; simp [irBase, IR.addAssign, IR.inc]; omega
  add_pred i n := by cases i; simp [irBase, IR.addAssign, IR.dec]; omega
  pos_inc i := by simp [irBase, IR.inc]
  pos_dec i := by simp [irBase, IR.dec]
  pos_add i n := by simp [irBase, IR.addAssign]
  sub_pos l r := by simp [irBase, IR.diff]
  eq_iff l r _ := by simp [irBase, IR.eq]

theorem denseBase_lawful : LawfulBase denseBase It.pos (fun a b => a.cont = b.cont) where
  inc_dec i := by cases i; simp [denseBase, Legacy.preInc, Legacy.preDec, posCore]
  dec_inc i := by cases i; simp [denseBase, Legacy.preInc, Legacy.preDec, posCore]
  add_zero i := by cases i; simp [denseBase, Legacy.addAssign, posCore]
  add_succ i n := by cases i; simp [denseBase, Legacy.addAssign, Legacy.preInc, posCore]; omega
  add_pred i n := by cases i; simp [denseBase, Legacy.addAssign, Legacy.preDec, posCore]; omega
  pos_inc i := by simp [denseBase, Legacy.preInc, posCore]
  pos_dec i := by simp [denseBase, Legacy.preDec, posCore]
  pos_add i n := by simp [denseBase, Legacy.addAssign, posCore]
  sub_pos l r := by simp [denseBase, Legacy.diff, posCore]; omega
  eq_iff l r h := by simp [denseBase, Legacy.eq, posCore, h]

end DV.C16
