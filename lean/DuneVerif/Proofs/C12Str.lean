/-
C12 — lemmas about the string primitives of the model (ltrim, rtrim, splitFirst, splitOnC, takeWhile).
-/
import DuneVerif.Model.C12

namespace DV.C12

/-! ### character classes -/

theorem isWs_of_isBlank {c : Char} (h : isBlank c = true) : isWs c = true := by
  simp [isBlank, isWs] at *
  rcases h with (h | h) | h <;> simp [h]

theorem blank_all_ws {ws : Str} (h : blankStr ws = true) : ∀ c ∈ ws, isWs c = true := by
  intro c hc
  exact isWs_of_isBlank ((List.all_eq_true.mp h) c hc)

theorem blank_not_mem {ws : Str} (h : blankStr ws = true) {c : Char} (hc : isBlank c = false) : c ∉ ws := by
  intro hm
  have := (List.all_eq_true.mp h) c hm
  simp [this] at hc

theorem isWs_hash : isWs '#' = false := by decide
theorem isWs_eq : isWs '=' = false := by decide
theorem isWs_lbr : isWs '[' = false := by decide
theorem isWs_rbr : isWs ']' = false := by decide
theorem isWs_sq : isWs '\'' = false := by decide
theorem isWs_dq : isWs '"' = false := by decide

theorem isWs_quote {c : Char} (h : isQuote c = true) : isWs c = false := by
  simp [isQuote] at h
  rcases h with h | h <;> subst h <;> decide

/-! ### ltrim -/

theorem ltrim_nil : ltrim [] = [] := rfl

theorem ltrim_ws_append {ws s : Str} (h : ∀ c ∈ ws, isWs c = true) : ltrim (ws ++ s) = ltrim s := by
  unfold ltrim
  exact List.dropWhile_append_of_pos h

theorem ltrim_blank_append {ws s : Str} (h : blankStr ws = true) : ltrim (ws ++ s) = ltrim s :=
  ltrim_ws_append (blank_all_ws h)

theorem ltrim_all_ws {ws : Str} (h : ∀ c ∈ ws, isWs c = true) : ltrim ws = [] := by
  have := ltrim_ws_append (s := []) h
  simpa [ltrim_nil] using this

theorem ltrim_cons_of_not_ws {c : Char} {s : Str} (h : isWs c = false) : ltrim (c :: s) = c :: s := by
  unfold ltrim
  exact List.dropWhile_cons_of_neg (by simp [h])

/-! ### rtrim -/

theorem rtrim_nil : rtrim [] = [] := rfl

theorem rtrim_all_ws : ∀ {ws : Str}, (∀ c ∈ ws, isWs c = true) → rtrim ws = []
  | [], _ => rfl
  | c :: cs, h => by
    have ih := rtrim_all_ws (ws := cs) (fun x hx => h x (List.mem_cons_of_mem _ hx))
    have hc := h c (List.mem_cons_self)
    simp [rtrim, ih, hc]

theorem rtrim_append_ws : ∀ (s : Str) {ws : Str}, (∀ c ∈ ws, isWs c = true) → rtrim (s ++ ws) = rtrim s
  | [], ws, h => by simpa [rtrim_nil] using rtrim_all_ws h
  | c :: cs, ws, h => by
    have ih := rtrim_append_ws cs h
    simp only [List.cons_append, rtrim, ih]

theorem rtrim_concat_of_not_ws : ∀ (s : Str) {c : Char}, isWs c = false → rtrim (s ++ [c]) = s ++ [c]
  | [], c, h => by simp [rtrim, h]
  | x :: xs, c, h => by
    have ih := rtrim_concat_of_not_ws xs h
    simp only [List.cons_append, rtrim, ih]
    cases hxs : xs ++ [c] with
    | nil => simp at hxs
    | cons a b => rfl

/-- a string whose last character is not blank is unchanged by rtrim -/
theorem rtrim_of_getLast {s : Str} {c : Char} (h : s.getLast? = some c) (hc : isWs c = false) : rtrim s = s := by
  obtain ⟨t, rfl⟩ : ∃ t, s = t ++ [c] := by
    rcases List.eq_nil_or_concat s with rfl | ⟨t, b, rfl⟩
    · simp at h
    · simp at h
      exact ⟨t, by simp [h]⟩
  exact rtrim_concat_of_not_ws t hc

theorem trimmed_nil : trimmed [] = true := rfl

theorem ltrim_of_trimmed {s : Str} (h : trimmed s = true) : ltrim s = s := by
  cases s with
  | nil => rfl
  | cons c r =>
    simp [trimmed] at h
    exact ltrim_cons_of_not_ws h.1

theorem rtrim_of_trimmed {s : Str} (h : trimmed s = true) : rtrim s = s := by
  cases hs : s.getLast? with
  | none =>
    have : s = [] := by simpa using hs
    subst this; rfl
  | some c =>
    have h2 : isWs c = false := by
      simp only [trimmed, Bool.and_eq_true] at h
      have := h.2
      rw [hs] at this
      simpa using this
    exact rtrim_of_getLast hs h2

/-- `rtrim(ltrim(ws2 ++ p ++ ws3)) = p` for a trimmed `p` between blanks -/
theorem trim_padded {a p b : Str} (ha : ∀ c ∈ a, isWs c = true) (hb : ∀ c ∈ b, isWs c = true)
    (hp : trimmed p = true) : rtrim (ltrim (a ++ p ++ b)) = p := by
  rw [List.append_assoc, ltrim_ws_append ha]
  cases p with
  | nil => simp [ltrim_all_ws hb, rtrim]
  | cons c r =>
    have hc : isWs c = false := by simp [trimmed] at hp; exact hp.1
    rw [List.cons_append, ltrim_cons_of_not_ws hc, ← List.cons_append, rtrim_append_ws _ hb]
    exact rtrim_of_trimmed hp

/-- rtrim only removes characters -/
theorem mem_of_mem_rtrim : ∀ {s : Str} {c : Char}, c ∈ rtrim s → c ∈ s
  | [], c, h => by simp [rtrim] at h
  | x :: xs, c, h => by
    simp only [rtrim] at h
    cases hr : rtrim xs with
    | nil =>
      rw [hr] at h
      by_cases hx : isWs x = true
      · simp [hx] at h
      · simp [hx] at h; simp [h]
    | cons a b =>
      rw [hr] at h
      simp only [List.mem_cons] at h
      rcases h with h | h
      · simp [h]
      · have : c ∈ rtrim xs := by rw [hr]; simpa using h
        exact List.mem_cons_of_mem _ (mem_of_mem_rtrim this)

theorem endsWith_false_of_not_mem {s : Str} {q : Char} (h : q ∉ s) : endsWith (rtrim s) q = false := by
  unfold endsWith
  cases hl : (rtrim s).getLast? with
  | none => simp
  | some c =>
    have : c ∈ rtrim s := List.mem_of_getLast? hl
    have hc : c ∈ s := mem_of_mem_rtrim this
    have : c ≠ q := fun e => h (e ▸ hc)
    simp [this]

/-! ### splitFirst, takeWhile -/

theorem splitFirst_append (c : Char) : ∀ (a b : Str), c ∉ a → splitFirst c (a ++ c :: b) = some (a, b)
  | [], b, _ => by simp [splitFirst]
  | x :: xs, b, h => by
    have hx : x ≠ c := fun e => h (by simp [e])
    have ih := splitFirst_append c xs b (fun hm => h (List.mem_cons_of_mem _ hm))
    simp [splitFirst, hx, ih]

theorem splitFirst_none (c : Char) : ∀ (s : Str), c ∉ s → splitFirst c s = none
  | [], _ => rfl
  | x :: xs, h => by
    have hx : x ≠ c := fun e => h (by simp [e])
    have ih := splitFirst_none c xs (fun hm => h (List.mem_cons_of_mem _ hm))
    simp [splitFirst, hx, ih]

theorem takeWhile_ne_stop (c : Char) (a t : Str) (h : c ∉ a) :
    (a ++ c :: t).takeWhile (· != c) = a := by
  rw [List.takeWhile_append_of_pos (by intro x hx; simp; exact fun e => h (e ▸ hx))]
  simp

theorem takeWhile_ne_all (c : Char) (a : Str) (h : c ∉ a) : a.takeWhile (· != c) = a := by
  have := List.takeWhile_append_of_pos (p := (· != c)) (l₁ := a) (l₂ := [])
    (by intro x hx; simp; exact fun e => h (e ▸ hx))
  simpa using this

/-! ### splitOnC -/

theorem splitOnC_ne_nil (c : Char) : ∀ s : Str, splitOnC c s ≠ []
  | [] => by simp [splitOnC]
  | x :: xs => by
    simp only [splitOnC]
    split
    · simp
    · split <;> simp

theorem splitOnC_of_not_mem (c : Char) : ∀ s : Str, c ∉ s → splitOnC c s = [s]
  | [], _ => rfl
  | x :: xs, h => by
    have hx : x ≠ c := fun e => h (by simp [e])
    have ih := splitOnC_of_not_mem c xs (fun hm => h (List.mem_cons_of_mem _ hm))
    simp [splitOnC, hx, ih]

theorem splitOnC_append (c : Char) : ∀ (a b : Str), splitOnC c (a ++ c :: b) = splitOnC c a ++ splitOnC c b
  | [], b => by simp [splitOnC]
  | x :: xs, b => by
    have ih := splitOnC_append c xs b
    by_cases hx : x = c
    · simp [splitOnC, hx, ih]
    · simp only [List.cons_append, splitOnC, ih]
      simp only [beq_iff_eq, hx, if_false]
      cases hs : splitOnC c xs with
      | nil => exact absurd hs (splitOnC_ne_nil c xs)
      | cons h t => simp

theorem splitOnC_cons_of_not_mem (c : Char) (a b : Str) (h : c ∉ a) :
    splitOnC c (a ++ c :: b) = a :: splitOnC c b := by
  rw [splitOnC_append, splitOnC_of_not_mem c a h]; rfl

/-- joining pieces with the separator and splitting again is the identity -/
def joinC (c : Char) : List Str → Str
  | [] => []
  | [p] => p
  | p :: r => p ++ c :: joinC c r

theorem splitOnC_joinC (c : Char) : ∀ (ps : List Str), ps ≠ [] → (∀ p ∈ ps, c ∉ p) → splitOnC c (joinC c ps) = ps
  | [], h, _ => absurd rfl h
  | [p], _, h => by simpa [joinC] using splitOnC_of_not_mem c p (h p (by simp))
  | p :: q :: r, _, h => by
    have ih := splitOnC_joinC c (q :: r) (by simp) (fun x hx => h x (List.mem_cons_of_mem _ hx))
    simp only [joinC]
    rw [splitOnC_cons_of_not_mem c p _ (h p (by simp)), ih]

theorem joinC_splitOnC (c : Char) : ∀ (s : Str), joinC c (splitOnC c s) = s
  | [] => rfl
  | x :: xs => by
    have ih := joinC_splitOnC c xs
    by_cases hx : x = c
    · simp only [splitOnC, hx, beq_self_eq_true, if_true]
      cases hs : splitOnC c xs with
      | nil => exact absurd hs (splitOnC_ne_nil c xs)
      | cons h t => rw [hs] at ih; simp [joinC, ih]
    · simp only [splitOnC, beq_iff_eq, hx, if_false]
      cases hs : splitOnC c xs with
      | nil => exact absurd hs (splitOnC_ne_nil c xs)
      | cons h t =>
        rw [hs] at ih
        cases t with
        | nil => simp [joinC] at ih ⊢; exact ih
        | cons t1 t2 => simp [joinC] at ih ⊢; exact ih

theorem splitOnC_injective (c : Char) {a b : Str} (h : splitOnC c a = splitOnC c b) : a = b := by
  rw [← joinC_splitOnC c a, ← joinC_splitOnC c b, h]

theorem splitOnC_pieces (c : Char) : ∀ (s : Str), ∀ p ∈ splitOnC c s, c ∉ p
  | [], p, hp => by simp [splitOnC] at hp; simp [hp]
  | x :: xs, p, hp => by
    have ih := splitOnC_pieces c xs
    by_cases hx : x = c
    · simp only [splitOnC, hx, beq_self_eq_true, if_true, List.mem_cons] at hp
      rcases hp with rfl | hp
      · simp
      · exact ih p hp
    · simp only [splitOnC, beq_iff_eq, hx, if_false] at hp
      cases hs : splitOnC c xs with
      | nil => exact absurd hs (splitOnC_ne_nil c xs)
      | cons h t =>
        rw [hs] at hp ih
        simp only [List.mem_cons] at hp
        rcases hp with rfl | hp
        · intro hm
          simp only [List.mem_cons] at hm
          rcases hm with e | hm
          · exact hx e.symm
          · exact ih h (by simp) hm
        · exact ih p (by simp [hp])

end DV.C12
