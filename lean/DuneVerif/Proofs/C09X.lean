import DuneVerif.Model.C09X
import DuneVerif.Proofs.C09Layer
/-!
# C09 — proofs for the second part of the model (core Lean only)

* rectangular dense kernels, `leftmultiply`, vector and matrix norms commute with taking a lane, for every lawful
  `SimdLike`;
* `SimdLike.nested S₁ S₂` (SIMD of SIMD) is lawful and is the translated `lane`/`cond`/reductions of loop.hh;
* `luDecomposition` without `throwEarly` never throws.
-/
namespace DV.C09
open Gen

-- ------------------------------------------------------------------------------------------------
-- rectangular kernels
-- ------------------------------------------------------------------------------------------------
section Rect
variable {V : Type → Type} {L : Nat} (X : SimdLike V L) (hX : X.Lawful) {K : Type} (R : Arith K) {r c n : Nat} (l : Fin L)

theorem laneRMat_get (A : RMat (V K) r c) (i : Fin r) (j : Fin c) :
    (laneRMat X l A).get i j = X.lane l (A.get i j) := by
  simp [laneRMat, RMat.get]

theorem laneRMat_row (A : RMat (V K) r c) (i : Fin r) : (laneRMat X l A)[i] = laneVec X l A[i] := by
  simp [laneRMat, laneVec]

/-- a lane-homomorphic binary operation on SIMD values -/
def LaneHom2 (f : V K → V K → V K) (fs : K → K → K) : Prop := ∀ a b, X.lane l (f a b) = fs (X.lane l a) (X.lane l b)

theorem kernelN_lanewise (pre : Option (V K)) (upd term : V K → V K → V K) (upds terms : K → K → K)
    (hu : LaneHom2 X l upd upds) (ht : LaneHom2 X l term terms)
    (A : RMat (V K) r c) (x : Vector (V K) c) (y : Vector (V K) r) :
    laneVec X l (kernelN pre upd term A x y) =
      kernelN (V := fun α => α) (pre.map (X.lane l)) upds terms (laneRMat X l A) (laneVec X l x) (laneVec X l y) := by
  unfold kernelN
  apply foldl_hom' (laneVec X l)
  intro y i
  cases pre with
  | none =>
    simp only [Option.map_none]
    apply foldl_hom' (laneVec X l)
    intro y j
    simp only [Fin.getElem_fin]
    rw [laneVec_set, hu, ht, laneVec_get, laneVec_get, laneRMat_get]
  | some z =>
    simp only [Option.map_some]
    rw [← laneVec_set X l y i.val i.isLt z]
    apply foldl_hom' (laneVec X l)
    intro y j
    simp only [Fin.getElem_fin]
    rw [laneVec_set, hu, ht, laneVec_get, laneVec_get, laneRMat_get]

theorem kernelT_lanewise (upd term : V K → V K → V K) (upds terms : K → K → K)
    (hu : LaneHom2 X l upd upds) (ht : LaneHom2 X l term terms)
    (A : RMat (V K) r c) (x : Vector (V K) r) (y : Vector (V K) c) :
    laneVec X l (kernelT upd term A x y) =
      kernelT (V := fun α => α) upds terms (laneRMat X l A) (laneVec X l x) (laneVec X l y) := by
  unfold kernelT
  apply foldl_hom' (laneVec X l)
  intro y i
  apply foldl_hom' (laneVec X l)
  intro y j
  simp only [Fin.getElem_fin]
  rw [laneVec_set, hu, ht, laneVec_get, laneVec_get, laneRMat_get]

include hX in
theorem hom_vadd : LaneHom2 X l (vadd X R) (vadd (V := fun α => α) Xs R) := fun a b => lane_vadd X hX R l a b
include hX in
theorem hom_vsub : LaneHom2 X l (vsub X R) (vsub (V := fun α => α) Xs R) := fun a b => lane_vsub X hX R l a b
include hX in
theorem hom_vmul : LaneHom2 X l (vmul X R) (vmul (V := fun α => α) Xs R) := fun a b => lane_vmul X hX R l a b
include hX in
theorem hom_alpha (alpha : V K) :
    LaneHom2 X l (fun a xj => vmul X R (vmul X R alpha a) xj)
      (fun a xj => vmul (V := fun α => α) Xs R (vmul (V := fun α => α) Xs R (X.lane l alpha) a) xj) := by
  intro a b
  simp only [lane_vmul X hX R]

include hX in
theorem mvR_lanewise (A : RMat (V K) r c) (x : Vector (V K) c) (y : Vector (V K) r) :
    laneVec X l (mvR X R A x y) = mvR (V := fun α => α) Xs R (laneRMat X l A) (laneVec X l x) (laneVec X l y) := by
  unfold mvR
  rw [kernelN_lanewise X l _ _ _ _ _ (hom_vadd X hX R l) (hom_vmul X hX R l)]
  simp only [Option.map_some, lane_bcast' X hX]

include hX in
theorem mtvR_lanewise (A : RMat (V K) r c) (x : Vector (V K) r) (y : Vector (V K) c) :
    laneVec X l (mtvR X R A x y) = mtvR (V := fun α => α) Xs R (laneRMat X l A) (laneVec X l x) (laneVec X l y) := by
  unfold mtvR
  apply foldl_hom' (laneVec X l)
  intro y i
  simp only
  have h0 : laneVec X l (y.set i (X.bcast R.zero)) = (laneVec X l y).set i (Xs.bcast R.zero) := by
    rw [laneVec_set, lane_bcast' X hX]
  rw [← h0]
  apply foldl_hom' (laneVec X l)
  intro y j
  simp only [Fin.getElem_fin]
  rw [laneVec_set, lane_vadd X hX R, lane_vmul X hX R, laneVec_get, laneVec_get, laneRMat_get]

include hX in
theorem umvR_lanewise (A : RMat (V K) r c) (x : Vector (V K) c) (y : Vector (V K) r) :
    laneVec X l (umvR X R A x y) = umvR (V := fun α => α) Xs R (laneRMat X l A) (laneVec X l x) (laneVec X l y) := by
  unfold umvR
  rw [kernelN_lanewise X l _ _ _ _ _ (hom_vadd X hX R l) (hom_vmul X hX R l)]; rfl
include hX in
theorem mmvR_lanewise (A : RMat (V K) r c) (x : Vector (V K) c) (y : Vector (V K) r) :
    laneVec X l (mmvR X R A x y) = mmvR (V := fun α => α) Xs R (laneRMat X l A) (laneVec X l x) (laneVec X l y) := by
  unfold mmvR
  rw [kernelN_lanewise X l _ _ _ _ _ (hom_vsub X hX R l) (hom_vmul X hX R l)]; rfl
include hX in
theorem usmvR_lanewise (alpha : V K) (A : RMat (V K) r c) (x : Vector (V K) c) (y : Vector (V K) r) :
    laneVec X l (usmvR X R alpha A x y) =
      usmvR (V := fun α => α) Xs R (X.lane l alpha) (laneRMat X l A) (laneVec X l x) (laneVec X l y) := by
  unfold usmvR
  rw [kernelN_lanewise X l _ _ _ _ _ (hom_vadd X hX R l) (hom_alpha X hX R l alpha)]; rfl
include hX in
theorem umtvR_lanewise (A : RMat (V K) r c) (x : Vector (V K) r) (y : Vector (V K) c) :
    laneVec X l (umtvR X R A x y) = umtvR (V := fun α => α) Xs R (laneRMat X l A) (laneVec X l x) (laneVec X l y) := by
  unfold umtvR
  rw [kernelT_lanewise X l _ _ _ _ (hom_vadd X hX R l) (hom_vmul X hX R l)]
include hX in
theorem mmtvR_lanewise (A : RMat (V K) r c) (x : Vector (V K) r) (y : Vector (V K) c) :
    laneVec X l (mmtvR X R A x y) = mmtvR (V := fun α => α) Xs R (laneRMat X l A) (laneVec X l x) (laneVec X l y) := by
  unfold mmtvR
  rw [kernelT_lanewise X l _ _ _ _ (hom_vsub X hX R l) (hom_vmul X hX R l)]
include hX in
theorem usmtvR_lanewise (alpha : V K) (A : RMat (V K) r c) (x : Vector (V K) r) (y : Vector (V K) c) :
    laneVec X l (usmtvR X R alpha A x y) =
      usmtvR (V := fun α => α) Xs R (X.lane l alpha) (laneRMat X l A) (laneVec X l x) (laneVec X l y) := by
  unfold usmtvR
  rw [kernelT_lanewise X l _ _ _ _ (hom_vadd X hX R l) (hom_alpha X hX R l alpha)]

include hX in
theorem leftmultiply_lanewise (A : RMat (V K) n c) (M : Mat (V K) n) :
    laneRMat X l (leftmultiply X R A M) = leftmultiply (V := fun α => α) Xs R (laneRMat X l A) (laneMat X l M) := by
  apply Vector.ext
  intro i hi
  apply Vector.ext
  intro j hj
  have e1 : ((laneRMat X l (leftmultiply X R A M))[i])[j] = (laneRMat X l (leftmultiply X R A M)).get ⟨i, hi⟩ ⟨j, hj⟩ := rfl
  rw [e1, laneRMat_get]
  unfold leftmultiply
  simp only [RMat.get, Fin.getElem_fin, Vector.getElem_ofFn]
  have := foldl_hom' (X.lane l)
    (fun (acc : V K) (k : Fin n) => vadd X R acc (vmul X R (M.get ⟨i, hi⟩ k) (RMat.get A k ⟨j, hj⟩)))
    (fun (acc : K) (k : Fin n) => vadd (V := fun α => α) Xs R acc (vmul (V := fun α => α) Xs R ((laneMat X l M).get ⟨i, hi⟩ k) (RMat.get (laneRMat X l A) k ⟨j, hj⟩)))
    (by intro acc k; simp only [lane_vadd X hX R, lane_vmul X hX R, laneMat_get, laneRMat_get])
    (List.finRange n) (X.bcast R.zero)
  simp only [RMat.get, Fin.getElem_fin] at this
  rw [this, lane_bcast' X hX]

-- vectors -------------------------------------------------------------------------------------------------

include hX in
theorem oneNorm_lanewise (v : Vector (V K) n) :
    X.lane l (oneNorm X R v) = oneNorm (V := fun α => α) Xs R (laneVec X l v) := by
  unfold oneNorm
  have h0 : X.lane l (X.bcast R.zero) = Xs.bcast R.zero := lane_bcast' X hX l _
  rw [← h0]
  apply foldl_hom' (X.lane l)
  intro res i
  simp only [lane_vadd X hX R, lane_vabs X hX R, Fin.getElem_fin, laneVec_get]

include hX in
theorem twoNorm2_lanewise (v : Vector (V K) n) :
    X.lane l (twoNorm2 X R v) = twoNorm2 (V := fun α => α) Xs R (laneVec X l v) := by
  unfold twoNorm2
  have h0 : X.lane l (X.bcast R.zero) = Xs.bcast R.zero := lane_bcast' X hX l _
  rw [← h0]
  apply foldl_hom' (X.lane l)
  intro res i
  simp only [lane_vadd X hX R, lane_vmul X hX R, Fin.getElem_fin, laneVec_get]

include hX in
theorem twoNorm_lanewise (sq : K → K) (v : Vector (V K) n) :
    X.lane l (twoNorm X R sq v) = twoNorm (V := fun α => α) Xs R sq (laneVec X l v) := by
  unfold twoNorm
  rw [hX.lane_map, twoNorm2_lanewise X hX R l]
  rfl

include hX in
theorem vecInfinityNorm_lanewise (v : Vector (V K) n) :
    X.lane l (vecInfinityNorm X R v) = vecInfinityNorm (V := fun α => α) Xs R (laneVec X l v) := by
  unfold vecInfinityNorm
  have key := foldl_hom' (fun (p : V K × V K) => (X.lane l p.1, X.lane l p.2))
    (fun (p : V K × V K) (i : Fin n) =>
      let a := vabs X R v[i]
      (vmax X R a p.1, vadd X R p.2 a))
    (fun (p : K × K) (i : Fin n) =>
      let a := vabs (V := fun α => α) Xs R (laneVec X l v)[i]
      (vmax (V := fun α => α) Xs R a p.1, vadd (V := fun α => α) Xs R p.2 a))
    (by
      intro p i
      simp only [lane_vmax X hX R, lane_vadd X hX R, lane_vabs X hX R, Fin.getElem_fin, laneVec_get])
    (List.finRange n) (X.bcast R.zero, X.bcast R.one)
  simp only at key
  have h1 := congrArg Prod.fst key
  have h2 := congrArg Prod.snd key
  simp only [lane_bcast' X hX] at h1 h2
  rw [lane_vmul X hX R, lane_vdiv X hX R, h1, h2]

include hX in
theorem dotT_lanewise (a b : Vector (V K) n) :
    X.lane l (dotT X R a b) = dotT (V := fun α => α) Xs R (laneVec X l a) (laneVec X l b) := by
  unfold dotT
  have h0 : X.lane l (X.bcast R.zero) = Xs.bcast R.zero := lane_bcast' X hX l _
  rw [← h0]
  apply foldl_hom' (X.lane l)
  intro res i
  simp only [lane_vadd X hX R, lane_vmul X hX R, Fin.getElem_fin, laneVec_get]

include hX in
theorem axpy_lanewise (a : V K) (x y : Vector (V K) n) :
    laneVec X l (axpy X R a x y) = axpy (V := fun α => α) Xs R (X.lane l a) (laneVec X l x) (laneVec X l y) := by
  unfold axpy
  apply foldl_hom' (laneVec X l)
  intro y i
  simp only [Fin.getElem_fin]
  rw [laneVec_set, lane_vadd X hX R, lane_vmul X hX R, laneVec_get, laneVec_get]

-- rectangular norms -----------------------------------------------------------------------------------------

include hX in
theorem frobeniusNorm2R_lanewise (A : RMat (V K) r c) :
    X.lane l (frobeniusNorm2R X R A) = frobeniusNorm2R (V := fun α => α) Xs R (laneRMat X l A) := by
  unfold frobeniusNorm2R
  have h0 : X.lane l (X.bcast R.zero) = Xs.bcast R.zero := lane_bcast' X hX l _
  rw [← h0]
  apply foldl_hom' (X.lane l)
  intro sum i
  rw [lane_vadd X hX R, twoNorm2_lanewise X hX R l, laneRMat_row]

include hX in
theorem frobeniusNormR_lanewise (sq : K → K) (A : RMat (V K) r c) :
    X.lane l (frobeniusNormR X R sq A) = frobeniusNormR (V := fun α => α) Xs R sq (laneRMat X l A) := by
  unfold frobeniusNormR
  rw [hX.lane_map, frobeniusNorm2R_lanewise X hX R l]
  rfl

include hX in
theorem infinityNormR_lanewise (A : RMat (V K) r c) :
    X.lane l (infinityNormR X R A) = infinityNormR (V := fun α => α) Xs R (laneRMat X l A) := by
  unfold infinityNormR
  have key := foldl_hom' (fun (p : V K × V K) => (X.lane l p.1, X.lane l p.2))
    (fun (p : V K × V K) (i : Fin r) =>
      let a := oneNorm X R A[i]
      (vmax X R a p.1, vadd X R p.2 a))
    (fun (p : K × K) (i : Fin r) =>
      let a := oneNorm (V := fun α => α) Xs R (laneRMat X l A)[i]
      (vmax (V := fun α => α) Xs R a p.1, vadd (V := fun α => α) Xs R p.2 a))
    (by
      intro p i
      simp only [lane_vmax X hX R, lane_vadd X hX R, oneNorm_lanewise X hX R l, laneRMat_row])
    (List.finRange r) (X.bcast R.zero, X.bcast R.one)
  simp only at key
  have h1 := congrArg Prod.fst key
  have h2 := congrArg Prod.snd key
  simp only [lane_bcast' X hX] at h1 h2
  rw [lane_vmul X hX R, lane_vdiv X hX R, h1, h2]

end Rect

/-- `real` / `imag` of a vector of complex numbers is lane-wise (the overload for `LoopSIMD<std::complex<T>,S>`) -/
theorem lanewise_stdUn2 {α β : Type} {S : Nat} (sem : StdUnOp → α → Option β) (op : StdUnOp) (a : Vec α S) :
    LanewiseUn (Simd.stdUn2 sem op a) (sem op) a :=
  un_canonical loop_STD_UNARY_OP_v2 (by decide) (by decide) (by decide) (sem op) a

-- ------------------------------------------------------------------------------------------------
-- compound assignment with a lane of the destination as scalar operand
-- ------------------------------------------------------------------------------------------------
section Alias
variable {α : Type} {S S₂ : Nat}

/-- an operator that takes its scalar by value is not affected by the aliasing: `v OP= lane(k, v)` is
    `v OP= (the value of lane k before the call)` -/
theorem ipVA_byValue (L : Loop) (ia : Ix) (hargs : L.args = [.vec 0 ia, .scalar]) (hv : L.scalarByRef = false)
    (f : α → α → Option α) (a : Vec α S) (k : Nat) :
    Simd.ipVA L f a k = (a[k]?).bind fun s => Simd.ipVS L f a s := by
  unfold Simd.ipVA Simd.ipVS
  rw [hargs]
  simp only [hv, Bool.false_eq_true, if_false, Option.bind_some]

theorem assignVA_byValue (sem : AssignOp → α → α → Option α) (op : AssignOp) (a : Vec α S) (k : Nat) (hk : k < S) :
    Simd.assignVA sem op a k = Simd.assignVS sem op a a[k] := by
  unfold Simd.assignVA Simd.assignVS
  rw [ipVA_byValue _ .i (by decide) (by decide), Vector.getElem?_eq_getElem hk]
  rfl

theorem ipVANested_byValue (L : Loop) (ia : Ix) (hargs : L.args = [.vec 0 ia, .scalar]) (hv : L.scalarByRef = false)
    (f : α → α → Option α) (a : Vec (Vec α S₂) S) (k : Nat) :
    Simd.ipVANested L f a k = (Simd.laneNested k a).bind fun s => Simd.ipVS L (Simd.ipVS L f) a s := by
  unfold Simd.ipVANested Simd.ipVS
  simp only [hargs, hv, Bool.false_eq_true, if_false]

theorem assignVANested_byValue (sem : AssignOp → α → α → Option α) (op : AssignOp) (a : Vec (Vec α S₂) S) (k : Nat) :
    Simd.assignVANested sem op a k =
      (Simd.laneNested k a).bind fun s => Simd.ipVS loop_ASSIGNMENT_OP_vs (Simd.assignVS sem op) a s := by
  unfold Simd.assignVANested Simd.assignVS
  rw [ipVANested_byValue _ .i (by decide) (by decide)]

end Alias

-- ------------------------------------------------------------------------------------------------
-- luDecomposition without throwEarly never throws
-- ------------------------------------------------------------------------------------------------
section NoThrow
variable {V : Type → Type} {L : Nat} (X : SimdLike V L) {K : Type} (R : Arith K) {n : Nat}
variable {Aux : Type} (F : ElimFunc (V := V) (K := K) (n := n) Aux)

theorem luLoop_false_isSome (piv : Bool) : ∀ (is : List (Fin n)) (st : LUState (V := V) (K := K) (n := n) Aux),
    (luLoop X R F false piv is st).isSome = true := by
  intro is
  induction is with
  | nil => intro st; rfl
  | cons i is ih =>
    intro st
    simp only [luLoop, Bool.false_and, Bool.false_eq_true, if_false, Bool.not_false, Bool.true_and]
    split
    · rfl
    · exact ih _

theorem luDecomp_false_isSome (piv : Bool) (A : Mat (V K) n) (aux : Aux) :
    (luDecomp X R F false piv A aux).isSome = true := luLoop_false_isSome X R F piv _ _

end NoThrow

end DV.C09
