import DuneVerif.Proofs.C02FloatLU
import DuneVerif.Proofs.C02Func
/-! C02 — `invert` on the LU path under rounded arithmetic (see Proofs/C02Float.lean for the setting):
every column of the computed inverse is the exact solution of a perturbed system `(A + ΔA_c) b̂_c = e_c`. -/
namespace DV.C02.Flt
open DV.C02
set_option linter.unusedSectionVars false

section Generic
variable {n : Nat} {K Q : Type} [Add K] [Sub K] [Mul K] [Div K] [Neg K] [OfNat K 0] [OfNat K 1]
variable [LinearOrder Q] [Zero Q]

/-- the inner loop `for j < i: y[i] -= L[i][j]*y[j]` on plain functions (any scalar type) -/
def fwRowG (L : Mat n K) (i : Fin n) (y : Fin n → K) : Fin n → K :=
  forUp n y fun j y => if j < i then (fun r => if r = i then y i - L.f i j * y j else y r) else y

theorem forwardL_colG (L B : Mat n K) (c : Fin n) :
    (fun r => (forwardL L B).f r c) = forUp n (fun r => B.f r c) (fwRowG L) := by
  unfold forwardL
  apply forUp_rel (fun (X : Mat n K) (f : Fin n → K) => (fun r => X.f r c) = f)
  · rfl
  · intro i s1 s2 h
    unfold fwRowG
    apply forUp_rel (fun (X : Mat n K) (f : Fin n → K) => (fun r => X.f r c) = f)
    · exact h
    · intro j t1 t2 h'
      by_cases hji : j < i
      · simp only [hji, if_true]
        funext r
        simp [← h']
      · simp only [hji, if_false]; exact h'

/-- only entry `i` changes, and it is the scalar loop over the (unchanged) entries `j < i` -/
theorem fwRowG_eq (L : Mat n K) (i : Fin n) (y : Fin n → K) :
    fwRowG L i y = fun r => if r = i then
      forUp n (y i) (fun j acc => if j < i then acc - L.f i j * y j else acc) else y r := by
  unfold fwRowG
  apply forUp_rel (fun (y' : Fin n → K) (acc : K) => y' = fun r => if r = i then acc else y r)
  · funext r; split_ifs with h
    · subst h; rfl
    · rfl
  · intro j y' acc h
    by_cases hji : j < i
    · simp only [hji, if_true]
      subst h
      funext r
      have : j ≠ i := ne_of_lt hji
      by_cases hri : r = i <;> simp [this, hri]
    · simp only [hji, if_false]; exact h

theorem backwardU_colG (U B : Mat n K) (c : Fin n) :
    (fun r => (backwardU U B).f r c) = forDown n (fun r => B.f r c) (bsStepG U) := by
  unfold backwardU
  apply forDown_rel (fun (X : Mat n K) (f : Fin n → K) => (fun r => X.f r c) = f)
  · rfl
  · intro k s1 s2 h
    funext r
    simp [bsStepG, ← h]

theorem pivotFunc_swapSG (piv : Bool) (s : Vec n (Fin n)) (i p : Fin n) (hp : piv = false → p = i)
    (hsi : s.f i = i) :
    (swapSG piv (pivotFunc : Func n K (Vec n (Fin n))) s i p).f i = p ∧
    ∀ j, j ≠ i → (swapSG piv (pivotFunc : Func n K (Vec n (Fin n))) s i p).f j = s.f j := by
  cases piv
  · have := hp rfl; subst this
    simp [swapSG, hsi]
  · constructor
    · simp only [swapSG, if_true, pivotFunc, Vec.ofFn_f]
      split_ifs with h
      · rw [hsi]; exact h
      · rfl
    · intro j hj
      simp [swapSG, pivotFunc, hj]

/-- the column un-permutation loop of `invert` applies `σ⁻¹` to the column index -/
theorem unpermute_fG (s : Vec n (Fin n)) (X : Mat n K) (r c : Fin n) :
    (unpermute s X).f r c = X.f r ((sigOf s n)⁻¹ c) := by
  have : ∀ r c, (unpermute s X).f r c = X.f r (((sigOf s n)⁻¹ * sigOf s 0) c) := by
    unfold unpermute
    apply forDown_ind X _ (fun m B => ∀ r c, B.f r c = X.f r (((sigOf s n)⁻¹ * sigOf s m) c))
    · intro r c; simp
    · intro i B ih r c
      have hstep : (if i ≠ s.f i then swapCols B (s.f i) i else B).f r c = B.f r (Equiv.swap i (s.f i) c) := by
        by_cases h : i = s.f i
        · rw [if_neg (not_not.mpr h), ← h, Equiv.swap_self]; rfl
        · simp only [ne_eq, h, not_false_eq_true, if_true, swapCols, Mat.ofFn_f, Equiv.swap_apply_def]
          by_cases h1 : c = s.f i
          · subst h1
            have : s.f i ≠ i := fun h' => h h'.symm
            simp [this]
          · by_cases h2 : c = i
            · subst h2; simp [h1]
            · simp [h1, h2]
      rw [hstep, ih]
      have : sigOf s (i.1 + 1) = sigOf s i.1 * Equiv.swap i (s.f i) := by
        simp [sigOf, i.2]
      rw [this]
      simp [Equiv.Perm.mul_apply]
  rw [this]
  simp [sigOf]

end Generic

variable {R : Rounding} {n : Nat}

theorem zero_val : (0 : FlR R).val = 0 := rfl

/-- forward substitution with the stored unit lower factor under rounding: `(L̂ + ΔL) ŷ = y`, `|ΔL| ≤ γ_n |L̂|` -/
theorem fw_rows_fn (hn : (n : ℝ) * R.u < 1) (L : Mat n (FlR R)) (y : Fin n → FlR R) :
    ∀ r : Fin n, ∃ Θ : Fin n → ℝ, (∀ k, |Θ k| ≤ gamma R.u n) ∧
      (y r).val = ∑ k, Lr L r k * ((forUp n y (fwRowG L)) k).val * (1 + Θ k) := by
  have key := forUp_ind y (fwRowG L)
    (fun m y' => (∀ r : Fin n, m ≤ r.1 → y' r = y r) ∧
      ∀ r : Fin n, r.1 < m → ∃ Θ : Fin n → ℝ, (∀ k, |Θ k| ≤ gamma R.u n) ∧
        (y r).val = ∑ k, Lr L r k * (y' k).val * (1 + Θ k))
    ⟨fun _ _ => rfl, fun r hr => absurd hr (Nat.not_lt_zero _)⟩
    (by
      intro i y' ⟨h1, h2⟩
      rw [fwRowG_eq]
      constructor
      · intro r hr
        have : r ≠ i := fun h => by subst h; omega
        simp only [this, if_false]
        exact h1 r (by omega)
      · intro r hr
        by_cases hri : r = i
        · subst hri
          obtain ⟨p, θ, hp, hθ, heq⟩ := inner_loop_pred hn (fun j => j < r) (L.f r) y' (y' r)
          refine ⟨Function.update θ r p, ?_, ?_⟩
          · intro k
            by_cases hk : k = r
            · subst hk; rw [Function.update_self]; exact hp
            · rw [Function.update_of_ne hk]; exact hθ k
          · have hterm : ∀ k : Fin n,
                Lr L r k * ((if k = r then forUp n (y' r) (fun j acc => if j < r then acc - L.f r j * y' j else acc)
                  else y' k)).val * (1 + Function.update θ r p k) =
                (if k = r then (forUp n (y' r) (fun j acc => if j < r then acc - L.f r j * y' j else acc)).val * (1 + p)
                  else 0) +
                (if k < r then (L.f r k).val * (y' k).val * (1 + θ k) else 0) := by
              intro k
              by_cases hk : k = r
              · subst hk; simp [Lr]
              · rw [Function.update_of_ne hk]
                by_cases hkr : k < r
                · simp [Lr, hk, hkr]
                · have : r ≠ k := fun h => hk h.symm
                  simp [Lr, hk, hkr, this]
            simp only [hterm, Finset.sum_add_distrib, Finset.sum_ite_eq' Finset.univ r, Finset.mem_univ, if_true]
            rw [← h1 r (le_refl _), heq]
        · have hlt : r.1 < i.1 := by
            have : r.1 ≠ i.1 := fun h => hri (Fin.ext h)
            omega
          obtain ⟨Θ, hΘ, heq⟩ := h2 r hlt
          refine ⟨Θ, hΘ, ?_⟩
          rw [heq]
          apply Finset.sum_congr rfl
          intro k _
          by_cases hki : k = i
          · subst hki
            have h1' : ¬ k < r := by simp only [Fin.lt_def]; omega
            have h2' : r ≠ k := fun h => by subst h; omega
            simp [Lr, h1', h2']
          · simp [hki])
  intro r
  exact key.2 r r.2

/-- a run of `luDecomposition` with the functor `ElimPivot` under rounding -/
theorem lu_run_piv_fl {Q : Type} [LinearOrder Q] [Zero Q] (hn : (n : ℝ) * R.u < 1) (piv : Bool)
    (absval : FlR R → Q) (habs0 : ∀ x : FlR R, x.val = 0 → absval x = 0) (A₀ : Mat n (FlR R))
    (hok : (luDecomp piv absval pivotFunc A₀ idPivot).ok = true) :
    ∃ σ : Equiv.Perm (Fin n), MatInv A₀ n σ (luDecomp piv absval pivotFunc A₀ idPivot).A ∧
      DiagNZ n (luDecomp piv absval pivotFunc A₀ idPivot).A ∧
      σ = sigOf (luDecomp piv absval pivotFunc A₀ idPivot).s n := by
  have := lu_invariantG piv absval pivotFunc A₀ idPivot
    (fun m σ A s => MatInv A₀ m σ A ∧ DiagNZ m A ∧ σ = sigOf s m ∧ ∀ j : Fin n, m ≤ j.1 → s.f j = j)
    ⟨MatInv_zero A₀, fun j hj => absurd hj (Nat.not_lt_zero _), rfl, fun j _ => by simp [idPivot]⟩
    (by
      intro i p σ A s hip hp ⟨hM, hD, hσ, hfix⟩ hpiv
      have hne : ((swapRows A i p).f i i).val ≠ 0 := fun h0 => hpiv (habs0 _ h0)
      refine ⟨MatInv_elim hn hne (MatInv_swap hip hM), ?_, ?_⟩
      · intro j hj
        have hnij : ¬ i < j := by simp only [Fin.lt_def]; omega
        rw [elimAll_f_row _ i j j hnij]
        by_cases hji : j = i
        · subst hji; exact hne
        · have hlt : j.1 < i.1 := by
            have : j.1 ≠ i.1 := fun h => hji (Fin.ext h)
            omega
          rw [swapRows_fG, swap_fix hip hlt]
          exact hD j hlt
      · rw [elimLoop_snd_of_elim_id pivotFunc (fun _ _ _ _ => rfl)]
        obtain ⟨h1, h2⟩ := pivotFunc_swapSG (K := FlR R) piv s i p hp (hfix i (le_refl _))
        constructor
        · simp only [sigOf, i.2, dif_pos, Fin.eta, h1]
          rw [hσ]
          congr 1
          apply sigOf_congr
          intro j hj
          exact (h2 j (fun h => by subst h; omega)).symm
        · intro j hj
          rw [h2 j (fun h => by subst h; omega)]
          exact hfix j (by omega)) hok
  obtain ⟨σ, hM, hD, hσ, _⟩ := this
  exact ⟨σ, hM, hD, hσ⟩

/-- **`invert` on the LU path under rounding**: column `c` of the computed inverse is the exact solution of
`(A + ΔA_c) b̂_c = e_c`, `|ΔA_c| ≤ (3γ + γ²) |L̂||Û|` (rows permuted), `γ = γ_{n+1}` -/
theorem invertLU_backward_error_cols {Q : Type} [LinearOrder Q] [Zero Q] (hn : ((n + 1 : ℕ) : ℝ) * R.u < 1)
    (piv : Bool) (absval : FlR R → Q) (habs0 : ∀ x : FlR R, x.val = 0 → absval x = 0)
    (A B : Mat n (FlR R)) (h : invertLU piv absval A = .ok B) :
    ∃ σ : Equiv.Perm (Fin n), ∀ c : Fin n, ∃ ΔA : Fin n → Fin n → ℝ,
      (∀ r, ∑ k, ((A.f (σ r) k).val + ΔA r k) * (B.f k c).val = if σ r = c then 1 else 0) ∧
      ∀ r k, |ΔA r k| ≤ (3 * gamma R.u (n + 1) + gamma R.u (n + 1) ^ 2) *
        ∑ j, |Lr (luDecomp piv absval pivotFunc A idPivot).A r j| *
          |Ur (luDecomp piv absval pivotFunc A idPivot).A j k| := by
  have hu := R.u_nonneg
  have hn' : (n : ℝ) * R.u < 1 := nat_mul_lt hu (Nat.le_succ n) hn
  have hmono : gamma R.u n ≤ gamma R.u (n + 1) := gamma_mono hu (Nat.le_succ _) hn
  unfold invertLU at h
  split at h
  · rename_i hok
    injection h with hB
    obtain ⟨σ, hM, hD, hσ⟩ := lu_run_piv_fl hn' piv absval habs0 A hok
    generalize (luDecomp piv absval pivotFunc A idPivot).A = LU at hM hD hB ⊢
    generalize (luDecomp piv absval pivotFunc A idPivot).s = s at hσ hB
    refine ⟨σ, fun c => ?_⟩
    -- the column of the un-permuted result
    set c' := σ⁻¹ c with hc'
    set ycol : Fin n → FlR R := forUp n (fun r => (identity : Mat n (FlR R)).f r c') (fwRowG LU) with hycol
    set xcol : Fin n → FlR R := forDown n ycol (bsStepG LU) with hxcol
    have hBcol : ∀ k, B.f k c = xcol k := by
      intro k
      rw [← hB, unpermute_fG, ← hσ]
      have h1 := congrFun (backwardU_colG LU (forwardL LU identity) c') k
      have h2 := forwardL_colG LU (identity : Mat n (FlR R)) c'
      rw [h1, h2]
    choose Ψ hΨ hA using fun r k => MatInv_rows hM r k
    choose Θ hΘ hb using fw_rows_fn hn' LU (fun r => (identity : Mat n (FlR R)).f r c')
    choose Φ hΦ hy using bs_rows_fn hn LU ycol (fun j => hD j j.2)
    change ∀ r, (∑ c, if r ≤ c then (LU.f r c).val * (1 + Φ r c) * (xcol c).val else 0) = (ycol r).val at hy
    have hyk : ∀ k, (ycol k).val = ∑ j, Ur LU k j * (1 + Φ k j) * (xcol j).val := by
      intro k
      rw [← hy k]
      apply Finset.sum_congr rfl
      intro j _
      by_cases hkj : k ≤ j <;> simp [Ur, hkj]
    obtain ⟨ΔA, h1, h2⟩ := combine_rows (Lr LU) (Ur LU) (fun r k => (A.f (σ r) k).val)
      (fun r => ((identity : Mat n (FlR R)).f r c').val) (fun k => (ycol k).val) (fun k => (xcol k).val)
      (gamma R.u n) (gamma R.u (n + 1)) hmono Ψ Θ Φ hΨ hΘ hΦ hA hb hyk
    refine ⟨ΔA, ?_, h2⟩
    intro r
    simp only [hBcol]
    rw [h1 r]
    have hσc : σ c' = c := by simp [hc']
    by_cases hrc : r = c'
    · subst hrc
      simp [identity, hσc, one_val]
    · have : σ r ≠ c := fun h => hrc (by rw [hc', ← h]; simp)
      simp [identity, hrc, this, zero_val]
  · cases h

end DV.C02.Flt
