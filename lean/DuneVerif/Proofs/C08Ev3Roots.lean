import Mathlib.Analysis.SpecialFunctions.Trigonometric.Inverse
import DuneVerif.Proofs.C08Ev3
/-!
# C08 — the trigonometric form of the 3x3 eigenvalues (Smith 1961): the three values are roots of the
characteristic polynomial
-/
namespace DV.C08

theorem det3_smul3 (c : ℝ) (M : M3 ℝ) : det3 (smul3 c M) = c ^ 3 * det3 M := by
  unfold det3 smul3
  simp only
  ring

/-- the cubic `t³ - 3t - 2r` vanishes at `t = 2 cos θ` whenever `cos 3θ = r` -/
theorem cubic_of_cos (θ r : ℝ) (h : Real.cos (3 * θ) = r) :
    (2 * Real.cos θ) ^ 3 - 3 * (2 * Real.cos θ) - 2 * r = 0 := by
  rw [Real.cos_three_mul] at h
  linear_combination (2 : ℝ) * h

theorem cos_two_pi_div_three : Real.cos (2 * Real.pi / 3) = -1 / 2 := by
  have h : 2 * Real.pi / 3 = Real.pi - Real.pi / 3 := by ring
  rw [h, Real.cos_pi_sub, Real.cos_pi_div_three]
  ring

/-- the three angles `φ`, `φ + 2π/3`, `φ - 2π/3` give cosines that sum to zero -/
theorem cos_sum_three (φ : ℝ) :
    Real.cos φ + Real.cos (φ + 2 * Real.pi / 3) + Real.cos (φ - 2 * Real.pi / 3) = 0 := by
  rw [Real.cos_add, Real.cos_sub, cos_two_pi_div_three]
  ring

/-- Algebraic core: for symmetric `A`, `q = tr A / 3`, `6 p² = Σ (aᵢᵢ - q)² + 2 (a₀₁² + a₀₂² + a₁₂²)` and `p ≠ 0`,
a root `t` of `t³ - 3t - det((A - qI)/p)` gives the eigenvalue `q + p t` of `A`. -/
theorem charPoly3_of_cubic (A : M3 ℝ) (hs : Sym3 A) (q p t : ℝ)
    (hq : q = (A.a00 + A.a11 + A.a22) / 3)
    (hp : 6 * p ^ 2 = (A.a00 - q) * (A.a00 - q) + (A.a11 - q) * (A.a11 - q) + (A.a22 - q) * (A.a22 - q)
      + 2 * (A.a01 * A.a01 + A.a02 * A.a02 + A.a12 * A.a12))
    (hpne : p ≠ 0)
    (ht : t ^ 3 - 3 * t - det3 (smul3 (1 / p) (shift3 A q)) = 0) :
    charPoly3 A (q + p * t) = 0 := by
  obtain ⟨s10, s20, s21⟩ := hs
  rw [det3_smul3] at ht
  have ht' : p ^ 3 * (t ^ 3 - 3 * t) - det3 (shift3 A q) = 0 := by
    have : p ^ 3 * (t ^ 3 - 3 * t - (1 / p) ^ 3 * det3 (shift3 A q)) = 0 := by rw [ht, mul_zero]
    have hp3 : p ^ 3 * (1 / p) ^ 3 = 1 := by field_simp
    linear_combination this + det3 (shift3 A q) * hp3
  unfold charPoly3
  unfold det3 shift3 at ht' ⊢
  simp only at ht' ⊢
  rw [s10, s20, s21] at ht' ⊢
  subst hq
  linear_combination ht' + (p * t / 2) * hp

/-! ## the trigonometric branch of `eigenValues3dImpl` -/

noncomputable def qOf (S : M3 ℝ) : ℝ := Gen.ev3_q S.a00 S.a11 S.a22

noncomputable def p1Of (S : M3 ℝ) : ℝ := Gen.ev3_p1 S.a00 S.a01 S.a02 S.a10 S.a11 S.a12 S.a20 S.a21 S.a22

noncomputable def p2Of (S : M3 ℝ) : ℝ :=
  Gen.ev3_p2 S.a00 S.a01 S.a02 S.a10 S.a11 S.a12 S.a20 S.a21 S.a22 (qOf S) (p1Of S)

noncomputable def pOf (S : M3 ℝ) : ℝ := Gen.ev3_p Real.sqrt (p2Of S)

/-- `r = det(B)/2` before clamping, `B = (A - qI)/p` -/
noncomputable def rawR (S : M3 ℝ) : ℝ := Gen.ev3_r (det3 (smul3 (Gen.ev3_Bscale (pOf S)) (shift3 S (qOf S))))

noncomputable def phiOf (S : M3 ℝ) : ℝ :=
  Gen.ev3_phi Real.arccos (clampK (rawR S) Gen.ev3_clampLo Gen.ev3_clampHi)

/-- the condition of the diagonal branch -/
def DiagBranch (eps : ℝ) (S : M3 ℝ) : Prop := p1Of S ≤ Gen.ev3_diagThreshold eps

theorem impl_trig (eps : ℝ) (S : M3 ℝ) (hb : ¬ DiagBranch eps S) :
    (eigenValues3dImpl Real.sqrt Real.arccos Real.cos Real.pi eps S).1 =
      sort3 (Gen.ev3_lam0 Real.cos (qOf S) (pOf S) (phiOf S) Real.pi)
        (Gen.ev3_lam1 (qOf S) (Gen.ev3_lam0 Real.cos (qOf S) (pOf S) (phiOf S) Real.pi)
          (Gen.ev3_lam2 Real.cos (qOf S) (pOf S) (phiOf S) Real.pi))
        (Gen.ev3_lam2 Real.cos (qOf S) (pOf S) (phiOf S) Real.pi) := by
  unfold DiagBranch p1Of at hb
  unfold eigenValues3dImpl
  simp only [if_neg hb, det3m_eq]
  rfl

theorem impl_diag (sqrt acos cos : ℝ → ℝ) (pi eps : ℝ) (S : M3 ℝ) (hb : DiagBranch eps S) :
    (eigenValues3dImpl sqrt acos cos pi eps S).1 = sort3 S.a00 S.a11 S.a22 := by
  unfold DiagBranch p1Of at hb
  unfold eigenValues3dImpl
  simp only [if_pos hb]

theorem P_min {P : ℝ → Prop} {x y : ℝ} (hx : P x) (hy : P y) : P (min x y) := by
  rcases min_choice x y with h | h <;> rw [h] <;> assumption

theorem P_max {P : ℝ → Prop} {x y : ℝ} (hx : P x) (hy : P y) : P (max x y) := by
  rcases max_choice x y with h | h <;> rw [h] <;> assumption

/-- every component of `sort3 a b c` is one of `a, b, c` -/
theorem sort3_forall (P : ℝ → Prop) (a b c : ℝ) (ha : P a) (hb : P b) (hc : P c) :
    P (sort3 a b c).1 ∧ P (sort3 a b c).2.1 ∧ P (sort3 a b c).2.2 := by
  unfold sort3
  simp only [cswap_fst, cswap_snd]
  exact ⟨P_min (P_min ha hb) (P_min (P_max ha hb) hc), P_max (P_min ha hb) (P_min (P_max ha hb) hc),
    P_max (P_max ha hb) hc⟩

theorem clampK_id (x lo hi : ℝ) (h1 : lo ≤ x) (h2 : x ≤ hi) : clampK x lo hi = x := by
  unfold clampK
  rw [if_neg (not_lt.mpr h1), if_neg (not_lt.mpr h2)]

/-- In the trigonometric branch, if the unclamped `r` lies in `[-1,1]`, all three computed values are eigenvalues. -/
theorem impl_trig_roots (eps : ℝ) (he : 0 ≤ eps) (S : M3 ℝ) (hs : Sym3 S) (hb : ¬ DiagBranch eps S)
    (hr : -1 ≤ rawR S ∧ rawR S ≤ 1) :
    let l := (eigenValues3dImpl Real.sqrt Real.arccos Real.cos Real.pi eps S).1
    charPoly3 S l.1 = 0 ∧ charPoly3 S l.2.1 = 0 ∧ charPoly3 S l.2.2 = 0 := by
  simp only
  rw [impl_trig eps S hb]
  -- basic quantities
  have hq : qOf S = (S.a00 + S.a11 + S.a22) / 3 := gen_q3 _ _ _
  have hp1 : p1Of S = S.a01 * S.a01 + S.a02 * S.a02 + S.a12 * S.a12 := by
    unfold p1Of Gen.ev3_p1; ring
  have hp1pos : 0 < p1Of S := by
    unfold DiagBranch Gen.ev3_diagThreshold at hb
    linarith [not_le.mp hb]
  have hp2 : p2Of S = (S.a00 - qOf S) * (S.a00 - qOf S) + (S.a11 - qOf S) * (S.a11 - qOf S)
      + (S.a22 - qOf S) * (S.a22 - qOf S) + 2 * (S.a01 * S.a01 + S.a02 * S.a02 + S.a12 * S.a12) := by
    unfold p2Of Gen.ev3_p2
    rw [hp1]
    push_cast
    ring
  have hp2pos : 0 < p2Of S := by
    rw [hp2, ← hp1]
    nlinarith [mul_self_nonneg (S.a00 - qOf S), mul_self_nonneg (S.a11 - qOf S), mul_self_nonneg (S.a22 - qOf S)]
  have hpdef : pOf S = Real.sqrt (p2Of S / 6) := by
    unfold pOf Gen.ev3_p
    push_cast
    rfl
  have hppos : 0 < pOf S := by
    rw [hpdef]
    exact Real.sqrt_pos.mpr (by positivity)
  have hpsq : 6 * pOf S ^ 2 = p2Of S := by
    rw [hpdef, Real.sq_sqrt (by positivity)]
    ring
  have hclamp : clampK (rawR S) Gen.ev3_clampLo Gen.ev3_clampHi = rawR S := by
    apply clampK_id
    · unfold Gen.ev3_clampLo; push_cast; exact hr.1
    · unfold Gen.ev3_clampHi; push_cast; exact hr.2
  have hphi : 3 * phiOf S = Real.arccos (rawR S) := by
    unfold phiOf Gen.ev3_phi
    rw [hclamp]
    push_cast
    ring
  have hcos3 : Real.cos (3 * phiOf S) = rawR S := by
    rw [hphi, Real.cos_arccos hr.1 hr.2]
  have hdet : 2 * rawR S = det3 (smul3 (1 / pOf S) (shift3 S (qOf S))) := by
    unfold rawR Gen.ev3_r Gen.ev3_Bscale
    push_cast
    ring
  -- the three values as q + p * (2 cos θ)
  have e2 : Gen.ev3_lam2 Real.cos (qOf S) (pOf S) (phiOf S) Real.pi = qOf S + pOf S * (2 * Real.cos (phiOf S)) := by
    unfold Gen.ev3_lam2; push_cast; ring
  have e0 : Gen.ev3_lam0 Real.cos (qOf S) (pOf S) (phiOf S) Real.pi
      = qOf S + pOf S * (2 * Real.cos (phiOf S + 2 * Real.pi / 3)) := by
    unfold Gen.ev3_lam0; push_cast; ring
  have e1 : Gen.ev3_lam1 (qOf S) (Gen.ev3_lam0 Real.cos (qOf S) (pOf S) (phiOf S) Real.pi)
      (Gen.ev3_lam2 Real.cos (qOf S) (pOf S) (phiOf S) Real.pi)
      = qOf S + pOf S * (2 * Real.cos (phiOf S - 2 * Real.pi / 3)) := by
    rw [e0, e2]
    unfold Gen.ev3_lam1
    push_cast
    linear_combination (-2 * pOf S) * cos_sum_three (phiOf S)
  have root : ∀ θ : ℝ, Real.cos (3 * θ) = rawR S → charPoly3 S (qOf S + pOf S * (2 * Real.cos θ)) = 0 := by
    intro θ hθ
    apply charPoly3_of_cubic S hs (qOf S) (pOf S) (2 * Real.cos θ) hq _ hppos.ne'
    · rw [← hdet]
      exact cubic_of_cos θ (rawR S) hθ
    · rw [hpsq, hp2]
  have r2 := root (phiOf S) hcos3
  have r0 := root (phiOf S + 2 * Real.pi / 3) (by
    have : 3 * (phiOf S + 2 * Real.pi / 3) = 3 * phiOf S + 2 * Real.pi := by ring
    rw [this, Real.cos_add_two_pi, hcos3])
  have r1 := root (phiOf S - 2 * Real.pi / 3) (by
    have : 3 * (phiOf S - 2 * Real.pi / 3) = 3 * phiOf S - 2 * Real.pi := by ring
    rw [this, Real.cos_sub_two_pi, hcos3])
  rw [← e2] at r2
  rw [← e0] at r0
  rw [← e1] at r1
  exact sort3_forall (fun x => charPoly3 S x = 0) _ _ _ r0 r1 r2

/-- For an exactly diagonal matrix the (sorted) diagonal entries are returned, and they are the eigenvalues. -/
theorem impl_diag_roots (sqrt acos cos : ℝ → ℝ) (pi eps : ℝ) (he : 0 ≤ eps) (S : M3 ℝ)
    (hd : S.a01 = 0 ∧ S.a02 = 0 ∧ S.a12 = 0 ∧ S.a10 = 0 ∧ S.a20 = 0 ∧ S.a21 = 0) :
    let l := (eigenValues3dImpl sqrt acos cos pi eps S).1
    charPoly3 S l.1 = 0 ∧ charPoly3 S l.2.1 = 0 ∧ charPoly3 S l.2.2 = 0 := by
  obtain ⟨h01, h02, h12, h10, h20, h21⟩ := hd
  have hb : DiagBranch eps S := by
    unfold DiagBranch p1Of Gen.ev3_p1 Gen.ev3_diagThreshold
    rw [h01, h02, h12]
    simpa using he
  simp only
  rw [impl_diag sqrt acos cos pi eps S hb]
  have cp : ∀ x, charPoly3 S x = -((S.a00 - x) * (S.a11 - x) * (S.a22 - x)) := by
    intro x
    unfold charPoly3 det3 shift3
    simp only
    rw [h01, h02, h12, h10, h20, h21]
    ring
  apply sort3_forall (fun x => charPoly3 S x = 0)
  · rw [cp]; ring
  · rw [cp]; ring
  · rw [cp]; ring

/-- eigenvalues of the max-norm-scaled matrix, scaled back, are eigenvalues of the matrix -/
theorem charPoly3_unscale (A : M3 ℝ) (m l : ℝ) (hm : m ≠ 0) (h : charPoly3 (sdiv3 A m) l = 0) :
    charPoly3 A (l * m) = 0 := by
  unfold charPoly3 at h ⊢
  have key : det3 (shift3 A (l * m)) = m ^ 3 * det3 (shift3 (sdiv3 A m) l) := by
    unfold det3 shift3 sdiv3
    simp only
    field_simp
  rw [key]
  have : det3 (shift3 (sdiv3 A m) l) = 0 := by linarith
  rw [this]
  ring

theorem sdiv3_sym (A : M3 ℝ) (m : ℝ) (hs : Sym3 A) : Sym3 (sdiv3 A m) := by
  obtain ⟨h1, h2, h3⟩ := hs
  unfold Sym3 sdiv3
  simp only
  rw [h1, h2, h3]
  exact ⟨rfl, rfl, rfl⟩

end DV.C08
