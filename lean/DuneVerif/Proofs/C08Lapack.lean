import Mathlib.Tactic.Ring
import DuneVerif.Model.C08
/-!
# C08 — the row-major ↔ column-major hand-over to LAPACK as index arithmetic
-/
namespace DV.C08

variable {R : Type}

/-- symmetric on the index range `[0,n)²` -/
def SymOn (n : Nat) (A : Nat → Nat → R) : Prop := ∀ i j, i < n → j < n → A i j = A j i

theorem idx_div (n r c : Nat) (hr : r < n) : (r + n * c) / n = c := by
  rw [Nat.add_mul_div_left _ _ (Nat.lt_of_le_of_lt (Nat.zero_le r) hr), Nat.div_eq_of_lt hr, Nat.zero_add]

theorem idx_mod (n r c : Nat) (hr : r < n) : (r + n * c) % n = r := by
  rw [Nat.add_mul_mod_self_left, Nat.mod_eq_of_lt hr]

/-- LAPACK reads the row-major copy as the transpose -/
theorem fortranView_packRowMajor (n : Nat) (A : Nat → Nat → R) (r c : Nat) (hr : r < n) :
    fortranView n (packRowMajor n A) r c = A c r := by
  unfold fortranView packRowMajor
  rw [idx_div n r c hr, idx_mod n r c hr]

/-- LAPACK reads the column-major copy as the matrix itself -/
theorem fortranView_packColMajor (n : Nat) (A : Nat → Nat → R) (r c : Nat) (hr : r < n) :
    fortranView n (packColMajor n A) r c = A r c := by
  unfold fortranView packColMajor
  rw [idx_div n r c hr, idx_mod n r c hr]

/-- the copy-back turns column `i` of the Fortran result into row `i` -/
theorem copyBack_eq (n : Nat) (Z : Nat → Nat → R) (i j : Nat) (hj : j < n) : copyBack n Z i j = Z j i := by
  unfold copyBack unpackRowMajor fortranStore
  have e : i * n + j = j + n * i := by rw [Nat.mul_comm, Nat.add_comm]
  rw [e, idx_div n j i hj, idx_mod n j i hj]

theorem lapackSeesSym_eq (n : Nat) (A : Nat → Nat → R) (hs : SymOn n A) (r c : Nat) (hr : r < n) (hc : c < n) :
    lapackSeesSym n A r c = A r c := by
  unfold lapackSeesSym upperCompletion
  split_ifs with h
  · rw [fortranView_packRowMajor n A r c hr]
    exact hs c r hc hr
  · rw [fortranView_packRowMajor n A c r hc]

variable [CommRing R]

/-- `v` is a right eigenvector of the `n x n` matrix `M` for `lam`:  `Σ_k M r k * v k = lam * v r` -/
def IsRightEig (n : Nat) (M : Nat → Nat → R) (lam : R) (v : Nat → R) : Prop :=
  ∀ r, r < n → sumTo n (fun k => M r k * v k) = lam * v r

/-- `v` is a left eigenvector:  `Σ_k v k * M k c = lam * v c`  (`vᵀ M = lam vᵀ`) -/
def IsLeftEig (n : Nat) (M : Nat → Nat → R) (lam : R) (v : Nat → R) : Prop :=
  ∀ c, c < n → sumTo n (fun k => v k * M k c) = lam * v c

theorem sumTo_congr (n : Nat) (f g : Nat → R) (h : ∀ k, k < n → f k = g k) : sumTo n f = sumTo n g := by
  induction n with
  | zero => rfl
  | succ m ih =>
    unfold sumTo
    rw [ih (fun k hk => h k (Nat.lt_succ_of_lt hk)), h m (Nat.lt_succ_self m)]

end DV.C08
