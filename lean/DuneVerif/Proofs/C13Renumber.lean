import DuneVerif.Proofs.C13Add
/-! C13, round three: the state after a sync as the unique solution of a set-theoretic specification, and its
consequence that the numbering of the processes (the communicator's choice) is irrelevant.  Core Lean only. -/
namespace DV.C13

/-- some process believes that `q` holds `g` with attribute `a` -/
def Belief (w : World) (q : Nat) (g : Int) (a : Nat) : Prop :=
  ∃ (p : Nat) (sp : RankState) (en : RemEntry), w[p]? = some sp ∧ en ∈ listOf sp.remote q ∧ en.g = g ∧ en.rem = a

/-- some process `p` that believes `q` to hold `en.g` with attribute `en.own` is `x` itself and holds the index with
attribute `en.rem`, or lists `x` as a holder with attribute `en.rem` -/
def BeliefRem (w : World) (q x : Nat) (en : RemEntry) : Prop :=
  ∃ (p : Nat) (sp : RankState) (enq : RemEntry), w[p]? = some sp ∧ enq ∈ listOf sp.remote q ∧ enq.g = en.g ∧ enq.rem = en.own ∧
    ((x = p ∧ en.rem = enq.own) ∨ (x ≠ q ∧ ∃ er, er ∈ listOf sp.remote x ∧ er.g = en.g ∧ er.rem = en.rem))

/-- the specification of the state `sq'` of process `q` after a sync of the world `w` in which it had state `sq`:
exactly the old pairs plus one pair, numbered by `num`, for every believed index it did not hold; exactly the old
remote indices plus the believed ones; exactly the old neighbours plus the processes of new remote indices; lists in
strictly ascending order; sequence numbers advanced and equal -/
structure SyncSpec (num : Int → Nat) (w : World) (q : Nat) (sq sq' : RankState) : Prop where
  idx : ∀ e, e ∈ sq'.idx ↔ e ∈ sq.idx ∨ (e.loc = num e.g ∧ Belief w q e.g e.attr ∧ ∀ e0 ∈ sq.idx, e0.g ≠ e.g)
  rem : ∀ x en, en ∈ listOf sq'.remote x ↔ en ∈ listOf sq.remote x ∨ BeliefRem w q x en
  nb : ∀ x, isNeighbour sq'.remote x = true ↔ isNeighbour sq.remote x = true ∨ ∃ en, BeliefRem w q x en
  idxSeq : sq'.idxSeq = sq.idxSeq + 1
  remSeq : sq'.remSeq = sq.idxSeq + 1
  idxSorted : sq'.idx.Pairwise (fun a b => a.g < b.g)
  nbSorted : sq'.remote.Pairwise (fun a b => a.1 < b.1)
  remSorted : ∀ x, (listOf sq'.remote x).Pairwise (fun a b => a.g < b.g)

/-- where a new neighbour comes from -/
theorem nb_origin {D : Decomp} {w : World} (hw : PartialView D w) (q y : Nat) (x : Nat × Item)
    (hx : x ∈ flatMsgs (inbox w q)) (b : Nat) (hb : x.2.pairs.lookup q = some b)
    (h : y = x.1 ∨ (y ≠ q ∧ ∃ xa, (y, xa) ∈ x.2.pairs)) : ∃ en, BeliefRem w q y en := by
  obtain ⟨sp, enq, h1, h2, h3, h4, h5, hall⟩ := told_origin hw q x hx b hb
  rcases h with rfl | ⟨hne, xa, hxa⟩
  · exact ⟨⟨x.2.g, b, x.2.srcAttr⟩, x.1, sp, enq, h1, h2, h3, h4, Or.inl ⟨rfl, h5.symm⟩⟩
  · obtain ⟨er, h6, h7, h8⟩ := hall y xa hxa
    exact ⟨⟨x.2.g, b, xa⟩, x.1, sp, enq, h1, h2, h3, h4, Or.inr ⟨hne, er, h6, h7, h8⟩⟩

theorem isNeighbour_of_mem_listOf (r : List (Nat × List RemEntry)) (x : Nat) (en : RemEntry) (h : en ∈ listOf r x) :
    isNeighbour r x = true := by
  obtain ⟨l, hl, _⟩ := mem_of_mem_listOf r x en h
  exact (isNeighbour_iff r x).2 ⟨l, hl⟩

/-- the sync meets its specification -/
theorem syncSpec_rank {D : Decomp} {w : World} (num : Int → Nat) (hw : PartialView D w)
    (q : Nat) (sq sq' : RankState) (hq : w[q]? = some sq) (hq' : (sync num w)[q]? = some sq') :
    SyncSpec num w q sq sq' := by
  have hI := hw q sq hq
  have hI' : RankInv D (sync num w).length q sq' := partialView_sync num hw q sq' hq'
  obtain ⟨s1, hs1, hmIdx, hmNb, hmRem⟩ := monotone_rank num hw q sq hq
  rw [hq'] at hs1
  simp only [Option.some.injEq] at hs1
  subst hs1
  obtain ⟨hexI, hexR⟩ := exact_rank num hw q sq sq' hq hq'
  have hremIff : ∀ x en, en ∈ listOf sq'.remote x ↔ en ∈ listOf sq.remote x ∨ BeliefRem w q x en := by
    intro x en
    constructor
    · intro h
      exact hexR x en h
    · rintro (h | ⟨p, sp, enq, h1, h2, h3, h4, h5⟩)
      · exact hmRem x en h
      · obtain ⟨s2, hs2, _, k2, k3⟩ := postcondition_rank num hw p q sp h1 enq h2
        rw [hq'] at hs2
        simp only [Option.some.injEq] at hs2
        subst hs2
        rcases h5 with ⟨rfl, h6⟩ | ⟨hne, er, h6, h7, h8⟩
        · have : en = ⟨enq.g, enq.rem, enq.own⟩ := by
            cases en; simp only at h3 h4 h6; simp [h3, h4, h6]
          rw [this]; exact k2
        · have := k3 x er hne h6 (h7.trans h3.symm)
          have e : en = ⟨enq.g, enq.rem, er.rem⟩ := by
            cases en; simp only at h3 h4 h8; simp [h3, h4, h8]
          rw [e]; exact this
  refine ⟨?_, hremIff, ?_, ?_, ?_, hI'.idxSorted, hI'.rem.nbSorted, hI'.rem.listOf_pairwise⟩
  · intro e
    constructor
    · intro he
      rcases hexI e he with h | ⟨h1, p, sp, enq, h2, h3, h4, h5⟩
      · exact Or.inl h
      · by_cases hold : e ∈ sq.idx
        · exact Or.inl hold
        · refine Or.inr ⟨h1, ⟨p, sp, enq, h2, h3, h4, h5⟩, ?_⟩
          intro e0 he0 hg
          have := eq_of_mem_pairwise_g _ hI'.idxSorted e0 e (hmIdx e0 he0) he hg
          exact hold (this ▸ he0)
    · rintro (h | ⟨h1, ⟨p, sp, enq, h2, h3, h4, h5⟩, hfresh⟩)
      · exact hmIdx e h
      · obtain ⟨s2, hs2, k1, _, _⟩ := postcondition_rank num hw p q sp h2 enq h3
        rw [hq'] at hs2
        simp only [Option.some.injEq] at hs2
        subst hs2
        rw [h4, h5] at k1
        obtain ⟨e', he', hg', ha'⟩ := (hasKey_iff _ _ _).1 k1
        rcases hexI e' he' with h | ⟨hl, _⟩
        · exact absurd hg' (hfresh e' h)
        · have : e' = e := by
            cases e; cases e'
            simp only at hg' ha' hl h1
            simp [hg', ha', hl, h1]
          exact this ▸ he'
  · intro x
    constructor
    · intro h
      rw [sync_getElem?, hq] at hq'
      simp only [Option.map_some, Option.some.injEq] at hq'
      subst hq'
      rw [(syncRank_idx num w q sq).2, isNeighbour_recvFlat] at h
      rcases h with h | ⟨y, hy, ⟨b, hb⟩, h2⟩
      · exact Or.inl h
      · exact Or.inr (nb_origin hw q x y hy b hb h2)
    · rintro (h | ⟨en, h⟩)
      · exact hmNb x h
      · exact isNeighbour_of_mem_listOf _ x en ((hremIff x en).2 (Or.inr h))
  · rw [sync_getElem?, hq] at hq'
    simp only [Option.map_some, Option.some.injEq] at hq'
    subst hq'
    simp [syncRank, finish, recvAll_eq_flat, (recvFlat_seq num q _ sq).1]
  · rw [sync_getElem?, hq] at hq'
    simp only [Option.map_some, Option.some.injEq] at hq'
    subst hq'
    simp [syncRank, finish, recvAll_eq_flat, (recvFlat_seq num q _ sq).1]

/-- the specification has at most one solution -/
theorem syncSpec_unique {num : Int → Nat} {w : World} {q : Nat} {sq s1 s2 : RankState}
    (h1 : SyncSpec num w q sq s1) (h2 : SyncSpec num w q sq s2) : s1 = s2 := by
  have hidx : s1.idx = s2.idx := by
    apply pairwise_ext (fun a b : IdxEntry => a.g < b.g) (fun a => Int.lt_irrefl _) (fun a b h => Int.lt_asymm h)
      _ _ h1.idxSorted h2.idxSorted
    intro e
    rw [h1.idx, h2.idx]
  have hrem : s1.remote = s2.remote := by
    apply remote_ext _ _ h1.nbSorted h2.nbSorted
    · intro x
      rw [h1.nb, h2.nb]
    · intro x
      apply pairwise_ext (fun a b : RemEntry => a.g < b.g) (fun a => Int.lt_irrefl _) (fun a b h => Int.lt_asymm h)
        _ _ (h1.remSorted x) (h2.remSorted x)
      intro en
      rw [h1.rem, h2.rem]
  cases s1; cases s2
  have e1 := h1.idxSeq; have e2 := h2.idxSeq; have e3 := h1.remSeq; have e4 := h2.remSeq
  simp only at hidx hrem e1 e2 e3 e4
  rw [hidx, hrem, e1, e2, e3, e4]

/-! ### renumbering the processes -/

/-- the states of one process in two worlds whose processes are numbered differently (`ρ`: number in the first world
↦ number in the second): same index set and sequence numbers, and what the first lists for process `y` the second
lists for process `ρ y` -/
def RenSt (ρ : Nat → Nat) (P : Nat) (st st' : RankState) : Prop :=
  st'.idx = st.idx ∧ st'.idxSeq = st.idxSeq ∧ st'.remSeq = st.remSeq ∧
  (∀ y, y < P → listOf st'.remote (ρ y) = listOf st.remote y) ∧
  (∀ y, y < P → isNeighbour st'.remote (ρ y) = isNeighbour st.remote y)

instance (ρ : Nat → Nat) (P : Nat) (st st' : RankState) : Decidable (RenSt ρ P st st') := by
  unfold RenSt; exact inferInstance

/-- `w'` is the world `w` with process `p` called `ρ p` -/
def Renumbered (ρ : Nat → Nat) (w w' : World) : Prop :=
  w'.length = w.length ∧ ∀ (p : Nat) (st : RankState), w[p]? = some st → ∃ st', w'[ρ p]? = some st' ∧ RenSt ρ w.length st st'

/-- `ρ` permutes `0 … P-1`, with inverse `ρi` -/
def PermOn (P : Nat) (ρ ρi : Nat → Nat) : Prop :=
  (∀ p, p < P → ρ p < P ∧ ρi (ρ p) = p) ∧ (∀ y, y < P → ρi y < P ∧ ρ (ρi y) = y)

theorem Renumbered.state {ρ ρi : Nat → Nat} {w w' : World} (hR : Renumbered ρ w w') (hP : PermOn w.length ρ ρi)
    (p' : Nat) (sp' : RankState) (h : w'[p']? = some sp') :
    ∃ sp, w[ρi p']? = some sp ∧ ρ (ρi p') = p' ∧ RenSt ρ w.length sp sp' := by
  have hp' : p' < w.length := hR.1 ▸ (List.getElem?_eq_some_iff.1 h).1
  obtain ⟨hlt, hinv⟩ := hP.2 p' hp'
  have hsp : w[ρi p']? = some w[ρi p'] := List.getElem?_eq_getElem hlt
  obtain ⟨st', hst', hren⟩ := hR.2 _ _ hsp
  rw [hinv, h] at hst'
  simp only [Option.some.injEq] at hst'
  subst hst'
  exact ⟨_, hsp, hinv, hren⟩

theorem belief_renumbered {ρ ρi : Nat → Nat} {w w' : World} (hR : Renumbered ρ w w') (hP : PermOn w.length ρ ρi)
    (q : Nat) (hq : q < w.length) (g : Int) (a : Nat) : Belief w' (ρ q) g a ↔ Belief w q g a := by
  constructor
  · rintro ⟨p', sp', en, h1, h2, h3, h4⟩
    obtain ⟨sp, hsp, _, hren⟩ := hR.state hP p' sp' h1
    exact ⟨_, sp, en, hsp, by rw [← hren.2.2.2.1 q hq]; exact h2, h3, h4⟩
  · rintro ⟨p, sp, en, h1, h2, h3, h4⟩
    obtain ⟨sp', hsp', hren⟩ := hR.2 p sp h1
    exact ⟨_, sp', en, hsp', by rw [hren.2.2.2.1 q hq]; exact h2, h3, h4⟩

theorem beliefRem_renumbered {ρ ρi : Nat → Nat} {w w' : World} (hR : Renumbered ρ w w') (hP : PermOn w.length ρ ρi)
    (q x : Nat) (hq : q < w.length) (hx : x < w.length) (en : RemEntry) :
    BeliefRem w' (ρ q) (ρ x) en ↔ BeliefRem w q x en := by
  have inj : ∀ a b, a < w.length → b < w.length → ρ a = ρ b → a = b := by
    intro a b ha hb h
    rw [← (hP.1 a ha).2, ← (hP.1 b hb).2, h]
  constructor
  · rintro ⟨p', sp', enq, h1, h2, h3, h4, h5⟩
    obtain ⟨sp, hsp, hinv, hren⟩ := hR.state hP p' sp' h1
    have hp : ρi p' < w.length := (List.getElem?_eq_some_iff.1 hsp).1
    refine ⟨_, sp, enq, hsp, by rw [← hren.2.2.2.1 q hq]; exact h2, h3, h4, ?_⟩
    rcases h5 with ⟨h6, h7⟩ | ⟨h6, er, h7, h8, h9⟩
    · left
      refine ⟨inj _ _ hx hp (by rw [hinv]; exact h6), h7⟩
    · right
      refine ⟨fun hc => h6 (by rw [hc]), er, by rw [← hren.2.2.2.1 x hx]; exact h7, h8, h9⟩
  · rintro ⟨p, sp, enq, h1, h2, h3, h4, h5⟩
    obtain ⟨sp', hsp', hren⟩ := hR.2 p sp h1
    refine ⟨_, sp', enq, hsp', by rw [hren.2.2.2.1 q hq]; exact h2, h3, h4, ?_⟩
    rcases h5 with ⟨h6, h7⟩ | ⟨h6, er, h7, h8, h9⟩
    · left; exact ⟨by rw [h6], h7⟩
    · right
      refine ⟨fun hc => h6 (inj _ _ hx hq hc), er, by rw [hren.2.2.2.1 x hx]; exact h7, h8, h9⟩

/-- the sync commutes with renumbering the processes -/
theorem renumbered_sync {D D' : Decomp} (num : Int → Nat) (ρ ρi : Nat → Nat) (w w' : World)
    (hw : PartialView D w) (hw' : PartialView D' w') (hP : PermOn w.length ρ ρi) (hR : Renumbered ρ w w') :
    Renumbered ρ (sync num w) (sync num w') := by
  have hlen : (sync num w).length = w.length := by simp [sync]
  have hlen' : (sync num w').length = w'.length := by simp [sync]
  refine ⟨by rw [hlen, hlen', hR.1], ?_⟩
  intro q tq htq
  rw [hlen]
  have htq0 := htq
  rw [sync_getElem?] at htq
  simp only [Option.map_eq_some_iff] at htq
  obtain ⟨sq, hsq, _⟩ := htq
  have hq : q < w.length := (List.getElem?_eq_some_iff.1 hsq).1
  obtain ⟨sq', hsq', hren⟩ := hR.2 q sq hsq
  have htq' : (sync num w')[ρ q]? = some (syncRank num w' (ρ q) sq') := by rw [sync_getElem?, hsq']; rfl
  refine ⟨_, htq', ?_⟩
  have S := syncSpec_rank num hw q sq tq hsq htq0
  have S' := syncSpec_rank num hw' (ρ q) sq' _ hsq' htq'
  obtain ⟨ri, rs1, rs2, rl, rn⟩ := hren
  refine ⟨?_, ?_, ?_, ?_, ?_⟩
  · apply pairwise_ext (fun a b : IdxEntry => a.g < b.g) (fun a => Int.lt_irrefl _) (fun a b h => Int.lt_asymm h)
      _ _ S'.idxSorted S.idxSorted
    intro e
    rw [S'.idx, S.idx, ri, belief_renumbered hR hP q hq]
  · rw [S'.idxSeq, S.idxSeq, rs1]
  · rw [S'.remSeq, S.remSeq, rs1]
  · intro y hy
    apply pairwise_ext (fun a b : RemEntry => a.g < b.g) (fun a => Int.lt_irrefl _) (fun a b h => Int.lt_asymm h)
      _ _ (S'.remSorted _) (S.remSorted _)
    intro en
    rw [S'.rem, S.rem, rl y hy, beliefRem_renumbered hR hP q y hq hy]
  · intro y hy
    rw [Bool.eq_iff_iff, S'.nb, S.nb, rn y hy]
    constructor
    · rintro (h | ⟨en, h⟩)
      · exact Or.inl h
      · exact Or.inr ⟨en, (beliefRem_renumbered hR hP q y hq hy en).1 h⟩
    · rintro (h | ⟨en, h⟩)
      · exact Or.inl h
      · exact Or.inr ⟨en, (beliefRem_renumbered hR hP q y hq hy en).2 h⟩

end DV.C13
