import DuneVerif.Proofs.C05Iface
import DuneVerif.Proofs.C05Layout
/-!
C05 helper lemmas, part 3: one `sendRecv` of `BufferedCommunicator` over arbitrary interface maps that mirror each
other in length (`Net.Good`): the scatter calls on a process are, neighbour by neighbour in completion order, the
gathered values of the neighbour's send list zipped with the own receive list (`roundCallsAt_eq`).  Backward =
forward on the swapped communicators.  Core Lean only.
-/
namespace DV.C05

/-! ### small list facts -/

theorem zip_take_left {α β} (l : List α) (r : List β) : l.zip r = (l.take r.length).zip r := by
  induction l generalizing r with
  | nil => simp
  | cons a as ih =>
    cases r with
    | nil => simp
    | cons b bs => simp [List.zip_cons_cons, ih bs]

theorem flatMap_congr_mem {α β} {l : List α} {f g : α → List β} (h : ∀ x ∈ l, f x = g x) :
    l.flatMap f = l.flatMap g := by
  induction l with
  | nil => rfl
  | cons a as ih =>
    rw [List.flatMap_cons, List.flatMap_cons, h a (by simp), ih (fun x hx => h x (List.mem_cons_of_mem _ hx))]

theorem slots_empty (cs : Nat → Nat) : slots cs Info.empty = [] := rfl

/-! ### the net of communicators -/

/-- the interface maps and payload geometry of all processes -/
structure Net where
  P : Nat
  ifs : Nat → IfMap
  sz : Nat
  csS : Nat → Nat → Nat
  csT : Nat → Nat → Nat

/-- the `BufferedCommunicator` of process `p` -/
def Net.comm (n : Net) (p : Nat) : Comm := buildComm n.sz (n.csS p) (n.csT p) (n.ifs p)

/-- buffer slots `p` sends to `q` / `q` fills from `p`'s message, in a forward communication -/
def Net.sendSlots (n : Net) (p q : Nat) : List (Nat × Nat) := slots (n.csS p) ((n.ifs p).get q).1
def Net.recvSlots (n : Net) (q p : Nat) : List (Nat × Nat) := slots (n.csT q) ((n.ifs q).get p).2

/-- what `q` does with the message of `p`: the gathered values meet the receive slots in order -/
def Net.pairCalls {Val} (n : Net) (gat : Nat → Nat → Nat → Val) (p q : Nat) : List (Val × Nat × Nat) :=
  ((n.sendSlots p q).map fun s => gat p s.1 s.2).zip (n.recvSlots q p)

structure Net.Good (n : Net) : Prop where
  keys : ∀ p, Keys (n.ifs p)
  bound : ∀ p, ∀ e ∈ n.ifs p, e.1 < n.P
  sz : 0 < n.sz
  mirror : ∀ p q, p < n.P → q < n.P → (n.sendSlots p q).length = (n.recvSlots q p).length

theorem get_of_find_none {m : IfMap} {q : Nat} (h : m.find? (fun e => e.1 == q) = none) :
    m.get q = (Info.empty, Info.empty) := by simp [IfMap.get, h]

theorem get_of_find_some {m : IfMap} {q : Nat} {e} (h : m.find? (fun e => e.1 == q) = some e) :
    m.get q = e.2 := by simp [IfMap.get, h]

/-- `messageInformation_.find(q)` of a built communicator -/
theorem Net.msg_eq (n : Net) (hk : ∀ p, Keys (n.ifs p)) (p q : Nat) :
    (n.comm p).msg q =
      ((n.ifs p).find? (fun e => e.1 == q)).bind fun e =>
        if sizeCalc (n.csS p) e.2.1 + sizeCalc (n.csT p) e.2.2 > 0 then
          some ((⟨pre (fun e => sizeCalc (n.csS p) e.2.1) (n.ifs p) q, sizeCalc (n.csS p) e.2.1 * n.sz⟩ : MsgInfo),
                (⟨pre (fun e => sizeCalc (n.csT p) e.2.2) (n.ifs p) q, sizeCalc (n.csT p) e.2.2 * n.sz⟩ : MsgInfo))
        else none := by
  simp only [Comm.msg, Net.comm, buildComm]
  rw [layout_find n.sz (n.csS p) (n.csT p) (n.ifs p) (hk p) 0 0 q]
  cases (n.ifs p).find? (fun e => e.1 == q) with
  | none => rfl
  | some e =>
    simp only [Option.bind_some, Nat.zero_add]
    split <;> rfl

/-- the message `p` sends to `q` in a forward communication: the gathered values of its send slots for `q` -/
theorem Net.msgTo_eq {Val} (n : Net) (hg : n.Good) (gat : Nat → Nat → Val) (p q : Nat) :
    (n.comm p).msgTo true ((n.comm p).sendBuf true gat) q = (n.sendSlots p q).map fun s => gat s.1 s.2 := by
  simp only [Comm.msgTo, n.msg_eq hg.keys, Net.sendSlots]
  cases hf : (n.ifs p).find? (fun e => e.1 == q) with
  | none => simp [get_of_find_none hf, slots_empty]
  | some e =>
    rw [get_of_find_some hf]
    simp only [Option.bind_some]
    by_cases hc : sizeCalc (n.csS p) e.2.1 + sizeCalc (n.csT p) e.2.2 > 0
    · have hdiv : sizeCalc (n.csS p) e.2.1 * n.sz / n.sz = sizeCalc (n.csS p) e.2.1 := Nat.mul_div_cancel _ hg.sz
      simp only [hc, if_true, sliceOf, sendMsgInfo]
      have := gatherBuf_slice gat (n.csS p) true (n.ifs p) hf
      simpa only [sendSide, if_true, Comm.sendBuf, Comm.csSend, Net.comm, buildComm, hdiv] using this
    · simp only [hc, if_false]
      have h0 : (slots (n.csS p) e.2.1).length = 0 := by rw [slots_length]; omega
      rw [List.eq_nil_of_length_eq_zero h0]; rfl

theorem Net.msgTo_length {Val} (n : Net) (hg : n.Good) (gat : Nat → Nat → Val) {p q : Nat} (hp : p < n.P) (hq : q < n.P) :
    ((n.comm p).msgTo true ((n.comm p).sendBuf true gat) q).length = (n.recvSlots q p).length := by
  rw [n.msgTo_eq hg, List.length_map, hg.mirror p q hp hq]

theorem recvBufAfter_eq_writes {Val} (c : Comm) (fwd : Bool) (inc : Nat → List Val) :
    ∀ (arr : List Nat) (init : List Val), c.recvBufAfter fwd inc init arr =
      writes init (arr.filterMap fun p => (c.msg p).map fun m => ((recvMsgInfo fwd m).start, inc p))
  | [], _ => rfl
  | a :: as, init => by
    simp only [Comm.recvBufAfter, List.foldl_cons, List.filterMap_cons]
    have ih := recvBufAfter_eq_writes c fwd inc as
    simp only [Comm.recvBufAfter] at ih
    cases hm : c.msg a with
    | none => simp only [Option.map_none]; exact ih init
    | some m => simp only [Option.map_some, writes, List.foldl_cons]; exact ih _

/-- the receive slots of `q` for `p` have as many elements as the entry of `p` in `q`'s map says -/
theorem Net.recvSlots_length_of_find (n : Net) {q p : Nat} {e} (hf : (n.ifs q).find? (fun e => e.1 == p) = some e) :
    (n.recvSlots q p).length = sizeCalc (n.csT q) e.2.2 := by
  rw [Net.recvSlots, get_of_find_some hf, slots_length]

/-- the calls made for the completed receive from `p` -/
theorem Net.round_term {Val} (n : Net) (hg : n.Good) (gat : Nat → Nat → Nat → Val) (init : List Val) {q : Nat} (hq : q < n.P)
    (hinit : (n.comm q).recvElems true ≤ init.length)
    (arr : List Nat) (hnd : arr.Nodup) (harr : ∀ p ∈ arr, p < n.P) {p : Nat} (hp : p ∈ arr) :
    (match (n.comm q).msg p with
      | some m => scatterCalls ((n.comm q).csRecv true) (recvSide true ((n.comm q).ifs.get p))
          (((n.comm q).recvBufAfter true (fun p => (n.comm p).msgTo true ((n.comm p).sendBuf true (gat p)) q)
              init arr).drop (recvMsgInfo true m).start)
      | none => []) = n.pairCalls gat p q := by
  have hinc : ∀ a, (n.comm a).msgTo true ((n.comm a).sendBuf true (gat a)) q =
      (n.sendSlots a q).map fun s => gat a s.1 s.2 := fun a => n.msgTo_eq hg (gat a) a q
  simp only [Net.pairCalls]
  rw [n.msg_eq hg.keys]
  cases hf : (n.ifs q).find? (fun e => e.1 == p) with
  | none =>
    simp only [Option.bind_none, Net.recvSlots, get_of_find_none hf, slots_empty, List.zip_nil_right]
  | some e =>
    simp only [Option.bind_some]
    have hlen := n.recvSlots_length_of_find hf
    by_cases hc : sizeCalc (n.csS q) e.2.1 + sizeCalc (n.csT q) e.2.2 > 0
    · simp only [hc, if_true, recvMsgInfo, scatterCalls]
      have hside : slots ((n.comm q).csRecv true) (recvSide true ((n.comm q).ifs.get p)) = n.recvSlots q p := by
        simp only [Comm.csRecv, recvSide, if_true, Net.comm, buildComm, Net.recvSlots]
      rw [hside, zip_take_left]
      congr 1
      -- the region of `p` holds the message of `p`
      rw [recvBufAfter_eq_writes]
      generalize hws' : (arr.filterMap fun a => ((n.comm q).msg a).map fun m =>
        ((recvMsgInfo true m).start, (n.comm a).msgTo true ((n.comm a).sendBuf true (gat a)) q)) = ws
      have hws := hws'.symm
      have hmsgp : (n.comm q).msg p = some
          ((⟨pre (fun e => sizeCalc (n.csS q) e.2.1) (n.ifs q) p, sizeCalc (n.csS q) e.2.1 * n.sz⟩ : MsgInfo),
           (⟨pre (fun e => sizeCalc (n.csT q) e.2.2) (n.ifs q) p, sizeCalc (n.csT q) e.2.2 * n.sz⟩ : MsgInfo)) := by
        rw [n.msg_eq hg.keys, hf]; simp [hc]
      have hmem : (pre (fun e => sizeCalc (n.csT q) e.2.2) (n.ifs q) p,
          (n.comm p).msgTo true ((n.comm p).sendBuf true (gat p)) q) ∈ ws := by
        rw [hws, List.mem_filterMap]
        exact ⟨p, hp, by rw [hmsgp]; rfl⟩
      -- facts about every write
      have hw : ∀ a ∈ arr, ∀ m, (n.comm q).msg a = some m → ∃ ea, (n.ifs q).find? (fun e => e.1 == a) = some ea ∧
          (recvMsgInfo true m).start = pre (fun e => sizeCalc (n.csT q) e.2.2) (n.ifs q) a ∧
          ((n.comm a).msgTo true ((n.comm a).sendBuf true (gat a)) q).length = sizeCalc (n.csT q) ea.2.2 := by
        intro a ha m hm
        rw [n.msg_eq hg.keys] at hm
        cases hfa : (n.ifs q).find? (fun e => e.1 == a) with
        | none => simp [hfa] at hm
        | some ea =>
          refine ⟨ea, rfl, ?_, ?_⟩
          · simp only [hfa, Option.bind_some] at hm
            split at hm
            · cases hm; rfl
            · cases hm
          · rw [n.msgTo_length hg (gat a) (harr a ha) hq, n.recvSlots_length_of_find hfa]
      have hdisj : ws.Pairwise Disjoint := by
        rw [hws]
        apply List.Pairwise.filterMap _ _ (List.nodup_iff_pairwise_ne.mp hnd |> List.Pairwise.and_mem.mp)
        intro a b hab x hx y hy
        obtain ⟨ha, hb, hne⟩ := hab
        simp only [Option.map_eq_some_iff] at hx hy
        obtain ⟨ma, hma, rfl⟩ := hx
        obtain ⟨mb, hmb, rfl⟩ := hy
        obtain ⟨ea, hfa, hsa, hla⟩ := hw a ha ma hma
        obtain ⟨eb, hfb, hsb, hlb⟩ := hw b hb mb hmb
        simp only [Disjoint, hsa, hsb, hla, hlb]
        rcases Nat.lt_or_gt_of_ne hne with h | h
        · left; exact pre_mono _ (n.ifs q) (hg.keys q) h hfa ⟨eb, hfb⟩
        · right; exact pre_mono _ (n.ifs q) (hg.keys q) h hfb ⟨ea, hfa⟩
      have hin : ∀ w ∈ ws, w.1 + w.2.length ≤ init.length := by
        intro w hw'
        rw [hws, List.mem_filterMap] at hw'
        obtain ⟨a, ha, hwa⟩ := hw'
        simp only [Option.map_eq_some_iff] at hwa
        obtain ⟨ma, hma, rfl⟩ := hwa
        obtain ⟨ea, hfa, hsa, hla⟩ := hw a ha ma hma
        simp only [hsa, hla]
        have := pre_le_total (fun e => sizeCalc (n.csT q) e.2.2) (n.ifs q) hfa
        have h2 : pre (fun e => sizeCalc (n.csT q) e.2.2) (n.ifs q) a + sizeCalc (n.csT q) ea.2.2 ≤
            (n.comm q).recvElems true := by
          simpa only [Comm.recvElems, Comm.sendElems, Net.comm, buildComm, Bool.not_true, Bool.false_eq_true, if_false]
            using this
        omega
      have := read_writes ws _ hdisj hin _ hmem
      simp only at this
      rw [n.msgTo_length hg (gat p) (harr p hp) hq] at this
      rw [this, hinc]
    · have h0 : (n.recvSlots q p).length = 0 := by rw [hlen]; omega
      simp only [hc, if_false, List.eq_nil_of_length_eq_zero h0, List.zip_nil_right]

/-- one forward `sendRecv` seen from `q`: neighbour by neighbour, in completion order, the values the neighbour
    gathered for `q` go to the own receive slots for that neighbour -/
theorem Net.roundCallsFrom_eq {Val} (n : Net) (hg : n.Good) (gat : Nat → Nat → Nat → Val) (init : List Val) {q : Nat}
    (hq : q < n.P) (hinit : (n.comm q).recvElems true ≤ init.length)
    (arr order : List Nat) (hnd : arr.Nodup) (harr : ∀ p ∈ arr, p < n.P) (hsub : ∀ p ∈ order, p ∈ arr) :
    roundCallsFrom n.comm true gat init q arr order = order.flatMap fun p => n.pairCalls gat p q := by
  simp only [roundCallsFrom, Comm.roundCalls]
  apply flatMap_congr_mem
  intro p hp
  exact n.round_term hg gat init hq hinit arr hnd harr (hsub p hp)

theorem Net.roundCallsAt_eq {Val} (n : Net) (hg : n.Good) (gat : Nat → Nat → Nat → Val) (junk : Val) {q : Nat} (hq : q < n.P)
    (arr order : List Nat) (hnd : arr.Nodup) (harr : ∀ p ∈ arr, p < n.P) (hsub : ∀ p ∈ order, p ∈ arr) :
    roundCallsAt n.comm true gat junk q arr order = order.flatMap fun p => n.pairCalls gat p q :=
  n.roundCallsFrom_eq hg gat _ hq (by simp) arr order hnd harr hsub

/-! ### backward = forward on the swapped communicators -/

def swapIf (m : IfMap) : IfMap := m.map fun e => (e.1, e.2.2, e.2.1)

def Comm.swap (c : Comm) : Comm :=
  { ifs := swapIf c.ifs, msgs := c.msgs.map (fun e => (e.1, e.2.2, e.2.1)), sz := c.sz, csS := c.csT, csT := c.csS }

theorem layout_swap (sz : Nat) (csS csT : Nat → Nat) : ∀ (ifs : IfMap) (s0 s1 : Nat),
    layout sz csT csS (swapIf ifs) s1 s0 = (layout sz csS csT ifs s0 s1).map fun e => (e.1, e.2.2, e.2.1)
  | [], _, _ => rfl
  | e :: es, s0, s1 => by
    simp only [swapIf, List.map_cons, layout, List.map_append]
    have ih := layout_swap sz csS csT es (s0 + sizeCalc csS e.2.1) (s1 + sizeCalc csT e.2.2)
    simp only [swapIf] at ih
    rw [ih, Nat.add_comm (sizeCalc csT e.2.2) (sizeCalc csS e.2.1)]
    split <;> rfl

theorem buildComm_swap (sz : Nat) (csS csT : Nat → Nat) (ifs : IfMap) :
    (buildComm sz csS csT ifs).swap = buildComm sz csT csS (swapIf ifs) := by
  simp only [buildComm, Comm.swap, layout_swap sz csS csT ifs 0 0]

theorem swapIf_get (m : IfMap) (q : Nat) : (swapIf m).get q = ((m.get q).2, (m.get q).1) := by
  simp only [IfMap.get, swapIf, List.find?_map]
  have : ((fun e : Nat × Info × Info => e.1 == q) ∘ fun e : Nat × Info × Info => (e.1, e.2.2, e.2.1)) =
      fun e => e.1 == q := rfl
  rw [this]
  cases m.find? (fun e => e.1 == q) <;> rfl

theorem Comm.swap_msg (c : Comm) (q : Nat) : c.swap.msg q = (c.msg q).map fun m => (m.2, m.1) := by
  simp only [Comm.msg, Comm.swap, List.find?_map]
  have : ((fun e : Nat × MsgInfo × MsgInfo => e.1 == q) ∘ fun e : Nat × MsgInfo × MsgInfo => (e.1, e.2.2, e.2.1)) =
      fun e => e.1 == q := rfl
  rw [this]
  cases c.msgs.find? (fun e => e.1 == q) <;> rfl

theorem Comm.swap_sendBuf {Val} (c : Comm) (gat : Nat → Nat → Val) : c.swap.sendBuf true gat = c.sendBuf false gat := by
  simp only [Comm.sendBuf, Comm.csSend, Comm.swap, gatherBuf, swapIf, List.flatMap_map, sendSide, if_true,
    Bool.false_eq_true, if_false]

theorem Comm.swap_msgTo {Val} (c : Comm) (buf : List Val) (q : Nat) : c.swap.msgTo true buf q = c.msgTo false buf q := by
  simp only [Comm.msgTo, Comm.swap_msg]
  cases c.msg q <;> simp [sendMsgInfo, Comm.swap]

theorem Comm.swap_recvElems (c : Comm) : c.swap.recvElems true = c.recvElems false := by
  simp only [Comm.recvElems, Comm.sendElems, Comm.swap, swapIf, List.map_map, Bool.not_true, Bool.not_false,
    Bool.false_eq_true, if_false, if_true]
  rfl

theorem Comm.swap_recvBufAfter {Val} (c : Comm) (inc : Nat → List Val) (init : List Val) (arr : List Nat) :
    c.swap.recvBufAfter true inc init arr = c.recvBufAfter false inc init arr := by
  simp only [Comm.recvBufAfter]
  congr 1
  funext buf p
  rw [Comm.swap_msg]
  cases c.msg p <;> simp [recvMsgInfo]

theorem Comm.swap_roundCalls {Val} (c : Comm) (buf : List Val) (order : List Nat) :
    c.swap.roundCalls true buf order = c.roundCalls false buf order := by
  simp only [Comm.roundCalls]
  congr 1
  funext p
  rw [Comm.swap_msg]
  cases c.msg p with
  | none => rfl
  | some m =>
    simp only [Option.map_some, recvMsgInfo, Comm.csRecv, recvSide, if_true, Bool.false_eq_true, if_false]
    simp only [Comm.swap, swapIf_get]

/-- a backward communication is a forward communication of the communicators with the two sides exchanged -/
theorem roundCallsFrom_swap {Val} (comm : Nat → Comm) (gat : Nat → Nat → Nat → Val) (init : List Val) (q : Nat)
    (arr order : List Nat) :
    roundCallsFrom comm false gat init q arr order = roundCallsFrom (fun p => (comm p).swap) true gat init q arr order := by
  simp only [roundCallsFrom, Comm.swap_roundCalls, Comm.swap_recvBufAfter, Comm.swap_msgTo, Comm.swap_sendBuf]

theorem roundCallsAt_swap {Val} (comm : Nat → Comm) (gat : Nat → Nat → Nat → Val) (junk : Val) (q : Nat) (arr order : List Nat) :
    roundCallsAt comm false gat junk q arr order = roundCallsAt (fun p => (comm p).swap) true gat junk q arr order := by
  simp only [roundCallsAt, roundCallsFrom_swap, Comm.swap_recvElems]

end DV.C05
