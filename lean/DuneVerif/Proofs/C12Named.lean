/-
C12, round two: readNamedOptions for ALL argument vectors.

`namedSpec` is the documentation read literally, with a *set* of keywords that already have a value: a named
parameter `--k=v` is stored under `k` (and `k` counts as given when it is a keyword), a positional argument goes
to the first keyword of the list that is not given yet, `-h` or `--help` asks for help, `--k` without `=` is an error,
and at the end the first `required` keywords must all be given.  The code (and the model `namedLoop`) keeps a
`vector<bool> done` and a cursor `current` that only moves forward instead.  `readNamedOptions_eq_spec` proves the
two agree for every argument vector, every keyword list without repetitions, every tree and all flags.
-/
import DuneVerif.Proofs.C12Opt

namespace DV.C12

/-- what one command-line argument is -/
inductive Arg where
  | help
  | bad                       -- `--name` without `=`
  | named (key value : Str)   -- `--key=value`
  | pos (a : Str)
  deriving Repr, DecidableEq

/-- the text behind a leading `--` -/
def ddBody : Str → Option Str
  | '-' :: '-' :: body => some body
  | _ => none

theorem ddBody_some {a body : Str} (h : ddBody a = some body) : a = '-' :: '-' :: body := by
  unfold ddBody at h
  split at h
  · injection h with h; subst h; rfl
  · cases h

theorem ddBody_none {a : Str} (h : ddBody a = none) (r : Str) : a ≠ '-' :: '-' :: r := by
  intro e
  subst e
  simp [ddBody] at h

def classify (a : Str) : Arg :=
  if a == "-h".toList || a == "--help".toList then .help
  else match ddBody a with
    | some body =>
      match splitFirst '=' body with
      | none => .bad
      | some (k, v) => .named k v
    | none => .pos a

/-- first keyword of the list that has no value yet -/
def firstFree (kws given : List Str) : Option Str := kws.find? (fun k => !given.contains k)

def specLoop (kws : List Str) (am ow : Bool) : List Str → Tree → List Str → Except Err (Tree × List Str)
  | [], t, g => .ok (t, g)
  | a :: rest, t, g =>
    match classify a with
    | .help => .error .help
    | .bad => .error .parser
    | .named k v =>
      if !am && !kws.contains k then .error .parser                 -- unknown parameter
      else match storeOpt ow t k v with
        | .error e => .error e
        | .ok t' => specLoop kws am ow rest t' (if kws.contains k then k :: g else g)
    | .pos x =>
      match firstFree kws g with
      | none => .error .parser                                        -- superfluous unnamed parameter
      | some kw => match storeOpt ow t kw x with
        | .error e => .error e
        | .ok t' => specLoop kws am ow rest t' (kw :: g)

def namedSpec (args : List Str) (t : Tree) (kws : List Str) (required : Nat) (am ow : Bool) : Except Err Tree :=
  match specLoop kws am ow args t [] with
  | .error e => .error e
  | .ok (t', given) =>
    -- missing parameter(s): one of the first `required` keywords has no value
    if (List.range kws.length).any (fun i => i < required && !given.contains (kws.getD i [])) then .error .parser
    else .ok t'

/-! ### one step of the model loop, by the class of the argument -/

theorem namedLoop_cons (kws : List Str) (am ow : Bool) (a : Str) (rest : List Str) (t : Tree) (done : List Bool) (cur : Nat) :
    namedLoop kws am ow (a :: rest) t done cur =
      match classify a with
      | .help => .error .help
      | .bad => .error .parser
      | .named k v => namedStep kws am ow k v rest t done cur
      | .pos x => posStep kws am ow x rest t done cur := by
  unfold classify
  by_cases hh : (a == "-h".toList || a == "--help".toList) = true
  · rw [if_pos hh]
    simp only [Bool.or_eq_true, beq_iff_eq] at hh
    rcases hh with rfl | rfl <;> simp [namedLoop]
  · rw [if_neg hh]
    cases hb : ddBody a with
    | some body =>
      have ha : a = '-' :: '-' :: body := ddBody_some hb
      subst ha
      have hne : body ≠ ['h', 'e', 'l', 'p'] := by
        intro e; subst e; exact hh (by decide)
      cases hs : splitFirst '=' body with
      | none => simp only [hs]; exact namedLoop_dd_none kws am ow body rest t done cur hne hs
      | some kv =>
        obtain ⟨k, v⟩ := kv
        simp only [hs]
        exact namedLoop_dd_some kws am ow body k v rest t done cur hs
    | none =>
      have hp : Positional a := by
        refine ⟨fun e => hh ?_, fun r => ddBody_none hb r⟩
        rw [e]; decide
      exact namedLoop_pos kws am ow a rest t done cur hp

/-! ### the invariant tying `done`/`current` to the set of given keywords -/

structure Inv (kws : List Str) (done : List Bool) (cur : Nat) (given : List Str) : Prop where
  len : done.length = kws.length
  agree : ∀ i, i < kws.length → done.getD i false = given.contains (kws.getD i [])
  below : ∀ i, i < cur → done.getD i false = true

theorem getD_false_of_ge (done : List Bool) (i : Nat) (h : done.length ≤ i) : done.getD i false = false := by
  rw [List.getD_eq_getElem?_getD, List.getElem?_eq_none h]; rfl

/-- what `skipDone` returns: the first index from `cur` on that is not done (`= done.length` if there is none) -/
theorem skipDone_spec (done : List Bool) : ∀ (f cur : Nat), done.length - cur ≤ f → cur ≤ done.length →
    cur ≤ skipDone f done cur ∧ skipDone f done cur ≤ done.length ∧
    (∀ j, cur ≤ j → j < skipDone f done cur → done.getD j false = true) ∧
    done.getD (skipDone f done cur) false = false
  | 0, cur, h1, h2 => by
    have : cur = done.length := by omega
    subst this
    simp only [skipDone]
    exact ⟨Nat.le_refl _, Nat.le_refl _, fun j h3 h4 => by omega, getD_false_of_ge done _ (Nat.le_refl _)⟩
  | f + 1, cur, h1, h2 => by
    by_cases hd : done.getD cur false = true
    · have hlt : cur < done.length := by
        apply Classical.byContradiction
        intro hn
        rw [getD_false_of_ge done cur (by omega)] at hd
        cases hd
      obtain ⟨a, b, c, d⟩ := skipDone_spec done f (cur + 1) (by omega) (by omega)
      have e : skipDone (f + 1) done cur = skipDone f done (cur + 1) := by simp only [skipDone, hd, ↓reduceIte]
      rw [e]
      refine ⟨by omega, b, fun j h3 h4 => ?_, d⟩
      by_cases hj : j = cur
      · subst hj; exact hd
      · exact c j (by omega) h4
    · have hd' : done.getD cur false = false := by simpa using hd
      have e : skipDone (f + 1) done cur = cur := by simp only [skipDone, hd', Bool.false_eq_true, ↓reduceIte]
      rw [e]
      exact ⟨Nat.le_refl _, h2, fun j h3 h4 => by omega, hd'⟩

theorem find?_first (p : Str → Bool) : ∀ (l : List Str) (r : Nat), r < l.length →
    (∀ j, j < r → p (l.getD j []) = false) → p (l.getD r []) = true → l.find? p = some (l.getD r [])
  | [], r, h, _, _ => by simp at h
  | x :: xs, 0, _, _, h2 => by
    have : p x = true := by simpa using h2
    simp [List.find?, this]
  | x :: xs, r + 1, h, h1, h2 => by
    have hx : p x = false := by simpa using h1 0 (by omega)
    have ih := find?_first p xs r (by simpa using h) (fun j hj => by simpa using h1 (j + 1) (by omega)) (by simpa using h2)
    simp only [List.find?, hx]
    simpa using ih

theorem find?_none_all (p : Str → Bool) : ∀ (l : List Str), (∀ j, j < l.length → p (l.getD j []) = false) → l.find? p = none
  | [], _ => rfl
  | x :: xs, h => by
    have hx : p x = false := by simpa using h 0 (by simp)
    have ih := find?_none_all p xs (fun j hj => by simpa using h (j + 1) (by simpa using hj))
    simp only [List.find?, hx]
    exact ih

theorem getD_set_bool (done : List Bool) (r i : Nat) (hr : r < done.length) :
    (done.set r true).getD i false = if i = r then true else done.getD i false := by
  rw [List.getD_eq_getElem?_getD, List.getElem?_set]
  by_cases h : r = i
  · subst h; simp [hr]
  · have h' : ¬ i = r := fun e => h e.symm
    simp [h, h', List.getD_eq_getElem?_getD]

theorem getD_inj_of_nodup : ∀ (kws : List Str), kws.Nodup → ∀ i j, i < kws.length → j < kws.length →
    kws.getD i [] = kws.getD j [] → i = j
  | [], _, i, _, h, _, _ => by simp at h
  | x :: xs, hn, i, j, hi, hj, he => by
    have hx : x ∉ xs := (List.nodup_cons.mp hn).1
    have hxs : xs.Nodup := (List.nodup_cons.mp hn).2
    match i, j with
    | 0, 0 => rfl
    | 0, j + 1 =>
      simp only [List.getD_cons_zero, List.getD_cons_succ] at he
      have hj' : j < xs.length := by simpa using hj
      have : xs.getD j [] ∈ xs := by
        rw [List.getD_eq_getElem?_getD, List.getElem?_eq_getElem hj']; simp
      exact absurd (he ▸ this) hx
    | i + 1, 0 =>
      simp only [List.getD_cons_zero, List.getD_cons_succ] at he
      have hi' : i < xs.length := by simpa using hi
      have : xs.getD i [] ∈ xs := by
        rw [List.getD_eq_getElem?_getD, List.getElem?_eq_getElem hi']; simp
      exact absurd (he ▸ this) hx
    | i + 1, j + 1 =>
      simp only [List.getD_cons_succ] at he
      have := getD_inj_of_nodup xs hxs i j (by simpa using hi) (by simpa using hj) he
      omega

/-- the positional step: cursor search = first keyword not given; the invariant is kept -/
theorem inv_pos {kws : List Str} (hn : kws.Nodup) {done : List Bool} {cur : Nat} {given : List Str}
    (inv : Inv kws done cur given) :
    (skipDone done.length done cur ≥ done.length → firstFree kws given = none) ∧
    (skipDone done.length done cur < done.length →
      firstFree kws given = some (kws.getD (skipDone done.length done cur) []) ∧
      Inv kws (done.set (skipDone done.length done cur) true) (skipDone done.length done cur)
        (kws.getD (skipDone done.length done cur) [] :: given)) := by
  have hcur : cur ≤ done.length := by
    apply Classical.byContradiction
    intro hc
    have := inv.below done.length (by omega)
    rw [getD_false_of_ge done _ (Nat.le_refl _)] at this
    cases this
  obtain ⟨h1, h2, h3, h4⟩ := skipDone_spec done done.length cur (by omega) hcur
  generalize skipDone done.length done cur = r at h1 h2 h3 h4 ⊢
  have hall : ∀ j, j < r → done.getD j false = true := by
    intro j hj
    by_cases hjc : j < cur
    · exact inv.below j hjc
    · exact h3 j (by omega) hj
  constructor
  · intro hge
    unfold firstFree
    apply find?_none_all
    intro j hj
    have hjr : j < r := by rw [← inv.len] at hj; omega
    have := hall j hjr
    rw [inv.agree j hj] at this
    simpa using this
  · intro hlt
    have hlt' : r < kws.length := by rw [← inv.len]; exact hlt
    refine ⟨?_, ?_⟩
    · unfold firstFree
      apply find?_first _ kws r hlt'
      · intro j hj
        have := hall j hj
        rw [inv.agree j (by omega)] at this
        simpa using this
      · have := h4
        rw [inv.agree r hlt'] at this
        simpa using this
    · refine ⟨by simp [inv.len], fun i hi => ?_, fun i hi => ?_⟩
      · rw [getD_set_bool done r i hlt]
        by_cases hir : i = r
        · subst hir; simp
        · have hne : kws.getD i [] ≠ kws.getD r [] := fun e => hir (getD_inj_of_nodup kws hn i r hi hlt' e)
          have hb : (kws.getD i [] == kws.getD r []) = false := beq_eq_false_iff_ne.mpr hne
          simp only [hir, if_false, List.contains_cons]
          rw [inv.agree i hi, hb, Bool.false_or]
      · rw [getD_set_bool done r i hlt]
        have : ¬ i = r := by omega
        simp only [this, if_false]
        exact hall i hi

theorem findIdx?_getD (k : Str) : ∀ (l : List Str) (i : Nat), findIdx? k l = some i → i < l.length ∧ l.getD i [] = k
  | [], i, h => by simp [findIdx?] at h
  | x :: xs, i, h => by
    by_cases hx : x = k
    · simp [findIdx?, hx] at h
      subst h
      simp [hx]
    · simp only [findIdx?, beq_iff_eq, hx, if_false, Option.map_eq_some_iff] at h
      obtain ⟨j, hj, rfl⟩ := h
      obtain ⟨h1, h2⟩ := findIdx?_getD k xs j hj
      exact ⟨by simp; omega, by simpa using h2⟩

theorem findIdx?_isNone_iff (k : Str) (l : List Str) : (findIdx? k l).isNone = !l.contains k := by
  by_cases hm : k ∈ l
  · obtain ⟨i, hi, _⟩ := findIdx?_some_of_mem k l hm
    simp [hi, hm]
  · simp [findIdx?_none_of_not_mem k l hm, hm]

/-- the named step keeps the invariant -/
theorem inv_named {kws : List Str} (hn : kws.Nodup) {done : List Bool} {cur : Nat} {given : List Str}
    (inv : Inv kws done cur given) (key : Str) :
    Inv kws (markDone (findIdx? key kws) done) cur (if kws.contains key then key :: given else given) := by
  cases hf : findIdx? key kws with
  | none =>
    have hnm : key ∉ kws := by
      intro hm
      obtain ⟨i, hi, _⟩ := findIdx?_some_of_mem key kws hm
      rw [hf] at hi; cases hi
    have : kws.contains key = false := by simpa using hnm
    simp only [markDone, this, Bool.false_eq_true, if_false]
    exact inv
  | some r =>
    obtain ⟨hr, hk⟩ := findIdx?_getD key kws r hf
    have hc : kws.contains key = true := by
      rw [← hk]
      simp only [List.contains_iff_mem]
      rw [List.getD_eq_getElem?_getD, List.getElem?_eq_getElem hr]; simp
    have hrd : r < done.length := by rw [inv.len]; exact hr
    simp only [markDone, hc, if_true]
    refine ⟨by simp [inv.len], fun i hi => ?_, fun i hi => ?_⟩
    · rw [getD_set_bool done r i hrd]
      by_cases hir : i = r
      · subst hir
        simp only [if_true, List.contains_cons]
        rw [hk, beq_self_eq_true, Bool.true_or]
      · have hne : kws.getD i [] ≠ key := by
          rw [← hk]; exact fun e => hir (getD_inj_of_nodup kws hn i r hi hr e)
        have hb : (kws.getD i [] == key) = false := beq_eq_false_iff_ne.mpr hne
        simp only [hir, if_false, List.contains_cons]
        rw [inv.agree i hi, hb, Bool.false_or]
    · rw [getD_set_bool done r i hrd]
      by_cases hir : i = r
      · simp [hir]
      · simp only [hir, if_false]; exact inv.below i hi

/-- results of the two loops agree: same error, or same tree and `done` = membership in `given` -/
def LoopRel (kws : List Str) : Except Err (Tree × List Bool) → Except Err (Tree × List Str) → Prop
  | .error e1, .error e2 => e1 = e2
  | .ok (t1, d1), .ok (t2, g2) => t1 = t2 ∧ ∀ i, i < kws.length → d1.getD i false = g2.contains (kws.getD i [])
  | _, _ => False

theorem loops_agree {kws : List Str} (hn : kws.Nodup) (am ow : Bool) : ∀ (args : List Str) (t : Tree) (done : List Bool)
    (cur : Nat) (given : List Str), Inv kws done cur given →
    LoopRel kws (namedLoop kws am ow args t done cur) (specLoop kws am ow args t given)
  | [], t, done, cur, given, inv => by
    rw [namedLoop_nil]
    simp only [specLoop]
    exact ⟨rfl, inv.agree⟩
  | a :: rest, t, done, cur, given, inv => by
    rw [namedLoop_cons]
    simp only [specLoop]
    cases hc : classify a with
    | help => simp [LoopRel]
    | bad => simp [LoopRel]
    | named k v =>
      simp only
      unfold namedStep
      rw [findIdx?_isNone_iff]
      by_cases hu : (!am && !kws.contains k) = true
      · simp only [hu, ↓reduceIte, LoopRel]
      · have hu' : (!am && !kws.contains k) = false := Bool.eq_false_iff.mpr hu
        simp only [hu', Bool.false_eq_true, ↓reduceIte]
        cases hs : storeOpt ow t k v with
        | error e => simp only [LoopRel]
        | ok t' =>
          simp only
          exact loops_agree hn am ow rest t' _ cur _ (inv_named hn inv k)
    | pos x =>
      simp only
      unfold posStep
      have hp := inv_pos hn inv
      by_cases hge : skipDone done.length done cur ≥ done.length
      · rw [if_pos hge, hp.1 hge]
        simp only [LoopRel]
      · have hlt : skipDone done.length done cur < done.length := by omega
        obtain ⟨hff, inv'⟩ := hp.2 hlt
        rw [if_neg hge, hff]
        simp only
        cases hs : storeOpt ow t (kws.getD (skipDone done.length done cur) []) x with
        | error e => simp only [LoopRel]
        | ok t' =>
          simp only
          exact loops_agree hn am ow rest t' _ _ _ inv'

theorem inv_init (kws : List Str) : Inv kws (List.replicate kws.length false) 0 [] := by
  refine ⟨by simp, fun i hi => ?_, fun i hi => by omega⟩
  rw [List.getD_eq_getElem?_getD, List.getElem?_replicate]
  simp [hi]

theorem any_range_congr (n : Nat) (p q : Nat → Bool) (h : ∀ i, i < n → p i = q i) :
    (List.range n).any p = (List.range n).any q := by
  rw [Bool.eq_iff_iff]
  simp only [List.any_eq_true, List.mem_range]
  constructor
  · rintro ⟨i, hi, hp⟩; exact ⟨i, hi, by rw [← h i hi]; exact hp⟩
  · rintro ⟨i, hi, hq⟩; exact ⟨i, hi, by rw [h i hi]; exact hq⟩

/-- **readNamedOptions = the set-based reading of the documentation**, for every argument vector -/
theorem readNamedOptions_eq_spec (args : List Str) (t : Tree) (kws : List Str) (required : Nat) (am ow : Bool)
    (hn : kws.Nodup) : readNamedOptions args t kws required am ow = namedSpec args t kws required am ow := by
  have h := loops_agree hn am ow args t _ 0 [] (inv_init kws)
  unfold readNamedOptions namedSpec
  cases h1 : namedLoop kws am ow args t (List.replicate kws.length false) 0 with
  | error e1 =>
    cases h2 : specLoop kws am ow args t [] with
    | error e2 => rw [h1, h2] at h; simp only [LoopRel] at h; simp [h]
    | ok p2 => rw [h1, h2] at h; simp [LoopRel] at h
  | ok p1 =>
    obtain ⟨t1, d1⟩ := p1
    cases h2 : specLoop kws am ow args t [] with
    | error e2 => rw [h1, h2] at h; simp [LoopRel] at h
    | ok p2 =>
      obtain ⟨t2, g2⟩ := p2
      rw [h1, h2] at h
      simp only [LoopRel] at h
      obtain ⟨rfl, hag⟩ := h
      simp only
      have : (List.range kws.length).any (fun i => decide (i < required) && !(d1.getD i false)) =
          (List.range kws.length).any (fun i => decide (i < required) && !g2.contains (kws.getD i [])) := by
        apply any_range_congr
        intro i hi
        rw [hag i hi]
      rw [this]

end DV.C12
