import DuneVerif.Proofs.C13Match
/-! C13, level 7: the *shape* of a state (index set (global, attribute) pairs + remote index lists, i.e. everything
except local numbers and sequence numbers) determines the shape after a sync; numberer objects with internal state.
Core Lean only. -/
namespace DV.C13

def IdxEntry.key (e : IdxEntry) : Int × Nat := (e.g, e.attr)

/-- same (global, attribute) pairs in the index set, same remote index lists -/
def ShapeEq (a b : RankState) : Prop :=
  a.idx.map IdxEntry.key = b.idx.map IdxEntry.key ∧ a.remote = b.remote

/-- rank by rank the same shape -/
def Shape (w w' : World) : Prop :=
  w.length = w'.length ∧ ∀ (p : Nat) (a b : RankState), w[p]? = some a → w'[p]? = some b → ShapeEq a b

theorem ShapeEq.refl (a : RankState) : ShapeEq a a := ⟨rfl, rfl⟩
theorem ShapeEq.symm {a b : RankState} (h : ShapeEq a b) : ShapeEq b a := ⟨h.1.symm, h.2.symm⟩
theorem ShapeEq.trans {a b c : RankState} (h₁ : ShapeEq a b) (h₂ : ShapeEq b c) : ShapeEq a c :=
  ⟨h₁.1.trans h₂.1, h₁.2.trans h₂.2⟩

theorem Shape.refl (w : World) : Shape w w := by
  refine ⟨rfl, fun p a b ha hb => ?_⟩
  rw [ha] at hb
  simp only [Option.some.injEq] at hb
  subst hb
  exact ShapeEq.refl a

theorem Shape.symm {w w' : World} (h : Shape w w') : Shape w' w :=
  ⟨h.1.symm, fun p a b ha hb => (h.2 p b a hb ha).symm⟩

theorem Shape.trans {w₁ w₂ w₃ : World} (h₁ : Shape w₁ w₂) (h₂ : Shape w₂ w₃) : Shape w₁ w₃ := by
  refine ⟨h₁.1.trans h₂.1, fun p a c ha hc => ?_⟩
  have hp : p < w₂.length := by
    have := (List.getElem?_eq_some_iff.1 ha).1
    rw [h₁.1] at this
    exact this
  have hb : w₂[p]? = some w₂[p] := List.getElem?_eq_getElem hp
  exact (h₁.2 p a _ ha hb).trans (h₂.2 p _ c hb hc)

/-! ### everything the sync reads of the index set is its list of keys -/

theorem hasKey_keys (l : List IdxEntry) (g : Int) (a : Nat) :
    hasKey l g a = (l.map IdxEntry.key).any (fun k => k.1 == g && k.2 == a) := by
  simp [hasKey, List.any_map, Function.comp_def, IdxEntry.key]

theorem hasKey_of_keys {l l' : List IdxEntry} (h : l.map IdxEntry.key = l'.map IdxEntry.key) (g : Int) (a : Nat) :
    hasKey l g a = hasKey l' g a := by
  rw [hasKey_keys, hasKey_keys, h]

def insertKey (n : Int × Nat) : List (Int × Nat) → List (Int × Nat)
  | [] => [n]
  | k :: ks => if (decide (k.1 < n.1) || (k.1 == n.1 && decide (k.2 < n.2))) then k :: insertKey n ks else n :: k :: ks

theorem insertIdx_keys (n : IdxEntry) :
    ∀ l : List IdxEntry, (insertIdx n l).map IdxEntry.key = insertKey n.key (l.map IdxEntry.key)
  | [] => rfl
  | e :: es => by
    have ih := insertIdx_keys n es
    by_cases hc : idxLt e n = true
    · have hc' : (decide (e.key.1 < n.key.1) || (e.key.1 == n.key.1 && decide (e.key.2 < n.key.2))) = true := hc
      rw [insertIdx, if_pos hc, List.map_cons, List.map_cons, insertKey, if_pos hc', ih]
    · have hc' : ¬ (decide (e.key.1 < n.key.1) || (e.key.1 == n.key.1 && decide (e.key.2 < n.key.2))) = true := hc
      rw [insertIdx, if_neg hc, List.map_cons, List.map_cons, insertKey, if_neg hc']

theorem insertIdx_length (n : IdxEntry) : ∀ l : List IdxEntry, (insertIdx n l).length = l.length + 1
  | [] => rfl
  | e :: es => by
    simp only [insertIdx]
    split
    · simp [insertIdx_length n es]
    · simp

theorem itemsFor_keys (st : RankState) (q : Nat) :
    itemsFor st q = (st.idx.map IdxEntry.key).filterMap fun k =>
      if (holders st.remote k.1).any (fun h => h.1 == q) then some ⟨k.1, k.2, holders st.remote k.1⟩ else none := by
  rw [List.filterMap_map]
  rfl

theorem itemsFor_shape {a b : RankState} (h : ShapeEq a b) (q : Nat) : itemsFor a q = itemsFor b q := by
  rw [itemsFor_keys, itemsFor_keys, h.1, h.2]

theorem filterMap_congr' {α β : Type} {f g : α → Option β} :
    ∀ (l : List α), (∀ x ∈ l, f x = g x) → l.filterMap f = l.filterMap g
  | [], _ => rfl
  | x :: xs, h => by
    rw [List.filterMap_cons, List.filterMap_cons, h x (by simp), filterMap_congr' xs (fun y hy => h y (by simp [hy]))]

theorem inbox_shape {w w' : World} (h : Shape w w') (q : Nat) : inbox w q = inbox w' q := by
  unfold inbox
  rw [← h.1]
  apply filterMap_congr'
  intro p hp
  have hp : p < w.length := List.mem_range.1 hp
  have hp' : p < w'.length := h.1 ▸ hp
  have ha : w[p]? = some w[p] := List.getElem?_eq_getElem hp
  have hb : w'[p]? = some w'[p] := List.getElem?_eq_getElem hp'
  have hs := h.2 p _ _ ha hb
  rw [ha, hb]
  simp only
  rw [hs.2, itemsFor_shape hs]

/-! ### receiving keeps shapes equal, whatever the numbering -/

theorem receiveItem_shape (num num' : Int → Nat) (me src : Nat) {a b : RankState} (h : ShapeEq a b) (it : Item) :
    ShapeEq (receiveItem num me src a it) (receiveItem num' me src b it) := by
  cases hl : it.pairs.lookup me with
  | none => rw [receiveItem_none _ _ _ _ _ hl, receiveItem_none _ _ _ _ _ hl]; exact h
  | some x =>
    rw [receiveItem_some _ _ _ _ _ _ hl, receiveItem_some _ _ _ _ _ _ hl]
    refine ⟨?_, ?_⟩
    · simp only
      rw [hasKey_of_keys h.1]
      split
      · exact h.1
      · rw [insertIdx_keys, insertIdx_keys, h.1]
        rfl
    · simp only
      rw [h.2]

theorem foldl_rel {α β γ : Type} (R : α → β → Prop) (f : α → γ → α) (g : β → γ → β)
    (hstep : ∀ a b c, R a b → R (f a c) (g b c)) : ∀ (l : List γ) (a : α) (b : β), R a b → R (l.foldl f a) (l.foldl g b)
  | [], _, _, h => h
  | c :: cs, a, b, h => by
    simp only [List.foldl_cons]
    exact foldl_rel R f g hstep cs _ _ (hstep a b c h)

theorem recvAll_shape (num num' : Int → Nat) (me : Nat) {a b : RankState} (h : ShapeEq a b)
    (msgs : List (Nat × List Item)) : ShapeEq (recvAll num me a msgs) (recvAll num' me b msgs) := by
  unfold recvAll
  apply foldl_rel ShapeEq _ _ _ msgs a b h
  intro a b m hab
  unfold receiveMsg
  apply foldl_rel ShapeEq _ _ _ m.2 a b hab
  intro a b it hab
  exact receiveItem_shape num num' me m.1 hab it

theorem finish_shape (a : RankState) : ShapeEq (finish a) a := ⟨rfl, rfl⟩

theorem syncRank_shape (num num' : Int → Nat) {w w' : World} (hw : Shape w w') (q : Nat) {a b : RankState}
    (h : ShapeEq a b) : ShapeEq (syncRank num w q a) (syncRank num' w' q b) := by
  unfold syncRank
  rw [inbox_shape hw q]
  exact ((finish_shape _).trans (recvAll_shape num num' q h _)).trans (finish_shape _).symm

theorem sync_shape (num num' : Int → Nat) {w w' : World} (hw : Shape w w') : Shape (sync num w) (sync num' w') := by
  refine ⟨by simp [sync, hw.1], fun p a' b' ha' hb' => ?_⟩
  rw [sync_getElem?] at ha' hb'
  simp only [Option.map_eq_some_iff] at ha' hb'
  obtain ⟨a, ha, rfl⟩ := ha'
  obtain ⟨b, hb, rfl⟩ := hb'
  exact syncRank_shape num num' hw p (hw.2 p a b ha hb)

theorem deleteRank_shape (del : Int → Bool) {a b : RankState} (h : ShapeEq a b) :
    ShapeEq (deleteRank del a) (deleteRank del b) := by
  refine ⟨?_, ?_⟩
  · simp only [deleteRank]
    have e : ∀ l : List IdxEntry, (l.filter (fun e => !del e.g)).map IdxEntry.key =
        (l.map IdxEntry.key).filter (fun k => !del k.1) := by
      intro l
      induction l with
      | nil => rfl
      | cons x xs ih =>
        simp only [List.filter_cons, List.map_cons, IdxEntry.key] at ih ⊢
        split <;> simp [ih, IdxEntry.key]
    rw [e, e, h.1]
  · simp only [deleteRank]
    rw [h.2]

theorem deleteCopies_shape (del : Nat → Int → Bool) {w w' : World} (hw : Shape w w') :
    Shape (deleteCopies del w) (deleteCopies del w') := by
  refine ⟨by simp [deleteCopies, hw.1], fun p a' b' ha' hb' => ?_⟩
  rw [deleteCopies_getElem?] at ha' hb'
  simp only [Option.map_eq_some_iff] at ha' hb'
  obtain ⟨a, ha, rfl⟩ := ha'
  obtain ⟨b, hb, rfl⟩ := hb'
  exact deleteRank_shape (del p) (hw.2 p a b ha hb)

/-! ### numberer objects with state -/

theorem receiveItemS_pure {σ : Type} (num : Int → Nat) (me src : Nat) (st : RankState) (s : σ) (it : Item) :
    receiveItemS (fun s g => (num g, s)) me src (st, s) it = (receiveItem num me src st it, s) := by
  unfold receiveItemS receiveItem
  cases it.pairs.lookup me with
  | none => rfl
  | some a =>
    simp only
    split <;> rfl

theorem foldl_pair {α σ γ : Type} (f : α × σ → γ → α × σ) (g : α → γ → α)
    (h : ∀ a s c, f (a, s) c = (g a c, s)) : ∀ (l : List γ) (a : α) (s : σ), l.foldl f (a, s) = (l.foldl g a, s)
  | [], _, _ => rfl
  | c :: cs, a, s => by
    simp only [List.foldl_cons]
    rw [h, foldl_pair f g h cs]

theorem recvAllS_pure {σ : Type} (num : Int → Nat) (me : Nat) (st : RankState) (s : σ) (msgs : List (Nat × List Item)) :
    recvAllS (fun s g => (num g, s)) me (st, s) msgs = (recvAll num me st msgs, s) := by
  unfold recvAllS recvAll
  apply foldl_pair
  intro a s m
  unfold receiveMsgS receiveMsg
  apply foldl_pair
  intro a s it
  exact receiveItemS_pure num me m.1 a s it

theorem syncRankS_pure {σ : Type} (num : Int → Nat) (w : World) (q : Nat) (st : RankState) (s : σ) :
    syncRankS (fun s g => (num g, s)) w q (st, s) = (syncRank num w q st, s) := by
  unfold syncRankS syncRank
  rw [recvAllS_pure]

theorem receiveItemS_shape {σ : Type} (nm : σ → Int → Nat × σ) (num : Int → Nat) (me src : Nat)
    (x : RankState × σ) (b : RankState) (h : ShapeEq x.1 b) (it : Item) :
    ShapeEq (receiveItemS nm me src x it).1 (receiveItem num me src b it) := by
  cases hl : it.pairs.lookup me with
  | none =>
    rw [receiveItem_none _ _ _ _ _ hl]
    simp only [receiveItemS, hl]
    exact h
  | some a =>
    rw [receiveItem_some _ _ _ _ _ _ hl]
    simp only [receiveItemS, hl]
    rw [← hasKey_of_keys h.1]
    split
    · exact ⟨h.1, by simp only [insertAll]; rw [h.2]⟩
    · refine ⟨?_, by simp only [insertAll]; rw [h.2]⟩
      simp only
      rw [insertIdx_keys, insertIdx_keys, h.1]
      rfl

theorem recvAllS_shape {σ : Type} (nm : σ → Int → Nat × σ) (num : Int → Nat) (me : Nat)
    (x : RankState × σ) (b : RankState) (h : ShapeEq x.1 b) (msgs : List (Nat × List Item)) :
    ShapeEq (recvAllS nm me x msgs).1 (recvAll num me b msgs) := by
  unfold recvAllS recvAll
  apply foldl_rel (fun (x : RankState × σ) (b : RankState) => ShapeEq x.1 b) _ _ _ msgs x b h
  intro x b m hxb
  unfold receiveMsgS receiveMsg
  apply foldl_rel (fun (x : RankState × σ) (b : RankState) => ShapeEq x.1 b) _ _ _ m.2 x b hxb
  intro x b it hxb
  exact receiveItemS_shape nm num me m.1 x b hxb it

theorem syncRankS_shape {σ : Type} (nm : σ → Int → Nat × σ) (num : Int → Nat) (w : World) (q : Nat)
    (st : RankState) (s : σ) : ShapeEq (syncRankS nm w q (st, s)).1 (syncRank num w q st) := by
  unfold syncRankS syncRank
  exact ((finish_shape _).trans (recvAllS_shape nm num q (st, s) st (ShapeEq.refl st) _)).trans (finish_shape _).symm

theorem syncRankS_seq {σ : Type} (nm : σ → Int → Nat × σ) (w : World) (q : Nat) (x : RankState × σ) :
    isSynced (syncRankS nm w q x).1 = true := by
  simp [syncRankS, finish, isSynced]

/-! ### the counting numberer: every new index gets the next number, exactly one call per new index -/

structure CountInv (base : Nat) (idx0 : List IdxEntry) (c0 : Nat) (idx : List IdxEntry) (c : Nat) : Prop where
  le : c0 ≤ c
  len : idx.length = idx0.length + (c - c0)
  old : ∀ e ∈ idx0, e ∈ idx
  locs : ∀ e ∈ idx, e ∈ idx0 ∨ (base + c0 ≤ e.loc ∧ e.loc < base + c)
  distinct : ∀ e₁ ∈ idx, ∀ e₂ ∈ idx, e₁ ∉ idx0 → e₂ ∉ idx0 → e₁.loc = e₂.loc → e₁ = e₂

theorem CountInv.init (base : Nat) (idx0 : List IdxEntry) (c0 : Nat) : CountInv base idx0 c0 idx0 c0 :=
  ⟨Nat.le_refl _, by simp, fun _ h => h, fun _ h => Or.inl h, fun e₁ h₁ _ _ hn _ _ => absurd h₁ hn⟩

theorem CountInv.receiveItemS {base : Nat} {idx0 : List IdxEntry} {c0 : Nat} (me src : Nat) (x : RankState × Nat)
    (h : CountInv base idx0 c0 x.1.idx x.2) (it : Item) :
    CountInv base idx0 c0 (receiveItemS (countingNumberer base) me src x it).1.idx
      (receiveItemS (countingNumberer base) me src x it).2 := by
  cases hl : it.pairs.lookup me with
  | none => simp only [DV.C13.receiveItemS, hl]; exact h
  | some a =>
    simp only [DV.C13.receiveItemS, hl]
    split
    · exact h
    · simp only [countingNumberer]
      refine ⟨Nat.le_succ_of_le h.le, ?_, ?_, ?_, ?_⟩
      · rw [insertIdx_length, h.len]
        have := h.le
        omega
      · intro e he
        exact (mem_insertIdx _ e _).2 (Or.inr (h.old e he))
      · intro e he
        rcases (mem_insertIdx _ e _).1 he with rfl | he
        · right
          simp only
          have := h.le
          omega
        · rcases h.locs e he with h1 | h1
          · exact Or.inl h1
          · right; omega
      · intro e₁ h₁ e₂ h₂ n₁ n₂ hloc
        rcases (mem_insertIdx _ e₁ _).1 h₁ with rfl | h₁
        · rcases (mem_insertIdx _ e₂ _).1 h₂ with rfl | h₂
          · rfl
          · rcases h.locs e₂ h₂ with h3 | h3
            · exact absurd h3 n₂
            · simp only at hloc; omega
        · rcases (mem_insertIdx _ e₂ _).1 h₂ with rfl | h₂
          · rcases h.locs e₁ h₁ with h3 | h3
            · exact absurd h3 n₁
            · simp only at hloc; omega
          · exact h.distinct e₁ h₁ e₂ h₂ n₁ n₂ hloc

theorem foldl_inv {α γ : Type} (P : α → Prop) (f : α → γ → α) (hstep : ∀ a c, P a → P (f a c)) :
    ∀ (l : List γ) (a : α), P a → P (l.foldl f a)
  | [], _, h => h
  | c :: cs, a, h => by
    simp only [List.foldl_cons]
    exact foldl_inv P f hstep cs _ (hstep a c h)

theorem CountInv.recvAllS {base : Nat} {idx0 : List IdxEntry} {c0 : Nat} (me : Nat) (x : RankState × Nat)
    (h : CountInv base idx0 c0 x.1.idx x.2) (msgs : List (Nat × List Item)) :
    CountInv base idx0 c0 (recvAllS (countingNumberer base) me x msgs).1.idx
      (recvAllS (countingNumberer base) me x msgs).2 := by
  unfold DV.C13.recvAllS
  apply foldl_inv (fun (x : RankState × Nat) => CountInv base idx0 c0 x.1.idx x.2) _ _ msgs x h
  intro x m hx
  unfold receiveMsgS
  apply foldl_inv (fun (x : RankState × Nat) => CountInv base idx0 c0 x.1.idx x.2) _ _ m.2 x hx
  intro x it hx
  exact CountInv.receiveItemS me m.1 x hx it

/-! ### any numberer: exactly one call per added index -/

theorem calls_receiveItemS {σ : Type} (nm : σ → Int → Nat × σ) (me src : Nat) (x : RankState × (σ × Nat)) (it : Item)
    (c0 n0 : Nat) (h : c0 ≤ x.2.2 ∧ x.1.idx.length = n0 + (x.2.2 - c0)) :
    c0 ≤ (receiveItemS (counted nm) me src x it).2.2 ∧
      (receiveItemS (counted nm) me src x it).1.idx.length = n0 + ((receiveItemS (counted nm) me src x it).2.2 - c0) := by
  cases hl : it.pairs.lookup me with
  | none => simp only [receiveItemS, hl]; exact h
  | some a =>
    simp only [receiveItemS, hl]
    split
    · exact h
    · simp only [counted]
      rw [insertIdx_length, h.2]
      have := h.1
      constructor <;> omega

theorem calls_recvAllS {σ : Type} (nm : σ → Int → Nat × σ) (me : Nat) (x : RankState × (σ × Nat))
    (msgs : List (Nat × List Item)) (c0 n0 : Nat) (h : c0 ≤ x.2.2 ∧ x.1.idx.length = n0 + (x.2.2 - c0)) :
    c0 ≤ (recvAllS (counted nm) me x msgs).2.2 ∧
      (recvAllS (counted nm) me x msgs).1.idx.length = n0 + ((recvAllS (counted nm) me x msgs).2.2 - c0) := by
  unfold recvAllS
  apply foldl_inv (fun (x : RankState × (σ × Nat)) => c0 ≤ x.2.2 ∧ x.1.idx.length = n0 + (x.2.2 - c0)) _ _ msgs x h
  intro x m hx
  unfold receiveMsgS
  apply foldl_inv (fun (x : RankState × (σ × Nat)) => c0 ≤ x.2.2 ∧ x.1.idx.length = n0 + (x.2.2 - c0)) _ _ m.2 x hx
  intro x it hx
  exact calls_receiveItemS nm me m.1 x it c0 n0 hx

theorem nbSym_delete {w : World} (hs : NbSym w) (del : Nat → Int → Bool) : NbSym (deleteCopies del w) := by
  intro p q sp sq hp hq
  rw [deleteCopies_getElem?] at hp hq
  simp only [Option.map_eq_some_iff] at hp hq
  obtain ⟨sp0, hp0, rfl⟩ := hp
  obtain ⟨sq0, hq0, rfl⟩ := hq
  rw [isNeighbour_deleteRank, isNeighbour_deleteRank]
  exact hs p q sp0 sq0 hp0 hq0

end DV.C13
