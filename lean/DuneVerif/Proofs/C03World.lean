/- C03 helper lemmas, part 6: multi-object histories reduce to single-object histories.  Core Lean only. -/
import DuneVerif.Proofs.C03Inv
import DuneVerif.Model.C03World

namespace DV.C03

theorem run_snoc (c : List Op) (o : Op) : run (c ++ [o]) = (step (run c) o).1 := by
  unfold run
  rw [runFrom_append]
  simp [runFrom]

theorem runWFrom_flat : ∀ (h : List WOp) (w : World) (c : List Op) (s : Option (List Op)),
    w.cur = run c → w.snap = s.map run →
    (runWFrom w h).cur = run (flatFrom c s h).1 ∧ (runWFrom w h).snap = (flatFrom c s h).2.map run
  | [], w, c, s, hc, hs => ⟨hc, hs⟩
  | .op o :: r, w, c, s, hc, hs => by
    simp only [runWFrom, flatFrom, stepW]
    exact runWFrom_flat r _ (c ++ [o]) s (by rw [run_snoc, ← hc]) hs
  | .snapshot :: r, w, c, s, hc, hs => by
    simp only [runWFrom, flatFrom, stepW]
    exact runWFrom_flat r _ c (some c) hc (by simp [hc])
  | .restore :: r, w, c, s, hc, hs => by
    simp only [runWFrom, flatFrom, stepW]
    cases s with
    | none =>
      simp only [Option.map_none] at hs
      simp only [hs, Option.getD_none]
      exact runWFrom_flat r _ c none hc hs
    | some sh =>
      simp only [Option.map_some] at hs
      simp only [hs, Option.getD_some]
      exact runWFrom_flat r _ sh (some sh) rfl (by simp)
  | .view :: r, w, c, s, hc, hs => by
    simp only [runWFrom, flatFrom]
    have : (stepW w .view).1 = w := by
      simp only [stepW]; split <;> rfl
    rw [this]
    exact runWFrom_flat r w c s hc hs

/-- operations on the set under test never touch the snapshot -/
theorem stepW_op_snap (w : World) (o : Op) : (stepW w (.op o)).1.snap = w.snap := rfl

end DV.C03

namespace DV.C03

theorem runWFrom_append : ∀ (h1 h2 : List WOp) (w : World), runWFrom w (h1 ++ h2) = runWFrom (runWFrom w h1) h2
  | [], _, _ => rfl
  | o :: os, h2, w => by simp only [List.cons_append, runWFrom]; exact runWFrom_append os h2 _

theorem runWFrom_ops_snap : ∀ (ops : List Op) (w : World), (runWFrom w (ops.map .op)).snap = w.snap
  | [], _ => rfl
  | o :: os, w => by
    simp only [List.map_cons, runWFrom]
    rw [runWFrom_ops_snap os]
    rfl

end DV.C03
