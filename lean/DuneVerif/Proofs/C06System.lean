import DuneVerif.Proofs.C06Pair
/-! C06 helper lemmas, part 6: `setupInterfaceTrackers` and the lookup of the peer's trackers in `receiveFrom`. -/
namespace DV.C06
variable {α : Type}

theorem find_peer_trackers (h : Handle α) (fwd : Bool) (q f : Nat) (pe : IfaceEntry) :
    ∀ (es : List IfaceEntry) (fs : Nat), (h.fixed = true → ∀ x ∈ es, ∀ i ∈ x.send fwd, h.size i = f) →
      pe ∈ es → (∀ x ∈ es, x.rank = q → x = pe) → pe.rank = q →
      (h.fixed = true → fs = 1 ∨ fs = f) →
      ∃ ts : Tracker × Tracker,
        ((setupTrackersLoop h fwd es fs).zip es).find? (fun x => x.2.rank == q) = some (ts, pe) ∧
        (h.fixed = true → (ts.1.fixedSize = 1 ∨ ts.1.fixedSize = f) ∧ (pe.send fwd ≠ [] → ts.1.fixedSize = f)) := by
  intro es
  induction es with
  | nil => intro fs _ hmem; simp at hmem
  | cons x es ih =>
    intro fs hfix hmem huniq hrank hfs
    -- the value of `fixedsize` after looking at x
    have hnew : h.fixed = true →
        ((match x.send fwd with | i :: _ => h.size i | [] => fs) = 1 ∨
         (match x.send fwd with | i :: _ => h.size i | [] => fs) = f) ∧
        (x.send fwd ≠ [] → (match x.send fwd with | i :: _ => h.size i | [] => fs) = f) := by
      intro hx
      cases hs : x.send fwd with
      | nil => exact ⟨hfs hx, fun hne => absurd rfl hne⟩
      | cons i is =>
        have hi : h.size i = f := hfix hx x (by simp) i (by rw [hs]; simp)
        exact ⟨Or.inr hi, fun _ => hi⟩
    by_cases hxq : x.rank = q
    · have hxe : x = pe := huniq x (by simp) hxq
      subst hxe
      refine ⟨(Tracker.mk' x.rank (x.send fwd)
          (if h.fixed then (match x.send fwd with | i :: _ => h.size i | [] => fs) else fs),
        Tracker.mk' x.rank (x.recv fwd)
          (if h.fixed then (match x.send fwd with | i :: _ => h.size i | [] => fs) else fs)
          ((if h.fixed then (match x.send fwd with | i :: _ => h.size i | [] => fs) else fs) == 0)), ?_, ?_⟩
      · simp only [setupTrackersLoop, List.zip_cons_cons, List.find?_cons, hxq, beq_self_eq_true]
        rfl
      · intro hx
        simpa [Tracker.mk', hx] using hnew hx
    · have hne : pe ≠ x := by intro e; subst e; exact hxq hrank
      have hmem' : pe ∈ es := by
        rcases List.mem_cons.1 hmem with h1 | h1
        · exact absurd h1 hne
        · exact h1
      have hfs' : h.fixed = true →
          ((if h.fixed then (match x.send fwd with | i :: _ => h.size i | [] => fs) else fs) = 1 ∨
          (if h.fixed then (match x.send fwd with | i :: _ => h.size i | [] => fs) else fs) = f) := by
        intro hx
        simpa [hx] using (hnew hx).1
      obtain ⟨ts, h1, h2⟩ := ih _ (fun hx y hy => hfix hx y (by simp [hy])) hmem' (fun y hy => huniq y (by simp [hy])) hrank hfs'
      refine ⟨ts, ?_, h2⟩
      have hb : (x.rank == q) = false := by simpa using hxq
      simp only [setupTrackersLoop, List.zip_cons_cons, List.find?_cons, hb]
      exact h1

end DV.C06
