import DuneVerif.Proofs.C08Ev2
/-!
# C08 — the max-norm preconditioning of the 2x2 path (`scaledMatrix = matrix / maxAbsElement`)
-/
namespace DV.C08

/-- the matrix handed to the closed form -/
noncomputable def scaled2 (A : M2 ℝ) : M2 ℝ := sdiv2 A (preScale2 A)

theorem preScale2_eq (A : M2 ℝ) : preScale2 A = maxAbsElement2 A := by
  unfold preScale2
  simp only [Gen.ev2_preconditioned, if_true]

theorem maxAbsElement2_pos (A : M2 ℝ) : 0 < maxAbsElement2 A := by
  unfold maxAbsElement2 zero one
  simp only [Nat.cast_zero, Nat.cast_one]
  split_ifs with h
  · exact h
  · exact one_pos

theorem preScale2_pos (A : M2 ℝ) : 0 < preScale2 A := by
  rw [preScale2_eq]; exact maxAbsElement2_pos A

theorem maxAbsElement2_smul (s : ℝ) (hs : 0 < s) (A : M2 ℝ) (hA : 0 < infNorm2 A) :
    maxAbsElement2 (smul2 s A) = s * maxAbsElement2 A := by
  unfold maxAbsElement2 zero
  simp only [Nat.cast_zero]
  rw [infNorm2_smul s hs, if_pos hA, if_pos (mul_pos hs hA)]

theorem sdiv2_smul (s m : ℝ) (hs : s ≠ 0) (A : M2 ℝ) : sdiv2 (smul2 s A) (s * m) = sdiv2 A m := by
  unfold sdiv2 smul2
  simp only [mul_div_mul_left _ _ hs]

theorem sdiv2_sym (A : M2 ℝ) (m : ℝ) (hs : Sym2 A) : Sym2 (sdiv2 A m) := by
  unfold Sym2 sdiv2 at *
  simp only
  rw [hs]

theorem scaled2_sym (A : M2 ℝ) (hs : Sym2 A) : Sym2 (scaled2 A) := sdiv2_sym A _ hs

def zeroM2 : M2 ℝ := ⟨0, 0, 0, 0⟩

theorem entries_zero_of_infNorm2 (A : M2 ℝ) (h : infNorm2 A = 0) : A = zeroM2 := by
  rw [infNorm2_eq] at h
  have h1 : |A.a10| + |A.a11| ≤ 0 := h ▸ le_max_left _ _
  have h0 : |A.a00| + |A.a01| ≤ 0 := h ▸ le_trans (le_max_left _ _) (le_max_right _ _)
  have z : ∀ x y : ℝ, |x| + |y| ≤ 0 → x = 0 ∧ y = 0 := by
    intro x y hxy
    have hx := abs_nonneg x
    have hy := abs_nonneg y
    exact ⟨abs_eq_zero.mp (by linarith), abs_eq_zero.mp (by linarith)⟩
  obtain ⟨a0, a1⟩ := z _ _ h0
  obtain ⟨b0, b1⟩ := z _ _ h1
  cases A
  simp only at a0 a1 b0 b1
  simp only [zeroM2, M2.mk.injEq]
  exact ⟨a0, a1, b0, b1⟩

theorem smul2_zeroM2 (s : ℝ) : smul2 s zeroM2 = zeroM2 := by
  unfold smul2 zeroM2
  simp only [mul_zero]

/-- the scaled matrix is the same for `A` and `s•A` -/
theorem scaled2_smul (s : ℝ) (hs : 0 < s) (A : M2 ℝ) (hA : 0 < infNorm2 A) :
    scaled2 (smul2 s A) = scaled2 A ∧ preScale2 (smul2 s A) = s * preScale2 A := by
  unfold scaled2
  rw [preScale2_eq, preScale2_eq, maxAbsElement2_smul s hs A hA, sdiv2_smul s _ hs.ne']
  exact ⟨rfl, rfl⟩

/-- roots of the scaled matrix, scaled back, are roots of the matrix -/
theorem charPoly2_unscale (A : M2 ℝ) (m l : ℝ) (hm : m ≠ 0) (h : charPoly2 (sdiv2 A m) l = 0) :
    charPoly2 A (l * m) = 0 := by
  have key : charPoly2 A (l * m) = m ^ 2 * charPoly2 (sdiv2 A m) l := by
    unfold charPoly2 sdiv2
    simp only
    field_simp
  rw [key, h, mul_zero]

/-- eigenvectors of the scaled matrix are eigenvectors of the matrix for the scaled-back eigenvalue -/
theorem mulVec2_unscale (A : M2 ℝ) (m l : ℝ) (hm : m ≠ 0) (v : V2 ℝ)
    (h : mulVec2 (sdiv2 A m) v = smulV2 l v) : mulVec2 A v = smulV2 (l * m) v := by
  unfold mulVec2 smulV2 sdiv2 at h
  simp only [V2.mk.injEq] at h
  obtain ⟨h1, h2⟩ := h
  unfold mulVec2 smulV2
  simp only [V2.mk.injEq]
  constructor
  · have h1' : A.a00 * v.x + A.a01 * v.y = l * v.x * m := by
      rw [← h1]; field_simp
    linarith
  · have h2' : A.a10 * v.x + A.a11 * v.y = l * v.y * m := by
      rw [← h2]; field_simp
    linarith

theorem eigenValues2x2_eq (A : M2 ℝ) (hs : Sym2 A) :
    eigenValues2x2 Real.sqrt A =
      .ok ((((scaled2 A).a00 + (scaled2 A).a11) / 2 - Real.sqrt (disc2 (scaled2 A))) * preScale2 A,
           (((scaled2 A).a00 + (scaled2 A).a11) / 2 + Real.sqrt (disc2 (scaled2 A))) * preScale2 A) := by
  unfold eigenValues2x2
  simp only
  have h := eigenValues2d_sym (scaled2 A) (scaled2_sym A hs)
  unfold scaled2 at h ⊢
  rw [h]

/-- closed form of the inner eigenvalues on the scaled matrix -/
noncomputable def inner0 (A : M2 ℝ) : ℝ := ((scaled2 A).a00 + (scaled2 A).a11) / 2 - Real.sqrt (disc2 (scaled2 A))
noncomputable def inner1 (A : M2 ℝ) : ℝ := ((scaled2 A).a00 + (scaled2 A).a11) / 2 + Real.sqrt (disc2 (scaled2 A))

theorem inner_vals (A : M2 ℝ) (hs : Sym2 A) : eigenValues2d Real.sqrt (scaled2 A) = .ok (inner0 A, inner1 A) :=
  eigenValues2d_sym (scaled2 A) (scaled2_sym A hs)

theorem eigenValuesVectors2x2_ok (eps : ℝ) (A : M2 ℝ) (hs : Sym2 A) :
    eigenValuesVectors2x2 Real.sqrt eps A =
      .ok ((inner0 A * preScale2 A, inner1 A * preScale2 A), eigenVectors2d Real.sqrt eps (scaled2 A) (inner0 A) (inner1 A)) := by
  have h := inner_vals A hs
  unfold eigenValuesVectors2x2 eigenValuesVectors2d
  unfold scaled2 at h
  simp only [h]
  rfl

theorem inner_le (A : M2 ℝ) : inner0 A ≤ inner1 A := by
  unfold inner0 inner1
  linarith [Real.sqrt_nonneg (disc2 (scaled2 A))]

theorem inner_vieta (A : M2 ℝ) (hs : Sym2 A) : Vieta (scaled2 A) (inner0 A) (inner1 A) :=
  vieta_of_closed_form (scaled2 A) (scaled2_sym A hs)

theorem inner_roots (A : M2 ℝ) (hs : Sym2 A) :
    charPoly2 (scaled2 A) (inner0 A) = 0 ∧ charPoly2 (scaled2 A) (inner1 A) = 0 := by
  obtain ⟨h1, h2⟩ := inner_vieta A hs
  have hss := scaled2_sym A hs
  unfold Sym2 at hss
  unfold charPoly2
  rw [hss]
  constructor
  · linear_combination (-1 : ℝ) * h2 + (inner0 A) * h1
  · linear_combination (-1 : ℝ) * h2 + (inner1 A) * h1

theorem scaled2_trace (A : M2 ℝ) : ((scaled2 A).a00 + (scaled2 A).a11) * preScale2 A = A.a00 + A.a11 := by
  have hm := (preScale2_pos A).ne'
  unfold scaled2 sdiv2
  simp only
  field_simp

theorem inner_zeroM2 : inner0 zeroM2 = 0 ∧ inner1 zeroM2 = 0 := by
  have hz : scaled2 zeroM2 = zeroM2 := by
    unfold scaled2 sdiv2 zeroM2
    simp only [zero_div]
  unfold inner0 inner1
  rw [hz]
  have hd : disc2 zeroM2 = 0 := by unfold disc2 zeroM2; norm_num
  rw [hd, Real.sqrt_zero]
  unfold zeroM2
  norm_num

/-- residuals measured on `A` are `maxAbsElement` times those measured on the scaled matrix -/
theorem mulVec2_shifted_unscale (A : M2 ℝ) (m l : ℝ) (hm : m ≠ 0) (v : V2 ℝ) :
    mulVec2 (shifted A (l * m)) v =
      ⟨m * (mulVec2 (shifted (sdiv2 A m) l) v).x, m * (mulVec2 (shifted (sdiv2 A m) l) v).y⟩ := by
  unfold mulVec2 shifted sdiv2
  simp only [V2.mk.injEq]
  constructor <;> field_simp

end DV.C08
