import DuneVerif.Proofs.C05Datatype
/-!
C05 helper lemmas, part 8 (round two): the communicator as a stateful object.

* the scatter calls of one `sendRecv` do not depend on what the receive buffer held before (`roundCallsFrom_dir`),
  in both directions, for the communicators built from a `System`;
* the buffer lengths are an invariant of `worldStep` (`BufOK`), so the statement holds after every history;
* `Comm.build` after `free` equals a fresh `buildComm` (`std::map::insert` semantics of `messageInformation_`);
* the last writer wins under the copy policy (`applyCalls_copy_last`);
* progress of the processes through one communication (`CommStep`).
Core Lean only.
-/
namespace DV.C05

/-! ### generic facts about the receive buffer -/

theorem recvBufAfter_congr {Val} (c : Comm) (fwd : Bool) (inc inc' : Nat → List Val) :
    ∀ (arr : List Nat) (init : List Val), (∀ p ∈ arr, inc p = inc' p) →
      c.recvBufAfter fwd inc init arr = c.recvBufAfter fwd inc' init arr
  | [], _, _ => rfl
  | a :: as, init, h => by
    have ha := h a (by simp)
    have ih := fun init' => recvBufAfter_congr c fwd inc inc' as init' (fun p hp => h p (List.mem_cons_of_mem _ hp))
    simp only [Comm.recvBufAfter, List.foldl_cons] at ih ⊢
    rw [ha]
    exact ih _

theorem Comm.sendBuf_length {Val} (c : Comm) (fwd : Bool) (gat : Nat → Nat → Val) :
    (c.sendBuf fwd gat).length = c.sendElems fwd := by
  simp only [Comm.sendBuf, gatherBuf_length, Comm.sendElems, Comm.csSend]
  cases fwd <;> simp [sendSide]

theorem overwritePrefix_same_length {Val} (old new : List Val) (h : old.length = new.length) :
    overwritePrefix old new = new := by
  simp only [overwritePrefix]
  rw [List.drop_of_length_le (by omega), List.append_nil]

/-- every message that lands lies inside the receive buffer: the buffer keeps its length (forward) -/
theorem Net.recvBufAfter_length {Val} (n : Net) (hg : n.Good) (gat : Nat → Nat → Nat → Val) (init : List Val) {q : Nat}
    (hq : q < n.P) (hinit : (n.comm q).recvElems true ≤ init.length) (arr : List Nat) (harr : ∀ p ∈ arr, p < n.P) :
    ((n.comm q).recvBufAfter true (fun p => (n.comm p).msgTo true ((n.comm p).sendBuf true (gat p)) q) init arr).length =
      init.length := by
  rw [recvBufAfter_eq_writes]
  apply length_writes
  intro w hw
  rw [List.mem_filterMap] at hw
  obtain ⟨a, ha, hwa⟩ := hw
  simp only [Option.map_eq_some_iff] at hwa
  obtain ⟨m, hm, rfl⟩ := hwa
  rw [n.msg_eq hg.keys] at hm
  cases hfa : (n.ifs q).find? (fun e => e.1 == a) with
  | none => simp [hfa] at hm
  | some ea =>
    simp only [hfa, Option.bind_some] at hm
    split at hm
    · cases hm
      simp only [recvMsgInfo, if_true]
      rw [n.msgTo_length hg (gat a) (harr a ha) hq, n.recvSlots_length_of_find hfa]
      have := pre_le_total (fun e => sizeCalc (n.csT q) e.2.2) (n.ifs q) hfa
      have h2 : pre (fun e => sizeCalc (n.csT q) e.2.2) (n.ifs q) a + sizeCalc (n.csT q) ea.2.2 ≤
          (n.comm q).recvElems true := by
        simpa only [Comm.recvElems, Comm.sendElems, Net.comm, buildComm, Bool.not_true, Bool.false_eq_true, if_false]
          using this
      omega
    · cases hm

/-! ### both directions for the communicators of a `System` -/

section dir
variable (ign : Bool) (S T : Nat → Bool) (sys : System) (sz : Nat) (csS csT : Nat → Nat → Nat)

/-- the net whose *forward* communication is the communication in direction `fwd` -/
def dirNet (fwd : Bool) : Net :=
  if fwd then netOf ign S T sys sz csS csT else netOf ign T S sys.swap sz csT csS

theorem dirNet_P (fwd : Bool) : (dirNet ign S T sys sz csS csT fwd).P = sys.P := by
  cases fwd <;> rfl

theorem dirNet_comm (fwd : Bool) (p : Nat) :
    (dirNet ign S T sys sz csS csT fwd).comm p =
      if fwd then (netOf ign S T sys sz csS csT).comm p else ((netOf ign S T sys sz csS csT).comm p).swap := by
  cases fwd
  · simp only [dirNet, Bool.false_eq_true, if_false, swap_comm]
  · simp only [dirNet, if_true]

theorem dirNet_good {blk} (hwf : WF sys) (hsz : 0 < sz) (hb : SizesByGlobal sys csS csT blk) (fwd : Bool) :
    (dirNet ign S T sys sz csS csT fwd).Good := by
  cases fwd
  · exact netOf_good (swap_wf hwf) hsz (swap_sizes hb)
  · exact netOf_good hwf hsz hb

/-- a communication in direction `fwd` is a forward communication of `dirNet fwd` -/
theorem roundCallsFrom_dirNet {Val} (fwd : Bool) (gat : Nat → Nat → Nat → Val) (init : List Val) (q : Nat)
    (arr order : List Nat) :
    roundCallsFrom (netOf ign S T sys sz csS csT).comm fwd gat init q arr order =
      roundCallsFrom (dirNet ign S T sys sz csS csT fwd).comm true gat init q arr order := by
  cases fwd
  · rw [roundCallsFrom_swap]
    congr 1
    funext p
    rw [dirNet_comm]; rfl
  · rfl

theorem recvElems_dirNet (fwd : Bool) (q : Nat) :
    ((netOf ign S T sys sz csS csT).comm q).recvElems fwd = ((dirNet ign S T sys sz csS csT fwd).comm q).recvElems true := by
  cases fwd
  · rw [dirNet_comm]; simp only [Bool.false_eq_true, if_false, Comm.swap_recvElems]
  · rfl

theorem postedRecvs_dirNet (fwd : Bool) (q : Nat) :
    ((netOf ign S T sys sz csS csT).comm q).postedRecvs fwd = ((dirNet ign S T sys sz csS csT fwd).comm q).postedRecvs true := by
  cases fwd
  · rw [dirNet_comm]; simp only [Bool.false_eq_true, if_false, Comm.swap_postedRecvs]
  · rfl

theorem postedSends_dirNet (fwd : Bool) (q : Nat) :
    ((netOf ign S T sys sz csS csT).comm q).postedSends fwd = ((dirNet ign S T sys sz csS csT fwd).comm q).postedSends true := by
  cases fwd
  · rw [dirNet_comm]; simp only [Bool.false_eq_true, if_false, Comm.swap_postedSends]
  · rfl

/-- **the calls do not depend on the previous contents of the receive buffer** -/
theorem roundCallsFrom_dir {Val} {blk} (hwf : WF sys) (hsz : 0 < sz) (hb : SizesByGlobal sys csS csT blk) (fwd : Bool)
    (gat : Nat → Nat → Nat → Val) (init : List Val) {q : Nat} (hq : q < sys.P)
    (hinit : ((netOf ign S T sys sz csS csT).comm q).recvElems fwd ≤ init.length)
    (arr order : List Nat) (hnd : arr.Nodup) (harr : ∀ p ∈ arr, p < sys.P) (hsub : ∀ p ∈ order, p ∈ arr) :
    roundCallsFrom (netOf ign S T sys sz csS csT).comm fwd gat init q arr order =
      order.flatMap fun p => (dirNet ign S T sys sz csS csT fwd).pairCalls gat p q := by
  rw [roundCallsFrom_dirNet]
  apply Net.roundCallsFrom_eq _ (dirNet_good ign S T sys sz csS csT hwf hsz hb fwd) gat init
  · rw [dirNet_P]; exact hq
  · rw [← recvElems_dirNet]; exact hinit
  · exact hnd
  · intro p hp; rw [dirNet_P]; exact harr p hp
  · exact hsub

/-- the receive buffer keeps its length in both directions -/
theorem recvBufAfter_length_dir {Val} {blk} (hwf : WF sys) (hsz : 0 < sz) (hb : SizesByGlobal sys csS csT blk) (fwd : Bool)
    (gat : Nat → Nat → Nat → Val) (init : List Val) {q : Nat} (hq : q < sys.P)
    (hinit : ((netOf ign S T sys sz csS csT).comm q).recvElems fwd ≤ init.length)
    (arr : List Nat) (harr : ∀ p ∈ arr, p < sys.P) :
    (((netOf ign S T sys sz csS csT).comm q).recvBufAfter fwd
        (fun p => ((netOf ign S T sys sz csS csT).comm p).msgTo fwd
          (((netOf ign S T sys sz csS csT).comm p).sendBuf fwd (gat p)) q) init arr).length = init.length := by
  have hg := dirNet_good ign S T sys sz csS csT hwf hsz hb fwd
  have := Net.recvBufAfter_length _ hg gat init (q := q) (by rw [dirNet_P]; exact hq)
    (by rw [← recvElems_dirNet]; exact hinit) arr (fun p hp => by rw [dirNet_P]; exact harr p hp)
  cases fwd
  · simp only [dirNet_comm, Bool.false_eq_true, if_false, Comm.swap_recvBufAfter, Comm.swap_msgTo, Comm.swap_sendBuf] at this
    exact this
  · exact this

end dir

/-! ### buffers as state -/

/-- the buffers of every process have the sizes `build` allocated (their contents are arbitrary) -/
def BufOK {Val Data} (P : Nat) (comm : Nat → Comm) (st : Nat → PState Val Data) : Prop :=
  ∀ p, p < P → (st p).b0.length = (comm p).sendElems true ∧ (st p).b1.length = (comm p).sendElems false

theorem BufOK.sendB {Val Data} {P comm} {st : Nat → PState Val Data} (h : BufOK P comm st) {p : Nat} (hp : p < P) (fwd : Bool) :
    ((st p).sendB fwd).length = (comm p).sendElems fwd := by
  cases fwd
  · exact (h p hp).2
  · exact (h p hp).1

theorem BufOK.recvB {Val Data} {P comm} {st : Nat → PState Val Data} (h : BufOK P comm st) {p : Nat} (hp : p < P) (fwd : Bool) :
    ((st p).recvB fwd).length = (comm p).recvElems fwd := by
  cases fwd
  · exact (h p hp).1
  · exact (h p hp).2

theorem stepSendBuf_eq {Val Data} {P comm} {st : Nat → PState Val Data} (h : BufOK P comm st) (gather : Data → Nat → Nat → Val)
    (fwd : Bool) {p : Nat} (hp : p < P) :
    stepSendBuf comm gather fwd st p = (comm p).sendBuf fwd (gather ((st p).cont.get (!fwd))) := by
  simp only [stepSendBuf]
  apply overwritePrefix_same_length
  rw [h.sendB hp, Comm.sendBuf_length]

theorem stepRecvBuf_eq {Val Data} {P comm} {st : Nat → PState Val Data} (h : BufOK P comm st) (gather : Data → Nat → Nat → Val)
    (fwd : Bool) (q : Nat) (arr : List Nat) (harr : ∀ p ∈ arr, p < P) :
    stepRecvBuf comm gather fwd st q arr =
      (comm q).recvBufAfter fwd (fun p => (comm p).msgTo fwd ((comm p).sendBuf fwd (gather ((st p).cont.get (!fwd)))) q)
        ((st q).recvB fwd) arr := by
  simp only [stepRecvBuf]
  apply recvBufAfter_congr
  intro p hp
  rw [stepSendBuf_eq h gather fwd (harr p hp)]

/-- with buffers of the right size, the calls of a step are `roundCallsFrom` on the stale receive buffer -/
theorem stepCalls_eq {Val Data} {P comm} {st : Nat → PState Val Data} (h : BufOK P comm st) (gather : Data → Nat → Nat → Val)
    (r : Round) (q : Nat) (harr : ∀ p ∈ r.arr q, p < P) :
    stepCalls comm gather r st q =
      roundCallsFrom comm r.fwd (fun p => gather ((st p).cont.get (!r.fwd))) ((st q).recvB r.fwd) q (r.arr q) (r.order q) := by
  simp only [stepCalls, roundCallsFrom, stepRecvBuf_eq h gather r.fwd q (r.arr q) harr]

/-! ### `free` and `build` again -/

theorem foldl_insertKeep_append : ∀ (new acc : List (Nat × MsgInfo × MsgInfo)),
    ((acc ++ new).map (·.1)).Pairwise (· < ·) → new.foldl insertKeep acc = acc ++ new
  | [], acc, _ => by simp
  | e :: es, acc, h => by
    have hins : insertKeep acc e = acc ++ [e] := by
      have hlt : ∀ x ∈ acc, x.1 < e.1 := by
        intro x hx
        rw [List.map_append, List.pairwise_append] at h
        exact h.2.2 x.1 (List.mem_map_of_mem hx) e.1 (by simp)
      clear h
      induction acc with
      | nil => rfl
      | cons x xs ih =>
        have hx := hlt x (by simp)
        have h1 : ¬ e.1 < x.1 := by omega
        have h2 : (e.1 == x.1) = false := by simp only [beq_eq_false_iff_ne, ne_eq]; omega
        simp only [insertKeep, h1, h2, if_false, Bool.false_eq_true, List.cons_append]
        rw [ih (fun y hy => hlt y (List.mem_cons_of_mem _ hy))]
    rw [List.foldl_cons, hins, foldl_insertKeep_append es (acc ++ [e]) (by simpa using h)]
    simp

/-- building on a communicator object that was used before gives the state of a freshly built one -/
theorem Comm.build_eq_fresh (c : Comm) (sz : Nat) (csS csT : Nat → Nat) (ifs : IfMap) (hk : Keys ifs) :
    c.build sz csS csT ifs = buildComm sz csS csT ifs := by
  simp only [Comm.build, Comm.free, buildComm]
  rw [foldl_insertKeep_append _ [] (by
    simpa using List.Pairwise.sublist (layout_keys_sublist sz csS csT ifs 0 0) hk)]
  simp

/-! ### the copy policy when several values reach one entry -/

/-- after any sequence of copy-scatter calls an entry that was written holds the value of one of the calls aimed at
    it (the last one) -/
theorem applyCalls_copy_last {Val Data} {gather : Data → Nat → Nat → Val} {scatter} (h : CopyStore gather scatter) :
    ∀ (calls : List (Val × Nat × Nat)) (d : Data) (l j : Nat), (l, j) ∈ calls.map (·.2) →
      ∃ c ∈ calls, c.2 = (l, j) ∧ gather (applyCalls scatter d calls) l j = c.1
  | [], _, _, _, hm => by cases hm
  | c0 :: cs, d, l, j, hm => by
    rw [applyCalls_cons]
    by_cases hin : (l, j) ∈ cs.map (·.2)
    · obtain ⟨c, hc, h1, h2⟩ := applyCalls_copy_last h cs (scatter d c0.1 c0.2.1 c0.2.2) l j hin
      exact ⟨c, List.mem_cons_of_mem _ hc, h1, h2⟩
    · have h0 : c0.2 = (l, j) := by
        simp only [List.map_cons, List.mem_cons] at hm
        rcases hm with hm | hm
        · exact hm.symm
        · exact (hin hm).elim
      refine ⟨c0, by simp, h0, ?_⟩
      rw [applyCalls_copy_other h cs _ l j hin, h.get_set]
      have hl : l = c0.2.1 := by rw [h0]
      have hj : j = c0.2.2 := by rw [h0]
      simp [hl, hj]

/-! ### posted sends go to processes of the communicator -/

theorem Net.postedSends_lt (n : Net) (hg : n.Good) (p q : Nat) (h : q ∈ (n.comm p).postedSends true) : q < n.P := by
  simp only [Comm.postedSends, List.mem_map, List.mem_filter] at h
  obtain ⟨x, ⟨hx, _⟩, rfl⟩ := h
  obtain ⟨e, he, hk⟩ := layout_keys_sub _ _ _ _ _ _ x hx
  rw [← hk]; exact hg.bound p e he

/-- pairs of two lists with the same strictly ascending keys: the zip pairs exactly the elements with equal keys -/
theorem mem_zip_of_keys {α β} (f : α → Int) (f' : β → Int) : ∀ (l1 : List α) (l2 : List β),
    l1.map f = l2.map f' → (l1.map f).Pairwise (· < ·) → ∀ x y, (x, y) ∈ l1.zip l2 ↔ x ∈ l1 ∧ y ∈ l2 ∧ f x = f' y
  | [], [], _, _, x, y => by simp
  | [], _ :: _, h, _, _, _ => by simp at h
  | _ :: _, [], h, _, _, _ => by simp at h
  | a :: l1, b :: l2, h, hp, x, y => by
    simp only [List.map_cons, List.cons.injEq] at h
    simp only [List.map_cons, List.pairwise_cons] at hp
    have ih := mem_zip_of_keys f f' l1 l2 h.2 hp.2 x y
    simp only [List.zip_cons_cons, List.mem_cons, Prod.mk.injEq, ih]
    constructor
    · rintro (⟨rfl, rfl⟩ | ⟨hx, hy, hf⟩)
      · exact ⟨Or.inl rfl, Or.inl rfl, h.1⟩
      · exact ⟨Or.inr hx, Or.inr hy, hf⟩
    · rintro ⟨hx | hx, hy | hy, hf⟩
      · exact Or.inl ⟨hx, hy⟩
      · exfalso
        subst hx
        have : f' y ∈ l2.map f' := List.mem_map_of_mem hy
        rw [← h.2] at this
        have := hp.1 _ this
        omega
      · exfalso
        subst hy
        have : f x ∈ l1.map f := List.mem_map_of_mem hx
        have := hp.1 _ this
        omega
      · exact Or.inr ⟨hx, hy, hf⟩

/-! ### progress of one communication -/

theorem todoSum_update_lt (P : Nat) (ph : Nat → Phase) (q : Nat) (hq : q < P) (x : Phase) (hx : x.todo < (ph q).todo) :
    todoSum P (fun y => if y = q then x else ph y) < todoSum P ph := by
  simp only [todoSum]
  induction P with
  | zero => omega
  | succ n ih =>
    rw [List.range_succ, List.map_append, List.map_append, List.sum_append, List.sum_append]
    simp only [List.map_cons, List.map_nil, List.sum_cons, List.sum_nil, Nat.add_zero]
    by_cases hn : q = n
    · subst hn
      have hsame : ((List.range q).map fun z => (if z = q then x else ph z).todo) = (List.range q).map fun z => (ph z).todo := by
        apply List.map_congr_left
        intro z hz
        have : z ≠ q := by have := List.mem_range.mp hz; omega
        simp [this]
      rw [hsame]
      simp only [if_true]
      omega
    · have hlt : q < n := by omega
      have := ih hlt
      have hne : ¬ n = q := fun h => hn h.symm
      simp only [hne, if_false]
      omega

theorem todoSum_succ (n : Nat) (ph : Nat → Phase) : todoSum (n + 1) ph = todoSum n ph + (ph n).todo := by
  simp only [todoSum, List.range_succ, List.map_append, List.sum_append, List.map_cons, List.map_nil, List.sum_cons,
    List.sum_nil, Nat.add_zero]

theorem todoSum_eq_zero (P : Nat) (ph : Nat → Phase) : todoSum P ph = 0 ↔ ∀ q, q < P → ph q = Phase.done := by
  induction P with
  | zero => simp [todoSum]
  | succ n ih =>
    rw [todoSum_succ]
    constructor
    · intro h q hq
      have h1 : todoSum n ph = 0 := by omega
      have h2 : (ph n).todo = 0 := by omega
      by_cases hqn : q = n
      · subst hqn
        cases hph : ph q <;> simp_all [Phase.todo]
      · exact (ih.1 h1) q (by omega)
    · intro h
      have h1 := ih.2 (fun q hq => h q (by omega))
      have h2 : (ph n).todo = 0 := by rw [h n (by omega)]; rfl
      omega

end DV.C05
