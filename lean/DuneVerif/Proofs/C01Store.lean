import DuneVerif.Model.C01.Store
/-! Helper lemmas for the object histories of C01 (store layer; core Lean only): array-backed cells, writes through an
object, what `opOk` guarantees, what the assignment tables read from the source must say. -/

set_option linter.unusedSectionVars false
set_option linter.unusedSimpArgs false

namespace DV.C01

section
variable {K : Type _} [Zero K] [Add K] [Sub K] [Mul K] [Neg K] [Div K]

/-! ### array-backed cells -/

@[simp] theorem freeze_rows (A : Mat K) : A.freeze.rows = A.rows := rfl
@[simp] theorem freeze_cols (A : Mat K) : A.freeze.cols = A.cols := rfl

theorem freeze_e (A : Mat K) (i j : Nat) :
    A.freeze.e i j = if i < A.rows ∧ j < A.cols then A.e i j else 0 := by
  show (if i < A.rows ∧ j < A.cols then
      (Array.ofFn (n := A.rows * A.cols) fun idx => A.e (idx.val / A.cols) (idx.val % A.cols)).getD (i * A.cols + j) 0
      else 0) = _
  by_cases h : i < A.rows ∧ j < A.cols
  · rw [if_pos h, if_pos h]
    obtain ⟨hi, hj⟩ := h
    have hlt : i * A.cols + j < A.rows * A.cols := by
      calc i * A.cols + j < i * A.cols + A.cols := by omega
        _ = (i + 1) * A.cols := by rw [Nat.add_mul, Nat.one_mul]
        _ ≤ A.rows * A.cols := Nat.mul_le_mul_right _ hi
    have hc : 0 < A.cols := by omega
    have hd : (i * A.cols + j) / A.cols = i := by
      rw [Nat.mul_comm, Nat.mul_add_div hc, Nat.div_eq_of_lt hj, Nat.add_zero]
    have hm : (i * A.cols + j) % A.cols = j := by
      rw [Nat.mul_comm, Nat.mul_add_mod, Nat.mod_eq_of_lt hj]
    simp [Array.getD, hlt, hd, hm]
  · rw [if_neg h, if_neg h]

theorem freeze_e_in (A : Mat K) (i j : Nat) (hi : i < A.rows) (hj : j < A.cols) : A.freeze.e i j = A.e i j := by
  rw [freeze_e, if_pos ⟨hi, hj⟩]

/-! ### lists of cells -/

theorem getD_set {α : Type _} (l : List α) (t i : Nat) (v d : α) :
    (l.set t v).getD i d = if i = t ∧ t < l.length then v else l.getD i d := by
  simp only [List.getD_eq_getElem?_getD, List.getElem?_set]
  by_cases h : t = i
  · subst h
    by_cases hl : t < l.length
    · simp [hl]
    · simp [hl, List.getElem?_eq_none (Nat.le_of_not_lt hl)]
  · have h' : ¬ i = t := fun e => h e.symm
    simp [h, h']

/-! ### writes through an object -/

@[simp] theorem wr_regs (st : SeqState K) (t : Nat) (v : Mat K) : (st.wr t v).regs = st.regs := rfl
@[simp] theorem wr_kind (st : SeqState K) (t i : Nat) (v : Mat K) : (st.wr t v).kind i = st.kind i := rfl
@[simp] theorem wr_ptr (st : SeqState K) (t i : Nat) (v : Mat K) : (st.wr t v).ptr i = st.ptr i := rfl
@[simp] theorem wr_wraps (st : SeqState K) (t i : Nat) (v : Mat K) : (st.wr t v).wraps i = st.wraps i := rfl
@[simp] theorem wr_size (st : SeqState K) (t : Nat) (v : Mat K) : (st.wr t v).size = st.size := rfl

theorem wr_buf (st : SeqState K) (t i : Nat) (v : Mat K) :
    (st.wr t v).buf i = if i = st.ptr t ∧ st.ptr t < st.bufs.length then v else st.buf i := by
  simp only [SeqState.wr, SeqState.buf]
  exact getD_set _ _ _ _ _

theorem wr_wf (st : SeqState K) (t : Nat) (v : Mat K) (h : st.wf) : (st.wr t v).wf := by
  refine ⟨?_, ?_⟩
  · simp only [SeqState.wr, List.length_set]; exact h.1
  · intro i hi
    exact h.2 i hi

/-- an object that is not a transposed view shows its own cell -/
theorem rd_own (st : SeqState K) (h : st.wf) (i : Nat) (hi : i < st.size) (hk : st.kind i ≠ .tv) : st.rd i = st.buf i := by
  unfold SeqState.rd
  rw [(h.2 i hi).1 hk]

/-- a transposed view shows the cell of the object it was made from -/
theorem rd_view (st : SeqState K) (h : st.wf) (i : Nat) (hi : i < st.size) (hk : st.kind i = .tv) :
    st.rd i = st.buf (st.wraps i) := by
  unfold SeqState.rd
  rw [((h.2 i hi).2 hk).1]

theorem isVecKind_ne_tv {k : RKind} (h : isVecKind k = true) : k ≠ .tv := by
  cases k <;> simp [isVecKind] at h ⊢
theorem isMatKind_ne_tv {k : RKind} (h : isMatKind k = true) : k ≠ .tv := by
  cases k <;> simp [isMatKind] at h ⊢

/-! ### what `opOk` guarantees -/

/-- (`t = s` is allowed: an object may be its own argument; the third component is kept as `True` for the callers' patterns) -/
theorem pair_facts (st : SeqState K) (op : OpK) (t s : Nat) (h : opOk.pair st op t s = true) :
    t < st.size ∧ s < st.size ∧ True ∧ st.kind t ≠ .tv ∧ st.kind s ≠ .tv
    ∧ st.lrows t = st.lrows s ∧ (st.rd t).cols = (st.rd s).cols := by
  simp only [opOk.pair, Bool.and_eq_true, Bool.or_eq_true, decide_eq_true_eq, bne_iff_ne, ne_eq, beq_iff_eq] at h
  obtain ⟨⟨⟨⟨ht, hs⟩, hr⟩, hc⟩, hk⟩ := h
  refine ⟨ht, hs, trivial, ?_, ?_, hr, hc⟩
  · rcases hk with hk | hk
    · exact isVecKind_ne_tv hk.1.1.1.1
    · exact isMatKind_ne_tv hk.1.1
  · rcases hk with hk | hk
    · exact isVecKind_ne_tv hk.1.1.1.2
    · exact isMatKind_ne_tv hk.1.2

theorem rowPair_facts (st : SeqState K) (op : OpK) (t i s j : Nat) (h : opOk.rowPair st op t i s j = true) :
    t < st.size ∧ s < st.size ∧ t ≠ s ∧ st.kind t ≠ .tv ∧ st.kind s ≠ .tv
    ∧ i < (st.rd t).rows ∧ j < (st.rd s).rows ∧ (st.rd t).cols = (st.rd s).cols := by
  simp only [opOk.rowPair, Bool.and_eq_true, decide_eq_true_eq, bne_iff_ne, ne_eq, beq_iff_eq] at h
  obtain ⟨⟨⟨⟨⟨⟨⟨⟨⟨⟨ht, hs⟩, hne⟩, hmt⟩, hms⟩, _⟩, _⟩, hi⟩, hj⟩, hc⟩, _⟩ := h
  exact ⟨ht, hs, hne, isMatKind_ne_tv hmt, isMatKind_ne_tv hms, hi, hj, hc⟩

theorem opOk_lmul (st : SeqState K) (t s : Nat) :
    opOk st (.lmul t s) = (opOk.pair st .lmul t s && (st.rd t).rows == (st.rd t).cols) := rfl
theorem opOk_rmul (st : SeqState K) (t s : Nat) :
    opOk st (.rmul t s) = (opOk.pair st .rmul t s && (st.rd t).rows == (st.rd t).cols) := rfl
theorem opOk_fill (st : SeqState K) (t : Nat) (k : K) :
    opOk st (.fill t k) = (decide (t < st.size) && (isVecKind (st.kind t) || isMatKind (st.kind t)) && st.kind t != .scc
      && st.kind t != .svc) := rfl
theorem opOk_scale (st : SeqState K) (t : Nat) (k : K) :
    opOk st (.scale t k) = (decide (t < st.size) && (isVecKind (st.kind t) || isMatKind (st.kind t)) && st.kind t != .scc
      && st.kind t != .svc) := rfl

/-- the shape conditions of a kernel call: sizes of `x` and `y` against the (logical) shape of the matrix operand -/
def kernShapeOk (st : SeqState K) (k : KName) (a x y : Nat) : Bool :=
  match k with
  | .mv | .umv | .mmv | .usmv => (st.rd x).cols == (st.matRep a).cols && (st.rd y).cols == (st.matRep a).rows
  | _ => (st.rd x).cols == (st.matRep a).rows && (st.rd y).cols == (st.matRep a).cols

theorem kern_facts (st : SeqState K) (k : KName) (a x y : Nat) (alpha : K) (h : opOk st (.kern k a alpha x y) = true) :
    a < st.size ∧ x < st.size ∧ y < st.size ∧ x ≠ y ∧ st.kind x ≠ .tv ∧ st.kind y ≠ .tv
    ∧ (st.kind a ≠ .tv ∨ (st.kind a = .tv ∧ st.wraps a < st.size))
    ∧ offers k (st.matRep a) = true ∧ (st.rd x).rows = 1 ∧ (st.rd y).rows = 1 ∧ kernShapeOk st k a x y = true := by
  have e : opOk st (.kern k a alpha x y) =
      (decide (a < st.size) && decide (x < st.size) && decide (y < st.size) && x != y &&
      (isMatKind (st.kind a) || (st.kind a == .tv && decide ((if st.kind a == .tv then st.wraps a else a) < st.size)
        && isMatKind (st.kind (if st.kind a == .tv then st.wraps a else a)))) &&
      isVecKind (st.kind x) && isVecKind (st.kind y) && st.kind y != .scc &&
      offers k (st.matRep a) &&
      kernTripleOk (st.kind (if st.kind a == .tv then st.wraps a else a)) (st.rd a).rows (st.kind a == .tv) (st.kind x)
        (st.rd x).cols (st.kind y) (st.rd y).cols &&
      (st.rd x).rows == 1 && (st.rd y).rows == 1 && kernShapeOk st k a x y) := by
    cases k <;> rfl
  rw [e] at h
  simp only [Bool.and_eq_true, Bool.or_eq_true, decide_eq_true_eq, bne_iff_ne, ne_eq, beq_iff_eq] at h
  obtain ⟨⟨⟨⟨⟨⟨⟨⟨⟨⟨⟨⟨ha, hx⟩, hy⟩, hxy⟩, hm⟩, hvx⟩, hvy⟩, _⟩, hoff⟩, _⟩, hrx⟩, hry⟩, hsh⟩ := h
  refine ⟨ha, hx, hy, hxy, isVecKind_ne_tv hvx, isVecKind_ne_tv hvy, ?_, hoff, hrx, hry, hsh⟩
  rcases hm with hm | hm
  · exact Or.inl (isMatKind_ne_tv hm)
  · have hk : st.kind a = .tv := hm.1.1
    refine Or.inr ⟨hk, ?_⟩
    have := hm.1.2
    simpa [hk] using this

/-- the target of an executed operation is an object of the store that is not a transposed view -/
theorem opOk_target (st : SeqState K) (op : SOp K) (h : opOk st op = true) :
    op.target < st.size ∧ st.kind op.target ≠ .tv := by
  cases op with
  | asg t s => have := pair_facts st .asg t s h; exact ⟨this.1, this.2.2.2.1⟩
  | add t s => have := pair_facts st .add t s h; exact ⟨this.1, this.2.2.2.1⟩
  | sub t s => have := pair_facts st .sub t s h; exact ⟨this.1, this.2.2.2.1⟩
  | axpy t k s => have := pair_facts st .axpy t s h; exact ⟨this.1, this.2.2.2.1⟩
  | lmul t s =>
    rw [opOk_lmul, Bool.and_eq_true] at h
    have := pair_facts st .lmul t s h.1; exact ⟨this.1, this.2.2.2.1⟩
  | rmul t s =>
    rw [opOk_rmul, Bool.and_eq_true] at h
    have := pair_facts st .rmul t s h.1; exact ⟨this.1, this.2.2.2.1⟩
  | fill t k =>
    rw [opOk_fill] at h
    simp only [Bool.and_eq_true, Bool.or_eq_true, decide_eq_true_eq] at h
    refine ⟨h.1.1.1, ?_⟩
    rcases h.1.1.2 with hk | hk
    · exact isVecKind_ne_tv hk
    · exact isMatKind_ne_tv hk
  | scale t k =>
    rw [opOk_scale] at h
    simp only [Bool.and_eq_true, Bool.or_eq_true, decide_eq_true_eq] at h
    refine ⟨h.1.1.1, ?_⟩
    rcases h.1.1.2 with hk | hk
    · exact isVecKind_ne_tv hk
    · exact isMatKind_ne_tv hk
  | kern k a alpha x y =>
    have := kern_facts st k a x y alpha h
    exact ⟨this.2.2.1, this.2.2.2.2.2.1⟩
  | rasg t i s j => have := rowPair_facts st .asg t i s j h; exact ⟨this.1, this.2.2.2.1⟩
  | raxpy t i k s j => have := rowPair_facts st .axpy t i s j h; exact ⟨this.1, this.2.2.2.1⟩

/-! ### the assignment tables read from scalarvectorview.hh / scalarmatrixview.hh

With the tables as generated from the current source every assignment to a scalar view writes the value through the
handle; no table says "re-point the handle". -/

theorem assignMode_writes (kt ks : RKind) : assignMode kt ks = none ∨ assignMode kt ks = some .copyEntry := by
  cases kt <;> cases ks <;> decide

theorem fillMode_writes (kt : RKind) : fillMode kt = none ∨ fillMode kt = some .copyEntry := by
  cases kt <;> decide

theorem handleMode_writes (st : SeqState K) (op : SOp K) :
    handleMode st op = none ∨ handleMode st op = some .copyEntry := by
  cases op <;> simp only [handleMode]
  case asg t s => exact assignMode_writes _ _
  case fill t k => exact fillMode_writes _
  case rasg t i s j => exact assignMode_writes _ _
  all_goals exact Or.inl trivial

/-- an executed operation is a single write of its value through its target -/
theorem seqStep_eq (conj : K → K) (st st' : SeqState K) (op : SOp K) (h : seqStep conj st op = some st') :
    opOk st op = true ∧ st' = st.wr op.target (opVal conj st op).freeze := by
  unfold seqStep at h
  by_cases hok : opOk st op = true
  · refine ⟨hok, ?_⟩
    simp only [hok, Bool.not_true, Bool.false_eq_true, if_false] at h
    rcases handleMode_writes st op with hm | hm
    · rw [hm] at h; exact (Option.some.inj h).symm
    · rw [hm] at h; exact (Option.some.inj h).symm
  · simp [hok] at h

/-- **one write, through the target, of the value-level result**: the store after an executed operation -/
theorem step_frame (conj : K → K) (st st' : SeqState K) (op : SOp K) (hwf : st.wf) (h : seqStep conj st op = some st') :
    st'.wf ∧ st'.regs = st.regs ∧ op.target < st.size ∧ st.kind op.target ≠ .tv
    ∧ (∀ i, i ≠ op.target → st'.buf i = st.buf i)
    ∧ st'.buf op.target = (opVal conj st op).freeze := by
  obtain ⟨hok, rfl⟩ := seqStep_eq conj st st' op h
  obtain ⟨ht, hk⟩ := opOk_target st op hok
  have hp : st.ptr op.target = op.target := (hwf.2 _ ht).1 hk
  have hl : op.target < st.bufs.length := by rw [← hwf.1]; exact ht
  refine ⟨wr_wf st _ _ hwf, rfl, ht, hk, ?_, ?_⟩
  · intro i hi
    rw [wr_buf, hp, if_neg (fun c => hi c.1)]
  · rw [wr_buf, hp, if_pos ⟨rfl, hl⟩]

/-- entries and shape of the target's cell after the operation, in terms of the value-level result -/
theorem step_target (conj : K → K) (st st' : SeqState K) (op : SOp K) (hwf : st.wf) (h : seqStep conj st op = some st') :
    (st'.buf op.target).rows = (opVal conj st op).rows ∧ (st'.buf op.target).cols = (opVal conj st op).cols
    ∧ ∀ r c, r < (opVal conj st op).rows → c < (opVal conj st op).cols →
        (st'.buf op.target).e r c = (opVal conj st op).e r c := by
  have hb := (step_frame conj st st' op hwf h).2.2.2.2.2
  rw [hb]
  exact ⟨rfl, rfl, fun r c hr hc => freeze_e_in _ r c hr hc⟩

/-! ### histories -/

theorem trace_steps (conj : K → K) (ops : List (SOp K)) : ∀ (st : SeqState K) (sts : List (SeqState K)),
    st.wf → seqTrace conj st ops = some sts →
    sts.length = ops.length ∧
    ∀ (k : Nat) (prev cur : SeqState K) (op : SOp K), (st :: sts)[k]? = some prev → sts[k]? = some cur → ops[k]? = some op →
      seqStep conj prev op = some cur ∧ prev.wf ∧ cur.wf ∧ cur.regs = st.regs := by
  induction ops with
  | nil =>
    intro st sts _ h
    simp only [seqTrace, Option.some.injEq] at h
    subst h
    refine ⟨rfl, ?_⟩
    intro k prev cur op _ hc _
    simp at hc
  | cons op0 ops ih =>
    intro st sts hwf h
    simp only [seqTrace] at h
    cases hs : seqStep conj st op0 with
    | none => simp [hs] at h
    | some st1 =>
      simp only [hs] at h
      cases ht : seqTrace conj st1 ops with
      | none => simp [ht] at h
      | some rest =>
        simp only [ht, Option.map_some, Option.some.injEq] at h
        subst h
        have f1 := step_frame conj st st1 op0 hwf hs
        obtain ⟨hlen, hrest⟩ := ih st1 rest f1.1 ht
        refine ⟨by simp [hlen], ?_⟩
        intro k prev cur op hp hc ho
        cases k with
        | zero =>
          simp only [List.getElem?_cons_zero, Option.some.injEq] at hp hc ho
          subst hp; subst hc; subst ho
          exact ⟨hs, hwf, f1.1, f1.2.1⟩
        | succ k =>
          simp only [List.getElem?_cons_succ] at hp hc ho
          obtain ⟨a, b, c, d⟩ := hrest k prev cur op hp hc ho
          exact ⟨a, b, c, d.trans f1.2.1⟩

/-! ### declarations -/

theorem init_reg (ds : List (Decl K)) (i : Nat) (d : Decl K) (h : ds[i]? = some d) :
    (initState ds).regs[i]? = some (if d.kind == .tv then ⟨.tv, d.wraps, d.wraps⟩ else ⟨d.kind, i, i⟩) := by
  have hi : i < ds.length := by
    rcases Nat.lt_or_ge i ds.length with hlt | hge
    · exact hlt
    · rw [List.getElem?_eq_none hge] at h; cases h
  simp only [initState, List.getElem?_map, List.getElem?_range hi, Option.map_some, h]
  by_cases hk : d.kind = .tv
  · have h1 : (Gen.tvHolds == ViewHold.reference) = true := by decide
    have h2 : (Gen.twRefHolds == ViewHold.reference) = true := by decide
    cases hv : d.viaRefWrapper <;> simp [hk, h1, h2]
  · simp [hk]

theorem init_size (ds : List (Decl K)) : (initState ds).size = ds.length := by
  simp [SeqState.size, initState]

theorem init_kind (ds : List (Decl K)) (i : Nat) (d : Decl K) (h : ds[i]? = some d) : (initState ds).kind i = d.kind := by
  simp only [SeqState.kind, init_reg ds i d h]
  by_cases hk : d.kind = .tv <;> simp [hk]

theorem init_wf (ds : List (Decl K)) (hds : declsOk ds) : (initState ds).wf := by
  refine ⟨by simp [initState], ?_⟩
  intro i hi
  have hi' : i < ds.length := by simpa [initState] using hi
  have hd : ds[i]? = some ds[i] := List.getElem?_eq_getElem hi'
  have hr := init_reg ds i ds[i] hd
  refine ⟨?_, ?_⟩
  · intro hk
    have hk' : ds[i].kind ≠ .tv := by rw [← init_kind ds i _ hd]; exact hk
    simp only [SeqState.ptr, hr]
    simp [hk']
  · intro hk
    have hk' : ds[i].kind = .tv := by rw [← init_kind ds i _ hd]; exact hk
    obtain ⟨b, hb, hbk⟩ := hds i ds[i] hd hk'
    have hw : ds[i].wraps < ds.length := by
      rcases Nat.lt_or_ge ds[i].wraps ds.length with hlt | hge
      · exact hlt
      · rw [List.getElem?_eq_none hge] at hb; cases hb
    refine ⟨?_, ?_, ?_⟩
    · simp only [SeqState.ptr, SeqState.wraps, hr]
      simp [hk']
    · simp only [SeqState.wraps, hr]
      simpa [hk', initState] using hw
    · have : (initState ds).wraps i = ds[i].wraps := by
        simp only [SeqState.wraps, hr]; simp [hk']
      rw [this, init_kind ds _ b hb]
      exact hbk

theorem init_buf (ds : List (Decl K)) (i : Nat) (d : Decl K) (h : ds[i]? = some d) (hk : d.kind ≠ .tv) :
    (initState ds).buf i = d.init := by
  simp only [SeqState.buf, initState, List.getD_eq_getElem?_getD, List.getElem?_map, h, Option.map_some, Option.getD_some]
  simp [hk]

end

end DV.C01
