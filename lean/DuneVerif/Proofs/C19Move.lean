/-
C19 round three — helper lemmas for the two-buffer future `MPIFuture<R,S>` (`get_send_data()`), move construction and
move assignment.  Core Lean only.
-/
import DuneVerif.Proofs.C19Future

namespace DV.C19

/-- `get_send_data()` seen by request and receive buffer: a `wait()` -/
def asWait : FOp2 → FOp
  | .call o => o
  | .sendData => .wait

theorem runFut2_nil (f : MpiFut2) : runFut2 f [] = some ([], f) := rfl

theorem runFut2_cons (f : MpiFut2) (o : FOp2) (os : List FOp2) :
    runFut2 f (o :: os) =
      (MpiFut2.step f o).bind fun r => (runFut2 r.2 os).map fun rest => (r.1 :: rest.1, rest.2) := by
  simp only [runFut2]
  cases MpiFut2.step f o with
  | none => rfl
  | some r =>
    cases h : runFut2 r.2 os <;> simp [h]

theorem runFut2_append (f : MpiFut2) (h1 h2 : List FOp2) :
    runFut2 f (h1 ++ h2) =
      (runFut2 f h1).bind fun r1 => (runFut2 r1.2 h2).map fun r2 => (r1.1 ++ r2.1, r2.2) := by
  induction h1 generalizing f with
  | nil =>
    simp only [List.nil_append, runFut2_nil, Option.bind_some]
    cases runFut2 f h2 <;> simp
  | cons o os ih =>
    rw [List.cons_append, runFut2_cons, runFut2_cons]
    cases hs : MpiFut2.step f o with
    | none => rfl
    | some r =>
      simp only [Option.bind_some]
      rw [ih]
      cases h1 : runFut2 r.2 os with
      | none => rfl
      | some r1 =>
        simp only [Option.bind_some, Option.map_some]
        cases runFut2 r1.2 h2 <;> simp

/-- the calls of every future on a two-buffer future: request and receive buffer evolve exactly as in `MPIFuture<R>`,
the send object is not touched -/
theorem runFut2_calls (f : MpiFut2) (h : List FOp) :
    runFut2 f (h.map .call) =
      some (trace MpiFut.step f.base h, { base := final MpiFut.step f.base h, send := f.send }) := by
  induction h generalizing f with
  | nil => rfl
  | cons o os ih =>
    rw [List.map_cons, runFut2_cons]
    simp only [MpiFut2.step, Option.bind_some]
    rw [ih]
    rfl

theorem wait_obs (b : MpiFut) : (MpiFut.wait b).1 = if b.valid then .ok else .errInvalid := by
  cases hv : b.valid <;> simp [MpiFut.wait, hv]

/-- `get_send_data()` on a future that still owns its send object -/
theorem sendData_some (f : MpiFut2) (s : List Int) (hs : f.send = some s) :
    MpiFut2.step f .sendData =
      some (if f.base.valid then .data s else .errInvalid,
        { base := (MpiFut.step f.base .wait).2, send := if f.base.valid then none else some s }) := by
  cases f with
  | mk b sd =>
    simp only at hs
    subst hs
    cases hv : b.valid <;> simp [MpiFut2.step, MpiFut2.sendData, MpiFut.step, MpiFut.wait, hv]

/-- `get_send_data()` after the send object has been handed out, on a future that is still valid: undefined -/
theorem sendData_none (f : MpiFut2) (hs : f.send = none) (hv : f.base.valid = true) :
    MpiFut2.step f .sendData = none := by
  cases f with
  | mk b sd =>
    simp only at hs hv
    subst hs
    simp [MpiFut2.step, MpiFut2.sendData, MpiFut.wait, hv]

end DV.C19
