/-
C17 — `roundM` / `truncM` (integer target type explicit, values stored in an `I` variable reduced as the type does)
against `round` / `trunc` (mathematical integers).  Core Lean only; generic over the scalar type: nothing but the
shape of the algorithms is used, so the statements hold for the exact rationals, for every ordered field and for the
rounding arithmetic `FP f` alike.
-/
import DuneVerif.Model.C17

set_option linter.unusedSectionVars false
namespace DV.C17

theorem IType.wrap_signed {t : IType} (h : t.signed = true) (x : Int) : t.wrap x = x := by
  simp [IType.wrap, h]

theorem IType.arith_signed {t : IType} (h : t.signed = true) (x : Int) : t.arith x = x := by
  simp [IType.arith, IType.wrap, h]

/-- a value of an unsigned type is stored unchanged -/
theorem IType.wrap_of_range {t : IType} (x : Int) (h0 : 0 ≤ x) (h1 : x < 2 ^ t.bits) : t.wrap x = x := by
  unfold IType.wrap
  split
  · rfl
  · exact Int.emod_eq_of_lt h0 h1

theorem IType.arith_of_range {t : IType} (x : Int) (h0 : 0 ≤ x) (h1 : x < 2 ^ t.bits) : t.arith x = x := by
  unfold IType.arith
  split
  · rfl
  · exact IType.wrap_of_range x h0 h1

/-- `0 - 1` in an unsigned type is its largest value -/
theorem IType.wrap_neg_one {t : IType} (h : t.signed = false) : t.wrap (0 - 1) = 2 ^ t.bits - 1 := by
  have hp : (0 : Int) < 2 ^ t.bits := Int.pow_pos (by decide)
  simp only [IType.wrap, h, Bool.false_eq_true, if_false]
  have h1 : ((0 : Int) - 1) % 2 ^ t.bits = ((0 - 1) + 2 ^ t.bits) % 2 ^ t.bits := by
    rw [Int.add_emod_right]
  rw [h1]
  exact Int.emod_eq_of_lt (by omega) (by omega)

/-- the largest value plus one is 0 in an unsigned type -/
theorem IType.wrap_pow {t : IType} (h : t.signed = false) : t.wrap (2 ^ t.bits - 1 + 1) = 0 := by
  simp [IType.wrap, h]

section
variable {K : Type} [Zero K] [Neg K] [Sub K] [Mul K] [LT K] [LE K] [DecidableLT K] [DecidableLE K] [IntCast K]

/-- none of the integers the algorithms store for the argument `x` leaves the target type `t`: the decrement of
    `I(val)` (executed only if `T(I(val)) > val`), the values `I(val) … I(val)+2`, and 1 -/
structure NoWrap (t : IType) (tr : K → Int) (x : K) : Prop where
  dec : ((tr x : Int) : K) > x → t.wrap (tr x - 1) = tr x - 1
  up : ∀ y : Int, tr x ≤ y → y ≤ tr x + 2 → t.wrap y = y ∧ t.arith y = y
  one : t.wrap 1 = 1

/-- a signed target type never reduces (overflow is outside the model) -/
theorem noWrap_signed {t : IType} (h : t.signed = true) (tr : K → Int) (x : K) : NoWrap t tr x :=
  ⟨fun _ => IType.wrap_signed h _, fun y _ _ => ⟨IType.wrap_signed h y, IType.arith_signed h y⟩, IType.wrap_signed h 1⟩

/-- an unsigned target type: the conversion `I(val)` is not above the argument (true for every non-negative argument),
    it is non-negative and two below the largest value -/
theorem noWrap_unsigned {t : IType} (tr : K → Int) (x : K) (hle : ¬ ((tr x : Int) : K) > x) (h0 : 0 ≤ tr x)
    (hhi : tr x + 2 < 2 ^ t.bits) : NoWrap t tr x := by
  refine ⟨fun h => absurd h hle, fun y h1 h2 => ?_, ?_⟩
  · exact ⟨IType.wrap_of_range y (by omega) (by omega), IType.arith_of_range y (by omega) (by omega)⟩
  · exact IType.wrap_of_range 1 (by omega) (by omega)

theorem roundDownM_eq {t : IType} (s : Style) {tr : K → Int} {x : K} (e : K) (h : NoWrap t tr x) :
    roundDownM t s tr x e = roundDown s tr x e := by
  unfold roundDownM roundDown
  by_cases hg : ((tr x : Int) : K) > x
  · simp only [hg, if_true, h.dec hg]
  · simp only [hg, if_false, (h.up (tr x + 1) (by omega) (by omega)).1]

theorem roundUpM_eq {t : IType} (s : Style) {tr : K → Int} {x : K} (e : K) (h : NoWrap t tr x) :
    roundUpM t s tr x e = roundUp s tr x e := by
  unfold roundUpM roundUp
  by_cases hg : ((tr x : Int) : K) > x
  · simp only [hg, if_true, h.dec hg]
  · simp only [hg, if_false, (h.up (tr x + 1) (by omega) (by omega)).1]

/-- without wrap-around `roundM` is `round` -/
theorem roundM_eq {t : IType} (s : Style) (rs : RStyle) {tr : K → Int} {x : K} (e : K) (h : NoWrap t tr x) :
    roundM t s rs tr x e = round s rs tr x e := by
  cases rs <;> simp only [roundM, round, roundDownM_eq s e h, roundUpM_eq s e h]

/-- `round` stores a wrapped value only in the variable it returns, never in one it converts back to `T` (that is
    the repair of fixes/C17_round_unsigned.patch): if `I(val)` and `I(val)+1` are values of the type, `roundM` is the
    mathematical result reduced to the type — for an unsigned type and an argument in (-1,0): 0 stays 0, -1 becomes
    the largest value -/
theorem roundM_eq_wrap {t : IType} (s : Style) (rs : RStyle) (tr : K → Int) (x e : K)
    (h0 : t.wrap (tr x) = tr x) (h1 : t.wrap (tr x + 1) = tr x + 1) :
    roundM t s rs tr x e = t.wrap (round s rs tr x e) := by
  have hd : roundDownM t s tr x e = t.wrap (roundDown s tr x e) := by
    unfold roundDownM roundDown
    by_cases hE : eqS s ((tr x : Int) : K) x e = true
    · simp only [hE, if_true, h0]
    · simp only [hE, Bool.false_eq_true, if_false]
      by_cases hg : ((tr x : Int) : K) > x
      · simp only [hg, if_true]; split <;> simp [h0]
      · simp only [hg, if_false, h1]; split <;> simp [h0, h1]
  have hu : roundUpM t s tr x e = t.wrap (roundUp s tr x e) := by
    unfold roundUpM roundUp
    by_cases hE : eqS s ((tr x : Int) : K) x e = true
    · simp only [hE, if_true, h0]
    · simp only [hE, Bool.false_eq_true, if_false]
      by_cases hg : ((tr x : Int) : K) > x
      · simp only [hg, if_true]; split <;> simp [h0]
      · simp only [hg, if_false, h1]; split <;> simp [h0, h1]
  cases rs <;> simp only [roundM, round, hd, hu] <;> (try split) <;> rfl

/-- the value of `lower` after `if(T(lower) > val) lower--` -/
def lowerOf (tr : K → Int) (x : K) : Int := if ((tr x : Int) : K) > x then tr x - 1 else tr x

theorem truncDown_mem (s : Style) (u : Bool) (tr : K → Int) (x e : K) :
    truncDown s u tr x e = 0 ∨ truncDown s u tr x e = lowerOf tr x ∨ truncDown s u tr x e = lowerOf tr x + 1 := by
  unfold truncDown lowerOf
  by_cases hgd : (u && eqS s x ((0 : Int) : K) e) = true
  · left; simp only [hgd, if_true]
  · right
    simp only [hgd, Bool.false_eq_true, if_false]
    by_cases hg : ((tr x : Int) : K) > x
    · simp only [hg, if_true]
      split
      · exact Or.inl rfl
      · split
        · exact Or.inr rfl
        · exact Or.inl rfl
    · simp only [hg, if_false]
      split
      · exact Or.inl rfl
      · split
        · exact Or.inr rfl
        · exact Or.inl rfl

theorem truncDownM_eq {t : IType} (s : Style) {tr : K → Int} {x : K} (e : K) (h : NoWrap t tr x) :
    truncDownM t s tr x e = truncDown s (!t.signed) tr x e := by
  unfold truncDownM truncDown
  by_cases hg : ((tr x : Int) : K) > x
  · have h1 := h.up (tr x - 1 + 1) (by omega) (by omega)
    simp only [hg, if_true, h.dec hg, h1.1, h1.2]
  · have h1 := h.up (tr x + 1) (by omega) (by omega)
    simp only [hg, if_false, h1.1, h1.2]

theorem truncUpM_eq {t : IType} (s : Style) {tr : K → Int} {x : K} (e : K) (h : NoWrap t tr x) :
    truncUpM t s tr x e = truncUp s (!t.signed) tr x e := by
  unfold truncUpM truncUp
  rw [truncDownM_eq s e h]
  have hw : t.wrap (truncDown s (!t.signed) tr x e + 1) = truncDown s (!t.signed) tr x e + 1 := by
    rcases truncDown_mem s (!t.signed) tr x e with h0 | h0 | h0 <;> rw [h0]
    · simpa using h.one
    · unfold lowerOf; split
      · exact (h.up _ (by omega) (by omega)).1
      · exact (h.up _ (by omega) (by omega)).1
    · unfold lowerOf; split
      · exact (h.up _ (by omega) (by omega)).1
      · exact (h.up _ (by omega) (by omega)).1
  simp only [hw]

/-- without wrap-around `truncM` is `trunc` (with the unsigned-target guard of the type) -/
theorem truncM_eq {t : IType} (s : Style) (rs : RStyle) {tr : K → Int} {x : K} (e : K) (h : NoWrap t tr x) :
    truncM t s rs tr x e = trunc s (!t.signed) rs tr x e := by
  cases rs <;> simp only [truncM, trunc, truncDownM_eq s e h, truncUpM_eq s e h]

end

end DV.C17
