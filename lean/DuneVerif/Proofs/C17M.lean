/-
C17 — `roundM` / `truncM` (integer target type explicit, values stored in an `I` variable reduced as the type does)
against `round` / `trunc` (mathematical integers).  Core Lean only; generic over the scalar type: nothing but the
shape of the algorithms is used, so the statements hold for the exact rationals, for every ordered field and for the
rounding arithmetic `FP f` alike.
-/
import DuneVerif.Model.C17

set_option linter.unusedSectionVars false
set_option linter.unusedSimpArgs false
namespace DV.C17

theorem IType.two_pow_bits {t : IType} (hb : 0 < t.bits) : (2 : Int) ^ t.bits = 2 * 2 ^ (t.bits - 1) := by
  obtain ⟨k, hk⟩ : ∃ k, t.bits = k + 1 := ⟨t.bits - 1, by omega⟩
  rw [hk, Nat.add_sub_cancel, Int.pow_succ, Int.mul_comm]

/-- a value of the type is stored unchanged -/
theorem IType.wrap_of_fits {t : IType} (hb : 0 < t.bits) (x : Int) (h : t.fits x = true) : t.wrap x = x := by
  have h2 := IType.two_pow_bits hb
  have hp : (0 : Int) < 2 ^ (t.bits - 1) := Int.pow_pos (by decide)
  unfold IType.wrap
  by_cases hs : t.signed = true
  · have h' : -(2 ^ (t.bits - 1) : Int) ≤ x ∧ x ≤ 2 ^ (t.bits - 1) - 1 := by
      simpa [IType.fits, IType.lo, IType.hi, hs] using h
    simp only [hs, if_true]
    split
    · rw [Int.emod_eq_of_lt (by omega) (by omega)]; omega
    · rfl
  · have h' : (0 : Int) ≤ x ∧ x ≤ 2 ^ t.bits - 1 := by
      simpa [IType.fits, IType.lo, IType.hi, hs] using h
    simp only [hs, Bool.false_eq_true, if_false]
    exact Int.emod_eq_of_lt (by omega) (by omega)

theorem IType.arith_of_fits {t : IType} (hb : 0 < t.bits) (x : Int) (h : t.fits x = true) : t.arith x = x := by
  unfold IType.arith
  split
  · rfl
  · exact IType.wrap_of_fits hb x h

/-- `int` and wider signed types: the model keeps the value (overflow is undefined behaviour, outside the model) -/
theorem IType.wrap_signed {t : IType} (h : t.signed = true) (hw : 32 ≤ t.bits) (x : Int) : t.wrap x = x := by
  have : ¬ t.bits < 32 := by omega
  simp [IType.wrap, h, this]

theorem IType.arith_signed {t : IType} (h : t.signed = true) (hw : 32 ≤ t.bits) (x : Int) : t.arith x = x := by
  have : ¬ t.bits < 32 := by omega
  simp [IType.arith, IType.wrap, h, this]

/-- a value of an unsigned type is stored unchanged -/
theorem IType.wrap_of_range {t : IType} (hu : t.signed = false) (x : Int) (h0 : 0 ≤ x) (h1 : x < 2 ^ t.bits) :
    t.wrap x = x := by
  simp only [IType.wrap, hu, Bool.false_eq_true, if_false]
  exact Int.emod_eq_of_lt h0 h1

theorem IType.arith_of_range {t : IType} (hu : t.signed = false) (x : Int) (h0 : 0 ≤ x) (h1 : x < 2 ^ t.bits) :
    t.arith x = x := by
  unfold IType.arith
  split
  · rfl
  · exact IType.wrap_of_range hu x h0 h1

/-- `0 - 1` in an unsigned type is its largest value -/
theorem IType.wrap_neg_one {t : IType} (h : t.signed = false) : t.wrap (0 - 1) = 2 ^ t.bits - 1 := by
  have hp : (0 : Int) < 2 ^ t.bits := Int.pow_pos (by decide)
  simp only [IType.wrap, h, Bool.false_eq_true, if_false]
  have h1 : ((0 : Int) - 1) % 2 ^ t.bits = ((0 - 1) + 2 ^ t.bits) % 2 ^ t.bits := by
    rw [Int.add_emod_right]
  rw [h1]
  exact Int.emod_eq_of_lt (by omega) (by omega)

/-- the largest value plus one is 0 in an unsigned type -/
theorem IType.wrap_pow {t : IType} (h : t.signed = false) : t.wrap (2 ^ t.bits - 1 + 1) = 0 := by
  simp [IType.wrap, h]

/-- the smallest value of a narrow signed type minus one is its largest value, and back -/
theorem IType.wrap_lo_pred {t : IType} (hs : t.signed = true) (hn : t.bits < 32) (hb : 0 < t.bits) :
    t.wrap (-(2 ^ (t.bits - 1) : Int) - 1) = 2 ^ (t.bits - 1) - 1 := by
  have h2 := IType.two_pow_bits hb
  have hp : (0 : Int) < 2 ^ (t.bits - 1) := Int.pow_pos (by decide)
  simp only [IType.wrap, hs, hn, if_true]
  have h1 : (-(2 ^ (t.bits - 1) : Int) - 1 + 2 ^ (t.bits - 1)) % 2 ^ t.bits = 2 ^ t.bits - 1 := by
    have : (-(2 ^ (t.bits - 1) : Int) - 1 + 2 ^ (t.bits - 1)) = -1 := by omega
    rw [this]
    have h3 : ((-1 : Int)) % 2 ^ t.bits = (-1 + 2 ^ t.bits) % 2 ^ t.bits := by rw [Int.add_emod_right]
    rw [h3]; exact Int.emod_eq_of_lt (by omega) (by omega)
  rw [h1]; omega

theorem IType.wrap_hi_succ {t : IType} (hs : t.signed = true) (hn : t.bits < 32) (hb : 0 < t.bits) :
    t.wrap (2 ^ (t.bits - 1) - 1 + 1) = -(2 ^ (t.bits - 1) : Int) := by
  have h2 := IType.two_pow_bits hb
  simp only [IType.wrap, hs, hn, if_true]
  have : ((2 : Int) ^ (t.bits - 1) - 1 + 1 + 2 ^ (t.bits - 1)) = 2 ^ t.bits := by omega
  rw [this, Int.emod_self]; omega

section
variable {K : Type} [Zero K] [Neg K] [Sub K] [Mul K] [LT K] [LE K] [DecidableLT K] [DecidableLE K] [IntCast K] [Add K]

/-- none of the integers the algorithms store for the argument `x` leaves the target type `t`: the decrement of
    `I(val)` (executed only if `T(I(val)) > val`), the values `I(val) … I(val)+2`, and 1 -/
structure NoWrap (t : IType) (tr : K → Int) (x : K) : Prop where
  dec : ((tr x : Int) : K) > x → t.wrap (tr x - 1) = tr x - 1
  up : ∀ y : Int, tr x ≤ y → y ≤ tr x + 2 → t.wrap y = y ∧ t.arith y = y
  one : t.wrap 1 = 1

/-- `int` and wider signed target types never reduce (overflow is outside the model) -/
theorem noWrap_signed {t : IType} (h : t.signed = true) (hw : 32 ≤ t.bits) (tr : K → Int) (x : K) : NoWrap t tr x :=
  ⟨fun _ => IType.wrap_signed h hw _, fun y _ _ => ⟨IType.wrap_signed h hw y, IType.arith_signed h hw y⟩,
   IType.wrap_signed h hw 1⟩

/-- any target type: `I(val) - 1 … I(val) + 2` and 1 are values of the type -/
theorem noWrap_of_fits {t : IType} (hb : 0 < t.bits) (tr : K → Int) (x : K) (hlo : t.fits (tr x - 1) = true)
    (hhi : t.fits (tr x + 2) = true) (h1 : t.fits 1 = true) : NoWrap t tr x := by
  have hf : ∀ y : Int, tr x - 1 ≤ y → y ≤ tr x + 2 → t.fits y = true := by
    intro y ha hb'
    have a1 : t.lo ≤ tr x - 1 := by
      have := hlo; simp only [IType.fits, Bool.and_eq_true, decide_eq_true_eq] at this; exact this.1
    have a2 : tr x + 2 ≤ t.hi := by
      have := hhi; simp only [IType.fits, Bool.and_eq_true, decide_eq_true_eq] at this; exact this.2
    simp only [IType.fits, Bool.and_eq_true, decide_eq_true_eq]
    constructor <;> omega
  exact ⟨fun _ => IType.wrap_of_fits hb _ (hf _ (by omega) (by omega)),
    fun y ha hb' => ⟨IType.wrap_of_fits hb y (hf y (by omega) hb'), IType.arith_of_fits hb y (hf y (by omega) hb')⟩,
    IType.wrap_of_fits hb 1 h1⟩

/-- an unsigned target type: the conversion `I(val)` is not above the argument (true for every non-negative argument),
    it is non-negative and two below the largest value -/
theorem noWrap_unsigned {t : IType} (hu : t.signed = false) (tr : K → Int) (x : K) (hle : ¬ ((tr x : Int) : K) > x)
    (h0 : 0 ≤ tr x) (hhi : tr x + 2 < 2 ^ t.bits) : NoWrap t tr x := by
  refine ⟨fun h => absurd h hle, fun y h1 h2 => ?_, ?_⟩
  · exact ⟨IType.wrap_of_range hu y (by omega) (by omega), IType.arith_of_range hu y (by omega) (by omega)⟩
  · exact IType.wrap_of_range hu 1 (by omega) (by omega)

/-- `round` applies the reduction of the type only to the value it returns (fixes/C17_round_unsigned.patch,
    fixes/C17_round_range_end.patch: all distances are computed in `T` from `T(I(val))`): `roundM` is the mathematical
    result reduced to the type, for EVERY argument whose integer part `I(val)` is a value of the type — beyond the largest
    and the smallest value of the type and in (-1,0) for an unsigned type as well -/
theorem roundM_eq_wrap {t : IType} (s : Style) (rs : RStyle) (tr : K → Int) (x e : K)
    (h0 : t.wrap (tr x) = tr x) :
    roundM t s rs tr x e = t.wrap (round s rs tr x e) := by
  have hd : roundDownM t s tr x e = t.wrap (roundDown s tr x e) := by
    unfold roundDownM roundDown
    by_cases hE : eqS s ((tr x : Int) : K) x e = true
    · simp only [hE, if_true, h0]
    · simp only [hE, Bool.false_eq_true, if_false]
      by_cases hg : ((tr x : Int) : K) > x
      · simp only [hg, if_true]; split <;> simp [h0]
      · simp only [hg, if_false]; split <;> simp [h0]
  have hu : roundUpM t s tr x e = t.wrap (roundUp s tr x e) := by
    unfold roundUpM roundUp
    by_cases hE : eqS s ((tr x : Int) : K) x e = true
    · simp only [hE, if_true, h0]
    · simp only [hE, Bool.false_eq_true, if_false]
      by_cases hg : ((tr x : Int) : K) > x
      · simp only [hg, if_true]; split <;> simp [h0]
      · simp only [hg, if_false]; split <;> simp [h0]
  cases rs <;> simp only [roundM, round, hd, hu] <;> (try split) <;> rfl

/-- the result of `round` is `I(val)` or one of its two neighbours -/
theorem round_mem (s : Style) (rs : RStyle) (tr : K → Int) (x e : K) :
    round s rs tr x e = tr x ∨ round s rs tr x e = tr x - 1 ∨ round s rs tr x e = tr x + 1 := by
  have hd : roundDown s tr x e = tr x ∨ roundDown s tr x e = tr x - 1 ∨ roundDown s tr x e = tr x + 1 := by
    unfold roundDown
    by_cases hE : eqS s ((tr x : Int) : K) x e = true
    · simp only [hE, if_true]; exact Or.inl trivial
    · simp only [hE, Bool.false_eq_true, if_false]
      by_cases hg : ((tr x : Int) : K) > x
      · simp only [hg, if_true]; split
        · exact Or.inr (Or.inl rfl)
        · exact Or.inl rfl
      · simp only [hg, if_false]; split
        · exact Or.inl rfl
        · exact Or.inr (Or.inr rfl)
  have hu : roundUp s tr x e = tr x ∨ roundUp s tr x e = tr x - 1 ∨ roundUp s tr x e = tr x + 1 := by
    unfold roundUp
    by_cases hE : eqS s ((tr x : Int) : K) x e = true
    · simp only [hE, if_true]; exact Or.inl trivial
    · simp only [hE, Bool.false_eq_true, if_false]
      by_cases hg : ((tr x : Int) : K) > x
      · simp only [hg, if_true]; split
        · exact Or.inr (Or.inl rfl)
        · exact Or.inl rfl
      · simp only [hg, if_false]; split
        · exact Or.inl rfl
        · exact Or.inr (Or.inr rfl)
  cases rs <;> simp only [round] <;> (try split) <;> assumption

/-- without wrap-around `roundM` is `round` -/
theorem roundM_eq {t : IType} (s : Style) (rs : RStyle) {tr : K → Int} {x : K} (e : K) (h : NoWrap t tr x) :
    roundM t s rs tr x e = round s rs tr x e := by
  have h0 := (h.up (tr x) (by omega) (by omega)).1
  have hd : roundDownM t s tr x e = roundDown s tr x e := by
    unfold roundDownM roundDown
    by_cases hg : ((tr x : Int) : K) > x
    · simp only [hg, if_true, h.dec hg]
    · simp only [hg, if_false, (h.up (tr x + 1) (by omega) (by omega)).1]
  have hu : roundUpM t s tr x e = roundUp s tr x e := by
    unfold roundUpM roundUp
    by_cases hg : ((tr x : Int) : K) > x
    · simp only [hg, if_true, h.dec hg]
    · simp only [hg, if_false, (h.up (tr x + 1) (by omega) (by omega)).1]
  cases rs <;> simp only [roundM, round, hd, hu]

/-- the value of `lower` after `if(T(lower) > val) lower--` -/
def lowerOf (tr : K → Int) (x : K) : Int := if ((tr x : Int) : K) > x then tr x - 1 else tr x

theorem truncDown_mem (s : Style) (u : Bool) (tr : K → Int) (x e : K) :
    truncDown s u tr x e = 0 ∨ truncDown s u tr x e = lowerOf tr x ∨ truncDown s u tr x e = lowerOf tr x + 1 := by
  unfold truncDown lowerOf
  by_cases hgd : (u && eqS s x ((0 : Int) : K) e) = true
  · left; simp only [hgd, if_true]
  · right
    simp only [hgd, Bool.false_eq_true, if_false]
    by_cases hg : ((tr x : Int) : K) > x
    · simp only [hg, if_true, decide_true, Bool.true_and]
      split
      · right; omega
      · split
        · exact Or.inl rfl
        · split
          · exact Or.inr rfl
          · exact Or.inl rfl
    · simp only [hg, if_false, decide_false, Bool.false_and, Bool.false_eq_true]
      split
      · exact Or.inl rfl
      · split
        · exact Or.inr rfl
        · exact Or.inl rfl

theorem truncDownM_eq {t : IType} (s : Style) {tr : K → Int} {x : K} (e : K) (h : NoWrap t tr x) :
    truncDownM t s tr x e = truncDown s (!t.signed) tr x e := by
  unfold truncDownM truncDown
  by_cases hg : ((tr x : Int) : K) > x
  · have h1 := h.up (tr x - 1 + 1) (by omega) (by omega)
    simp only [hg, if_true, h.dec hg, h1.1, h1.2]
  · have h1 := h.up (tr x + 1) (by omega) (by omega)
    simp only [hg, if_false, h1.1, h1.2]

theorem truncUpM_eq {t : IType} (s : Style) {tr : K → Int} {x : K} (e : K) (h : NoWrap t tr x) :
    truncUpM t s tr x e = truncUp s (!t.signed) tr x e := by
  unfold truncUpM truncUp
  rw [truncDownM_eq s e h]
  have hw : t.wrap (truncDown s (!t.signed) tr x e + 1) = truncDown s (!t.signed) tr x e + 1 := by
    rcases truncDown_mem s (!t.signed) tr x e with h0 | h0 | h0 <;> rw [h0]
    · simpa using h.one
    · unfold lowerOf; split
      · exact (h.up _ (by omega) (by omega)).1
      · exact (h.up _ (by omega) (by omega)).1
    · unfold lowerOf; split
      · exact (h.up _ (by omega) (by omega)).1
      · exact (h.up _ (by omega) (by omega)).1
  simp only [hw]

/-- without wrap-around `truncM` is `trunc` (with the unsigned-target guard of the type) -/
theorem truncM_eq {t : IType} (s : Style) (rs : RStyle) {tr : K → Int} {x : K} (e : K) (h : NoWrap t tr x) :
    truncM t s rs tr x e = trunc s (!t.signed) rs tr x e := by
  cases rs <;> simp only [truncM, trunc, truncDownM_eq s e h, truncUpM_eq s e h]

theorem IType.fits_zero {t : IType} (hb : 0 < t.bits) : t.fits 0 = true := by
  have hp : (0 : Int) < 2 ^ (t.bits - 1) := Int.pow_pos (by decide)
  have hq : (0 : Int) < 2 ^ t.bits := Int.pow_pos (by decide)
  by_cases hs : t.signed = true
  · simp [IType.fits, IType.lo, IType.hi, hs]; omega
  · simp [IType.fits, IType.lo, IType.hi, hs]; omega

theorem IType.not_fits_succ {t : IType} {a b : Int} (ha : t.fits a = true) (hab : a ≤ b) (hb : t.fits b = false) (c : Int)
    (hbc : b ≤ c) : t.fits c = false := by
  simp only [IType.fits, Bool.and_eq_true, decide_eq_true_eq] at ha
  rw [Bool.eq_false_iff] at hb ⊢
  intro hc
  apply hb
  simp only [IType.fits, Bool.and_eq_true, decide_eq_true_eq] at hc ⊢
  omega

/-- **`trunc` where `lower` is not decremented** (`T(I(val)) ≤ val`: every non-negative argument — the upper end of the
    range of the type included): if `I(val)` and the mathematical (documented) result are values of the target type, that
    result is returned.  `ha`: the expression `lower+1` does not wrap — every narrow type (integral promotion), and the wide
    ones when `I(val)+1` is a value of the type. -/
theorem truncM_of_fits_nodec {t : IType} (hb : 0 < t.bits) (s : Style) (rs : RStyle) {tr : K → Int} {x : K} (e : K)
    (hnd : ¬ ((tr x : Int) : K) > x) (ha : t.arith (tr x + 1) = tr x + 1) (h0 : t.fits (tr x) = true)
    (hD : t.fits (trunc s (!t.signed) rs tr x e) = true) :
    truncM t s rs tr x e = trunc s (!t.signed) rs tr x e := by
  have hdown : t.fits (truncDown s (!t.signed) tr x e) = true →
      truncDownM t s tr x e = truncDown s (!t.signed) tr x e := by
    intro hf
    unfold truncDown at hf
    unfold truncDownM truncDown
    simp only [hnd, if_false, decide_false, Bool.false_and, Bool.false_eq_true, ha] at hf ⊢
    split
    · rfl
    · rename_i hg
      simp only [hg, if_false] at hf
      split
      · rfl
      · rename_i hs
        simp only [hs, if_false] at hf
        split
        · rename_i hq
          simp only [hq, if_true] at hf
          exact IType.wrap_of_fits hb _ hf
        · rfl
  have hup : t.fits (truncUp s (!t.signed) tr x e) = true →
      truncUpM t s tr x e = truncUp s (!t.signed) tr x e := by
    intro hf
    cases hfd : t.fits (truncDown s (!t.signed) tr x e)
    · -- the downward result is not a value of the type: it is I(val)+1, and the upward one is at least that
      exfalso
      have hmem := truncDown_mem s (!t.signed) tr x e
      have hlow : lowerOf tr x = tr x := by unfold lowerOf; simp only [hnd, if_false]
      rw [hlow] at hmem
      have hd1 : truncDown s (!t.signed) tr x e = tr x + 1 := by
        rcases hmem with h | h | h
        · rw [h, IType.fits_zero hb] at hfd; exact Bool.noConfusion hfd
        · rw [h, h0] at hfd; exact Bool.noConfusion hfd
        · exact h
      rw [hd1] at hfd
      have hnf : t.fits (truncUp s (!t.signed) tr x e) = false := by
        unfold truncUp
        simp only [hd1]
        split
        · exact IType.not_fits_succ h0 (by omega) hfd _ (by omega)
        · exact hfd
      rw [hnf] at hf; exact Bool.noConfusion hf
    · unfold truncUpM truncUp
      rw [hdown hfd]
      unfold truncUp at hf
      by_cases hn : neS s ((truncDown s (!t.signed) tr x e : Int) : K) x e = true
      · simp only [hn, if_true] at hf ⊢
        exact IType.wrap_of_fits hb _ hf
      · simp only [hn, Bool.false_eq_true, if_false]
  cases rs
  · simp only [truncM, trunc] at hD ⊢
    split
    · rename_i h; simp only [h, if_true] at hD; exact hdown hD
    · rename_i h; simp only [h, if_false] at hD; exact hup hD
  · simp only [truncM, trunc] at hD ⊢
    split
    · rename_i h; simp only [h, if_true] at hD; exact hup hD
    · rename_i h; simp only [h, if_false] at hD; exact hdown hD
  · exact hdown hD
  · exact hup hD

/-- **`trunc` where `I(val)` lies above `val` and is equal to it within epsilon** (the lower end of the range of a narrow
    signed type included): the downward truncation returns `I(val)` — before any decrement
    (fixes/C17_trunc_range_end.patch), so nothing wraps around -/
theorem truncDownM_snap_conversion {t : IType} (s : Style) (tr : K → Int) (x e : K)
    (hz : (!t.signed && eqS s x ((0 : Int) : K) e) = false)
    (hg : ((tr x : Int) : K) > x) (hE : eqS s ((tr x : Int) : K) x e = true) :
    truncDownM t s tr x e = tr x := by
  unfold truncDownM
  simp only [hz, Bool.false_eq_true, if_false, hg, decide_true, Bool.true_and, hE, if_true]

end

end DV.C17
