import DuneVerif.Proofs.C06Pair
/-! C06 helper lemmas, part 5: the small-step machine of one directed neighbour relation.
    Invariant (five phases of the rendezvous cycle), measure, enabledness. -/
namespace DV.C06

def SendReq.weight : SendReq → Nat
  | .null => 0
  | _ => 1

def RecvReq.weight {β : Type} : RecvReq β → Nat
  | .null => 0
  | _ => 1

/-- decreases with every step of a reachable state -/
def Pair.measure {β σ : Type} (s : Pair β σ) : Nat :=
  3 * (s.st.indicesLeft + s.rt.indicesLeft) + 2 * s.chan.length + s.sreq.weight + s.rreq.weight

section generic
variable {β σ : Type} (hd : Handle β) (B f : Nat) (getCount : Bool)
  (unpack : Tracker → MessageBuffer β → Nat → σ → Tracker × MessageBuffer β × σ)
  (T : Nat → List Nat → List Nat → Tracker) (Inv : σ → Nat → List Nat → List Nat → Prop)

/-- what the generic lemmas need to know about the receive side (cf. `recvLoop_generic`) -/
structure RecvSide : Prop where
  skip : ∀ k js is, (T k js is).skipZeroIndices = T k js is
  fin : ∀ k js is, js.length = is.length → Fits hd B f is → (T k js is).finished = (total hd is == 0)
  round : ∀ k js is (b : MessageBuffer β) acc, js.length = is.length → Fits hd B f is → 0 < total hd is →
      b.size = B → b.position = 0 →
      (unpack (T k js is) (b.received ((round1 hd B f is).1.flatMap hd.data))
          (if getCount then total hd (round1 hd B f is).1 else 0) acc).1.skipZeroIndices
        = T (k + (round1 hd B f is).1.length) (js.drop (round1 hd B f is).1.length) (round1 hd B f is).2 ∧
      (unpack (T k js is) (b.received ((round1 hd B f is).1.flatMap hd.data))
          (if getCount then total hd (round1 hd B f is).1 else 0) acc).2.1.size = B
  left : ∀ k js is, js.length = is.length → Fits hd B f is → 0 < total hd is →
      (T (k + (round1 hd B f is).1.length) (js.drop (round1 hd B f is).1.length) (round1 hd B f is).2).indicesLeft
        < (T k js is).indicesLeft
  /-- the invariant of the accumulated result (`Inv acc k is js`: `acc` is right for everything before `is`/`js`) -/
  roundInv : ∀ k js is (b : MessageBuffer β) acc, js.length = is.length → Fits hd B f is → 0 < total hd is →
      b.size = B → b.position = 0 → Inv acc k is js →
      Inv (unpack (T k js is) (b.received ((round1 hd B f is).1.flatMap hd.data))
          (if getCount then total hd (round1 hd B f is).1 else 0) acc).2.2
        (k + (round1 hd B f is).1.length) (round1 hd B f is).2 (js.drop (round1 hd B f is).1.length)

abbrev cfgOf : PairCfg β σ := ⟨true, getCount, hd, unpack⟩

/-- the message of the next round for the indices `is` -/
abbrev msg1 (is : List Nat) : List β := (round1 hd B f is).1.flatMap hd.data
abbrev rest1 (is : List Nat) : List Nat := (round1 hd B f is).2

/-- reachable states: `isR`/`jsR` is what the receiver has not yet unpacked -/
def PInv (s : Pair β σ) : Prop :=
  ∃ (isR jsR : List Nat) (kR kS rS : Nat),
    jsR.length = isR.length ∧ Fits hd B f isR ∧ s.rt = T kR jsR isR ∧ s.sb.size = B ∧ s.rb.size = B ∧
    Inv s.acc kR isR jsR ∧
    ( -- A: the message is in the channel, the receive is posted
      (0 < total hd isR ∧ s.st = sendT rS kS (rest1 hd B f isR) f ∧ s.sreq = .active ∧ s.chan = [msg1 hd B f isR] ∧
        s.rreq = .posted ∧ s.sendOpen = true ∧ s.recvOpen = true ∧ s.rb.position = 0)
    ∨ -- B: matched, both completions can be reported
      (0 < total hd isR ∧ s.st = sendT rS kS (rest1 hd B f isR) f ∧ s.sreq = .complete ∧ s.chan = [] ∧
        s.rreq = .complete (msg1 hd B f isR) ∧ s.sendOpen = true ∧ s.recvOpen = true ∧ s.rb.position = 0)
    ∨ -- C: the receiver has unpacked, the sender has not yet seen its completion
      (s.st = sendT rS kS isR f ∧ s.sreq = .complete ∧ s.chan = [] ∧ s.sendOpen = true ∧
        ((0 < total hd isR ∧ s.rreq = .posted ∧ s.recvOpen = true ∧ s.rb.position = 0) ∨
         (isR = [] ∧ s.rreq = .null ∧ s.recvOpen = false)))
    ∨ -- D: the sender has continued, the receiver has not yet seen its completion
      (0 < total hd isR ∧ s.rreq = .complete (msg1 hd B f isR) ∧ s.recvOpen = true ∧ s.rb.position = 0 ∧
        ((rest1 hd B f isR = [] ∧ s.st = sendT rS kS [] f ∧ s.sreq = .null ∧ s.chan = [] ∧ s.sendOpen = false) ∨
         (rest1 hd B f isR ≠ [] ∧ s.st = sendT rS kS (rest1 hd B f (rest1 hd B f isR)) f ∧ s.sreq = .active ∧
            s.chan = [msg1 hd B f (rest1 hd B f isR)] ∧ s.sendOpen = true)))
    ∨ -- E: done
      (total hd isR = 0 ∧ s.st.finished = true ∧ s.sreq = .null ∧ s.chan = [] ∧ s.rreq = .null ∧
        s.sendOpen = false ∧ s.recvOpen = false))

variable {hd B f getCount unpack T Inv}

theorem total_round_pos {is : List Nat} (hf : Fits hd B f is) (ht : 0 < total hd is) :
    total hd (round1 hd B f is).1 ≠ 0 := by
  intro hz
  have hr := round1_zero hd B f is hf hz
  have : total hd is = 0 := by
    rw [← round1_append hd B f is, total_append, hz, hr]; simp
  omega

theorem rest_nil_or_pos {is : List Nat} (hf : Fits hd B f is) :
    (round1 hd B f is).2 = [] ∨ 0 < total hd (round1 hd B f is).2 := by
  by_cases hr : (round1 hd B f is).2 = []
  · exact Or.inl hr
  · exact Or.inr (round1_rest_total hd B f is hf hr)

theorem drop_length_rest {is js : List Nat} (hl : js.length = is.length) :
    (js.drop (round1 hd B f is).1.length).length = (round1 hd B f is).2.length := by
  have := congrArg List.length (round1_append hd B f is)
  simp at this ⊢; omega

/-- the sender's part of `sendDone` when indices are left -/
theorem sendDone_continue (c : PairCfg β σ) (hc : c.handle = hd) (s : Pair β σ) (rS kS : Nat) (is : List Nat)
    (hst : s.st = sendT rS kS is f) (hreq : s.sreq = .complete) (hsb : s.sb.size = B) (hf : Fits hd B f is)
    (ht : 0 < total hd is) :
    ∃ sb' : MessageBuffer β, sb'.size = B ∧
      Pair.step c s .sendDone = some { s with st := sendT rS (kS + (round1 hd B f is).1.length) (round1 hd B f is).2 f,
                                              sb := sb', sreq := .active, chan := s.chan ++ [msg1 hd B f is] } := by
  obtain ⟨h1, h2, h3⟩ := setupSend_sendT hd B f rS kS is s.sb hsb hf
  have hne : is ≠ [] := by intro e; subst e; simp at ht
  have hfin : (sendT rS kS is f).finished = false := by cases is <;> simp_all
  refine ⟨(setupSend hd (sendT rS kS is f) s.sb).buffer, h2, ?_⟩
  simp only [Pair.step, hreq, hst, sendT_skip, hfin, Bool.false_eq_true, if_false, hc, h1, h3,
    total_round_pos hf ht, ne_eq, not_false_eq_true, if_true, Option.isSome_some, Option.toList_some]

theorem sendDone_finish (c : PairCfg β σ) (s : Pair β σ) (rS kS : Nat)
    (hst : s.st = sendT rS kS [] f) (hreq : s.sreq = .complete) :
    Pair.step c s .sendDone = some { s with st := sendT rS kS [] f, sreq := .null, sendOpen := false } := by
  simp [Pair.step, hreq, hst]

/-- the receiver's part of `recvDone` -/
theorem recvDone_step (hR : RecvSide hd B f getCount unpack T Inv) (s : Pair β σ) (kR : Nat) (isR jsR : List Nat)
    (hl : jsR.length = isR.length) (hf : Fits hd B f isR) (ht : 0 < total hd isR) (hrt : s.rt = T kR jsR isR)
    (hrb : s.rb.size = B) (hpos : s.rb.position = 0) (hreq : s.rreq = .complete (msg1 hd B f isR))
    (hacc : Inv s.acc kR isR jsR) :
    ∃ (rb' : MessageBuffer β) (acc' : σ), rb'.size = B ∧
      Inv acc' (kR + (round1 hd B f isR).1.length) (rest1 hd B f isR) (jsR.drop (round1 hd B f isR).1.length) ∧
      ((rest1 hd B f isR = [] ∧
        Pair.step (cfgOf hd getCount unpack) s .recvDone = some { s with
          rt := T (kR + (round1 hd B f isR).1.length) (jsR.drop (round1 hd B f isR).1.length) [],
          rb := rb', acc := acc', rreq := .null, recvOpen := false }) ∨
       (0 < total hd (rest1 hd B f isR) ∧ rb'.position = 0 ∧
        Pair.step (cfgOf hd getCount unpack) s .recvDone = some { s with
          rt := T (kR + (round1 hd B f isR).1.length) (jsR.drop (round1 hd B f isR).1.length) (rest1 hd B f isR),
          rb := rb', acc := acc', rreq := .posted })) := by
  obtain ⟨h1, h2⟩ := hR.round kR jsR isR s.rb s.acc hl hf ht hrb hpos
  have h3 := hR.roundInv kR jsR isR s.rb s.acc hl hf ht hrb hpos hacc
  have hlen : (msg1 hd B f isR).length = total hd (round1 hd B f isR).1 := rfl
  have hjl := drop_length_rest (hd := hd) (B := B) (f := f) hl
  rcases rest_nil_or_pos hf with hr | hr
  · have hfin : (T (kR + (round1 hd B f isR).1.length) (jsR.drop (round1 hd B f isR).1.length) (round1 hd B f isR).2).finished
        = true := by
      rw [hR.fin _ _ _ hjl hf.rest, hr]; simp
    refine ⟨(unpack (T kR jsR isR) (s.rb.received (msg1 hd B f isR))
        (if getCount then total hd (round1 hd B f isR).1 else 0) s.acc).2.1,
      (unpack (T kR jsR isR) (s.rb.received (msg1 hd B f isR))
        (if getCount then total hd (round1 hd B f isR).1 else 0) s.acc).2.2, h2, h3, Or.inl ⟨hr, ?_⟩⟩
    simp only [Pair.step, hreq, hrt, hlen, h1, hfin, if_true]
    rw [hr]
  · have hfin : (T (kR + (round1 hd B f isR).1.length) (jsR.drop (round1 hd B f isR).1.length) (round1 hd B f isR).2).finished
        = false := by
      rw [hR.fin _ _ _ hjl hf.rest]; simp; omega
    refine ⟨(unpack (T kR jsR isR) (s.rb.received (msg1 hd B f isR))
        (if getCount then total hd (round1 hd B f isR).1 else 0) s.acc).2.1.reset,
      (unpack (T kR jsR isR) (s.rb.received (msg1 hd B f isR))
        (if getCount then total hd (round1 hd B f isR).1 else 0) s.acc).2.2, by simpa using h2, h3, Or.inr ⟨hr, rfl, ?_⟩⟩
    simp only [Pair.step, hreq, hrt, hlen, h1, hfin, Bool.false_eq_true, if_false,
      setupRecv_posts _ _ (hR.skip _ _ _) hfin, hR.skip, if_true]


theorem finished_left_zero (t : Tracker) (h : t.finished = true) : t.indicesLeft = 0 := by
  simpa [Tracker.finished, Tracker.indicesLeft] using h

/-- every enabled step of a reachable state leads to a reachable state and decreases the measure -/
theorem step_inv (hR : RecvSide hd B f getCount unpack T Inv) (s s' : Pair β σ) (a : Action) (hI : PInv hd B f T Inv s)
    (hs : Pair.step (cfgOf hd getCount unpack) s a = some s') : PInv hd B f T Inv s' ∧ s'.measure < s.measure := by
  obtain ⟨isR, jsR, kR, kS, rS, hl, hf, hrt, hsb, hrb, hacc, hcase⟩ := hI
  rcases hcase with hA | hB | hC | hD | hE
  · -- phase A
    obtain ⟨ht, hst, hsreq, hchan, hrreq, hso, hro, hpos⟩ := hA
    cases a with
    | deliver =>
      simp only [Pair.step, hchan, hrreq, Option.some.injEq] at hs
      subst hs
      refine ⟨⟨isR, jsR, kR, kS, rS, hl, hf, hrt, hsb, hrb, hacc, Or.inr (Or.inl ⟨ht, hst, rfl, rfl, rfl, hso, hro, hpos⟩)⟩, ?_⟩
      simp [Pair.measure, hchan, hsreq, hrreq, SendReq.weight, RecvReq.weight]
    | sendDone => simp [Pair.step, hsreq] at hs
    | recvDone => simp [Pair.step, hrreq] at hs
  · -- phase B
    obtain ⟨ht, hst, hsreq, hchan, hrreq, hso, hro, hpos⟩ := hB
    cases a with
    | deliver => simp [Pair.step, hchan] at hs
    | sendDone =>
      rcases rest_nil_or_pos hf with hr | hr
      · have hst' : s.st = sendT rS kS [] f := by rw [hst]; simp only [rest1, hr]
        rw [sendDone_finish _ s rS kS hst' hsreq, Option.some.injEq] at hs
        subst hs
        refine ⟨⟨isR, jsR, kR, kS, rS, hl, hf, hrt, hsb, hrb, hacc,
          Or.inr (Or.inr (Or.inr (Or.inl ⟨ht, hrreq, hro, hpos, Or.inl ⟨hr, rfl, rfl, hchan, rfl⟩⟩)))⟩, ?_⟩
        simp [Pair.measure, hst', hsreq, SendReq.weight]
      · obtain ⟨sb', hsb', hstep⟩ := sendDone_continue (hd := hd) (cfgOf hd getCount unpack) rfl s rS kS (rest1 hd B f isR) hst hsreq
          hsb hf.rest hr
        rw [hstep, Option.some.injEq] at hs
        subst hs
        have hne : rest1 hd B f isR ≠ [] := by intro e; simp only [rest1] at e; rw [e] at hr; simp at hr
        refine ⟨⟨isR, jsR, kR, kS + (round1 hd B f (rest1 hd B f isR)).1.length, rS, hl, hf, hrt, hsb', hrb, hacc,
          Or.inr (Or.inr (Or.inr (Or.inl ⟨ht, hrreq, hro, hpos, Or.inr ⟨hne, rfl, rfl, by simp [hchan], hso⟩⟩)))⟩, ?_⟩
        have := round1_rest_length hd B f (rest1 hd B f isR) hf.rest hne
        simp [Pair.measure, hst, hsreq, hchan, SendReq.weight]
        simp only [rest1] at this ⊢
        omega
    | recvDone =>
      obtain ⟨rb', acc', hrb', hacc', hstep⟩ := recvDone_step hR s kR isR jsR hl hf ht hrt hrb hpos hrreq hacc
      have hleft := hR.left kR jsR isR hl hf ht
      have hjl := drop_length_rest (hd := hd) (B := B) (f := f) hl
      rcases hstep with ⟨hr, hstep⟩ | ⟨hr, hpos', hstep⟩
      · rw [hstep, Option.some.injEq] at hs
        subst hs
        have hfr := hf.rest
        simp only [rest1] at hr
        simp only [rest1] at hacc'
        rw [hr] at hfr hjl hleft hacc'
        refine ⟨⟨[], jsR.drop (round1 hd B f isR).1.length, kR + (round1 hd B f isR).1.length, kS, rS, hjl, hfr, rfl, hsb,
          hrb', hacc', Or.inr (Or.inr (Or.inl ⟨by rw [hst]; simp only [rest1, hr], hsreq, hchan, hso,
            Or.inr ⟨rfl, rfl, rfl⟩⟩))⟩, ?_⟩
        simp [Pair.measure, hrt, hrreq, RecvReq.weight]
        omega
      · rw [hstep, Option.some.injEq] at hs
        subst hs
        refine ⟨⟨rest1 hd B f isR, jsR.drop (round1 hd B f isR).1.length, kR + (round1 hd B f isR).1.length, kS, rS, hjl,
          hf.rest, rfl, hsb, hrb', hacc', Or.inr (Or.inr (Or.inl ⟨hst, hsreq, hchan, hso, Or.inl ⟨hr, rfl, hro, hpos'⟩⟩))⟩, ?_⟩
        simp [Pair.measure, hrt, hrreq, RecvReq.weight]
        simp only [rest1] at hleft ⊢
        omega
  · -- phase C
    obtain ⟨hst, hsreq, hchan, hso, hsub⟩ := hC
    cases a with
    | deliver => simp [Pair.step, hchan] at hs
    | recvDone => rcases hsub with ⟨_, hrreq, _, _⟩ | ⟨_, hrreq, _⟩ <;> simp [Pair.step, hrreq] at hs
    | sendDone =>
      rcases hsub with ⟨ht, hrreq, hro, hpos⟩ | ⟨hnil, hrreq, hro⟩
      · obtain ⟨sb', hsb', hstep⟩ := sendDone_continue (hd := hd) (cfgOf hd getCount unpack) rfl s rS kS isR hst hsreq hsb hf ht
        rw [hstep, Option.some.injEq] at hs
        subst hs
        have hne : isR ≠ [] := by intro e; subst e; simp at ht
        refine ⟨⟨isR, jsR, kR, kS + (round1 hd B f isR).1.length, rS, hl, hf, hrt, hsb', hrb, hacc,
          Or.inl ⟨ht, rfl, rfl, by simp [hchan], hrreq, hso, hro, hpos⟩⟩, ?_⟩
        have := round1_rest_length hd B f isR hf hne
        simp [Pair.measure, hst, hsreq, hchan, SendReq.weight]
        omega
      · subst hnil
        rw [sendDone_finish _ s rS kS hst hsreq, Option.some.injEq] at hs
        subst hs
        refine ⟨⟨[], jsR, kR, kS, rS, hl, hf, hrt, hsb, hrb, hacc,
          Or.inr (Or.inr (Or.inr (Or.inr ⟨rfl, rfl, rfl, hchan, hrreq, rfl, hro⟩)))⟩, ?_⟩
        simp [Pair.measure, hst, hsreq, SendReq.weight]
  · -- phase D
    obtain ⟨ht, hrreq, hro, hpos, hsub⟩ := hD
    cases a with
    | deliver => simp [Pair.step, hrreq] at hs
    | sendDone => rcases hsub with ⟨_, _, hsreq, _, _⟩ | ⟨_, _, hsreq, _, _⟩ <;> simp [Pair.step, hsreq] at hs
    | recvDone =>
      obtain ⟨rb', acc', hrb', hacc', hstep⟩ := recvDone_step hR s kR isR jsR hl hf ht hrt hrb hpos hrreq hacc
      have hleft := hR.left kR jsR isR hl hf ht
      have hjl := drop_length_rest (hd := hd) (B := B) (f := f) hl
      rcases hstep with ⟨hr, hstep⟩ | ⟨hr, hpos', hstep⟩
      · rw [hstep, Option.some.injEq] at hs
        subst hs
        rcases hsub with ⟨_, hst, hsreq, hchan, hso⟩ | ⟨hne, _⟩
        · have hfr := hf.rest
          simp only [rest1] at hr
          simp only [rest1] at hacc'
          rw [hr] at hfr hjl hleft hacc'
          refine ⟨⟨[], jsR.drop (round1 hd B f isR).1.length, kR + (round1 hd B f isR).1.length, kS, rS, hjl, hfr, rfl,
            hsb, hrb', hacc', Or.inr (Or.inr (Or.inr (Or.inr ⟨rfl, by rw [hst]; rfl, hsreq, hchan, rfl, hso, rfl⟩)))⟩, ?_⟩
          simp [Pair.measure, hrt, hrreq, RecvReq.weight]
          omega
        · exact absurd hr hne
      · rw [hstep, Option.some.injEq] at hs
        subst hs
        rcases hsub with ⟨hnil, _⟩ | ⟨hne, hst, hsreq, hchan, hso⟩
        · rw [hnil] at hr; simp at hr
        · refine ⟨⟨rest1 hd B f isR, jsR.drop (round1 hd B f isR).1.length, kR + (round1 hd B f isR).1.length, kS, rS, hjl,
            hf.rest, rfl, hsb, hrb', hacc', Or.inl ⟨hr, hst, hsreq, hchan, rfl, hso, hro, hpos'⟩⟩, ?_⟩
          simp [Pair.measure, hrt, hrreq, RecvReq.weight]
          simp only [rest1] at hleft ⊢
          omega
  · -- phase E
    obtain ⟨_, _, hsreq, hchan, hrreq, _, _⟩ := hE
    cases a <;> simp [Pair.step, hsreq, hchan, hrreq] at hs

/-- a reachable state in which no action is enabled is final -/
theorem stuck_final (hR : RecvSide hd B f getCount unpack T Inv) (s : Pair β σ) (hI : PInv hd B f T Inv s)
    (hstuck : ∀ a, Pair.step (cfgOf hd getCount unpack) s a = none) : s.final = true := by
  obtain ⟨isR, jsR, kR, kS, rS, hl, hf, hrt, hsb, hrb, hacc, hcase⟩ := hI
  rcases hcase with hA | hB | hC | hD | hE
  · obtain ⟨_, _, _, hchan, hrreq, _⟩ := hA
    have := hstuck .deliver
    simp [Pair.step, hchan, hrreq] at this
  · obtain ⟨ht, _, _, _, hrreq, _, _, hpos⟩ := hB
    obtain ⟨_, _, _, _, hstep⟩ := recvDone_step hR s kR isR jsR hl hf ht hrt hrb hpos hrreq hacc
    rcases hstep with ⟨_, hstep⟩ | ⟨_, _, hstep⟩ <;> simp [hstuck .recvDone] at hstep
  · obtain ⟨hst, hsreq, _, _, hsub⟩ := hC
    rcases hsub with ⟨ht, _⟩ | ⟨hnil, _⟩
    · obtain ⟨_, _, hstep⟩ := sendDone_continue (hd := hd) (cfgOf hd getCount unpack) rfl s rS kS isR hst hsreq hsb hf ht
      simp [hstuck .sendDone] at hstep
    · subst hnil
      have := sendDone_finish (cfgOf hd getCount unpack) s rS kS hst hsreq
      simp [hstuck .sendDone] at this
  · obtain ⟨ht, hrreq, _, hpos, _⟩ := hD
    obtain ⟨_, _, _, _, hstep⟩ := recvDone_step hR s kR isR jsR hl hf ht hrt hrb hpos hrreq hacc
    rcases hstep with ⟨_, hstep⟩ | ⟨_, _, hstep⟩ <;> simp [hstuck .recvDone] at hstep
  · obtain ⟨hz, hfin, _, hchan, _, hso, hro⟩ := hE
    have : s.rt.finished = true := by rw [hrt, hR.fin _ _ _ hl hf]; simp [hz]
    simp [Pair.final, hso, hro, hchan, hfin, this]

/-- in a final reachable state the receiver stands in front of indices without items, with its invariant -/
theorem final_acc (s : Pair β σ) (hI : PInv hd B f T Inv s) (hfin : s.final = true) :
    ∃ (kR : Nat) (isR jsR : List Nat), jsR.length = isR.length ∧ total hd isR = 0 ∧ Inv s.acc kR isR jsR := by
  obtain ⟨isR, jsR, kR, kS, rS, hl, hf, hrt, hsb, hrb, hacc, hcase⟩ := hI
  rcases hcase with hA | hB | hC | hD | hE
  · simp [Pair.final, hA.2.2.2.2.2.1] at hfin
  · simp [Pair.final, hB.2.2.2.2.2.1] at hfin
  · simp [Pair.final, hC.2.2.2.1] at hfin
  · simp [Pair.final, hD.2.2.1] at hfin
  · exact ⟨kR, isR, jsR, hl, hE.1, hacc⟩

/-- all schedules of one neighbour relation: bounded length, and a schedule that cannot be extended ends in the
    final state -/
theorem exec_bound (hR : RecvSide hd B f getCount unpack T Inv) : ∀ (acts : List Action) (s s' : Pair β σ),
    PInv hd B f T Inv s → Pair.exec (cfgOf hd getCount unpack) s acts = some s' →
    PInv hd B f T Inv s' ∧ acts.length + s'.measure ≤ s.measure := by
  intro acts
  induction acts with
  | nil => intro s s' hI he; simp [Pair.exec] at he; subst he; exact ⟨hI, by simp⟩
  | cons a acts ih =>
    intro s s' hI he
    simp only [Pair.exec] at he
    cases hstep : Pair.step (cfgOf hd getCount unpack) s a with
    | none => simp [hstep] at he
    | some s1 =>
      simp only [hstep, Option.bind_some] at he
      obtain ⟨hI1, hm1⟩ := step_inv hR s s1 a hI hstep
      obtain ⟨hI', hm'⟩ := ih s1 s' hI1 he
      exact ⟨hI', by simp; omega⟩

end generic
end DV.C06

namespace DV.C06

section init
variable {β σ : Type} {hd : Handle β} {B f : Nat} {getCount : Bool}
  {unpack : Tracker → MessageBuffer β → Nat → σ → Tracker × MessageBuffer β × σ}
  {T : Nat → List Nat → List Nat → Tracker} {Inv : σ → Nat → List Nat → List Nat → Prop}

/-- the state after the initial `setupRequests` of both sides is reachable-invariant -/
theorem init_inv (hR : RecvSide hd B f getCount unpack T Inv) (IS JS : List Nat) (hl : JS.length = IS.length)
    (hf : Fits hd B f IS) (rS : Nat) (rt0 : Tracker) (hrt0 : rt0.skipZeroIndices = T 0 JS IS) (acc : σ)
    (hacc : Inv acc 0 IS JS) :
    PInv hd B f T Inv (Pair.init (cfgOf hd getCount unpack) (sendT rS 0 IS f) rt0 B acc) := by
  obtain ⟨h1, h2, h3⟩ := setupSend_sendT hd B f rS 0 IS (MessageBuffer.new B) rfl hf
  by_cases hz : total hd IS = 0
  · have hr := round1_zero hd B f IS hf (by
      have := congrArg (total hd) (round1_append hd B f IS)
      simp at this; omega)
    have hz1 : total hd (round1 hd B f IS).1 = 0 := by
      have := congrArg (total hd) (round1_append hd B f IS)
      simp at this; omega
    have hfin : rt0.skipZeroIndices.finished = true := by rw [hrt0, hR.fin _ _ _ hl hf]; simp [hz]
    refine ⟨IS, JS, 0, 0 + (round1 hd B f IS).1.length, rS, hl, hf, ?_, ?_, ?_, ?_, Or.inr (Or.inr (Or.inr (Or.inr ?_)))⟩
    · simp [Pair.init, setupRecv_idle' _ _ hfin, hrt0]
    · simpa [Pair.init] using h2
    · simp [Pair.init, setupRecv_idle' _ _ hfin, MessageBuffer.new]
    · simpa [Pair.init] using hacc
    · simp [Pair.init, setupRecv_idle' _ _ hfin, h1, h3, hz1, hr, hz]
  · have ht : 0 < total hd IS := Nat.pos_of_ne_zero hz
    have hfin : rt0.skipZeroIndices.finished = false := by rw [hrt0, hR.fin _ _ _ hl hf]; simp [hz]
    refine ⟨IS, JS, 0, 0 + (round1 hd B f IS).1.length, rS, hl, hf, ?_, ?_, ?_, ?_, Or.inl ?_⟩
    · simp [Pair.init, setupRecv_posts' _ _ hfin, hrt0]
    · simpa [Pair.init] using h2
    · simp [Pair.init, setupRecv_posts' _ _ hfin, MessageBuffer.new]
    · simpa [Pair.init] using hacc
    · simp [Pair.init, setupRecv_posts' _ _ hfin, h1, h3, total_round_pos hf ht, ht]

end init

/-! ### the receive side of the data phase and of the size phase -/

variable {α : Type}

theorem recvS_left_lt (h : Handle α) (r : Nat) (rest jrest : List Nat) : ∀ (a ja : List Nat) (k : Nat),
    ja.length = a.length → 0 < total h a →
    (recvS r (k + a.length) jrest (rest.map h.size)).indicesLeft
      < (recvS r k (ja ++ jrest) ((a ++ rest).map h.size)).indicesLeft := by
  intro a
  induction a with
  | nil => intro ja k _ ht; simp at ht
  | cons i a ih =>
    intro ja k hl ht
    cases ja with
    | nil => simp at hl
    | cons j ja =>
      by_cases hz : h.size i = 0
      · have := ih ja (k + 1) (by simpa using hl) (by simpa [hz] using ht)
        simp only [List.cons_append, List.map_cons, hz, recvS_zero, List.length_cons]
        rw [show k + (a.length + 1) = k + 1 + a.length by omega]
        exact this
      · have h1 := recvS_left_le r (k + (a.length + 1)) jrest (rest.map h.size)
        simp only [List.cons_append, List.map_cons, recvS_pos _ _ _ _ _ _ hz, recvT_left, List.length_cons,
          List.length_append]
        omega

theorem callsOf_allzero (h : Handle α) : ∀ (is js : List Nat), total h is = 0 → callsOf h is js = [] := by
  intro is
  induction is with
  | nil => intro js _; simp
  | cons i is ih =>
    intro js ht
    cases js with
    | nil => rfl
    | cons j js => simp at ht; simp [callsOf, ht.1, ih js ht.2]

/-- data phase: `acc` are the calls made so far; together with the calls still owed they are `tgt` -/
theorem dataSide (h : Handle α) (B f r : Nat) (getCount : Bool) (hg : getCount = true ↔ f = 0) (tgt : List (Call α)) :
    RecvSide h B f getCount unpackEntries (fun k js is => rcvT h f r k js is)
      (fun acc _ is js => acc ++ callsOf h is js = tgt) where
  skip := fun k js is => rcvT_skip h f r k js is
  fin := fun k js is hl hf => rcvT_finished h B f r k js is hl hf
  round := by
    intro k js is b acc hl hf _ hb hp
    obtain ⟨b'', hb'', heq⟩ := unpackEntries_round h B f r k js is b acc hl hf hb hp
      (if getCount then total h (round1 h B f is).1 else 0) (by intro h0; simp [hg.2 h0])
    rw [heq]
    exact ⟨rcvT_skip .., hb''⟩
  left := by
    intro k js is hl hf ht
    have happ := round1_append h B f is
    have hne : is ≠ [] := by intro e; subst e; simp at ht
    have ha := round1_ne_nil h B f is hf hne
    have hlen : (round1 h B f is).1.length ≤ js.length := by
      rw [hl]; conv => rhs; rw [← happ]
      simp
    by_cases h0 : f = 0
    · subst h0
      have := recvS_left_lt h r (round1 h B 0 is).2 (js.drop (round1 h B 0 is).1.length) (round1 h B 0 is).1
        (js.take (round1 h B 0 is).1.length) k (by simp [Nat.min_eq_left hlen]) (Nat.pos_of_ne_zero (total_round_pos hf ht))
      rw [List.take_append_drop, happ] at this
      simpa [rcvT] using this
    · have : (round1 h B f is).1.length ≠ 0 := by simpa using ha
      simp [rcvT, h0]
      omega
  roundInv := by
    intro k js is b acc hl hf _ hb hp hinv
    obtain ⟨b'', _, heq⟩ := unpackEntries_round h B f r k js is b acc hl hf hb hp
      (if getCount then total h (round1 h B f is).1 else 0) (by intro h0; simp [hg.2 h0])
    rw [heq]
    have hlen : (round1 h B f is).1.length ≤ js.length := by
      rw [hl]; conv => rhs; rw [← round1_append h B f is]
      simp
    have e1 := callsOf_append h (round1 h B f is).1 (js.take (round1 h B f is).1.length) (round1 h B f is).2
      (js.drop (round1 h B f is).1.length) (by simp [Nat.min_eq_left hlen])
    rw [round1_append, List.take_append_drop] at e1
    show (acc ++ callsOf h (round1 h B f is).1 (js.take (round1 h B f is).1.length)) ++
      callsOf h (round1 h B f is).2 (js.drop (round1 h B f is).1.length) = tgt
    rw [List.append_assoc, ← e1, hinv]

/-- size phase: `dst` is the size array: the sizes received so far, then zeros; completed it is `tgt` -/
theorem sizeSide (h : Handle α) (B : Nat) (hB : 0 < B) (tgt : List Nat) :
    RecvSide (sizeHandle h) B 1 false unpackSizes (fun k js _ => sendT 0 k js 1)
      (fun dst k is _ => ∃ done : List Nat, dst = done ++ List.replicate is.length 0 ∧ done.length = k ∧
        done ++ is.map h.size = tgt) where
  skip := fun k js _ => sendT_skip 0 k js 1
  fin := by
    intro k js is hl _
    rw [sizeHandle_total, sendT_finished]
    cases is <;> cases js <;> simp_all
  round := by
    intro k js is b acc hl _ _ hb _
    have hr1 : round1 (sizeHandle h) B 1 is = (is.take (min B is.length), is.drop (min B is.length)) := by
      simp [round1]
    have hn : min B is.length ≤ is.length := Nat.min_le_right _ _
    simp only [hr1, unpackSizes, unpackSizeEntries, sendT_left, MessageBuffer.received, hb, hl,
      List.length_take, Nat.min_eq_left hn]
    exact ⟨by simp [Tracker.increment, sendT, Tracker.skipZeroIndices], trivial⟩
  left := by
    intro k js is hl _ ht
    have hr1 : round1 (sizeHandle h) B 1 is = (is.take (min B is.length), is.drop (min B is.length)) := by
      simp [round1]
    rw [sizeHandle_total] at ht
    simp [hr1]
    omega
  roundInv := by
    intro k js is b dst hl _ _ hb _ hinv
    obtain ⟨done, hd1, hd2, hd3⟩ := hinv
    have hr1 : round1 (sizeHandle h) B 1 is = (is.take (min B is.length), is.drop (min B is.length)) := by
      simp [round1]
    have hn : min B is.length ≤ is.length := Nat.min_le_right _ _
    simp only [hr1, unpackSizes, unpackSizeEntries, sendT_left, MessageBuffer.received, hb, hl, sizeHandle_flatMap,
      Tracker.offset, sendT_index, List.length_take, Nat.min_eq_left hn, List.length_drop]
    refine ⟨done ++ (is.take (min B is.length)).map h.size, ?_, by simp [hd2, Nat.min_eq_left hn], ?_⟩
    · have htk : ((is.take (min B is.length)).map h.size).take (min B is.length)
          = (is.take (min B is.length)).map h.size := List.take_of_length_le (by simp)
      rw [htk, hd1, ← hd2, writeAt_step done _ is.length (by simpa using hn)]
      simp [Nat.min_eq_left hn]
    · rw [← hd3, List.append_assoc, ← List.map_append, List.take_append_drop]

/-! ### the composed system -/

def sysMeasure {β σ : Type} (ss : List (Comp β σ)) : Nat := (ss.map fun x => x.state.measure).sum

theorem sysStep_nil {β σ : Type} (i : Nat) (a : Action) : sysStep ([] : List (Comp β σ)) i a = none := by
  simp [sysStep]

theorem sysStep_zero {β σ : Type} (x : Comp β σ) (ss : List (Comp β σ)) (a : Action) :
    sysStep (x :: ss) 0 a = (Pair.step x.cfg x.state a).map fun s' => { x with state := s' } :: ss := by
  simp [sysStep]

theorem sysStep_succ {β σ : Type} (x : Comp β σ) (ss : List (Comp β σ)) (i : Nat) (a : Action) :
    sysStep (x :: ss) (i + 1) a = (sysStep ss i a).map fun ss' => x :: ss' := by
  simp only [sysStep, List.getElem?_cons_succ]
  cases ss[i]? with
  | none => rfl
  | some y => cases h : Pair.step y.cfg y.state a <;> simp [h]

/-- two lists related position by position -/
inductive All2 {γ δ : Type} (R : γ → δ → Prop) : List γ → List δ → Prop
  | nil : All2 R [] []
  | cons {p x ps xs} : R p x → All2 R ps xs → All2 R (p :: ps) (x :: xs)

/-- a relation between the description `p` of a component and its state that every step preserves -/
structure Closed {γ β σ : Type} (R : γ → Comp β σ → Prop) : Prop where
  step : ∀ p x a s', R p x → Pair.step x.cfg x.state a = some s' →
    R p { x with state := s' } ∧ s'.measure < x.state.measure
  stuck : ∀ p x, R p x → (∀ a, Pair.step x.cfg x.state a = none) → x.state.final = true

theorem sys_step_rel {γ β σ : Type} {R : γ → Comp β σ → Prop} (hR : Closed R) : ∀ (specs : List γ)
    (ss ss' : List (Comp β σ)) (i : Nat) (a : Action), All2 R specs ss → sysStep ss i a = some ss' →
    All2 R specs ss' ∧ sysMeasure ss' < sysMeasure ss := by
  intro specs ss ss' i a hrel
  induction hrel generalizing i ss' with
  | nil => intro hs; simp [sysStep_nil] at hs
  | @cons p x ps xs hpx hrest ih =>
    intro hs
    cases i with
    | zero =>
      rw [sysStep_zero] at hs
      cases hst : Pair.step x.cfg x.state a with
      | none => simp [hst] at hs
      | some s' =>
        simp only [hst, Option.map_some, Option.some.injEq] at hs
        subst hs
        obtain ⟨h1, h2⟩ := hR.step p x a s' hpx hst
        refine ⟨All2.cons h1 hrest, ?_⟩
        simp only [sysMeasure, List.map_cons, List.sum_cons]
        omega
    | succ i =>
      rw [sysStep_succ] at hs
      cases hst : sysStep xs i a with
      | none => simp [hst] at hs
      | some xs' =>
        simp only [hst, Option.map_some, Option.some.injEq] at hs
        subst hs
        obtain ⟨h1, h2⟩ := ih xs' i hst
        refine ⟨All2.cons hpx h1, ?_⟩
        simp only [sysMeasure, List.map_cons, List.sum_cons] at h2 ⊢
        omega

theorem sys_exec_rel {γ β σ : Type} {R : γ → Comp β σ → Prop} (hR : Closed R) (specs : List γ) :
    ∀ (sched : List (Nat × Action)) (ss ss' : List (Comp β σ)), All2 R specs ss →
    sysExec ss sched = some ss' → All2 R specs ss' ∧ sched.length + sysMeasure ss' ≤ sysMeasure ss := by
  intro sched
  induction sched with
  | nil => intro ss ss' hrel he; simp [sysExec] at he; subst he; exact ⟨hrel, by simp⟩
  | cons ia sched ih =>
    intro ss ss' hrel he
    simp only [sysExec] at he
    cases hst : sysStep ss ia.1 ia.2 with
    | none => simp [hst] at he
    | some s1 =>
      simp only [hst, Option.bind_some] at he
      obtain ⟨hg1, hm1⟩ := sys_step_rel hR specs ss s1 ia.1 ia.2 hrel hst
      obtain ⟨hg', hm'⟩ := ih s1 ss' hg1 he
      exact ⟨hg', by simp; omega⟩

theorem sys_stuck_rel {γ β σ : Type} {R : γ → Comp β σ → Prop} (hR : Closed R) : ∀ (specs : List γ)
    (ss : List (Comp β σ)), All2 R specs ss → (∀ i a, sysStep ss i a = none) →
    All2 (fun p x => R p x ∧ x.state.final = true) specs ss := by
  intro specs ss hrel
  induction hrel with
  | nil => intro _; exact All2.nil
  | @cons p x ps xs hpx _ ih =>
    intro hstuck
    refine All2.cons ⟨hpx, hR.stuck p x hpx ?_⟩ (ih ?_)
    · intro a
      have := hstuck 0 a
      rw [sysStep_zero] at this
      cases hst : Pair.step x.cfg x.state a with
      | none => rfl
      | some s' => simp [hst] at this
    · intro i a
      have := hstuck (i + 1) a
      rw [sysStep_succ] at this
      cases hst : sysStep xs i a with
      | none => rfl
      | some s' => simp [hst] at this

theorem forall₂_map_right {γ δ : Type} {R : γ → δ → Prop} (g : γ → δ) : ∀ (l : List γ), (∀ p ∈ l, R p (g p)) →
    All2 R l (l.map g) := by
  intro l
  induction l with
  | nil => intro _; exact All2.nil
  | cons p l ih => intro h; exact All2.cons (h p (by simp)) (ih fun q hq => h q (by simp [hq]))

theorem map_eq_of_forall₂ {γ δ ε : Type} {R : γ → δ → Prop} (g1 : δ → ε) (g2 : γ → ε) : ∀ (l : List γ) (m : List δ),
    All2 R l m → (∀ p x, R p x → g1 x = g2 p) → m.map g1 = l.map g2 := by
  intro l m hrel h
  induction hrel with
  | nil => rfl
  | cons hpx _ ih => simp [h _ _ hpx, ih]

/-! ### the components of a data phase / size phase -/

/-- reachable states of the data-phase component described by `p` -/
def GoodData (B : Nat) (p : PairSpec α) (x : Comp α (List (Call α))) : Prop :=
  x.cfg = dataCfg p ∧ p.recvIdx.length = p.sendIdx.length ∧ Fits p.h B p.f p.sendIdx ∧
  PInv p.h B p.f (fun k js is => rcvT p.h p.f 0 k js is)
    (fun acc _ is js => acc ++ callsOf p.h is js = callsOf p.h p.sendIdx p.recvIdx) x.state

def GoodSize (B : Nat) (p : PairSpec α) (x : Comp Nat (List Nat)) : Prop :=
  x.cfg = sizeCfg p ∧ p.recvIdx.length = p.sendIdx.length ∧
  PInv (sizeHandle p.h) B 1 (fun k js _ => sendT 0 k js 1)
    (fun dst k is _ => ∃ done : List Nat, dst = done ++ List.replicate is.length 0 ∧ done.length = k ∧
        done ++ is.map p.h.size = p.sendIdx.map p.h.size) x.state

theorem goodData_closed (B : Nat) : Closed (GoodData (α := α) B) where
  step := by
    intro p x a s' ⟨hc, hl, hf, hI⟩ hst
    rw [hc] at hst
    obtain ⟨h1, h2⟩ := step_inv (dataSide p.h B p.f 0 (p.f == 0) (by simp) _) x.state s' a hI hst
    exact ⟨⟨hc, hl, hf, h1⟩, h2⟩
  stuck := by
    intro p x ⟨hc, hl, hf, hI⟩ hstuck
    rw [hc] at hstuck
    exact stuck_final (dataSide p.h B p.f 0 (p.f == 0) (by simp) _) x.state hI hstuck

theorem goodSize_closed (B : Nat) (hB : 0 < B) : Closed (GoodSize (α := α) B) where
  step := by
    intro p x a s' ⟨hc, hl, hI⟩ hst
    rw [hc] at hst
    obtain ⟨h1, h2⟩ := step_inv (sizeSide p.h B hB _) x.state s' a hI hst
    exact ⟨⟨hc, hl, h1⟩, h2⟩
  stuck := by
    intro p x ⟨hc, hl, hI⟩ hstuck
    rw [hc] at hstuck
    exact stuck_final (sizeSide p.h B hB _) x.state hI hstuck

theorem recvTracker_skip (p : PairSpec α) :
    p.recvTracker.skipZeroIndices = rcvT p.h p.f 0 0 p.recvIdx p.sendIdx := by
  unfold PairSpec.recvTracker
  by_cases h0 : p.f = 0
  · simp only [h0, if_true, mk'_recv, recvT_skip, rcvT, ne_eq, not_true_eq_false, if_false]
  · simp only [h0, if_false, mk'_send, Tracker.setFixedSize, rcvT, ne_eq, not_false_eq_true, if_true]
    simp [sendT, Tracker.skipZeroIndices]

theorem dataInit_good (B : Nat) (p : PairSpec α) (hl : p.recvIdx.length = p.sendIdx.length)
    (hf : Fits p.h B p.f p.sendIdx) : GoodData B p (dataInit B p) := by
  refine ⟨rfl, hl, hf, ?_⟩
  have := init_inv (dataSide p.h B p.f 0 (p.f == 0) (by simp) (callsOf p.h p.sendIdx p.recvIdx)) p.sendIdx p.recvIdx hl hf
    0 p.recvTracker (recvTracker_skip p) ([] : List (Call α)) (by simp)
  simpa [dataInit, dataCfg, cfgOf, mk'_send] using this

theorem sizeInit_good (B : Nat) (hB : 0 < B) (p : PairSpec α) (hl : p.recvIdx.length = p.sendIdx.length) :
    GoodSize B p (sizeInit B p) := by
  refine ⟨rfl, hl, ?_⟩
  have := init_inv (sizeSide p.h B hB (p.sendIdx.map p.h.size)) p.sendIdx p.recvIdx hl
    (sizeHandle_fits p.h B hB p.sendIdx) 0 (sendT 0 0 p.recvIdx 1) (sendT_skip ..) (List.replicate p.recvIdx.length 0)
    ⟨[], by simp [hl], rfl, by simp⟩
  simpa [sizeInit, sizeCfg, mk'_send] using this

/-- what a finished data-phase component has scattered -/
theorem goodData_final_acc (B : Nat) (p : PairSpec α) (x : Comp α (List (Call α))) (hg : GoodData B p x)
    (hfin : x.state.final = true) : x.state.acc = callsOf p.h p.sendIdx p.recvIdx := by
  obtain ⟨_, _, _, hI⟩ := hg
  obtain ⟨kR, isR, jsR, _, hz, hacc⟩ := final_acc x.state hI hfin
  simpa [callsOf_allzero p.h isR jsR hz] using hacc

/-- the size array a finished size-phase component has filled -/
theorem goodSize_final_acc (B : Nat) (p : PairSpec α) (x : Comp Nat (List Nat)) (hg : GoodSize B p x)
    (hfin : x.state.final = true) : x.state.acc = p.sendIdx.map p.h.size := by
  obtain ⟨_, _, hI⟩ := hg
  obtain ⟨kR, isR, jsR, _, hz, done, hd1, _, hd3⟩ := final_acc x.state hI hfin
  rw [sizeHandle_total] at hz
  have : isR = [] := List.eq_nil_of_length_eq_zero hz
  subst this
  simpa [hd1] using hd3

theorem rcvT_left_le (h : Handle α) (f r k : Nat) (js is : List Nat) : (rcvT h f r k js is).indicesLeft ≤ js.length := by
  unfold rcvT; split
  · simp
  · exact recvS_left_le ..

theorem init_measure_le {β σ : Type} (hd : Handle β) (B f : Nat) (getCount : Bool)
    (unpack : Tracker → MessageBuffer β → Nat → σ → Tracker × MessageBuffer β × σ) (IS : List Nat) (hf : Fits hd B f IS)
    (rt0 : Tracker) (n : Nat) (hrt : rt0.skipZeroIndices.indicesLeft ≤ n) (acc : σ) :
    (Pair.init (cfgOf hd getCount unpack) (sendT 0 0 IS f) rt0 B acc).measure ≤ 3 * (IS.length + n) + 4 := by
  obtain ⟨h1, _, _⟩ := setupSend_sendT hd B f 0 0 IS (MessageBuffer.new B) rfl hf
  have hlen : (round1 hd B f IS).2.length ≤ IS.length := by
    have := congrArg List.length (round1_append hd B f IS)
    simp at this; omega
  have hch : (setupSend hd (sendT 0 0 IS f) (MessageBuffer.new B)).message.toList.length ≤ 1 := by
    cases (setupSend hd (sendT 0 0 IS f) (MessageBuffer.new B)).message <;> simp
  have hw1 : ∀ r : SendReq, r.weight ≤ 1 := by intro r; cases r <;> simp [SendReq.weight]
  have hw2 : ∀ r : RecvReq β, r.weight ≤ 1 := by intro r; cases r <;> simp [RecvReq.weight]
  simp only [Pair.measure, Pair.init, h1, sendT_left, setupRecv, if_true]
  have a1 := hw1 (if (setupSend hd (sendT 0 0 IS f) (MessageBuffer.new B)).message.isSome = true then SendReq.active
    else SendReq.null)
  have a2 := hw2 (if decide (rt0.skipZeroIndices.indicesLeft ≠ 0) = true then RecvReq.posted else RecvReq.null)
  omega

theorem dataInit_measure_le (B : Nat) (p : PairSpec α) (hf : Fits p.h B p.f p.sendIdx) :
    (dataInit B p).state.measure ≤ 3 * (p.sendIdx.length + p.recvIdx.length) + 4 := by
  have := init_measure_le p.h B p.f (p.f == 0) unpackEntries p.sendIdx hf p.recvTracker p.recvIdx.length
    (by rw [recvTracker_skip]; exact rcvT_left_le ..) ([] : List (Call α))
  simpa [dataInit, dataCfg, cfgOf, mk'_send] using this

theorem sizeInit_measure_le (B : Nat) (hB : 0 < B) (p : PairSpec α) :
    (sizeInit B p).state.measure ≤ 3 * (p.sendIdx.length + p.recvIdx.length) + 4 := by
  have := init_measure_le (sizeHandle p.h) B 1 false unpackSizes p.sendIdx (sizeHandle_fits p.h B hB p.sendIdx)
    (sendT 0 0 p.recvIdx 1) p.recvIdx.length (by simp) (List.replicate p.recvIdx.length 0)
  simpa [sizeInit, sizeCfg, mk'_send] using this

theorem sysMeasure_map_le {β σ γ : Type} (g : γ → Comp β σ) (bound : γ → Nat) : ∀ (l : List γ),
    (∀ p ∈ l, (g p).state.measure ≤ bound p) → sysMeasure (l.map g) ≤ (l.map bound).sum := by
  intro l
  induction l with
  | nil => intro _; simp [sysMeasure]
  | cons p l ih =>
    intro h
    have h1 := h p (by simp)
    have h2 := ih (fun q hq => h q (by simp [hq]))
    simp only [sysMeasure, List.map_cons, List.sum_cons] at h2 ⊢
    omega

end DV.C06
