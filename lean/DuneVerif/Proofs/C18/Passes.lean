/-
C18 helper lemmas, part 3: passes 0-3 of the character-level `processPathC` in terms of components.
`W abs cs` is the text with an optional root '/' followed by the components `cs`, each with its '/'.
-/
import DuneVerif.Proofs.C18.Spec

namespace DV.C18

def W (abs : Bool) (cs : List Str) : Str := (if abs then ['/'] else []) ++ joinSlash cs

theorem joinSlash_splitSlash : ∀ p : Str, joinSlash (splitSlash p) = p ++ ['/']
  | [] => by simp [splitSlash]
  | c :: r => by
    by_cases hc : c = '/'
    · subst hc; simp [splitSlash_cons_slash, joinSlash_splitSlash r]
    · obtain ⟨hd, tl, h1, h2⟩ := splitSlash_cons_of_ne hc r
      have ih := joinSlash_splitSlash r
      rw [h1, joinSlash_cons] at ih
      rw [h2, joinSlash_cons, List.cons_append, List.cons_append, ih]

/-! ### pass 1 -/

theorem collapse_noslash : ∀ (c : Str) (b : Bool) (r : Str), '/' ∉ c → c ≠ [] →
    collapseSlashes b (c ++ r) = c ++ collapseSlashes false r
  | [], _, _, _, h => absurd rfl h
  | [a], b, r, h, _ => by
    have ha : a ≠ '/' := fun e => h (by simp [e])
    simp [collapseSlashes, ha]
  | a :: a' :: c, b, r, h, _ => by
    have ha : a ≠ '/' := fun e => h (by simp [e])
    have ih := collapse_noslash (a' :: c) false r (fun e => h (by simp [e])) (by simp)
    simp only [List.cons_append] at ih ⊢
    rw [collapseSlashes]
    simp only [ha, ↓reduceIte, ih]

theorem collapse_true_joinSlash : ∀ (cs : List Str), (∀ c ∈ cs, '/' ∉ c) →
    collapseSlashes true (joinSlash cs) = joinSlash (cs.filter (fun c => c ≠ []))
  | [], _ => by simp [collapseSlashes]
  | c :: cs, h => by
    have ih := collapse_true_joinSlash cs (fun d hd => h d (by simp [hd]))
    by_cases hc : c = []
    · subst hc
      simp [collapseSlashes, ih]
    · rw [joinSlash_cons, collapse_noslash c true _ (h c (by simp)) hc]
      simp [collapseSlashes, ih, hc]

theorem pass1 (p : Str) :
    collapseSlashes false (appendSlash p) = W (isAbs p) ((splitSlash p).filter (fun c => c ≠ [])) := by
  cases p with
  | nil => simp [appendSlash, collapseSlashes, splitSlash, W, isAbs]
  | cons a r =>
    have hns : ∀ c ∈ splitSlash r, '/' ∉ c := no_slash_of_mem_splitSlash r
    by_cases ha : a = '/'
    · subst ha
      have := collapse_true_joinSlash (splitSlash r) hns
      rw [joinSlash_splitSlash] at this
      simp [appendSlash, collapseSlashes, splitSlash_cons_slash, W, isAbs, this]
    · obtain ⟨hd, tl, h1, h2⟩ := splitSlash_cons_of_ne ha r
      have hj := joinSlash_splitSlash (a :: r)
      rw [h2, joinSlash_cons] at hj
      have hnhd : '/' ∉ (a :: hd) := no_slash_of_mem_splitSlash (a :: r) _ (by simp [h2])
      have htl : ∀ c ∈ tl, '/' ∉ c := fun c hc => hns c (by simp [h1, hc])
      have e1 : appendSlash (a :: r) = (a :: hd) ++ '/' :: joinSlash tl := by
        simp only [appendSlash]; simpa using hj.symm
      rw [e1, collapse_noslash (a :: hd) false _ hnhd (by simp), h2]
      have : isAbs (a :: r) = false := by simp [isAbs, ha]
      simp [collapseSlashes, collapse_true_joinSlash tl htl, W, this]

/-! ### pass 2 and pass 3 -/

theorem dropDot_false_cons {a : Char} (ha : a ≠ '/') (t : Str) :
    dropDotSlash false (a :: t) = a :: dropDotSlash false t := by
  cases t with
  | nil => simp [dropDotSlash]
  | cons d r =>
    have hb : (a == '/') = false := by simp [ha]
    simp [dropDotSlash, hb]

theorem dropDot_false_slash (t : Str) : dropDotSlash false ('/' :: t) = '/' :: dropDotSlash true t := by
  cases t with
  | nil => simp [dropDotSlash]
  | cons d r => simp [dropDotSlash]

theorem dropDot_false_noslash : ∀ (c : Str) (r : Str), '/' ∉ c →
    dropDotSlash false (c ++ '/' :: r) = c ++ '/' :: dropDotSlash true r
  | [], r, _ => by simpa using dropDot_false_slash r
  | a :: c, r, h => by
    have ha : a ≠ '/' := fun e => h (by simp [e])
    rw [List.cons_append, dropDot_false_cons ha, dropDot_false_noslash c r (fun e => h (by simp [e]))]
    rfl

theorem dropDot_true_comp (c : Str) (r : Str) (hc : IsComp c) :
    dropDotSlash true (c ++ '/' :: r) = c ++ '/' :: dropDotSlash true r := by
  obtain ⟨h1, h2, h3⟩ := hc
  cases c with
  | nil => exact absurd rfl h1
  | cons a c =>
    have ha : a ≠ '/' := fun e => h2 (by simp [e])
    have hc' : '/' ∉ c := fun e => h2 (by simp [e])
    cases c with
    | nil =>
      have : a ≠ '.' := fun e => h3 (by simp [e, dot])
      simp only [List.cons_append, List.nil_append]
      rw [dropDotSlash]
      simp only [this, false_and, and_false, ↓reduceIte]
      have hb : (a == '/') = false := by simp [ha]
      rw [hb, dropDot_false_slash]
    | cons b c =>
      have hb : b ≠ '/' := fun e => hc' (by simp [e])
      simp only [List.cons_append]
      rw [dropDotSlash]
      simp only [hb, and_false, ↓reduceIte]
      have hb' : (a == '/') = false := by simp [ha]
      rw [hb', ← List.cons_append, dropDot_false_noslash (b :: c) r hc']
      rfl

theorem dropDot_true_joinSlash : ∀ (cs : List Str), (∀ c ∈ cs, c ≠ [] ∧ '/' ∉ c) →
    dropDotSlash true (joinSlash cs) = joinSlash (cs.filter (fun c => c ≠ dot))
  | [], _ => by simp [dropDotSlash]
  | c :: cs, h => by
    have ih := dropDot_true_joinSlash cs (fun d hd => h d (by simp [hd]))
    by_cases hc : c = dot
    · subst hc
      simp only [joinSlash_cons, dot, List.cons_append, List.nil_append]
      rw [dropDotSlash]
      simp [ih, dot]
    · have hcomp : IsComp c := ⟨(h c (by simp)).1, (h c (by simp)).2, hc⟩
      rw [joinSlash_cons, dropDot_true_comp c _ hcomp, ih]
      simp [hc]

theorem hasPrefix_dotSlash_comp (c r : Str) (hc : IsComp c) : hasPrefix (c ++ '/' :: r) ['.', '/'] = false := by
  obtain ⟨h1, h2, h3⟩ := hc
  cases c with
  | nil => exact absurd rfl h1
  | cons a c =>
    cases c with
    | nil =>
      have : a ≠ '.' := fun e => h3 (by simp [e, dot])
      simp [hasPrefix_cons_cons, this]
    | cons b c =>
      have hb : b ≠ '/' := fun e => h2 (by simp [e])
      simp [hasPrefix_cons_cons, hb]

theorem pass23 (abs : Bool) (cs : List Str) (h : ∀ c ∈ cs, c ≠ [] ∧ '/' ∉ c) :
    eraseLeadingDotSlash (dropDotSlash false (W abs cs)) = W abs (cs.filter (fun c => c ≠ dot)) := by
  cases abs with
  | true =>
    simp only [W, ↓reduceIte, List.cons_append, List.nil_append]
    rw [dropDot_false_slash, dropDot_true_joinSlash cs h]
    simp [eraseLeadingDotSlash, hasPrefix_cons_cons]
  | false =>
    simp only [W, Bool.false_eq_true, ↓reduceIte, List.nil_append]
    cases cs with
    | nil => simp [dropDotSlash, eraseLeadingDotSlash, hasPrefix]
    | cons c cs =>
      have hc := h c (by simp)
      have ih := dropDot_true_joinSlash cs (fun d hd => h d (by simp [hd]))
      rw [joinSlash_cons, dropDot_false_noslash c _ hc.2, ih]
      by_cases hd : c = dot
      · subst hd
        simp [eraseLeadingDotSlash, hasPrefix_cons_cons, dot]
      · have hcomp : IsComp c := ⟨hc.1, hc.2, hd⟩
        simp [eraseLeadingDotSlash, hasPrefix_dotSlash_comp c _ hcomp, hd]

end DV.C18
