/-
C18 helper lemmas, part 2: the component-level specification (`denote`, `render`, `processPathS`).
-/
import DuneVerif.Proofs.C18.Basic

namespace DV.C18

/-- what `comps` lets through -/
def IsComp (c : Str) : Prop := c ≠ [] ∧ '/' ∉ c ∧ c ≠ dot

theorem IsName.isComp {n : Str} (h : IsName n) : IsComp n := ⟨h.1, h.2.1, h.2.2.1⟩

theorem isComp_dotdot : IsComp dotdot := by
  unfold IsComp dotdot dot; decide

theorem isComp_of_mem_comps {p c : Str} (h : c ∈ comps p) : IsComp c := by
  unfold comps at h
  rw [List.mem_filter] at h
  have h2 := h.2
  simp only [decide_eq_true_eq] at h2
  exact ⟨h2.1, no_slash_of_mem_splitSlash p c h.1, h2.2⟩

theorem Loc.walk_valid {d : Loc} (hd : d.Valid) {c : Str} (hc : IsComp c) : (d.walk c).Valid := by
  unfold Loc.walk
  split
  · split
    · refine ⟨hd.1, fun n hn => hd.2 n ?_⟩
      exact List.dropLast_subset _ hn
    · split
      · exact hd
      · rename_i h1 h2
        refine ⟨fun h => absurd h h2, hd.2⟩
  · rename_i h
    refine ⟨hd.1, fun n hn => ?_⟩
    simp only [List.mem_append, List.mem_singleton] at hn
    rcases hn with hn | hn
    · exact hd.2 n hn
    · subst hn; exact ⟨hc.1, hc.2.1, hc.2.2, h⟩

theorem foldl_walk_valid : ∀ (cs : List Str) (d : Loc), d.Valid → (∀ c ∈ cs, IsComp c) → (cs.foldl Loc.walk d).Valid
  | [], d, hd, _ => hd
  | c :: cs, d, hd, h => by
    simp only [List.foldl_cons]
    exact foldl_walk_valid cs _ (Loc.walk_valid hd (h c (by simp))) (fun c' hc' => h c' (by simp [hc']))

theorem denote_valid (p : Str) : (denote p).Valid := by
  unfold denote
  apply foldl_walk_valid
  · exact ⟨fun _ => rfl, by simp⟩
  · intro c hc; exact isComp_of_mem_comps hc

/-! ### reading a rendered location back -/

theorem comps_append_slash (x y : Str) : comps (x ++ '/' :: y) = comps x ++ comps y := by
  simp [comps, splitSlash_append_slash]

@[simp] theorem comps_nil : comps [] = [] := by simp [comps, splitSlash]

theorem comps_joinSlash (cs : List Str) (h : ∀ c ∈ cs, IsComp c) : comps (joinSlash cs) = cs := by
  unfold comps
  rw [splitSlash_joinSlash cs (fun c hc => (h c hc).2.1)]
  simp only [List.filter_append, List.filter_cons, List.filter_nil]
  simp only [ne_eq, not_true_eq_false, false_and, decide_false, Bool.false_eq_true, ↓reduceIte,
    List.append_nil]
  rw [List.filter_eq_self]
  intro c hc
  simp [(h c hc).1, (h c hc).2.2]

theorem comps_slash_joinSlash (cs : List Str) (h : ∀ c ∈ cs, IsComp c) : comps ('/' :: joinSlash cs) = cs := by
  have := comps_append_slash [] (joinSlash cs)
  simp only [List.nil_append] at this
  rw [this, comps_nil, comps_joinSlash cs h]; rfl

theorem isComp_of_mem_stack {d : Loc} (hd : d.Valid) :
    ∀ c ∈ List.replicate d.ups dotdot ++ d.names, IsComp c := by
  intro c hc
  rw [List.mem_append] at hc
  rcases hc with hc | hc
  · rw [List.mem_replicate] at hc; rw [hc.2]; exact isComp_dotdot
  · exact (hd.2 c hc).isComp

theorem comps_render {d : Loc} (hd : d.Valid) : comps (render d) = List.replicate d.ups dotdot ++ d.names := by
  unfold render
  split
  · exact comps_slash_joinSlash _ (isComp_of_mem_stack hd)
  · simpa using comps_joinSlash _ (isComp_of_mem_stack hd)

theorem head?_joinSlash_ne_slash (cs : List Str) (h : ∀ c ∈ cs, IsComp c) : (joinSlash cs).head? ≠ some '/' := by
  cases cs with
  | nil => simp
  | cons c cs =>
    have hc := h c (by simp)
    cases c with
    | nil => exact absurd rfl hc.1
    | cons a c =>
      simp only [joinSlash_cons, List.cons_append, List.head?_cons]
      intro e
      exact hc.2.1 (by simp at e; simp [e])

theorem isAbs_render {d : Loc} (hd : d.Valid) : isAbs (render d) = d.abs := by
  unfold render isAbs
  split
  · rename_i h; simp [h]
  · rename_i h
    have := head?_joinSlash_ne_slash _ (isComp_of_mem_stack hd)
    simp only [List.nil_append]
    cases hb : d.abs with
    | true => exact absurd hb h
    | false => simpa using this

theorem foldl_walk_ups : ∀ (k u : Nat), (List.replicate k dotdot).foldl Loc.walk ⟨false, u, []⟩ = ⟨false, u + k, []⟩
  | 0, u => rfl
  | k+1, u => by
    rw [List.replicate_succ, List.foldl_cons]
    have : Loc.walk ⟨false, u, []⟩ dotdot = ⟨false, u + 1, []⟩ := by simp [Loc.walk]
    rw [this, foldl_walk_ups k (u+1)]
    congr 1; omega

theorem foldl_walk_names : ∀ (ns : List Str) (d : Loc), (∀ n ∈ ns, n ≠ dotdot) →
    ns.foldl Loc.walk d = { d with names := d.names ++ ns }
  | [], d, _ => by simp
  | n :: ns, d, h => by
    rw [List.foldl_cons]
    have : d.walk n = { d with names := d.names ++ [n] } := by simp [Loc.walk, h n (by simp)]
    rw [this, foldl_walk_names ns _ (fun m hm => h m (by simp [hm]))]
    simp

theorem denote_render {d : Loc} (hd : d.Valid) : denote (render d) = d := by
  unfold denote
  rw [comps_render hd, isAbs_render hd, List.foldl_append]
  obtain ⟨abs, ups, names⟩ := d
  have hn : ∀ n ∈ names, n ≠ dotdot := fun n hn => (hd.2 n hn).2.2.2
  cases abs with
  | true =>
    have : ups = 0 := hd.1 rfl
    subst this
    simp only [List.replicate_zero, List.foldl_nil]
    rw [foldl_walk_names names _ hn]; simp
  | false =>
    rw [foldl_walk_ups, foldl_walk_names names _ hn]; simp

/-- the spec result reads back as the location of the input -/
theorem denote_processPathS (p : Str) : denote (processPathS p) = denote p :=
  denote_render (denote_valid p)

/-- a string in normal form is a fixed point -/
theorem processPathS_of_normalForm {s : Str} (h : NormalForm s) : processPathS s = s := by
  obtain ⟨d, hd, rfl⟩ := h
  unfold processPathS
  rw [denote_render hd]

theorem normalForm_processPathS (p : Str) : NormalForm (processPathS p) :=
  ⟨denote p, denote_valid p, rfl⟩

end DV.C18
