/-
C18 helper lemmas, part 1: hasPrefix / hasSuffix / formatString, splitSlash / joinSlash.
-/
import DuneVerif.Model.C18

namespace DV.C18

/-! ### equalRange, hasPrefix, hasSuffix -/

theorem equalRange_iff : ∀ (p c : Str), equalRange p c = true ↔ p <+: c
  | [], c => by simp [equalRange]
  | _ :: _, [] => by simp [equalRange]
  | a :: p, b :: c => by
    simp [equalRange, equalRange_iff p c, List.cons_prefix_cons]

set_option linter.unusedSimpArgs false in
/-- the body of `hasPrefix` regenerated from stringutility.hh is the canonical transcription (whatever the spelling
    of the size test) -/
theorem hasPrefix_eq_canon (c pre : Str) : hasPrefix c pre = hasPrefixCanon c pre := by
  unfold hasPrefix hasPrefixCanon
  by_cases h : pre.length ≤ c.length
  · have h2 : ¬ c.length < pre.length := by omega
    simp [h, h2]
  · have h2 : c.length < pre.length := by omega
    simp [h, h2]

set_option linter.unusedSimpArgs false in
/-- the body of `hasSuffix` regenerated from stringutility.hh is the canonical transcription -/
theorem hasSuffix_eq_canon (c suf : Str) : hasSuffix c suf = hasSuffixCanon c suf := by
  unfold hasSuffix hasSuffixCanon
  by_cases h : suf.length ≤ c.length
  · have h2 : ¬ c.length < suf.length := by omega
    simp [h, h2]
  · have h2 : c.length < suf.length := by omega
    simp [h, h2]

theorem hasPrefix_iff_isPrefix (c pre : Str) : hasPrefix c pre = true ↔ pre <+: c := by
  rw [hasPrefix_eq_canon]
  unfold hasPrefixCanon
  rw [Bool.and_eq_true, equalRange_iff, decide_eq_true_iff]
  exact ⟨fun h => h.2, fun h => ⟨h.length_le, h⟩⟩

theorem hasSuffix_iff_isSuffix (c suf : Str) : hasSuffix c suf = true ↔ suf <:+ c := by
  rw [hasSuffix_eq_canon]
  unfold hasSuffixCanon
  split
  · rename_i h
    constructor
    · intro h'; cases h'
    · intro h'; have := h'.length_le; omega
  · rename_i h
    rw [equalRange_iff, List.suffix_iff_eq_drop]
    constructor
    · intro h'
      apply h'.eq_of_length
      simp; omega
    · intro h'; rw [← h']; exact List.prefix_refl _

theorem hasPrefix_cons_cons (a b : Char) (c p : Str) :
    hasPrefix (a :: c) (b :: p) = (a == b && hasPrefix c p) := by
  rw [Bool.eq_iff_iff, Bool.and_eq_true, beq_iff_eq, hasPrefix_iff_isPrefix, hasPrefix_iff_isPrefix,
    List.cons_prefix_cons]
  constructor <;> rintro ⟨h1, h2⟩ <;> exact ⟨h1.symm, h2⟩

@[simp] theorem hasPrefix_nil (c : Str) : hasPrefix c [] = true := by
  simp [hasPrefix_iff_isPrefix]

@[simp] theorem hasPrefix_nil_cons (b : Char) (p : Str) : hasPrefix [] (b :: p) = false := by
  rw [Bool.eq_false_iff]; simp [hasPrefix_iff_isPrefix]

/-! ### formatString -/

theorem formatStringWith_convError (cap : Nat) : formatStringWith cap none = .exception := by
  simp [formatStringWith, snprintfM]

/-- the regenerated size test is sound: when it says "the stack buffer was large enough", the result (r characters
    and the terminating NUL) did fit into `cap` bytes.  (Proved by arithmetic on whatever comparison the source has
    now: `r < cap`, `r <= cap-1`, `r+1 < cap` ... pass; `r <= cap` does not.) -/
theorem fmtFitsStack_sound (r cap : Nat) (h : fmtFitsStack r cap = true) : r < cap := by
  unfold fmtFitsStack at h
  simp only [decide_eq_true_eq] at h
  omega

/-- the regenerated heap-buffer size has room for the r characters and the terminating NUL -/
theorem fmtDynamicSize_sound (r : Nat) : r < fmtDynamicSize r := by
  unfold fmtDynamicSize
  omega

/-- for every capacity of the stack buffer (also 0 and 1) the complete text comes back, provided its length
    is representable in `int`; otherwise snprintf reports an error and formatString throws -/
theorem formatStringWith_text (cap : Nat) (t : Str) :
    formatStringWith cap (some t) = if t.length ≤ intMax then .ok t else .exception := by
  unfold formatStringWith snprintfM
  by_cases h : t.length > intMax
  · have h' : ¬ t.length ≤ intMax := by omega
    simp [h, h']
  · have h' : t.length ≤ intMax := by omega
    simp only [h, h', ↓reduceIte]
    split
    · rename_i hfit
      have hlt := fmtFitsStack_sound _ _ hfit
      have : cap ≠ 0 := by omega
      simp only [this, ↓reduceIte]
      rw [List.take_of_length_le (by omega)]
    · have hd := fmtDynamicSize_sound t.length
      have : fmtDynamicSize t.length ≠ 0 := by omega
      simp only [this, ↓reduceIte]
      rw [List.take_of_length_le (by omega)]

/-! ### splitSlash -/

theorem splitSlash_ne_nil : ∀ p : Str, splitSlash p ≠ []
  | [] => by simp [splitSlash]
  | c :: r => by
    have := splitSlash_ne_nil r
    unfold splitSlash
    split
    · simp
    · split <;> simp

theorem splitSlash_cons_slash (r : Str) : splitSlash ('/' :: r) = [] :: splitSlash r := by
  simp [splitSlash]

theorem splitSlash_cons_of_ne {c : Char} (h : c ≠ '/') (r : Str) :
    ∃ hd tl, splitSlash r = hd :: tl ∧ splitSlash (c :: r) = (c :: hd) :: tl := by
  cases hs : splitSlash r with
  | nil => exact absurd hs (splitSlash_ne_nil r)
  | cons hd tl => exact ⟨hd, tl, rfl, by simp [splitSlash, h, hs]⟩

/-- a slash-free string is its own single piece -/
theorem splitSlash_of_no_slash : ∀ {n : Str}, '/' ∉ n → splitSlash n = [n]
  | [], _ => by simp [splitSlash]
  | c :: r, h => by
    have hc : c ≠ '/' := fun e => h (by simp [e])
    have hr : '/' ∉ r := fun e => h (by simp [e])
    simp [splitSlash, hc, splitSlash_of_no_slash hr]

/-- splitting distributes over a '/' -/
theorem splitSlash_append_slash : ∀ (x y : Str), splitSlash (x ++ '/' :: y) = splitSlash x ++ splitSlash y
  | [], y => by simp [splitSlash]
  | c :: x, y => by
    by_cases hc : c = '/'
    · subst hc
      simp [splitSlash_cons_slash, splitSlash_append_slash x y]
    · obtain ⟨hd, tl, h1, h2⟩ := splitSlash_cons_of_ne hc x
      obtain ⟨hd', tl', h1', h2'⟩ := splitSlash_cons_of_ne hc (x ++ '/' :: y)
      rw [List.cons_append, h2', h2]
      rw [splitSlash_append_slash x y, h1] at h1'
      simp at h1'
      simp [h1'.1, h1'.2]

/-- pieces never contain a '/' -/
theorem no_slash_of_mem_splitSlash : ∀ (p : Str) (c : Str), c ∈ splitSlash p → '/' ∉ c
  | [], c, h => by simp [splitSlash] at h; simp [h]
  | a :: r, c, h => by
    by_cases ha : a = '/'
    · subst ha
      rw [splitSlash_cons_slash] at h
      rcases List.mem_cons.1 h with h | h
      · simp [h]
      · exact no_slash_of_mem_splitSlash r c h
    · obtain ⟨hd, tl, h1, h2⟩ := splitSlash_cons_of_ne ha r
      rw [h2] at h
      rcases List.mem_cons.1 h with h | h
      · subst h
        have := no_slash_of_mem_splitSlash r hd (by simp [h1])
        intro hm
        rcases List.mem_cons.1 hm with e | e
        · exact ha e.symm
        · exact this e
      · exact no_slash_of_mem_splitSlash r c (by simp [h1, h])

/-! ### joinSlash -/

@[simp] theorem joinSlash_nil : joinSlash [] = [] := rfl
@[simp] theorem joinSlash_cons (c : Str) (cs : List Str) : joinSlash (c :: cs) = c ++ '/' :: joinSlash cs := by
  simp [joinSlash]
@[simp] theorem joinSlash_append (a b : List Str) : joinSlash (a ++ b) = joinSlash a ++ joinSlash b := by
  simp [joinSlash]

/-- splitting a joined list of slash-free pieces gives the pieces back, plus the empty piece after the last '/' -/
theorem splitSlash_joinSlash : ∀ (cs : List Str), (∀ c ∈ cs, '/' ∉ c) → splitSlash (joinSlash cs) = cs ++ [[]]
  | [], _ => by simp [splitSlash]
  | c :: cs, h => by
    rw [joinSlash_cons, splitSlash_append_slash, splitSlash_of_no_slash (h c (by simp)),
      splitSlash_joinSlash cs (fun d hd => h d (by simp [hd]))]
    simp

end DV.C18
