/-
C18 helper lemmas, part 9 (round four): relativePath of a path to itself, the C-string view of a pattern,
associativity of concatPaths, a pretty-printed path carries its own directory flag.
-/
import DuneVerif.Proofs.C18.Round2

namespace DV.C18

/-! ### splitCommon -/

theorem splitCommon_self : ∀ l : List Str, splitCommon l l = ([], [])
  | [] => by simp [splitCommon]
  | c :: l => by simp [splitCommon, splitCommon_self l]

/-! ### cstr: what a `const char*` parameter sees -/

theorem cstr_nil : cstr [] = [] := rfl

theorem cstr_cons (c : Char) (r : Str) : cstr (c :: r) = if c = Char.ofNat 0 then [] else c :: cstr r := by
  unfold cstr
  by_cases h : c = Char.ofNat 0 <;> simp [h]

theorem cstr_decomp : ∀ s : Str, cstr s = s ∨ ∃ t, s = cstr s ++ Char.ofNat 0 :: t
  | [] => by simp [cstr_nil]
  | c :: r => by
    rw [cstr_cons]
    by_cases h : c = Char.ofNat 0
    · right; exact ⟨r, by simp [h]⟩
    · rcases cstr_decomp r with h' | ⟨t, h'⟩
      · left; simp [h, h']
      · right; refine ⟨t, ?_⟩
        simp only [h, ↓reduceIte, List.cons_append, List.cons.injEq, true_and]
        exact h'

theorem cstr_no_nul : ∀ s : Str, Char.ofNat 0 ∉ cstr s
  | [] => by simp [cstr_nil]
  | c :: r => by
    rw [cstr_cons]
    by_cases h : c = Char.ofNat 0
    · simp [h]
    · have := cstr_no_nul r
      simp only [h, ↓reduceIte, List.mem_cons, not_or]
      exact ⟨fun e => h e.symm, this⟩

/-! ### concatPaths is associative (as an operation on strings) -/

theorem concatSpec_assoc (a b c : Str) :
    concatSpec (concatSpec a b) c = concatSpec a (concatSpec b c) := by
  unfold concatSpec
  by_cases hc : c = []
  · simp [hc]
  by_cases hc' : c.head? = some '/'
  · simp [hc, hc']
  by_cases hb : b = []
  · simp [hc, hc', hb]
  by_cases hb' : b.head? = some '/'
  · have e1 : (b ++ c).head? = some '/' := by cases b <;> simp_all
    have e2 : (b ++ '/' :: c).head? = some '/' := by cases b <;> simp_all
    by_cases hbl : b.getLast? = some '/' <;> simp [hc, hc', hb, hb', hbl, e1, e2]
  by_cases ha : a = []
  · simp [hc, hc', hb, hb', ha]
  have e1 : (b ++ c).head? = b.head? := by cases b <;> simp_all
  have e2 : (b ++ '/' :: c).head? = b.head? := by cases b <;> simp_all
  have e3 : (a ++ b).getLast? = b.getLast? := by simp [List.getLast?_append]; cases h : b.getLast? <;> simp_all [List.getLast?_eq_none_iff]
  have e4 : (a ++ '/' :: b).getLast? = b.getLast? := by
    have : a ++ '/' :: b = (a ++ ['/']) ++ b := by simp
    rw [this, List.getLast?_append]; cases h : b.getLast? <;> simp_all [List.getLast?_eq_none_iff]
  by_cases hal : a.getLast? = some '/' <;> by_cases hbl : b.getLast? = some '/' <;>
    simp [hc, hc', hb, hb', ha, hal, hbl, e1, e2, e3, e4]

/-! ### a pretty-printed path carries its own directory flag -/

theorem indicates_prettySpec {l : Loc} (hl : l.Valid) (d : Bool) (hn : l.names ≠ []) :
    pathIndicatesDirectory (prettySpec l d) = d := by
  obtain ⟨abs, ups, names⟩ := l
  simp only at hn
  rcases List.eq_nil_or_concat names with h | ⟨ns, n, h⟩
  · exact absurd h hn
  · rw [List.concat_eq_append] at h
    subst h
    have hnm : IsName n := hl.2 n (by simp)
    let y : Str := render ⟨abs, ups, ns⟩
    have e : render ⟨abs, ups, ns ++ [n]⟩ = y ++ n ++ ['/'] := by
      simp [y, render, List.append_assoc]
    have hy : y = [] ∨ ∃ y', y = y' ++ ['/'] := render_nil_or_slash _
    unfold prettySpec
    simp only [hn, ↓reduceIte, e, List.dropLast_concat]
    cases d with
    | true =>
      simp only [↓reduceIte]
      rw [pathIndicatesDirectory_iff]
      right; right; right; left
      exact ⟨y ++ n, rfl⟩
    | false =>
      simp only [Bool.false_eq_true, ↓reduceIte]
      rw [Bool.eq_false_iff]
      intro h
      rw [indicatesDirectory_lastPiece] at h
      obtain ⟨c, hc, hcc⟩ := h
      rw [getLast?_splitSlash_append y n hnm.2.1 hy] at hc
      injection hc with hc
      subst hc
      rcases hcc with h | h | h
      · exact hnm.1 h
      · exact hnm.2.2.1 h
      · exact hnm.2.2.2 h

end DV.C18
