/-
C18 helper lemmas, part 6: relativePath.  The character-level common-prefix / back-up computation removes
exactly the longest common list of leading components; the rest is list reasoning about `Loc.walk`.
-/
import DuneVerif.Proofs.C18.Tables

namespace DV.C18

theorem splitCommon_spec : ∀ (B P : List Str), ∃ C, B = C ++ (splitCommon B P).1 ∧ P = C ++ (splitCommon B P).2
  | [], P => ⟨[], by simp [splitCommon]⟩
  | c :: B, [] => ⟨[], by simp [splitCommon]⟩
  | c :: B, c' :: P => by
    by_cases h : c = c'
    · subst h
      obtain ⟨C, h1, h2⟩ := splitCommon_spec B P
      refine ⟨c :: C, ?_, ?_⟩
      · simp only [splitCommon, ↓reduceIte, List.cons_append]; rw [← h1]
      · simp only [splitCommon, ↓reduceIte, List.cons_append]; rw [← h2]
    · exact ⟨[], by simp [splitCommon, h]⟩

/-! ### character level -/

theorem commonPrefixLen_nil_left (y : Str) : commonPrefixLen [] y = 0 := by simp [commonPrefixLen]
theorem commonPrefixLen_nil_right (x : Str) : commonPrefixLen x [] = 0 := by
  cases x <;> simp [commonPrefixLen]

theorem commonPrefixLen_append (x a b : Str) : commonPrefixLen (x ++ a) (x ++ b) = x.length + commonPrefixLen a b := by
  induction x with
  | nil => simp
  | cons c x ih => simp [commonPrefixLen, ih]; omega

theorem backUp_zero (s : Str) : backUp s 0 = 0 := rfl

theorem backUp_past (x y : Str) : ∀ k, backUp (x ++ '/' :: y) (x.length + 1 + k) = x.length + 1 + backUp y k
  | 0 => by
    show backUp (x ++ '/' :: y) (x.length + 1) = _
    rw [backUp]
    simp [backUp]
  | k+1 => by
    have ih := backUp_past x y k
    have e : x.length + 1 + (k + 1) = (x.length + 1 + k) + 1 := by omega
    rw [e, backUp, backUp]
    have hidx : (x ++ '/' :: y)[x.length + 1 + k]? = y[k]? := by
      rw [List.getElem?_append_right (by omega)]
      have : x.length + 1 + k - x.length = k + 1 := by omega
      rw [this]; simp
    rw [hidx, ih]
    split <;> omega

theorem backUp_within : ∀ (k : Nat) (c rest : Str), k ≤ c.length → '/' ∉ c → backUp (c ++ rest) k = 0
  | 0, _, _, _, _ => rfl
  | k+1, c, rest, hk, hc => by
    rw [backUp]
    have hidx : (c ++ rest)[k]? = some (c[k]'(by omega)) := by
      rw [List.getElem?_append_left (by omega)]
      exact List.getElem?_eq_getElem (by omega)
    rw [hidx]
    have : c[k]'(by omega) ≠ '/' := fun e => hc (e ▸ List.getElem_mem (by omega))
    simp only [Option.some.injEq, this, ↓reduceIte]
    exact backUp_within k c rest (by omega) hc

theorem commonPrefixLen_differ : ∀ (c1 c2 s t : Str), '/' ∉ c1 → '/' ∉ c2 → c1 ≠ c2 →
    commonPrefixLen (c1 ++ '/' :: s) (c2 ++ '/' :: t) ≤ c2.length
  | [], [], _, _, _, _, h => absurd rfl h
  | [], b :: c2, s, t, _, h2, _ => by
    have : b ≠ '/' := fun e => h2 (by simp [e])
    simp [commonPrefixLen, Ne.symm this]
  | a :: c1, [], s, t, h1, _, _ => by
    have : a ≠ '/' := fun e => h1 (by simp [e])
    simp [commonPrefixLen, this]
  | a :: c1, b :: c2, s, t, h1, h2, h => by
    simp only [List.cons_append, commonPrefixLen]
    split
    · rename_i hab
      subst hab
      have := commonPrefixLen_differ c1 c2 s t (fun e => h1 (by simp [e])) (fun e => h2 (by simp [e]))
        (fun e => h (by rw [e]))
      simp; omega
    · simp

/-- the character-level prefix removal of relativePath, on texts made of slash-free components -/
theorem relCore : ∀ (B P : List Str), (∀ c ∈ B, '/' ∉ c) → (∀ c ∈ P, '/' ∉ c) →
    (joinSlash B).drop (backUp (joinSlash P) (commonPrefixLen (joinSlash B) (joinSlash P)))
        = joinSlash (splitCommon B P).1 ∧
    (joinSlash P).drop (backUp (joinSlash P) (commonPrefixLen (joinSlash B) (joinSlash P)))
        = joinSlash (splitCommon B P).2
  | [], P, _, _ => by simp [commonPrefixLen_nil_left, backUp_zero, splitCommon]
  | c :: B, [], _, _ => by simp [commonPrefixLen_nil_right, backUp_zero, splitCommon]
  | c :: B, c' :: P, hB, hP => by
    by_cases h : c = c'
    · subst h
      have ih := relCore B P (fun d hd => hB d (by simp [hd])) (fun d hd => hP d (by simp [hd]))
      simp only [joinSlash_cons, splitCommon, ↓reduceIte]
      have e1 : ∀ s : Str, c ++ '/' :: s = (c ++ ['/']) ++ s := by intro s; simp
      rw [e1 (joinSlash B), e1 (joinSlash P), commonPrefixLen_append]
      have e2 : (c ++ ['/']).length = c.length + 1 := by simp
      rw [e2, ← e1, ← e1, backUp_past]
      have e3 : ∀ (s : Str) (m : Nat), (c ++ '/' :: s).drop (c.length + 1 + m) = s.drop m := by
        intro s m
        rw [e1, ← e2, ← List.drop_drop, List.drop_left]
      rw [e3, e3]
      exact ih
    · have h1 := hB c (by simp)
      have h2 := hP c' (by simp)
      have hk := commonPrefixLen_differ c c' (joinSlash B) (joinSlash P) h1 h2 h
      simp only [joinSlash_cons, splitCommon, h, ↓reduceIte]
      rw [backUp_within _ c' _ hk h2]
      simp

/-! ### list level -/

theorem flatten_replicate_up (k : Nat) :
    (List.replicate k ['.', '.', '/']).flatten = joinSlash (List.replicate k dotdot) := by
  induction k with
  | zero => rfl
  | succ k ih => simp [List.replicate_succ, ih, dotdot]

theorem count_slash_joinSlash : ∀ (cs : List Str), (∀ c ∈ cs, '/' ∉ c) → (joinSlash cs).count '/' = cs.length
  | [], _ => rfl
  | c :: cs, h => by
    rw [joinSlash_cons, List.count_append, List.count_cons, count_slash_joinSlash cs (fun d hd => h d (by simp [hd]))]
    have : c.count '/' = 0 := List.count_eq_zero.2 (h c (by simp))
    simp [this]

theorem hasPrefix_up_joinSlash (X : List Str) : hasPrefix (joinSlash (dotdot :: X)) ['.', '.', '/'] = true := by
  simp [dotdot, hasPrefix_cons_cons]

theorem no_dotdot_of_suffix : ∀ (u : Nat) (nb C B' : List Str), List.replicate u dotdot ++ nb = C ++ B' →
    (∀ n ∈ nb, n ≠ dotdot) → B'.head? ≠ some dotdot → ∀ c ∈ B', c ≠ dotdot
  | 0, nb, C, B', h, hn, _ => by
    intro c hc
    apply hn
    simp only [List.replicate_zero, List.nil_append] at h
    rw [h]; simp [hc]
  | u+1, nb, [], B', h, _, hh => by
    simp only [List.nil_append] at h
    rw [← h] at hh
    simp [List.replicate_succ] at hh
  | u+1, nb, c :: C, B', h, hn, hh => by
    simp only [List.replicate_succ, List.cons_append, List.cons.injEq] at h
    exact no_dotdot_of_suffix u nb C B' h.2 hn hh

theorem walk_push_pop (X : Loc) (c : Str) (hc : c ≠ dotdot) : (X.walk c).walk dotdot = X := by
  simp [Loc.walk, hc]

theorem push_pop : ∀ (B' : List Str) (X : Loc), (∀ c ∈ B', c ≠ dotdot) →
    (B' ++ List.replicate B'.length dotdot).foldl Loc.walk X = X
  | [], X, _ => by simp
  | c :: B', X, h => by
    have ih := push_pop B' (X.walk c) (fun d hd => h d (by simp [hd]))
    have e : c :: B' ++ List.replicate (c :: B').length dotdot
        = c :: ((B' ++ List.replicate B'.length dotdot) ++ [dotdot]) := by
      simp [List.replicate_succ']
    rw [e, List.foldl_cons, List.foldl_append, ih]
    simp only [List.foldl_cons, List.foldl_nil]
    exact walk_push_pop X c (h c (by simp))

theorem render_eq_W (d : Loc) : render d = W d.abs (tailList d) := rfl

theorem eval_tailList {d : Loc} (hd : d.Valid) : (tailList d).foldl Loc.walk ⟨d.abs, 0, []⟩ = d := by
  have := denote_render hd
  unfold denote at this
  rwa [comps_render hd, isAbs_render hd] at this

theorem relCore_W (a : Bool) (Bt Pt : List Str) (hB : ∀ c ∈ Bt, '/' ∉ c) (hP : ∀ c ∈ Pt, '/' ∉ c) :
    (W a Bt).drop (backUp (W a Pt) (commonPrefixLen (W a Bt) (W a Pt))) = joinSlash (splitCommon Bt Pt).1 ∧
    (W a Pt).drop (backUp (W a Pt) (commonPrefixLen (W a Bt) (W a Pt))) = joinSlash (splitCommon Bt Pt).2 := by
  cases a with
  | false => simpa [W] using relCore Bt Pt hB hP
  | true =>
    have hB' : ∀ c ∈ ([] : Str) :: Bt, '/' ∉ c := by
      intro c hc; rcases List.mem_cons.1 hc with h | h
      · simp [h]
      · exact hB c h
    have hP' : ∀ c ∈ ([] : Str) :: Pt, '/' ∉ c := by
      intro c hc; rcases List.mem_cons.1 hc with h | h
      · simp [h]
      · exact hP c h
    have := relCore ([] :: Bt) ([] :: Pt) hB' hP'
    simpa [W, splitCommon] using this

/-- core of the round trip: whenever relativePath (over the spec sanitiser) reports `r`, walking `r` from the
    base location arrives at the target location -/
theorem relative_core (b p r : Str) (h : relativePathS b p = .ok r) :
    isAbs r = false ∧ (comps r).foldl Loc.walk (denote b) = denote p := by
  unfold relativePathS relativePathWith at h
  simp only at h
  split at h
  · cases h
  · rename_i habs
    split at h
    · cases h
    · rename_i hup
      have hvb := denote_valid b
      have hvp := denote_valid p
      have ha : (denote b).abs = (denote p).abs := by
        rw [denote_abs, denote_abs]
        have e : ∀ q : Str, hasPrefix q ['/'] = isAbs q := by
          intro q; cases q with
          | nil => simp [isAbs]
          | cons c q => simp [hasPrefix_cons_cons, isAbs]; rw [Bool.eq_iff_iff]; simp
        simpa [e] using habs
      unfold processPathS at h hup
      rw [render_eq_W, render_eq_W, ha] at h hup
      have hsB : ∀ c ∈ tailList (denote b), '/' ∉ c := fun c hc => (isComp_of_mem_stack hvb c hc).2.1
      have hsP : ∀ c ∈ tailList (denote p), '/' ∉ c := fun c hc => (isComp_of_mem_stack hvp c hc).2.1
      obtain ⟨e1, e2⟩ := relCore_W (denote p).abs _ _ hsB hsP
      rw [e1] at h hup
      rw [e2] at h
      obtain ⟨C, hC1, hC2⟩ := splitCommon_spec (tailList (denote b)) (tailList (denote p))
      generalize (splitCommon (tailList (denote b)) (tailList (denote p))).1 = B' at *
      generalize (splitCommon (tailList (denote b)) (tailList (denote p))).2 = P' at *
      have hsB' : ∀ c ∈ B', '/' ∉ c := fun c hc => hsB c (by rw [hC1]; simp [hc])
      have hcP' : ∀ c ∈ P', IsComp c := fun c hc => isComp_of_mem_stack hvp c (by
        show c ∈ tailList (denote p); rw [hC2]; simp [hc])
      rw [count_slash_joinSlash B' hsB', flatten_replicate_up, ← joinSlash_append] at h
      injection h with h
      subst h
      have hcomps : ∀ c ∈ List.replicate B'.length dotdot ++ P', IsComp c := by
        intro c hc
        rcases List.mem_append.1 hc with hc | hc
        · rw [(List.mem_replicate.1 hc).2]; exact isComp_dotdot
        · exact hcP' c hc
      refine ⟨?_, ?_⟩
      · have := head?_joinSlash_ne_slash _ hcomps
        simpa [isAbs] using this
      · rw [comps_joinSlash _ hcomps]
        have hB'nd : ∀ c ∈ B', c ≠ dotdot := by
          apply no_dotdot_of_suffix (denote b).ups (denote b).names C B' hC1
            (fun n hn => (hvb.2 n hn).2.2.2)
          intro hh
          cases B' with
          | nil => simp at hh
          | cons x X =>
            simp at hh; subst hh
            rw [hasPrefix_up_joinSlash] at hup
            exact hup rfl
        have eb := eval_tailList hvb
        have ep := eval_tailList hvp
        rw [hC1, ha] at eb
        rw [hC2] at ep
        rw [← eb, ← List.foldl_append, List.append_assoc, ← List.append_assoc B', List.foldl_append,
          List.foldl_append, push_pop B' _ hB'nd, ← List.foldl_append]
        exact ep

end DV.C18
