/-
C18 helper lemmas, part 4: pass 4 of `processPathC` (the find("/../")/back-up loop) is stack resolution.

The cursor of the loop always rests on the '/' that ends the component on top of the stack of components
already passed (or at index 0 with an empty stack).  `stackOf d` is that stack for the location `d`
reached so far (top first; an absolute path has the empty root component at the bottom).
-/
import DuneVerif.Proofs.C18.Passes

namespace DV.C18

/-- reversed text of the components of a stack (top first), each preceded - in reversed reading - by its '/' -/
def R (stk : List Str) : Str := stk.flatMap (fun c => '/' :: c.reverse)

@[simp] theorem R_nil : R [] = [] := rfl
@[simp] theorem R_cons (c : Str) (s : List Str) : R (c :: s) = '/' :: (c.reverse ++ R s) := by simp [R]

theorem R_reverse (stk : List Str) : (R stk).reverse = joinSlash stk.reverse := by
  induction stk with
  | nil => rfl
  | cons c s ih => simp [ih]

def stackOf (d : Loc) : List Str :=
  d.names.reverse ++ (List.replicate d.ups dotdot ++ (if d.abs then [[]] else []))

theorem render_eq_joinSlash (d : Loc) : render d = joinSlash (stackOf d).reverse := by
  unfold render stackOf
  cases d.abs <;> simp

/-! ### find -/

theorem findUp_noslash : ∀ (c l r : Str), '/' ∉ c → findUp l (c ++ r) = findUp (c.reverse ++ l) r
  | [], _, _, _ => by simp
  | a :: c, l, r, h => by
    have ha : a ≠ '/' := fun e => h (by simp [e])
    have ih := findUp_noslash c (a :: l) r (fun e => h (by simp [e]))
    rw [List.cons_append, findUp]
    have : hasPrefix (a :: (c ++ r)) patUp = false := by
      simp [patUp, hasPrefix_cons_cons, ha]
    simp [this, ih]

theorem hasPrefix_patUp_comp (c r : Str) (h1 : '/' ∉ c) (h2 : c ≠ dotdot) :
    hasPrefix ('/' :: (c ++ '/' :: r)) patUp = false := by
  unfold patUp
  rw [hasPrefix_cons_cons]
  match c, h1, h2 with
  | [], _, _ => simp [hasPrefix_cons_cons]
  | [a], _, _ => simp [hasPrefix_cons_cons]
  | [a, b], _, h2 =>
    have : ¬ (a = '.' ∧ b = '.') := fun ⟨e1, e2⟩ => h2 (by simp [e1, e2, dotdot])
    simp [hasPrefix_cons_cons]
    intro e1 e2; exact absurd ⟨e1, e2⟩ this
  | a :: b :: e :: c, h1, _ =>
    have : e ≠ '/' := fun e' => h1 (by simp [e'])
    simp [hasPrefix_cons_cons, this]

/-- the search passes over a component that is not ".." -/
theorem findUp_skip (c l r : Str) (h1 : '/' ∉ c) (h2 : c ≠ dotdot) :
    findUp l ('/' :: (c ++ '/' :: r)) = findUp (c.reverse ++ '/' :: l) ('/' :: r) := by
  rw [findUp]
  simp only [hasPrefix_patUp_comp c r h1 h2, Bool.false_eq_true, ↓reduceIte]
  exact findUp_noslash c ('/' :: l) ('/' :: r) h1

theorem findUp_hit (l r : Str) : findUp l ('/' :: '.' :: '.' :: '/' :: r) = some (l, '/' :: '.' :: '.' :: '/' :: r) := by
  rw [findUp]
  simp [patUp, hasPrefix_cons_cons]

theorem findUp_end (l : Str) : findUp l ['/'] = none := by
  simp [findUp, patUp, hasPrefix_cons_cons]

theorem resolveLoop_congr (fuel : Nat) {l r l' r' : Str} (h1 : findUp l r = findUp l' r')
    (h2 : l.reverse ++ r = l'.reverse ++ r') : resolveLoop fuel l r = resolveLoop fuel l' r' := by
  cases fuel with
  | zero => simp [resolveLoop]
  | succ n =>
    rw [resolveLoop, resolveLoop, h1, h2]

theorem takeWhile_top (top : Str) (rest : List Str) (h : '/' ∉ top) :
    (top.reverse ++ R rest).takeWhile (· ≠ '/') = top.reverse := by
  rw [List.takeWhile_append_of_pos]
  · cases rest <;> simp
  · intro a ha
    simp only [List.mem_reverse] at ha
    simp only [ne_eq, decide_eq_true_eq]
    intro e; exact h (e ▸ ha)

/-! ### the loop -/

/-- state of the loop when the location reached so far is `d` and the components `todo` are still ahead -/
def LoopAt (fuel : Nat) (d : Loc) (todo : List Str) : Option Str :=
  match stackOf d with
  | [] => resolveLoop fuel [] (joinSlash todo)
  | top :: rest => resolveLoop fuel (top.reverse ++ R rest) ('/' :: joinSlash todo)

theorem stackOf_push_name (d : Loc) (c : Str) :
    stackOf { d with names := d.names ++ [c] } = c :: stackOf d := by
  simp [stackOf]

theorem stackOf_up (u : Nat) : stackOf ⟨false, u + 1, []⟩ = dotdot :: stackOf ⟨false, u, []⟩ := by
  simp [stackOf, List.replicate_succ]

theorem mem_stackOf {d : Loc} (hd : d.Valid) {c : Str} (hc : c ∈ stackOf d) : '/' ∉ c := by
  simp only [stackOf, List.mem_append, List.mem_reverse, List.mem_replicate] at hc
  rcases hc with hc | hc | hc
  · exact (hd.2 c hc).2.1
  · rw [hc.2]; decide
  · split at hc <;> simp at hc
    simp [hc]

/-- stepping from `d` over one more component `c` that the search skips (not "..") -/
theorem LoopAt_skip (fuel : Nat) (d : Loc) (c : Str) (todo : List Str) (hc : IsComp c) (hne : c ≠ dotdot) :
    LoopAt fuel d (c :: todo) = LoopAt fuel { d with names := d.names ++ [c] } todo := by
  unfold LoopAt
  rw [stackOf_push_name]
  cases hs : stackOf d with
  | nil =>
    simp only [joinSlash_cons, R_nil, List.append_nil]
    apply resolveLoop_congr
    · rw [findUp_noslash c [] _ hc.2.1]; simp
    · simp
  | cons top rest =>
    simp only [joinSlash_cons, R_cons]
    apply resolveLoop_congr
    · rw [findUp_skip c _ _ hc.2.1 hne]
    · simp

theorem render_eq_R (d : Loc) : render d = (R (stackOf d)).reverse := by
  rw [R_reverse, render_eq_joinSlash]

/-- one iteration at a match whose preceding component is "..":  `src += 3` -/
theorem hit_dotdot (f : Nat) (rest : List Str) (r : Str) :
    resolveLoop (f + 1) (dotdot.reverse ++ R rest) ('/' :: '.' :: '.' :: '/' :: r)
      = resolveLoop f (dotdot.reverse ++ R (dotdot :: rest)) ('/' :: r) := by
  rw [resolveLoop, findUp_hit]
  simp only [takeWhile_top dotdot rest (by decide)]
  simp [dotdot]

/-- one iteration at a match at index 0 of an absolute path: `erase(0, 3)` -/
theorem hit_root (f : Nat) (r : Str) :
    resolveLoop (f + 1) [] ('/' :: '.' :: '.' :: '/' :: r) = resolveLoop f [] ('/' :: r) := by
  rw [resolveLoop, findUp_hit]
  simp

/-- one iteration at a match whose preceding component is a name: erase "<name>/../" and back up -/
theorem hit_name (f : Nat) (n : Str) (hn : IsName n) (rest : List Str) (r : Str) :
    resolveLoop (f + 1) (n.reverse ++ R rest) ('/' :: '.' :: '.' :: '/' :: r)
      = match rest with
        | [] => resolveLoop f [] r
        | t :: rest' => resolveLoop f (t.reverse ++ R rest') ('/' :: r) := by
  rw [resolveLoop, findUp_hit]
  simp only [takeWhile_top n rest hn.2.1]
  have h1 : n.reverse ≠ ['.', '.'] := by
    intro e
    have : n = dotdot := by
      have := congrArg List.reverse e
      simpa [dotdot] using this
    exact hn.2.2.2 this
  have h2 : n.reverse ≠ [] := by simpa using hn.1
  simp only [h1, h2, ↓reduceIte, List.drop_left, List.drop_succ_cons, List.drop_zero]
  cases rest with
  | nil => simp
  | cons t rest' => simp

theorem LoopAt_of_stack_nil {fuel : Nat} {d : Loc} {todo : List Str} (h : stackOf d = []) :
    LoopAt fuel d todo = resolveLoop fuel [] (joinSlash todo) := by
  unfold LoopAt; rw [h]

theorem LoopAt_of_stack_cons {fuel : Nat} {d : Loc} {todo : List Str} {top : Str} {rest : List Str}
    (h : stackOf d = top :: rest) :
    LoopAt fuel d todo = resolveLoop fuel (top.reverse ++ R rest) ('/' :: joinSlash todo) := by
  unfold LoopAt; rw [h]

/-- one iteration consumes a ".." ahead of the cursor -/
theorem LoopAt_dotdot (f : Nat) (d : Loc) (hd : d.Valid) (todo : List Str)
    (hne : stackOf d ≠ []) :
    LoopAt (f + 1) d (dotdot :: todo) = LoopAt f (d.walk dotdot) todo := by
  obtain ⟨abs, ups, names⟩ := d
  rcases List.eq_nil_or_concat names with hn | ⟨ns, n, hn⟩
  · subst hn
    cases abs with
    | false =>
      have hw : Loc.walk ⟨false, ups, []⟩ dotdot = ⟨false, ups + 1, []⟩ := by simp [Loc.walk]
      rw [hw]
      cases ups with
      | zero => exact absurd (by simp [stackOf]) hne
      | succ u =>
        rw [LoopAt_of_stack_cons (stackOf_up u), LoopAt_of_stack_cons (stackOf_up (u + 1))]
        simp only [joinSlash_cons, dotdot, List.cons_append, List.nil_append]
        exact hit_dotdot f _ _
    | true =>
      have hu : ups = 0 := hd.1 rfl
      subst hu
      have hw : Loc.walk ⟨true, 0, []⟩ dotdot = ⟨true, 0, []⟩ := by simp [Loc.walk]
      have hs : stackOf ⟨true, 0, []⟩ = [[]] := by simp [stackOf]
      rw [hw, LoopAt_of_stack_cons hs, LoopAt_of_stack_cons hs]
      simp only [joinSlash_cons, dotdot, List.cons_append, List.nil_append, List.reverse_nil, R_nil]
      exact hit_root f _
  · rw [List.concat_eq_append] at hn
    subst hn
    have hnm : IsName n := hd.2 n (by simp)
    have hw : Loc.walk ⟨abs, ups, ns ++ [n]⟩ dotdot = ⟨abs, ups, ns⟩ := by simp [Loc.walk]
    have hs : stackOf ⟨abs, ups, ns ++ [n]⟩ = n :: stackOf ⟨abs, ups, ns⟩ := stackOf_push_name ⟨abs, ups, ns⟩ n
    rw [hw, LoopAt_of_stack_cons hs]
    simp only [joinSlash_cons, dotdot, List.cons_append, List.nil_append]
    rw [hit_name f n hnm]
    cases hs' : stackOf ⟨abs, ups, ns⟩ with
    | nil => simp only; rw [LoopAt_of_stack_nil hs']
    | cons t rest' => simp only; rw [LoopAt_of_stack_cons hs']

/-- with the cursor at index 0 of a relative path, a leading ".." is not preceded by a '/': the search
    runs over it without an iteration -/
theorem LoopAt_dotdot_start (fuel : Nat) (todo : List Str) :
    LoopAt fuel ⟨false, 0, []⟩ (dotdot :: todo) = LoopAt fuel ⟨false, 1, []⟩ todo := by
  have e0 : stackOf ⟨false, 0, []⟩ = [] := by simp [stackOf]
  have e1 : stackOf ⟨false, 1, []⟩ = [dotdot] := by simp [stackOf]
  rw [LoopAt_of_stack_nil e0, LoopAt_of_stack_cons e1]
  simp only [joinSlash_cons, R_nil, List.append_nil]
  apply resolveLoop_congr
  · rw [findUp_noslash dotdot [] _ (by decide)]; simp
  · simp

theorem stackOf_eq_nil {d : Loc} (h : stackOf d = []) : d = ⟨false, 0, []⟩ := by
  obtain ⟨abs, ups, names⟩ := d
  simp only [stackOf, List.append_eq_nil_iff, List.reverse_eq_nil_iff, List.replicate_eq_nil_iff] at h
  obtain ⟨h1, h2, h3⟩ := h
  cases abs <;> simp_all

theorem loop_main : ∀ (todo : List Str) (fuel : Nat) (d : Loc), d.Valid → (∀ c ∈ todo, IsComp c) →
    todo.length < fuel → LoopAt fuel d todo = some (render (todo.foldl Loc.walk d))
  | [], fuel, d, hd, _, hf => by
    obtain ⟨n, rfl⟩ : ∃ n, fuel = n + 1 := ⟨fuel - 1, by simp at hf; omega⟩
    simp only [List.foldl_nil]
    rw [render_eq_R]
    unfold LoopAt
    cases hs : stackOf d with
    | nil => simp [resolveLoop, findUp]
    | cons top rest => simp [resolveLoop, findUp_end]
  | c :: todo, fuel, d, hd, hcs, hf => by
    have hc : IsComp c := hcs c (by simp)
    have htodo : ∀ c ∈ todo, IsComp c := fun c' h' => hcs c' (by simp [h'])
    simp only [List.length_cons] at hf
    rw [List.foldl_cons]
    have hv : (d.walk c).Valid := Loc.walk_valid hd hc
    by_cases hne : c = dotdot
    · subst hne
      by_cases hs : stackOf d = []
      · have := stackOf_eq_nil hs
        subst this
        have hw : Loc.walk ⟨false, 0, []⟩ dotdot = ⟨false, 1, []⟩ := by simp [Loc.walk]
        rw [LoopAt_dotdot_start, hw]
        exact loop_main todo fuel _ (hw ▸ hv) htodo (by omega)
      · obtain ⟨f, rfl⟩ : ∃ f, fuel = f + 1 := ⟨fuel - 1, by omega⟩
        rw [LoopAt_dotdot f d hd todo hs]
        exact loop_main todo f _ hv htodo (by omega)
    · have hw : d.walk c = { d with names := d.names ++ [c] } := by simp [Loc.walk, hne]
      rw [LoopAt_skip fuel d c todo hc hne, ← hw]
      exact loop_main todo fuel _ hv htodo (by omega)

/-- pass 4 on a text free of empty and "." components is stack resolution -/
theorem resolveUps_W (abs : Bool) (cs : List Str) (h : ∀ c ∈ cs, IsComp c) :
    resolveUps (W abs cs) = some (render (cs.foldl Loc.walk ⟨abs, 0, []⟩)) := by
  have hlen : cs.length < (W abs cs).length + 1 := by
    have : ∀ cs : List Str, cs.length ≤ (joinSlash cs).length := by
      intro cs; induction cs with
      | nil => simp
      | cons c cs ih => simp; omega
    have := this cs
    simp [W]; omega
  rw [← loop_main cs _ ⟨abs, 0, []⟩ ⟨fun _ => rfl, by simp⟩ h hlen]
  unfold resolveUps
  cases abs with
  | true =>
    have hs : stackOf ⟨true, 0, []⟩ = [[]] := by simp [stackOf]
    rw [LoopAt_of_stack_cons hs]; simp [W]
  | false =>
    have hs : stackOf ⟨false, 0, []⟩ = [] := by simp [stackOf]
    rw [LoopAt_of_stack_nil hs]; simp [W]

/-- termination and refinement: pass 4 leaves through `break` within its fuel, and the character-level
    transcription computes the component-level specification -/
theorem processPathC?_eq_some (p : Str) : processPathC? p = some (processPathS p) := by
  unfold processPathC? processPathS denote
  simp only
  rw [pass1, pass23, resolveUps_W]
  · unfold comps
    rw [List.filter_filter]
    have e : ∀ l : List Str, l.filter (fun a => decide (a ≠ dot) && decide (a ≠ [])) =
        l.filter (fun c => decide (c ≠ [] ∧ c ≠ dot)) := by
      intro l
      apply List.filter_congr
      intro c _
      simp [Bool.and_comm]
    rw [e]
  · intro c hc
    rw [List.filter_filter, List.mem_filter] at hc
    have := hc.2
    simp only [Bool.and_eq_true, decide_eq_true_eq] at this
    exact ⟨this.2, no_slash_of_mem_splitSlash p c hc.1, this.1⟩
  · intro c hc
    rw [List.mem_filter] at hc
    have := hc.2
    simp only [decide_eq_true_eq] at this
    exact ⟨this, no_slash_of_mem_splitSlash p c hc.1⟩

/-- the refinement: the character-level transcription computes the component-level specification -/
theorem processPathC_eq_S (p : Str) : processPathC p = processPathS p := by
  unfold processPathC
  rw [processPathC?_eq_some]

end DV.C18
