/-
C18 helper lemmas, part 8 (round two): exact result of relativePath, its normal form, prettyPath preserves the
location.
-/
import DuneVerif.Proofs.C18.Extras

namespace DV.C18

/-! ### exact form of the relativePath result -/

/-- whenever relativePath (over the spec sanitiser) reports `r`, `r` is: one ".." per base component left
    after removing the longest common list of leading components, then the remaining target components -/
theorem relativeS_form (b p r : Str) (h : relativePathS b p = .ok r) :
    r = joinSlash (List.replicate (splitCommon (tailList (denote b)) (tailList (denote p))).1.length dotdot
          ++ (splitCommon (tailList (denote b)) (tailList (denote p))).2) := by
  unfold relativePathS relativePathWith at h
  simp only at h
  split at h
  · cases h
  · rename_i habs
    split at h
    · cases h
    · have hvb := denote_valid b
      have hvp := denote_valid p
      have ha : (denote b).abs = (denote p).abs := by
        rw [denote_abs, denote_abs]
        have e : ∀ q : Str, hasPrefix q ['/'] = isAbs q := by
          intro q; cases q with
          | nil => simp [isAbs]
          | cons c q => simp [hasPrefix_cons_cons, isAbs]; rw [Bool.eq_iff_iff]; simp
        simpa [e] using habs
      unfold processPathS at h
      rw [render_eq_W, render_eq_W, ha] at h
      have hsB : ∀ c ∈ tailList (denote b), '/' ∉ c := fun c hc => (isComp_of_mem_stack hvb c hc).2.1
      have hsP : ∀ c ∈ tailList (denote p), '/' ∉ c := fun c hc => (isComp_of_mem_stack hvp c hc).2.1
      obtain ⟨e1, e2⟩ := relCore_W (denote p).abs _ _ hsB hsP
      rw [e1, e2] at h
      obtain ⟨C, hC1, _⟩ := splitCommon_spec (tailList (denote b)) (tailList (denote p))
      have hsB' : ∀ c ∈ (splitCommon (tailList (denote b)) (tailList (denote p))).1, '/' ∉ c :=
        fun c hc => hsB c (by rw [hC1]; simp [hc])
      rw [count_slash_joinSlash _ hsB', flatten_replicate_up, ← joinSlash_append] at h
      injection h with h
      exact h.symm

/-- relativePath over the spec sanitiser is the documented function of the two locations -/
theorem relativeS_eq_spec (b p : Str) : relativePathS b p = relativeSpec (denote b) (denote p) := by
  have hd := relative_defined b p
  unfold relativeSpec
  rw [denote_abs, denote_abs]
  by_cases hc : isAbs b = isAbs p ∧ (denote b).ups ≤ (denote p).ups
  · obtain ⟨r, hr⟩ := hd.2 hc
    rw [if_pos hc, hr, relativeS_form b p r hr]
  · rw [if_neg hc]
    cases hr : relativePathS b p with
    | notImplemented => rfl
    | ok r => exact absurd (hd.1 ⟨r, hr⟩) hc

/-! ### the result of relativePath is sanitised -/

/-- a list ending a "leading ups, then names" list has the same shape -/
theorem suffix_shape : ∀ (u : Nat) (ns C S : List Str), List.replicate u dotdot ++ ns = C ++ S →
    ∃ j ns', S = List.replicate j dotdot ++ ns' ∧ ∀ n ∈ ns', n ∈ ns
  | u, ns, [], S, h => ⟨u, ns, by simpa using h.symm, fun _ hn => hn⟩
  | 0, ns, c :: C, S, h => by
    refine ⟨0, S, by simp, ?_⟩
    intro n hn
    simp only [List.replicate_zero, List.nil_append] at h
    rw [h]; simp [hn]
  | u+1, ns, c :: C, S, h => by
    simp only [List.replicate_succ, List.cons_append, List.cons.injEq] at h
    exact suffix_shape u ns C S h.2

theorem relativeSpec_normalForm {b p : Loc} (hp : p.Valid) {r : Str} (h : relativeSpec b p = .ok r) :
    NormalForm r ∧ isAbs r = false := by
  unfold relativeSpec at h
  split at h
  · injection h with h
    obtain ⟨C, _, hC2⟩ := splitCommon_spec (tailList b) (tailList p)
    generalize (splitCommon (tailList b) (tailList p)).1 = B' at *
    generalize (splitCommon (tailList b) (tailList p)).2 = P' at *
    obtain ⟨j, ns', hS, hmem⟩ := suffix_shape p.ups p.names C P' hC2
    subst hS
    have hval : Loc.Valid ⟨false, B'.length + j, ns'⟩ :=
      ⟨by simp, fun n hn => hp.2 n (hmem n hn)⟩
    have hr : r = render ⟨false, B'.length + j, ns'⟩ := by
      rw [← h, ← List.append_assoc, List.replicate_append_replicate]
      simp [render]
    exact ⟨⟨_, hval, hr⟩, by rw [hr, isAbs_render hval]⟩
  · cases h

/-! ### prettyPath denotes the same location -/

theorem denote_dropLast_slash (y : Str) (hy : y ≠ []) : denote (y ++ ['/']) = denote y := by
  unfold denote
  have e : y ++ ['/'] = y ++ '/' :: [] := rfl
  rw [isAbs_append y _ hy, e, comps_append_slash]
  simp

theorem denote_prettySpec {d : Loc} (hd : d.Valid) (isDir : Bool) : denote (prettySpec d isDir) = d := by
  have hrd := denote_render hd
  -- the text without its final '/' denotes the same location, unless the text is just the root
  have hdrop : render d ≠ [] → render d ≠ ['/'] → denote (render d).dropLast = d := by
    intro h1 h2
    rcases render_nil_or_slash d with h | ⟨y, h⟩
    · exact absurd h h1
    · have hy : y ≠ [] := by
        intro e; rw [e] at h; exact h2 (by simpa using h)
      rw [h, List.dropLast_concat, ← denote_dropLast_slash y hy, ← h]
      exact hrd
  obtain ⟨abs, ups, names⟩ := d
  unfold prettySpec
  simp only
  by_cases hn : names = []
  · subst hn
    cases ups with
    | zero => cases abs <;> simp <;> decide
    | succ u =>
      have ha : abs = false := by
        cases abs with
        | false => rfl
        | true => have := hd.1 rfl; simp at this
      subst ha
      simp only [↓reduceIte, Nat.add_one_ne_zero]
      apply hdrop
      · simp [render, List.replicate_succ, dotdot]
      · simp [render, List.replicate_succ, dotdot]
  · simp only [hn, ↓reduceIte]
    have hne : ∃ n ns, names = ns ++ [n] := by
      rcases List.eq_nil_or_concat names with h | ⟨ns, n, h⟩
      · exact absurd h hn
      · exact ⟨n, ns, by rw [h, List.concat_eq_append]⟩
    obtain ⟨n, ns, rfl⟩ := hne
    have hnm : IsName n := hd.2 n (by simp)
    have h1 : render ⟨abs, ups, ns ++ [n]⟩ ≠ [] := by simp [render]
    have h2 : render ⟨abs, ups, ns ++ [n]⟩ ≠ ['/'] := by
      intro h
      have hl := congrArg List.length h
      have : 0 < n.length := List.length_pos_iff.2 hnm.1
      cases abs <;> simp [render] at hl <;> omega
    cases isDir with
    | true => simpa using hrd
    | false => simpa using hdrop h1 h2

end DV.C18
