/-
C18 helper lemmas, part 7: when relativePath reports a result; concatenation of sanitised paths.
-/
import DuneVerif.Proofs.C18.Relative

namespace DV.C18

/-- after removing the common leading components, the base still starts with ".." exactly when it has
    more leading ".." than the target -/
theorem splitCommon_head_up : ∀ (ub up : Nat) (nb np : List Str), (∀ n ∈ nb, n ≠ dotdot) → (∀ n ∈ np, n ≠ dotdot) →
    ((splitCommon (List.replicate ub dotdot ++ nb) (List.replicate up dotdot ++ np)).1.head? = some dotdot ↔ up < ub)
  | 0, up, nb, np, hb, _ => by
    obtain ⟨C, h1, _⟩ := splitCommon_spec (List.replicate 0 dotdot ++ nb) (List.replicate up dotdot ++ np)
    generalize (splitCommon (List.replicate 0 dotdot ++ nb) (List.replicate up dotdot ++ np)).1 = B' at *
    simp only [List.replicate_zero, List.nil_append] at h1
    constructor
    · intro h
      cases B' with
      | nil => simp at h
      | cons x X =>
        simp at h; subst h
        exact absurd rfl (hb dotdot (by rw [h1]; simp))
    · intro h; omega
  | ub+1, 0, nb, np, _, hp => by
    have : (splitCommon (List.replicate (ub + 1) dotdot ++ nb) (List.replicate 0 dotdot ++ np)).1
        = List.replicate (ub + 1) dotdot ++ nb := by
      cases np with
      | nil => simp [List.replicate_succ, splitCommon]
      | cons n np =>
        have : dotdot ≠ n := fun e => hp n (by simp) e.symm
        simp [List.replicate_succ, splitCommon, this]
    rw [this]
    simp [List.replicate_succ]
  | ub+1, up+1, nb, np, hb, hp => by
    have := splitCommon_head_up ub up nb np hb hp
    simp only [List.replicate_succ, List.cons_append, splitCommon, ↓reduceIte]
    rw [this]; omega

theorem hasPrefix_up_of_ne (x : Str) (X : List Str) (h1 : '/' ∉ x) (h2 : x ≠ dotdot) :
    hasPrefix (joinSlash (x :: X)) ['.', '.', '/'] = false := by
  have := hasPrefix_patUp_comp x (joinSlash X) h1 h2
  unfold patUp at this
  rw [hasPrefix_cons_cons] at this
  simpa using this

/-- relativePath (over the spec sanitiser) reports a result exactly under the documented conditions -/
theorem relative_defined (b p : Str) :
    (∃ r, relativePathS b p = .ok r) ↔ (isAbs b = isAbs p ∧ (denote b).ups ≤ (denote p).ups) := by
  have e : ∀ q : Str, hasPrefix q ['/'] = isAbs q := by
    intro q; cases q with
    | nil => simp [isAbs]
    | cons c q => simp [hasPrefix_cons_cons, isAbs]; rw [Bool.eq_iff_iff]; simp
  unfold relativePathS relativePathWith
  simp only [e]
  by_cases habs : isAbs b = isAbs p
  · have hvb := denote_valid b
    have hvp := denote_valid p
    have ha : (denote b).abs = (denote p).abs := by rw [denote_abs, denote_abs, habs]
    have hsB : ∀ c ∈ tailList (denote b), '/' ∉ c := fun c hc => (isComp_of_mem_stack hvb c hc).2.1
    have hsP : ∀ c ∈ tailList (denote p), '/' ∉ c := fun c hc => (isComp_of_mem_stack hvp c hc).2.1
    obtain ⟨e1, _⟩ := relCore_W (denote p).abs _ _ hsB hsP
    have hhead := splitCommon_head_up (denote b).ups (denote p).ups (denote b).names (denote p).names
      (fun n hn => (hvb.2 n hn).2.2.2) (fun n hn => (hvp.2 n hn).2.2.2)
    simp only [habs, bne_self_eq_false, Bool.false_eq_true, ↓reduceIte, true_and]
    unfold processPathS
    rw [render_eq_W, render_eq_W, ha, e1]
    have hsB' : ∀ c ∈ (splitCommon (tailList (denote b)) (tailList (denote p))).1, '/' ∉ c := by
      obtain ⟨C, hC1, _⟩ := splitCommon_spec (tailList (denote b)) (tailList (denote p))
      intro c hc; exact hsB c (by rw [hC1]; simp [hc])
    unfold tailList at hhead hsB' ⊢
    generalize (splitCommon (List.replicate (denote b).ups dotdot ++ (denote b).names)
      (List.replicate (denote p).ups dotdot ++ (denote p).names)).1 = B' at *
    cases B' with
    | nil =>
      have : ¬ (denote p).ups < (denote b).ups := fun h => by simpa using hhead.2 h
      simp [hasPrefix_eq_canon, hasPrefixCanon]
      omega
    | cons x X =>
      by_cases hx : x = dotdot
      · subst hx
        have : (denote p).ups < (denote b).ups := hhead.1 (by simp)
        rw [hasPrefix_up_joinSlash]
        simp; omega
      · have : ¬ (denote p).ups < (denote b).ups := fun h => hx (by simpa using hhead.2 h)
        rw [hasPrefix_up_of_ne x X (hsB' x (by simp)) hx]
        simp; omega
  · have : (isAbs b != isAbs p) = true := by simpa using habs
    simp [this, habs]

/-- the remark in path.hh: concatenating sanitised paths (the second without leading "../") is sanitised -/
theorem concat_normalForm (b p : Str) (hb : NormalForm b) (hp : NormalForm p)
    (hup : hasPrefix p ['.', '.', '/'] = false) : NormalForm (concatPaths b p) := by
  obtain ⟨db, hdb, rfl⟩ := hb
  obtain ⟨dp, hdp, rfl⟩ := hp
  obtain ⟨pabs, pups, pn⟩ := dp
  cases pabs with
  | true =>
    rw [denote_concat_abs _ _ (by rw [isAbs_render hdp])]
    exact ⟨_, hdp, rfl⟩
  | false =>
    have hu : pups = 0 := by
      cases pups with
      | zero => rfl
      | succ u =>
        have : render ⟨false, u + 1, pn⟩ = joinSlash (dotdot :: (List.replicate u dotdot ++ pn)) := by
          simp [render, List.replicate_succ]
        rw [this, hasPrefix_up_joinSlash] at hup
        cases hup
    subst hu
    have hr : render ⟨false, 0, pn⟩ = joinSlash pn := by simp [render]
    rw [hr]
    cases pn with
    | nil => simpa [concatPaths_eq_spec, concatSpec] using ⟨db, hdb, rfl⟩
    | cons n pn =>
      have hcomp : ∀ c ∈ n :: pn, IsComp c := fun c hc => (hdp.2 c hc).isComp
      have hne : joinSlash (n :: pn) ≠ [] := by simp
      have hh : ¬ (joinSlash (n :: pn)).head? = some '/' := head?_joinSlash_ne_slash _ hcomp
      rw [concatPaths_eq_spec]
      unfold concatSpec
      simp only [hne, hh, ↓reduceIte]
      split
      · exact ⟨⟨false, 0, n :: pn⟩, hdp, by simp [render]⟩
      · rename_i hbne
        rcases render_nil_or_slash db with h | ⟨y, h⟩
        · exact absurd h hbne
        · have hs : (render db).getLast? = some '/' := by
            rw [← hasSuffix_slash_iff, hasSuffix_iff_isSuffix]; exact ⟨y, h.symm⟩
          simp only [hs, ↓reduceIte]
          refine ⟨⟨db.abs, db.ups, db.names ++ (n :: pn)⟩, ⟨hdb.1, ?_⟩, ?_⟩
          · intro m hm
            rcases List.mem_append.1 hm with hm | hm
            · exact hdb.2 m hm
            · exact hdp.2 m hm
          · simp [render, List.append_assoc]

end DV.C18
