/-
C18 helper lemmas, part 5: prettyPath, pathIndicatesDirectory, concatPaths.
-/
import DuneVerif.Proofs.C18.Resolve

namespace DV.C18

/-! ### the last piece of a path -/

theorem joinSlash_nil_or_slash (cs : List Str) : joinSlash cs = [] ∨ ∃ y, joinSlash cs = y ++ ['/'] := by
  rcases List.eq_nil_or_concat cs with h | ⟨cs', c, h⟩
  · left; simp [h]
  · right; rw [List.concat_eq_append] at h; subst h
    exact ⟨joinSlash cs' ++ c, by simp⟩

/-- every path is `joinSlash init ++ last` with a slash-free last piece -/
theorem lastPiece_decomp (p : Str) :
    ∃ init c, splitSlash p = init ++ [c] ∧ p = joinSlash init ++ c ∧ '/' ∉ c := by
  rcases List.eq_nil_or_concat (splitSlash p) with h | ⟨init, c, h⟩
  · exact absurd h (splitSlash_ne_nil p)
  · rw [List.concat_eq_append] at h
    refine ⟨init, c, h, ?_, no_slash_of_mem_splitSlash p c (by simp [h])⟩
    have := joinSlash_splitSlash p
    rw [h, joinSlash_append] at this
    simp only [joinSlash_cons, joinSlash_nil] at this
    have e : (joinSlash init ++ c) ++ ['/'] = p ++ ['/'] := by simpa using this
    exact (List.append_cancel_right e).symm

theorem getLast?_splitSlash_append (y n : Str) (hn : '/' ∉ n) (hy : y = [] ∨ ∃ y', y = y' ++ ['/']) :
    (splitSlash (y ++ n)).getLast? = some n := by
  rcases hy with rfl | ⟨y', rfl⟩
  · simp [splitSlash_of_no_slash hn]
  · have : y' ++ ['/'] ++ n = y' ++ '/' :: n := by simp
    rw [this, splitSlash_append_slash, splitSlash_of_no_slash hn]
    simp

/-! ### pathIndicatesDirectory -/

theorem hasSuffix_slash_iff (b : Str) : hasSuffix b ['/'] = true ↔ b.getLast? = some '/' := by
  rw [hasSuffix_iff_isSuffix]
  constructor
  · rintro ⟨x, rfl⟩; simp
  · intro h
    rcases List.eq_nil_or_concat b with hb | ⟨x, c, hb⟩
    · subst hb; simp at h
    · rw [List.concat_eq_append] at hb; subst hb
      simp at h; subst h; exact ⟨x, rfl⟩

set_option linter.unusedSimpArgs false in
/-- the decision list regenerated from path.cc, whatever the order and grouping of its six tests -/
theorem pathIndicatesDirectory_iff (p : Str) : pathIndicatesDirectory p = true ↔
    p = [] ∨ p = dot ∨ p = dotdot ∨ ['/'] <:+ p ∨ ['/', '.'] <:+ p ∨ ['/', '.', '.'] <:+ p := by
  simp only [← hasSuffix_iff_isSuffix, dot, dotdot]
  have hg := hasSuffix_slash_iff p
  by_cases h1 : p = [] <;> by_cases h2 : p = ['.'] <;> by_cases h3 : p = ['.', '.'] <;>
  by_cases h4 : hasSuffix p ['/'] = true <;> by_cases h5 : hasSuffix p ['/', '.'] = true <;>
  by_cases h6 : hasSuffix p ['/', '.', '.'] = true <;> simp_all [pathIndicatesDirectory]

theorem indicatesDirectory_lastPiece (p : Str) : pathIndicatesDirectory p = true ↔
    ∃ c, (splitSlash p).getLast? = some c ∧ (c = [] ∨ c = dot ∨ c = dotdot) := by
  rw [pathIndicatesDirectory_iff]
  constructor
  · rintro (h | h | h | ⟨x, h⟩ | ⟨x, h⟩ | ⟨x, h⟩)
    · subst h; exact ⟨[], by simp [splitSlash], Or.inl rfl⟩
    · subst h; exact ⟨dot, by simp [splitSlash, dot], Or.inr (Or.inl rfl)⟩
    · subst h; exact ⟨dotdot, by simp [splitSlash, dotdot], Or.inr (Or.inr rfl)⟩
    · subst h; exact ⟨[], by rw [splitSlash_append_slash]; simp [splitSlash], Or.inl rfl⟩
    · subst h; refine ⟨dot, ?_, Or.inr (Or.inl rfl)⟩
      rw [splitSlash_append_slash]; simp [splitSlash, dot]
    · subst h; refine ⟨dotdot, ?_, Or.inr (Or.inr rfl)⟩
      rw [splitSlash_append_slash]; simp [splitSlash, dotdot]
  · rintro ⟨c, hc, hcc⟩
    obtain ⟨init, c', hs, hp, _⟩ := lastPiece_decomp p
    rw [hs] at hc
    simp at hc
    subst hc
    rcases joinSlash_nil_or_slash init with hi | ⟨y, hi⟩
    · rw [hi] at hp
      simp only [List.nil_append] at hp
      subst hp
      rcases hcc with h | h | h
      · exact Or.inl h
      · exact Or.inr (Or.inl h)
      · exact Or.inr (Or.inr (Or.inl h))
    · rw [hi] at hp
      rcases hcc with h | h | h
      · right; right; right; left; exact ⟨y, by rw [hp, h]; simp⟩
      · right; right; right; right; left; exact ⟨y, by rw [hp, h]; simp [dot]⟩
      · right; right; right; right; right; exact ⟨y, by rw [hp, h]; simp [dotdot]⟩

/-! ### prettyPath -/

theorem render_nil_or_slash (d : Loc) : render d = [] ∨ ∃ y, render d = y ++ ['/'] := by
  unfold render
  rcases joinSlash_nil_or_slash (List.replicate d.ups dotdot ++ d.names) with h | ⟨y, h⟩
  · rw [h]; cases d.abs
    · left; simp
    · right; exact ⟨[], by simp⟩
  · right; rw [h]; exact ⟨(if d.abs then ['/'] else []) ++ y, by simp⟩

set_option linter.unusedSimpArgs false in
/-- the body of `prettyPath(p, isDirectory)` regenerated from path.cc is the canonical transcription (robust against
    reordering of independent tests and equivalent spellings: the proof only looks at the values of the five tests) -/
theorem prettyPathWith_eq_canon (proc : Str → Str) (p : Str) (isDir : Bool) :
    prettyPathWith proc p isDir = prettyCanonWith proc p isDir := by
  unfold prettyPathWith prettyCanonWith
  generalize proc p = r
  by_cases h1 : r = [] <;> by_cases h2 : r = ['/'] <;> by_cases h3 : r.take (r.length - 1) = ['.', '.'] <;>
  by_cases h4 : hasSuffix (r.take (r.length - 1)) ['/', '.', '.'] = true <;> cases isDir <;> simp_all

/-- the one-argument overload regenerated from path.cc calls the two-argument one with `pathIndicatesDirectory p` -/
theorem prettyPathAutoWith_eq (f : Str → Bool → Str) (p : Str) :
    prettyPathAutoWith f p = f p (pathIndicatesDirectory p) := by
  simp [prettyPathAutoWith]

theorem prettyWith_render (d : Loc) (hd : d.Valid) (isDir : Bool) (proc : Str → Str) (p : Str)
    (hp : proc p = render d) : prettyPathWith proc p isDir = prettySpec d isDir := by
  rw [prettyPathWith_eq_canon]
  obtain ⟨abs, ups, names⟩ := d
  unfold prettyCanonWith prettySpec
  rw [hp]
  simp only [← List.dropLast_eq_take]
  rcases List.eq_nil_or_concat names with hn | ⟨ns, n, hn⟩
  · subst hn
    cases ups with
    | zero => cases abs <;> simp [render]
    | succ u =>
      have ha : abs = false := by
        cases abs with
        | false => rfl
        | true => have := hd.1 rfl; simp at this
      subst ha
      have e : render ⟨false, u + 1, []⟩ = joinSlash (List.replicate u dotdot) ++ dotdot ++ ['/'] := by
        simp [render, List.replicate_succ', dotdot]
      simp only [e, List.dropLast_concat]
      have h1 : joinSlash (List.replicate u dotdot) ++ dotdot ++ ['/'] ≠ [] := by simp
      have h2 : joinSlash (List.replicate u dotdot) ++ dotdot ++ ['/'] ≠ ['/'] := by
        intro h
        have := congrArg List.length h
        simp [dotdot] at this
      simp only [h1, h2, ↓reduceIte, Nat.add_one_ne_zero]
      have h3 : (joinSlash (List.replicate u dotdot) ++ dotdot = ['.', '.'] ||
          hasSuffix (joinSlash (List.replicate u dotdot) ++ dotdot) ['/', '.', '.']) = true := by
        rcases joinSlash_nil_or_slash (List.replicate u dotdot) with h | ⟨y, h⟩
        · rw [h]; simp [dotdot]
        · rw [Bool.or_eq_true]; right
          rw [hasSuffix_iff_isSuffix, h]
          exact ⟨y, by simp [dotdot]⟩
      simp [h3]
  · rw [List.concat_eq_append] at hn
    subst hn
    have hnm : IsName n := hd.2 n (by simp)
    -- render d = y ++ n ++ "/" with y empty or ending in '/'
    let y : Str := render ⟨abs, ups, ns⟩
    have e : render ⟨abs, ups, ns ++ [n]⟩ = y ++ n ++ ['/'] := by
      simp [y, render, List.append_assoc]
    have hy : y = [] ∨ ∃ y', y = y' ++ ['/'] := render_nil_or_slash _
    have hlast : (splitSlash (y ++ n)).getLast? = some n := getLast?_splitSlash_append y n hnm.2.1 hy
    simp only [e, List.dropLast_concat]
    have h1 : y ++ n ++ ['/'] ≠ [] := by simp
    have h2 : y ++ n ++ ['/'] ≠ ['/'] := by
      intro h
      have := congrArg List.length h
      have hl : 0 < n.length := List.length_pos_iff.2 hnm.1
      simp at this; omega
    have h3 : (y ++ n = ['.', '.'] || hasSuffix (y ++ n) ['/', '.', '.']) = false := by
      rw [Bool.or_eq_false_iff]
      constructor
      · rw [decide_eq_false_iff_not]
        intro h
        rw [h] at hlast
        simp [splitSlash] at hlast
        exact hnm.2.2.2 (by rw [← hlast]; rfl)
      · rw [Bool.eq_false_iff, Ne, hasSuffix_iff_isSuffix]
        rintro ⟨x, hx⟩
        rw [← hx] at hlast
        have : x ++ ['/', '.', '.'] = x ++ '/' :: dotdot := by simp [dotdot]
        rw [this, splitSlash_append_slash] at hlast
        simp [splitSlash, dotdot] at hlast
        exact hnm.2.2.2 (by rw [← hlast]; rfl)
    have h4 : ns ++ [n] ≠ [] := by simp
    simp only [h1, h2, h3, h4, ↓reduceIte, Bool.false_eq_true]

/-! ### concatPaths -/

theorem denote_abs (p : Str) : (denote p).abs = isAbs p := by
  unfold denote
  generalize comps p = cs
  generalize hd : (⟨isAbs p, 0, []⟩ : Loc) = d
  have : d.abs = isAbs p := by rw [← hd]
  clear hd
  induction cs generalizing d with
  | nil => simpa using this
  | cons c cs ih =>
    rw [List.foldl_cons]
    apply ih
    rw [← this]
    unfold Loc.walk
    repeat' split
    all_goals rfl

theorem isAbs_append (b r : Str) (hb : b ≠ []) : isAbs (b ++ r) = isAbs b := by
  cases b with
  | nil => exact absurd rfl hb
  | cons a b => simp [isAbs]

/-- the table of concatPaths in canonical form -/
def concatSpec (base p : Str) : Str :=
  if p = [] then base
  else if p.head? = some '/' then p
  else if base = [] then p
  else if base.getLast? = some '/' then base ++ p
  else base ++ '/' :: p

set_option linter.unusedSimpArgs false in
/-- the decision list regenerated from path.cc is the canonical table (robust against reordering of
    independent tests and against equivalent spellings of the tests/results in the source) -/
theorem concatPaths_eq_spec (base p : Str) : concatPaths base p = concatSpec base p := by
  have hs := hasSuffix_slash_iff base
  have hp : hasPrefix p ['/'] = true ↔ p.head? = some '/' := by
    cases p with
    | nil => simp
    | cons c q => simp [hasPrefix_cons_cons]
  by_cases h1 : p = [] <;> by_cases h2 : p.head? = some '/' <;> by_cases h3 : base = [] <;>
  by_cases h4 : hasSuffix base ['/'] = true <;> simp_all [concatPaths, concatSpec]

/-- what concatenation means: a relative `p` is walked starting from where `b` leads -/
theorem denote_concat_rel (b p : Str) (hp : isAbs p = false) :
    denote (concatPaths b p) = (comps p).foldl Loc.walk (denote b) := by
  rw [concatPaths_eq_spec]
  unfold concatSpec
  have hh : ¬ p.head? = some '/' := by simpa [isAbs] using hp
  by_cases h1 : p = []
  · simp [h1]
  · by_cases h3 : b = []
    · subst h3
      simp only [h1, hh, ↓reduceIte]
      unfold denote
      rw [hp]
      simp [isAbs]
    · simp only [h1, hh, h3, ↓reduceIte]
      split
      · rename_i hs
        rw [← hasSuffix_slash_iff, hasSuffix_iff_isSuffix] at hs
        obtain ⟨x, hx⟩ := hs
        have e1 : b ++ p = x ++ '/' :: p := by rw [← hx]; simp
        have e2 : comps b = comps x := by
          rw [← hx]
          have := comps_append_slash x []
          simpa using this
        unfold denote
        rw [isAbs_append b p h3, e1, comps_append_slash, List.foldl_append, e2]
      · unfold denote
        rw [isAbs_append b _ h3, comps_append_slash, List.foldl_append]

theorem denote_concat_abs (b p : Str) (hp : isAbs p = true) : concatPaths b p = p := by
  rw [concatPaths_eq_spec]
  unfold concatSpec
  have hh : p.head? = some '/' := by simpa [isAbs] using hp
  have h1 : p ≠ [] := by intro h; simp [h] at hh
  simp [h1, hh]

end DV.C18
