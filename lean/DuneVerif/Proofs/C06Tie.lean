import DuneVerif.Gen.C06
import DuneVerif.Proofs.C06Basic
/-!
C06 — the generated source view (`Gen/C06.lean`, regenerated from variablesizecommunicator.hh on every run) computes the
same as the hand-written model functions the delivery / termination theorems are about.

Layout: first one *specification lemma* per generated expression (what the condition / bound / body means on the zipper
representation; proved by `simp`/`omega`, hence insensitive to commuted operands or renamed locals in the source),
then the structural proofs (loops against the model's fuelled recursions), which use the specification lemmas only.
-/
set_option linter.unusedSimpArgs false
namespace DV.C06
variable {α : Type}

/-- Bool equations between comparisons of linear terms, whatever the order of the operands in the source -/
macro "src_bool" : tactic =>
  `(tactic| first | rfl | (rw [Bool.eq_iff_iff]; simp only [decide_eq_true_eq]; omega) | (rw [Bool.eq_iff_iff]; simp; omega) |
      (rw [Bool.eq_iff_iff]; simp; done))

/-! ### MessageBuffer / InterfaceTracker expressions -/

theorem gen_hasSpace (b : MessageBuffer α) (n : Nat) :
    Gen.hasSpaceForItems b.position b.size n = b.hasSpaceForItems n := by
  unfold Gen.hasSpaceForItems MessageBuffer.hasSpaceForItems
  src_bool

theorem gen_resetPosition : Gen.resetPosition = 0 := by
  unfold Gen.resetPosition; first | rfl | omega | simp

theorem gen_ctorBuffer : ∀ B p, B ≤ (Gen.ctorBuffer B p).1 ∧ (Gen.ctorBuffer B p).2.1 = B ∧ (Gen.ctorBuffer B p).2.2 = 0 := by
  intro B p; unfold Gen.ctorBuffer; refine ⟨?_, ?_, ?_⟩ <;> first | rfl | (simp; done) | omega | (simp; omega)

theorem gen_copyBuffer : ∀ B p, B ≤ (Gen.copyBuffer B p).1 ∧ (Gen.copyBuffer B p).2.1 = B ∧ (Gen.copyBuffer B p).2.2 = p := by
  intro B p; unfold Gen.copyBuffer; refine ⟨?_, ?_, ?_⟩ <;> first | rfl | (simp; done) | omega | (simp; omega)

theorem gen_finished (t : Tracker) : Gen.trackerFinished t.index t.ifaceSize = t.finished := by
  have : t.iface.isEmpty = decide (t.iface.length = 0) := by cases t.iface <;> simp
  simp only [Gen.trackerFinished, Gen.trackerEmpty, Gen.indicesLeft, Gen.trackerOffset, Tracker.ifaceSize, Tracker.finished]
  rw [this]; src_bool

theorem gen_finished_cons (t : Tracker) (i : Nat) (is : List Nat) (h : t.iface = i :: is) :
    Gen.trackerFinished t.index t.ifaceSize = false := by
  rw [gen_finished]; simp [Tracker.finished, h]

theorem gen_empty (t : Tracker) : Gen.trackerEmpty t.ifaceSize = (t.index == 0 && t.iface.isEmpty) := by
  have : t.iface.isEmpty = decide (t.iface.length = 0) := by cases t.iface <;> simp
  simp only [Gen.trackerFinished, Gen.trackerEmpty, Gen.indicesLeft, Gen.trackerOffset, Tracker.ifaceSize]
  rw [this, Bool.eq_iff_iff]; first | (simp; done) | (simp; omega)

theorem gen_indicesLeft (t : Tracker) : Gen.indicesLeft t.index t.ifaceSize = t.indicesLeft := by
  (simp only [Gen.trackerFinished, Gen.trackerEmpty, Gen.indicesLeft, Gen.trackerOffset, Tracker.ifaceSize, Tracker.indicesLeft]) <;>
  first | omega | (simp; done) | (simp; omega)

theorem gen_offset (t : Tracker) : Gen.trackerOffset t.index = t.offset := by
  (simp only [Gen.trackerFinished, Gen.trackerEmpty, Gen.indicesLeft, Gen.trackerOffset, Tracker.offset]) <;> first | rfl | omega | simp

theorem gen_skipStep : Gen.skipStep = 1 := by
  unfold Gen.skipStep; first | rfl | omega | simp

theorem gen_skipCond_nosizes (k n s : Nat) : Gen.skipCond 0 k n s = false := by
  simp [Gen.skipCond]

theorem gen_skipCond_run (z k n s : Nat) (hz : z ≠ 0) (hk : k ≠ n) : Gen.skipCond z k n s = decide (s = 0) := by
  simp [Gen.skipCond, hz, hk, Ne.symm hk]

/-! ### skipZeroIndices, moveToNextIndex, increment -/

theorem loopG_skip (r f : Nat) : ∀ (is ss : List Nat) (k fuel : Nat), is.length ≤ fuel →
    loopG Tracker.okSkip (fun t => Gen.skipCond t.sizesSize t.index t.ifaceSize t.sizeHere)
      (fun t => Tracker.increment t Gen.skipStep) fuel ⟨r, k, is, true, ss, f⟩ =
    ⟨r, (skipZ is ss k).2.2, (skipZ is ss k).1, true, (skipZ is ss k).2.1, f⟩ := by
  intro is
  induction is with
  | nil => intro ss k fuel _; cases fuel <;> simp [loopG, Tracker.okSkip, skipZ]
  | cons i is ih =>
    intro ss k fuel hf
    cases ss with
    | nil => cases fuel <;> simp [loopG, Tracker.okSkip, skipZ]
    | cons s ss =>
      cases fuel with
      | zero => simp at hf
      | succ fuel =>
        have hz : (⟨r, k, i :: is, true, s :: ss, f⟩ : Tracker).sizesSize ≠ 0 := by simp [Tracker.sizesSize]
        have hk : k ≠ (⟨r, k, i :: is, true, s :: ss, f⟩ : Tracker).ifaceSize := by simp [Tracker.ifaceSize]
        have hc := gen_skipCond_run _ k _ s hz hk
        by_cases hs : s = 0
        · subst hs
          have : loopG Tracker.okSkip (fun t => Gen.skipCond t.sizesSize t.index t.ifaceSize t.sizeHere)
              (fun t => Tracker.increment t Gen.skipStep) (fuel + 1) ⟨r, k, i :: is, true, 0 :: ss, f⟩ =
              loopG Tracker.okSkip (fun t => Gen.skipCond t.sizesSize t.index t.ifaceSize t.sizeHere)
              (fun t => Tracker.increment t Gen.skipStep) fuel ⟨r, k + 1, is, true, ss, f⟩ := by
            rw [loopG]
            simp only [Tracker.okSkip, Tracker.sizeHere, List.headD_cons, List.isEmpty_cons, Bool.not_false,
              Bool.and_self, Bool.true_and]
            rw [hc]
            simp [Tracker.increment, gen_skipStep]
          rw [this, ih ss (k + 1) fuel (by simpa using hf)]
          simp [skipZ]
        · rw [loopG]
          simp only [Tracker.okSkip, Tracker.sizeHere, List.headD_cons, List.isEmpty_cons, Bool.not_false,
            Bool.and_self, Bool.true_and]
          rw [hc]
          simp [hs, skipZ]

theorem gen_skipZeroIndices (t : Tracker) : Gen.skipZeroIndices t = t.skipZeroIndices := by
  obtain ⟨r, k, is, hs, ss, f⟩ := t
  cases hs with
  | true =>
    unfold Gen.skipZeroIndices
    rw [loopG_skip r f is ss k _ (Nat.le_refl _)]
    simp [Tracker.skipZeroIndices]
  | false =>
    unfold Gen.skipZeroIndices Tracker.skipZeroIndices
    cases is <;> simp [loopG, Tracker.sizesSize, gen_skipCond_nosizes]

theorem gen_increment (t : Tracker) (n : Nat) : Gen.increment t n = t.increment n := by
  simp [Gen.increment]

theorem gen_moveToNextIndex (t : Tracker) : Gen.moveToNextIndex t = t.moveToNextIndex := by
  simp [Gen.moveToNextIndex, gen_increment, gen_skipZeroIndices, Tracker.moveToNextIndex, Tracker.increment]

/-! ### fixedSize is never touched -/

@[simp] theorem skipZeroIndices_fixedSize (t : Tracker) : t.skipZeroIndices.fixedSize = t.fixedSize := by
  unfold Tracker.skipZeroIndices; split <;> rfl

@[simp] theorem moveToNextIndex_fixedSize (t : Tracker) : t.moveToNextIndex.fixedSize = t.fixedSize := by
  unfold Tracker.moveToNextIndex; simp

theorem packFixedLoop_fixedSize (h : Handle α) : ∀ (n : Nat) (t : Tracker) (b : MessageBuffer α),
    (packFixedLoop h n t b).1.fixedSize = t.fixedSize := by
  intro n
  induction n with
  | zero => intro t b; rfl
  | succ n ih =>
    intro t b
    unfold packFixedLoop
    split
    · rfl
    · rw [ih]; simp

/-! ### loops

The translator emits every loop as `loopG ok cond body fuel state` with `cond` / `body` written as local lambdas over
the loop state (they may capture locals of the enclosing function).  `loopG_congr` replaces such a lambda by the
*canonical* condition / body below whenever the two agree on every state the loop can reach (invariant `I`: the
tracker's `fixedSize` is the one the function started with), so the structural proofs are about the canonical forms
only and any spelling of the source that computes the same state transformer is accepted. -/

theorem loopG_congr {σ : Type} (I : σ → Prop) (ok c c' : σ → Bool) (f f' : σ → σ)
    (hc : ∀ s, I s → ok s = true → c s = c' s)
    (hf : ∀ s, I s → ok s = true → c' s = true → f s = f' s)
    (hI : ∀ s, I s → ok s = true → c' s = true → I (f' s)) :
    ∀ (n : Nat) (s : σ), I s → loopG ok c f n s = loopG ok c' f' n s := by
  intro n
  induction n with
  | zero => intro s _; rfl
  | succ n ih =>
    intro s hs
    simp only [loopG]
    by_cases hok : ok s = true
    · have h1 := hc s hs hok
      by_cases hcs : c' s = true
      · have h2 := hf s hs hok hcs
        have h3 := hI s hs hok hcs
        simp only [hok, h1, hcs, Bool.and_self, if_true]
        rw [h2]; exact ih _ h3
      · simp [hok, h1, hcs]
    · simp [hok]

/-- the loop body of the fixed-size branch of `PackEntries` -/
def canPackBody1 (h : Handle α) (s : St α) : St α :=
  ⟨s.t.moveToNextIndex, s.b.write (h.data s.t.cur), s.acc, s.calls⟩
/-- `!tracker.finished() && buffer.hasSpaceForItems(handle.size(tracker.index()))` -/
def canPackCond2 (h : Handle α) (s : St α) : Bool := !s.t.finished && s.b.hasSpaceForItems (h.size s.t.cur)
def canPackBody2 (h : Handle α) (s : St α) : St α :=
  ⟨s.t.moveToNextIndex, s.b.write (h.data s.t.cur), s.acc + h.size s.t.cur, s.calls⟩
/-- the loop body of the fixed-size branch of `UnpackEntries`; `F` = the tracker's fixed size -/
def canUnpackBody1 (F : Nat) (s : St α) : St α :=
  ⟨s.t.moveToNextIndex, (s.b.read F).2, s.acc, s.calls ++ [⟨s.t.cur, F, (s.b.read F).1⟩]⟩
def canUnpackCond2 (c : Nat) (s : St α) : Bool := decide (s.acc < c)
def canUnpackBody2 (s : St α) : St α :=
  ⟨s.t.moveToNextIndex, (s.b.read s.t.sizeHere).2, s.acc + s.t.sizeHere,
   s.calls ++ [⟨s.t.cur, s.t.sizeHere, (s.b.read s.t.sizeHere).1⟩]⟩
/-- `!tracker.finished() && !handle.size(tracker.index())` -/
def canSendCond1 (h : Handle α) (s : St α) : Bool := !s.t.finished && decide (h.size s.t.cur = 0)
def canSendBody1 (s : St α) : St α := ⟨s.t.moveToNextIndex, s.b, s.acc, s.calls⟩

theorem finished_cons (t : Tracker) (i : Nat) (is : List Nat) (h : t.iface = i :: is) : t.finished = false := by
  unfold Tracker.finished; simp [h]

/-- side goals of `loopG_congr`: generated condition = canonical condition -/
macro "src_cond" : tactic =>
  `(tactic| (intro s hs _;
             first
             | (simp [canPackCond2, canUnpackCond2, canSendCond1, gen_finished, gen_hasSpace, gen_indicesLeft, hs]; done)
             | (simp only [canPackCond2, canUnpackCond2, canSendCond1, gen_finished, gen_hasSpace, gen_indicesLeft, hs];
                rw [Bool.eq_iff_iff]; simp; omega)
             | (simp only [canPackCond2, canUnpackCond2, canSendCond1, gen_finished, gen_hasSpace, gen_indicesLeft, hs];
                cases s.t.finished <;> simp <;> omega)))
/-- side goals of `loopG_congr`: generated body = canonical body -/
macro "src_body" : tactic =>
  `(tactic| (intro s hs _ _;
             first
             | (simp [canPackBody1, canPackBody2, canUnpackBody1, canUnpackBody2, canSendBody1, gen_moveToNextIndex,
                      gen_skipZeroIndices, gen_increment, hs]; done)
             | (simp [canPackBody1, canPackBody2, canUnpackBody1, canUnpackBody2, canSendBody1, gen_moveToNextIndex,
                      gen_skipZeroIndices, gen_increment, hs, Nat.add_comm]; done)
             | (simp [canPackBody1, canPackBody2, canUnpackBody1, canUnpackBody2, canSendBody1, gen_moveToNextIndex,
                      gen_skipZeroIndices, gen_increment, hs] <;> omega)))
/-- side goals of `loopG_congr`: the canonical body keeps `fixedSize` -/
macro "src_inv" : tactic =>
  `(tactic| (intro s hs _ _;
             simp [canPackBody1, canPackBody2, canUnpackBody1, canUnpackBody2, canSendBody1, hs]))

/-! ### PackEntries -/

theorem loopG_packFixed (h : Handle α) : ∀ (n : Nat) (t : Tracker) (b : MessageBuffer α) (acc : Nat)
    (cs : List (Call α)),
    loopG St.okIface (fun _ => true) (canPackBody1 h) n ⟨t, b, acc, cs⟩ =
      ⟨(packFixedLoop h n t b).1, (packFixedLoop h n t b).2, acc, cs⟩ := by
  intro n
  induction n with
  | zero => intro t b acc cs; rfl
  | succ n ih =>
    intro t b acc cs
    rw [loopG, packFixedLoop]
    cases hi : t.iface with
    | nil => simp [St.okIface, hi]
    | cons i is =>
      simp only [St.okIface, hi, List.isEmpty_cons, Bool.not_false, Bool.and_self, if_true]
      simp only [canPackBody1]
      rw [ih]
      simp [Tracker.cur, hi]

theorem loopG_packVar (h : Handle α) : ∀ (fuel : Nat) (t : Tracker) (b : MessageBuffer α) (acc : Nat)
    (cs : List (Call α)),
    loopG St.okIface (canPackCond2 h) (canPackBody2 h) fuel ⟨t, b, acc, cs⟩ =
      ⟨(packVarLoop h fuel t b acc).2.1, (packVarLoop h fuel t b acc).2.2, (packVarLoop h fuel t b acc).1, cs⟩ := by
  intro fuel
  induction fuel with
  | zero => intro t b acc cs; rfl
  | succ fuel ih =>
    intro t b acc cs
    rw [loopG, packVarLoop]
    cases hi : t.iface with
    | nil => simp [St.okIface, hi]
    | cons i is =>
      have hc : canPackCond2 h ⟨t, b, acc, cs⟩ = b.hasSpaceForItems (h.size i) := by
        simp [canPackCond2, finished_cons t i is hi, Tracker.cur, hi]
      simp only [St.okIface, hi, List.isEmpty_cons, Bool.not_false, Bool.true_and]
      rw [hc]
      by_cases hfit : b.hasSpaceForItems (h.size i) = true
      · simp only [hfit, if_true]
        simp only [canPackBody2]
        rw [ih]
        simp [Tracker.cur, hi]
      · simp [hfit]

theorem gen_packEntries (h : Handle α) (t : Tracker) (b : MessageBuffer α) :
    Gen.packEntries h t b = packEntries h t b := by
  unfold Gen.packEntries packEntries
  by_cases hf : t.fixedSize = 0
  · simp [hf, -Prod.mk.injEq]
    rw [loopG_congr (fun s : St α => s.t.fixedSize = t.fixedSize) _ _ (canPackCond2 h) _ (canPackBody2 h)]
    · simp [hf, loopG_packVar, gen_skipZeroIndices, Tracker.indicesLeft]
    · src_cond
    · src_body
    · src_inv
    · simp [gen_skipZeroIndices]
  · simp [hf, -Prod.mk.injEq]
    rw [loopG_congr (fun s : St α => s.t.fixedSize = t.fixedSize) _ _ (fun _ => true) _ (canPackBody1 h)]
    · simp [hf, loopG_packFixed, gen_indicesLeft, packFixedLoop_fixedSize]
    · intros; rfl
    · src_body
    · src_inv
    · simp

/-! ### UnpackEntries, UnpackSizeEntries -/

theorem loopG_unpackFixed (F : Nat) : ∀ (n : Nat) (t : Tracker) (b : MessageBuffer α) (acc : Nat)
    (cs : List (Call α)), t.fixedSize = F →
    loopG St.okIface (fun _ => true) (canUnpackBody1 F) n ⟨t, b, acc, cs⟩ =
      ⟨(unpackFixedLoop n t b cs).1, (unpackFixedLoop n t b cs).2.1, acc, (unpackFixedLoop n t b cs).2.2⟩ := by
  intro n
  induction n with
  | zero => intro t b acc cs _; rfl
  | succ n ih =>
    intro t b acc cs hF
    rw [loopG, unpackFixedLoop]
    cases hi : t.iface with
    | nil => simp [St.okIface, hi]
    | cons i is =>
      simp only [St.okIface, hi, List.isEmpty_cons, Bool.not_false, Bool.and_self, if_true]
      simp only [canUnpackBody1]
      rw [ih _ _ _ _ (by simp [hF])]
      simp [Tracker.cur, hi, hF]

theorem loopG_unpackVar (c : Nat) : ∀ (fuel : Nat) (t : Tracker) (b : MessageBuffer α) (acc : Nat)
    (cs : List (Call α)),
    ((loopG St.okSizes (canUnpackCond2 c) canUnpackBody2 fuel ⟨t, b, acc, cs⟩).t,
     (loopG St.okSizes (canUnpackCond2 c) canUnpackBody2 fuel ⟨t, b, acc, cs⟩).b,
     (loopG St.okSizes (canUnpackCond2 c) canUnpackBody2 fuel ⟨t, b, acc, cs⟩).calls) =
      unpackVarLoop c fuel acc t b cs := by
  intro fuel
  induction fuel with
  | zero => intro t b acc cs; rfl
  | succ fuel ih =>
    intro t b acc cs
    rw [loopG, unpackVarLoop]
    simp only [canUnpackCond2]
    by_cases hlt : acc < c
    · cases hi : t.iface with
      | nil => simp [St.okSizes, hi, hlt]
      | cons i is =>
        cases hs : t.sizes with
        | nil => simp [St.okSizes, hi, hs, hlt]
        | cons s ss =>
          simp only [St.okSizes, hi, hs, hlt, List.isEmpty_cons, Bool.not_false, Bool.and_self, decide_true, if_true]
          simp only [canUnpackBody2]
          rw [ih]
          simp [Tracker.cur, Tracker.sizeHere, hi, hs]
    · simp [hlt]

theorem gen_unpackEntries (t : Tracker) (b : MessageBuffer α) (count : Nat) (cs : List (Call α)) :
    Gen.unpackEntries t b count cs = unpackEntries t b count cs := by
  unfold Gen.unpackEntries unpackEntries
  by_cases hf : t.fixedSize = 0
  · simp [hf, -Prod.mk.injEq]
    rw [loopG_congr (fun s : St α => s.t.fixedSize = t.fixedSize) _ _ (canUnpackCond2 count) _ canUnpackBody2]
    · exact loopG_unpackVar count t.indicesLeft t b 0 cs
    · src_cond
    · src_body
    · src_inv
    · simp
  · simp [hf, -Prod.mk.injEq]
    rw [loopG_congr (fun s : St α => s.t.fixedSize = t.fixedSize) _ _ (fun _ => true) _ (canUnpackBody1 t.fixedSize)]
    · simp [hf, loopG_unpackFixed, gen_indicesLeft]
    · intros; rfl
    · src_body
    · src_inv
    · simp

theorem gen_unpackSizeEntries (t : Tracker) (b : MessageBuffer Nat) (dst : List Nat) :
    Gen.unpackSizeEntries t b dst = unpackSizeEntries t b dst := by
  simp [Gen.unpackSizeEntries, unpackSizeEntries, gen_indicesLeft, gen_offset, gen_increment]

/-! ### SetupSendRequest / SetupRecvRequest -/

theorem loopG_skipZeroSend (h : Handle α) : ∀ (fuel : Nat) (t : Tracker) (b : MessageBuffer α) (acc : Nat)
    (cs : List (Call α)),
    loopG St.okIface (canSendCond1 h) canSendBody1 fuel ⟨t, b, acc, cs⟩ =
      ⟨skipZeroSend h fuel t, b, acc, cs⟩ := by
  intro fuel
  induction fuel with
  | zero => intro t b acc cs; rfl
  | succ fuel ih =>
    intro t b acc cs
    rw [loopG, skipZeroSend]
    cases hi : t.iface with
    | nil => simp [St.okIface, hi]
    | cons i is =>
      have hc : canSendCond1 h ⟨t, b, acc, cs⟩ = decide (h.size i = 0) := by
        simp [canSendCond1, finished_cons t i is hi, Tracker.cur, hi]
      simp only [St.okIface, hi, List.isEmpty_cons, Bool.not_false, Bool.true_and]
      rw [hc]
      by_cases hz : h.size i = 0
      · simp only [hz, decide_true, if_true]
        simp only [canSendBody1]
        rw [ih]
      · simp [hz]

theorem gen_setupSend (h : Handle α) (t : Tracker) (b : MessageBuffer α) :
    Gen.setupSend h t b = setupSend h t b := by
  unfold Gen.setupSend setupSend
  simp only [gen_packEntries]
  rw [loopG_congr (fun _ : St α => True) _ _ (canSendCond1 h) _ canSendBody1]
  · simp [loopG_skipZeroSend, Tracker.indicesLeft]
    <;> (generalize (packEntries h t b.reset).1 = n; cases n <;> simp)
  · src_cond
  · src_body
  · intros; trivial
  · trivial

theorem finished_eq_left (t : Tracker) : t.finished = decide (t.indicesLeft = 0) := by
  unfold Tracker.finished Tracker.indicesLeft; cases t.iface <;> simp

theorem gen_setupRecv {β : Type} (t : Tracker) (b : MessageBuffer β) :
    Gen.setupRecv t b = setupRecv true t b := by
  unfold Gen.setupRecv setupRecv
  simp only [gen_skipZeroIndices, gen_indicesLeft, gen_finished, finished_eq_left, if_true]
  <;> (refine Prod.ext rfl (Prod.ext rfl ?_) <;>
   (show _ = decide (t.skipZeroIndices.indicesLeft ≠ 0)
    generalize t.skipZeroIndices.indicesLeft = n
    first | rfl | (rw [Bool.eq_iff_iff]; simp; done) | (rw [Bool.eq_iff_iff]; simp; omega)))

theorem gen_recvCount (B : Nat) : Gen.recvCount B = B := by
  unfold Gen.recvCount; first | rfl | omega | simp

/-! ### directions, setupInterfaceTrackers -/

theorem gen_chooser (fwd : Bool) (e : IfaceEntry) :
    Gen.chooseSend fwd e.first e.second = e.send fwd ∧ Gen.chooseRecv fwd e.first e.second = e.recv fwd := by
  cases fwd <;> simp [Gen.chooseSend, Gen.chooseRecv, IfaceEntry.send, IfaceEntry.recv]

theorem gen_setupTrackers_init (h : Handle α) (fwd : Bool) (imap : List IfaceEntry) :
    setupInterfaceTrackers h fwd imap = setupTrackersLoop h fwd imap (Gen.trackersInitFixed h.fixed) := by
  cases hf : h.fixed <;> simp [setupInterfaceTrackers, Gen.trackersInitFixed, hf]

theorem gen_recvAlloc (n : Nat) : Gen.recvAllocSizes n = (n == 0) := by
  cases n <;> simp [Gen.recvAllocSizes]

theorem gen_sendAlloc (n : Nat) : Gen.sendAllocSizes n = false := by
  simp [Gen.sendAllocSizes]

theorem gen_setupTrackers_step (h : Handle α) (fwd : Bool) (e : IfaceEntry) (es : List IfaceEntry) (fs : Nat) :
    setupTrackersLoop h fwd (e :: es) fs =
      (Tracker.mk' e.rank (e.send fwd)
          (Gen.trackersStepFixed h.fixed fs (e.send fwd).length (e.recv fwd).length (h.size ((e.send fwd).headD 0)))
          (Gen.sendAllocSizes
            (Gen.trackersStepFixed h.fixed fs (e.send fwd).length (e.recv fwd).length (h.size ((e.send fwd).headD 0)))),
       Tracker.mk' e.rank (e.recv fwd)
          (Gen.trackersStepFixed h.fixed fs (e.send fwd).length (e.recv fwd).length (h.size ((e.send fwd).headD 0)))
          (Gen.recvAllocSizes
            (Gen.trackersStepFixed h.fixed fs (e.send fwd).length (e.recv fwd).length (h.size ((e.send fwd).headD 0)))))
        :: setupTrackersLoop h fwd es
          (Gen.trackersStepFixed h.fixed fs (e.send fwd).length (e.recv fwd).length (h.size ((e.send fwd).headD 0))) := by
  rw [setupTrackersLoop]
  cases hf : h.fixed <;> cases hs : e.send fwd <;>
    simp [Gen.trackersStepFixed, gen_sendAlloc, gen_recvAlloc, hf, hs]

/-! ### trackers in skipped position ("normal"): a second `skipZeroIndices` does nothing

Used so that the `checkAndContinue` theorems hold whether or not the source repeats `skipZeroIndices()` after
`comm_func` (both functors leave a skipped tracker skipped). -/

def Normal (t : Tracker) : Prop := t.skipZeroIndices = t

theorem normal_skip (t : Tracker) : Normal t.skipZeroIndices := by
  unfold Normal Tracker.skipZeroIndices
  cases hs : t.hasSizes
  · simp [hs]
  · simp [hs, skipZ_idem]

theorem normal_move (t : Tracker) : Normal t.moveToNextIndex := by
  unfold Tracker.moveToNextIndex; exact normal_skip _

theorem normal_packFixedLoop (h : Handle α) : ∀ (n : Nat) (t : Tracker) (b : MessageBuffer α), Normal t →
    Normal (packFixedLoop h n t b).1 := by
  intro n
  induction n with
  | zero => intro t b ht; exact ht
  | succ n ih =>
    intro t b ht
    unfold packFixedLoop
    split
    · exact ht
    · exact ih _ _ (normal_move t)

theorem normal_packVarLoop (h : Handle α) : ∀ (fuel : Nat) (t : Tracker) (b : MessageBuffer α) (p : Nat), Normal t →
    Normal (packVarLoop h fuel t b p).2.1 := by
  intro fuel
  induction fuel with
  | zero => intro t b p ht; exact ht
  | succ fuel ih =>
    intro t b p ht
    unfold packVarLoop
    split
    · exact ht
    · split
      · exact ih _ _ _ (normal_move t)
      · exact ht

theorem normal_skipZeroSend (h : Handle α) : ∀ (fuel : Nat) (t : Tracker), Normal t → Normal (skipZeroSend h fuel t) := by
  intro fuel
  induction fuel with
  | zero => intro t ht; exact ht
  | succ fuel ih =>
    intro t ht
    unfold skipZeroSend
    split
    · exact ht
    · split
      · exact ih _ (normal_move t)
      · exact ht

theorem normal_packEntries (h : Handle α) (t : Tracker) (b : MessageBuffer α) (ht : Normal t) :
    Normal (packEntries h t b).2.1 := by
  unfold packEntries
  split
  · exact normal_packFixedLoop h _ t b ht
  · exact normal_packVarLoop h _ _ b 0 (normal_skip t)

@[simp] theorem setupSend_skipped (h : Handle α) (t : Tracker) (b : MessageBuffer α) :
    (setupSend h t.skipZeroIndices b).tracker.skipZeroIndices = (setupSend h t.skipZeroIndices b).tracker := by
  unfold setupSend
  exact normal_skipZeroSend h _ _ (normal_packEntries h _ _ (normal_skip t))

@[simp] theorem setupRecv_skipped {β : Type} (rep : Bool) (t : Tracker) (b : MessageBuffer β) :
    (setupRecv rep t.skipZeroIndices b).1.skipZeroIndices = (setupRecv rep t.skipZeroIndices b).1 := by
  unfold setupRecv
  cases rep
  · exact normal_skip t
  · exact normal_skip _

/-! ### checkAndContinue: the body for one completed request -/

theorem gen_ccDefaults : Gen.ccDefaults = (true, false) := by decide

/-- `--no_completed` happens exactly when a new communication was set up and `valid` is set -/
theorem gen_uncounted {σ β γ : Type} (gc valid : Bool)
    (bf : Tracker → MessageBuffer β → Nat → σ → Tracker × MessageBuffer β × σ)
    (cf : Tracker → MessageBuffer β → Tracker × MessageBuffer β × γ) (n : Nat) (t : Tracker) (b : MessageBuffer β) (a : σ) :
    (Gen.checkAndContinueBody gc valid bf cf n t b a).2.2.2.2 =
      (valid && (Gen.checkAndContinueBody gc valid bf cf n t b a).2.2.2.1.isSome) := by
  unfold Gen.checkAndContinueBody
  cases gc <;> simp only [if_true, if_false, Bool.false_eq_true] <;> split <;> simp

/-- the state of the neighbour machine after `recvDone`, from the result of the generated body -/
def recvDoneResult {σ : Type} (s : Pair α σ) (r : Tracker × MessageBuffer α × σ × Option Bool × Bool) : Pair α σ :=
  match r with
  | (t, b, acc, some posted, _) => { s with rt := t, rb := b, acc := acc, rreq := if posted then .posted else .null }
  | (t, b, acc, none, _) => { s with rt := t, rb := b, acc := acc, rreq := .null, recvOpen := false }

/-- the state of the neighbour machine after `sendDone`, from the result of the generated body -/
def sendDoneResult {σ : Type} (s : Pair α σ) (r : Tracker × MessageBuffer α × Unit × Option (Option (List α)) × Bool) :
    Pair α σ :=
  match r with
  | (t, b, _, some msg, _) =>
      { s with st := t, sb := b, sreq := if msg.isSome then .active else .null, chan := s.chan ++ msg.toList }
  | (t, _, _, none, _) => { s with st := t, sreq := .null, sendOpen := false }

/-- what `recvLoop` does after the generated body ran for the first message -/
def recvLoopResult {β σ : Type} (rep gc : Bool)
    (unpack : Tracker → MessageBuffer β → Nat → σ → Tracker × MessageBuffer β × σ) (ms : List (List β)) (posted : Nat)
    (r : Tracker × MessageBuffer β × σ × Option Bool × Bool) : RecvRun σ :=
  match r with
  | (t', b', acc', some true, _) => recvLoop rep gc unpack ms t' b' (posted + 1) acc'
  | (t', _, acc', some false, _) => ⟨acc', posted, ms.length, false, true, t'⟩
  | (t', _, acc', none, _) => ⟨acc', posted, ms.length, false, false, t'⟩

theorem gen_recvDone {σ : Type} (c : PairCfg α σ) (s : Pair α σ) (m : List α) (h : s.rreq = .complete m) :
    Pair.step c s .recvDone =
      some (recvDoneResult s (Gen.checkAndContinueBody c.getCount true c.unpack (setupRecv c.repaired) m.length s.rt
                    (s.rb.received m) s.acc)) := by
  unfold Gen.checkAndContinueBody recvDoneResult
  simp only [Pair.step, h, gen_skipZeroIndices, gen_finished, setupRecv_skipped]
  cases c.getCount <;> simp only [if_true, if_false, Bool.false_eq_true] <;> split <;> simp_all

theorem gen_sendDone {σ : Type} (c : PairCfg α σ) (s : Pair α σ) (h : s.sreq = .complete) :
    Pair.step c s .sendDone =
      some (sendDoneResult s (Gen.checkAndContinueBody (σ := Unit) false true (fun t b _ a => (t, b, a))
                    (fun t b => ((setupSend c.handle t b).tracker, (setupSend c.handle t b).buffer,
                                 (setupSend c.handle t b).message)) 0 s.st s.sb ())) := by
  unfold Gen.checkAndContinueBody sendDoneResult
  simp only [Pair.step, h, gen_skipZeroIndices, gen_finished, setupSend_skipped]
  split <;> simp_all

theorem gen_recvLoop {β σ : Type} (rep gc : Bool)
    (unpack : Tracker → MessageBuffer β → Nat → σ → Tracker × MessageBuffer β × σ)
    (m : List β) (ms : List (List β)) (t : Tracker) (b : MessageBuffer β) (posted : Nat) (acc : σ) :
    recvLoop rep gc unpack (m :: ms) t b posted acc =
      recvLoopResult rep gc unpack ms posted
        (Gen.checkAndContinueBody gc true unpack (setupRecv rep) m.length t (b.received m) acc) := by
  unfold Gen.checkAndContinueBody recvLoopResult
  rw [recvLoop]
  simp only [gen_skipZeroIndices, gen_finished, setupRecv_skipped]
  cases gc <;> simp only [if_true, if_false, Bool.false_eq_true] <;> split <;> simp_all <;> split <;> simp_all

end DV.C06
