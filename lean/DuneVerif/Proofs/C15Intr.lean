/-
C15 — the intrusive pool (`IPool`: `head_` and the `next_` words stored inside the free slots) refines the list model
`Pool`, for every valid history and whatever the owners of live blocks write into them.  Core Lean only.
-/
import DuneVerif.Proofs.C15Pool

namespace DV.C15
open DV.C15.Gen

/-- `head` and the `next_` words in `m` spell out the list `l` -/
def Rep (m : Mem) : Option Block → List Block → Prop
  | h, [] => h = none
  | h, b :: rest => h = some b ∧ ∃ nx, m.lookup b = some nx ∧ Rep m nx rest

/-- the simulation relation between the intrusive pool and the list model -/
structure Sim (ip : IPool) (p : Pool) : Prop where
  rep : Rep ip.mem ip.head p.free
  chunks : ip.chunks = p.chunks
  live : ip.live = p.live

theorem lookup_cons_ne {m : Mem} {b x : Block} (v : Option Block) (h : x ≠ b) :
    List.lookup x ((b, v) :: m) = List.lookup x m := by
  have : (x == b) = false := by simpa using h
  simp [List.lookup, this]

theorem lookup_cons_self (m : Mem) (b : Block) (v : Option Block) : List.lookup b ((b, v) :: m) = some v := by
  simp [List.lookup]

/-- writing the word of a slot that is not on the list does not change what the list spells -/
theorem rep_cons_of_not_mem {m : Mem} {b : Block} (v : Option Block) :
    ∀ {l : List Block} {h : Option Block}, b ∉ l → Rep m h l → Rep ((b, v) :: m) h l
  | [], _, _, hr => hr
  | x :: rest, h, hb, hr => by
    obtain ⟨h1, nx, h2, h3⟩ := hr
    have hx : x ≠ b := fun e => hb (by rw [e]; exact List.mem_cons_self)
    exact ⟨h1, nx, by rw [lookup_cons_ne v hx]; exact h2,
      rep_cons_of_not_mem v (fun hm => hb (List.mem_cons_of_mem _ hm)) h3⟩

/-! ### grow() threads the new chunk -/

/-- the loop only writes words of the slots it walks over -/
theorem thread_lookup_other (c : Nat) : ∀ (is : List Nat) (ref : Block) (m : Mem) (x : Block),
    x ≠ ref → x ∉ is.map (fun i => (c, i)) →
    List.lookup x (((threadSlots c is ref m).1, none) :: (threadSlots c is ref m).2) = List.lookup x m
  | [], ref, m, x, h1, _ => by
    simp only [threadSlots]
    exact lookup_cons_ne none h1
  | i :: is, ref, m, x, h1, h2 => by
    simp only [threadSlots]
    have hx : x ≠ (c, i) := fun e => h2 (by rw [e]; simp)
    have hx' : x ∉ is.map (fun i => (c, i)) := fun hm => h2 (by simp only [List.map_cons]; exact List.mem_cons_of_mem _ hm)
    rw [thread_lookup_other c is (c, i) _ x hx hx']
    exact lookup_cons_ne _ h1

/-- after the loop and the final `ref->next_ = 0` the words spell the slots in order -/
theorem thread_rep (c : Nat) : ∀ (is : List Nat) (ref : Block) (m : Mem),
    (ref :: is.map (fun i => (c, i))).Nodup →
    Rep (((threadSlots c is ref m).1, none) :: (threadSlots c is ref m).2) (some ref) (ref :: is.map (fun i => (c, i)))
  | [], ref, m, _ => by
    simp only [threadSlots, List.map_nil]
    exact ⟨rfl, none, lookup_cons_self _ _ _, rfl⟩
  | i :: is, ref, m, hnd => by
    simp only [threadSlots, List.map_cons]
    have hnd' : ((c, i) :: is.map (fun i => (c, i))).Nodup := (List.nodup_cons.1 hnd).2
    have hnot : ref ∉ (c, i) :: is.map (fun i => (c, i)) := (List.nodup_cons.1 hnd).1
    have h1 : ref ≠ (c, i) := fun e => hnot (by rw [e]; exact List.mem_cons_self)
    have h2 : ref ∉ is.map (fun i => (c, i)) := fun hm => hnot (List.mem_cons_of_mem _ hm)
    refine ⟨rfl, some (c, i), ?_, thread_rep c is (c, i) _ hnd'⟩
    rw [thread_lookup_other c is (c, i) _ ref h1 h2]
    exact lookup_cons_self _ _ _

theorem growTail_eq (E c : Nat) : growTail E c = (List.range' 1 (E - 1)).map (fun i => (c, i)) := rfl

theorem nodup_zero_growTail (E c : Nat) : ((c, 0) :: growTail E c).Nodup := by
  refine List.nodup_cons.2 ⟨fun h => ?_, nodup_growTail E c⟩
  have := (mem_growTail.1 h).2.1
  simp at this

/-- `grow()` on an empty free list: afterwards `head_` and the words spell slot 0 followed by `growTail` -/
theorem rep_igrow (E : Nat) (ip : IPool) :
    Rep (igrow E ip).mem (igrow E ip).head ((ip.chunks.length, 0) :: growTail E ip.chunks.length) := by
  simp only [igrow]
  rw [growTail_eq]
  exact thread_rep _ _ _ _ (by rw [← growTail_eq]; exact nodup_zero_growTail E _)

/-! ### one operation -/

theorem sim_allocate {E : Nat} {ip : IPool} {p : Pool} (hs : Sim ip p) (newOk : Bool)
    (hnew : p.free = [] → newOk = true) :
    ∃ ip', iallocate E newOk ip = .ok ((allocate E p).1, ip') ∧ Sim ip' (allocate E p).2 := by
  cases hf : p.free with
  | cons b rest =>
    have hr := hs.rep
    rw [hf] at hr
    obtain ⟨h1, nx, h2, h3⟩ := hr
    rw [allocate_pop hf]
    refine ⟨{ ip with head := nx, live := ip.live ++ [b] }, ?_, ⟨h3, hs.chunks, by simp [hs.live]⟩⟩
    simp only [iallocate, h1, h2]
  | nil =>
    have hr := hs.rep
    rw [hf] at hr
    have hh : ip.head = none := hr
    have hn := hnew hf
    rw [allocate_grow hf]
    have hg := rep_igrow E ip
    rw [hs.chunks] at hg
    obtain ⟨h1, nx, h2, h3⟩ := hg
    refine ⟨{ igrow E ip with head := nx, live := (igrow E ip).live ++ [(p.chunks.length, 0)] }, ?_, ⟨h3, ?_, ?_⟩⟩
    · simp only [iallocate, hh, hn, if_true, h1, h2]
    · simp [igrow, hs.chunks]
    · simp [igrow, hs.live]

theorem iallocate_oom {E : Nat} {ip : IPool} {p : Pool} (hs : Sim ip p) (hf : p.free = []) :
    iallocate E false ip = .error .alloc := by
  have hr := hs.rep
  rw [hf] at hr
  have hh : ip.head = none := hr
  simp [iallocate, hh]

theorem sim_free {g : Geo} (hg : GeoOK g) {ip : IPool} {p : Pool} (hs : Sim ip p) (hi : Inv g.elements p)
    {b : Block} (hb : b ∈ p.live) :
    ∃ ip', ifree g ip (.blk b) = .ok ip' ∧ Sim ip' { p with free := b :: p.free, live := p.live.erase b } := by
  have hm := (hi.mem b).1 (List.mem_append.2 (Or.inr hb))
  have hin := inSomeChunk_of_slot hg hi hm.1 hm.2
  unfold inSomeChunk at hin
  have hnf : b ∉ p.free := fun hf => (List.nodup_append.1 hi.nodup).2.2 b hf b hb rfl
  refine ⟨{ ip with mem := (b, ip.head) :: ip.mem, head := some b, live := ip.live.erase b }, ?_, ⟨?_, hs.chunks, ?_⟩⟩
  · simp only [ifree, hs.chunks, hin, if_true]
  · exact ⟨rfl, ip.head, lookup_cons_self _ _ _, rep_cons_of_not_mem _ hnf hs.rep⟩
  · simp [hs.live]

theorem ifree_bad (g : Geo) (ip : IPool) : ifree g ip .null = .error .alloc ∧ ifree g ip .foreign = .error .alloc :=
  ⟨rfl, rfl⟩

theorem sim_write {E : Nat} {ip : IPool} {p : Pool} (hs : Sim ip p) (hi : Inv E p) {b : Block} (hb : b ∈ p.live)
    (v : Option Block) : Sim (iwrite ip b v) p := by
  have hnf : b ∉ p.free := fun hf => (List.nodup_append.1 hi.nodup).2.2 b hf b hb rfl
  exact ⟨rep_cons_of_not_mem v hnf hs.rep, hs.chunks, hs.live⟩

/-- one list-level operation of a valid history: the intrusive pool does the same thing -/
theorem sim_step {g : Geo} (hg : GeoOK g) {ip : IPool} {p : Pool} (hs : Sim ip p) (hi : Inv g.elements p) {o : Op}
    (hv : okOp p o) : ∃ ip', istep g ip (.op o) = some (ip', some (step g p o).2) ∧ Sim ip' (step g p o).1 := by
  cases o with
  | alloc =>
    obtain ⟨ip', h1, h2⟩ := sim_allocate (E := g.elements) hs true (fun _ => rfl)
    exact ⟨ip', by simp only [istep, h1, step], h2⟩
  | allocN n =>
    by_cases h : n = 1
    · subst h
      obtain ⟨ip', h1, h2⟩ := sim_allocate (E := g.elements) hs true (fun _ => rfl)
      refine ⟨ip', ?_, ?_⟩
      · simp only [istep, step, paAllocate, paAccepts, decide_true, if_true, h1]
      · simp only [step, paAllocate, paAccepts, decide_true, if_true]; exact h2
    · refine ⟨ip, ?_, ?_⟩
      · simp [istep, step, paAllocate, paAccepts, h]
      · simp only [step, paAllocate, paAccepts, h, decide_false, Bool.false_eq_true, if_false]; exact hs
  | allocOom =>
    cases hf : p.free with
    | nil =>
      refine ⟨ip, ?_, ?_⟩
      · simp [istep, iallocate_oom (E := g.elements) hs hf, step, allocateOS, hf]
      · simp only [step, allocateOS, hf]; exact hs
    | cons c rest =>
      obtain ⟨ip', h1, h2⟩ := sim_allocate (E := g.elements) hs false (fun h => by rw [hf] at h; exact absurd h (by simp))
      refine ⟨ip', ?_, ?_⟩
      · simp only [istep, h1, step, allocateOS, hf]
      · simp only [step, allocateOS, hf]; exact h2
  | free q =>
    cases q with
    | null => exact ⟨ip, by simp [istep, ifree, step, free], by simp only [step, free]; exact hs⟩
    | foreign => exact ⟨ip, by simp [istep, ifree, step, free], by simp only [step, free]; exact hs⟩
    | blk b =>
      obtain ⟨ip', h1, h2⟩ := sim_free hg hs hi hv
      refine ⟨ip', ?_, ?_⟩
      · simp only [istep, h1, step_free_live hg hi hv]
      · rw [step_free_live hg hi hv]; exact h2

/-! ### all histories -/

theorem sim_run {g : Geo} (hg : GeoOK g) : ∀ (iops : List IOp) (ip : IPool) (p : Pool), Sim ip p → Inv g.elements p →
    IValid g p iops →
    ∃ ip', irun g ip iops = some (ip', (run g p (eraseWrites iops)).2) ∧ Sim ip' (run g p (eraseWrites iops)).1
  | [], ip, p, hs, _, _ => ⟨ip, rfl, hs⟩
  | .write b v :: os, ip, p, hs, hi, hv => by
    obtain ⟨ip', h1, h2⟩ := sim_run hg os (iwrite ip b v) p (sim_write hs hi hv.1 v) hi hv.2
    exact ⟨ip', by simp only [irun, istep, h1, eraseWrites, List.nil_append], by simpa only [eraseWrites] using h2⟩
  | .op o :: os, ip, p, hs, hi, hv => by
    obtain ⟨ip1, h1, h2⟩ := sim_step hg hs hi hv.1
    obtain ⟨ip', h3, h4⟩ := sim_run hg os ip1 (step g p o).1 h2 (inv_step hg hi hv.1) hv.2
    exact ⟨ip', by simp only [irun, h1, h3, eraseWrites, run, List.singleton_append],
      by simpa only [eraseWrites, run] using h4⟩

theorem sim_empty : Sim IPool.empty Pool.empty := ⟨rfl, rfl, rfl⟩

/-- the list-level history behind a valid intrusive history is valid -/
theorem valid_erase {g : Geo} : ∀ (iops : List IOp) (p : Pool), IValid g p iops → Valid g p (eraseWrites iops)
  | [], _, _ => trivial
  | .write _ _ :: os, p, hv => valid_erase os p hv.2
  | .op _ :: os, _, hv => ⟨hv.1, valid_erase os _ hv.2⟩

end DV.C15
