import DuneVerif.Model.C09
/-!
# C09 — the translated per-lane loops are lane-wise maps (core Lean only)
-/
namespace DV.C09
open Gen

section AllSome
variable {β : Type} {S : Nat}

theorem allSome_eq_some_iff (v : Vector (Option β) S) (r : Vec β S) :
    allSome v = some r ↔ ∀ i (h : i < S), v[i] = some r[i] := by
  unfold allSome
  split
  · rename_i hall
    constructor
    · intro h i hi
      have h' := Option.some.inj h
      subst h'
      simp [Vector.getElem_ofFn]
    · intro h
      congr 1
      apply Vector.ext
      intro i hi
      simp [Vector.getElem_ofFn, h i hi]
  · rename_i hall
    constructor
    · intro h; cases h
    · intro h
      exfalso; apply hall
      intro i
      have := h i.val i.isLt
      simp [this]

theorem allSome_eq_none_iff (v : Vector (Option β) S) :
    allSome v = none ↔ ∃ i, ∃ h : i < S, v[i] = none := by
  unfold allSome
  split
  · rename_i hall
    constructor
    · intro h; cases h
    · rintro ⟨i, hi, hn⟩
      have := hall ⟨i, hi⟩
      simp [hn] at this
  · rename_i hall
    constructor
    · intro _
      false_or_by_contra
      rename_i hne
      apply hall
      intro i
      cases hv : v[i] with
      | some x => rfl
      | none => exact absurd ⟨i.val, i.isLt, hv⟩ hne
    · intro _; rfl

theorem allSome_ofFn_some (f : Fin S → β) : allSome (Vector.ofFn fun i => some (f i)) = some (Vector.ofFn f) := by
  rw [allSome_eq_some_iff]
  intro i hi
  simp [Vector.getElem_ofFn]

end AllSome

/-- the shape every loop of loop.hh currently has: `for (i = 0; i < S; i++) dst[i] = …` -/
def Gen.Loop.canonical (L : Loop) : Prop := L.lo = 0 ∧ L.hiMinus = 0 ∧ L.dst = .i
instance (L : Loop) : Decidable L.canonical := by unfold Gen.Loop.canonical; infer_instance

theorem loopRange_canonical {L : Loop} (S : Nat) (h : L.canonical) : loopRange S L = List.range' 0 S := by
  obtain ⟨h1, h2, _⟩ := h
  simp [loopRange, h1, h2]

section LoopOut
variable {β : Type} {S : Nat}

private def outV (val : Nat → Option β) (k : Nat) : Vector (Option (Option β)) S :=
  Vector.ofFn fun j => if j.val < k then (val j.val).map some else some none

private theorem foldl_stepOut (L : Loop) (hL : L.dst = .i) (val : Nat → Option β) (k : Nat) (hk : k ≤ S) :
    (List.range' 0 k).foldl (stepOut (S := S) L val) (some (Vector.replicate S none)) = allSome (outV val k) := by
  induction k with
  | zero =>
    simp only [List.range'_zero, List.foldl_nil]
    symm
    rw [allSome_eq_some_iff]
    intro i hi
    simp [outV, Vector.getElem_ofFn]
  | succ k ih =>
    have hk' : k ≤ S := Nat.le_of_succ_le hk
    have hkS : k < S := hk
    rw [List.range'_concat, List.foldl_append, ih hk']
    simp only [Nat.zero_add, Nat.one_mul, List.foldl_cons, List.foldl_nil]
    cases hprev : allSome (outV (S := S) val k) with
    | none =>
      simp only [stepOut, Option.bind_none]
      symm
      rw [allSome_eq_none_iff] at hprev ⊢
      obtain ⟨i, hi, hn⟩ := hprev
      refine ⟨i, hi, ?_⟩
      simp only [outV, Vector.getElem_ofFn] at hn ⊢
      split at hn
      · rename_i hik
        have : i < k + 1 := Nat.lt_succ_of_lt hik
        simp [this, hn]
      · cases hn
    | some o =>
      rw [allSome_eq_some_iff] at hprev
      simp only [stepOut, Option.bind_some, hL, ixEval]
      cases hv : val k with
      | none =>
        simp only [Option.bind_none]
        symm
        rw [allSome_eq_none_iff]
        refine ⟨k, hkS, ?_⟩
        simp [outV, Vector.getElem_ofFn, hv]
      | some x =>
        simp only [Option.bind_some, hkS, dite_true]
        symm
        rw [allSome_eq_some_iff]
        intro i hi
        have hp := hprev i hi
        simp only [outV, Vector.getElem_ofFn] at hp ⊢
        rw [Vector.getElem_set]
        by_cases hik : k = i
        · subst hik
          simp [hv]
        · simp only [hik, if_false]
          by_cases hlt : i < k
          · have : i < k + 1 := Nat.lt_succ_of_lt hlt
            simp only [hlt, if_true] at hp
            simp only [this, if_true]
            exact hp
          · have : ¬ i < k + 1 := by omega
            simp only [hlt, if_false] at hp
            simp only [this, if_false]
            exact hp

/-- a canonical out-of-place loop computes `val i` into entry `i`, for every `i` -/
theorem loopOut_canonical (L : Loop) (hL : L.canonical) (hip : L.inPlace = false) (val : Nat → Option β) :
    loopOut S L val = allSome (Vector.ofFn fun i : Fin S => val i.val) := by
  unfold loopOut
  rw [loopRange_canonical S hL, foldl_stepOut L hL.2.2 val S (Nat.le_refl S)]
  simp only [hip, Bool.false_eq_true, if_false]
  cases h1 : allSome (outV (S := S) val S) with
  | none =>
    simp only [Option.bind_none]
    symm
    rw [allSome_eq_none_iff] at h1 ⊢
    obtain ⟨i, hi, hn⟩ := h1
    refine ⟨i, hi, ?_⟩
    simp only [outV, Vector.getElem_ofFn, hi, if_true] at hn ⊢
    cases hv : val i with
    | none => rfl
    | some x => simp [hv] at hn
  | some o =>
    simp only [Option.bind_some]
    rw [allSome_eq_some_iff] at h1
    have ho : o = Vector.ofFn fun i : Fin S => val i.val := by
      apply Vector.ext
      intro i hi
      have := h1 i hi
      simp only [outV, Vector.getElem_ofFn, hi, if_true] at this ⊢
      cases hv : val i with
      | none => simp [hv] at this
      | some x => simp [hv] at this; exact this.symm
    rw [ho]

end LoopOut

section LoopIP
variable {α : Type} {S : Nat}

private def ipV (g : Nat → α → Option α) (self : Vec α S) (k : Nat) : Vector (Option α) S :=
  Vector.ofFn fun j => if j.val < k then g j.val self[j.val] else some self[j.val]

private theorem foldl_stepIP (L : Loop) (hL : L.dst = .i) (val : Nat → Vec α S → Option α) (g : Nat → α → Option α)
    (hval : ∀ i (hi : i < S) (cur : Vec α S), val i cur = g i cur[i]) (self : Vec α S) (k : Nat) (hk : k ≤ S) :
    (List.range' 0 k).foldl (stepIP L val) (some self) = allSome (ipV g self k) := by
  induction k with
  | zero =>
    simp only [List.range'_zero, List.foldl_nil]
    symm
    rw [allSome_eq_some_iff]
    intro i hi
    simp [ipV, Vector.getElem_ofFn]
  | succ k ih =>
    have hk' : k ≤ S := Nat.le_of_succ_le hk
    have hkS : k < S := hk
    rw [List.range'_concat, List.foldl_append, ih hk']
    simp only [Nat.zero_add, Nat.one_mul, List.foldl_cons, List.foldl_nil]
    cases hprev : allSome (ipV g self k) with
    | none =>
      simp only [stepIP, Option.bind_none]
      symm
      rw [allSome_eq_none_iff] at hprev ⊢
      obtain ⟨i, hi, hn⟩ := hprev
      refine ⟨i, hi, ?_⟩
      simp only [ipV, Vector.getElem_ofFn] at hn ⊢
      split at hn
      · rename_i hik
        have : i < k + 1 := Nat.lt_succ_of_lt hik
        simp [this, hn]
      · cases hn
    | some o =>
      rw [allSome_eq_some_iff] at hprev
      have hok : o[k] = self[k] := by
        have := hprev k hkS
        simp only [ipV, Vector.getElem_ofFn, Nat.lt_irrefl, if_false] at this
        exact (Option.some.inj this).symm
      simp only [stepIP, Option.bind_some, hL, ixEval, hval k hkS o, hok]
      cases hv : g k self[k] with
      | none =>
        simp only [Option.bind_none]
        symm
        rw [allSome_eq_none_iff]
        refine ⟨k, hkS, ?_⟩
        simp [ipV, Vector.getElem_ofFn, hv]
      | some x =>
        simp only [Option.bind_some, hkS, dite_true]
        symm
        rw [allSome_eq_some_iff]
        intro i hi
        have hp := hprev i hi
        simp only [ipV, Vector.getElem_ofFn] at hp ⊢
        rw [Vector.getElem_set]
        by_cases hik : k = i
        · subst hik
          simp [hv]
        · simp only [hik, if_false]
          by_cases hlt : i < k
          · have : i < k + 1 := Nat.lt_succ_of_lt hlt
            simp only [hlt, if_true] at hp
            simp only [this, if_true]
            exact hp
          · have : ¬ i < k + 1 := by omega
            simp only [hlt, if_false] at hp
            simp only [this, if_false]
            exact hp

/-- a canonical in-place loop whose statement at `i` only reads entry `i` of `*this` -/
theorem loopIP_canonical (L : Loop) (hL : L.canonical) (hip : L.inPlace = true) (val : Nat → Vec α S → Option α)
    (g : Nat → α → Option α) (hval : ∀ i (hi : i < S) (cur : Vec α S), val i cur = g i cur[i]) (self : Vec α S) :
    loopIP S L val self = allSome (Vector.ofFn fun i : Fin S => g i.val self[i.val]) := by
  unfold loopIP
  rw [loopRange_canonical S hL, foldl_stepIP L hL.2.2 val g hval self S (Nat.le_refl S)]
  simp only [hip, if_true]
  congr 1
  apply Vector.ext
  intro i hi
  simp [ipV, Vector.getElem_ofFn]

end LoopIP

theorem rd_i {α : Type} {S : Nat} (v : Vec α S) (i : Nat) (hi : i < S) : rd v .i i = some v[i] := by
  simp [rd, ixEval, Vector.getElem?_eq_getElem hi]

-- ------------------------------------------------------------------------------------------------
-- lane-wise predicates: the vector operation is the scalar operation in every lane
-- ------------------------------------------------------------------------------------------------
section Lanewise
variable {α β γ μ : Type} {S : Nat}

/-- unary: lane `l` of the result is `f (lane l a)`; the result exists iff `f` is defined in every lane -/
def LanewiseUn (r : Option (Vec β S)) (f : α → Option β) (a : Vec α S) : Prop :=
  r = allSome (a.map f)
def LanewiseBin (r : Option (Vec γ S)) (f : α → β → Option γ) (a : Vec α S) (b : Vec β S) : Prop :=
  r = allSome (Vector.zipWith f a b)
def LanewiseBinVS (r : Option (Vec γ S)) (f : α → β → Option γ) (a : Vec α S) (s : β) : Prop :=
  r = allSome (a.map fun x => f x s)
def LanewiseBinSV (r : Option (Vec γ S)) (f : α → β → Option γ) (s : α) (b : Vec β S) : Prop :=
  r = allSome (b.map fun y => f s y)
/-- postfix: the returned value is the old object, the object afterwards is lane-wise `f` -/
def LanewisePostfix (r : Option (Vec α S × Vec α S)) (f : α → Option α) (a : Vec α S) : Prop :=
  r = (allSome (a.map f)).map fun a' => (a, a')

theorem LanewiseUn.lane {r : Option (Vec β S)} {f : α → Option β} {a : Vec α S} (h : LanewiseUn r f a)
    {v : Vec β S} (hv : r = some v) (l : Nat) (hl : l < S) : f a[l] = some v[l] := by
  rw [h, allSome_eq_some_iff] at hv
  simpa using hv l hl
theorem LanewiseUn.defined {r : Option (Vec β S)} {f : α → Option β} {a : Vec α S} (h : LanewiseUn r f a)
    (hd : ∀ l (hl : l < S), (f a[l]).isSome = true) : ∃ v, r = some v := by
  cases hr : r with
  | some v => exact ⟨v, rfl⟩
  | none =>
    rw [h, allSome_eq_none_iff] at hr
    obtain ⟨i, hi, hn⟩ := hr
    have := hd i hi
    simp at hn
    simp [hn] at this
theorem LanewiseBin.lane {r : Option (Vec γ S)} {f : α → β → Option γ} {a : Vec α S} {b : Vec β S}
    (h : LanewiseBin r f a b) {v : Vec γ S} (hv : r = some v) (l : Nat) (hl : l < S) : f a[l] b[l] = some v[l] := by
  rw [h, allSome_eq_some_iff] at hv
  simpa using hv l hl
theorem LanewiseBin.defined {r : Option (Vec γ S)} {f : α → β → Option γ} {a : Vec α S} {b : Vec β S}
    (h : LanewiseBin r f a b) (hd : ∀ l (hl : l < S), (f a[l] b[l]).isSome = true) : ∃ v, r = some v := by
  cases hr : r with
  | some v => exact ⟨v, rfl⟩
  | none =>
    rw [h, allSome_eq_none_iff] at hr
    obtain ⟨i, hi, hn⟩ := hr
    have := hd i hi
    simp at hn
    simp [hn] at this
theorem LanewiseBinVS.lane {r : Option (Vec γ S)} {f : α → β → Option γ} {a : Vec α S} {s : β}
    (h : LanewiseBinVS r f a s) {v : Vec γ S} (hv : r = some v) (l : Nat) (hl : l < S) : f a[l] s = some v[l] := by
  rw [h, allSome_eq_some_iff] at hv
  simpa using hv l hl
theorem LanewiseBinSV.lane {r : Option (Vec γ S)} {f : α → β → Option γ} {s : α} {b : Vec β S}
    (h : LanewiseBinSV r f s b) {v : Vec γ S} (hv : r = some v) (l : Nat) (hl : l < S) : f s b[l] = some v[l] := by
  rw [h, allSome_eq_some_iff] at hv
  simpa using hv l hl

-- generic shapes -----------------------------------------------------------------------------------

theorem un_canonical (L : Loop) (hL : L.canonical) (hip : L.inPlace = false) (hargs : L.args = [.vec 0 .i])
    (f : α → Option β) (a : Vec α S) : LanewiseUn (Simd.un L f a) f a := by
  unfold LanewiseUn Simd.un
  rw [hargs]
  simp only
  rw [loopOut_canonical L hL hip]
  congr 1
  apply Vector.ext
  intro i hi
  simp [Vector.getElem_ofFn, rd_i a i hi]

theorem binVV_canonical (L : Loop) (hL : L.canonical) (hip : L.inPlace = false) (hargs : L.args = [.vec 0 .i, .vec 1 .i])
    (f : α → β → Option γ) (a : Vec α S) (b : Vec β S) : LanewiseBin (Simd.binVV L f a b) f a b := by
  unfold LanewiseBin Simd.binVV
  rw [hargs]
  simp only
  rw [loopOut_canonical L hL hip]
  congr 1
  apply Vector.ext
  intro i hi
  simp [Vector.getElem_ofFn, rd_i a i hi, rd_i b i hi]

theorem binVS_canonical (L : Loop) (hL : L.canonical) (hip : L.inPlace = false) (hargs : L.args = [.vec 0 .i, .scalar])
    (f : α → β → Option γ) (a : Vec α S) (s : β) : LanewiseBinVS (Simd.binVS L f a s) f a s := by
  unfold LanewiseBinVS Simd.binVS
  rw [hargs]
  simp only
  rw [loopOut_canonical L hL hip]
  congr 1
  apply Vector.ext
  intro i hi
  simp [Vector.getElem_ofFn, rd_i a i hi]

theorem binSV_canonical (L : Loop) (hL : L.canonical) (hip : L.inPlace = false) (hargs : L.args = [.scalar, .vec 0 .i])
    (f : α → β → Option γ) (s : α) (b : Vec β S) : LanewiseBinSV (Simd.binSV L f s b) f s b := by
  unfold LanewiseBinSV Simd.binSV
  rw [hargs]
  simp only
  rw [loopOut_canonical L hL hip]
  congr 1
  apply Vector.ext
  intro i hi
  simp [Vector.getElem_ofFn, rd_i b i hi]

theorem ipVV_canonical (L : Loop) (hL : L.canonical) (hip : L.inPlace = true) (hargs : L.args = [.vec 0 .i, .vec 1 .i])
    (f : α → β → Option α) (a : Vec α S) (b : Vec β S) : LanewiseBin (Simd.ipVV L f a b) f a b := by
  unfold LanewiseBin Simd.ipVV
  rw [hargs]
  simp only
  rw [loopIP_canonical L hL hip _ (fun i x => (b[i]?).bind fun y => f x y)]
  · congr 1
    apply Vector.ext
    intro i hi
    simp [Vector.getElem_ofFn]
  · intro i hi cur
    simp [rd, ixEval, Vector.getElem?_eq_getElem hi]

theorem ipVS_canonical (L : Loop) (hL : L.canonical) (hip : L.inPlace = true) (hargs : L.args = [.vec 0 .i, .scalar])
    (f : α → β → Option α) (a : Vec α S) (s : β) : LanewiseBinVS (Simd.ipVS L f a s) f a s := by
  unfold LanewiseBinVS Simd.ipVS
  rw [hargs]
  simp only
  rw [loopIP_canonical L hL hip _ (fun _ x => f x s)]
  · congr 1
    apply Vector.ext
    intro i hi
    simp [Vector.getElem_ofFn]
  · intro i hi cur
    simp [rd_i cur i hi]

theorem ipUn_canonical (L : Loop) (hL : L.canonical) (hip : L.inPlace = true) (hargs : L.args = [.vec 0 .i])
    (f : α → Option α) (a : Vec α S) : LanewiseUn (Simd.ipUn L f a) f a := by
  unfold LanewiseUn Simd.ipUn
  rw [hargs]
  simp only
  rw [loopIP_canonical L hL hip _ (fun _ x => f x)]
  · congr 1
    apply Vector.ext
    intro i hi
    simp [Vector.getElem_ofFn]
  · intro i hi cur
    simp [rd_i cur i hi]

-- scalar operand of another arithmetic type ---------------------------------------------------------------

/-- whatever the declared parameter type: the conversion happens once (at the call), all lanes see the same argument -/
theorem binVSx_spec {σ : Type} (L : Loop) (hL : L.canonical) (hip : L.inPlace = false) (hargs : L.args = [.vec 0 .i, .scalar])
    (f : α → Simd.Arg σ α → Option γ) (toLane : σ → Option α) (truth : σ → Option Bool) (a : Vec α S) (s : σ) :
    Simd.binVSx L f toLane truth a s =
      (Simd.passScalar L.scalarTy toLane truth s).bind fun arg => allSome (a.map fun x => f x arg) := by
  unfold Simd.binVSx
  cases Simd.passScalar L.scalarTy toLane truth s with
  | none => rfl
  | some arg => exact binVS_canonical L hL hip hargs f a arg

theorem binSVx_spec {σ : Type} (L : Loop) (hL : L.canonical) (hip : L.inPlace = false) (hargs : L.args = [.scalar, .vec 0 .i])
    (f : Simd.Arg σ α → α → Option γ) (toLane : σ → Option α) (truth : σ → Option Bool) (s : σ) (b : Vec α S) :
    Simd.binSVx L f toLane truth s b =
      (Simd.passScalar L.scalarTy toLane truth s).bind fun arg => allSome (b.map fun y => f arg y) := by
  unfold Simd.binSVx
  cases Simd.passScalar L.scalarTy toLane truth s with
  | none => rfl
  | some arg => exact binSV_canonical L hL hip hargs f arg b

/-- an overload that is generic in the type of its scalar operand applies the mixed-type scalar operation in every lane -/
theorem binVSx_own {σ : Type} (L : Loop) (hL : L.canonical) (hip : L.inPlace = false) (hargs : L.args = [.vec 0 .i, .scalar])
    (hown : L.scalarTy = .own) (f : α → Simd.Arg σ α → Option γ) (toLane : σ → Option α) (truth : σ → Option Bool)
    (a : Vec α S) (s : σ) : LanewiseBinVS (Simd.binVSx L f toLane truth a s) (fun x t => f x (.own t)) a s := by
  unfold LanewiseBinVS
  rw [binVSx_spec L hL hip hargs, hown]
  rfl

theorem binSVx_own {σ : Type} (L : Loop) (hL : L.canonical) (hip : L.inPlace = false) (hargs : L.args = [.scalar, .vec 0 .i])
    (hown : L.scalarTy = .own) (f : Simd.Arg σ α → α → Option γ) (toLane : σ → Option α) (truth : σ → Option Bool)
    (s : σ) (b : Vec α S) : LanewiseBinSV (Simd.binSVx L f toLane truth s b) (fun t y => f (.own t) y) s b := by
  unfold LanewiseBinSV
  rw [binSVx_spec L hL hip hargs, hown]
  rfl

/-- a scalar operand declared `Simd::Mask<T>` reaches every lane as its truth value -/
theorem binSVx_mask {σ : Type} (L : Loop) (hL : L.canonical) (hip : L.inPlace = false) (hargs : L.args = [.scalar, .vec 0 .i])
    (hm : L.scalarTy = .laneMask) (f : Simd.Arg σ α → α → Option γ) (toLane : σ → Option α) (truth : σ → Option Bool)
    (s : σ) (b : Vec α S) :
    Simd.binSVx L f toLane truth s b = (truth s).bind fun m => allSome (b.map fun y => f (.mask m) y) := by
  rw [binSVx_spec L hL hip hargs, hm]
  cases h : truth s <;> simp [Simd.passScalar, h]

end Lanewise

-- ------------------------------------------------------------------------------------------------
-- the operators of loop.hh (shapes regenerated from the source on every run)
-- ------------------------------------------------------------------------------------------------
section Operators
variable {α β : Type} {S : Nat}


theorem lanewise_unary (sem : UnOp → α → Option α) (op : UnOp) (a : Vec α S) :
    LanewiseUn (Simd.unary sem op a) (sem op) a :=
  un_canonical loop_UNARY_OP_v (by decide) (by decide) (by decide) _ a
theorem lanewise_lnot (truth : α → Option Bool) (a : Vec α S) :
    LanewiseUn (Simd.lnot truth a) (fun x => (truth x).map (!·)) a :=
  un_canonical loop_lnot (by decide) (by decide) (by decide) _ a
theorem lanewise_prefix (sem : IncOp → α → Option α) (op : IncOp) (a : Vec α S) :
    LanewiseUn (Simd.prefix sem op a) (sem op) a :=
  ipUn_canonical loop_PREFIX_OP_v (by decide) (by decide) (by decide) _ a
theorem lanewise_postfix (sem : IncOp → α → Option α) (op : IncOp) (a : Vec α S) :
    LanewisePostfix (Simd.postfix sem op a) (sem op) a := by
  unfold LanewisePostfix Simd.postfix
  rw [lanewise_prefix sem op a]
theorem lanewise_binaryVV (sem : BinOp → α → α → Option α) (op : BinOp) (a b : Vec α S) :
    LanewiseBin (Simd.binaryVV sem op a b) (sem op) a b :=
  binVV_canonical loop_BINARY_OP_vv (by decide) (by decide) (by decide) _ a b
theorem lanewise_binaryVS (sem : BinOp → α → α → Option α) (op : BinOp) (a : Vec α S) (s : α) :
    LanewiseBinVS (Simd.binaryVS sem op a s) (sem op) a s :=
  binVS_canonical loop_BINARY_OP_vs (by decide) (by decide) (by decide) _ a s
theorem lanewise_binarySV (sem : BinOp → α → α → Option α) (op : BinOp) (s : α) (b : Vec α S) :
    LanewiseBinSV (Simd.binarySV sem op s b) (sem op) s b :=
  binSV_canonical loop_BINARY_OP_sv (by decide) (by decide) (by decide) _ s b
theorem lanewise_shiftVV (sem : ShiftOp → α → β → Option α) (op : ShiftOp) (a : Vec α S) (b : Vec β S) :
    LanewiseBin (Simd.shiftVV sem op a b) (sem op) a b :=
  binVV_canonical loop_BITSHIFT_OP_vv (by decide) (by decide) (by decide) _ a b
theorem lanewise_shiftVS (sem : ShiftOp → α → β → Option α) (op : ShiftOp) (a : Vec α S) (s : β) :
    LanewiseBinVS (Simd.shiftVS sem op a s) (sem op) a s :=
  binVS_canonical loop_BITSHIFT_OP_vs (by decide) (by decide) (by decide) _ a s
theorem lanewise_assignVV (sem : AssignOp → α → α → Option α) (op : AssignOp) (a b : Vec α S) :
    LanewiseBin (Simd.assignVV sem op a b) (sem op) a b :=
  ipVV_canonical loop_ASSIGNMENT_OP_vv (by decide) (by decide) (by decide) _ a b
theorem lanewise_assignVS (sem : AssignOp → α → α → Option α) (op : AssignOp) (a : Vec α S) (s : α) :
    LanewiseBinVS (Simd.assignVS sem op a s) (sem op) a s :=
  ipVS_canonical loop_ASSIGNMENT_OP_vs (by decide) (by decide) (by decide) _ a s
theorem lanewise_compareVV (sem : CmpOp → α → α → Option Bool) (op : CmpOp) (a b : Vec α S) :
    LanewiseBin (Simd.compareVV sem op a b) (sem op) a b :=
  binVV_canonical loop_COMPARISON_OP_vv (by decide) (by decide) (by decide) _ a b
theorem lanewise_compareVS (sem : CmpOp → α → α → Option Bool) (op : CmpOp) (a : Vec α S) (s : α) :
    LanewiseBinVS (Simd.compareVS sem op a s) (sem op) a s :=
  binVS_canonical loop_COMPARISON_OP_vs (by decide) (by decide) (by decide) _ a s
theorem lanewise_compareSV (sem : CmpOp → α → α → Option Bool) (op : CmpOp) (s : α) (b : Vec α S) :
    LanewiseBinSV (Simd.compareSV sem op s b) (sem op) s b :=
  binSV_canonical loop_COMPARISON_OP_sv (by decide) (by decide) (by decide) _ s b
theorem lanewise_logicVV (sem : BoolOp → α → α → Option Bool) (op : BoolOp) (a b : Vec α S) :
    LanewiseBin (Simd.logicVV sem op a b) (sem op) a b :=
  binVV_canonical loop_BOOLEAN_OP_vv (by decide) (by decide) (by decide) _ a b
theorem lanewise_logicVS (sem : BoolOp → α → α → Option Bool) (op : BoolOp) (a : Vec α S) (s : α) :
    LanewiseBinVS (Simd.logicVS sem op a s) (sem op) a s :=
  binVS_canonical loop_BOOLEAN_OP_vs (by decide) (by decide) (by decide) _ a s
theorem lanewise_logicSV (sem : BoolOp → α → α → Option Bool) (op : BoolOp) (s : α) (b : Vec α S) :
    LanewiseBinSV (Simd.logicSV sem op s b) (sem op) s b :=
  binSV_canonical loop_BOOLEAN_OP_sv (by decide) (by decide) (by decide) _ s b
theorem lanewise_compareVSx {σ : Type} (sem : CmpOp → α → Simd.Arg σ α → Option Bool) (toLane : σ → Option α)
    (truth : σ → Option Bool) (op : CmpOp) (a : Vec α S) (s : σ) :
    LanewiseBinVS (Simd.compareVSx sem toLane truth op a s) (fun x t => sem op x (.own t)) a s :=
  binVSx_own loop_COMPARISON_OP_vs (by decide) (by decide) (by decide) (by decide) _ toLane truth a s
theorem lanewise_compareSVx {σ : Type} (sem : CmpOp → Simd.Arg σ α → α → Option Bool) (toLane : σ → Option α)
    (truth : σ → Option Bool) (op : CmpOp) (s : σ) (b : Vec α S) :
    LanewiseBinSV (Simd.compareSVx sem toLane truth op s b) (fun t y => sem op (.own t) y) s b :=
  binSVx_own loop_COMPARISON_OP_sv (by decide) (by decide) (by decide) (by decide) _ toLane truth s b
theorem lanewise_logicVSx {σ : Type} (sem : BoolOp → α → Simd.Arg σ α → Option Bool) (toLane : σ → Option α)
    (truth : σ → Option Bool) (op : BoolOp) (a : Vec α S) (s : σ) :
    LanewiseBinVS (Simd.logicVSx sem toLane truth op a s) (fun x t => sem op x (.own t)) a s :=
  binVSx_own loop_BOOLEAN_OP_vs (by decide) (by decide) (by decide) (by decide) _ toLane truth a s
theorem lanewise_logicSVx {σ : Type} (sem : BoolOp → Simd.Arg σ α → α → Option Bool) (toLane : σ → Option α)
    (truth : σ → Option Bool) (op : BoolOp) (s : σ) (b : Vec α S) :
    Simd.logicSVx sem toLane truth op s b = (truth s).bind fun m => allSome (b.map fun y => sem op (.mask m) y) :=
  binSVx_mask loop_BOOLEAN_OP_sv (by decide) (by decide) (by decide) (by decide) _ toLane truth s b
theorem lanewise_shiftVSx {σ : Type} (sem : ShiftOp → α → Simd.Arg σ α → Option α) (toLane : σ → Option α)
    (truth : σ → Option Bool) (op : ShiftOp) (a : Vec α S) (s : σ) :
    LanewiseBinVS (Simd.shiftVSx sem toLane truth op a s) (fun x t => sem op x (.own t)) a s :=
  binVSx_own loop_BITSHIFT_OP_vs (by decide) (by decide) (by decide) (by decide) _ toLane truth a s
theorem lanewise_math (sem : MathOp → α → Option α) (op : MathOp) (a : Vec α S) :
    LanewiseUn (Simd.math sem op a) (sem op) a :=
  un_canonical loop_CMATH_UNARY_OP_v (by decide) (by decide) (by decide) _ a
theorem lanewise_mathRet (sem : MathRetOp → α → Option β) (op : MathRetOp) (a : Vec α S) :
    LanewiseUn (Simd.mathRet sem op a) (sem op) a :=
  un_canonical loop_CMATH_UNARY_OP_WITH_RETURN_v (by decide) (by decide) (by decide) _ a
theorem lanewise_stdUn (sem : StdUnOp → α → Option β) (op : StdUnOp) (a : Vec α S) :
    LanewiseUn (Simd.stdUn sem op a) (sem op) a :=
  un_canonical loop_STD_UNARY_OP_v (by decide) (by decide) (by decide) _ a
theorem lanewise_stdBin (sem : StdBinOp → α → α → Option α) (op : StdBinOp) (a b : Vec α S) :
    LanewiseBin (Simd.stdBin sem op a b) (sem op) a b :=
  binVV_canonical loop_STD_BINARY_OP_vv (by decide) (by decide) (by decide) _ a b
theorem lanewise_isNaN (f : α → Option Bool) (a : Vec α S) : LanewiseUn (Simd.isNaN f a) f a :=
  un_canonical loop_isNaN (by decide) (by decide) (by decide) _ a
theorem lanewise_isInf (f : α → Option Bool) (a : Vec α S) : LanewiseUn (Simd.isInf f a) f a :=
  un_canonical loop_isInf (by decide) (by decide) (by decide) _ a
theorem lanewise_isFinite (f : α → Option Bool) (a : Vec α S) : LanewiseUn (Simd.isFinite f a) f a :=
  un_canonical loop_isFinite (by decide) (by decide) (by decide) _ a

end Operators

end DV.C09
