import DuneVerif.Proofs.C06Sched
/-! C06 helper lemmas, part 7: the rank-level system of `communicateVariableSize` (`VarSys`): all ranks with their
    program positions and loop counters, all links with their size-phase and data-phase machines on one FIFO. -/
namespace DV.C06

/-! ### what a step of the per-link machine touches -/

section step
variable {β σ : Type} (c : PairCfg β σ) (s s' : Pair β σ)

theorem step_deliver_inv (h : Pair.step c s .deliver = some s') :
    s.rreq = .posted ∧ s.chan ≠ [] ∧ s'.sendOpen = s.sendOpen ∧ s'.recvOpen = s.recvOpen ∧ s'.acc = s.acc := by
  simp only [Pair.step] at h
  split at h
  · rename_i m ms hc hr
    simp only [Option.some.injEq] at h
    subst h
    simp [hc, hr]
  · simp at h

theorem step_sendDone_inv (h : Pair.step c s .sendDone = some s') :
    s.sreq = .complete ∧ s'.recvOpen = s.recvOpen ∧ s'.acc = s.acc ∧ s'.rreq = s.rreq ∧ (s'.sendOpen = true → s.sendOpen = true) := by
  simp only [Pair.step] at h
  split at h
  · rename_i hr
    split at h
    · simp only [Option.some.injEq] at h; subst h; simp [hr]
    · simp only [Option.some.injEq] at h; subst h; simp [hr]
  · simp at h

theorem step_recvDone_inv (h : Pair.step c s .recvDone = some s') :
    (∃ m, s.rreq = .complete m) ∧ s'.sendOpen = s.sendOpen ∧ s'.chan = s.chan ∧ s'.sreq = s.sreq ∧
      (s'.recvOpen = true → s.recvOpen = true) := by
  simp only [Pair.step] at h
  split at h
  · rename_i m hr
    refine ⟨⟨m, hr⟩, ?_⟩
    split at h <;> (try split at h) <;> (have h := Option.some.inj h; subst h; simp)
  · simp at h

theorem step_sendOpen_mono (a : Action) (h : Pair.step c s a = some s') (ho : s'.sendOpen = true) : s.sendOpen = true := by
  cases a with
  | deliver => rw [← (step_deliver_inv c s s' h).2.2.1]; exact ho
  | sendDone => exact (step_sendDone_inv c s s' h).2.2.2.2 ho
  | recvDone => rw [← (step_recvDone_inv c s s' h).2.1]; exact ho

theorem step_recvOpen_mono (a : Action) (h : Pair.step c s a = some s') (ho : s'.recvOpen = true) : s.recvOpen = true := by
  cases a with
  | deliver => rw [← (step_deliver_inv c s s' h).2.2.2.1]; exact ho
  | sendDone => rw [← (step_sendDone_inv c s s' h).2.1]; exact ho
  | recvDone => exact (step_recvDone_inv c s s' h).2.2.2.2 ho

end step

/-! ### what the invariant of the per-link machine says about closed sides -/

section pinv
variable {β σ : Type} {hd : Handle β} {B f : Nat} {T : Nat → List Nat → List Nat → Tracker}
  {Inv : σ → Nat → List Nat → List Nat → Prop}

/-- the sender's counter no longer counts this neighbour: its request is null, nothing is in the channel, and no
    receive is waiting for a message -/
theorem pinv_sendClosed (s : Pair β σ) (hI : PInv hd B f T Inv s) (hc : s.sendOpen = false) :
    s.sreq = .null ∧ s.chan = [] ∧ s.rreq.isPosted = false := by
  obtain ⟨isR, jsR, kR, kS, rS, hl, hf, hrt, hsb, hrb, hacc, hcase⟩ := hI
  rcases hcase with hA | hB | hC | hD | hE
  · simp [hA.2.2.2.2.2.1] at hc
  · simp [hB.2.2.2.2.2.1] at hc
  · simp [hC.2.2.2.1] at hc
  · obtain ⟨_, hrreq, _, _, hsub⟩ := hD
    rcases hsub with ⟨_, _, hsreq, hchan, _⟩ | ⟨_, _, _, _, hso⟩
    · exact ⟨hsreq, hchan, by simp [hrreq, RecvReq.isPosted]⟩
    · simp [hso] at hc
  · obtain ⟨_, _, hsreq, hchan, hrreq, _, _⟩ := hE
    exact ⟨hsreq, hchan, by simp [hrreq, RecvReq.isPosted]⟩

/-- the receiver's counter no longer counts this neighbour: no receive is posted, nothing is in the channel, and the
    receiver stands at the end of its index list (`isR = []`) or in front of indices without items -/
theorem pinv_recvClosed (s : Pair β σ) (hI : PInv hd B f T Inv s) (hc : s.recvOpen = false) :
    s.rreq = .null ∧ s.chan = [] ∧
      ∃ (kR : Nat) (isR jsR : List Nat), jsR.length = isR.length ∧ total hd isR = 0 ∧ Inv s.acc kR isR jsR := by
  obtain ⟨isR, jsR, kR, kS, rS, hl, hf, hrt, hsb, hrb, hacc, hcase⟩ := hI
  rcases hcase with hA | hB | hC | hD | hE
  · simp [hA.2.2.2.2.2.2.1] at hc
  · simp [hB.2.2.2.2.2.2.1] at hc
  · obtain ⟨_, _, hchan, _, hsub⟩ := hC
    rcases hsub with ⟨_, _, hro, _⟩ | ⟨hnil, hrreq, _⟩
    · simp [hro] at hc
    · subst hnil
      exact ⟨hrreq, hchan, kR, [], jsR, hl, by simp, hacc⟩
  · simp [hD.2.2.1] at hc
  · obtain ⟨hz, _, _, hchan, hrreq, _, _⟩ := hE
    exact ⟨hrreq, hchan, kR, isR, jsR, hl, hz, hacc⟩

/-- a completed send request belongs to a neighbour the counter still counts -/
theorem pinv_complete_sendOpen (s : Pair β σ) (hI : PInv hd B f T Inv s) (hc : s.sreq = .complete) : s.sendOpen = true := by
  cases ho : s.sendOpen with
  | true => rfl
  | false => have := (pinv_sendClosed s hI ho).1; rw [hc] at this; cases this

theorem pinv_complete_recvOpen (s : Pair β σ) (hI : PInv hd B f T Inv s) (m : List β) (hc : s.rreq = .complete m) :
    s.recvOpen = true := by
  cases ho : s.recvOpen with
  | true => rfl
  | false => have := (pinv_recvClosed s hI ho).1; rw [hc] at this; cases this

/-- at most one message is in the channel, and then the send request is active (synchronous sends) -/
theorem pinv_final_of_closed (s : Pair β σ) (hR : RecvSide hd B f getCount unpack T Inv) (hI : PInv hd B f T Inv s)
    (h1 : s.sendOpen = false) (h2 : s.recvOpen = false) : s.final = true := by
  obtain ⟨isR, jsR, kR, kS, rS, hl, hf, hrt, hsb, hrb, hacc, hcase⟩ := hI
  rcases hcase with hA | hB | hC | hD | hE
  · simp [hA.2.2.2.2.2.1] at h1
  · simp [hB.2.2.2.2.2.1] at h1
  · simp [hC.2.2.2.1] at h1
  · simp [hD.2.2.1] at h2
  · obtain ⟨hz, hfin, _, hchan, _, hso, hro⟩ := hE
    have : s.rt.finished = true := by rw [hrt, hR.fin _ _ _ hl hf]; simp [hz]
    simp [Pair.final, hso, hro, hchan, hfin, this]

end pinv


/-! ### position-wise relations between link descriptions and link states -/

def Rel2 {γ δ : Type} (R : γ → δ → Prop) (ls : List γ) (xs : List δ) : Prop :=
  ls.length = xs.length ∧ ∀ (i : Nat) l x, ls[i]? = some l → xs[i]? = some x → R l x

theorem Rel2.set {γ δ : Type} {R : γ → δ → Prop} {ls : List γ} {xs : List δ} (h : Rel2 R ls xs) (i : Nat) (l : γ)
    (x' : δ) (hl : ls[i]? = some l) (hx : R l x') : Rel2 R ls (xs.set i x') := by
  refine ⟨by simpa using h.1, ?_⟩
  intro j l2 x2 hl2 hx2
  by_cases hij : i = j
  · subst hij
    rw [List.getElem?_set_self (by
      have := (List.getElem?_eq_some_iff.1 hl).1
      rw [← h.1]; exact this)] at hx2
    rw [hl] at hl2
    cases hl2; cases hx2
    exact hx
  · rw [List.getElem?_set_ne hij] at hx2
    exact h.2 j l2 x2 hl2 hx2

theorem Rel2.mono {γ δ : Type} {R R' : γ → δ → Prop} {ls : List γ} {xs : List δ} (h : Rel2 R ls xs)
    (hm : ∀ l x, R l x → R' l x) : Rel2 R' ls xs :=
  ⟨h.1, fun i l x hl hx => hm l x (h.2 i l x hl hx)⟩

theorem Rel2.get {γ δ : Type} {R : γ → δ → Prop} {ls : List γ} {xs : List δ} (h : Rel2 R ls xs) {i : Nat} {l : γ}
    (hl : ls[i]? = some l) : ∃ x, xs[i]? = some x ∧ R l x := by
  have hi := (List.getElem?_eq_some_iff.1 hl).1
  have hi' : i < xs.length := by rw [← h.1]; exact hi
  exact ⟨xs[i], List.getElem?_eq_getElem hi', h.2 i l xs[i] hl (List.getElem?_eq_getElem hi')⟩

theorem Rel2.zipWith {γ δ : Type} {R R' : γ → δ → Prop} {ls : List γ} {xs : List δ} (f : γ → δ → δ) (h : Rel2 R ls xs)
    (hf : ∀ l x, R l x → R' l (f l x)) : Rel2 R' ls (List.zipWith f ls xs) := by
  refine ⟨by simp [h.1], ?_⟩
  intro i l y hl hy
  obtain ⟨x, hx, hr⟩ := h.get hl
  rw [List.getElem?_zipWith, hl, hx] at hy
  simp at hy
  subst hy
  exact hf l x hr

theorem Rel2.of_map {γ δ : Type} {R : γ → δ → Prop} (g : γ → δ) (ls : List γ) (h : ∀ l ∈ ls, R l (g l)) :
    Rel2 R ls (ls.map g) := by
  refine ⟨by simp, ?_⟩
  intro i l x hl hx
  rw [List.getElem?_map, hl] at hx
  simp at hx
  subst hx
  exact h l (List.mem_of_getElem? hl)

/-! ### counting and summing over the links -/

section count
variable {γ δ : Type}

theorem countSel_set (sel : γ → δ → Bool) : ∀ (ls : List (γ)) (xs : List (δ)) (i : Nat)
    (l : γ) (x x' : δ), ls[i]? = some l → xs[i]? = some x →
    countSel sel ls (xs.set i x') + (if sel l x then 1 else 0) = countSel sel ls xs + (if sel l x' then 1 else 0) := by
  intro ls
  induction ls with
  | nil => intro xs i l x x' hl; simp at hl
  | cons l0 ls ih =>
    intro xs i l x x' hl hx
    cases xs with
    | nil => simp at hx
    | cons x0 xs =>
      cases i with
      | zero =>
        simp at hl hx
        subst hl; subst hx
        simp only [List.set_cons_zero, countSel]
        omega
      | succ i =>
        simp only [List.getElem?_cons_succ] at hl hx
        have := ih xs i l x x' hl hx
        simp only [List.set_cons_succ, countSel]
        omega

theorem countSel_set_same (sel : γ → δ → Bool) (ls : List (γ)) (xs : List (δ)) (i : Nat)
    (l : γ) (x x' : δ) (hl : ls[i]? = some l) (hx : xs[i]? = some x) (he : sel l x' = sel l x) :
    countSel sel ls (xs.set i x') = countSel sel ls xs := by
  have := countSel_set sel ls xs i l x x' hl hx
  rw [he] at this
  omega

theorem countSel_pos (sel : γ → δ → Bool) : ∀ (ls : List (γ)) (xs : List (δ)) (i : Nat)
    (l : γ) (x : δ), ls[i]? = some l → xs[i]? = some x → sel l x = true → 0 < countSel sel ls xs := by
  intro ls
  induction ls with
  | nil => intro xs i l x hl; simp at hl
  | cons l0 ls ih =>
    intro xs i l x hl hx hs
    cases xs with
    | nil => simp at hx
    | cons x0 xs =>
      cases i with
      | zero =>
        simp at hl hx
        subst hl; subst hx
        simp only [countSel, hs, if_true]
        omega
      | succ i =>
        simp only [List.getElem?_cons_succ] at hl hx
        have := ih xs i l x hl hx hs
        simp only [countSel]
        omega

theorem countSel_zero_get (sel : γ → δ → Bool) (ls : List (γ)) (xs : List (δ))
    (hz : countSel sel ls xs = 0) (i : Nat) (l : γ) (x : δ) (hl : ls[i]? = some l) (hx : xs[i]? = some x) :
    sel l x = false := by
  cases hs : sel l x with
  | false => rfl
  | true => have := countSel_pos sel ls xs i l x hl hx hs; omega

theorem countSel_all_false (sel : γ → δ → Bool) : ∀ (ls : List (γ)) (xs : List (δ)),
    (∀ (i : Nat) l x, ls[i]? = some l → xs[i]? = some x → sel l x = false) → countSel sel ls xs = 0 := by
  intro ls
  induction ls with
  | nil => intro xs _; cases xs <;> rfl
  | cons l0 ls ih =>
    intro xs h
    cases xs with
    | nil => rfl
    | cons x0 xs =>
      have h0 := h 0 l0 x0 (by simp) (by simp)
      have := ih xs (fun i l x hl hx => h (i + 1) l x (by simpa using hl) (by simpa using hx))
      simp [countSel, h0, this]

/-- the count does not change under a position-wise update that keeps the selected property -/
theorem countSel_zipWith (sel : γ → δ → Bool) (f : γ → δ → δ)
    (hf : ∀ l x, sel l (f l x) = sel l x) : ∀ (ls : List (γ)) (xs : List (δ)),
    countSel sel ls (List.zipWith f ls xs) = countSel sel ls xs := by
  intro ls
  induction ls with
  | nil => intro xs; cases xs <;> rfl
  | cons l0 ls ih =>
    intro xs
    cases xs with
    | nil => rfl
    | cons x0 xs => simp [countSel, hf, ih xs]

/-- sum of a per-link quantity -/
def sumSel (m : γ → δ → Nat) : List (γ) → List (δ) → Nat
  | l :: ls, x :: xs => m l x + sumSel m ls xs
  | _, _ => 0

theorem sumSel_set (m : γ → δ → Nat) : ∀ (ls : List (γ)) (xs : List (δ)) (i : Nat)
    (l : γ) (x x' : δ), ls[i]? = some l → xs[i]? = some x →
    sumSel m ls (xs.set i x') + m l x = sumSel m ls xs + m l x' := by
  intro ls
  induction ls with
  | nil => intro xs i l x x' hl; simp at hl
  | cons l0 ls ih =>
    intro xs i l x x' hl hx
    cases xs with
    | nil => simp at hx
    | cons x0 xs =>
      cases i with
      | zero =>
        simp at hl hx
        subst hl; subst hx
        simp only [List.set_cons_zero, sumSel]
        omega
      | succ i =>
        simp only [List.getElem?_cons_succ] at hl hx
        have := ih xs i l x x' hl hx
        simp only [List.set_cons_succ, sumSel]
        omega

theorem sumSel_zipWith_le {R : γ → δ → Prop} (m : γ → δ → Nat)
    (f : γ → δ → δ) (hf : ∀ l x, R l x → m l (f l x) ≤ m l x) :
    ∀ (ls : List (γ)) (xs : List (δ)), Rel2 R ls xs →
    sumSel m ls (List.zipWith f ls xs) ≤ sumSel m ls xs := by
  intro ls
  induction ls with
  | nil => intro xs _; cases xs <;> simp [sumSel]
  | cons l0 ls ih =>
    intro xs h
    cases xs with
    | nil => simp [sumSel]
    | cons x0 xs =>
      have h0 := hf l0 x0 (h.2 0 l0 x0 (by simp) (by simp))
      have ht : Rel2 R ls xs := ⟨by simpa using h.1, fun i l x hl hx => h.2 (i + 1) l x (by simpa using hl) (by simpa using hx)⟩
      have := ih xs ht
      simp only [List.zipWith_cons_cons, sumSel]
      omega

theorem sumSel_map_le (m : γ → δ → Nat) (g : γ → δ) (bound : γ → Nat) :
    ∀ (ls : List (γ)), (∀ l ∈ ls, m l (g l) ≤ bound l) → sumSel m ls (ls.map g) ≤ (ls.map bound).sum := by
  intro ls
  induction ls with
  | nil => intro _; simp [sumSel]
  | cons l ls ih =>
    intro h
    have h1 := h l (by simp)
    have h2 := ih (fun q hq => h q (by simp [hq]))
    simp only [List.map_cons, sumSel, List.sum_cons]
    omega

end count

/-! ### lists of counters -/

theorem getD_set_self (cs : List Nat) (p v d : Nat) (hp : p < cs.length) : (cs.set p v).getD p d = v := by
  simp [List.getD_eq_getElem?_getD, List.getElem?_set_self hp]

theorem getD_set_ne (cs : List Nat) (p q v d : Nat) (hpq : p ≠ q) : (cs.set p v).getD q d = cs.getD q d := by
  simp [List.getD_eq_getElem?_getD, List.getElem?_set_ne hpq]

theorem getD_decIf_self (cs : List Nat) (c : Bool) (p : Nat) (hp : p < cs.length) :
    (decIf c p cs).getD p 0 = if c then cs.getD p 0 - 1 else cs.getD p 0 := by
  cases c <;> simp [decIf, List.getD_eq_getElem?_getD, List.getElem?_set_self hp]

theorem getD_decIf_ne (cs : List Nat) (c : Bool) (p q : Nat) (hpq : p ≠ q) : (decIf c p cs).getD q 0 = cs.getD q 0 := by
  cases c <;> simp [decIf, List.getD_eq_getElem?_getD, List.getElem?_set_ne hpq]

theorem length_decIf (cs : List Nat) (c : Bool) (p : Nat) : (decIf c p cs).length = cs.length := by
  cases c <;> simp [decIf]

theorem getD_range_map (f : Nat → Nat) (n p : Nat) (hp : p < n) : ((List.range n).map f).getD p 0 = f p := by
  simp [List.getD_eq_getElem?_getD, hp]

/-- `Σ (2 - phase)` -/
def phaseSum (ph : List Nat) : Nat := (ph.map fun k => 2 - k).sum

theorem phaseSum_set (ph : List Nat) (p v : Nat) (hp : p < ph.length) :
    phaseSum (ph.set p v) + (2 - ph.getD p 3) = phaseSum ph + (2 - v) := by
  induction ph generalizing p with
  | nil => simp at hp
  | cons k ph ih =>
    cases p with
    | zero => simp [phaseSum]; omega
    | succ p =>
      have := ih p (by simpa using hp)
      simp only [phaseSum, List.set_cons_succ, List.map_cons, List.sum_cons, List.getD_cons_succ] at this ⊢
      omega

theorem phaseSum_replicate (n : Nat) : phaseSum (List.replicate n 0) = 2 * n := by
  induction n with
  | zero => rfl
  | succ n ih => simp only [phaseSum, List.replicate_succ, List.map_cons, List.sum_cons] at ih ⊢; omega


/-! ### the data-phase machine of a link while only one side has started -/

section half
variable {α : Type}

theorem start_both (B : Nat) (l : LinkSpec α) (x : Pair α (List (Call α))) :
    startRecv B l.pair (l.sendIdx.map l.h.size) (startSend B l.pair x) = (dataInit B l.pair).state := rfl

theorem start_both' (B : Nat) (l : LinkSpec α) (x : Pair α (List (Call α))) :
    startSend B l.pair (startRecv B l.pair (l.sendIdx.map l.h.size) x) = (dataInit B l.pair).state := rfl

theorem stuck_of_fields {σ : Type} (c : PairCfg α σ) (s : Pair α σ) (hd : s.rreq ≠ .posted ∨ s.chan = [])
    (hs : s.sreq ≠ .complete) (hr : ∀ m, s.rreq ≠ .complete m) (a : Action) : Pair.step c s a = none := by
  cases hstep : Pair.step c s a with
  | none => rfl
  | some s' =>
    cases a with
    | deliver =>
      obtain ⟨h1, h2, _⟩ := step_deliver_inv c s s' hstep
      rcases hd with h | h
      · exact absurd h1 h
      · exact absurd h h2
    | sendDone => exact absurd (step_sendDone_inv c s s' hstep).1 hs
    | recvDone =>
      obtain ⟨⟨m, hm⟩, _⟩ := step_recvDone_inv c s s' hstep
      exact absurd hm (hr m)

theorem blank_stuck {σ : Type} (c : PairCfg α σ) (acc : σ) (a : Action) : Pair.step c (Pair.blank acc) a = none :=
  stuck_of_fields c _ (Or.inr rfl) (by simp [Pair.blank]) (by simp [Pair.blank]) a

theorem startSend_blank_stuck {σ : Type} (c : PairCfg α σ) (B : Nat) (p : PairSpec α) (acc : σ) (a : Action) :
    Pair.step c (startSend B p (Pair.blank acc)) a = none := by
  refine stuck_of_fields c _ (Or.inl (by simp [startSend, Pair.blank])) ?_ (by simp [startSend, Pair.blank]) a
  simp only [startSend]
  split <;> simp

theorem startRecv_blank_stuck (c : PairCfg α (List (Call α))) (B : Nat) (p : PairSpec α) (sizes : List Nat) (a : Action) :
    Pair.step c (startRecv B p sizes (Pair.blank [])) a = none := by
  refine stuck_of_fields c _ (Or.inr (by simp [startRecv, Pair.blank])) (by simp [startRecv, Pair.blank]) ?_ a
  intro m
  simp only [startRecv]
  split <;> simp

end half


/-! ### the invariant of one link -/

section link
variable {α : Type}

/-- `ph` = program positions of the ranks -/
structure LinkInv (B n : Nat) (ph : List Nat) (l : LinkSpec α) (x : LinkSt α) : Prop where
  src_lt : l.src < n
  dst_lt : l.dst < n
  fit : ∀ i ∈ l.sendIdx, l.h.size i ≤ B
  sz : GoodSize B l.pair ⟨sizeCfg l.pair, x.sz⟩
  dt00 : x.sStarted = false → x.rStarted = false → x.dt = Pair.blank []
  dt10 : x.sStarted = true → x.rStarted = false → x.dt = startSend B l.pair (Pair.blank [])
  dt01 : x.sStarted = false → x.rStarted = true → x.dt = startRecv B l.pair (l.sendIdx.map l.h.size) (Pair.blank [])
  dt11 : x.sStarted = true → x.rStarted = true → GoodData B l.pair ⟨dataCfg l.pair, x.dt⟩
  /-- a side of the data machine is started exactly when its rank has left the size loop -/
  sph : x.sStarted = decide (1 ≤ ph.getD l.src 3)
  rph : x.rStarted = decide (1 ≤ ph.getD l.dst 3)
  /-- a rank leaves the size loop only with all its size requests closed -/
  sclosed : x.sStarted = true → x.sz.sendOpen = false
  rclosed : x.rStarted = true → x.sz.recvOpen = false
  /-- a rank returns only with all its data requests closed -/
  sret : ph.getD l.src 3 = 2 → x.dt.sendOpen = false
  rret : ph.getD l.dst 3 = 2 → x.dt.recvOpen = false

theorem LinkInv.fits {B n : Nat} {ph : List Nat} {l : LinkSpec α} {x : LinkSt α} (h : LinkInv B n ph l x) :
    Fits l.pair.h B l.pair.f l.pair.sendIdx := Or.inl ⟨rfl, h.fit⟩

/-- the size array is complete once the receiving side of the size machine is closed -/
theorem sizes_complete (B : Nat) (p : PairSpec α) (s : Pair Nat (List Nat)) (hg : GoodSize B p ⟨sizeCfg p, s⟩)
    (hc : s.recvOpen = false) : s.acc = p.sendIdx.map p.h.size := by
  obtain ⟨_, _, hI⟩ := hg
  obtain ⟨_, _, kR, isR, jsR, _, hz, done, hd1, _, hd3⟩ := pinv_recvClosed s hI hc
  rw [sizeHandle_total] at hz
  have : isR = [] := List.eq_nil_of_length_eq_zero hz
  subst this
  simpa [hd1] using hd3

/-- a step of the size machine of a link -/
theorem linkInv_size_step {B n : Nat} (hB : 0 < B) {ph : List Nat} {l : LinkSpec α} {x : LinkSt α}
    (hI : LinkInv B n ph l x) (a : Action) (s' : Pair Nat (List Nat))
    (hs : Pair.step (sizeCfg l.pair) x.sz a = some s') :
    LinkInv B n ph l { x with sz := s' } ∧ s'.measure < x.sz.measure := by
  obtain ⟨h1, h2⟩ := (goodSize_closed B hB).step l.pair ⟨sizeCfg l.pair, x.sz⟩ a s' hI.sz hs
  refine ⟨{ hI with sz := h1, sclosed := ?_, rclosed := ?_ }, h2⟩
  · intro hst
    cases ho : s'.sendOpen with
    | false => rfl
    | true => have := step_sendOpen_mono _ _ _ a hs ho; rw [hI.sclosed hst] at this; cases this
  · intro hst
    cases ho : s'.recvOpen with
    | false => rfl
    | true => have := step_recvOpen_mono _ _ _ a hs ho; rw [hI.rclosed hst] at this; cases this

/-- a step of the data machine of a link: both sides have started -/
theorem linkInv_data_step {B n : Nat} {ph : List Nat} {l : LinkSpec α} {x : LinkSt α}
    (hI : LinkInv B n ph l x) (a : Action) (s' : Pair α (List (Call α)))
    (hs : Pair.step (dataCfg l.pair) x.dt a = some s') :
    x.sStarted = true ∧ x.rStarted = true ∧ LinkInv B n ph l { x with dt := s' } ∧ s'.measure < x.dt.measure := by
  rcases Bool.eq_false_or_eq_true x.sStarted with hss | hss <;> rcases Bool.eq_false_or_eq_true x.rStarted with hrs | hrs
  rotate_left
  · rw [hI.dt10 hss hrs, startSend_blank_stuck] at hs; cases hs
  · rw [hI.dt01 hss hrs, startRecv_blank_stuck] at hs; cases hs
  · rw [hI.dt00 hss hrs, blank_stuck] at hs; cases hs
  · obtain ⟨h1, h2⟩ := (goodData_closed B).step l.pair ⟨dataCfg l.pair, x.dt⟩ a s' (hI.dt11 hss hrs) hs
    refine ⟨hss, hrs, { hI with dt00 := ?_, dt10 := ?_, dt01 := ?_, dt11 := fun _ _ => h1, sret := ?_, rret := ?_ }, h2⟩
    · intro h; simp only [hss] at h; cases h
    · intro _ h; simp only [hrs] at h; cases h
    · intro h; simp only [hss] at h; cases h
    · intro hp
      cases ho : s'.sendOpen with
      | false => rfl
      | true => have := step_sendOpen_mono _ _ _ a hs ho; rw [hI.sret hp] at this; cases this
    · intro hp
      cases ho : s'.recvOpen with
      | false => rfl
      | true => have := step_recvOpen_mono _ _ _ a hs ho; rw [hI.rret hp] at this; cases this

/-- per-link part of the termination measure: a data machine that has not started on both sides counts with the bound
    of its initial measure -/
def linkMeasure (l : LinkSpec α) (x : LinkSt α) : Nat :=
  x.sz.measure + (if x.sStarted && x.rStarted then x.dt.measure else 3 * (l.sendIdx.length + l.recvIdx.length) + 4)

theorem getD_set_phase (ph : List Nat) (p q v : Nat) (hp : p < ph.length) :
    (ph.set p v).getD q 3 = if q = p then v else ph.getD q 3 := by
  by_cases h : q = p
  · subst h; simp [List.getD_eq_getElem?_getD, List.getElem?_set_self hp]
  · simp [h, List.getD_eq_getElem?_getD, List.getElem?_set_ne (Ne.symm h)]

/-- rank `p` leaves its size loop: the sides of the data machines it owns start -/
theorem linkInv_advance {B n : Nat} {ph : List Nat} {l : LinkSpec α} {x : LinkSt α} (p : Nat) (hp : p < ph.length)
    (hI : LinkInv B n ph l x) (hph : ph.getD p 3 = 0)
    (hs : l.src = p → x.sz.sendOpen = false) (hr : l.dst = p → x.sz.recvOpen = false) :
    LinkInv B n (ph.set p 1) l (advanceLink B p l x) ∧ linkMeasure l (advanceLink B p l x) ≤ linkMeasure l x := by
  have hlen : l.pair.recvIdx.length = l.pair.sendIdx.length := hI.sz.2.1
  have hgood : GoodData B l.pair ⟨dataCfg l.pair, (dataInit B l.pair).state⟩ := dataInit_good B l.pair hlen hI.fits
  have hmeas : (dataInit B l.pair).state.measure ≤ 3 * (l.sendIdx.length + l.recvIdx.length) + 4 :=
    dataInit_measure_le B l.pair hI.fits
  by_cases hsp : l.src = p <;> by_cases hdp : l.dst = p
  · -- a link of the rank with itself: both sides start
    have hs0 : x.sStarted = false := by rw [hI.sph, hsp, hph]; rfl
    have hr0 : x.rStarted = false := by rw [hI.rph, hdp, hph]; rfl
    have hacc := sizes_complete B l.pair x.sz hI.sz (hr hdp)
    have hdt : (advanceLink B p l x).dt = (dataInit B l.pair).state := by
      simp only [advanceLink, hsp, hdp, if_true, hacc]
      exact start_both B l _
    refine ⟨{ hI with dt00 := ?_, dt10 := ?_, dt01 := ?_, dt11 := ?_, sph := ?_, rph := ?_, sclosed := ?_, rclosed := ?_,
                       sret := ?_, rret := ?_, sz := ?_ }, ?_⟩
    · simpa [advanceLink, hsp, hdp] using hI.sz
    · intro h; simp [advanceLink, hsp, hdp] at h
    · intro _ h; simp [advanceLink, hsp, hdp] at h
    · intro h; simp [advanceLink, hsp, hdp] at h
    · intro _ _; rw [hdt]; exact hgood
    · rw [getD_set_phase _ _ _ _ hp, if_pos hsp]; simp [advanceLink, hsp, hdp]
    · rw [getD_set_phase _ _ _ _ hp, if_pos hdp]; simp [advanceLink, hsp, hdp]
    · intro _; simpa [advanceLink, hsp, hdp] using hs hsp
    · intro _; simpa [advanceLink, hsp, hdp] using hr hdp
    · intro h; rw [getD_set_phase _ _ _ _ hp, if_pos hsp] at h; cases h
    · intro h; rw [getD_set_phase _ _ _ _ hp, if_pos hdp] at h; cases h
    · have e1 : (advanceLink B p l x).sz = x.sz := by simp [advanceLink, hsp, hdp]
      have e2 : (advanceLink B p l x).sStarted = true := by simp [advanceLink, hsp, hdp]
      have e3 : (advanceLink B p l x).rStarted = true := by simp [advanceLink, hsp, hdp]
      simp only [linkMeasure, e1, e2, e3, hdt, hs0, hr0, Bool.and_self, if_true, Bool.false_eq_true, if_false]
      omega
  · -- only the sender's side starts
    have hs0 : x.sStarted = false := by rw [hI.sph, hsp, hph]; rfl
    have hdq : (ph.set p 1).getD l.dst 3 = ph.getD l.dst 3 := by rw [getD_set_phase _ _ _ _ hp, if_neg hdp]
    have e0 : advanceLink B p l x = { x with dt := startSend B l.pair x.dt, sStarted := true } := by
      simp [advanceLink, hsp, hdp]
    rw [e0]
    refine ⟨{ hI with dt00 := ?_, dt10 := ?_, dt01 := ?_, dt11 := ?_, sph := ?_, rph := ?_, sclosed := ?_, rclosed := ?_,
                       sret := ?_, rret := ?_, sz := hI.sz }, ?_⟩
    · intro h; simp at h
    · intro _ h; simp only at h ⊢; rw [hI.dt00 hs0 h]
    · intro h; simp at h
    · intro _ h
      simp only at h ⊢
      rw [hI.dt01 hs0 h]
      exact hgood
    · rw [getD_set_phase _ _ _ _ hp, if_pos hsp]; rfl
    · rw [hdq]; exact hI.rph
    · intro _; exact hs hsp
    · intro h; exact hI.rclosed h
    · intro h; rw [getD_set_phase _ _ _ _ hp, if_pos hsp] at h; cases h
    · intro h
      rw [hdq] at h
      simpa [startSend] using hI.rret h
    · cases hrs : x.rStarted
      · simp [linkMeasure, hs0, hrs]
      · have : startSend B l.pair x.dt = (dataInit B l.pair).state := by rw [hI.dt01 hs0 hrs]; rfl
        simp only [linkMeasure, hs0, hrs, this, Bool.and_self, if_true, Bool.false_and, Bool.false_eq_true, if_false]
        omega
  · -- only the receiver's side starts
    have hr0 : x.rStarted = false := by rw [hI.rph, hdp, hph]; rfl
    have hsq : (ph.set p 1).getD l.src 3 = ph.getD l.src 3 := by rw [getD_set_phase _ _ _ _ hp, if_neg hsp]
    have hacc := sizes_complete B l.pair x.sz hI.sz (hr hdp)
    have e0 : advanceLink B p l x = { x with dt := startRecv B l.pair (l.sendIdx.map l.h.size) x.dt, rStarted := true } := by
      simp only [advanceLink, hsp, hdp, if_false, if_true, hacc]
      rfl
    rw [e0]
    refine ⟨{ hI with dt00 := ?_, dt10 := ?_, dt01 := ?_, dt11 := ?_, sph := ?_, rph := ?_, sclosed := ?_, rclosed := ?_,
                       sret := ?_, rret := ?_, sz := hI.sz }, ?_⟩
    · intro _ h; simp at h
    · intro _ h; simp at h
    · intro h _; simp only at h ⊢; rw [hI.dt00 h hr0]
    · intro h _
      simp only at h ⊢
      rw [hI.dt10 h hr0]
      exact hgood
    · rw [hsq]; exact hI.sph
    · rw [getD_set_phase _ _ _ _ hp, if_pos hdp]; rfl
    · intro h; exact hI.sclosed h
    · intro _; exact hr hdp
    · intro h
      rw [hsq] at h
      simpa [startRecv] using hI.sret h
    · intro h; rw [getD_set_phase _ _ _ _ hp, if_pos hdp] at h; cases h
    · cases hss : x.sStarted
      · simp [linkMeasure, hr0, hss]
      · have : startRecv B l.pair (l.sendIdx.map l.h.size) x.dt = (dataInit B l.pair).state := by rw [hI.dt10 hss hr0]; rfl
        simp only [linkMeasure, hr0, hss, this, Bool.and_self, if_true, Bool.and_false, Bool.false_eq_true, if_false]
        omega
  · -- a link of other ranks
    have e0 : advanceLink B p l x = x := by simp [advanceLink, hsp, hdp]
    have hsq : (ph.set p 1).getD l.src 3 = ph.getD l.src 3 := by rw [getD_set_phase _ _ _ _ hp, if_neg hsp]
    have hdq : (ph.set p 1).getD l.dst 3 = ph.getD l.dst 3 := by rw [getD_set_phase _ _ _ _ hp, if_neg hdp]
    rw [e0]
    exact ⟨{ hI with sph := by rw [hsq]; exact hI.sph, rph := by rw [hdq]; exact hI.rph,
                      sret := fun h => hI.sret (by rwa [hsq] at h), rret := fun h => hI.rret (by rwa [hdq] at h) },
      Nat.le_refl _⟩

/-- rank `p` returns -/
theorem linkInv_ret {B n : Nat} {ph : List Nat} {l : LinkSpec α} {x : LinkSt α} (p : Nat) (hp : p < ph.length)
    (hI : LinkInv B n ph l x) (hph : ph.getD p 3 = 1)
    (hs : l.src = p → x.dt.sendOpen = false) (hr : l.dst = p → x.dt.recvOpen = false) :
    LinkInv B n (ph.set p 2) l x := by
  refine { hI with sph := ?_, rph := ?_, sret := ?_, rret := ?_ }
  · by_cases h : l.src = p
    · rw [hI.sph, getD_set_phase _ _ _ _ hp, if_pos h, h, hph]; rfl
    · rw [hI.sph, getD_set_phase _ _ _ _ hp, if_neg h]
  · by_cases h : l.dst = p
    · rw [hI.rph, getD_set_phase _ _ _ _ hp, if_pos h, h, hph]; rfl
    · rw [hI.rph, getD_set_phase _ _ _ _ hp, if_neg h]
  · intro h2
    by_cases h : l.src = p
    · exact hs h
    · rw [getD_set_phase _ _ _ _ hp, if_neg h] at h2; exact hI.sret h2
  · intro h2
    by_cases h : l.dst = p
    · exact hr h
    · rw [getD_set_phase _ _ _ _ hp, if_neg h] at h2; exact hI.rret h2

end link


/-! ### the invariant of the whole system -/

section sys
variable {α : Type}

def gMeasure (specs : List (LinkSpec α)) (g : VarSys α) : Nat := sumSel linkMeasure specs g.links + phaseSum g.phase

structure VInv (B n : Nat) (specs : List (LinkSpec α)) (g : VarSys α) : Prop where
  lenP : g.phase.length = n
  lenS : g.toSend.length = n
  lenR : g.toRecv.length = n
  phle : ∀ p, p < n → g.phase.getD p 3 ≤ 2
  links : Rel2 (LinkInv B n g.phase) specs g.links
  /-- the counters of a rank in its size loop are the numbers of its size requests that are still open -/
  cnt0 : ∀ p, p < n → g.phase.getD p 3 = 0 →
    g.toSend.getD p 0 = countSel (sizeSendOpen p) specs g.links ∧ g.toRecv.getD p 0 = countSel (sizeRecvOpen p) specs g.links
  /-- … of a rank in its data loop: of its data requests -/
  cnt1 : ∀ p, p < n → g.phase.getD p 3 = 1 →
    g.toSend.getD p 0 = countSel (dataSendOpen p) specs g.links ∧ g.toRecv.getD p 0 = countSel (dataRecvOpen p) specs g.links

/-- the counter update of `checkAndContinue` keeps "counter = number of open requests" -/
theorem counters_step (sel : Nat → LinkSpec α → LinkSt α → Bool) (key : LinkSpec α → Nat) (opn : LinkSt α → Bool)
    (hsel : ∀ p l x, sel p l x = (key l == p && opn x))
    (specs : List (LinkSpec α)) (links : List (LinkSt α)) (i : Nat) (l : LinkSpec α) (x x' : LinkSt α)
    (hl : specs[i]? = some l) (hx : links[i]? = some x) (cs : List Nat) (hk : key l < cs.length) (hopen : opn x = true)
    (p : Nat) (hcnt : cs.getD p 0 = countSel (sel p) specs links) :
    (decIf (opn x && !opn x') (key l) cs).getD p 0 = countSel (sel p) specs (links.set i x') := by
  have hset := countSel_set (sel p) specs links i l x x' hl hx
  by_cases hp : key l = p
  · subst hp
    rw [getD_decIf_self _ _ _ hk, hcnt]
    simp only [hsel, beq_self_eq_true, Bool.true_and, hopen, if_true] at hset
    cases ho : opn x' with
    | true => simp only [ho, if_true] at hset; simp [hopen]; omega
    | false => simp only [ho, Bool.false_eq_true, if_false] at hset; simp [hopen]; omega
  · rw [getD_decIf_ne _ _ _ _ hp, hcnt]
    have hb : (key l == p) = false := by simpa using hp
    simp only [hsel, hb, Bool.false_and, Bool.false_eq_true, if_false] at hset
    omega

theorem counters_same (sel : LinkSpec α → LinkSt α → Bool) (specs : List (LinkSpec α)) (links : List (LinkSt α)) (i : Nat)
    (l : LinkSpec α) (x x' : LinkSt α) (hl : specs[i]? = some l) (hx : links[i]? = some x) (he : sel l x' = sel l x) :
    countSel sel specs (links.set i x') = countSel sel specs links :=
  countSel_set_same sel specs links i l x x' hl hx he

theorem advanceLink_sz (B p : Nat) (l : LinkSpec α) (x : LinkSt α) : (advanceLink B p l x).sz = x.sz := by
  unfold advanceLink
  split <;> split <;> rfl

theorem advanceLink_sendOpen (B p : Nat) (l : LinkSpec α) (x : LinkSt α) (h : l.src ≠ p) :
    (advanceLink B p l x).dt.sendOpen = x.dt.sendOpen := by
  unfold advanceLink
  simp only [h, if_false]
  split <;> simp [startRecv]

theorem advanceLink_recvOpen (B p : Nat) (l : LinkSpec α) (x : LinkSt α) (h : l.dst ≠ p) :
    (advanceLink B p l x).dt.recvOpen = x.dt.recvOpen := by
  unfold advanceLink
  simp only [h, if_false]
  split <;> simp [startSend]

/-- the state with one link replaced and counters for which "counter = number of open requests" is re-established -/
theorem vinv_replace {B n : Nat} {specs : List (LinkSpec α)} {g : VarSys α} (hI : VInv B n specs g) (i : Nat)
    (l : LinkSpec α) (x' : LinkSt α) (hl : specs[i]? = some l) (hx' : LinkInv B n g.phase l x')
    (ts tr : List Nat) (hts : ts.length = n) (htr : tr.length = n)
    (h0 : ∀ p, p < n → g.phase.getD p 3 = 0 →
      ts.getD p 0 = countSel (sizeSendOpen p) specs (g.links.set i x') ∧ tr.getD p 0 = countSel (sizeRecvOpen p) specs (g.links.set i x'))
    (h1 : ∀ p, p < n → g.phase.getD p 3 = 1 →
      ts.getD p 0 = countSel (dataSendOpen p) specs (g.links.set i x') ∧ tr.getD p 0 = countSel (dataRecvOpen p) specs (g.links.set i x')) :
    VInv B n specs { g with links := g.links.set i x', toSend := ts, toRecv := tr } :=
  { lenP := hI.lenP, lenS := hts, lenR := htr, phle := hI.phle, links := hI.links.set i l x' hl hx', cnt0 := h0, cnt1 := h1 }

theorem gMeasure_replace (specs : List (LinkSpec α)) (g : VarSys α) (i : Nat) (l : LinkSpec α) (x x' : LinkSt α)
    (hl : specs[i]? = some l) (hx : g.links[i]? = some x) (ts tr : List Nat) (hlt : linkMeasure l x' < linkMeasure l x) :
    gMeasure specs { g with links := g.links.set i x', toSend := ts, toRecv := tr } < gMeasure specs g := by
  have := sumSel_set linkMeasure specs g.links i l x x' hl hx
  simp only [gMeasure]
  omega

/-- every step keeps the invariant and decreases the measure -/
theorem vstep_inv {B n : Nat} (hB : 0 < B) {specs : List (LinkSpec α)} {g g' : VarSys α} (hI : VInv B n specs g)
    (a : GAct) (hs : varStep B specs g a = some g') : VInv B n specs g' ∧ gMeasure specs g' < gMeasure specs g := by
  cases a with
  | size i act =>
    simp only [varStep] at hs
    split at hs
    rotate_left
    · cases hs
    rename_i l x hl hx
    have hL := hI.links.2 i l x hl hx
    cases act with
    | deliver =>
      simp only at hs
      cases hst : Pair.step (sizeCfg l.pair) x.sz .deliver with
      | none => simp [hst] at hs
      | some s' =>
        simp only [hst, Option.map_some, Option.some.injEq] at hs
        subst hs
        obtain ⟨hL', hm⟩ := linkInv_size_step hB hL _ s' hst
        obtain ⟨_, _, hso, hro, _⟩ := step_deliver_inv _ _ _ hst
        refine ⟨vinv_replace hI i l _ hl hL' g.toSend g.toRecv hI.lenS hI.lenR ?_ ?_, ?_⟩
        · intro p hp hph
          obtain ⟨c1, c2⟩ := hI.cnt0 p hp hph
          rw [counters_same (sizeSendOpen p) specs g.links i l x { x with sz := s' } hl hx (by simp [sizeSendOpen, hso]),
            counters_same (sizeRecvOpen p) specs g.links i l x { x with sz := s' } hl hx (by simp [sizeRecvOpen, hro])]
          exact ⟨c1, c2⟩
        · intro p hp hph
          obtain ⟨c1, c2⟩ := hI.cnt1 p hp hph
          rw [counters_same (dataSendOpen p) specs g.links i l x { x with sz := s' } hl hx rfl,
            counters_same (dataRecvOpen p) specs g.links i l x { x with sz := s' } hl hx rfl]
          exact ⟨c1, c2⟩
        · exact gMeasure_replace specs g i l x { x with sz := s' } hl hx _ _ (by simp only [linkMeasure]; omega)
    | sendDone =>
      simp only at hs
      split at hs
      rotate_left
      · cases hs
      rename_i hguard
      cases hst : Pair.step (sizeCfg l.pair) x.sz .sendDone with
      | none => simp [hst] at hs
      | some s' =>
        simp only [hst, Option.map_some, Option.some.injEq] at hs
        subst hs
        obtain ⟨hL', hm⟩ := linkInv_size_step hB hL _ s' hst
        obtain ⟨hcomp, hro, _, _, _⟩ := step_sendDone_inv _ _ _ hst
        have hopen : x.sz.sendOpen = true := pinv_complete_sendOpen x.sz hL.sz.2.2 hcomp
        have hk : l.src < g.toSend.length := by rw [hI.lenS]; exact hL.src_lt
        refine ⟨vinv_replace hI i l _ hl hL' _ g.toRecv (by rw [length_decIf]; exact hI.lenS) hI.lenR ?_ ?_, ?_⟩
        · intro p hp hph
          obtain ⟨c1, c2⟩ := hI.cnt0 p hp hph
          refine ⟨counters_step sizeSendOpen (·.src) (·.sz.sendOpen) (fun _ _ _ => rfl) specs g.links i l x { x with sz := s' } hl hx
            g.toSend hk hopen p c1, ?_⟩
          rw [counters_same (sizeRecvOpen p) specs g.links i l x { x with sz := s' } hl hx (by simp [sizeRecvOpen, hro])]
          exact c2
        · intro p hp hph
          obtain ⟨c1, c2⟩ := hI.cnt1 p hp hph
          have hne : l.src ≠ p := by intro e; rw [← e, hguard.1] at hph; cases hph
          rw [getD_decIf_ne _ _ _ _ hne, counters_same (dataSendOpen p) specs g.links i l x { x with sz := s' } hl hx rfl,
            counters_same (dataRecvOpen p) specs g.links i l x { x with sz := s' } hl hx rfl]
          exact ⟨c1, c2⟩
        · exact gMeasure_replace specs g i l x { x with sz := s' } hl hx _ _ (by simp only [linkMeasure]; omega)
    | recvDone =>
      simp only at hs
      split at hs
      rotate_left
      · cases hs
      rename_i hguard
      cases hst : Pair.step (sizeCfg l.pair) x.sz .recvDone with
      | none => simp [hst] at hs
      | some s' =>
        simp only [hst, Option.map_some, Option.some.injEq] at hs
        subst hs
        obtain ⟨hL', hm⟩ := linkInv_size_step hB hL _ s' hst
        obtain ⟨⟨m, hcomp⟩, hso, _, _, _⟩ := step_recvDone_inv _ _ _ hst
        have hopen : x.sz.recvOpen = true := pinv_complete_recvOpen x.sz hL.sz.2.2 m hcomp
        have hk : l.dst < g.toRecv.length := by rw [hI.lenR]; exact hL.dst_lt
        refine ⟨vinv_replace hI i l _ hl hL' g.toSend _ hI.lenS (by rw [length_decIf]; exact hI.lenR) ?_ ?_, ?_⟩
        · intro p hp hph
          obtain ⟨c1, c2⟩ := hI.cnt0 p hp hph
          refine ⟨?_, counters_step sizeRecvOpen (·.dst) (·.sz.recvOpen) (fun _ _ _ => rfl) specs g.links i l x { x with sz := s' } hl hx
            g.toRecv hk hopen p c2⟩
          rw [counters_same (sizeSendOpen p) specs g.links i l x { x with sz := s' } hl hx (by simp [sizeSendOpen, hso])]
          exact c1
        · intro p hp hph
          obtain ⟨c1, c2⟩ := hI.cnt1 p hp hph
          have hne : l.dst ≠ p := by intro e; rw [← e, hguard.1] at hph; cases hph
          rw [getD_decIf_ne _ _ _ _ hne, counters_same (dataSendOpen p) specs g.links i l x { x with sz := s' } hl hx rfl,
            counters_same (dataRecvOpen p) specs g.links i l x { x with sz := s' } hl hx rfl]
          exact ⟨c1, c2⟩
        · exact gMeasure_replace specs g i l x { x with sz := s' } hl hx _ _ (by simp only [linkMeasure]; omega)
  | data i act =>
    simp only [varStep] at hs
    split at hs
    rotate_left
    · cases hs
    rename_i l x hl hx
    have hL := hI.links.2 i l x hl hx
    cases act with
    | deliver =>
      simp only at hs
      split at hs
      rotate_left
      · cases hs
      cases hst : Pair.step (dataCfg l.pair) x.dt .deliver with
      | none => simp [hst] at hs
      | some s' =>
        simp only [hst, Option.map_some, Option.some.injEq] at hs
        subst hs
        obtain ⟨hss, hrs, hL', hm⟩ := linkInv_data_step hL _ s' hst
        obtain ⟨_, _, hso, hro, _⟩ := step_deliver_inv _ _ _ hst
        refine ⟨vinv_replace hI i l _ hl hL' g.toSend g.toRecv hI.lenS hI.lenR ?_ ?_, ?_⟩
        · intro p hp hph
          obtain ⟨c1, c2⟩ := hI.cnt0 p hp hph
          rw [counters_same (sizeSendOpen p) specs g.links i l x { x with dt := s' } hl hx rfl,
            counters_same (sizeRecvOpen p) specs g.links i l x { x with dt := s' } hl hx rfl]
          exact ⟨c1, c2⟩
        · intro p hp hph
          obtain ⟨c1, c2⟩ := hI.cnt1 p hp hph
          rw [counters_same (dataSendOpen p) specs g.links i l x { x with dt := s' } hl hx (by simp [dataSendOpen, hso]),
            counters_same (dataRecvOpen p) specs g.links i l x { x with dt := s' } hl hx (by simp [dataRecvOpen, hro])]
          exact ⟨c1, c2⟩
        · exact gMeasure_replace specs g i l x { x with dt := s' } hl hx _ _ (by simp only [linkMeasure, hss, hrs, Bool.and_self, if_true]; omega)
    | sendDone =>
      simp only at hs
      split at hs
      rotate_left
      · cases hs
      rename_i hguard
      cases hst : Pair.step (dataCfg l.pair) x.dt .sendDone with
      | none => simp [hst] at hs
      | some s' =>
        simp only [hst, Option.map_some, Option.some.injEq] at hs
        subst hs
        obtain ⟨hss, hrs, hL', hm⟩ := linkInv_data_step hL _ s' hst
        obtain ⟨hcomp, hro, _, _, _⟩ := step_sendDone_inv _ _ _ hst
        have hopen : x.dt.sendOpen = true := pinv_complete_sendOpen x.dt (hL.dt11 hss hrs).2.2.2 hcomp
        have hk : l.src < g.toSend.length := by rw [hI.lenS]; exact hL.src_lt
        refine ⟨vinv_replace hI i l _ hl hL' _ g.toRecv (by rw [length_decIf]; exact hI.lenS) hI.lenR ?_ ?_, ?_⟩
        · intro p hp hph
          obtain ⟨c1, c2⟩ := hI.cnt0 p hp hph
          have hne : l.src ≠ p := by intro e; rw [← e, hguard.1] at hph; cases hph
          rw [getD_decIf_ne _ _ _ _ hne, counters_same (sizeSendOpen p) specs g.links i l x { x with dt := s' } hl hx rfl,
            counters_same (sizeRecvOpen p) specs g.links i l x { x with dt := s' } hl hx rfl]
          exact ⟨c1, c2⟩
        · intro p hp hph
          obtain ⟨c1, c2⟩ := hI.cnt1 p hp hph
          refine ⟨counters_step dataSendOpen (·.src) (·.dt.sendOpen) (fun _ _ _ => rfl) specs g.links i l x { x with dt := s' } hl hx
            g.toSend hk hopen p c1, ?_⟩
          rw [counters_same (dataRecvOpen p) specs g.links i l x { x with dt := s' } hl hx (by simp [dataRecvOpen, hro])]
          exact c2
        · exact gMeasure_replace specs g i l x { x with dt := s' } hl hx _ _ (by simp only [linkMeasure, hss, hrs, Bool.and_self, if_true]; omega)
    | recvDone =>
      simp only at hs
      split at hs
      rotate_left
      · cases hs
      rename_i hguard
      cases hst : Pair.step (dataCfg l.pair) x.dt .recvDone with
      | none => simp [hst] at hs
      | some s' =>
        simp only [hst, Option.map_some, Option.some.injEq] at hs
        subst hs
        obtain ⟨hss, hrs, hL', hm⟩ := linkInv_data_step hL _ s' hst
        obtain ⟨⟨m, hcomp⟩, hso, _, _, _⟩ := step_recvDone_inv _ _ _ hst
        have hopen : x.dt.recvOpen = true := pinv_complete_recvOpen x.dt (hL.dt11 hss hrs).2.2.2 m hcomp
        have hk : l.dst < g.toRecv.length := by rw [hI.lenR]; exact hL.dst_lt
        refine ⟨vinv_replace hI i l _ hl hL' g.toSend _ hI.lenS (by rw [length_decIf]; exact hI.lenR) ?_ ?_, ?_⟩
        · intro p hp hph
          obtain ⟨c1, c2⟩ := hI.cnt0 p hp hph
          have hne : l.dst ≠ p := by intro e; rw [← e, hguard.1] at hph; cases hph
          rw [getD_decIf_ne _ _ _ _ hne, counters_same (sizeSendOpen p) specs g.links i l x { x with dt := s' } hl hx rfl,
            counters_same (sizeRecvOpen p) specs g.links i l x { x with dt := s' } hl hx rfl]
          exact ⟨c1, c2⟩
        · intro p hp hph
          obtain ⟨c1, c2⟩ := hI.cnt1 p hp hph
          refine ⟨?_, counters_step dataRecvOpen (·.dst) (·.dt.recvOpen) (fun _ _ _ => rfl) specs g.links i l x { x with dt := s' } hl hx
            g.toRecv hk hopen p c2⟩
          rw [counters_same (dataSendOpen p) specs g.links i l x { x with dt := s' } hl hx (by simp [dataSendOpen, hso])]
          exact c1
        · exact gMeasure_replace specs g i l x { x with dt := s' } hl hx _ _ (by simp only [linkMeasure, hss, hrs, Bool.and_self, if_true]; omega)
  | advance p =>
    simp only [varStep] at hs
    split at hs
    rotate_left
    · cases hs
    rename_i hguard
    obtain ⟨hpl, hph, hzero⟩ := hguard
    simp only [Option.some.injEq] at hs
    subst hs
    have hpn : p < n := by rw [← hI.lenP]; exact hpl
    obtain ⟨c1, c2⟩ := hI.cnt0 p hpn hph
    have hz1 : countSel (sizeSendOpen p) specs g.links = 0 := by omega
    have hz2 : countSel (sizeRecvOpen p) specs g.links = 0 := by omega
    -- the links with the closedness the guard implies
    have hrel : Rel2 (fun l x => LinkInv B n g.phase l x ∧ (l.src = p → x.sz.sendOpen = false) ∧
        (l.dst = p → x.sz.recvOpen = false)) specs g.links := by
      refine ⟨hI.links.1, fun i l x hl hx => ⟨hI.links.2 i l x hl hx, ?_, ?_⟩⟩
      · intro e
        have := countSel_zero_get _ specs g.links hz1 i l x hl hx
        simpa [sizeSendOpen, e] using this
      · intro e
        have := countSel_zero_get _ specs g.links hz2 i l x hl hx
        simpa [sizeRecvOpen, e] using this
    have hlinks : Rel2 (LinkInv B n (g.phase.set p 1)) specs (List.zipWith (advanceLink B p) specs g.links) :=
      hrel.zipWith (advanceLink B p) (fun l x h => (linkInv_advance p hpl h.1 hph h.2.1 h.2.2).1)
    have hsum : sumSel linkMeasure specs (List.zipWith (advanceLink B p) specs g.links) ≤ sumSel linkMeasure specs g.links :=
      sumSel_zipWith_le linkMeasure (advanceLink B p) (fun l x h => (linkInv_advance p hpl h.1 hph h.2.1 h.2.2).2)
        specs g.links hrel
    refine ⟨{ lenP := by simpa using hI.lenP, lenS := by simpa using hI.lenS, lenR := by simpa using hI.lenR,
              phle := ?_, links := hlinks, cnt0 := ?_, cnt1 := ?_ }, ?_⟩
    · intro q hq
      rw [getD_set_phase _ _ _ _ hpl]
      split
      · omega
      · exact hI.phle q hq
    · intro q hq hqph
      rw [getD_set_phase _ _ _ _ hpl] at hqph
      split at hqph
      · cases hqph
      · rename_i hne
        obtain ⟨d1, d2⟩ := hI.cnt0 q hq hqph
        simp only
        rw [getD_set_ne _ _ _ _ _ (Ne.symm hne), getD_set_ne _ _ _ _ _ (Ne.symm hne),
          countSel_zipWith (sizeSendOpen q) (advanceLink B p) (fun l x => by simp [sizeSendOpen, advanceLink_sz]),
          countSel_zipWith (sizeRecvOpen q) (advanceLink B p) (fun l x => by simp [sizeRecvOpen, advanceLink_sz])]
        exact ⟨d1, d2⟩
    · intro q hq hqph
      rw [getD_set_phase _ _ _ _ hpl] at hqph
      simp only
      by_cases hqp : q = p
      · subst hqp
        rw [getD_set_self _ _ _ _ (by rw [hI.lenS]; exact hpn), getD_set_self _ _ _ _ (by rw [hI.lenR]; exact hpn)]
        exact ⟨rfl, rfl⟩
      · simp only [hqp, if_false] at hqph
        obtain ⟨d1, d2⟩ := hI.cnt1 q hq hqph
        rw [getD_set_ne _ _ _ _ _ (Ne.symm hqp), getD_set_ne _ _ _ _ _ (Ne.symm hqp),
          countSel_zipWith (dataSendOpen q) (advanceLink B p) (fun l x => by
            simp only [dataSendOpen]
            by_cases hs : l.src = q
            · rw [advanceLink_sendOpen B p l x (by rw [hs]; exact hqp)]
            · have : (l.src == q) = false := by simpa using hs
              simp [this]),
          countSel_zipWith (dataRecvOpen q) (advanceLink B p) (fun l x => by
            simp only [dataRecvOpen]
            by_cases hs : l.dst = q
            · rw [advanceLink_recvOpen B p l x (by rw [hs]; exact hqp)]
            · have : (l.dst == q) = false := by simpa using hs
              simp [this])]
        exact ⟨d1, d2⟩
    · have := phaseSum_set g.phase p 1 hpl
      rw [hph] at this
      simp only [gMeasure]
      omega
  | ret p =>
    simp only [varStep] at hs
    split at hs
    rotate_left
    · cases hs
    rename_i hguard
    obtain ⟨hpl, hph, hzero⟩ := hguard
    simp only [Option.some.injEq] at hs
    subst hs
    have hpn : p < n := by rw [← hI.lenP]; exact hpl
    obtain ⟨c1, c2⟩ := hI.cnt1 p hpn hph
    have hz1 : countSel (dataSendOpen p) specs g.links = 0 := by omega
    have hz2 : countSel (dataRecvOpen p) specs g.links = 0 := by omega
    have hlinks : Rel2 (LinkInv B n (g.phase.set p 2)) specs g.links := by
      refine ⟨hI.links.1, fun i l x hl hx => linkInv_ret p hpl (hI.links.2 i l x hl hx) hph ?_ ?_⟩
      · intro e
        have := countSel_zero_get _ specs g.links hz1 i l x hl hx
        simpa [dataSendOpen, e] using this
      · intro e
        have := countSel_zero_get _ specs g.links hz2 i l x hl hx
        simpa [dataRecvOpen, e] using this
    refine ⟨{ lenP := by simpa using hI.lenP, lenS := hI.lenS, lenR := hI.lenR, phle := ?_, links := hlinks,
              cnt0 := ?_, cnt1 := ?_ }, ?_⟩
    · intro q hq
      rw [getD_set_phase _ _ _ _ hpl]
      split
      · omega
      · exact hI.phle q hq
    · intro q hq hqph
      rw [getD_set_phase _ _ _ _ hpl] at hqph
      split at hqph
      · cases hqph
      · exact hI.cnt0 q hq hqph
    · intro q hq hqph
      rw [getD_set_phase _ _ _ _ hpl] at hqph
      split at hqph
      · cases hqph
      · exact hI.cnt1 q hq hqph
    · have := phaseSum_set g.phase p 2 hpl
      rw [hph] at this
      simp only [gMeasure]
      omega

end sys


/-! ### initial state, executions, no cross-phase matching, maximal executions -/

section main
variable {α : Type}

/-- what the theorems assume about the links: ranks in range, matching list lengths, every index fits into the buffer -/
def ValidLinks (B n : Nat) (specs : List (LinkSpec α)) : Prop :=
  ∀ l ∈ specs, l.src < n ∧ l.dst < n ∧ l.recvIdx.length = l.sendIdx.length ∧ ∀ i ∈ l.sendIdx, l.h.size i ≤ B

theorem getD_replicate_zero (n p : Nat) (hp : p < n) : (List.replicate n 0).getD p 3 = 0 := by
  simp [List.getD_eq_getElem?_getD, hp]

theorem varInit_inv (B n : Nat) (hB : 0 < B) (specs : List (LinkSpec α)) (hv : ValidLinks B n specs) :
    VInv B n specs (varInit B n specs) := by
  refine { lenP := by simp [varInit], lenS := by simp [varInit], lenR := by simp [varInit], phle := ?_, links := ?_,
           cnt0 := ?_, cnt1 := ?_ }
  · intro p hp
    simp only [varInit]
    rw [getD_replicate_zero n p hp]
    omega
  · simp only [varInit]
    refine Rel2.of_map _ specs (fun l hl => ?_)
    obtain ⟨h1, h2, h3, h4⟩ := hv l hl
    exact { src_lt := h1, dst_lt := h2, fit := h4, sz := sizeInit_good B hB l.pair h3,
            dt00 := fun _ _ => rfl, dt10 := fun h => (by cases h), dt01 := fun _ h => (by cases h),
            dt11 := fun h => (by cases h),
            sph := (by rw [getD_replicate_zero n l.src h1]; rfl), rph := (by rw [getD_replicate_zero n l.dst h2]; rfl),
            sclosed := fun h => (by cases h), rclosed := fun h => (by cases h),
            sret := fun h => (by rw [getD_replicate_zero n l.src h1] at h; cases h),
            rret := fun h => (by rw [getD_replicate_zero n l.dst h2] at h; cases h) }
  · intro p hp _
    simp only [varInit]
    exact ⟨getD_range_map _ n p hp, getD_range_map _ n p hp⟩
  · intro p hp h
    simp only [varInit] at h
    rw [getD_replicate_zero n p hp] at h
    cases h

theorem varInit_measure (B n : Nat) (hB : 0 < B) (specs : List (LinkSpec α)) :
    gMeasure specs (varInit B n specs) ≤ (specs.map fun l => 2 * (3 * (l.sendIdx.length + l.recvIdx.length) + 4)).sum + 2 * n := by
  have h1 := sumSel_map_le linkMeasure
    (fun l => ({ sz := (sizeInit B l.pair).state, dt := Pair.blank [], sStarted := false, rStarted := false } : LinkSt α))
    (fun l => 2 * (3 * (l.sendIdx.length + l.recvIdx.length) + 4)) specs (fun l _ => by
      have h' : (sizeInit B l.pair).state.measure ≤ 3 * (l.sendIdx.length + l.recvIdx.length) + 4 :=
        sizeInit_measure_le B hB l.pair
      simp only [linkMeasure, Bool.false_and, Bool.false_eq_true, if_false]
      omega)
  simp only [gMeasure, varInit, phaseSum_replicate]
  omega

theorem vexec_inv {B n : Nat} (hB : 0 < B) {specs : List (LinkSpec α)} : ∀ (sched : List GAct) (g g' : VarSys α),
    VInv B n specs g → varExec B specs g sched = some g' →
    VInv B n specs g' ∧ sched.length + gMeasure specs g' ≤ gMeasure specs g := by
  intro sched
  induction sched with
  | nil => intro g g' hI he; simp [varExec] at he; subst he; exact ⟨hI, by simp⟩
  | cons a sched ih =>
    intro g g' hI he
    simp only [varExec] at he
    cases hst : varStep B specs g a with
    | none => simp [hst] at he
    | some g1 =>
      simp only [hst, Option.bind_some] at he
      obtain ⟨hI1, hm1⟩ := vstep_inv hB hI a hst
      obtain ⟨hI', hm'⟩ := ih g1 g' hI1 he
      exact ⟨hI', by simp; omega⟩

/-- size messages and data messages of a link are never matched with a receive of the other phase -/
theorem linkInv_not_confusable {B n : Nat} {ph : List Nat} {l : LinkSpec α} {x : LinkSt α} (hI : LinkInv B n ph l x) :
    x.confusable = false := by
  have h1 : (!x.sz.chan.isEmpty && x.dt.rreq.isPosted) = false := by
    rcases Bool.eq_false_or_eq_true x.rStarted with hr | hr
    · have := (pinv_recvClosed x.sz hI.sz.2.2 (hI.rclosed hr)).2.1
      simp [this]
    · rcases Bool.eq_false_or_eq_true x.sStarted with hs | hs
      · simp [hI.dt10 hs hr, startSend, Pair.blank, RecvReq.isPosted]
      · simp [hI.dt00 hs hr, Pair.blank, RecvReq.isPosted]
  have h2 : (x.sz.chan.isEmpty && !x.dt.chan.isEmpty && x.sz.rreq.isPosted) = false := by
    rcases Bool.eq_false_or_eq_true x.sStarted with hs | hs
    · have := (pinv_sendClosed x.sz hI.sz.2.2 (hI.sclosed hs)).2.2
      simp [this]
    · rcases Bool.eq_false_or_eq_true x.rStarted with hr | hr
      · simp [hI.dt01 hs hr, startRecv, Pair.blank]
      · simp [hI.dt00 hs hr, Pair.blank]
  simp [LinkSt.confusable, h1, h2]

theorem phase_cases {B n : Nat} {specs : List (LinkSpec α)} {g : VarSys α} (hI : VInv B n specs g) (p : Nat) (hp : p < n) :
    g.phase.getD p 3 = 0 ∨ g.phase.getD p 3 = 1 ∨ g.phase.getD p 3 = 2 := by
  have := hI.phle p hp
  omega

/-- a state in which no action is enabled: every rank has returned, every machine is final, and every link has
    scattered what `callsOf` says -/
theorem vstuck_final {B n : Nat} (hB : 0 < B) {specs : List (LinkSpec α)} {g : VarSys α} (hI : VInv B n specs g)
    (hstuck : ∀ a, varStep B specs g a = none) :
    (∀ p, p < n → g.phase.getD p 3 = 2) ∧
    (∀ (i : Nat) l x, specs[i]? = some l → g.links[i]? = some x →
      x.sz.final = true ∧ x.dt.final = true ∧ x.dt.acc = callsOf l.h l.sendIdx l.recvIdx) := by
  -- 1. every size machine is stuck, hence final
  have hszfinal : ∀ (i : Nat) l x, specs[i]? = some l → g.links[i]? = some x → x.sz.final = true := by
    intro i l x hl hx
    have hL := hI.links.2 i l x hl hx
    refine (goodSize_closed B hB).stuck l.pair ⟨sizeCfg l.pair, x.sz⟩ hL.sz (fun act => ?_)
    cases hst : Pair.step (sizeCfg l.pair) x.sz act with
    | none => rfl
    | some s' =>
      exfalso
      cases act with
      | deliver =>
        have := hstuck (.size i .deliver)
        simp [varStep, hl, hx, hst] at this
      | sendDone =>
        obtain ⟨hcomp, _⟩ := step_sendDone_inv _ _ _ hst
        have hopen : x.sz.sendOpen = true := pinv_complete_sendOpen x.sz hL.sz.2.2 hcomp
        have hns : x.sStarted = false := by
          rcases Bool.eq_false_or_eq_true x.sStarted with h | h
          · rw [hL.sclosed h] at hopen; cases hopen
          · exact h
        have hph : g.phase.getD l.src 3 = 0 := by
          have := hL.sph
          rw [hns] at this
          have := of_decide_eq_false this.symm
          omega
        have hcnt := (hI.cnt0 l.src hL.src_lt hph).1
        have hpos := countSel_pos (sizeSendOpen l.src) specs g.links i l x hl hx (by simp [sizeSendOpen, hopen])
        have := hstuck (.size i .sendDone)
        simp only [varStep, hl, hx, hst] at this
        rw [if_pos ⟨hph, by omega⟩] at this
        simp at this
      | recvDone =>
        obtain ⟨⟨m, hcomp⟩, _⟩ := step_recvDone_inv _ _ _ hst
        have hopen : x.sz.recvOpen = true := pinv_complete_recvOpen x.sz hL.sz.2.2 m hcomp
        have hns : x.rStarted = false := by
          rcases Bool.eq_false_or_eq_true x.rStarted with h | h
          · rw [hL.rclosed h] at hopen; cases hopen
          · exact h
        have hph : g.phase.getD l.dst 3 = 0 := by
          have := hL.rph
          rw [hns] at this
          have := of_decide_eq_false this.symm
          omega
        have hcnt := (hI.cnt0 l.dst hL.dst_lt hph).2
        have hpos := countSel_pos (sizeRecvOpen l.dst) specs g.links i l x hl hx (by simp [sizeRecvOpen, hopen])
        have := hstuck (.size i .recvDone)
        simp only [varStep, hl, hx, hst] at this
        rw [if_pos ⟨hph, by omega⟩] at this
        simp at this
  have hszclosed : ∀ (i : Nat) l x, specs[i]? = some l → g.links[i]? = some x →
      x.sz.sendOpen = false ∧ x.sz.recvOpen = false ∧ x.sz.chan.isEmpty = true := by
    intro i l x hl hx
    have := hszfinal i l x hl hx
    simp only [Pair.final, Bool.and_eq_true, Bool.not_eq_eq_eq_not, Bool.not_true] at this
    exact ⟨this.1.1.1.1, this.1.1.1.2, this.1.1.2⟩
  -- 2. no rank is still in its size loop
  have hph0 : ∀ p, p < n → g.phase.getD p 3 ≠ 0 := by
    intro p hp h0
    obtain ⟨c1, c2⟩ := hI.cnt0 p hp h0
    have z1 : countSel (sizeSendOpen p) specs g.links = 0 :=
      countSel_all_false _ specs g.links (fun i l x hl hx => by simp [sizeSendOpen, (hszclosed i l x hl hx).1])
    have z2 : countSel (sizeRecvOpen p) specs g.links = 0 :=
      countSel_all_false _ specs g.links (fun i l x hl hx => by simp [sizeRecvOpen, (hszclosed i l x hl hx).2.1])
    have := hstuck (.advance p)
    simp only [varStep] at this
    rw [if_pos ⟨by rw [hI.lenP]; exact hp, h0, by omega⟩] at this
    cases this
  -- 3. hence both sides of every data machine have started; every data machine is stuck, hence final
  have hdt : ∀ (i : Nat) l x, specs[i]? = some l → g.links[i]? = some x →
      x.dt.final = true ∧ x.dt.acc = callsOf l.h l.sendIdx l.recvIdx := by
    intro i l x hl hx
    have hL := hI.links.2 i l x hl hx
    have hss : x.sStarted = true := by
      rw [hL.sph]
      have := hph0 l.src hL.src_lt
      exact decide_eq_true (by omega)
    have hrs : x.rStarted = true := by
      rw [hL.rph]
      have := hph0 l.dst hL.dst_lt
      exact decide_eq_true (by omega)
    have hG := hL.dt11 hss hrs
    have hfin : x.dt.final = true := by
      refine (goodData_closed B).stuck l.pair ⟨dataCfg l.pair, x.dt⟩ hG (fun act => ?_)
      cases hst : Pair.step (dataCfg l.pair) x.dt act with
      | none => rfl
      | some s' =>
        exfalso
        cases act with
        | deliver =>
          have := hstuck (.data i .deliver)
          simp [varStep, hl, hx, hst, (hszclosed i l x hl hx).2.2] at this
        | sendDone =>
          obtain ⟨hcomp, _⟩ := step_sendDone_inv _ _ _ hst
          have hopen : x.dt.sendOpen = true := pinv_complete_sendOpen x.dt hG.2.2.2 hcomp
          have hph : g.phase.getD l.src 3 = 1 := by
            rcases phase_cases hI l.src hL.src_lt with h | h | h
            · exact absurd h (hph0 l.src hL.src_lt)
            · exact h
            · rw [hL.sret h] at hopen; cases hopen
          have hcnt := (hI.cnt1 l.src hL.src_lt hph).1
          have hpos := countSel_pos (dataSendOpen l.src) specs g.links i l x hl hx (by simp [dataSendOpen, hopen])
          have := hstuck (.data i .sendDone)
          simp only [varStep, hl, hx, hst] at this
          rw [if_pos ⟨hph, by omega⟩] at this
          simp at this
        | recvDone =>
          obtain ⟨⟨m, hcomp⟩, _⟩ := step_recvDone_inv _ _ _ hst
          have hopen : x.dt.recvOpen = true := pinv_complete_recvOpen x.dt hG.2.2.2 m hcomp
          have hph : g.phase.getD l.dst 3 = 1 := by
            rcases phase_cases hI l.dst hL.dst_lt with h | h | h
            · exact absurd h (hph0 l.dst hL.dst_lt)
            · exact h
            · rw [hL.rret h] at hopen; cases hopen
          have hcnt := (hI.cnt1 l.dst hL.dst_lt hph).2
          have hpos := countSel_pos (dataRecvOpen l.dst) specs g.links i l x hl hx (by simp [dataRecvOpen, hopen])
          have := hstuck (.data i .recvDone)
          simp only [varStep, hl, hx, hst] at this
          rw [if_pos ⟨hph, by omega⟩] at this
          simp at this
    exact ⟨hfin, goodData_final_acc B l.pair ⟨dataCfg l.pair, x.dt⟩ hG hfin⟩
  -- 4. no rank is still in its data loop
  refine ⟨fun p hp => ?_, fun i l x hl hx => ⟨hszfinal i l x hl hx, (hdt i l x hl hx).1, (hdt i l x hl hx).2⟩⟩
  rcases phase_cases hI p hp with h | h | h
  · exact absurd h (hph0 p hp)
  · exfalso
    obtain ⟨c1, c2⟩ := hI.cnt1 p hp h
    have hclosed : ∀ (i : Nat) l x, specs[i]? = some l → g.links[i]? = some x →
        x.dt.sendOpen = false ∧ x.dt.recvOpen = false := by
      intro i l x hl hx
      have := (hdt i l x hl hx).1
      simp only [Pair.final, Bool.and_eq_true, Bool.not_eq_eq_eq_not, Bool.not_true] at this
      exact ⟨this.1.1.1.1, this.1.1.1.2⟩
    have z1 : countSel (dataSendOpen p) specs g.links = 0 :=
      countSel_all_false _ specs g.links (fun i l x hl hx => by simp [dataSendOpen, (hclosed i l x hl hx).1])
    have z2 : countSel (dataRecvOpen p) specs g.links = 0 :=
      countSel_all_false _ specs g.links (fun i l x hl hx => by simp [dataRecvOpen, (hclosed i l x hl hx).2])
    have := hstuck (.ret p)
    simp only [varStep] at this
    rw [if_pos ⟨by rw [hI.lenP]; exact hp, h, by omega⟩] at this
    cases this
  · exact h

end main

end DV.C06
