import DuneVerif.Model.C02Top
import DuneVerif.Proofs.C02Closed
import DuneVerif.Proofs.C02Minor
import DuneVerif.Proofs.C02Main
/-! C02 helpers for the top-level theorems: how the size dispatch of `determinant / solve / invert` unfolds, and the
generated result records seen as Mathlib vectors / matrices. -/
namespace DV.C02
open Matrix
set_option linter.unusedSectionVars false

variable {K Q : Type} [Field K] [LinearOrder Q] [Zero Q]

theorem vecOf1_f (r : Gen.V1 K) : (vecOf1 r).f = v1 r := by
  funext i; fin_cases i; simp [vecOf1, v1]
theorem vecOf2_f (r : Gen.V2 K) : (vecOf2 r).f = v2 r := by
  funext i; fin_cases i <;> simp [vecOf2, v2]
theorem vecOf3_f (r : Gen.V3 K) : (vecOf3 r).f = v3 r := by
  funext i; fin_cases i <;> simp [vecOf3, v3]
theorem toMatrix_matOf1 (r : Gen.M1 K) : toMatrix (matOf1 r) = m1 r := by
  ext i j; fin_cases i; fin_cases j; simp [matOf1, m1, toMatrix]
theorem toMatrix_matOf2 (r : Gen.M2 K) : toMatrix (matOf2 r) = m2 r := by
  ext i j; fin_cases i <;> fin_cases j <;> simp [matOf2, m2, toMatrix]
theorem toMatrix_matOf3 (r : Gen.M3 K) : toMatrix (matOf3 r) = m3 r := by
  ext i j; fin_cases i <;> fin_cases j <;> simp [matOf3, m3, toMatrix]

/-- all leading principal minors nonzero ⇒ the matrix is nonsingular (the last one is the determinant; shown here
through the unpivoted decomposition, which then runs through) -/
theorem det_ne_zero_of_minors {n : Nat} {absval : K → Q} (habs : AbsLike absval) (A : Mat n K)
    (hmin : ∀ k : Fin n, leadingMinor A k ≠ 0) : (toMatrix A).det ≠ 0 := by
  have hok := (nopivot_ok_iff_minors habs detFunc A (1 : K)).mpr hmin
  obtain ⟨σ, hA, _⟩ := (lu_det_run false habs A).1 hok
  exact AInv_det_ne_zero hA

end DV.C02
