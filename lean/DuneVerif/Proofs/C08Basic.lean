import Mathlib.Analysis.Real.Sqrt
import Mathlib.Tactic.Ring
import Mathlib.Tactic.Linarith
import Mathlib.Tactic.FieldSimp
import Mathlib.Tactic.LinearCombination
import DuneVerif.Model.C08
/-!
# C08 — specification vocabulary and helper lemmas over ℝ

The model of `Model/C08.lean` instantiated at `K := ℝ`, `sqrt := Real.sqrt`.
-/
namespace DV.C08

/-! ## specification vocabulary -/

/-- symmetric 2x2 matrix -/
def Sym2 (A : M2 ℝ) : Prop := A.a10 = A.a01

/-- characteristic polynomial of a 2x2 matrix, `det (t I - A)` -/
def charPoly2 (A : M2 ℝ) (t : ℝ) : ℝ := t * t - (A.a00 + A.a11) * t + (A.a00 * A.a11 - A.a01 * A.a10)

def mulVec2 (A : M2 ℝ) (v : V2 ℝ) : V2 ℝ := ⟨A.a00 * v.x + A.a01 * v.y, A.a10 * v.x + A.a11 * v.y⟩

def smulV2 (l : ℝ) (v : V2 ℝ) : V2 ℝ := ⟨l * v.x, l * v.y⟩

def dot2 (u v : V2 ℝ) : ℝ := u.x * v.x + u.y * v.y

/-- symmetric 3x3 matrix -/
def Sym3 (A : M3 ℝ) : Prop := A.a10 = A.a01 ∧ A.a20 = A.a02 ∧ A.a21 = A.a12

def row0 (A : M3 ℝ) : V3 ℝ := ⟨A.a00, A.a01, A.a02⟩
def row1 (A : M3 ℝ) : V3 ℝ := ⟨A.a10, A.a11, A.a12⟩
def row2 (A : M3 ℝ) : V3 ℝ := ⟨A.a20, A.a21, A.a22⟩

def trace3 (A : M3 ℝ) : ℝ := A.a00 + A.a11 + A.a22

/-- characteristic polynomial of a 3x3 matrix, `det (t I - A)` -/
def charPoly3 (A : M3 ℝ) (t : ℝ) : ℝ := - det3 (shift3 A t)

/-! ## the order helpers at ℝ -/

theorem absK_eq (x : ℝ) : absK x = |x| := by
  unfold absK zero
  simp only [Nat.cast_zero]
  split_ifs with h
  · exact (abs_of_neg h).symm
  · exact (abs_of_nonneg (not_lt.mp h)).symm

theorem maxK_eq (a b : ℝ) : maxK a b = max a b := by
  unfold maxK
  split_ifs with h
  · exact (max_eq_right (le_of_lt h)).symm
  · exact (max_eq_left (not_lt.mp h)).symm

theorem infNorm2_eq (A : M2 ℝ) :
    infNorm2 A = max (|A.a10| + |A.a11|) (max (|A.a00| + |A.a01|) 0) := by
  unfold infNorm2 zero
  simp only [Nat.cast_zero, zero_add, absK_eq, maxK_eq]

theorem infNorm2_nonneg (A : M2 ℝ) : 0 ≤ infNorm2 A := by
  rw [infNorm2_eq]
  exact le_max_of_le_right (le_max_right _ _)

theorem infNorm2_smul (s : ℝ) (hs : 0 < s) (A : M2 ℝ) : infNorm2 (smul2 s A) = s * infNorm2 A := by
  rw [infNorm2_eq, infNorm2_eq]
  simp only [smul2, abs_mul, abs_of_pos hs]
  rw [← mul_add, ← mul_add, mul_max_of_nonneg _ _ hs.le, mul_max_of_nonneg _ _ hs.le, mul_zero]

theorem infNorm2_eq_zero (A : M2 ℝ) (h : A.a00 = 0 ∧ A.a01 = 0 ∧ A.a10 = 0 ∧ A.a11 = 0) : infNorm2 A = 0 := by
  rw [infNorm2_eq]
  obtain ⟨h0, h1, h2, h3⟩ := h
  simp [h0, h1, h2, h3]

theorem norm2_eq (v : V2 ℝ) : norm2 v = v.x * v.x + v.y * v.y := by
  unfold norm2 zero
  simp only [Nat.cast_zero, zero_add]

theorem norm2_nonneg (v : V2 ℝ) : 0 ≤ norm2 v := by
  rw [norm2_eq]
  nlinarith [mul_self_nonneg v.x, mul_self_nonneg v.y]

theorem norm2_eq_zero {v : V2 ℝ} (h : norm2 v = 0) : v.x = 0 ∧ v.y = 0 := by
  rw [norm2_eq] at h
  constructor
  · nlinarith [mul_self_nonneg v.x, mul_self_nonneg v.y]
  · nlinarith [mul_self_nonneg v.x, mul_self_nonneg v.y]

/-! ## the generated 2x2 formulas at ℝ -/

theorem gen_p (a b c d : ℝ) : Gen.ev2_p a b c d = (a + d) / 2 := by
  unfold Gen.ev2_p
  push_cast
  ring

theorem gen_q (a b c d : ℝ) :
    Gen.ev2_q a b c d ((a + d) / 2) (Gen.ev2_p2 a b c d ((a + d) / 2)) = ((a - d) / 2) ^ 2 + c * b := by
  unfold Gen.ev2_q Gen.ev2_p2
  ring

/-- discriminant term of the symmetric 2x2 closed form -/
noncomputable def disc2 (A : M2 ℝ) : ℝ := ((A.a00 - A.a11) / 2) ^ 2 + A.a10 * A.a01

theorem disc2_nonneg (A : M2 ℝ) (hs : Sym2 A) : 0 ≤ disc2 A := by
  unfold disc2
  rw [hs]
  nlinarith [sq_nonneg ((A.a00 - A.a11) / 2), mul_self_nonneg A.a01]

/-- closed form of the model's eigenvalues for a symmetric matrix -/
theorem eigenValues2d_sym (A : M2 ℝ) (hs : Sym2 A) :
    eigenValues2d Real.sqrt A
      = .ok ((A.a00 + A.a11) / 2 - Real.sqrt (disc2 A), (A.a00 + A.a11) / 2 + Real.sqrt (disc2 A)) := by
  have hq := disc2_nonneg A hs
  unfold eigenValues2d
  simp only [gen_p, gen_q, zero, Nat.cast_zero]
  have h1 : ¬ (((A.a00 - A.a11) / 2) ^ 2 + A.a10 * A.a01 < 0) := not_lt.mpr hq
  simp only [h1, false_and, if_false, Gen.ev2_lam0, Gen.ev2_lam1]
  rfl

theorem smul2_sym (s : ℝ) (A : M2 ℝ) (hs : Sym2 A) : Sym2 (smul2 s A) := by
  unfold Sym2 smul2 at *
  simp only
  rw [hs]

theorem disc2_smul (s : ℝ) (A : M2 ℝ) : disc2 (smul2 s A) = s ^ 2 * disc2 A := by
  unfold disc2 smul2
  simp only
  ring

theorem sqrt_disc2_smul (s : ℝ) (hs : 0 < s) (A : M2 ℝ) :
    Real.sqrt (disc2 (smul2 s A)) = s * Real.sqrt (disc2 A) := by
  rw [disc2_smul, Real.sqrt_mul (sq_nonneg s), Real.sqrt_sq hs.le]

/-! ## column selection -/

theorem pickColumn_cases (e0 e1 : V2 ℝ) :
    (pickColumn e0 e1 = e0 ∧ norm2 e1 ≤ norm2 e0) ∨ (pickColumn e0 e1 = e1 ∧ norm2 e0 < norm2 e1) := by
  unfold pickColumn
  split_ifs with h
  · exact Or.inl ⟨rfl, h⟩
  · exact Or.inr ⟨rfl, not_le.mp h⟩

def smulV (s : ℝ) (v : V2 ℝ) : V2 ℝ := ⟨s * v.x, s * v.y⟩

theorem norm2_smulV (s : ℝ) (v : V2 ℝ) : norm2 (smulV s v) = s ^ 2 * norm2 v := by
  rw [norm2_eq, norm2_eq]
  unfold smulV
  simp only
  ring

theorem pickColumn_smul (s : ℝ) (hs : 0 < s) (e0 e1 : V2 ℝ) :
    pickColumn (smulV s e0) (smulV s e1) = smulV s (pickColumn e0 e1) := by
  unfold pickColumn
  rw [norm2_smulV, norm2_smulV]
  have h2 : 0 < s ^ 2 := by positivity
  by_cases h : norm2 e1 ≤ norm2 e0
  · rw [if_pos h, if_pos (mul_le_mul_of_nonneg_left h h2.le)]
  · rw [if_neg h, if_neg]
    intro hc
    exact h (le_of_mul_le_mul_left hc h2)

theorem normalize2_smul (s : ℝ) (hs : 0 < s) (v : V2 ℝ) :
    normalize2 Real.sqrt (smulV s v) = normalize2 Real.sqrt v := by
  unfold normalize2
  rw [norm2_smulV, Real.sqrt_mul (sq_nonneg s), Real.sqrt_sq hs.le]
  unfold smulV
  simp only
  rw [mul_div_mul_left _ _ hs.ne', mul_div_mul_left _ _ hs.ne']

theorem normalize2_unit (v : V2 ℝ) (h : norm2 v ≠ 0) : norm2 (normalize2 Real.sqrt v) = 1 := by
  have hpos : 0 < norm2 v := lt_of_le_of_ne (norm2_nonneg v) (Ne.symm h)
  have hs : Real.sqrt (norm2 v) ≠ 0 := (Real.sqrt_pos.mpr hpos).ne'
  have hn : Real.sqrt (norm2 v) * Real.sqrt (norm2 v) = v.x * v.x + v.y * v.y := by
    rw [← norm2_eq]; exact Real.mul_self_sqrt hpos.le
  rw [norm2_eq]
  show v.x / Real.sqrt (norm2 v) * (v.x / Real.sqrt (norm2 v))
      + v.y / Real.sqrt (norm2 v) * (v.y / Real.sqrt (norm2 v)) = 1
  rw [div_mul_div_comm, div_mul_div_comm, ← add_div, ← hn]
  exact div_self (mul_ne_zero hs hs)

end DV.C08
