import DuneVerif.Model.C05
/-!
C05 helper lemmas, part 2: `BufferedCommunicator::build` (message layout = prefix sums), the gathered send buffer
and its slices, and the receive buffer (writes to disjoint regions commute).  Core Lean only.
-/
namespace DV.C05

/-! ### slots and sizes -/

theorem sum_map_length_flatMap {α β} (l : List α) (f : α → List β) :
    (l.flatMap f).length = (l.map fun x => (f x).length).sum := by
  induction l with
  | nil => rfl
  | cons x xs ih => simp [List.flatMap_cons, ih]

theorem slots_length (cs : Nat → Nat) (info : Info) : (slots cs info).length = sizeCalc cs info := by
  simp only [slots, sizeCalc, sum_map_length_flatMap, List.length_map, List.length_range]

/-! ### prefix sums over the interface map -/

/-- sum of `f` over the entries in front of key `q` -/
def pre (f : Nat × Info × Info → Nat) (ifs : IfMap) (q : Nat) : Nat :=
  ((ifs.takeWhile fun e => e.1 != q).map f).sum

def Keys (ifs : IfMap) : Prop := (ifs.map (·.1)).Pairwise (· < ·)

theorem Keys.tail {e : Nat × Info × Info} {es : IfMap} (h : Keys (e :: es)) : Keys es := by
  simp only [Keys, List.map_cons, List.pairwise_cons] at h; exact h.2

theorem Keys.head_lt {e : Nat × Info × Info} {es : IfMap} (h : Keys (e :: es)) :
    ∀ x ∈ es, e.1 < x.1 := by
  simp only [Keys, List.map_cons, List.pairwise_cons] at h
  intro x hx
  exact h.1 x.1 (List.mem_map_of_mem hx)

theorem find_none_of_lt {es : IfMap} {q : Nat} (h : ∀ x ∈ es, q < x.1) :
    es.find? (fun e => e.1 == q) = none := by
  rw [List.find?_eq_none]
  intro x hx
  have := h x hx
  simp only [beq_iff_eq]; omega

theorem find_key {ifs : IfMap} {q : Nat} {e} (h : ifs.find? (fun e => e.1 == q) = some e) : e.1 = q := by
  have := List.find?_some h; simpa using this

theorem pre_cons_eq (f) (e : Nat × Info × Info) (es : IfMap) (q : Nat) (h : e.1 = q) : pre f (e :: es) q = 0 := by
  simp [pre, h]

theorem pre_cons_ne (f) (e : Nat × Info × Info) (es : IfMap) (q : Nat) (h : e.1 ≠ q) :
    pre f (e :: es) q = f e + pre f es q := by
  simp [pre, h]

/-- regions of different keys do not overlap: the one of the smaller key ends before the other starts -/
theorem pre_mono (f) : ∀ (ifs : IfMap), Keys ifs → ∀ {p p' e}, p < p' →
    ifs.find? (fun x => x.1 == p) = some e → (∃ e', ifs.find? (fun x => x.1 == p') = some e') →
    pre f ifs p + f e ≤ pre f ifs p'
  | [], _, _, _, _, _, h, _ => by simp at h
  | e0 :: es, hk, p, p', e, hlt, h, ⟨e', h'⟩ => by
    by_cases h0 : e0.1 = p
    · have : e0 = e := by simpa [List.find?_cons, h0] using h
      subst this
      have hne : e0.1 ≠ p' := by omega
      rw [pre_cons_eq f _ _ _ h0, pre_cons_ne f _ _ _ hne]
      omega
    · have h1 : e0.1 ≠ p' := by
        intro h1
        have hf : es.find? (fun x => x.1 == p) = some e := by
          simpa [List.find?_cons, h0] using h
        have := hk.head_lt e (List.mem_of_find?_eq_some hf)
        have := find_key hf
        omega
      have hf : es.find? (fun x => x.1 == p) = some e := by simpa [List.find?_cons, h0] using h
      have hf' : es.find? (fun x => x.1 == p') = some e' := by simpa [List.find?_cons, h1] using h'
      rw [pre_cons_ne f _ _ _ h0, pre_cons_ne f _ _ _ h1]
      have := pre_mono f es hk.tail hlt hf ⟨e', hf'⟩
      omega

theorem pre_le_total (f) : ∀ (ifs : IfMap) {p e}, ifs.find? (fun x => x.1 == p) = some e →
    pre f ifs p + f e ≤ (ifs.map f).sum
  | [], _, _, h => by simp at h
  | e0 :: es, p, e, h => by
    by_cases h0 : e0.1 = p
    · have : e0 = e := by simpa [List.find?_cons, h0] using h
      subst this
      rw [pre_cons_eq f _ _ _ h0]; simp
    · have hf : es.find? (fun x => x.1 == p) = some e := by simpa [List.find?_cons, h0] using h
      rw [pre_cons_ne f _ _ _ h0]
      have := pre_le_total f es hf
      simp only [List.map_cons, List.sum_cons]; omega

/-! ### `messageInformation_` -/

theorem layout_keys_sub (sz : Nat) (csS csT : Nat → Nat) : ∀ (ifs : IfMap) (s0 s1 : Nat),
    ∀ x ∈ layout sz csS csT ifs s0 s1, ∃ e ∈ ifs, e.1 = x.1
  | [], _, _, x, h => by simp [layout] at h
  | e :: es, s0, s1, x, h => by
    simp only [layout, List.mem_append] at h
    rcases h with h | h
    · split at h
      · simp only [List.mem_singleton] at h
        exact ⟨e, by simp, by rw [h]⟩
      · simp at h
    · obtain ⟨e', he', hk⟩ := layout_keys_sub sz csS csT es _ _ x h
      exact ⟨e', List.mem_cons_of_mem _ he', hk⟩

/-- lookup in `messageInformation_`: start = prefix sum (elements), size = own count times `sizeof` (bytes);
    no entry for a neighbour with nothing to send and nothing to receive -/
theorem layout_find (sz : Nat) (csS csT : Nat → Nat) : ∀ (ifs : IfMap), Keys ifs → ∀ (s0 s1 q : Nat),
    (layout sz csS csT ifs s0 s1).find? (fun x => x.1 == q) =
      (ifs.find? (fun e => e.1 == q)).bind fun e =>
        if sizeCalc csS e.2.1 + sizeCalc csT e.2.2 > 0 then
          some (q, (⟨s0 + pre (fun e => sizeCalc csS e.2.1) ifs q, sizeCalc csS e.2.1 * sz⟩ : MsgInfo),
                   (⟨s1 + pre (fun e => sizeCalc csT e.2.2) ifs q, sizeCalc csT e.2.2 * sz⟩ : MsgInfo))
        else none
  | [], _, _, _, _ => by simp [layout]
  | e :: es, hk, s0, s1, q => by
    by_cases h0 : e.1 = q
    · have hnone : es.find? (fun x => x.1 == q) = none :=
        find_none_of_lt (fun x hx => by have := hk.head_lt x hx; omega)
      simp only [layout, List.find?_cons, h0, beq_self_eq_true, Option.bind_some,
        pre_cons_eq _ e es q h0, Nat.add_zero]
      by_cases hc : sizeCalc csS e.2.1 + sizeCalc csT e.2.2 > 0
      · simp [hc]
      · simp only [hc, if_false, List.nil_append]
        rw [layout_find sz csS csT es hk.tail, hnone]
        rfl
    · have hne : (e.1 == q) = false := by simpa using h0
      simp only [layout, List.find?_append, List.find?_cons, hne]
      have hfirst : List.find? (fun x : Nat × MsgInfo × MsgInfo => x.1 == q)
          (if sizeCalc csS e.2.1 + sizeCalc csT e.2.2 > 0 then
            [(e.1, (⟨s0, sizeCalc csS e.2.1 * sz⟩ : MsgInfo), (⟨s1, sizeCalc csT e.2.2 * sz⟩ : MsgInfo))] else []) = none := by
        split <;> simp [hne]
      rw [hfirst, Option.none_or, layout_find sz csS csT es hk.tail]
      cases hf : es.find? (fun e => e.1 == q) with
      | none => rfl
      | some e' =>
        simp only [Option.bind_some, pre_cons_ne _ e es q h0, Nat.add_assoc]

/-! ### the send buffer and its slices -/

theorem gatherBuf_cons {Val} (gat : Nat → Nat → Val) (cs : Nat → Nat) (fwd : Bool) (e) (es : IfMap) :
    gatherBuf gat cs fwd (e :: es) =
      (slots cs (sendSide fwd e.2)).map (fun s => gat s.1 s.2) ++ gatherBuf gat cs fwd es := by
  simp [gatherBuf, List.flatMap_cons]

/-- the slice `[pre, pre + n)` of the send buffer holds the gathered values of neighbour `q` in interface order -/
theorem gatherBuf_slice {Val} (gat : Nat → Nat → Val) (cs : Nat → Nat) (fwd : Bool) :
    ∀ (ifs : IfMap) {q e}, ifs.find? (fun x => x.1 == q) = some e →
      ((gatherBuf gat cs fwd ifs).drop (pre (fun e => sizeCalc cs (sendSide fwd e.2)) ifs q)).take
          (sizeCalc cs (sendSide fwd e.2)) =
        (slots cs (sendSide fwd e.2)).map fun s => gat s.1 s.2
  | [], _, _, h => by simp at h
  | e0 :: es, q, e, h => by
    rw [gatherBuf_cons]
    by_cases h0 : e0.1 = q
    · have : e0 = e := by simpa [List.find?_cons, h0] using h
      subst this
      rw [pre_cons_eq _ _ _ _ h0, List.drop_zero, ← slots_length, ← List.length_map (fun s => gat s.1 s.2)]
      exact List.take_left
    · have hf : es.find? (fun x => x.1 == q) = some e := by simpa [List.find?_cons, h0] using h
      rw [pre_cons_ne _ _ _ _ h0]
      have hlen : ((slots cs (sendSide fwd e0.2)).map fun s => gat s.1 s.2).length = sizeCalc cs (sendSide fwd e0.2) := by
        rw [List.length_map, slots_length]
      rw [← hlen, List.drop_length_add_append]
      exact gatherBuf_slice gat cs fwd es hf

theorem gatherBuf_length {Val} (gat : Nat → Nat → Val) (cs : Nat → Nat) (fwd : Bool) (ifs : IfMap) :
    (gatherBuf gat cs fwd ifs).length = (ifs.map fun e => sizeCalc cs (sendSide fwd e.2)).sum := by
  induction ifs with
  | nil => rfl
  | cons e es ih => rw [gatherBuf_cons]; simp [ih, slots_length]

/-! ### the receive buffer -/

theorem length_writeAt {Val} (buf : List Val) (s : Nat) (m : List Val) (h : s + m.length ≤ buf.length) :
    (writeAt buf s m).length = buf.length := by
  simp only [writeAt, List.length_append, List.length_take, List.length_drop]; omega

/-- reading back the region just written -/
theorem read_writeAt_same {Val} (buf : List Val) (s : Nat) (m : List Val) (h : s + m.length ≤ buf.length) :
    ((writeAt buf s m).drop s).take m.length = m := by
  have hl : (buf.take s).length = s := by rw [List.length_take]; omega
  simp only [writeAt, List.append_assoc]
  conv => lhs; arg 2; arg 1; rw [← hl]
  rw [List.drop_left, List.take_left]

theorem getElem?_writeAt {Val} (buf : List Val) (s : Nat) (m : List Val) (h : s + m.length ≤ buf.length) (i : Nat) :
    (writeAt buf s m)[i]? = if i < s then buf[i]? else if i < s + m.length then m[i - s]? else buf[i]? := by
  have hl : (buf.take s).length = s := by rw [List.length_take]; omega
  simp only [writeAt, List.append_assoc]
  by_cases h1 : i < s
  · rw [List.getElem?_append_left (by omega)]
    simp [h1]
  · rw [List.getElem?_append_right (by omega), hl]
    by_cases h2 : i < s + m.length
    · rw [List.getElem?_append_left (by omega)]
      simp [h1, h2]
    · rw [List.getElem?_append_right (by omega), List.getElem?_drop]
      simp only [h1, h2, if_false]
      congr 1; omega

/-- a region disjoint from the written one is not changed -/
theorem read_writeAt_other {Val} (buf : List Val) (s : Nat) (m : List Val) (h : s + m.length ≤ buf.length)
    (s' n : Nat) (hd : s' + n ≤ s ∨ s + m.length ≤ s') :
    ((writeAt buf s m).drop s').take n = (buf.drop s').take n := by
  apply List.ext_getElem?
  intro i
  simp only [List.getElem?_take, List.getElem?_drop]
  by_cases hi : i < n
  · simp only [hi, if_true]
    rw [getElem?_writeAt buf s m h]
    rcases hd with hd | hd
    · have : s' + i < s := by omega
      simp [this]
    · have h1 : ¬ s' + i < s := by omega
      have h2 : ¬ s' + i < s + m.length := by omega
      simp [h1, h2]
  · simp [hi]

/-- a sequence of writes -/
def writes {Val} (buf : List Val) (ws : List (Nat × List Val)) : List Val :=
  ws.foldl (fun b w => writeAt b w.1 w.2) buf

def Disjoint {Val} (a b : Nat × List Val) : Prop := a.1 + a.2.length ≤ b.1 ∨ b.1 + b.2.length ≤ a.1

theorem length_writes {Val} : ∀ (ws : List (Nat × List Val)) (buf : List Val),
    (∀ w ∈ ws, w.1 + w.2.length ≤ buf.length) → (writes buf ws).length = buf.length
  | [], _, _ => rfl
  | w :: ws, buf, h => by
    have hw := h w (by simp)
    simp only [writes, List.foldl_cons]
    have hl := length_writeAt buf w.1 w.2 hw
    have := length_writes ws (writeAt buf w.1 w.2) (fun x hx => by rw [hl]; exact h x (List.mem_cons_of_mem _ hx))
    simp only [writes] at this
    rw [this, hl]

theorem read_writes_other {Val} : ∀ (ws : List (Nat × List Val)) (buf : List Val) (s n : Nat),
    (∀ w ∈ ws, w.1 + w.2.length ≤ buf.length) → (∀ w ∈ ws, s + n ≤ w.1 ∨ w.1 + w.2.length ≤ s) →
    ((writes buf ws).drop s).take n = (buf.drop s).take n
  | [], _, _, _, _, _ => rfl
  | w :: ws, buf, s, n, h, hd => by
    have hw := h w (by simp)
    have hl := length_writeAt buf w.1 w.2 hw
    simp only [writes, List.foldl_cons]
    have := read_writes_other ws (writeAt buf w.1 w.2) s n
      (fun x hx => by rw [hl]; exact h x (List.mem_cons_of_mem _ hx)) (fun x hx => hd x (List.mem_cons_of_mem _ hx))
    simp only [writes] at this
    rw [this]
    exact read_writeAt_other buf w.1 w.2 hw s n (hd w (by simp))

/-- after writes to pairwise disjoint regions, in any order, every region holds its message -/
theorem read_writes {Val} : ∀ (ws : List (Nat × List Val)) (buf : List Val),
    ws.Pairwise Disjoint → (∀ w ∈ ws, w.1 + w.2.length ≤ buf.length) →
    ∀ w ∈ ws, ((writes buf ws).drop w.1).take w.2.length = w.2
  | [], _, _, _, w, hw => by cases hw
  | w0 :: ws, buf, hp, h, w, hw => by
    rw [List.pairwise_cons] at hp
    have hw0 := h w0 (by simp)
    have hl := length_writeAt buf w0.1 w0.2 hw0
    have hin : ∀ x ∈ ws, x.1 + x.2.length ≤ (writeAt buf w0.1 w0.2).length :=
      fun x hx => by rw [hl]; exact h x (List.mem_cons_of_mem _ hx)
    rw [List.mem_cons] at hw
    simp only [writes, List.foldl_cons]
    rcases hw with rfl | hw
    · have := read_writes_other ws (writeAt buf w.1 w.2) w.1 w.2.length hin
        (fun x hx => by have := hp.1 x hx; simp only [Disjoint] at this; omega)
      simp only [writes] at this
      rw [this]
      exact read_writeAt_same buf w.1 w.2 hw0
    · have := read_writes ws (writeAt buf w0.1 w0.2) hp.2 hin w hw
      simpa only [writes] using this

end DV.C05
