/-
C18 — stringutility.hh, the part the generated file `Gen/C18.lean` builds on: strings as `List Char`, `std::equal`
(`equalRange`), and the canonical transcriptions `hasPrefixCanon`, `hasSuffixCanon`.  Since round four `hasPrefix` and
`hasSuffix` themselves are REGENERATED from stringutility.hh (Gen/C18.lean) and proved equal to the canonical forms
(`hasPrefix_eq_canon`, `hasSuffix_eq_canon` in Proofs/C18/Basic.lean).  Core Lean only.
-/
import DuneVerif.Common.Proto

namespace DV.C18

abbrev Str := List Char

/-- `std::equal(first, first+len, it)`: compare the `len = |pat|` elements of `pat` with the elements
    starting at `it`.  (`[]` on the right is an out-of-range read; both callers exclude it by their
    size test — see `hasPrefix`, `hasSuffix`.) -/
def equalRange : Str → Str → Bool
  | [], _ => true
  | _ :: _, [] => false
  | a :: p, b :: c => a == b && equalRange p c

/-- `c.size() >= len && std::equal(prefix, prefix+len, c.begin())` -/
def hasPrefixCanon (c pre : Str) : Bool :=
  decide (c.length ≥ pre.length) && equalRange pre c

/-- `if(c.size() < len) return false; it = c.begin() + (c.size()-len); return std::equal(suffix, suffix+len, it)` -/
def hasSuffixCanon (c suf : Str) : Bool :=
  if c.length < suf.length then false
  else equalRange suf (c.drop (c.length - suf.length))

/-- what a `const char*` parameter sees of a `std::string` argument: the bytes before the first NUL
    (`strlen` in hasPrefix/hasSuffix).  Used by the driver for the pattern operand only. -/
def cstr (s : Str) : Str := s.takeWhile (· ≠ Char.ofNat 0)

end DV.C18
