/-
C10 — faithful model of Dune::bigunsignedint<k> (dune/common/bigunsignedint.hh).

A value is the little-endian list of its `n = ndigits k` 16-bit digits.  Every function mirrors the
loop of the C++ operator it is named after (same masks, same carry handling, same scan order); the
masks and the digit-count formula come from the generated file Gen/C10.lean.  Core Lean only.
-/
import DuneVerif.Gen.C10
import DuneVerif.Common.Proto

namespace DV.C10
open DV.C10.Gen

/-- radix of one digit, `1 << bits` -/
def B : Nat := 2 ^ bits

/-- value denoted by a little-endian digit list -/
def val : List Nat → Nat
  | [] => 0
  | d :: ds => d + B * val ds

/-- well-formed: exactly `n` digits, each a uint16 -/
def Wf (n : Nat) (a : List Nat) : Prop := a.length = n ∧ ∀ d ∈ a, d < B

/-- the modulus of an `n`-digit value: `2^(bits*n)` (theorem `W_eq`) -/
def W (n : Nat) : Nat := B ^ n

def zeros (n : Nat) : List Nat := List.replicate n 0

/-- `assign(uintmax_t x)`: the low `min n 4` digits of `x`, the rest zero -/
def assignLoop : Nat → Nat → List Nat
  | 0, _ => []
  | no+1, x => (x &&& bitmask) :: assignLoop no (x >>> bits)

def assign (n : Nat) (x : Nat) : List Nat :=
  let no := assignDigits n
  assignLoop no x ++ zeros (n - no)

/-- result of a constructor call -/
inductive CRes where
  | ok (v : List Nat)
  | negative
  deriving Repr, BEq, DecidableEq

/-- constructor from a signed built-in: `if (y < 0) DUNE_THROW(Dune::Exception, …); assign(y);` -/
def ofSigned (n : Nat) (y : Int) : CRes :=
  if y < 0 then .negative else .ok (assign n y.toNat)

/-- `operator+=` : sum = a_i + x_i + overflow; digit = sum & bitmask; overflow = (sum>>bits)&overflowmask -/
def addLoop : List Nat → List Nat → Nat → List Nat
  | a :: as, x :: xs, c =>
    let sum := a + x + c
    (sum &&& bitmask) :: addLoop as xs ((sum >>> bits) &&& overflowmask)
  | _, _, _ => []

def add (a x : List Nat) : List Nat := addLoop a x 0

/-- `operator++` -/
def incrLoop : List Nat → Nat → List Nat
  | a :: as, c =>
    let sum := a + c
    (sum &&& bitmask) :: incrLoop as ((sum >>> bits) &&& overflowmask)
  | [], _ => []

def incr (a : List Nat) : List Nat := incrLoop a 1

/-- `operator-=` : diff = a_i - x_i - overflow (signed); `diff>=0` keeps it, else `diff+bitmask+1`, borrow 1 -/
def subLoop : List Nat → List Nat → Nat → List Nat
  | a :: as, x :: xs, c =>
    if x + c ≤ a then (a - (x + c)) :: subLoop as xs 0
    else (a + bitmask + 1 - (x + c)) :: subLoop as xs 1
  | _, _, _ => []

def sub (a x : List Nat) : List Nat := subLoop a x 0

/-- inner loop of `operator*=` for one digit `xm` of the right operand:
    digitproduct = a_i * xm + overflow; digit = digitproduct & bitmask; overflow = (digitproduct>>bits)&bitmask.
    The carry out of the last digit is dropped, as in the code. -/
def mulDigitLoop : List Nat → Nat → Nat → List Nat
  | a :: as, xm, c =>
    let p := a * xm + c
    (p &&& bitmask) :: mulDigitLoop as xm ((p >>> bits) &&& bitmask)
  | [], _, _ => []

/-- pad with zeros / truncate to exactly `w` digits (a `bigunsignedint<2k>` has `w = ndigits (2k)` digits) -/
def fit (w : Nat) (l : List Nat) : List Nat := (l ++ zeros w).take w

/-- outer loop of `operator*=`: finalproduct (width w) += singleproduct_m for m = 0..n-1 -/
def mulOuter (w : Nat) (a : List Nat) : List Nat → Nat → List Nat → List Nat
  | [], _, acc => acc
  | xm :: xs, m, acc =>
    let single := fit w (zeros m ++ mulDigitLoop a xm 0)
    mulOuter w a xs (m + 1) (add acc single)

def mul (k : Nat) (a x : List Nat) : List Nat :=
  let w := ndigits (2 * k)
  (mulOuter w a x 0 (zeros w)).take a.length

/-- three-way comparison scanning from the most significant digit, as all four ordering operators do -/
def cmpTop : List Nat → List Nat → Ordering
  | a :: as, x :: xs =>
    match cmpTop as xs with
    | .eq => compare a x
    | o => o
  | _, _ => .eq

def lt (a x : List Nat) : Bool := cmpTop a x == .lt      -- falls through to `return false`
def le (a x : List Nat) : Bool := cmpTop a x != .gt      -- falls through to `return true`

/-- `operator!=`: some digit differs -/
def ne : List Nat → List Nat → Bool
  | a :: as, x :: xs => if a != x then true else ne as xs
  | _, _ => false

/-- the three comparisons that have a digit loop of their own (`<`, `<=`, `!=`); the translator refuses a derived
    comparison that refers to any other, so the remaining cases are never evaluated -/
def primCmp : Cmp → List Nat → List Nat → Bool
  | .lt, a, x => lt a x
  | .le, a, x => le a x
  | .ne, a, x => ne a x
  | _, _, _ => false

/-- a derived comparison as the header writes it (`gtDef`, `geDef`, `eqDef` are regenerated from the source):
    `!(*this c x)`, `x c *this`, `!(x c *this)` -/
def evalCmpDef : CmpDef → List Nat → List Nat → Bool
  | .notThisX c, a, x => !(primCmp c a x)
  | .xThis c, a, x => primCmp c x a
  | .notXThis c, a, x => !(primCmp c x a)

def gt (a x : List Nat) : Bool := evalCmpDef gtDef a x      -- header: `!((*this)<=x)`
def ge (a x : List Nat) : Bool := evalCmpDef geDef a x      -- header: `!((*this)<x)`
def eq (a x : List Nat) : Bool := evalCmpDef eqDef a x      -- header: `!((*this)!=x)`

def isZero (a : List Nat) : Bool := a.all (· == 0)

/-- `operator/=` loop: `while (*this>=x) { ++result; *this -= x; }` with fuel (the termination theorem shows
    any fuel above the quotient suffices when the divisor is non-zero; `div`/`mod` give it `val a / val x + 1`, so that the
    model stops after quotient+1 rounds whatever the (regenerated) comparison `>=` answers) -/
def divLoop : Nat → List Nat → List Nat → List Nat → List Nat × List Nat
  | 0, a, _, r => (r, a)
  | fuel+1, a, x, r => if ge a x then divLoop fuel (sub a x) x (incr r) else (r, a)

inductive Res where
  | ok (v : List Nat)
  | mathError
  deriving Repr, BEq, DecidableEq

/-- `operator/=`: `if (x==0) DUNE_THROW(MathError)` -/
def div (a x : List Nat) : Res :=
  if eq x (zeros x.length) then .mathError
  else .ok (divLoop (val a / val x + 1) a x (zeros a.length)).1

/-- `operator%=` (after fix: the zero divisor is reported as in `/=`) -/
def mod (a x : List Nat) : Res :=
  if eq x (zeros x.length) then .mathError
  else .ok (divLoop (val a / val x + 1) a x (zeros a.length)).2

def band : List Nat → List Nat → List Nat
  | a :: as, x :: xs => (a &&& x) :: band as xs
  | _, _ => []
def bor : List Nat → List Nat → List Nat
  | a :: as, x :: xs => (a ||| x) :: bor as xs
  | _, _ => []
def bxor : List Nat → List Nat → List Nat
  | a :: as, x :: xs => (a ^^^ x) :: bxor as xs
  | _, _ => []
/-- `~digit[i]` truncated to uint16 -/
def bnot : List Nat → List Nat
  | a :: as => (bitmask - a) :: bnot as
  | [] => []

/-- second pass of `operator<<` (shift by `j < bits` with carry into the next digit) -/
def shlBits (j : Nat) : List Nat → Nat → List Nat
  | d :: ds, cin =>
    let temp := d <<< j
    ((temp &&& bitmask) ||| cin) :: shlBits j ds (temp >>> bits)
  | [], _ => []

def shl (a : List Nat) (s : Nat) : List Nat :=
  let n := a.length
  let j := s / bits
  let moved := zeros (min j n) ++ a.take (n - j)
  shlBits (s % bits) moved 0

/-- second pass of `operator>>`: temp = r_i << (bits-j); r_i = (temp & compbitmask) >> bits; r_{i-1} |= temp & bitmask -/
def shrBits (j : Nat) : List Nat → List Nat
  | d :: ds =>
    let temp := d <<< (bits - j)
    let lowFromNext := match ds with
      | [] => 0
      | e :: _ => (e <<< (bits - j)) &&& bitmask
    (((temp &&& compbitmask) >>> bits) ||| lowFromNext) :: shrBits j ds
  | [] => []

def shr (a : List Nat) (s : Nat) : List Nat :=
  let n := a.length
  let j := s / bits
  let moved := a.drop j ++ zeros (min j n)
  shrBits (s % bits) moved

/-- `touint()` (after fix): `digit[0]` plus `digit[1]<<bits` when there is a second digit -/
def touint : List Nat → Nat
  | d0 :: d1 :: _ => (d1 <<< bits) + d0
  | [d0] => d0
  | [] => 0

/-- index one past the most significant non-zero digit -/
def firstInZeroRange : List Nat → Nat
  | [] => 0
  | d :: ds => let r := firstInZeroRange ds; if r = 0 then (if d = 0 then 0 else 1) else r + 1

/-- `todouble()` as an exact natural number: the top `representableDigits` non-zero-range digits by Horner,
    scaled by `2^(bits*last)`.  Every intermediate is an integer below 2^48 times a power of two, hence exact
    in IEEE double; the model value is what the C++ returns (for results below 2^1024). -/
def todoubleParts (a : List Nat) : Nat × Nat :=
  let f := firstInZeroRange a
  let last := if representableDigits < f then f - representableDigits else 0
  (val ((a.take f).drop last), bits * last)

/-- `std::ldexp(val, bits*lastInRepresentableRange)` with `(val, exponent) = todoubleParts a`; theorem
    `todouble_mantissa_exact` shows `val < 2^53`, so the Horner loop and the ldexp are exact in double. -/
def todoubleN (a : List Nat) : Nat :=
  (todoubleParts a).1 * 2 ^ (todoubleParts a).2

def maxVal (n : Nat) : List Nat := List.replicate n bitmask

/-- `print`: every digit from the top as `hexdigits` hex characters (the `leading` flag of the code is never
    set, so leading zeros are printed) -/
def hexOfDigit (d : Nat) : List Char :=
  (List.range hexdigits).reverse.map fun i => DV.hexChar ((d >>> (i * 4)) &&& 0xF)

def print (a : List Nat) : List Char := a.reverse.flatMap hexOfDigit

/-- parse a big-endian hex string into the value -/
def parseHexChars (cs : List Char) : Option Nat :=
  cs.foldlM (fun acc c => (DV.hexDigitVal? c).map (fun d => acc * 16 + d)) 0

/-- hash: `hash_range` over the digits (boost-style combine); a function of the digit list only -/
def hashCombine (seed v : Nat) : Nat :=
  (seed ^^^ (v + 0x9e3779b9 + (seed <<< 6) + (seed >>> 2))) % 2 ^ 64

def hash (a : List Nat) : Nat := a.foldl hashCombine 0

/-- digits of a natural number value, `n` of them (driver input) -/
def ofNat : Nat → Nat → List Nat
  | 0, _ => []
  | n+1, v => (v % B) :: ofNat n (v / B)

end DV.C10
