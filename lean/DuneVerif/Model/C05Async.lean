import DuneVerif.Model.C05
/-
C05, round three — the processes are NOT synchronised: an asynchronous model of repeated use of one communicator.

`worldStep` / `runSt` (Model/C05.lean) treat one `forward`/`backward` as a collective step: every message of
communication `k` carries what its sender gathered in communication `k`.  Whether the real code guarantees this depends
on the two completion loops at the end of `BufferedCommunicator::sendRecv`: the process may gather again (overwriting
`buffers_[0]`/`buffers_[1]`) only after every send it posted has been transferred, because MPI reads the payload from
the send buffer at some time between `MPI_Issend` and the completion of the request (rendezvous: when the receive is
matched), not when the send is posted.  The bounds of these loops are REGENERATED from communicator.hh
(`Gen.recvLoopBound`, `Gen.recvWaitCount`, `Gen.sendWaitBound`).

* `Comm.boundVal`, `Comm.waitedSends`, `Comm.recvLoopIters`   what the completion loops cover
* `gatherP`, `landP`, `finishP`                               the three local stages of one `sendRecv`
                                                              (`worldStep_eq_local`: `worldStep` is their composition)
* `AProc`, `AState`, `AStep`, `AReach`                        every process walks through the history at its own pace;
                                                              a posted send stays in `outS` until it is transferred, and a
                                                              transfer reads the sender's buffer AS IT IS THEN; a process
                                                              leaves `sendRecv` when its receives are complete and the
                                                              sends it waits for (`waitedSends`) are transferred
* `specSt`                                                    the synchronous semantics (`worldStep` per communication)
                                                              for the schedules an asynchronous run happened to take
Core Lean only.
-/
namespace DV.C05

/-! ### the completion loops of `sendRecv` -/

/-- the value of a loop bound read from the source -/
def Comm.boundVal (c : Comm) (fwd : Bool) : Gen.Bound → Nat
  | .neighbours => c.msgs.length
  | .realRecvs => (c.postedRecvs fwd).length

/-- the neighbours whose send request is waited for before `sendRecv` returns: `sendRequests[i]` belongs to the `i`-th
    entry of `messageInformation_`; the loop covers the first `Gen.sendWaitBound` entries (inactive ones are
    `MPI_REQUEST_NULL`) -/
def Comm.waitedSends (c : Comm) (fwd : Bool) : List Nat :=
  ((c.msgs.take (c.boundVal fwd Gen.sendWaitBound)).filter fun e => (sendMsgInfo fwd e.2).size != 0).map (·.1)

/-- number of `MPI_Waitany` calls, and the number of entries of `recvRequests` they look at -/
def Comm.recvLoopIters (c : Comm) (fwd : Bool) : Nat := c.boundVal fwd Gen.recvLoopBound
def Comm.recvWaitCount (c : Comm) (fwd : Bool) : Nat := c.boundVal fwd Gen.recvWaitCount

/-! ### the local stages of one `sendRecv` -/

section
variable {Val Data : Type}

def PState.setSendB (st : PState Val Data) (fwd : Bool) (b : List Val) : PState Val Data :=
  if fwd then { st with b0 := b } else { st with b1 := b }
def PState.setRecvB (st : PState Val Data) (fwd : Bool) (b : List Val) : PState Val Data :=
  if fwd then { st with b1 := b } else { st with b0 := b }

/-- `MessageGatherer` of process `p` -/
def gatherP (comm : Nat → Comm) (gather : Data → Nat → Nat → Val) (fwd : Bool) (p : Nat) (s : PState Val Data) :
    PState Val Data :=
  s.setSendB fwd (overwritePrefix (s.sendB fwd) ((comm p).sendBuf fwd (gather (s.cont.get (!fwd)))))

/-- the message `m` of process `p` lands in the receive buffer of process `q` -/
def landP (comm : Nat → Comm) (fwd : Bool) (q p : Nat) (m : List Val) (s : PState Val Data) : PState Val Data :=
  s.setRecvB fwd (match (comm q).msg p with
    | some mi => writeAt (s.recvB fwd) (recvMsgInfo fwd mi).start m
    | none => s.recvB fwd)

/-- the scatter calls of process `q` (completion order `order`) -/
def finishP (comm : Nat → Comm) (scatter : Data → Val → Nat → Nat → Data) (fwd : Bool) (q : Nat) (order : List Nat)
    (s : PState Val Data) : PState Val Data :=
  { s with cont := s.cont.set fwd (applyCalls scatter (s.cont.get fwd) ((comm q).roundCalls fwd (s.recvB fwd) order)) }

/-- the user assigns new values between two communications -/
def applyPre (f : Cont Data → Cont Data) (s : PState Val Data) : PState Val Data := { s with cont := f s.cont }

/-! ### the asynchronous system -/

/-- one process: state of containers and buffers, number of finished communications, whether it is inside `sendRecv`,
    the receives it still waits for, the neighbours whose message has landed (in landing order), and the sends it has
    posted that are not yet transferred, oldest first, as (destination, communication in which it was posted) -/
structure AProc (Val Data : Type) where
  st : PState Val Data
  k : Nat
  inC : Bool
  pendR : List Nat
  arrd : List Nat
  outS : List (Nat × Nat)

/-- the parameters: communicators, policies, the directions of the history, what the user does before communication `k`
    on process `p` -/
structure ASys (Val Data : Type) where
  P : Nat
  comm : Nat → Comm
  gather : Data → Nat → Nat → Val
  scatter : Data → Val → Nat → Nat → Data
  dirs : List Bool
  pre : Nat → Nat → Cont Data → Cont Data

def ASys.dir (A : ASys Val Data) (k : Nat) : Bool := A.dirs.getD k true

/-- the schedules an execution has taken so far: per (communication, process) landing and completion order -/
abbrev Ghost := Nat → Nat → Option (List Nat × List Nat)

structure AState (Val Data : Type) where
  σ : Nat → AProc Val Data
  gh : Ghost

def upd {α : Type} (f : Nat → α) (p : Nat) (v : α) : Nat → α := fun x => if x = p then v else f x

/-- `p` enters communication `k`: user values, gather, `MPI_Irecv`s, `MPI_Issend`s -/
def enterProc (A : ASys Val Data) (p : Nat) (a : AProc Val Data) : AProc Val Data :=
  { st := gatherP A.comm A.gather (A.dir a.k) p (applyPre (A.pre a.k p) a.st),
    k := a.k, inC := true,
    pendR := (A.comm p).postedRecvs (A.dir a.k), arrd := [],
    outS := a.outS ++ ((A.comm p).postedSends (A.dir a.k)).map fun q => (q, a.k) }

/-- the message MPI transfers for the send `p` posted to `q` in communication `k'`: read from `p`'s buffer NOW -/
def transferMsg (A : ASys Val Data) (p q k' : Nat) (a : AProc Val Data) : List Val :=
  (A.comm p).msgTo (A.dir k') (a.st.sendB (A.dir k')) q

/-- the receiving side of a transfer -/
def landProc (A : ASys Val Data) (q p : Nat) (m : List Val) (b : AProc Val Data) : AProc Val Data :=
  { b with st := landP A.comm (A.dir b.k) q p m b.st, pendR := b.pendR.erase p, arrd := b.arrd ++ [p] }

/-- `p` leaves `sendRecv` -/
def finishProc (A : ASys Val Data) (p : Nat) (order : List Nat) (a : AProc Val Data) : AProc Val Data :=
  { a with st := finishP A.comm A.scatter (A.dir a.k) p order a.st, k := a.k + 1, inC := false, pendR := [], arrd := [] }

inductive AStep (A : ASys Val Data) : AState Val Data → AState Val Data → Prop where
  | enter (s : AState Val Data) (p : Nat) : p < A.P → (s.σ p).inC = false → (s.σ p).k < A.dirs.length →
      AStep A s { σ := upd s.σ p (enterProc A p (s.σ p)), gh := s.gh }
  /-- the oldest send of `p` to `q` that is still outstanding is matched with the receive `q` has posted for `p` -/
  | transfer (s : AState Val Data) (p q k' : Nat) (pre post : List (Nat × Nat)) : p < A.P → q < A.P →
      (s.σ p).outS = pre ++ (q, k') :: post → (∀ e ∈ pre, e.1 ≠ q) → (s.σ q).inC = true → p ∈ (s.σ q).pendR →
      AStep A s
        { σ := let σ1 := upd s.σ p { s.σ p with outS := pre ++ post }
               upd σ1 q (landProc A q p (transferMsg A p q k' (s.σ p)) (σ1 q)),
          gh := s.gh }
  /-- all receives are complete (the `MPI_Waitany` loop), the sends that are waited for have been transferred -/
  | finish (s : AState Val Data) (p : Nat) (order : List Nat) : p < A.P → (s.σ p).inC = true → (s.σ p).pendR = [] →
      (∀ e ∈ (s.σ p).outS, e.2 = (s.σ p).k → e.1 ∉ (A.comm p).waitedSends (A.dir (s.σ p).k)) →
      order.Perm (s.σ p).arrd →
      AStep A s
        { σ := upd s.σ p (finishProc A p order (s.σ p)),
          gh := fun k x => if k = (s.σ p).k ∧ x = p then some ((s.σ p).arrd, order) else s.gh k x }

def AState.init (st0 : Nat → PState Val Data) : AState Val Data :=
  { σ := fun p => { st := st0 p, k := 0, inC := false, pendR := [], arrd := [], outS := [] }, gh := fun _ _ => none }

inductive AReach (A : ASys Val Data) (st0 : Nat → PState Val Data) : AState Val Data → Prop where
  | init : AReach A st0 (AState.init st0)
  | step {s s' : AState Val Data} : AReach A st0 s → AStep A s s' → AReach A st0 s'

/-! ### the synchronous semantics for given schedules -/

def roundOf (A : ASys Val Data) (sched : Nat → Nat → List Nat × List Nat) (k : Nat) : Round :=
  { fwd := A.dir k, arr := fun q => (sched k q).1, order := fun q => (sched k q).2 }

/-- the state of all processes after `k` collective communications (with the user's assignments in between) -/
def specSt (A : ASys Val Data) (st0 : Nat → PState Val Data) (sched : Nat → Nat → List Nat × List Nat) :
    Nat → Nat → PState Val Data
  | 0 => st0
  | k + 1 => worldStep A.comm A.gather A.scatter (roundOf A sched k)
      (fun p => applyPre (A.pre k p) (specSt A st0 sched k p))

/-- the message `p` sends to `q` in the `k`-th collective communication -/
def specMsg (A : ASys Val Data) (st0 : Nat → PState Val Data) (sched : Nat → Nat → List Nat × List Nat) (k p q : Nat) :
    List Val :=
  (A.comm p).msgTo (A.dir k)
    ((gatherP A.comm A.gather (A.dir k) p (applyPre (A.pre k p) (specSt A st0 sched k p))).sendB (A.dir k)) q

/-- `sched` agrees with the recorded schedules -/
def Extends (sched : Nat → Nat → List Nat × List Nat) (gh : Ghost) : Prop :=
  ∀ k p v, gh k p = some v → sched k p = v

end

end DV.C05
