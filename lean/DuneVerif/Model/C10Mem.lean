/-
C10 — memory-level model of the compound operators (round four).

The value-level model (`Model/C10.lean`) treats `d op= s` as a function of two digit lists.  The real operators work
IN PLACE on the storage `digit[n]` of `*this`, and the right operand is a reference that may denote the very same
storage (`a += a`, `a -= a`, `a &= a`, …): then every read of `x.digit[i]` sees what the loop has already written.
Here the loops are modelled on an indexed store with explicit reads (`getD i`) and writes (`set i`), the right operand
being either other storage or an alias of the destination, read at the time of the access; theorem `alias_refines`
(Props) shows that this equals the value-level model — i.e. that the loops tolerate aliasing — and the driver runs THIS
model for the statements `d op= s` of a history.  Core Lean only.
-/
import DuneVerif.Model.C10Prog
import DuneVerif.Model.C10Hist

namespace DV.C10
open DV.C10.Gen

/-- body of one round of a digit loop: (digit[i], x.digit[i], carry) ↦ (new digit[i], new carry) -/
abbrev Round := Nat → Nat → Nat → Nat × Nat

/-- `operator+=`: sum = a + x + overflow; digit = sum & bitmask; overflow = (sum >> bits) & overflowmask -/
def addRound : Round := fun a x c => ((a + x + c) &&& bitmask, ((a + x + c) >>> bits) &&& overflowmask)

/-- `operator-=`: diff = a - x - overflow; `diff >= 0` keeps it, else `diff + bitmask + 1` and borrow -/
def subRound : Round := fun a x c =>
  if x + c ≤ a then (a - (x + c), 0) else (a + bitmask + 1 - (x + c), 1)

def andRound : Round := fun a x c => (a &&& x, c)
def orRound : Round := fun a x c => (a ||| x, c)
def xorRound : Round := fun a x c => (a ^^^ x, c)

/-- `for (unsigned i = 0; i < n; i++) { … digit[i] … x.digit[i] … digit[i] = …; }` on the store `mem` of `*this`.
    With `ali` (alias) the operand `x` IS `mem` (read after the writes of earlier rounds); otherwise it is the store `x`.
    `fuel` counts the remaining rounds (`n - i`). -/
def memLoop (f : Round) (ali : Bool) (x : List Nat) : Nat → Nat → Nat → List Nat → List Nat
  | 0, _, _, mem => mem
  | fuel + 1, i, c, mem =>
    let ai := mem.getD i 0
    let xi := if ali then mem.getD i 0 else x.getD i 0
    memLoop f ali x fuel (i + 1) (f ai xi c).2 (mem.set i (f ai xi c).1)

/-- the same loop on values: both operands are immutable lists -/
def zipLoop (f : Round) : List Nat → List Nat → Nat → List Nat
  | a :: as, x :: xs, c => (f a x c).1 :: zipLoop f as xs (f a x c).2
  | _, _, _ => []

/-- a compound operator on the store `mem` of the destination; the right operand is `mem` itself (`ali`: the operand aliases the destination) or `x` -/
def applyBinMem (k : Nat) (o : BinOp) (ali : Bool) (mem x : List Nat) : Res :=
  let n := mem.length
  match o with
  | .add => .ok (memLoop addRound ali x n 0 0 mem)
  | .sub => .ok (memLoop subRound ali x n 0 0 mem)
  | .band => .ok (memLoop andRound ali x n 0 0 mem)
  | .bor => .ok (memLoop orRound ali x n 0 0 mem)
  | .bxor => .ok (memLoop xorRound ali x n 0 0 mem)
  -- `*=` only reads `digit[i]` and `x.digit[m]` while it fills its double-width temporary, and copies the low digits
  -- back after the loops: the reads see the unmodified store whether or not `x` is an ali
  | .mul => .ok (mul k mem (if ali then mem else x))
  -- `/=`, `%=` (after fix C10_divmod_self_alias) first copy the divisor: `const bigunsignedint<k> divisor(x);`
  | .div => let divisor := if ali then mem else x; div mem divisor
  | .mod => let divisor := if ali then mem else x; mod mem divisor

/-- one statement, with `d op= s` executed on the store of `d` (the operand `s` is an alias iff it is the same variable) -/
def stepMem (k : Nat) (r : Regs) : Stmt → Option (Regs × Obs)
  | .old (.bin o d s) => some (commitObs r d (applyBinMem k o (d == s) (r.get d) (r.get s)))
  | st => step4 k r st

def runMem (k : Nat) : Regs → List Stmt → Option (List Obs × Regs)
  | r, [] => some ([], r)
  | r, s :: ss =>
    match stepMem k r s with
    | none => none
    | some (r', o) =>
      match runMem k r' ss with
      | none => none
      | some (os, r'') => some (o :: os, r'')

end DV.C10
