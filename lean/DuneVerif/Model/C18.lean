/-
C18 — path and string utilities (dune/common/path.cc, path.hh, stringutility.hh).

Strings are `List Char` (`Str`).  Two levels (DESIGN.md 3.2):

* **faithful, character level** — `processPathC` transcribes `Dune::processPath` pass by pass
  (append '/', collapse "//", drop "/./", erase a leading "./", the `find("/../")`/back-up loop);
  `concatPaths`, `pathIndicatesDirectory`, `prettyPath`, `relativePath`, `hasPrefix`, `hasSuffix`,
  `formatString` transcribe their C++ bodies statement by statement.  This is what the driver runs.
* **spec level** — `splitSlash`, `denote`, `render`, `processPathS`: split into components, drop
  empty and "." components, resolve ".." with a stack, clamp at the root.

Core Lean only (linked into the driver).
-/
import DuneVerif.Common.Proto

namespace DV.C18

abbrev Str := List Char

/-! ## stringutility.hh -/

/-- `std::equal(first, first+len, it)`: compare the `len = |pat|` elements of `pat` with the elements
    starting at `it`.  (`[]` on the right is an out-of-range read; both callers exclude it by their
    size test — see `hasPrefix`, `hasSuffix`.) -/
def equalRange : Str → Str → Bool
  | [], _ => true
  | _ :: _, [] => false
  | a :: p, b :: c => a == b && equalRange p c

/-- `c.size() >= len && std::equal(prefix, prefix+len, c.begin())` -/
def hasPrefix (c pre : Str) : Bool :=
  decide (c.length ≥ pre.length) && equalRange pre c

/-- `if(c.size() < len) return false; it = c.begin() + (c.size()-len); return std::equal(suffix, suffix+len, it)` -/
def hasSuffix (c suf : Str) : Bool :=
  if c.length < suf.length then false
  else equalRange suf (c.drop (c.length - suf.length))

/-- `std::snprintf(buf, cap, fmt, args...)` where `ideal` is the complete formatted text:
    the buffer receives at most `cap-1` characters (then NUL), the return value is the ideal length. -/
def snprintfM (cap : Nat) (ideal : Str) : Str × Nat :=
  (if cap = 0 then [] else ideal.take (cap - 1), ideal.length)

def bufferSize : Nat := 1000

/-- `formatString`: stack buffer of `bufferSize`, and if `r >= bufferSize` a heap buffer of `r+1`.
    (`r < 0` — an output error of snprintf — does not occur for an ideal text and is not modelled.) -/
def formatString (ideal : Str) : Str :=
  let (buffer, r) := snprintfM bufferSize ideal
  if r < bufferSize then buffer
  else
    let dynamicBufferSize := r + 1
    let (dynamicBuffer, _) := snprintfM dynamicBufferSize ideal
    dynamicBuffer

/-! ### the printf subset used by the correspondence (`%%`, `%[-][0][width]d`, `%[-][width]s`) -/

inductive FArg where
  | int (i : Int)
  | str (s : Str)

def digitsOf : Str → Nat := fun s => s.foldl (fun a c => a * 10 + (c.toNat - '0'.toNat)) 0

def padTo (w : Nat) (left zero : Bool) (body : Str) (neg : Bool) : Str :=
  let len := body.length + (if neg then 1 else 0)
  let sign : Str := if neg then ['-'] else []
  if len ≥ w then sign ++ body
  else if left then sign ++ body ++ List.replicate (w - len) ' '
  else if zero then sign ++ List.replicate (w - len) '0' ++ body
  else List.replicate (w - len) ' ' ++ sign ++ body

/-- ideal output of the printf subset; `none` for anything outside it -/
def formatIdeal : Nat → Str → List FArg → Option Str
  | 0, _, _ => none
  | _, [], [] => some []
  | _, [], _ :: _ => none
  | fuel+1, c :: f, args =>
    if c ≠ '%' then (formatIdeal fuel f args).map (c :: ·)
    else match f with
      | '%' :: f' => (formatIdeal fuel f' args).map ('%' :: ·)
      | _ =>
        let left := f.head? = some '-'
        let f1 := if left then f.drop 1 else f
        let zero := f1.head? = some '0'
        let f2 := if zero then f1.drop 1 else f1
        let wd := f2.takeWhile Char.isDigit
        let f3 := f2.drop wd.length
        let w := digitsOf wd
        match f3, args with
        | 'd' :: f4, .int i :: as =>
          (formatIdeal fuel f4 as).map (padTo w left zero (toString i.natAbs).toList (i < 0) ++ ·)
        | 's' :: f4, .str s :: as =>
          if zero then none else (formatIdeal fuel f4 as).map (padTo w left false s false ++ ·)
        | _, _ => none

/-! ## path.cc, character level -/

/-- `concatPaths` -/
def concatPaths (base p : Str) : Str :=
  if p = [] then base
  else if p.head? = some '/' then p
  else if base = [] then p
  else if hasSuffix base ['/'] then base ++ p
  else base ++ '/' :: p

/-- `if(result != "") result += '/';` -/
def appendSlash (p : Str) : Str := if p ≠ [] then p ++ ['/'] else p

/-- pass 1, `collapse any occurrence of multiple '/' to a single '/'`.
    The argument is the unread part `result[src..]`, the value is what is written to `result[0..dst)`
    (`dst ≤ src` throughout, so writes never touch unread input).  `skip = true` is the inner
    `while(src < size && result[src]=='/') ++src` that runs after a '/' has been copied. -/
def collapseSlashes : Bool → Str → Str
  | _, [] => []
  | skip, c :: r =>
    if c = '/' then (if skip then collapseSlashes true r else '/' :: collapseSlashes true r)
    else c :: collapseSlashes false r

/-- pass 2, `collapse any occurrence of "/./" to "/"`.  `skip = true` is the inner
    `while(src+1 < size && result[src]=='.' && result[src+1]=='/') src+=2` after a '/' has been copied. -/
def dropDotSlash : Bool → Str → Str
  | _, [] => []
  | _, [c] => [c]
  | skip, c :: d :: r =>
    if skip ∧ c = '.' ∧ d = '/' then dropDotSlash true r
    else c :: dropDotSlash (c == '/') (d :: r)

/-- pass 3, `if(hasPrefix(result, "./")) result.erase(0, 2);` -/
def eraseLeadingDotSlash (s : Str) : Str :=
  if hasPrefix s ['.', '/'] then s.drop 2 else s

def patUp : Str := ['/', '.', '.', '/']

/-- `src = result.find("/../", src)`.  The string with cursor `src` is kept as (`l` = `result[0..src)`
    reversed, `r` = `result[src..]`); the answer is the cursor moved to the first match at or after `src`. -/
def findUp : Str → Str → Option (Str × Str)
  | _, [] => none
  | l, c :: r => if hasPrefix (c :: r) patUp then some (l, c :: r) else findUp (c :: l) r

/-- pass 4, `remove any "<component>/../" pairs`: the `while(true)` loop, one iteration per unit of fuel.
    State: `result = l.reverse ++ r`, `src = l.length`. -/
def resolveLoop : Nat → Str → Str → Str
  | 0, l, r => l.reverse ++ r
  | fuel+1, l, r =>
    match findUp l r with
    | none => l.reverse ++ r                                  -- npos: break
    | some (l', r') =>
      -- for(dst = src; dst > 0 && result[dst-1] != '/'; --dst) ;   `comp` = result[dst..src) reversed
      let comp := l'.takeWhile (· ≠ '/')
      if comp = ['.', '.'] then
        -- don't remove "../../":  src += 3; continue
        resolveLoop fuel ((r'.take 3).reverse ++ l') (r'.drop 3)
      else if comp = [] then
        -- dst == src: result.erase(0, 3)   (src keeps its numeric value)
        let full := (l'.reverse ++ r').drop 3
        resolveLoop fuel (full.take l'.length).reverse (full.drop l'.length)
      else
        -- result.erase(dst, src-dst+4); src = dst; if(src > 0) --src;
        let l2 := l'.drop comp.length
        let r2 := r'.drop 4
        match l2 with
        | [] => resolveLoop fuel [] r2
        | c :: l3 => resolveLoop fuel l3 (c :: r2)

/-- every iteration either erases a ".." component or steps over one, so `length + 1` iterations suffice -/
def resolveUps (s : Str) : Str := resolveLoop (s.length + 1) [] s

/-- `Dune::processPath`, pass by pass -/
def processPathC (p : Str) : Str :=
  let r0 := appendSlash p
  let r1 := collapseSlashes false r0
  let r2 := dropDotSlash false r1
  let r3 := eraseLeadingDotSlash r2
  resolveUps r3

/-- `pathIndicatesDirectory` -/
def pathIndicatesDirectory (p : Str) : Bool :=
  if p = [] then true
  else if p = ['.'] then true
  else if p = ['.', '.'] then true
  else if hasSuffix p ['/'] then true
  else if hasSuffix p ['/', '.'] then true
  else if hasSuffix p ['/', '.', '.'] then true
  else false

/-- `prettyPath(p, isDirectory)`, parameterised by the sanitiser -/
def prettyPathWith (proc : Str → Str) (p : Str) (isDirectory : Bool) : Str :=
  let result := proc p
  if result = [] then ['.']
  else if result = ['/'] then result
  else
    let result := result.take (result.length - 1)          -- result.resize(result.size()-1)
    if result = ['.', '.'] || hasSuffix result ['/', '.', '.'] then result
    else if isDirectory then result ++ ['/']
    else result

def prettyPath (p : Str) (isDirectory : Bool) : Str := prettyPathWith processPathC p isDirectory

/-- `prettyPath(p)` -/
def prettyPathAuto (p : Str) : Str := prettyPath p (pathIndicatesDirectory p)

inductive RelRes where
  | ok (r : Str)
  | notImplemented
  deriving DecidableEq, Repr

/-- `while(preflen < mybase.size() && preflen < myp.size() && mybase[preflen] == myp[preflen]) ++preflen;` -/
def commonPrefixLen : Str → Str → Nat
  | a :: x, b :: y => if a = b then commonPrefixLen x y + 1 else 0
  | _, _ => 0

/-- `while(preflen > 0 && myp[preflen-1] != '/') --preflen;` -/
def backUp (myp : Str) : Nat → Nat
  | 0 => 0
  | n+1 => if myp[n]? = some '/' then n + 1 else backUp myp n

/-- `relativePath(newbase, p)`, parameterised by the sanitiser -/
def relativePathWith (proc : Str → Str) (newbase p : Str) : RelRes :=
  let absbase := hasPrefix newbase ['/']
  let absp := hasPrefix p ['/']
  if absbase != absp then .notImplemented
  else
    let mybase := proc newbase
    let myp := proc p
    let preflen := backUp myp (commonPrefixLen mybase myp)
    let mybase := mybase.drop preflen
    let myp := myp.drop preflen
    if hasPrefix mybase ['.', '.', '/'] then .notImplemented
    else
      let count := mybase.count '/'
      .ok ((List.replicate count ['.', '.', '/']).flatten ++ myp)

def relativePath (newbase p : Str) : RelRes := relativePathWith processPathC newbase p

/-! ## spec level -/

/-- the components of a path: the pieces between the '/' characters (always at least one piece) -/
def splitSlash : Str → List Str
  | [] => [[]]
  | c :: r =>
    if c = '/' then [] :: splitSlash r
    else match splitSlash r with
      | h :: t => (c :: h) :: t
      | [] => [[c]]

def dot : Str := ['.']
def dotdot : Str := ['.', '.']

/-- a location: absolute or relative to the unspecified current directory, `ups` levels up, then down
    through `names` (outermost first) -/
structure Loc where
  abs : Bool
  ups : Nat
  names : List Str
  deriving DecidableEq, Repr

/-- walk one component: ".." pops a name, or is swallowed at the root, or counts one level up -/
def Loc.walk (d : Loc) (c : Str) : Loc :=
  if c = dotdot then
    if d.names ≠ [] then { d with names := d.names.dropLast }
    else if d.abs then d
    else { d with ups := d.ups + 1 }
  else { d with names := d.names ++ [c] }

/-- the components that matter: not empty, not "." -/
def comps (p : Str) : List Str := (splitSlash p).filter (fun c => c ≠ [] ∧ c ≠ dot)

def isAbs (p : Str) : Bool := p.head? = some '/'

/-- the location a path string denotes -/
def denote (p : Str) : Loc := (comps p).foldl Loc.walk ⟨isAbs p, 0, []⟩

/-- each component followed by one '/' -/
def joinSlash (cs : List Str) : Str := cs.flatMap (· ++ ['/'])

/-- the documented normal form of a location -/
def render (d : Loc) : Str :=
  (if d.abs then ['/'] else []) ++ joinSlash (List.replicate d.ups dotdot ++ d.names)

/-- a name component: not empty, no '/', neither "." nor ".." -/
def IsName (n : Str) : Prop := n ≠ [] ∧ '/' ∉ n ∧ n ≠ dot ∧ n ≠ dotdot

/-- a location in canonical shape: absolute locations have no levels up; names are proper names -/
def Loc.Valid (d : Loc) : Prop := (d.abs = true → d.ups = 0) ∧ ∀ n ∈ d.names, IsName n

/-- the documented normal form of `processPath`: an optional root '/', then ".." components (only if
    relative), then names, every component followed by exactly one '/' -/
def NormalForm (s : Str) : Prop := ∃ d : Loc, d.Valid ∧ s = render d

/-- spec of processPath -/
def processPathS (p : Str) : Str := render (denote p)

/-- the documented table of prettyPath, read off the location -/
def prettySpec (d : Loc) (isDirectory : Bool) : Str :=
  if d.names = [] then
    if d.ups = 0 then (if d.abs then ['/'] else ['.'])   -- root resp. current directory
    else (render d).dropLast                               -- ends in "..": never a trailing '/'
  else if isDirectory then render d                        -- "<...>/name/"
  else (render d).dropLast                                 -- "<...>/name"

def prettyPathS (p : Str) (isDirectory : Bool) : Str := prettyPathWith processPathS p isDirectory
def relativePathS (newbase p : Str) : RelRes := relativePathWith processPathS newbase p

end DV.C18
