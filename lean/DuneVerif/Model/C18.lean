/-
C18 — path and string utilities (dune/common/path.cc, path.hh, stringutility.hh).

Strings are `List Char` (`Str`, defined in Model/C18/Str.lean together with `equalRange` = std::equal).
`bufferSize`, `pathIndicatesDirectory`, `concatPaths`, both overloads of `prettyPath` (`prettyPathWith`,
`prettyPathAutoWith`), `hasPrefix`, `hasSuffix` and the control skeleton of `formatString` (`fmtFitsStack`,
`fmtDynamicSize`) are REGENERATED
from the source on every run (Gen/C18.lean, tools/translators/tr_c18.py).  Two levels (DESIGN.md 3.2):

* **faithful, character level** — `processPathC` transcribes `Dune::processPath` pass by pass
  (append '/', collapse "//", drop "/./", erase a leading "./", the `find("/../")`/back-up loop);
  `prettyPath`, `relativePath`, `formatString` transcribe their C++ bodies statement by statement.
  This is what the driver runs.
* **spec level** — `splitSlash`, `denote`, `render`, `processPathS`: split into components, drop
  empty and "." components, resolve ".." with a stack, clamp at the root.

Core Lean only (linked into the driver).
-/
import DuneVerif.Gen.C18

namespace DV.C18

/-! ## stringutility.hh: formatString -/

/-- `INT_MAX`: the largest value `std::snprintf` can return -/
def intMax : Nat := 2147483647

/-- `std::snprintf(buf, cap, fmt, args...)`.  `ideal` is the complete formatted text, or `none` if a
    conversion fails (e.g. `%lc` with a wide character the locale cannot encode).  Result `none` = a
    negative return value (conversion error, or the length is not representable in `int`:
    EOVERFLOW); otherwise the buffer receives at most `cap-1` characters (then NUL) and the return value
    is the ideal length. -/
def snprintfM (cap : Nat) (ideal : Option Str) : Option (Str × Nat) :=
  match ideal with
  | none => none
  | some t =>
    if t.length > intMax then none
    else some (if cap = 0 then [] else t.take (cap - 1), t.length)

/-- outcome of formatString: the string, or `DUNE_THROW(Dune::Exception, ...)` -/
inductive FmtRes where
  | ok (s : Str)
  | exception
  deriving DecidableEq, Repr

/-- `formatString` with a stack buffer of `bufSize`: try the stack buffer; a negative return throws; if
    `r >= bufSize` format again into a heap buffer of `size_t(r)+1` (after fixes/C18_fmt_intmax.patch; the
    unpatched `int dynamicBufferSize = r+1` overflows for r = INT_MAX) and check the return value again.
    (`std::bad_alloc` — memory exhaustion of the process — is not modelled.) -/
def formatStringWith (bufSize : Nat) (ideal : Option Str) : FmtRes :=
  match snprintfM bufSize ideal with
  | none => .exception                                   -- if (r<0) DUNE_THROW
  | some (buffer, r) =>
    if fmtFitsStack r bufSize then .ok buffer             -- if (r<bufferSize) return std::string(buffer)   [regenerated]
    else
      let dynamicBufferSize := fmtDynamicSize r            -- static_cast<std::size_t>(r)+1                  [regenerated]
      match snprintfM dynamicBufferSize ideal with
      | none => .exception
      | some (dynamicBuffer, _) => .ok dynamicBuffer

/-- `Dune::formatString` (buffer size as in the current source, `Gen.bufferSize`) -/
def formatString (ideal : Option Str) : FmtRes := formatStringWith bufferSize ideal

/-- the outcome class (returns / throws) as a function of the length of the ideal text alone; the driver uses
    it for results too long to be built as a list (`F` ops); tied to `formatString` by `formatString_outcome` -/
def formatReturns (len : Nat) : Bool := decide (len ≤ intMax)

/-! ### the printf subset used by the correspondence
`%%`, `%[-][+][0][width|*]{d,ld,lld}`, `%[-][0][width|*]{u,zu,x,X,o}`, `%[-][width|*][.prec]s`, `%[-][width|*]{c,lc}`
(`*` takes the width from an `int` argument, a negative one means `-` and its absolute value; round four added
`+`, `*`, `.prec`, `lld`, `zu`, `X`, `o`) -/

inductive FArg where
  | int (i : Int)        -- `int` for %d and for a `*` width
  | long (i : Int)       -- `long` for %ld
  | llong (i : Int)      -- `long long` for %lld
  | uns (n : Nat)        -- `unsigned` for %u, %x, %X, %o
  | size (n : Nat)       -- `std::size_t` for %zu
  | chr (code : Nat)     -- `char` for %c (1..255)
  | wchr (code : Nat)    -- `wint_t` for %lc (classic locale: codes >= 128 cannot be converted)
  | str (s : Str)        -- `const char*` for %s

/-- ideal output of a format: the text, a conversion error (snprintf returns a negative value), or a format
    outside the modelled subset -/
inductive Ideal where
  | text (s : Str)
  | convError
  | outside

def Ideal.prepend (pre : Str) : Ideal → Ideal
  | .text s => .text (pre ++ s)
  | x => x

def digitsOf : Str → Nat := fun s => s.foldl (fun a c => a * 10 + (c.toNat - '0'.toNat)) 0

def padTo (w : Nat) (left zero : Bool) (body : Str) (sign : Str) : Str :=
  let len := body.length + sign.length
  if len ≥ w then sign ++ body
  else if left then sign ++ body ++ List.replicate (w - len) ' '
  else if zero then sign ++ List.replicate (w - len) '0' ++ body
  else List.replicate (w - len) ' ' ++ sign ++ body

/-- the sign of a signed conversion: '-' for negative values, '+' for the others under the `+` flag -/
def signOf (plus : Bool) (i : Int) : Str := if i < 0 then ['-'] else if plus then ['+'] else []

def hexDigits (n : Nat) : Str := (Nat.toDigits 16 n)

/-- the field width: digits, or `*` = taken from the next (`int`) argument; -> (width, left-justify because the
    `*` argument was negative, rest of the format, rest of the arguments) -/
def widthOf (f : Str) (args : List FArg) : Option (Nat × Bool × Str × List FArg) :=
  match f, args with
  | '*' :: f', .int i :: as => some (i.natAbs, decide (i < 0), f', as)
  | '*' :: _, _ => none
  | _, _ =>
    let wd := f.takeWhile Char.isDigit
    some (digitsOf wd, false, f.drop wd.length, args)

/-- the precision `.digits` -/
def precOf (f : Str) : Option Nat × Str :=
  match f with
  | '.' :: f' =>
    let pd := f'.takeWhile Char.isDigit
    (some (digitsOf pd), f'.drop pd.length)
  | _ => (none, f)

def formatIdeal : Nat → Str → List FArg → Ideal
  | 0, _, _ => .outside
  | _, [], [] => .text []
  | _, [], _ :: _ => .outside
  | fuel+1, c :: f, args =>
    if c ≠ '%' then (formatIdeal fuel f args).prepend [c]
    else match f with
      | '%' :: f' => (formatIdeal fuel f' args).prepend ['%']
      | _ =>
        let left0 : Bool := f.head? == some '-'
        let f1 := if left0 then f.drop 1 else f
        let plus : Bool := f1.head? == some '+'
        let f1 := if plus then f1.drop 1 else f1
        let zero : Bool := f1.head? == some '0'
        let f2 := if zero then f1.drop 1 else f1
        match widthOf f2 args with
        | none => .outside
        | some (w, negw, f3, args) =>
        let left := left0 || negw
        let (prec, f3) := precOf f3
        -- with '-' the '0' flag is ignored (C standard)
        let zero' := zero && !left
        let signed (f4 : Str) (i : Int) (as : List FArg) : Ideal :=
          if prec.isSome then .outside
          else (formatIdeal fuel f4 as).prepend (padTo w left zero' (toString i.natAbs).toList (signOf plus i))
        let unsigned (f4 : Str) (body : Str) (as : List FArg) : Ideal :=
          if prec.isSome ∨ plus then .outside
          else (formatIdeal fuel f4 as).prepend (padTo w left zero' body [])
        match f3, args with
        | 'd' :: f4, .int i :: as => signed f4 i as
        | 'l' :: 'd' :: f4, .long i :: as => signed f4 i as
        | 'l' :: 'l' :: 'd' :: f4, .llong i :: as => signed f4 i as
        | 'u' :: f4, .uns n :: as => unsigned f4 (toString n).toList as
        | 'z' :: 'u' :: f4, .size n :: as => unsigned f4 (toString n).toList as
        | 'x' :: f4, .uns n :: as => unsigned f4 (hexDigits n) as
        | 'X' :: f4, .uns n :: as => unsigned f4 ((hexDigits n).map Char.toUpper) as
        | 'o' :: f4, .uns n :: as => unsigned f4 (Nat.toDigits 8 n) as
        | 's' :: f4, .str s :: as =>
          if zero ∨ plus then .outside
          else (formatIdeal fuel f4 as).prepend (padTo w left false (match prec with | some n => s.take n | none => s) [])
        | 'c' :: f4, .chr code :: as =>
          if zero ∨ plus ∨ prec.isSome ∨ code = 0 ∨ code > 255 then .outside
          else (formatIdeal fuel f4 as).prepend (padTo w left false [Char.ofNat code] [])
        | 'l' :: 'c' :: f4, .wchr code :: as =>
          if zero ∨ plus ∨ prec.isSome ∨ code = 0 then .outside
          else if code ≥ 128 then
            (match formatIdeal fuel f4 as with | .outside => .outside | _ => .convError)
          else (formatIdeal fuel f4 as).prepend (padTo w left false [Char.ofNat code] [])
        | _, _ => .outside

/-! ## path.cc, character level -/

/-- `if(result != "") result += '/';` -/
def appendSlash (p : Str) : Str := if p ≠ [] then p ++ ['/'] else p

/-- pass 1, `collapse any occurrence of multiple '/' to a single '/'`.
    The argument is the unread part `result[src..]`, the value is what is written to `result[0..dst)`
    (`dst ≤ src` throughout, so writes never touch unread input).  `skip = true` is the inner
    `while(src < size && result[src]=='/') ++src` that runs after a '/' has been copied. -/
def collapseSlashes : Bool → Str → Str
  | _, [] => []
  | skip, c :: r =>
    if c = '/' then (if skip then collapseSlashes true r else '/' :: collapseSlashes true r)
    else c :: collapseSlashes false r

/-- pass 2, `collapse any occurrence of "/./" to "/"`.  `skip = true` is the inner
    `while(src+1 < size && result[src]=='.' && result[src+1]=='/') src+=2` after a '/' has been copied. -/
def dropDotSlash : Bool → Str → Str
  | _, [] => []
  | _, [c] => [c]
  | skip, c :: d :: r =>
    if skip ∧ c = '.' ∧ d = '/' then dropDotSlash true r
    else c :: dropDotSlash (c == '/') (d :: r)

/-- pass 3, `if(hasPrefix(result, "./")) result.erase(0, 2);` -/
def eraseLeadingDotSlash (s : Str) : Str :=
  if hasPrefix s ['.', '/'] then s.drop 2 else s

def patUp : Str := ['/', '.', '.', '/']

/-- `src = result.find("/../", src)`.  The string with cursor `src` is kept as (`l` = `result[0..src)`
    reversed, `r` = `result[src..]`); the answer is the cursor moved to the first match at or after `src`. -/
def findUp : Str → Str → Option (Str × Str)
  | _, [] => none
  | l, c :: r => if hasPrefix (c :: r) patUp then some (l, c :: r) else findUp (c :: l) r

/-- pass 4, `remove any "<component>/../" pairs`: the `while(true)` loop, one iteration per unit of fuel.
    State: `result = l.reverse ++ r`, `src = l.length`.  `none` = the fuel ran out before the loop left
    through `break` (theorem `processPath_terminates`: never happens with the fuel `resolveUps` provides). -/
def resolveLoop : Nat → Str → Str → Option Str
  | 0, _, _ => none
  | fuel+1, l, r =>
    match findUp l r with
    | none => some (l.reverse ++ r)                           -- npos: break
    | some (l', r') =>
      -- for(dst = src; dst > 0 && result[dst-1] != '/'; --dst) ;   `comp` = result[dst..src) reversed
      let comp := l'.takeWhile (· ≠ '/')
      if comp = ['.', '.'] then
        -- don't remove "../../":  src += 3; continue
        resolveLoop fuel ((r'.take 3).reverse ++ l') (r'.drop 3)
      else if comp = [] then
        -- dst == src: result.erase(0, 3)   (src keeps its numeric value)
        let full := (l'.reverse ++ r').drop 3
        resolveLoop fuel (full.take l'.length).reverse (full.drop l'.length)
      else
        -- result.erase(dst, src-dst+4); src = dst; if(src > 0) --src;
        let l2 := l'.drop comp.length
        let r2 := r'.drop 4
        match l2 with
        | [] => resolveLoop fuel [] r2
        | c :: l3 => resolveLoop fuel l3 (c :: r2)

/-- every iteration either erases a ".." component or steps over one, so `length + 1` iterations suffice -/
def resolveUps (s : Str) : Option Str := resolveLoop (s.length + 1) [] s

/-- `Dune::processPath`, pass by pass; `none` only if the loop of pass 4 did not terminate within its fuel -/
def processPathC? (p : Str) : Option Str :=
  let r0 := appendSlash p
  let r1 := collapseSlashes false r0
  let r2 := dropDotSlash false r1
  let r3 := eraseLeadingDotSlash r2
  resolveUps r3

/-- what `processPathC` answers if the fuel of pass 4 ran out.  Not a possible result of processPath (every
    result is empty or ends in '/'), and `processPath_terminates` proves it is never produced. -/
def fuelExhausted : Str := ['?']

/-- `Dune::processPath` -/
def processPathC (p : Str) : Str :=
  match processPathC? p with
  | some r => r
  | none => fuelExhausted

/-- the hand-written transcription of `prettyPath(p, isDirectory)`, parameterised by the sanitiser.  Since round four
    the driver runs `prettyPathWith` REGENERATED from path.cc (Gen/C18.lean); this canonical form is what the proofs
    work with, and `prettyPathWith_eq_canon` (Proofs/C18/Tables.lean) shows the regenerated definition equal to it. -/
def prettyCanonWith (proc : Str → Str) (p : Str) (isDirectory : Bool) : Str :=
  let result := proc p
  if result = [] then ['.']
  else if result = ['/'] then result
  else
    let result := result.take (result.length - 1)          -- result.resize(result.size()-1)
    if result = ['.', '.'] || hasSuffix result ['/', '.', '.'] then result
    else if isDirectory then result ++ ['/']
    else result

def prettyPath (p : Str) (isDirectory : Bool) : Str := prettyPathWith processPathC p isDirectory

/-- `prettyPath(p)` (the body is regenerated: `prettyPathAutoWith`, Gen/C18.lean) -/
def prettyPathAuto (p : Str) : Str := prettyPathAutoWith prettyPath p

inductive RelRes where
  | ok (r : Str)
  | notImplemented
  deriving DecidableEq, Repr

/-- `while(preflen < mybase.size() && preflen < myp.size() && mybase[preflen] == myp[preflen]) ++preflen;` -/
def commonPrefixLen : Str → Str → Nat
  | a :: x, b :: y => if a = b then commonPrefixLen x y + 1 else 0
  | _, _ => 0

/-- `while(preflen > 0 && myp[preflen-1] != '/') --preflen;` -/
def backUp (myp : Str) : Nat → Nat
  | 0 => 0
  | n+1 => if myp[n]? = some '/' then n + 1 else backUp myp n

/-- `relativePath(newbase, p)`, parameterised by the sanitiser -/
def relativePathWith (proc : Str → Str) (newbase p : Str) : RelRes :=
  let absbase := hasPrefix newbase ['/']
  let absp := hasPrefix p ['/']
  if absbase != absp then .notImplemented
  else
    let mybase := proc newbase
    let myp := proc p
    let preflen := backUp myp (commonPrefixLen mybase myp)
    let mybase := mybase.drop preflen
    let myp := myp.drop preflen
    if hasPrefix mybase ['.', '.', '/'] then .notImplemented
    else
      let count := mybase.count '/'
      .ok ((List.replicate count ['.', '.', '/']).flatten ++ myp)

def relativePath (newbase p : Str) : RelRes := relativePathWith processPathC newbase p

/-! ## spec level -/

/-- the components of a path: the pieces between the '/' characters (always at least one piece) -/
def splitSlash : Str → List Str
  | [] => [[]]
  | c :: r =>
    if c = '/' then [] :: splitSlash r
    else match splitSlash r with
      | h :: t => (c :: h) :: t
      | [] => [[c]]

def dot : Str := ['.']
def dotdot : Str := ['.', '.']

/-- a location: absolute or relative to the unspecified current directory, `ups` levels up, then down
    through `names` (outermost first) -/
structure Loc where
  abs : Bool
  ups : Nat
  names : List Str
  deriving DecidableEq, Repr

/-- walk one component: ".." pops a name, or is swallowed at the root, or counts one level up -/
def Loc.walk (d : Loc) (c : Str) : Loc :=
  if c = dotdot then
    if d.names ≠ [] then { d with names := d.names.dropLast }
    else if d.abs then d
    else { d with ups := d.ups + 1 }
  else { d with names := d.names ++ [c] }

/-- the components that matter: not empty, not "." -/
def comps (p : Str) : List Str := (splitSlash p).filter (fun c => c ≠ [] ∧ c ≠ dot)

def isAbs (p : Str) : Bool := p.head? = some '/'

/-- the location a path string denotes -/
def denote (p : Str) : Loc := (comps p).foldl Loc.walk ⟨isAbs p, 0, []⟩

/-- each component followed by one '/' -/
def joinSlash (cs : List Str) : Str := cs.flatMap (· ++ ['/'])

/-- the documented normal form of a location -/
def render (d : Loc) : Str :=
  (if d.abs then ['/'] else []) ++ joinSlash (List.replicate d.ups dotdot ++ d.names)

/-- a name component: not empty, no '/', neither "." nor ".." -/
def IsName (n : Str) : Prop := n ≠ [] ∧ '/' ∉ n ∧ n ≠ dot ∧ n ≠ dotdot

/-- a location in canonical shape: absolute locations have no levels up; names are proper names -/
def Loc.Valid (d : Loc) : Prop := (d.abs = true → d.ups = 0) ∧ ∀ n ∈ d.names, IsName n

/-- the documented normal form of `processPath`: an optional root '/', then ".." components (only if
    relative), then names, every component followed by exactly one '/' -/
def NormalForm (s : Str) : Prop := ∃ d : Loc, d.Valid ∧ s = render d

/-- spec of processPath -/
def processPathS (p : Str) : Str := render (denote p)

/-- the documented table of prettyPath, read off the location -/
def prettySpec (d : Loc) (isDirectory : Bool) : Str :=
  if d.names = [] then
    if d.ups = 0 then (if d.abs then ['/'] else ['.'])   -- root resp. current directory
    else (render d).dropLast                               -- ends in "..": never a trailing '/'
  else if isDirectory then render d                        -- "<...>/name/"
  else (render d).dropLast                                 -- "<...>/name"

/-- the components after the root of a rendered location: the leading ".." components, then the names -/
def tailList (d : Loc) : List Str := List.replicate d.ups dotdot ++ d.names

/-- drop the longest common list of leading components -/
def splitCommon : List Str → List Str → List Str × List Str
  | c :: B, c' :: P => if c = c' then splitCommon B P else (c :: B, c' :: P)
  | B, P => (B, P)

/-- the documented result of relativePath, read off the two locations: no result if one path is absolute and
    the other relative or if the base has more leading ".." than the target; otherwise drop the longest common
    list of leading components, go up once per remaining base component, then down the remaining target
    components -/
def relativeSpec (b p : Loc) : RelRes :=
  if b.abs = p.abs ∧ b.ups ≤ p.ups then
    let s := splitCommon (tailList b) (tailList p)
    .ok (joinSlash (List.replicate s.1.length dotdot ++ s.2))
  else .notImplemented

def prettyPathS (p : Str) (isDirectory : Bool) : Str := prettyPathWith processPathS p isDirectory
def relativePathS (newbase p : Str) : RelRes := relativePathWith processPathS newbase p

end DV.C18
