import DuneVerif.Model.C11.ArrayList
import DuneVerif.Model.C11.SLList
import DuneVerif.Model.C11.ReservedVector
import DuneVerif.Model.C11.BitSetVector
import DuneVerif.Model.C11.Lru
/-! C11 — the five container models (namespaces `DV.C11.AL`, `.SL`, `.RV`, `.BV`, `.LRU`). -/
