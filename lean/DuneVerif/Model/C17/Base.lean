/-
C17 — scalar layer of the model of dune/common/float_cmp.cc and math.hh.   Core Lean only.

The comparison / rounding code of dune-common is a set of templates over a scalar type `T`; the model is
generic in the same way: every function is written against the core operation classes
(`Zero`, `Neg`, `Sub`, `Mul`, `LT`, `LE` with decidable order, `IntCast`) and is used

* in `Props/C17.lean` at an arbitrary linearly ordered field (Mathlib instances) – the theorems,
* in `Driver/C17.lean` at the exact rationals (for `float`/`double` inputs on which every C++ intermediate is
  exact) and at the floating-point formats `FP f` whose operations round like IEEE 754 (binary32, binary64,
  x87 extended against the templates instantiated with `float`/`double`/`long double` on arbitrary finite
  inputs; the 8-bit format against the harness' minifloat class, exhaustively).

`absK`, `maxK`, `minK` are `std::abs`, `std::max`, `std::min` written out.
-/
namespace DV.C17

section scalar
variable {K : Type} [Zero K] [Neg K] [LT K] [DecidableLT K]

/-- `std::abs` -/
def absK (x : K) : K := if x < 0 then -x else x
/-- `std::max(a,b)` = `(a < b) ? b : a` -/
def maxK (a b : K) : K := if a < b then b else a
/-- `std::min(a,b)` = `(b < a) ? b : a` -/
def minK (a b : K) : K := if b < a then b else a

end scalar

/-! ## Exact dyadic numbers `num / 2^exp` -/

structure Dy where
  num : Int
  exp : Nat
  deriving Repr

namespace Dy

/-- `m · 2^e` for any integer exponent -/
def mk2 (m : Int) (e : Int) : Dy :=
  if e ≥ 0 then ⟨m * 2 ^ e.toNat, 0⟩ else ⟨m, (-e).toNat⟩

def ofInt (i : Int) : Dy := ⟨i, 0⟩

instance : Zero Dy := ⟨⟨0, 0⟩⟩
instance : One Dy := ⟨⟨1, 0⟩⟩
instance : IntCast Dy := ⟨ofInt⟩
instance : Neg Dy := ⟨fun a => ⟨-a.num, a.exp⟩⟩
instance : Sub Dy := ⟨fun a b => ⟨a.num * 2 ^ b.exp - b.num * 2 ^ a.exp, a.exp + b.exp⟩⟩
instance : Add Dy := ⟨fun a b => ⟨a.num * 2 ^ b.exp + b.num * 2 ^ a.exp, a.exp + b.exp⟩⟩
instance : Mul Dy := ⟨fun a b => ⟨a.num * b.num, a.exp + b.exp⟩⟩
instance : LT Dy := ⟨fun a b => a.num * 2 ^ b.exp < b.num * 2 ^ a.exp⟩
instance : LE Dy := ⟨fun a b => a.num * 2 ^ b.exp ≤ b.num * 2 ^ a.exp⟩
instance : DecidableLT Dy := fun a b => inferInstanceAs (Decidable (a.num * 2 ^ b.exp < b.num * 2 ^ a.exp))
instance : DecidableLE Dy := fun a b => inferInstanceAs (Decidable (a.num * 2 ^ b.exp ≤ b.num * 2 ^ a.exp))

/-- the rational number denoted -/
def toRat (d : Dy) : Rat := mkRat d.num (2 ^ d.exp)

def beq (a b : Dy) : Bool := a.num * 2 ^ b.exp == b.num * 2 ^ a.exp

/-- the C++ conversion `I(val)`: truncation toward zero -/
def trunc (a : Dy) : Int := Int.tdiv a.num (2 ^ a.exp)

/-- number of trailing zero bits of a positive number (fuel-bounded) -/
def tzAux : Nat → Nat → Nat → Nat
  | 0, _, acc => acc
  | fuel+1, n, acc => if n % 2 = 0 ∧ n ≠ 0 then tzAux fuel (n / 2) (acc + 1) else acc
def tz (n : Nat) : Nat := tzAux (n + 1) n 0

/-- bit length: 0 for 0, else ⌊log2 n⌋ + 1 -/
def bitlen (n : Nat) : Nat := if n = 0 then 0 else Nat.log2 n + 1

/-- normal form `(m, e)` with `m` odd (or `(0,0)`), value `m · 2^e` -/
def normal (a : Dy) : Int × Int :=
  if a.num = 0 then (0, 0) else
  let t := tz a.num.natAbs
  (a.num / (2 ^ t : Nat), (t : Int) - (a.exp : Int))

/-- printed as `m:e` in normal form -/
def str (a : Dy) : String :=
  let (m, e) := a.normal
  toString m ++ ":" ++ toString e

/-- parse `m:e` -/
def parse? (s : String) : Option Dy :=
  match s.splitOn ":" with
  | [m, e] => match m.toInt?, e.toInt? with
    | some m, some e => if e < -100000 ∨ e > 100000 then none else some (mk2 m e)
    | _, _ => none
  | _ => none

/-- `1/a` when it is dyadic (|odd part| = 1) -/
def inv? (a : Dy) : Option Dy :=
  let (m, e) := a.normal
  if m = 1 then some (mk2 1 (-e)) else if m = -1 then some (mk2 (-1) (-e)) else none

/-- division, exact only for divisors `± 2^j` (the driver checks `inv?` first) -/
instance : Div Dy := ⟨fun a b => match inv? b with
  | some i => a * i
  | none => ⟨0, 0⟩⟩

end Dy

/-! ## Binary floating-point formats with IEEE rounding (round to nearest, ties to even)

`Fmt` describes a format by its precision and exponent range; `FP f` is the set of its values.  A finite value is
stored as the integer `n` with value `n · 2^q`, `q = emin - prec + 1` the exponent of the smallest subnormal (the
"grid unit"): every finite number of the format is an integer multiple of the grid unit, so the representation
is canonical (structural equality = numerical equality; `+0` and `-0` are one value, which no function modelled
here can tell apart) and the order is the order of the integers.  Every operation is the exact operation followed
by one rounding to the format, overflow goes to infinity — the semantics of IEEE 754 binary32/binary64, of the x87
extended format and of the harness' 8-bit class `MF8` (1 sign, 4 exponent, 3 mantissa bits, bias 7). -/

structure Fmt where
  /-- significand bits including the hidden bit -/
  prec : Nat
  /-- exponent of the smallest normal number `2^emin` -/
  emin : Int
  /-- exponent of the largest binade: the largest finite number is `(2^prec - 1) · 2^(emax - prec + 1)` -/
  emax : Int
  deriving Repr, DecidableEq

namespace Fmt
/-- `-q`: the grid unit is `2^(-sh)` (all formats used here have `q ≤ 0`) -/
def sh (f : Fmt) : Nat := ((f.prec : Int) - 1 - f.emin).toNat
/-- the largest finite number in grid units -/
def maxGrid (f : Fmt) : Nat := (2 ^ f.prec - 1) * 2 ^ (f.emax - f.emin).toNat

def mf8 : Fmt := ⟨4, -6, 7⟩
/-- the harness' second 8-bit format (1 sign, 5 exponent, 2 mantissa bits, bias 15): largest number 57344 -/
def e5m2 : Fmt := ⟨3, -14, 15⟩
def f32 : Fmt := ⟨24, -126, 127⟩
def f64 : Fmt := ⟨53, -1022, 1023⟩
/-- x87 double extended (`long double` of x86-64) -/
def f80 : Fmt := ⟨64, -16382, 16383⟩
end Fmt

inductive FP (f : Fmt) where
  | fin (n : Int)
  | inf (neg : Bool)
  | nan
  deriving Repr, DecidableEq

namespace FP
variable {f : Fmt}

/-- round the magnitude `a / 2^s` grid units to the format (nearest, ties to even); result in grid units.
    The leading bit of the magnitude is at position `L - s`; values below `2^prec` grid units have ulp 1, above it
    the ulp is `2^u`, `u = L - s - prec` (both `Nat` subtractions are meant to stop at 0). -/
def roundMag (f : Fmt) (a s : Nat) : Nat :=
  let L := Dy.bitlen a
  let u : Nat := (L - s) - f.prec
  let t := s + u
  if t = 0 then a else
  let fl := a / 2 ^ t
  let rem := a % 2 ^ t
  let half := 2 ^ (t - 1)
  let N := if rem > half ∨ (rem = half ∧ fl % 2 = 1) then fl + 1 else fl
  N * 2 ^ u

/-- sign and rounded magnitude to a value; overflow to infinity -/
def ofMag (f : Fmt) (neg : Bool) (g : Nat) : FP f :=
  if g > f.maxGrid then .inf neg else .fin (if neg then -(g : Int) else (g : Int))

/-- the format's rounding of the exact value `z / 2^s` grid units -/
def rnd (f : Fmt) (z : Int) (s : Nat) : FP f := ofMag f (decide (z < 0)) (roundMag f z.natAbs s)

def isFin : FP f → Bool
  | .fin _ => true
  | _ => false

instance : Zero (FP f) := ⟨.fin 0⟩
/-- `T(i)`: conversion of an integer, rounded -/
instance : IntCast (FP f) := ⟨fun i => rnd f (i * 2 ^ f.sh) 0⟩

def neg : FP f → FP f
  | .fin v => .fin (-v)
  | .inf s => .inf (!s)
  | .nan => .nan
instance : Neg (FP f) := ⟨neg⟩

def sub : FP f → FP f → FP f
  | .fin a, .fin b => rnd f (a - b) 0
  | .nan, _ => .nan
  | _, .nan => .nan
  | .inf s, .fin _ => .inf s
  | .fin _, .inf s => .inf (!s)
  | .inf s, .inf t => if s = t then .nan else .inf s
instance : Sub (FP f) := ⟨sub⟩

def add : FP f → FP f → FP f
  | .fin a, .fin b => rnd f (a + b) 0
  | .nan, _ => .nan
  | _, .nan => .nan
  | .inf s, .fin _ => .inf s
  | .fin _, .inf s => .inf s
  | .inf s, .inf t => if s = t then .inf s else .nan
instance : Add (FP f) := ⟨add⟩

/-- the product of `a` and `b` grid units is `a·b / 2^sh` grid units -/
def mul : FP f → FP f → FP f
  | .fin a, .fin b => rnd f (a * b) f.sh
  | .nan, _ => .nan
  | _, .nan => .nan
  | .inf s, .fin b => if b = 0 then .nan else .inf (s != decide (b < 0))
  | .fin a, .inf s => if a = 0 then .nan else .inf (s != decide (a < 0))
  | .inf s, .inf t => .inf (s != t)
instance : Mul (FP f) := ⟨mul⟩

def lt : FP f → FP f → Bool
  | .fin a, .fin b => decide (a < b)
  | .nan, _ => false
  | _, .nan => false
  | .inf s, .fin _ => s
  | .fin _, .inf s => !s
  | .inf s, .inf t => s && !t
def le : FP f → FP f → Bool
  | .fin a, .fin b => decide (a ≤ b)
  | .nan, _ => false
  | _, .nan => false
  | .inf s, .fin _ => s
  | .fin _, .inf s => !s
  | .inf s, .inf t => s || !t
instance : LT (FP f) := ⟨fun a b => lt a b = true⟩
instance : LE (FP f) := ⟨fun a b => le a b = true⟩
instance : DecidableLT (FP f) := fun a b => inferInstanceAs (Decidable (lt a b = true))
instance : DecidableLE (FP f) := fun a b => inferInstanceAs (Decidable (le a b = true))

/-- `I(val)` for a finite value: truncation toward zero (the conversion is undefined otherwise; the harness never
    does it) -/
def trunc : FP f → Int
  | .fin v => Int.tdiv v (2 ^ f.sh)
  | _ => 0

/-- the value `m · 2^e` if it belongs to the format -/
def ofDyadic? (f : Fmt) (m e : Int) : Option (FP f) :=
  if m = 0 then some (.fin 0) else
  let k := e + (f.sh : Int)
  if k < 0 then
    -- m · 2^e = (m / 2^(-k)) grid units: must be an integer
    let d : Nat := 2 ^ (-k).toNat
    if m % (d : Int) = 0 then (let n := m / (d : Int); if rnd f n 0 = .fin n then some (.fin n) else none) else none
  else
    if k > 40000 then none else
    let n := m * 2 ^ k.toNat
    if rnd f n 0 = .fin n then some (.fin n) else none

/-- exact dyadic string `m:e` of a finite value -/
def str : FP f → String
  | .fin n => (Dy.mk2 n (-(f.sh : Int))).str
  | .inf s => if s then "-inf" else "inf"
  | .nan => "nan"

end FP

/-- the harness' 8-bit format -/
abbrev MF := FP Fmt.mf8

namespace MF
/-- value of an 8-bit code: exponent field 0 = subnormal `m · 2^-9`, 15 = infinity (m = 0) / NaN, otherwise
    `(8+m) · 2^(e-10)`; in grid units (`2^-9`) that is `m` resp. `(8+m) · 2^(e-1)` -/
def decode (code : Nat) : MF :=
  let neg := code / 128 % 2 = 1
  let e := code / 8 % 16
  let m := code % 8
  if e = 15 then (if m = 0 then .inf neg else .nan) else
  let mag : Int := if e = 0 then (m : Int) else ((8 + m) * 2 ^ (e - 1) : Nat)
  .fin (if neg then -mag else mag)
end MF

/-- the harness' 8-bit format with 5 exponent bits -/
abbrev MFB := FP Fmt.e5m2

namespace MFB
/-- value of an 8-bit code: exponent field 0 = subnormal `m · 2^-16`, 31 = infinity (m = 0) / NaN, otherwise
    `(4+m) · 2^(e-17)`; in grid units (`2^-16`) that is `m` resp. `(4+m) · 2^(e-1)` -/
def decode (code : Nat) : MFB :=
  let neg := code / 128 % 2 = 1
  let e := code / 4 % 32
  let m := code % 4
  if e = 31 then (if m = 0 then .inf neg else .nan) else
  let mag : Int := if e = 0 then (m : Int) else ((4 + m) * 2 ^ (e - 1) : Nat)
  .fin (if neg then -mag else mag)
end MFB

end DV.C17
