/-
C17 — scalar layer of the model of dune/common/float_cmp.cc and math.hh.   Core Lean only.

The comparison / rounding code of dune-common is a set of templates over a scalar type `T`; the model is
generic in the same way: every function is written against the core operation classes
(`Zero`, `Neg`, `Sub`, `Mul`, `LT`, `LE` with decidable order, `IntCast`) and is used

* in `Props/C17.lean` at an arbitrary linearly ordered field (Mathlib instances) – the theorems,
* in `Driver/C17.lean` at the exact dyadic numbers `Dy` (for `float`/`double` inputs on which every
  C++ intermediate is exact) and at the 8-bit floating-point format `MF` whose operations round
  (for the exhaustive runs against the templates instantiated with the harness' minifloat class).

`absK`, `maxK`, `minK` are `std::abs`, `std::max`, `std::min` written out.
-/
namespace DV.C17

section scalar
variable {K : Type} [Zero K] [Neg K] [LT K] [DecidableLT K]

/-- `std::abs` -/
def absK (x : K) : K := if x < 0 then -x else x
/-- `std::max(a,b)` = `(a < b) ? b : a` -/
def maxK (a b : K) : K := if a < b then b else a
/-- `std::min(a,b)` = `(b < a) ? b : a` -/
def minK (a b : K) : K := if b < a then b else a

end scalar

/-! ## Exact dyadic numbers `num / 2^exp` -/

structure Dy where
  num : Int
  exp : Nat
  deriving Repr

namespace Dy

/-- `m · 2^e` for any integer exponent -/
def mk2 (m : Int) (e : Int) : Dy :=
  if e ≥ 0 then ⟨m * 2 ^ e.toNat, 0⟩ else ⟨m, (-e).toNat⟩

def ofInt (i : Int) : Dy := ⟨i, 0⟩

instance : Zero Dy := ⟨⟨0, 0⟩⟩
instance : One Dy := ⟨⟨1, 0⟩⟩
instance : IntCast Dy := ⟨ofInt⟩
instance : Neg Dy := ⟨fun a => ⟨-a.num, a.exp⟩⟩
instance : Sub Dy := ⟨fun a b => ⟨a.num * 2 ^ b.exp - b.num * 2 ^ a.exp, a.exp + b.exp⟩⟩
instance : Add Dy := ⟨fun a b => ⟨a.num * 2 ^ b.exp + b.num * 2 ^ a.exp, a.exp + b.exp⟩⟩
instance : Mul Dy := ⟨fun a b => ⟨a.num * b.num, a.exp + b.exp⟩⟩
instance : LT Dy := ⟨fun a b => a.num * 2 ^ b.exp < b.num * 2 ^ a.exp⟩
instance : LE Dy := ⟨fun a b => a.num * 2 ^ b.exp ≤ b.num * 2 ^ a.exp⟩
instance : DecidableLT Dy := fun a b => inferInstanceAs (Decidable (a.num * 2 ^ b.exp < b.num * 2 ^ a.exp))
instance : DecidableLE Dy := fun a b => inferInstanceAs (Decidable (a.num * 2 ^ b.exp ≤ b.num * 2 ^ a.exp))

def beq (a b : Dy) : Bool := a.num * 2 ^ b.exp == b.num * 2 ^ a.exp

/-- the C++ conversion `I(val)`: truncation toward zero -/
def trunc (a : Dy) : Int := Int.tdiv a.num (2 ^ a.exp)

/-- number of trailing zero bits of a positive number (fuel-bounded) -/
def tzAux : Nat → Nat → Nat → Nat
  | 0, _, acc => acc
  | fuel+1, n, acc => if n % 2 = 0 ∧ n ≠ 0 then tzAux fuel (n / 2) (acc + 1) else acc
def tz (n : Nat) : Nat := tzAux (n + 1) n 0

/-- bit length: 0 for 0, else ⌊log2 n⌋ + 1 -/
def bitlen (n : Nat) : Nat := if n = 0 then 0 else Nat.log2 n + 1

/-- normal form `(m, e)` with `m` odd (or `(0,0)`), value `m · 2^e` -/
def normal (a : Dy) : Int × Int :=
  if a.num = 0 then (0, 0) else
  let t := tz a.num.natAbs
  (a.num / (2 ^ t : Nat), (t : Int) - (a.exp : Int))

/-- printed as `m:e` in normal form -/
def str (a : Dy) : String :=
  let (m, e) := a.normal
  toString m ++ ":" ++ toString e

/-- parse `m:e` -/
def parse? (s : String) : Option Dy :=
  match s.splitOn ":" with
  | [m, e] => match m.toInt?, e.toInt? with
    | some m, some e => if e < -100000 ∨ e > 100000 then none else some (mk2 m e)
    | _, _ => none
  | _ => none

/-- `1/a` when it is dyadic (|odd part| = 1) -/
def inv? (a : Dy) : Option Dy :=
  let (m, e) := a.normal
  if m = 1 then some (mk2 1 (-e)) else if m = -1 then some (mk2 (-1) (-e)) else none

/-- division, exact only for divisors `± 2^j` (the driver checks `inv?` first) -/
instance : Div Dy := ⟨fun a b => match inv? b with
  | some i => a * i
  | none => ⟨0, 0⟩⟩

end Dy

/-! ## An 8-bit IEEE-like floating-point format (1 sign, 4 exponent, 3 mantissa bits, bias 7)

Codes: exponent field 0 = subnormal `m · 2^-9`, 15 = infinity (m = 0) / NaN, otherwise `(8+m) · 2^(e-10)`.
Largest finite value 240.  Every operation is the exact operation followed by round-to-nearest-even,
exactly like the harness' C++ class `MF8` (which computes in `double`, where these operations are exact,
and rounds once). -/

inductive MF where
  | fin (v : Dy)
  | inf (neg : Bool)
  | nan
  deriving Repr

namespace MF

def prec : Nat := 4          -- significand bits including the hidden bit
def emin : Int := -6         -- exponent of the smallest normal number
def maxFinite : Dy := ⟨240, 0⟩

/-- round an exact dyadic value to the format, ties to even, overflow to infinity -/
def rnd (x : Dy) : MF :=
  if x.num = 0 then .fin ⟨0, 0⟩ else
  let a := x.num.natAbs
  let neg := x.num < 0
  -- exponent of the leading bit
  let E : Int := (Dy.bitlen a : Int) - 1 - (x.exp : Int)
  let Ee : Int := if E < emin then emin else E
  let u : Int := Ee - ((prec : Int) - 1)            -- exponent of one ulp
  let s : Int := (x.exp : Int) + u                  -- |x| / 2^u = a / 2^s
  let N : Nat :=
    if s ≤ 0 then a * 2 ^ (-s).toNat else
    let sh := s.toNat
    let fl := a / 2 ^ sh
    let rem := a % 2 ^ sh
    let half := 2 ^ (sh - 1)
    if rem > half ∨ (rem = half ∧ fl % 2 = 1) then fl + 1 else fl
  let mag := Dy.mk2 (N : Int) u
  if maxFinite < mag then .inf neg else .fin (if neg then -mag else mag)

def decode (code : Nat) : MF :=
  let neg := code / 128 % 2 = 1
  let e := code / 8 % 16
  let m := code % 8
  if e = 15 then (if m = 0 then .inf neg else .nan) else
  let mag : Dy := if e = 0 then Dy.mk2 m (-9) else Dy.mk2 (8 + m) ((e : Int) - 10)
  .fin (if neg then -mag else mag)

def isFin : MF → Bool
  | .fin _ => true
  | _ => false

instance : Zero MF := ⟨.fin ⟨0, 0⟩⟩
instance : IntCast MF := ⟨fun i => rnd (Dy.ofInt i)⟩

def neg : MF → MF
  | .fin v => .fin (-v)
  | .inf s => .inf (!s)
  | .nan => .nan
instance : Neg MF := ⟨neg⟩

def sub : MF → MF → MF
  | .fin a, .fin b => rnd (a - b)
  | .nan, _ => .nan
  | _, .nan => .nan
  | .inf s, .fin _ => .inf s
  | .fin _, .inf s => .inf (!s)
  | .inf s, .inf t => if s = t then .nan else .inf s
instance : Sub MF := ⟨sub⟩

def mul : MF → MF → MF
  | .fin a, .fin b => rnd (a * b)
  | .nan, _ => .nan
  | _, .nan => .nan
  | .inf s, .fin b => if b.num = 0 then .nan else .inf (s != decide (b.num < 0))
  | .fin a, .inf s => if a.num = 0 then .nan else .inf (s != decide (a.num < 0))
  | .inf s, .inf t => .inf (s != t)
instance : Mul MF := ⟨mul⟩

def lt : MF → MF → Bool
  | .fin a, .fin b => decide (a < b)
  | .nan, _ => false
  | _, .nan => false
  | .inf s, .fin _ => s
  | .fin _, .inf s => !s
  | .inf s, .inf t => s && !t
def le : MF → MF → Bool
  | .fin a, .fin b => decide (a ≤ b)
  | .nan, _ => false
  | _, .nan => false
  | .inf s, .fin _ => s
  | .fin _, .inf s => !s
  | .inf s, .inf t => s || !t
instance : LT MF := ⟨fun a b => lt a b = true⟩
instance : LE MF := ⟨fun a b => le a b = true⟩
instance : DecidableLT MF := fun a b => inferInstanceAs (Decidable (lt a b = true))
instance : DecidableLE MF := fun a b => inferInstanceAs (Decidable (le a b = true))

/-- `I(val)` for a finite value (the conversion is undefined otherwise; the harness never does it) -/
def trunc : MF → Int
  | .fin v => v.trunc
  | _ => 0

end MF

end DV.C17
