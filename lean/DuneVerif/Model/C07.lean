import DuneVerif.Common.Proto
/-!
# C07 — collectives, MPIPack and MPI datatypes (executable model, core Lean only)

Three layers, all over *cells* (`α`; the driver uses `Int`, the theorems are generic):

* **(iii) typemaps** — an MPI datatype is a list of blocks `(displacement, length)` plus an extent
  (`TMap`); the constructors `basic / contiguous / struct / resized` mirror the MPI calls used in
  `mpitraits.hh`, `plocalindex.hh`, `remoteindices.hh`; `transfer tm src soff dst doff` is what MPI does when it
  moves one element of that datatype (block by block, cell by cell); `transferN` moves `count` elements striding by
  the extent.
* **(i) collectives** — `Spec.*` give, for the list of all ranks' buffers in rank order, every rank's buffer after
  the call (what `Communication<MPI_Comm>` delegates to MPI); `Seq.*` is the sequential stand-in
  `Communication<No_Comm>` transcribed loop by loop from `communication.hh` (after the proposed repairs
  `fixes/C07_seq_displ.patch`, `fixes/C07_seq_iallgather.patch`).
* **(ii) MPIPack** — `(buf, pos)` with an abstract fixed-width cell encoder (`Codec`), static-size vs.
  size-prefixed dynamic items, the growth rule of `MPIPack::pack`.
-/
namespace DV.C07

/-! ## (iii) typemaps and transfers -/

structure TMap where
  blocks : List (Nat × Nat)
  extent : Nat
deriving Repr, DecidableEq

namespace TMap
/-- predefined MPI type occupying `w` cells -/
def basic (w : Nat) : TMap := ⟨[(0, w)], w⟩
def shift (d : Nat) (b : Nat × Nat) : Nat × Nat := (d + b.1, b.2)
/-- `MPI_Type_contiguous(n, t)` -/
def contiguous (n : Nat) (t : TMap) : TMap :=
  ⟨(List.range n).flatMap (fun k => t.blocks.map (shift (k * t.extent))), n * t.extent⟩
/-- upper bound of a list of struct members `(displacement, blocklength, type)` -/
def ub : List (Nat × Nat × TMap) → Nat
  | [] => 0
  | (d, c, t) :: ms => max (d + c * t.extent) (ub ms)
/-- `MPI_Type_create_struct` with lower bound 0 (no alignment padding is modelled: the code resizes to `sizeof`
where that matters) -/
def struct (members : List (Nat × Nat × TMap)) : TMap :=
  ⟨members.flatMap (fun m => (contiguous m.2.1 m.2.2).blocks.map (shift m.1)), ub members⟩
/-- `MPI_Type_create_resized(t, 0, extent)` -/
def resized (t : TMap) (extent : Nat) : TMap := ⟨t.blocks, extent⟩
/-- every cell of the element is communicated -/
def full (e : Nat) : TMap := ⟨[(0, e)], e⟩
/-- is relative cell `j` inside one of the blocks? -/
def covers (tm : TMap) (j : Nat) : Bool := tm.blocks.any (fun b => decide (b.1 ≤ j) && decide (j < b.1 + b.2))
/-- all blocks lie inside `[0, extent)` -/
def wf (tm : TMap) : Prop := ∀ b ∈ tm.blocks, b.1 + b.2 ≤ tm.extent
/-- adjacent blocks merged (canonical form used when printing) -/
def mergeBlocks : List (Nat × Nat) → List (Nat × Nat)
  | [] => []
  | b :: rest =>
    match mergeBlocks rest with
    | [] => if b.2 = 0 then [] else [b]
    | c :: cs => if b.2 = 0 then c :: cs else if b.1 + b.2 = c.1 then (b.1, b.2 + c.2) :: cs else b :: c :: cs
end TMap

/-! ### the datatypes dune-common registers (transcribed from the `getType()` bodies) -/
namespace Types
open TMap
/-- `MPITraits<FieldVector<K,n>>`: struct of one block `contiguous(n, K)` at the displacement of `fvector[0]` -/
def fieldVector (displ n : Nat) (k : TMap) : TMap := struct [(displ, 1, contiguous n k)]
/-- `MPITraits<bigunsignedint<k>>`: struct of one block `contiguous(n, uint16)` at the displacement of `digit` -/
def bigUnsigned (displ n : Nat) (digitT : TMap) : TMap := struct [(displ, 1, contiguous n digitT)]
/-- `MPITraits<std::pair<T1,T2>>`: struct {first, second} resized to `sizeof(pair)` -/
def pair (off1 : Nat) (t1 : TMap) (off2 : Nat) (t2 : TMap) (size : Nat) : TMap :=
  resized (struct [(off1, 1, t1), (off2, 1, t2)]) size
/-- `MPITraits<ParallelLocalIndex<T>>`: struct {attribute_ : char} resized to `sizeof` -/
def localIndex (offAttr : Nat) (charT : TMap) (size : Nat) : TMap :=
  resized (struct [(offAttr, 1, charT)]) size
/-- `MPITraits<IndexPair<TG,ParallelLocalIndex<TA>>>`: struct {global_, local_} resized to `sizeof` -/
def indexPair (offG : Nat) (tG : TMap) (offL : Nat) (tL : TMap) (size : Nat) : TMap :=
  resized (struct [(offG, 1, tG), (offL, 1, tL)]) size
end Types

/-! ### R4: the construction code of a datatype as data.  `tr_c07.py` executes the straight-line block
`if (type == MPI_DATATYPE_NULL) { … }` of every `MPITraits<…>::getType()` symbolically (declarations, `MPI_Get_address`
pairs / `offsetof`, `MPI_Type_contiguous / create_struct / create_resized / commit / free`) and emits the expression that
the returned handle denotes; `eval` gives it the meaning MPI defines, for any template arguments (`Env`). -/
namespace TyProg
/-- count / size expressions that occur in the construction code -/
inductive Cnt where
  | lit (n : Nat)                 -- integer literal
  | tparam (i : Nat)              -- non-type template parameter number `i` (`n` of `FieldVector<K,n>`)
  | sizeofSelf                    -- `sizeof` of the type the specialisation is for
  | sizeofParam (i : Nat)         -- `sizeof` of template parameter `i`
  | selfConst (name : String)     -- static constant of the type (`bigunsignedint<k>::n`)
deriving Repr, DecidableEq

inductive Expr where
  | param (i : Nat)               -- `MPITraits<$i>::getType()`
  | named (cpp : String)          -- `MPITraits<concrete or nested type>::getType()` / a predefined handle (`MPI_BYTE`)
  | contig (c : Cnt) (old : Expr) -- `MPI_Type_contiguous`
  | snil                          -- `MPI_Type_create_struct`: no (more) members
  | scons (member : String) (len : Nat) (t : Expr) (rest : Expr)   -- member at the displacement of `member`
  | resized (old : Expr) (extent : Cnt)                             -- `MPI_Type_create_resized(old, 0, extent)`
deriving Repr, DecidableEq

/-- the template arguments and the object layout: everything the construction code reads from the instantiation -/
structure Env where
  param : Nat → TMap
  named : String → TMap
  cnt : Cnt → Nat
  off : String → Nat

def eval (env : Env) : Expr → TMap
  | .param i => env.param i
  | .named s => env.named s
  | .contig c t => TMap.contiguous (env.cnt c) (eval env t)
  | .snil => ⟨[], 0⟩
  | .scons m len t rest =>
      ⟨(TMap.contiguous len (eval env t)).blocks.map (TMap.shift (env.off m)) ++ (eval env rest).blocks,
       max (env.off m + len * (eval env t).extent) (eval env rest).extent⟩
  | .resized t e => TMap.resized (eval env t) (env.cnt e)

/-- a list of struct members as the `scons` chain the translator emits -/
def ofMembers : List (String × Nat × Expr) → Expr
  | [] => .snil
  | (m, len, t) :: ms => .scons m len t (ofMembers ms)
/-- an instantiation at cell level: typemaps of the (at most two) type arguments, of the one named type, the one count,
`sizeof`, member offsets -/
def cellEnv (p1 p2 nm : TMap) (n size : Nat) (offs : List (String × Nat)) : Env where
  param i := if i = 1 then p1 else p2
  named _ := nm
  cnt c := match c with | .sizeofSelf => size | .lit k => k | _ => n
  off m := ((offs.find? (·.1 == m)).map (·.2)).getD 0
end TyProg

/-- overwrite: what is at a destination position after a cell `s` (if it exists) was copied onto `d` (if it exists) -/
def ovw {α} (s d : Option α) : Option α :=
  match s with
  | some x => d.map (fun _ => x)
  | none => d

/-- copy `len` consecutive cells `src[soff..]` onto `dst[doff..]`, one cell at a time -/
def copyCells {α} (src : List α) (soff : Nat) (dst : List α) (doff : Nat) : Nat → List α
  | 0 => dst
  | len + 1 =>
    match src[soff]? with
    | some x => copyCells src (soff + 1) (dst.set doff x) (doff + 1) len
    | none => copyCells src (soff + 1) dst (doff + 1) len

/-- move one element of datatype `tm` from `src` (element starts at `soff`) to `dst` (element starts at `doff`) -/
def transfer {α} (tm : TMap) (src : List α) (soff : Nat) (dst : List α) (doff : Nat) : List α :=
  tm.blocks.foldl (fun acc b => copyCells src (soff + b.1) acc (doff + b.1) b.2) dst

/-- move `n` consecutive elements (stride = extent) -/
def transferN {α} (tm : TMap) (n : Nat) (src : List α) (soff : Nat) (dst : List α) (doff : Nat) : List α :=
  (List.range n).foldl (fun acc k => transfer tm src (soff + k * tm.extent) acc (doff + k * tm.extent)) dst

/-- the packed stream of one element: the blocks' cells in typemap order (`MPI_Pack`) -/
def packElem {α} (tm : TMap) (src : List α) (soff : Nat) : List α :=
  tm.blocks.flatMap (fun b => (src.drop (soff + b.1)).take b.2)

def packN {α} (tm : TMap) (n : Nat) (src : List α) : List α :=
  (List.range n).flatMap (fun k => packElem tm src (k * tm.extent))

/-- number of cells one packed element occupies -/
def TMap.size (tm : TMap) : Nat := (tm.blocks.map (·.2)).sum

/-- `MPI_Unpack` of one element: consume the stream block by block -/
def unpackElem {α} (tm : TMap) (stream : List α) (dst : List α) (doff : Nat) : List α :=
  (tm.blocks.foldl (fun (acc : List α × Nat) b => (copyCells stream acc.2 acc.1 (doff + b.1) b.2, acc.2 + b.2))
    (dst, 0)).1

def unpackN {α} (tm : TMap) (n : Nat) (stream : List α) (dst : List α) : List α :=
  (List.range n).foldl (fun acc k => unpackElem tm (stream.drop (k * tm.size)) acc (k * tm.extent)) dst

/-! ## (i) collectives -/

namespace Spec
variable {α : Type}

/-- receive buffer of the root of `MPI_Gather`: rank `k`'s `n` elements land at element offset `k*n` -/
def gatherAt (tm : TMap) (n : Nat) (ins : List (List α)) (out : List α) : List α :=
  ins.zipIdx.foldl (fun acc p => transferN tm n p.1 0 acc (p.2 * n * tm.extent)) out

def gather (tm : TMap) (n root : Nat) (ins outs : List (List α)) : List (List α) :=
  outs.mapIdx (fun r out => if r = root then gatherAt tm n ins out else out)

/-- `MPI_Gatherv` at the root: rank `k`'s `lens[k]` elements land at element offset `displs[k]` -/
def gathervAt (tm : TMap) (ins : List (List α)) (lens displs : List Nat) (out : List α) : List α :=
  (ins.zip (lens.zip displs)).foldl (fun acc p => transferN tm p.2.1 p.1 0 acc (p.2.2 * tm.extent)) out

def gatherv (tm : TMap) (root : Nat) (ins : List (List α)) (lens displs : List Nat) (outs : List (List α)) :
    List (List α) :=
  outs.mapIdx (fun r out => if r = root then gathervAt tm ins lens displs out else out)

def allgather (tm : TMap) (n : Nat) (ins outs : List (List α)) : List (List α) :=
  outs.map (gatherAt tm n ins)

def allgatherv (tm : TMap) (ins : List (List α)) (lens displs : List Nat) (outs : List (List α)) : List (List α) :=
  outs.map (gathervAt tm ins lens displs)

/-- what rank `r` receives from `MPI_Scatter` out of the root's send buffer `s` -/
def scatterAt (tm : TMap) (n : Nat) (s : List α) (r : Nat) (rcv : List α) : List α :=
  transferN tm n s (r * n * tm.extent) rcv 0

def scatter (tm : TMap) (n root : Nat) (sends recvs : List (List α)) : List (List α) :=
  match sends[root]? with
  | none => recvs
  | some s => recvs.mapIdx (fun r rcv => scatterAt tm n s r rcv)

def scattervAt (tm : TMap) (s : List α) (len displ : Nat) (rcv : List α) : List α :=
  transferN tm len s (displ * tm.extent) rcv 0

def scatterv (tm : TMap) (root : Nat) (sends : List (List α)) (lens displs : List Nat) (recvs : List (List α)) :
    List (List α) :=
  match sends[root]? with
  | none => recvs
  | some s => recvs.mapIdx (fun r rcv =>
      match lens[r]?, displs[r]? with
      | some l, some d => scattervAt tm s l d rcv
      | _, _ => rcv)

def bcast (tm : TMap) (n root : Nat) (bufs : List (List α)) : List (List α) :=
  match bufs[root]? with
  | none => bufs
  | some s => bufs.mapIdx (fun r b => if r = root then b else transferN tm n s 0 b 0)

/-- element `j` (of `e` cells) of a buffer -/
def elem (e j : Nat) (buf : List α) : List α := (buf.drop (j * e)).take e

/-- the fold over the contributions in rank order -/
def foldRanks {β : Type} (op : β → β → β) : List β → Option β
  | [] => none
  | x :: xs => some (xs.foldl op x)

/-- `MPI_Allreduce` result (the same on every rank): element-wise fold of the `n` elements in rank order -/
def allreduceVal (e n : Nat) (op : List α → List α → List α) (ins : List (List α)) : List α :=
  (List.range n).flatMap (fun j => ((foldRanks op (ins.map (elem e j))).getD []))

/-- the rank-order fold of one cell with a functor on cells (`none` if a rank has no such cell, or there is no rank) -/
def foldCells (f : α → α → α) : List (Option α) → Option α
  | [] => none
  | x :: xs => xs.foldl (fun a y => match a, y with | some a, some b => some (f a b) | _, _ => none) x

/-- the result written over the first `n` elements of each rank's out buffer -/
def allreduce (e n : Nat) (op : List α → List α → List α) (ins outs : List (List α)) : List (List α) :=
  let v := allreduceVal e n op ins
  outs.map (fun out => transferN (TMap.full e) n v 0 out 0)

/-- point-to-point in a ring: rank `r` receives what rank `(r - shift) mod P` sent (`lens` = element counts) -/
def ringRecv (tm : TMap) (shift : Nat) (srcs : List (List α × Nat)) (dsts : List (List α)) : List (List α) :=
  let P := dsts.length
  dsts.mapIdx (fun r d =>
    match srcs[(r + P - shift % P) % P]? with
    | some s => transferN tm s.2 s.1 0 d 0
    | none => d)
end Spec

/-- `vector::resize(n)` on a flat cell buffer of elements of `e` cells (`dflt` = one value-initialised element) -/
def resizeCells {α} (e : Nat) (dflt : List α) (cells : List α) (n : Nat) : List α :=
  let have_ := cells.length / (if e = 0 then 1 else e)
  if n ≤ have_ then cells.take (n * e) else cells.take (have_ * e) ++ (List.replicate (n - have_) dflt).flatten

namespace Spec
variable {α : Type}
/-- `rrecv` (receive with size discovery): `MPI_Mprobe` + `MPI_Get_count` give the number `n` of elements sent, the
receive object is resized to `n` elements, then the `n` elements are received into it -/
def rrecv (tm : TMap) (dflt : List α) (src : List α) (n : Nat) (dst : List α) : List α :=
  transferN tm n src 0 (resizeCells tm.extent dflt dst n) 0

/-- a ring of `rrecv`s: rank `r` receives what rank `(r - shift) mod P` sent, whatever its receive object held -/
def ringRrecv (tm : TMap) (dflt : List α) (shift : Nat) (srcs : List (List α × Nat)) (dsts : List (List α)) :
    List (List α) :=
  let P := dsts.length
  dsts.mapIdx (fun r d =>
    match srcs[(r + P - shift % P) % P]? with
    | some s => rrecv tm dflt s.1 s.2 d
    | none => d)
end Spec

/-! ### the sequential stand-in `Communication<No_Comm>` (communication.hh), element = `e` cells, `=` copies
the whole element -/
namespace Seq
variable {α : Type}

/-- `out[j] = in[i]` for elements of `e` cells -/
def assignElem (e : Nat) (src : List α) (i : Nat) (dst : List α) (j : Nat) : List α :=
  copyCells src (i * e) dst (j * e) e

/-- `for (int i=0; i<len; i++) out[oo+i] = in[io+i];` -/
def copyLoop (e : Nat) (src : List α) (io : Nat) (dst : List α) (oo : Nat) (len : Nat) : List α :=
  (List.range len).foldl (fun acc i => assignElem e src (io + i) acc (oo + i)) dst

/-- `T sum(const T& in) { return in; }` (also prod, min, max) -/
def reduceScalar (x : List α) : List α := x
/-- `int sum(T* inout, int len) { return 0; }` (also prod, min, max, allreduce in place) -/
def reduceInplace (inout : List α) (_len : Nat) : List α := inout
/-- `allreduce(const Type* in, Type* out, int len) { std::copy(in, in+len, out); }` -/
def allreduceInOut (e : Nat) (inp out : List α) (len : Nat) : List α := copyLoop e inp 0 out 0 len
/-- `iallreduce(data_in, data_out) { data_out = data_in; }` -/
def iallreduceInOut (dataIn _dataOut : List α) : List α := dataIn
/-- `iallreduce(data) { return data; }` -/
def iallreduceInplace (data : List α) : List α := data
/-- `broadcast(T* inout, int len, int root) { return 0; }` -/
def broadcast (inout : List α) (_len _root : Nat) : List α := inout
/-- `ibroadcast(data, root) { return data; }` -/
def ibroadcast (data : List α) (_root : Nat) : List α := data
/-- `gather(in, out, len, root) { for i<len: out[i] = in[i]; }` -/
def gather (e : Nat) (inp out : List α) (len _root : Nat) : List α := copyLoop e inp 0 out 0 len
/-- `igather(data_in, data_out, root) { *(data_out.begin()) = data_in; }` -/
def igather (e : Nat) (dataIn dataOut : List α) (_root : Nat) : List α := assignElem e dataIn 0 dataOut 0
/-- `gatherv(in, sendDataLen, out, recvDataLen, displ, root) { for i<sendDataLen: out[*displ+i] = in[i]; }` (repaired) -/
def gatherv (e : Nat) (inp : List α) (sendLen : Nat) (out : List α) (_recvLen displ _root : Nat) : List α :=
  copyLoop e inp 0 out displ sendLen
/-- `scatter(sendData, recvData, len, root) { for i<len: recvData[i] = sendData[i]; }` -/
def scatter (e : Nat) (send recv : List α) (len _root : Nat) : List α := copyLoop e send 0 recv 0 len
/-- `iscatter(data_in, data_out, root) { data_out = *(data_in.begin()); }` -/
def iscatter (e : Nat) (dataIn dataOut : List α) (_root : Nat) : List α := assignElem e dataIn 0 dataOut 0
/-- `scatterv(sendData, sendDataLen, displ, recvData, recvDataLen, root)
    { for i<*sendDataLen: recvData[i] = sendData[*displ+i]; }` (repaired) -/
def scatterv (e : Nat) (send : List α) (sendLen displ : Nat) (recv : List α) (_recvLen _root : Nat) : List α :=
  copyLoop e send displ recv 0 sendLen
/-- `allgather(sbuf, count, rbuf) { for (end=sbuf+count; sbuf<end; ++sbuf, ++rbuf) *rbuf = *sbuf; }` -/
def allgather (e : Nat) (sbuf : List α) (count : Nat) (rbuf : List α) : List α := copyLoop e sbuf 0 rbuf 0 count
/-- `iallgather(data_in, data_out) { *(data_out.begin()) = data_in; }` (repaired) -/
def iallgather (e : Nat) (dataIn dataOut : List α) : List α := assignElem e dataIn 0 dataOut 0
/-- `allgatherv(in, sendDataLen, out, recvDataLen, displ) { for i<sendDataLen: out[*displ+i] = in[i]; }` (repaired) -/
def allgatherv (e : Nat) (inp : List α) (sendLen : Nat) (out : List α) (_recvLen displ : Nat) : List α :=
  copyLoop e inp 0 out displ sendLen

/-- the general loop shape the translator `tools/translators/tr_c07.py` emits for the bodies in communication.hh:
`for (int i = start; i < bound; i++) dst[di i] = src[si i];` (elements of `e` cells) -/
def forCopy (e : Nat) (src dst : List α) (start bound : Nat) (di si : Nat → Nat) : List α :=
  (List.range' start (bound - start)).foldl (fun acc i => assignElem e src (si i) acc (di i)) dst

/-- `rank()`, `size()`, return value of `barrier()` -/
def rank : Nat := 0
def size : Nat := 1
def barrier : Nat := 0
end Seq

/-! ### what the MPI standard says about the predefined handles (MPI 3.1 §3.2.2, §5.9.2, §17.1.9) — the
specification side of the tables that `tr_c07.py` extracts from `ComposeMPITraits` / `ComposeMPIOp` -/

/-- the C/C++ type a predefined MPI datatype describes -/
def mpiCType : String → Option String
  | "MPI_CHAR" => some "char"
  | "MPI_SIGNED_CHAR" => some "signed char"
  | "MPI_UNSIGNED_CHAR" => some "unsigned char"
  | "MPI_SHORT" => some "short"
  | "MPI_UNSIGNED_SHORT" => some "unsigned short"
  | "MPI_INT" => some "int"
  | "MPI_UNSIGNED" => some "unsigned int"
  | "MPI_LONG" => some "long"
  | "MPI_UNSIGNED_LONG" => some "unsigned long"
  | "MPI_LONG_LONG" => some "long long"
  | "MPI_LONG_LONG_INT" => some "long long"
  | "MPI_UNSIGNED_LONG_LONG" => some "unsigned long long"
  | "MPI_FLOAT" => some "float"
  | "MPI_DOUBLE" => some "double"
  | "MPI_LONG_DOUBLE" => some "long double"
  | "MPI_WCHAR" => some "wchar_t"
  | "MPI_CXX_BOOL" => some "bool"
  | "MPI_CXX_FLOAT_COMPLEX" => some "std::complex<float>"
  | "MPI_CXX_DOUBLE_COMPLEX" => some "std::complex<double>"
  | "MPI_CXX_LONG_DOUBLE_COMPLEX" => some "std::complex<long double>"
  | _ => none

/-- the binary function a predefined reduction handle computes, named by the functor template dune-common uses -/
def mpiOpFunctor : String → Option String
  | "MPI_SUM" => some "std::plus"
  | "MPI_PROD" => some "std::multiplies"
  | "MPI_MIN" => some "Min"
  | "MPI_MAX" => some "Max"
  | _ => none

/-- type classes of MPI 3.1 §5.9.2 (`MPI_CHAR` is a character type in the standard; Open MPI reduces it like an
integer, which is what the pinned tree relies on for `char`, so it is listed as integer here) -/
def mpiTypeClass : String → Option String
  | "MPI_CHAR" | "MPI_SIGNED_CHAR" | "MPI_UNSIGNED_CHAR" | "MPI_SHORT" | "MPI_UNSIGNED_SHORT" | "MPI_INT" | "MPI_UNSIGNED"
  | "MPI_LONG" | "MPI_UNSIGNED_LONG" | "MPI_LONG_LONG" | "MPI_LONG_LONG_INT" | "MPI_UNSIGNED_LONG_LONG" => some "integer"
  | "MPI_FLOAT" | "MPI_DOUBLE" | "MPI_LONG_DOUBLE" => some "floating"
  | "MPI_CXX_FLOAT_COMPLEX" | "MPI_CXX_DOUBLE_COMPLEX" | "MPI_CXX_LONG_DOUBLE_COMPLEX" => some "complex"
  | "MPI_CXX_BOOL" | "MPI_C_BOOL" => some "logical"
  | "MPI_BYTE" => some "byte"
  | _ => none

/-- MPI 3.1 §5.9.2: `MPI_SUM`/`MPI_PROD` are defined on integer, floating point and complex types, `MPI_MIN`/`MPI_MAX`
on integer and floating point types; none of the four on logical or byte types (a call is erroneous: `MPI_ERR_OP`) -/
def mpiOpDefinedOn (op dt : String) : Bool :=
  match mpiTypeClass dt with
  | some "integer" | some "floating" => op == "MPI_SUM" || op == "MPI_PROD" || op == "MPI_MIN" || op == "MPI_MAX"
  | some "complex" => op == "MPI_SUM" || op == "MPI_PROD"
  | _ => false

/-! ## (ii) MPIPack -/

/-- abstract fixed-width encoder of one cell into `w` bytes; `dec ∘ enc = id` is MPI's contract for
`MPI_Pack`/`MPI_Unpack` of a basic type -/
structure Codec (α β : Type) where
  w : Nat
  enc : α → List β
  dec : List β → α
  enc_len : ∀ c, (enc c).length = w
  dec_enc : ∀ c, dec (enc c) = c

def encCells {α β} (C : Codec α β) (cs : List α) : List β := cs.flatMap C.enc
def decCells {α β} (C : Codec α β) : Nat → List β → List α
  | 0, _ => []
  | n + 1, bs => C.dec (bs.take C.w) :: decCells C n (bs.drop C.w)

/-- a value handed to `MPIPack::pack` -/
inductive Item (α β : Type)
  /-- static size (`MPIData<T>::static_size`): a scalar (`n = 1`) or `std::array<T,n>`; no size prefix -/
  | stat (tm : TMap) (n : Nat) (cells : List α)
  /-- dynamic size (`std::vector<T>`, `std::string`): `int` prefix `n`, then `n` elements -/
  | dyn (tm : TMap) (n : Nat) (cells : List α)
  /-- a nested `MPIPack`: `int` prefix (#bytes), then the bytes as `MPI_PACKED` -/
  | raw (bytes : List β)

structure PState (β : Type) where
  buf : List β
  pos : Nat

/-- `MPI_Pack`: the bytes go to `buf[pos..]`, `pos` advances -/
def writeBytes {β} (st : PState β) (bs : List β) : PState β :=
  ⟨copyCells bs 0 st.buf st.pos bs.length, st.pos + bs.length⟩

/-- payload bytes and whether there is a size prefix -/
def Item.payload {α β} (C : Codec α β) : Item α β → List β
  | .stat tm n cells => encCells C (packN tm n cells)
  | .dyn tm n cells => encCells C (packN tm n cells)
  | .raw bytes => bytes
def Item.isDynamic {α β} : Item α β → Bool
  | .stat .. => false
  | _ => true
/-- the `size` that is packed as prefix: `mpidata.size()` -/
def Item.count {α β} : Item α β → Nat
  | .stat _ n _ => n
  | .dyn _ n _ => n
  | .raw bytes => bytes.length

/-- wire format of one item -/
def Item.wire {α β} (C : Codec α β) (ofNat : Nat → α) (it : Item α β) : List β :=
  (if it.isDynamic then C.enc (ofNat it.count) else []) ++ it.payload C

/-- `MPIPack::pack` — `bound k` is what `MPI_Pack_size` answers for data whose packed form has `k` bytes
(an upper bound), `zero` what `vector<char>::resize` fills with -/
def packItem {α β} (C : Codec α β) (ofNat : Nat → α) (bound : Nat → Nat) (zero : β) (st : PState β) (it : Item α β) :
    PState β :=
  let size := bound (it.payload C).length + (if it.isDynamic then bound C.w else 0)
  let buf := if st.pos + size > st.buf.length then st.buf ++ List.replicate (st.pos + size - st.buf.length) zero
             else st.buf
  let st1 : PState β := ⟨buf, st.pos⟩
  let st2 := if it.isDynamic then writeBytes st1 (C.enc (ofNat it.count)) else st1
  writeBytes st2 (it.payload C)

def packAll {α β} (C : Codec α β) (ofNat : Nat → α) (bound : Nat → Nat) (zero : β) (st : PState β)
    (its : List (Item α β)) : PState β :=
  its.foldl (packItem C ofNat bound zero) st

/-- what the reader passes to `unpack`: the destination object and its kind -/
inductive Dest (α β : Type)
  | stat (tm : TMap) (n : Nat) (cells : List α)
  /-- a `vector<T>`/`string` with `cells.length / extent` elements; `dflt` = a value-initialised element -/
  | dyn (tm : TMap) (dflt : List α) (cells : List α)
  | raw (bytes : List β)

def resizeBytes {β} (zero : β) (bytes : List β) (n : Nat) : List β :=
  if n ≤ bytes.length then bytes.take n else bytes ++ List.replicate (n - bytes.length) zero

/-- `MPIPack::unpack` (both overloads) -/
def unpackItem {α β} (C : Codec α β) (toNat : α → Nat) (zero : β) (st : PState β) (d : Dest α β) :
    Dest α β × PState β :=
  match d with
  | .stat tm n cells =>
    let k := n * tm.size * C.w
    (.stat tm n (unpackN tm n (decCells C (n * tm.size) ((st.buf.drop st.pos).take k)) cells), ⟨st.buf, st.pos + k⟩)
  | .dyn tm dflt cells =>
    let n := toNat (C.dec ((st.buf.drop st.pos).take C.w))
    let pos := st.pos + C.w
    let cells := resizeCells tm.extent dflt cells n
    let k := n * tm.size * C.w
    (.dyn tm dflt (unpackN tm n (decCells C (n * tm.size) ((st.buf.drop pos).take k)) cells), ⟨st.buf, pos + k⟩)
  | .raw bytes =>
    let n := toNat (C.dec ((st.buf.drop st.pos).take C.w))
    let pos := st.pos + C.w
    let bytes := resizeBytes zero bytes n
    (.raw (copyCells ((st.buf.drop pos).take n) 0 bytes 0 n), ⟨st.buf, pos + n⟩)

def unpackAll {α β} (C : Codec α β) (toNat : α → Nat) (zero : β) :
    PState β → List (Dest α β) → List (Dest α β) × PState β
  | st, [] => ([], st)
  | st, d :: ds =>
    let r := unpackItem C toNat zero st d
    let rs := unpackAll C toNat zero r.2 ds
    (r.1 :: rs.1, rs.2)

/-- the codec the driver runs with: one "byte" per cell -/
def idCodec : Codec Int Int where
  w := 1
  enc c := [c]
  dec bs := bs.headD 0
  enc_len _ := rfl
  dec_enc _ := rfl

/-! ## element types of the harness (cell level) -/

open TMap Types in
def tyMap : String → Option TMap
  | "int" | "long" | "double" | "char" => some (basic 1)
  | "complex" => some (basic 2)
  -- the other intrinsic types of mpitraits.hh
  | "uchar" | "short" | "ushort" | "uint" | "ulong" | "float" | "ldouble" => some (basic 1)
  | "cfloat" | "cldouble" => some (basic 2)
  -- types without a specialisation: `MPI_Type_contiguous(sizeof(T), MPI_BYTE)`; one cell per member here
  | "llong" | "bool" | "schar" | "ullong" => some (contiguous 1 (basic 1))
  | "pod" => some (contiguous 3 (basic 1))
  | "fv3" => some (fieldVector 0 3 (basic 1))
  | "fv2" => some (fieldVector 0 2 (basic 1))
  | "big96" | "big40" => some (bigUnsigned 0 1 (basic 1))
  | "pair" | "pairis" => some (pair 0 (basic 1) 1 (basic 1) 2)
  -- pair<long long, char>: the first member goes through the byte-wise fallback; nested in a pair / a FieldVector
  | "pairlc" => some (pair 0 (contiguous 1 (basic 1)) 1 (basic 1) 2)
  | "ppair" => some (pair 0 (pair 0 (contiguous 1 (basic 1)) 1 (basic 1) 2) 2 (basic 1) 3)
  | "fvp" => some (fieldVector 0 2 (pair 0 (contiguous 1 (basic 1)) 1 (basic 1) 2))
  | "pli" => some (localIndex 1 (basic 1) 4)
  | "ip" => some (indexPair 0 (basic 1) 1 (localIndex 1 (basic 1) 4) 5)
  | _ => none

def two96 : Int := 79228162514264337593543950336
/-- `bigunsignedint<40>` keeps three full 16-bit digits -/
def two48 : Int := 281474976710656

def lexLt : List Int → List Int → Bool
  | [], [] => false
  | [], _ => true
  | _, [] => false
  | a :: as, b :: bs => if a < b then true else if b < a then false else lexLt as bs

def zipOp (f : Int → Int → Int) (a b : List Int) : List Int := List.zipWith f a b

def isLightArith (ty : String) : Bool :=
  ty == "uchar" || ty == "short" || ty == "ushort" || ty == "uint" || ty == "ulong" || ty == "float" || ty == "ldouble"
    || ty == "llong" || ty == "bool" || ty == "schar" || ty == "ullong"

def complexMul (a b : List Int) : List Int :=
  match a, b with
  | [ar, ai], [br, bi] => [ar * br - ai * bi, ar * bi + ai * br]
  | _, _ => []

/-- composition of the affine maps `x ↦ a x + b (mod 1009)`, first argument applied first; third cell adds up —
associative, not commutative -/
def affOp (f g : List Int) : List Int :=
  match f, g with
  | [a1, b1, c1], [a2, b2, c2] => [(a1 * a2) % 1009, (a2 * b1 + b2) % 1009, c1 + c2]
  | _, _ => []

/-- generic functors of the harness: ONE functor type applicable to many element types (`std::plus<>`,
`std::multiplies<>`, `GMin`, `GMax`, `std::bit_xor<>`, `Left`, `Right`), and the named reduction each computes -/
def isGenericFun (fn : String) : Bool :=
  fn == "gsum" || fn == "gprod" || fn == "gmin" || fn == "gmax" || fn == "gxor" || fn == "left" || fn == "right"

def plainFun : String → String
  | "gsum" => "sum"
  | "gprod" => "prod"
  | "gmin" => "min"
  | "gmax" => "max"
  | "gxor" => "xor"
  | fn => fn

def arithTypes : List String :=
  ["int", "long", "double", "uchar", "short", "ushort", "uint", "ulong", "float", "ldouble", "llong"]

/-- the element types a generic functor is instantiated for -/
def genericTypes (fn : String) : List String :=
  if fn == "gxor" then ["int", "long", "uchar", "ushort", "uint", "ulong"]
  else if fn == "gmin" || fn == "gmax" then arithTypes ++ ["big96", "big40"]
  else if fn == "gprod" then arithTypes ++ ["big96", "big40", "complex", "cfloat", "cldouble"]
  else if fn == "gsum" then arithTypes ++ ["big96", "big40", "complex", "cfloat", "cldouble", "fv3", "fv2"]
  else if fn == "left" || fn == "right" then
    arithTypes ++ ["big96", "big40", "complex", "cfloat", "cldouble", "fv3", "fv2", "pod"]
  else []

def genericOp (ty pf : String) : Option (List Int → List Int → List Int) :=
  let modulus : Option Int := if ty == "big96" then some two96 else if ty == "big40" then some two48 else none
  let cplx := ty == "complex" || ty == "cfloat" || ty == "cldouble"
  match pf with
  | "left" => some fun a _ => a
  | "right" => some fun _ b => b
  | "sum" => some (match modulus with | some m => zipOp fun a b => (a + b) % m | none => zipOp (· + ·))
  | "prod" => some (if cplx then complexMul else match modulus with | some m => zipOp fun a b => (a * b) % m | none => zipOp (· * ·))
  | "min" => some (zipOp min)
  | "max" => some (zipOp max)
  | "xor" => some (zipOp fun a b => Int.ofNat (a.toNat ^^^ b.toNat))
  | _ => none

/-- reduction functors of the harness at cell level: `op in inout` = `func(*in, *inout)` -/
def redOp (ty fn : String) : Option (List Int → List Int → List Int) :=
  if isGenericFun fn then
    (if (genericTypes fn).contains ty then genericOp ty (plainFun fn) else none)
  else if isLightArith ty then
    match fn with
    -- `std::plus<bool>` converts the `int` sum back to `bool`: logical or (prod/min/max stay within {0,1})
    | "sum" => some (if ty == "bool" then zipOp (fun a b => if a + b != 0 then 1 else 0) else zipOp (· + ·))
    | "prod" => some (zipOp (· * ·))
    | "min" => some (zipOp min)
    | "max" => some (zipOp max)
    | _ => none
  else if ty == "cfloat" || ty == "cldouble" then
    match fn with
    | "sum" => some (zipOp (· + ·))
    | "prod" => some complexMul
    | _ => none
  else
  match ty, fn with
  | "int", "first" => some fun a _ => a
  | "fv3", "aff" => some affOp
  | "int", "sum" | "long", "sum" | "double", "sum" | "complex", "sum" | "fv3", "sum" | "fv2", "sum" => some (zipOp (· + ·))
  | "int", "prod" | "long", "prod" | "double", "prod" => some (zipOp (· * ·))
  | "int", "min" | "long", "min" | "double", "min" | "big96", "min" => some (zipOp min)
  | "int", "max" | "long", "max" | "double", "max" | "big96", "max" | "fv3", "cwmax" => some (zipOp max)
  | "int", "xor" => some (zipOp fun a b => Int.ofNat (a.toNat ^^^ b.toNat))
  | "complex", "prod" => some fun a b =>
      match a, b with
      | [ar, ai], [br, bi] => [ar * br - ai * bi, ar * bi + ai * br]
      | _, _ => []
  | "big96", "sum" => some (zipOp fun a b => (a + b) % two96)
  | "big96", "prod" => some (zipOp fun a b => (a * b) % two96)
  | "big40", "sum" => some (zipOp fun a b => (a + b) % two48)
  | "big40", "prod" => some (zipOp fun a b => (a * b) % two48)
  | "big40", "min" => some (zipOp min)
  | "big40", "max" => some (zipOp max)
  | "pair", "min" | "pairlc", "min" | "pairis", "min" => some fun a b => if lexLt b a then b else a
  | "pair", "max" | "pairlc", "max" | "pairis", "max" => some fun a b => if lexLt a b then b else a
  | _, _ => none

/-! ## lazily created singletons: one `MPI_Op` per instantiation of `Generic_MPI_Op`, one `MPI_Datatype` per
instantiation of `MPITraits`

`get()` / `getType()` have the shape `if (!handle) handle = create(); return handle;` where `handle` is static
storage.  Which instantiations *share* that storage is decided by the entity that owns it (a static data member or a
function-local static of the class template: one per full argument list; a variable template `v<A>`: one per `A`);
what `create()` builds depends on the template parameters used in the creating code (the callback
`operation(Type*, Type*, ...)` calling `BinaryFunction`, the members of the described type).  Template parameters are
named by position (`"1"`, `"2"`, …); `tools/translators/tr_c07.py` extracts one `Row` per class template from the
sources. -/
namespace Reg

/-- an instantiation: template parameter (by position) ↦ argument -/
abbrev Inst := List (String × String)

/-- a call of `get()` / `getType()` of the instantiation `inst` of the class template `family` -/
structure Use where
  family : String
  inst : Inst
deriving DecidableEq, Repr

/-- `slot` = the template parameters that select the storage; `used` = those the created handle depends on -/
structure Row where
  family : String
  slot : List String
  used : List String
deriving DecidableEq, Repr

def argOf (i : Inst) (p : String) : Option String := (i.find? (fun e => e.1 == p)).map (·.2)
def proj (ps : List String) (i : Inst) : List (Option String) := ps.map (argOf i)
def rowOf (tbl : List Row) (fam : String) : Option Row := tbl.find? (fun r => r.family == fam)

/-- storage cell selected by a use -/
abbrev Key := String × List (Option String)
/-- the static storage: which instantiation created the handle that sits in a cell -/
abbrev Cache := List (Key × Inst)

def lookup (c : Cache) (k : Key) : Option Inst := (c.find? (fun e => e.1 == k)).map (·.2)

/-- `if (!handle) handle = create(); return handle;` — returns the instantiation whose `create()` made the handle
that the caller gets.  A class template without a row keeps no state. -/
def get (tbl : List Row) (c : Cache) (u : Use) : Inst × Cache :=
  match rowOf tbl u.family with
  | none => (u.inst, c)
  | some r =>
    let k : Key := (u.family, proj r.slot u.inst)
    match lookup c k with
    | some creator => (creator, c)
    | none => (u.inst, (k, u.inst) :: c)

/-- the state of the process after a history of calls -/
def run (tbl : List Row) (c : Cache) (hist : List Use) : Cache := hist.foldl (fun c u => (get tbl c u).2) c

/-- the handle the caller got is as good as its own: its creator agrees with the caller on every template
parameter the creation depends on -/
def faithful (tbl : List Row) (u : Use) (creator : Inst) : Bool :=
  match rowOf tbl u.family with
  | none => creator == u.inst
  | some r => proj r.used creator == proj r.used u.inst

/-- all calls of one step of a history: were all handles faithful, and the state afterwards -/
def step (tbl : List Row) (c : Cache) (us : List Use) : Bool × Cache :=
  us.foldl (fun acc u => let g := get tbl acc.2 u; (acc.1 && faithful tbl u g.1, g.2)) (true, c)

/-- a history of steps from a given state: for every step, whether all its handles were faithful -/
def runSteps (tbl : List Row) : Cache → List (List Use) → List Bool
  | _, [] => []
  | c, us :: rest => (step tbl c us).1 :: runSteps tbl (step tbl c us).2 rest

end Reg

/-! ### which singletons a harness call touches -/

/-- C++ spelling of the harness element types (only used as registry arguments) -/
def cppType : String → String
  | "llong" => "long long"
  | "schar" => "signed char"
  | "ullong" => "unsigned long long"
  | "uchar" => "unsigned char"
  | "ushort" => "unsigned short"
  | "uint" => "unsigned int"
  | "ulong" => "unsigned long"
  | "ldouble" => "long double"
  | "complex" => "std::complex<double>"
  | "cfloat" => "std::complex<float>"
  | "cldouble" => "std::complex<long double>"
  | "fv3" => "FieldVector<int,3>"
  | "fv2" => "FieldVector<int,2>"
  | "fvp" => "FieldVector<std::pair<long long,char>,2>"
  | "big96" => "bigunsignedint<96>"
  | "big40" => "bigunsignedint<40>"
  | "pair" => "std::pair<int,char>"
  | "pairis" => "std::pair<int,short>"
  | "pairlc" => "std::pair<long long,char>"
  | "ppair" => "std::pair<std::pair<long long,char>,short>"
  | "pli" => "ParallelLocalIndex<int>"
  | "ip" => "IndexPair<int,ParallelLocalIndex<int>>"
  | "pod" => "Pod"
  | t => t

/-- the `MPITraits<…>::getType()` singletons behind an element type (the type itself first, then its members) -/
def tyUses : String → List Reg.Use
  | "llong" => [⟨"MPITraits<$1>", [("1", "long long")]⟩]
  | "bool" => [⟨"MPITraits<$1>", [("1", "bool")]⟩]
  | "schar" => [⟨"MPITraits<$1>", [("1", "signed char")]⟩]
  | "ullong" => [⟨"MPITraits<$1>", [("1", "unsigned long long")]⟩]
  | "pod" => [⟨"MPITraits<$1>", [("1", "Pod")]⟩]
  | "fv3" => [⟨"MPITraits<FieldVector<$1,$2>>", [("1", "int"), ("2", "3")]⟩]
  | "fv2" => [⟨"MPITraits<FieldVector<$1,$2>>", [("1", "int"), ("2", "2")]⟩]
  | "fvp" => [⟨"MPITraits<FieldVector<$1,$2>>", [("1", "std::pair<long long,char>"), ("2", "2")]⟩,
              ⟨"MPITraits<std::pair<$1,$2>>", [("1", "long long"), ("2", "char")]⟩, ⟨"MPITraits<$1>", [("1", "long long")]⟩]
  | "big96" => [⟨"MPITraits<bigunsignedint<$1>>", [("1", "96")]⟩]
  | "big40" => [⟨"MPITraits<bigunsignedint<$1>>", [("1", "40")]⟩]
  | "pair" => [⟨"MPITraits<std::pair<$1,$2>>", [("1", "int"), ("2", "char")]⟩]
  | "pairis" => [⟨"MPITraits<std::pair<$1,$2>>", [("1", "int"), ("2", "short")]⟩]
  | "pairlc" => [⟨"MPITraits<std::pair<$1,$2>>", [("1", "long long"), ("2", "char")]⟩, ⟨"MPITraits<$1>", [("1", "long long")]⟩]
  | "ppair" => [⟨"MPITraits<std::pair<$1,$2>>", [("1", "std::pair<long long,char>"), ("2", "short")]⟩,
                ⟨"MPITraits<std::pair<$1,$2>>", [("1", "long long"), ("2", "char")]⟩, ⟨"MPITraits<$1>", [("1", "long long")]⟩]
  | "pli" => [⟨"MPITraits<ParallelLocalIndex<$1>>", [("1", "int")]⟩]
  | "ip" => [⟨"MPITraits<IndexPair<$1,ParallelLocalIndex<$2>>>", [("1", "int"), ("2", "int")]⟩,
             ⟨"MPITraits<ParallelLocalIndex<$1>>", [("1", "int")]⟩]
  | _ => []

/-- element types with a `ComposeMPITraits` line (`is_intrinsic`) -/
def isIntrinsicTy (ty : String) : Bool :=
  ty == "int" || ty == "long" || ty == "double" || ty == "char" || ty == "complex" || ty == "uchar" || ty == "short"
    || ty == "ushort" || ty == "uint" || ty == "ulong" || ty == "float" || ty == "ldouble" || ty == "cfloat" || ty == "cldouble"

/-- the C++ type of the functor behind a functor name of the harness -/
def functorType (ty fn : String) : String :=
  match fn with
  | "sum" => "std::plus<" ++ cppType ty ++ ">"
  | "prod" => "std::multiplies<" ++ cppType ty ++ ">"
  | "min" => "Dune::Min<" ++ cppType ty ++ ">"
  | "max" => "Dune::Max<" ++ cppType ty ++ ">"
  | "xor" => "std::bit_xor<" ++ cppType ty ++ ">"
  | "gsum" => "std::plus<>"
  | "gprod" => "std::multiplies<>"
  | "gxor" => "std::bit_xor<>"
  | "gmin" => "GMin"
  | "gmax" => "GMax"
  | "left" => "Left"
  | "right" => "Right"
  | "first" => "First"
  | "aff" => "Aff"
  | "cwmax" => "CwMax"
  | f => f

/-- the `Generic_MPI_Op<Type, BinaryFunction>::get()` singleton behind a reduction — none for the four named
functors on intrinsic types, which `ComposeMPIOp` maps to predefined handles -/
def opUses (ty fn : String) : List Reg.Use :=
  let named := fn == "sum" || fn == "prod" || fn == "min" || fn == "max"
  if named && isIntrinsicTy ty then []
  else [⟨"Generic_MPI_Op<$1,$2,$3>", [("1", cppType ty), ("2", functorType ty fn), ("3", "void")]⟩]

/-! ## R4: the wrapper layer `Communication<MPI_Comm>` as data

`tr_c07.py` executes every member function body of `Communication<MPI_Comm>` symbolically (MPIData views of the
parameters, `MPIFuture` construction, local `int`s, the one MPI call / the delegation to another overload) and emits one
`Row` per overload: which MPI function is called with which buffer, count, datatype, root, operation.  Parameters and
template parameters are numbered by position (renaming is harmless), the factors of a product are sorted. -/
namespace Wrap
inductive Atom where
  | isRoot                 -- `(me==root)`
  | lit (n : Nat)
  | par (p : Nat)          -- `int` parameter number `p`
  | procs
  | sizeOf (p : Nat)       -- `getMPIData(parameter p).size()`
deriving Repr, DecidableEq
/-- `(num₁ * num₂ * …) / den` in C's integer arithmetic -/
structure CExpr where
  num : List Atom
  den : List Atom
deriving Repr, DecidableEq
inductive Elem where
  | named (t : String)     -- `Generic_MPI_Op<t, F>`
  | elemOf (p : Nat)       -- `Generic_MPI_Op<decltype(getMPIData(parameter p))::element_type, F>`
deriving Repr, DecidableEq
inductive Arg where
  | buf (p : Nat)          -- pointer to the elements of parameter `p` (0 = a local temporary)
  | inPlace
  | cnt (e : CExpr)
  | arr (p : Nat)          -- `int*` parameter passed through
  | tyT (t : String)       -- `MPITraits<t>::getType()`
  | tyOf (p : Nat)         -- `getMPIData(parameter p).type()`
  | root | peer | tag | comm | req | status
  | op (e : Elem) (f : String)
deriving Repr, DecidableEq
inductive Body where
  | call (fn : String) (args : List Arg)
  | delegate (functor : String) (args : List Arg)           -- `allreduce<functor>(args)`
  | delegateCopyBack (functor : String) (args : List Arg)   -- into a temporary, then `std::copy` back
  | probeCountResizeRecv (p : Nat)                          -- `MPI_Mprobe; MPI_Get_count; resize; MPI_Mrecv` on parameter `p`
deriving Repr, DecidableEq
inductive Guard where
  | none
  | throwIfEmpty (p : Nat)
deriving Repr, DecidableEq
structure Row where
  name : String
  body : Body
  ptrs : List (Nat × String)     -- pointer / reference parameters and their element type
  same : List (Nat × Nat)        -- parameters asserted to have the same datatype (`assert(a.type() == b.type())`)
  guard : Guard
deriving Repr, DecidableEq

structure CEnv where
  par : Nat → Nat
  sizeOf : Nat → Nat
  me : Nat
  root : Nat
  procs : Nat

def Atom.eval (env : CEnv) : Atom → Nat
  | .isRoot => if env.me = env.root then 1 else 0
  | .lit n => n
  | .par p => env.par p
  | .procs => env.procs
  | .sizeOf p => env.sizeOf p
def prodOf (env : CEnv) (as : List Atom) : Nat := as.foldr (fun a acc => a.eval env * acc) 1
def CExpr.eval (env : CEnv) (e : CExpr) : Nat := prodOf env e.num / prodOf env e.den

/-- argument roles of the MPI functions used (MPI 3.1 §3.2, §3.7, §5.4–5.9, §5.12) -/
inductive Role where
  | buf | count | type | counts | displs | root | peer | tag | comm | req | status | op
deriving Repr, DecidableEq

def signature : String → Option (List Role)
  | "MPI_Send" => some [.buf, .count, .type, .peer, .tag, .comm]
  | "MPI_Isend" => some [.buf, .count, .type, .peer, .tag, .comm, .req]
  | "MPI_Recv" => some [.buf, .count, .type, .peer, .tag, .comm, .status]
  | "MPI_Irecv" => some [.buf, .count, .type, .peer, .tag, .comm, .req]
  | "MPI_Bcast" => some [.buf, .count, .type, .root, .comm]
  | "MPI_Ibcast" => some [.buf, .count, .type, .root, .comm, .req]
  | "MPI_Gather" | "MPI_Scatter" => some [.buf, .count, .type, .buf, .count, .type, .root, .comm]
  | "MPI_Igather" | "MPI_Iscatter" => some [.buf, .count, .type, .buf, .count, .type, .root, .comm, .req]
  | "MPI_Gatherv" => some [.buf, .count, .type, .buf, .counts, .displs, .type, .root, .comm]
  | "MPI_Scatterv" => some [.buf, .counts, .displs, .type, .buf, .count, .type, .root, .comm]
  | "MPI_Allgather" => some [.buf, .count, .type, .buf, .count, .type, .comm]
  | "MPI_Iallgather" => some [.buf, .count, .type, .buf, .count, .type, .comm, .req]
  | "MPI_Allgatherv" => some [.buf, .count, .type, .buf, .counts, .displs, .type, .comm]
  | "MPI_Allreduce" => some [.buf, .buf, .count, .type, .op, .comm]
  | "MPI_Iallreduce" => some [.buf, .buf, .count, .type, .op, .comm, .req]
  | "MPI_Barrier" => some [.comm]
  | "MPI_Ibarrier" => some [.comm, .req]
  | _ => none

/-- the MPI function a member function of the communication abstraction stands for -/
def mpiFunction : String → Option String
  | "send_3" => some "MPI_Send" | "isend_3" => some "MPI_Isend" | "recv_4" => some "MPI_Recv" | "irecv_3" => some "MPI_Irecv"
  | "broadcast_3" => some "MPI_Bcast" | "ibroadcast_2" => some "MPI_Ibcast"
  | "gather_4" => some "MPI_Gather" | "igather_3" => some "MPI_Igather" | "gatherv_6" => some "MPI_Gatherv"
  | "scatter_4" => some "MPI_Scatter" | "iscatter_3" => some "MPI_Iscatter" | "scatterv_6" => some "MPI_Scatterv"
  | "allgather_3" => some "MPI_Allgather" | "iallgather_2" => some "MPI_Iallgather" | "allgatherv_5" => some "MPI_Allgatherv"
  | "allreduce_3" | "allreduce_1" => some "MPI_Allreduce" | "iallreduce_2" | "iallreduce_1" => some "MPI_Iallreduce"
  | "barrier_0" => some "MPI_Barrier" | "ibarrier_0" => some "MPI_Ibarrier"
  | _ => none

def roleOk : Role → Arg → Bool
  | .buf, .buf _ | .buf, .inPlace | .count, .cnt _ | .type, .tyT _ | .type, .tyOf _ | .counts, .arr _ | .displs, .arr _
  | .root, .root | .peer, .peer | .tag, .tag | .comm, .comm | .req, .req | .status, .status | .op, .op _ _ => true
  | _, _ => false

/-- is the datatype `ty` the one of the elements behind `b`? -/
def typeMatches (ptrs : List (Nat × String)) (same : List (Nat × Nat)) (b ty : Arg) : Bool :=
  match b, ty with
  | .buf p, .tyT t => ptrs.contains (p, t)
  | .buf p, .tyOf q => p == q || same.contains (p, q) || same.contains (q, p)
  | .inPlace, _ => true
  | _, _ => false

def opMatches (ty o : Arg) : Bool :=
  match ty, o with
  | .tyT t, .op (.named e) _ => t == e          -- the op is instantiated for the element type the datatype describes
  | .tyOf p, .op (.elemOf q) _ => p == q
  | _, _ => false

/-- every buffer is described by the datatype of its own elements and reduced by the op of its own element type -/
def buffersTyped (ptrs : List (Nat × String)) (same : List (Nat × Nat)) : List Role → List Arg → Bool
  | .buf :: .count :: .type :: rs, b :: _ :: t :: as => typeMatches ptrs same b t && buffersTyped ptrs same rs as
  | .buf :: .counts :: .displs :: .type :: rs, b :: _ :: _ :: t :: as => typeMatches ptrs same b t && buffersTyped ptrs same rs as
  | .buf :: .buf :: .count :: .type :: .op :: rs, s :: r :: _ :: t :: o :: as =>
      typeMatches ptrs same s t && typeMatches ptrs same r t && opMatches t o && buffersTyped ptrs same rs as
  | .buf :: _, _ => false
  | _ :: rs, _ :: as => buffersTyped ptrs same rs as
  | _, _ => true

def wellFormed (r : Row) : Bool :=
  match r.body with
  | .call fn args =>
    mpiFunction r.name == some fn &&
    (match signature fn with
     | some sig => sig.length == args.length && (List.zipWith roleOk sig args).all id && buffersTyped r.ptrs r.same sig args
     | none => false)
  | _ => true

def find (tbl : List Row) (name : String) : Option Row := tbl.find? (fun r => r.name == name)
/-- the `k`-th count argument of the MPI call of wrapper `name` -/
def countArg (tbl : List Row) (name : String) (k : Nat) : Option CExpr :=
  match find tbl name with
  | some ⟨_, .call _ args, _, _, _⟩ => (args.filterMap (fun a => match a with | .cnt e => some e | _ => none))[k]?
  | _ => none

/-- what the wrappers have to be (read off the documentation of the class and the MPI standard): the specification side of
`Gen.wrapperTable` -/
def expected : List Row := [
  ⟨"send_3", .call "MPI_Send" [.buf 1, .cnt ⟨[.sizeOf 1], []⟩, .tyOf 1, .peer, .tag, .comm], [(1, "$1")], [], .none⟩,
  ⟨"isend_3", .call "MPI_Isend" [.buf 1, .cnt ⟨[.sizeOf 1], []⟩, .tyOf 1, .peer, .tag, .comm, .req], [], [], .none⟩,
  ⟨"recv_4", .call "MPI_Recv" [.buf 1, .cnt ⟨[.sizeOf 1], []⟩, .tyOf 1, .peer, .tag, .comm, .status], [], [], .none⟩,
  ⟨"irecv_3", .call "MPI_Irecv" [.buf 1, .cnt ⟨[.sizeOf 1], []⟩, .tyOf 1, .peer, .tag, .comm, .req], [], [], (.throwIfEmpty 1)⟩,
  ⟨"broadcast_3", .call "MPI_Bcast" [.buf 1, .cnt ⟨[.par 2], []⟩, .tyT "$1", .root, .comm], [(1, "$1")], [], .none⟩,
  ⟨"ibroadcast_2", .call "MPI_Ibcast" [.buf 1, .cnt ⟨[.sizeOf 1], []⟩, .tyOf 1, .root, .comm, .req], [], [], .none⟩,
  ⟨"gather_4", .call "MPI_Gather" [.buf 1, .cnt ⟨[.par 3], []⟩, .tyT "$1", .buf 2, .cnt ⟨[.par 3], []⟩, .tyT "$1", .root, .comm], [(1, "$1"), (2, "$1")], [], .none⟩,
  ⟨"igather_3", .call "MPI_Igather" [.buf 1, .cnt ⟨[.sizeOf 1], []⟩, .tyOf 1, .buf 2, .cnt ⟨[.isRoot, .sizeOf 1], []⟩, .tyOf 2, .root, .comm, .req], [], [], .none⟩,
  ⟨"gatherv_6", .call "MPI_Gatherv" [.buf 1, .cnt ⟨[.par 2], []⟩, .tyT "$1", .buf 3, .arr 4, .arr 5, .tyT "$1", .root, .comm], [(1, "$1"), (3, "$1")], [], .none⟩,
  ⟨"scatter_4", .call "MPI_Scatter" [.buf 1, .cnt ⟨[.par 3], []⟩, .tyT "$1", .buf 2, .cnt ⟨[.par 3], []⟩, .tyT "$1", .root, .comm], [(1, "$1"), (2, "$1")], [], .none⟩,
  ⟨"iscatter_3", .call "MPI_Iscatter" [.buf 1, .cnt ⟨[.isRoot, .sizeOf 1], [.procs]⟩, .tyOf 1, .buf 2, .cnt ⟨[.sizeOf 2], []⟩, .tyOf 2, .root, .comm, .req], [], [], .none⟩,
  ⟨"scatterv_6", .call "MPI_Scatterv" [.buf 1, .arr 2, .arr 3, .tyT "$1", .buf 4, .cnt ⟨[.par 5], []⟩, .tyT "$1", .root, .comm], [(1, "$1"), (4, "$1")], [], .none⟩,
  ⟨"allgather_3", .call "MPI_Allgather" [.buf 1, .cnt ⟨[.par 2], []⟩, .tyT "$1", .buf 3, .cnt ⟨[.par 2], []⟩, .tyT "$2", .comm], [(1, "$1"), (3, "$2")], [], .none⟩,
  ⟨"iallgather_2", .call "MPI_Iallgather" [.buf 1, .cnt ⟨[.sizeOf 1], []⟩, .tyOf 1, .buf 2, .cnt ⟨[.sizeOf 1], []⟩, .tyOf 2, .comm, .req], [], [], .none⟩,
  ⟨"allgatherv_5", .call "MPI_Allgatherv" [.buf 1, .cnt ⟨[.par 2], []⟩, .tyT "$1", .buf 3, .arr 4, .arr 5, .tyT "$1", .comm], [(1, "$1"), (3, "$1")], [], .none⟩,
  ⟨"allreduce_3", .call "MPI_Allreduce" [.buf 1, .buf 2, .cnt ⟨[.par 3], []⟩, .tyT "$2", .op (.named "$2") "$1", .comm], [(1, "$2"), (2, "$2")], [], .none⟩,
  ⟨"allreduce_1", .call "MPI_Allreduce" [.inPlace, .buf 1, .cnt ⟨[.sizeOf 1], []⟩, .tyOf 1, .op (.elemOf 1) "$1", .comm], [], [], .none⟩,
  ⟨"iallreduce_2", .call "MPI_Iallreduce" [.buf 1, .buf 2, .cnt ⟨[.sizeOf 2], []⟩, .tyOf 2, .op (.elemOf 2) "$1", .comm, .req], [], [(1, 2)], .none⟩,
  ⟨"iallreduce_1", .call "MPI_Iallreduce" [.inPlace, .buf 1, .cnt ⟨[.sizeOf 1], []⟩, .tyOf 1, .op (.elemOf 1) "$1", .comm, .req], [], [], .none⟩,
  ⟨"allreduce_2", .delegateCopyBack "$1" [.buf 1, .buf 0, .cnt ⟨[.par 2], []⟩], [(1, "$2")], [], .none⟩,
  ⟨"sum_1", .delegate "std::plus<$1>" [.buf 1, .buf 0, .cnt ⟨[.lit 1], []⟩], [(1, "$1")], [], .none⟩,
  ⟨"sum_2", .delegate "std::plus<$1>" [.buf 1, .cnt ⟨[.par 2], []⟩], [(1, "$1")], [], .none⟩,
  ⟨"prod_1", .delegate "std::multiplies<$1>" [.buf 1, .buf 0, .cnt ⟨[.lit 1], []⟩], [(1, "$1")], [], .none⟩,
  ⟨"prod_2", .delegate "std::multiplies<$1>" [.buf 1, .cnt ⟨[.par 2], []⟩], [(1, "$1")], [], .none⟩,
  ⟨"min_1", .delegate "Min<$1>" [.buf 1, .buf 0, .cnt ⟨[.lit 1], []⟩], [(1, "$1")], [], .none⟩,
  ⟨"min_2", .delegate "Min<$1>" [.buf 1, .cnt ⟨[.par 2], []⟩], [(1, "$1")], [], .none⟩,
  ⟨"max_1", .delegate "Max<$1>" [.buf 1, .buf 0, .cnt ⟨[.lit 1], []⟩], [(1, "$1")], [], .none⟩,
  ⟨"max_2", .delegate "Max<$1>" [.buf 1, .cnt ⟨[.par 2], []⟩], [(1, "$1")], [], .none⟩,
  ⟨"rrecv_4", .probeCountResizeRecv 1, [], [], .none⟩,
  ⟨"barrier_0", .call "MPI_Barrier" [.comm], [], [], .none⟩,
  ⟨"ibarrier_0", .call "MPI_Ibarrier" [.comm, .req], [], [], .none⟩
]
end Wrap

end DV.C07
