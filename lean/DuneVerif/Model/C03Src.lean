/-
C03 — meaning of the pieces that tools/translators/tr_c03.py regenerates from indexset.hh / plocalindex.hh
(lean/DuneVerif/Gen/C03.lean): how a `Check`, an `Effects` record, a comparison expression and a `Search` skeleton
act on the model's data.  Nothing here knows the *values* of the generated definitions; Props/C03.lean proves that the
hand-written model (Model/C03.lean) coincides with these interpretations of the generated pieces
(`*_matches_source`).  Core Lean only.
-/
import DuneVerif.Model.C03
import DuneVerif.Gen.C03

namespace DV.C03
namespace Src

/-- apply the scalar effects of a mutator -/
def Effects.apply (e : Effects) (s : ISet) : ISet :=
  { s with st := e.state.getD s.st, del := e.del.getD s.del, seq := s.seq + e.seqAdd }

/-- what of an index set can be observed (`deletedEntries_` only decides whether `merge()` may skip its work) -/
def visible (s : ISet) : List Pair × List Pair × St × Nat := (s.loc, s.fresh, s.st, s.seq)

/-- a mutator as the source describes it: check first, then the container effect `f`, then the scalar effects -/
def mutatorSrc (c : Check) (e : Effects) (f : ISet → ISet) (s : ISet) : Except Err ISet :=
  if c.rejects s.st then .error .invalidState else .ok (e.apply (f s))

/-! ### comparisons -/

def envAttr (x y : Nat) : Env :=
  { i := fun v => match v with | .a1 => (x : Int) | .a2 => (y : Int) | _ => 0, b := fun _ => false }

/-- environment of `IndexSetSortFunctor` / the comparison in `merge()`: the two global indices and the result of
`LocalIndexComparator::compare` in both argument orders (`inner` is the comparator's body over the attributes) -/
def envPairs (inner : BE) (x y : Pair) : Env :=
  { i := fun v => match v with | .g1 => x.g | .g2 => y.g | _ => 0,
    b := fun v => match v with
      | .cmp12 => inner.eval (envAttr x.l.attr y.l.attr)
      | .cmp21 => inner.eval (envAttr y.l.attr x.l.attr)
      | _ => false }

def beforeSrc (outer inner : BE) (x y : Pair) : Bool := outer.eval (envPairs inner x y)

/-! ### merge() -/

def envOld (o : Pair) : Env := { i := fun _ => 0, b := fun v => match v with | .oldDeleted => !o.l.valid | _ => false }

/-- the three loops of `merge()` with the comparison and the two DELETED tests taken from the source -/
def mergeInnerSrc (takesOld inner : BE) (o : Pair) (rest : List Pair → List Pair) : List Pair → List Pair
  | [] => o :: rest []
  | a :: as => if beforeSrc takesOld inner o a then o :: rest (a :: as) else a :: mergeInnerSrc takesOld inner o rest as

def mergeLoopSrc (takesOld inner drops keeps : BE) : List Pair → List Pair → List Pair
  | [], added => added
  | o :: os, [] =>                                   -- second loop
    if keeps.eval (envOld o) then o :: mergeLoopSrc takesOld inner drops keeps os []
    else mergeLoopSrc takesOld inner drops keeps os []
  | o :: os, a :: as =>                              -- first loop
    if drops.eval (envOld o) then mergeLoopSrc takesOld inner drops keeps os (a :: as)
    else mergeInnerSrc takesOld inner o (mergeLoopSrc takesOld inner drops keeps os) (a :: as)

/-! ### the binary search -/

def envSearch (size low high probe elem glob : Int) : Env :=
  { i := fun v => match v with
      | .low => low | .high => high | .probe => probe | .size => size | .elem => elem | .glob => glob | _ => 0,
    b := fun _ => false }

/-- the loop of one copy of the search, interpreted; returns the final `(low, probe)`;
`none` = read outside the list or fuel exhausted -/
def searchLoopSrc (lp : Loop) (xs : List Pair) (g : Int) : Nat → Int → Int → Int → Option (Int × Int)
  | 0, low, high, probe =>
    if lp.cond.eval (envSearch xs.length low high probe 0 g) then none else some (low, probe)
  | fuel + 1, low, high, probe =>
    if lp.cond.eval (envSearch xs.length low high probe 0 g) then
      let probe' := lp.probe.eval (envSearch xs.length low high probe 0 g)
      match gAt xs probe' with
      | none => none
      | some e =>
        let env := envSearch xs.length low high probe' e g
        if lp.test.eval env then
          match lp.thenT with
          | .high => searchLoopSrc lp xs g fuel low (lp.thenE.eval env) probe'
          | .low => searchLoopSrc lp xs g fuel (lp.thenE.eval env) high probe'
        else
          match lp.elseT with
          | .high => searchLoopSrc lp xs g fuel low (lp.elseE.eval env) probe'
          | .low => searchLoopSrc lp xs g fuel (lp.elseE.eval env) high probe'
    else some (low, probe)

def searchSrc (lp : Loop) (xs : List Pair) (g : Int) : Option (Int × Int) :=
  let env0 := envSearch xs.length 0 0 0 0 g
  searchLoopSrc lp xs g xs.length (lp.lowInit.eval env0) (lp.highInit.eval env0) (lp.probeInit.eval env0)

/-- what a lookup can end in -/
inductive Outcome where
  | ub                 -- read outside the list
  | range              -- RangeError
  | bool (b : Bool)
  | elem (i : Nat) (p : Pair)   -- reference to `localIndices_[i]`
  deriving DecidableEq, Repr

def actSrc (xs : List Pair) (low : Int) : Act → Outcome
  | .throwRange => .range
  | .retFalse => .bool false
  | .retTrue => .bool true
  | .retElem => match pAt xs low with | none => .ub | some p => .elem low.toNat p

/-- one whole lookup as the source describes it -/
def lookupSrc (sg : Search) (xs : List Pair) (g : Int) : Outcome :=
  match searchSrc sg.loop xs g with
  | none => .ub
  | some (low, probe) =>
    let emptyHit := match sg.emptyTest with
      | none => false
      | some t => t.eval (envSearch xs.length low 0 probe 0 g)
    if emptyHit then actSrc xs low sg.emptyAct
    else
      match sg.missTest with
      | none => actSrc xs low sg.foundAct
      | some t =>
        match gAt xs low with
        | none => .ub
        | some e => if t.eval (envSearch xs.length low 0 probe e g) then actSrc xs low sg.missAct else actSrc xs low sg.foundAct

/-! ### endResize(): its container statements in source order -/

def Call.apply : Call → ISet → ISet
  | .sortNew, s => { s with fresh := sortFresh s.fresh }
  | .merge, s => DV.C03.merge s
  | .unknown, s => s

def runCalls (cs : List Call) (s : ISet) : ISet := cs.foldl (fun s c => c.apply s) s

/-! ### renumberLocal(): the loop with start value, increment and assigned expression from the source -/

def envIndex (i : Int) : Env := { i := fun v => match v with | .index => i | _ => 0, b := fun _ => false }

def renumSrc (r : Renum) : Int → List Pair → List Pair
  | _, [] => []
  | i, p :: ps => setLoc p (r.value.eval (envIndex i)).toNat :: renumSrc r (i + r.step) ps

/-! ### the constructors of GlobalLookupIndexSet -/

def envTable (size loc arg : Int) : Env :=
  { i := fun v => match v with | .size => size | .locNo => loc | .tsize => arg | _ => 0, b := fun _ => false }

/-- `for(pair : indexSet_) size_ = std::max<std::size_t>(size_, <e>)` -/
def foldMaxSrc (e : IE) : List Pair → Int → Int
  | [], m => m
  | p :: ps, m => foldMaxSrc e ps (max m (e.eval (envTable 0 p.l.loc 0)))

/-- `for(pair : indexSet_) indices_[<slot>] = &*pair`; `none` = write outside `indices_` -/
def fillSrc (slot : IE) : List Pair → List (Option Pair) → Option (List (Option Pair))
  | [], t => some t
  | p :: ps, t =>
    let i := slot.eval (envTable 0 p.l.loc 0)
    if i < 0 then none else (setAt p i.toNat t).bind (fillSrc slot ps)

/-- a whole constructor: the table and the final `size_` -/
def tableSrc (c : TableCtor) (arg : Nat) (xs : List Pair) : Option (List (Option Pair) × Int) :=
  let s0 := c.sizeInit.eval (envTable 0 0 arg)
  let s1 := match c.foldMax with | none => s0 | some e => foldMaxSrc e xs s0
  let n := c.cells.eval (envTable s1 0 arg)
  if n < 0 then none
  else (fillSrc c.slot xs (List.replicate n.toNat none)).map fun t => (t, c.sizeFinal.eval (envTable s1 0 arg))

/-! ### round four: the loops of merge() as a program, the first branch, the local index classes -/

structure MState where
  old : List Pair
  added : List Pair
  temp : List Pair

def MAct.run : MAct → MState → Option MState
  | .pushOld, s => s.old.head?.map fun o => { s with temp := s.temp ++ [o] }
  | .pushAdded, s => s.added.head?.map fun a => { s with temp := s.temp ++ [a] }
  | .eraseOld, s => match s.old with | [] => none | _ :: os => some { s with old := os }
  | .eraseAdded, s => match s.added with | [] => none | _ :: as => some { s with added := as }

def runActs : List MAct → MState → Option MState
  | [], s => some s
  | a :: as, s => (a.run s).bind (runActs as)

/-- environment of the conditions inside `merge()`: the entries under the two iterators -/
def envMerge (inner : BE) (s : MState) : Env :=
  let o := s.old.head?.getD default
  let a := s.added.head?.getD default
  { i := (envPairs inner o a).i,
    b := fun v => match v with | .oldDeleted => !o.l.valid | w => (envPairs inner o a).b w }

def MTree.run (inner : BE) : MTree → MState → Option MState
  | .acts l, s => runActs l s
  | .ite c t e, s => if c.eval (envMerge inner s) then t.run inner s else e.run inner s
  | .unknown, _ => none

def MLoop.guard (l : MLoop) (s : MState) : Bool :=
  (!l.needOld || !s.old.isEmpty) && (!l.needAdded || !s.added.isEmpty)

def MLoop.run (inner : BE) (l : MLoop) : Nat → MState → Option MState
  | 0, s => if l.guard s then none else some s
  | f + 1, s => if l.guard s then (l.body.run inner s).bind (l.run inner f) else some s

def runLoops (inner : BE) : List MLoop → MState → Option MState
  | [], s => some s
  | l :: ls, s => (l.run inner (s.old.length + s.added.length) s).bind (runLoops inner ls)

/-- the `else if` branch of `merge()`: the loops in source order, then `localIndices_ = tempPairs` -/
def mergeProgSrc (inner : BE) (loops : List MLoop) (old added : List Pair) : Option (List Pair) :=
  (runLoops inner loops ⟨old, added, []⟩).map (·.temp)

def CopyAct.apply : CopyAct → ISet → ISet
  | .assignNewToLocal, s => { s with loc := s.fresh }
  | .clearNew, s => { s with fresh := [] }
  | .unknown, s => s

def runCopy (cs : List CopyAct) (s : ISet) : ISet := cs.foldl (fun s c => c.apply s) s

/-- `merge()` as the source describes it (the two branch conditions are the model's: they only decide whether work whose
result is the unchanged list may be skipped) -/
def mergeSrc (copy : List CopyAct) (inner : BE) (loops : List MLoop) (s : ISet) : Option ISet :=
  if s.loc.length = 0 then some (runCopy copy s)
  else if s.fresh.length > 0 || s.del then
    (mergeProgSrc inner loops s.loc s.fresh).map fun l => { s with loc := l, fresh := [] }
  else some s
/-- numeric value; booleans as 0/1, `enum LocalIndexState {VALID, DELETED}` as 0/1 (`Gen.stateEnum`) -/
def Init.eval (args : List Nat) : Init → Nat
  | .zero => 0 | .falseV => 0 | .trueV => 1 | .valid => 0 | .deleted => 1
  | .param i => args.getD i 0

def LIdxCtor.build (c : LIdxCtor) (args : List Nat) : LIdx :=
  { loc := c.loc.eval args, attr := c.attr.eval args, pub := c.pub.eval args != 0, valid := c.state.eval args == 0 }

/-- the member assignments of `operator=(size_t)` / `setState(state)` in source order -/
def writeSrc : List (Member × Init) → List Nat → LIdx → LIdx
  | [], _, x => x
  | (.loc, v) :: r, a, x => writeSrc r a { x with loc := v.eval a }
  | (.attr, v) :: r, a, x => writeSrc r a { x with attr := v.eval a }
  | (.pub, v) :: r, a, x => writeSrc r a { x with pub := v.eval a != 0 }
  | (.state, v) :: r, a, x => writeSrc r a { x with valid := v.eval a == 0 }

end Src
end DV.C03
