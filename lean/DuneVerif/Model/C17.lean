/-
C17 — model of Dune::FloatCmp (dune/common/float_cmp.cc) and of the integer helpers / classifiers of
dune/common/math.hh and fvector.hh.   Core Lean only.

* comparisons: the formulas themselves are the *generated* definitions of `Gen/C17.lean` (regenerated from
  float_cmp.cc on every run); this file adds the dispatch on the style, the vector overloads
  (`eq_t_std_vec`, `eq_t_fvec`; `std::vector`'s `<` is the lexicographic order), `round_t` and `trunc_t`
  for the four rounding styles, all generic over the scalar type (see `Model/C17/Base.lean`);
* `power`, `factorial`, `binomial` over `Int` with an explicit machine-width check `chk` on **every**
  intermediate value (result `none` = some intermediate is not representable in the C++ type);
  `binomial` is the code after `fixes/C17_binomial_overflow.patch`; `binomialOld` is the algorithm of the
  unrepaired tree, kept to state the defect; `round` is the code after `fixes/C17_round_unsigned.patch` and
  `fixes/C17_round_range_end.patch` (`roundDownOld`: before the latter), `trunc` after `fixes/C17_trunc_large.patch`;
  `roundM` / `truncM`: the same with the integer target type explicit (what the driver executes);
* round four: `Dispatch` / `ZeroTest` (the shape of the towardZero / towardInf specialisations, whose content is regenerated
  into `Gen/C17RT.lean`), `fillLoop` / `allLoop` (the loop combinators of the regenerated vector overloads,
  `Gen/C17Vec.lean`, `Gen/C17EqVec.lean`);
* `sign`; the classifiers `isNaN / isInf / isFinite / isUnordered` over `FieldVector` and `std::complex`.
-/
import DuneVerif.Gen.C17

namespace DV.C17

inductive Style where
  | relativeWeak | relativeStrong | absolute
  deriving Repr, DecidableEq

inductive RStyle where
  | towardZero | towardInf | downward | upward
  deriving Repr, DecidableEq

/-! ### machine integers -/

/-- a C++ integer type: signedness and width -/
structure IType where
  signed : Bool
  bits : Nat
  deriving Repr, DecidableEq

def IType.lo (t : IType) : Int := if t.signed then -(2 ^ (t.bits - 1) : Int) else 0
def IType.hi (t : IType) : Int := if t.signed then 2 ^ (t.bits - 1) - 1 else 2 ^ t.bits - 1
def IType.fits (t : IType) (x : Int) : Bool := decide (t.lo ≤ x) && decide (x ≤ t.hi)

/-- every intermediate value goes through this check -/
def chk (t : IType) (x : Int) : Option Int := if t.fits x then some x else none

def int32 : IType := ⟨true, 32⟩
def int64 : IType := ⟨true, 64⟩
def uint32 : IType := ⟨false, 32⟩
def uint64 : IType := ⟨false, 64⟩
def int8 : IType := ⟨true, 8⟩
def int16 : IType := ⟨true, 16⟩
def uint8 : IType := ⟨false, 8⟩
def uint16 : IType := ⟨false, 16⟩

/-- a value stored in a variable of type `I`: unsigned arithmetic is arithmetic modulo `2^bits` (`lower--` on an
    unsigned `0` gives the largest value of the type); the types narrower than `int` compute in `int` and the conversion
    back to a signed narrow type is modular as well (`(signed char)128` is -128; defined since C++20, before that the
    choice of every compiler); for `int` and wider signed types the value is kept (overflow is undefined behaviour,
    outside the domain of the model) -/
def IType.wrap (t : IType) (x : Int) : Int :=
  if t.signed then (if t.bits < 32 then (x + 2 ^ (t.bits - 1)) % (2 ^ t.bits : Int) - 2 ^ (t.bits - 1) else x)
  else x % (2 ^ t.bits : Int)

/-- the value of the *expression* `lower + 1` for `lower` of type `I`: types narrower than `int` are promoted to `int`
    (no wrap-around: `(unsigned char)255 + 1` is the `int` 256), the others are computed in `I` -/
def IType.arith (t : IType) (x : Int) : Int := if t.bits < 32 then x else t.wrap x


section cmp
variable {K : Type} [Zero K] [Neg K] [Sub K] [Mul K] [LT K] [LE K] [DecidableLT K] [DecidableLE K]

/-- `Impl::eq_t<T, style>::eq` -/
def eqS : Style → K → K → K → Bool
  | .relativeWeak => Gen.eq_relativeWeak
  | .relativeStrong => Gen.eq_relativeStrong
  | .absolute => Gen.eq_absolute

def neS (s : Style) : K → K → K → Bool := Gen.ne (eqS s)
def gtS (s : Style) : K → K → K → Bool := Gen.gt (eqS s)
def ltS (s : Style) : K → K → K → Bool := Gen.lt (eqS s)
def geS (s : Style) : K → K → K → Bool := Gen.ge (eqS s)
def leS (s : Style) : K → K → K → Bool := Gen.le (eqS s)

/-! ### vector overloads -/

/-- the component loop of `eq_t_std_vec` / `eq_t_fvec`:
    `for i: if(!eq_t<T,cstyle>::eq(first[i], second[i], epsilon)) return false;  return true;` -/
def eqLoop (s : Style) : List K → List K → K → Bool
  | x :: xs, y :: ys, e => if !(eqS s x y e) then false else eqLoop s xs ys e
  | _, _, _ => true

/-- `eq_t<std::vector<T>, style>::eq` : sizes first -/
def eqVec (s : Style) (a b : List K) (e : K) : Bool :=
  if a.length != b.length then false else eqLoop s a b e

/-- `eq_t<FieldVector<T,n>, style>::eq` (both operands have the `n` of the type) -/
def eqFV (s : Style) (a b : List K) (e : K) : Bool := eqLoop s a b e

/-- `operator<` of `std::vector<T>` : lexicographic -/
def lexLt : List K → List K → Bool
  | [], [] => false
  | [], _ :: _ => true
  | _ :: _, [] => false
  | x :: xs, y :: ys => if x < y then true else if y < x then false else lexLt xs ys

def neVec (s : Style) (a b : List K) (e : K) : Bool := !(eqVec s a b e)
def gtVec (s : Style) (a b : List K) (e : K) : Bool := lexLt b a && neVec s a b e
def ltVec (s : Style) (a b : List K) (e : K) : Bool := lexLt a b && neVec s a b e
def geVec (s : Style) (a b : List K) (e : K) : Bool := lexLt b a || eqVec s a b e
def leVec (s : Style) (a b : List K) (e : K) : Bool := lexLt a b || eqVec s a b e
def neFV (s : Style) (a b : List K) (e : K) : Bool := !(eqFV s a b e)

/-! ### round / trunc   (`tr` is the C++ conversion `I(val)`, the cast `((i : Int) : K)` is `T(i)`) -/
variable [IntCast K] [Add K]

/-- `round_t<I, T, cstyle, downward>::round` after fixes/C17_round_unsigned.patch and fixes/C17_round_range_end.patch:
    `I(val)` is the neighbour of `val` on the side of zero; the distances to the two neighbours are computed in `T`
    from `T(I(val))`, and the other neighbour is computed in `I` only when it is the result.  The integers are
    mathematical integers here (`roundDownM`: reduced as the type does). -/
def roundDown (s : Style) (tr : K → Int) (val eps : K) : Int :=
  let lower := tr val
  if eqS s (lower : K) val eps then lower else
  if (lower : K) > val then
    (if leS s (val - ((lower : K) - ((1 : Int) : K))) ((lower : K) - val) eps then lower - 1 else lower)
  else
    (if leS s (val - (lower : K)) (((lower : K) + ((1 : Int) : K)) - val) eps then lower else lower + 1)

/-- `round_t<I, T, cstyle, upward>::round` -/
def roundUp (s : Style) (tr : K → Int) (val eps : K) : Int :=
  let lower := tr val
  if eqS s (lower : K) val eps then lower else
  if (lower : K) > val then
    (if ltS s (val - ((lower : K) - ((1 : Int) : K))) ((lower : K) - val) eps then lower - 1 else lower)
  else
    (if ltS s (val - (lower : K)) (((lower : K) + ((1 : Int) : K)) - val) eps then lower else lower + 1)

def round (s : Style) : RStyle → (K → Int) → K → K → Int
  | .downward, tr, val, eps => roundDown s tr val eps
  | .upward, tr, val, eps => roundUp s tr val eps
  | .towardZero, tr, val, eps => if val > ((0 : Int) : K) then roundDown s tr val eps else roundUp s tr val eps
  | .towardInf, tr, val, eps => if val > ((0 : Int) : K) then roundUp s tr val eps else roundDown s tr val eps

/-- `T(lower) == val` (for the numbers the model is run on — no NaN — neither is less than the other) -/
def sameVal (a b : K) : Bool := !decide (a < b) && !decide (b < a)

/-- `trunc_t<I, T, cstyle, downward>::trunc`; `uns` = `!std::numeric_limits<I>::is_signed`
    (after fixes/C17_trunc_large.patch: an integer `val` is returned unchanged before `lower+1` is looked at; after
    fixes/C17_trunc_range_end.patch: when `I(val)` lies above `val` it is tested against `val` before the decrement) -/
def truncDown (s : Style) (uns : Bool) (tr : K → Int) (val eps : K) : Int :=
  if uns && eqS s val ((0 : Int) : K) eps then 0 else
  let lower := tr val
  if decide ((lower : K) > val) && eqS s (lower : K) val eps then lower else
  let lower := if (lower : K) > val then lower - 1 else lower
  if sameVal (lower : K) val then lower else
  if eqS s ((lower + 1 : Int) : K) val eps then lower + 1 else lower

/-- `trunc_t<I, T, cstyle, upward>::trunc` -/
def truncUp (s : Style) (uns : Bool) (tr : K → Int) (val eps : K) : Int :=
  let upper := truncDown s uns tr val eps
  if neS s (upper : K) val eps then upper + 1 else upper

def trunc (s : Style) (uns : Bool) : RStyle → (K → Int) → K → K → Int
  | .downward, tr, val, eps => truncDown s uns tr val eps
  | .upward, tr, val, eps => truncUp s uns tr val eps
  | .towardZero, tr, val, eps => if val > ((0 : Int) : K) then truncDown s uns tr val eps else truncUp s uns tr val eps
  | .towardInf, tr, val, eps => if val > ((0 : Int) : K) then truncUp s uns tr val eps else truncDown s uns tr val eps

/-! ### round / trunc with the integer target type `I` made explicit

The functions above compute with mathematical integers: they are the code for a target type in which no integer
variable leaves the range.  `roundM` / `truncM` are the same statements with every value that is stored in an `I`
variable (`lower--`, `upper = lower+1`, `++upper`, `return lower+1`) reduced as the type does (`IType.wrap`), and the
expression `T(lower+1)` evaluated after the integral promotions (`IType.arith`).  The difference shows for an unsigned
`I` and an argument in (-1,0): `lower--` turns 0 into the largest value `M` of `I`, and `T(lower)` is then `T(M)`, not -1.
`trunc<upward>` relies on that: `ne(T(M), val)` holds, `++upper` wraps again and the result is 0.
`Props/C17.lean`: `truncM_eq_trunc` / `roundM_eq_round` (no wrap-around ⇒ the functions above), `trunc_unsigned_neg_up`,
`round_unsigned_wrap`.  The driver executes these versions. -/

def roundDownM (t : IType) (s : Style) (tr : K → Int) (val eps : K) : Int :=
  let lower := tr val
  if eqS s (lower : K) val eps then lower else
  if (lower : K) > val then
    (if leS s (val - ((lower : K) - ((1 : Int) : K))) ((lower : K) - val) eps then t.wrap (lower - 1) else lower)
  else
    (if leS s (val - (lower : K)) (((lower : K) + ((1 : Int) : K)) - val) eps then lower else t.wrap (lower + 1))

def roundUpM (t : IType) (s : Style) (tr : K → Int) (val eps : K) : Int :=
  let lower := tr val
  if eqS s (lower : K) val eps then lower else
  if (lower : K) > val then
    (if ltS s (val - ((lower : K) - ((1 : Int) : K))) ((lower : K) - val) eps then t.wrap (lower - 1) else lower)
  else
    (if ltS s (val - (lower : K)) (((lower : K) + ((1 : Int) : K)) - val) eps then lower else t.wrap (lower + 1))

/-- the downward rounding before fixes/C17_round_range_end.patch (kept to state the defect): `upper = lower+1` is stored in
    an `I` variable and converted back to `T` for the distances, so for `val` beyond the largest value of `I` the distances
    are computed from the wrapped-around `upper` -/
def roundDownOldM (t : IType) (s : Style) (tr : K → Int) (val eps : K) : Int :=
  let lower := tr val
  if eqS s (lower : K) val eps then lower else
  let lu : Int × Int := if (lower : K) > val then (t.wrap (lower - 1), lower) else (lower, t.wrap (lower + 1))
  if leS s (val - ((lu.2 : K) - ((1 : Int) : K))) ((lu.2 : K) - val) eps then lu.1 else lu.2

def roundM (t : IType) (s : Style) : RStyle → (K → Int) → K → K → Int
  | .downward, tr, val, eps => roundDownM t s tr val eps
  | .upward, tr, val, eps => roundUpM t s tr val eps
  | .towardZero, tr, val, eps => if val > ((0 : Int) : K) then roundDownM t s tr val eps else roundUpM t s tr val eps
  | .towardInf, tr, val, eps => if val > ((0 : Int) : K) then roundUpM t s tr val eps else roundDownM t s tr val eps

def truncDownM (t : IType) (s : Style) (tr : K → Int) (val eps : K) : Int :=
  if !t.signed && eqS s val ((0 : Int) : K) eps then 0 else
  let lower := tr val
  if decide ((lower : K) > val) && eqS s (lower : K) val eps then lower else
  let lower := if (lower : K) > val then t.wrap (lower - 1) else lower
  if sameVal (lower : K) val then lower else
  if eqS s ((t.arith (lower + 1) : Int) : K) val eps then t.wrap (lower + 1) else lower

/-- the downward truncation before fixes/C17_trunc_range_end.patch (kept to state the defect) -/
def truncDownOldM (t : IType) (s : Style) (tr : K → Int) (val eps : K) : Int :=
  if !t.signed && eqS s val ((0 : Int) : K) eps then 0 else
  let lower := tr val
  let lower := if (lower : K) > val then t.wrap (lower - 1) else lower
  if sameVal (lower : K) val then lower else
  if eqS s ((t.arith (lower + 1) : Int) : K) val eps then t.wrap (lower + 1) else lower

def truncUpM (t : IType) (s : Style) (tr : K → Int) (val eps : K) : Int :=
  let upper := truncDownM t s tr val eps
  if neS s (upper : K) val eps then t.wrap (upper + 1) else upper

def truncM (t : IType) (s : Style) : RStyle → (K → Int) → K → K → Int
  | .downward, tr, val, eps => truncDownM t s tr val eps
  | .upward, tr, val, eps => truncUpM t s tr val eps
  | .towardZero, tr, val, eps => if val > ((0 : Int) : K) then truncDownM t s tr val eps else truncUpM t s tr val eps
  | .towardInf, tr, val, eps => if val > ((0 : Int) : K) then truncUpM t s tr val eps else truncDownM t s tr val eps

/-! ### the shape of the dispatching specialisations and of the vector loops (round four)

`Gen/C17RT.lean` (regenerated from float_cmp.cc on every run) holds, as `Dispatch` values, what the specialisations
`round_t / trunc_t<I,T,cstyle,towardZero|towardInf>` say: the test of `val` against `T(0)` and the two specialisations they
forward to.  `Props/C17.lean` (`round_dispatch_tied`, …) proves that `round`, `trunc`, `roundM`, `truncM` above are
`Dispatch.run` of the regenerated values.  `Gen/C17Vec.lean` holds the component loops of the vector overloads as `fillLoop`s. -/

/-- a test of the argument against `T(0)`: `val > T(0)`, `val >= T(0)`, `val < T(0)`, `val <= T(0)` -/
inductive ZeroTest where
  | gt | ge | lt | le
  deriving Repr, DecidableEq

def ZeroTest.eval (c : ZeroTest) (val : K) : Bool :=
  match c with
  | .gt => decide (val > ((0 : Int) : K))
  | .ge => decide (val ≥ ((0 : Int) : K))
  | .lt => decide (val < ((0 : Int) : K))
  | .le => decide (val ≤ ((0 : Int) : K))

/-- `if(TEST) return X_t<I,T,cstyle,thenStyle>::X(val, epsilon); else return X_t<I,T,cstyle,elseStyle>::X(val, epsilon);` -/
structure Dispatch where
  test : ZeroTest
  thenStyle : RStyle
  elseStyle : RStyle
  deriving Repr, DecidableEq

/-- `base rs` = the specialisation for rounding style `rs` -/
def Dispatch.run (d : Dispatch) (base : RStyle → K → K → Int) (val eps : K) : Int :=
  if d.test.eval val then base d.thenStyle val eps else base d.elseStyle val eps

end cmp

/-- `for(i = lo; i < hi; ++i) if(!f(i)) return false;  return true;`  (`n` iterations left, the next index is `i`) -/
def allLoopAux (f : Nat → Bool) : Nat → Nat → Bool
  | _, 0 => true
  | i, n + 1 => if !(f i) then false else allLoopAux f (i + 1) n
def allLoop (lo hi : Nat) (f : Nat → Bool) : Bool := allLoopAux f lo (hi - lo)

/-- `std::vector<I> res(size); for(i = lo; i < hi; ++i) res[i] = f(i); return res;` — the entries outside `[lo, hi)` keep
    the value `res` was created with (0 for `std::vector<I>(size)`) -/
def fillLoop (size lo hi : Nat) (f : Nat → Int) : List Int :=
  (List.range size).map fun i => if lo ≤ i ∧ i < hi then f i else 0

/-! ### the instances the driver runs on exact inputs: the rational numbers of core Lean

`Props/C17.lean` shows that these are the same functions as the generic ones at Mathlib's ordered field `ℚ`
(`Rat` *is* `ℚ`), so the theorems proved for an arbitrary ordered field speak about exactly what the driver
evaluates and the harness compares with the C++ results. -/

/-- the C++ conversion `I(val)` on a rational: truncation toward zero -/
def trRat (x : Rat) : Int := Int.tdiv x.num x.den

def eqRat (s : Style) (a b e : Rat) : Bool := eqS s a b e
def neRat (s : Style) (a b e : Rat) : Bool := neS s a b e
def ltRat (s : Style) (a b e : Rat) : Bool := ltS s a b e
def gtRat (s : Style) (a b e : Rat) : Bool := gtS s a b e
def leRat (s : Style) (a b e : Rat) : Bool := leS s a b e
def geRat (s : Style) (a b e : Rat) : Bool := geS s a b e
def eqVecRat (s : Style) (a b : List Rat) (e : Rat) : Bool := eqVec s a b e
def neVecRat (s : Style) (a b : List Rat) (e : Rat) : Bool := neVec s a b e
def ltVecRat (s : Style) (a b : List Rat) (e : Rat) : Bool := ltVec s a b e
def gtVecRat (s : Style) (a b : List Rat) (e : Rat) : Bool := gtVec s a b e
def leVecRat (s : Style) (a b : List Rat) (e : Rat) : Bool := leVec s a b e
def geVecRat (s : Style) (a b : List Rat) (e : Rat) : Bool := geVec s a b e
def eqFVRat (s : Style) (a b : List Rat) (e : Rat) : Bool := eqFV s a b e
def neFVRat (s : Style) (a b : List Rat) (e : Rat) : Bool := neFV s a b e
def roundRat (s : Style) (rs : RStyle) (val eps : Rat) : Int := round s rs trRat val eps
def truncRat (s : Style) (uns : Bool) (rs : RStyle) (val eps : Rat) : Int := trunc s uns rs trRat val eps
/-- what the driver executes for the ops `round` / `trunc`: the integer type explicit -/
def roundRatM (t : IType) (s : Style) (rs : RStyle) (val eps : Rat) : Int := roundM t s rs trRat val eps
def truncRatM (t : IType) (s : Style) (rs : RStyle) (val eps : Rat) : Int := truncM t s rs trRat val eps

/-! ### `sign` and `power` over a scalar type -/

/-- `sign(val)` : `(val < 0 ? -1 : 1)` -/
def signK {K : Type} [Zero K] [LT K] [DecidableLT K] (val : K) : Int := if val < 0 then -1 else 1

/-- the multiplication loop of `power` -/
def powLoopK {K : Type} [Mul K] (m : K) : Nat → K → K
  | 0, r => r
  | n + 1, r => powLoopK m n (r * m)

/-- `power(Base m, Exponent p)` for a field-like `Base` (no overflow model; `Exponent` wide enough for `-p`) -/
def powerK {K : Type} [One K] [Mul K] [Div K] (m : K) (p : Int) : K :=
  let absp := if p < 0 then -p else p
  let result := powLoopK m absp.toNat 1
  if p < 0 then 1 / result else result

/-! ### integer helpers over machine integers (`IType`, `chk`: see above) -/

/-- `for (i = 0; i < absp; i++) result *= m;` -/
def powerLoop (t : IType) (m : Int) : Nat → Int → Option Int
  | 0, r => some r
  | n + 1, r => (chk t (r * m)).bind (powerLoop t m n)

/-- `power(Base m, Exponent p)` for integer `Base` of type `t`, `Exponent` of type `te` -/
def powerI (t te : IType) (m p : Int) : Option Int :=
  (if p < 0 then chk te (-p) else some p).bind fun absp =>
  (powerLoop t m absp.toNat 1).bind fun result =>
  if p < 0 then (if result = 0 then none else chk t (Int.tdiv 1 result)) else some result

/-- `for (T k = 0; k < n; ++k) fac *= k+1;`  (iterations, k, fac) -/
def factLoop (t : IType) : Nat → Int → Int → Option Int
  | 0, _, fac => some fac
  | it + 1, k, fac =>
    (chk t (k + 1)).bind fun k1 =>
    (chk t (fac * k1)).bind fun f =>
    factLoop t it k1 f

/-- `factorial(n)` -/
def factorial (t : IType) (n : Int) : Option Int := factLoop t n.toNat 0 1

/-- loop of the repaired `binomial`:
    `for (T i = 1; i <= k; ++i) { const T m = n-k+i; const T g = std::gcd(m, i); bin = (bin / (i/g)) * (m/g); }`
    (the `++i` is checked too); arguments: remaining iterations, `nk = n-k`, `i`, `bin` -/
def binomLoop (t : IType) (nk : Int) : Nat → Int → Int → Option Int
  | 0, _, bin => some bin
  | it + 1, i, bin =>
    (chk t (nk + i)).bind fun m =>
    let g : Int := (Int.gcd m i : Int)
    (chk t ((bin / (i / g)) * (m / g))).bind fun b =>
    (chk t (i + 1)).bind fun i1 =>
    binomLoop t nk it i1 b

/-- the part of `binomial` after the symmetry test (`2k ≤ n`) -/
def binomCore (t : IType) (n k : Int) : Option Int :=
  (chk t (n - k)).bind fun nk => binomLoop t nk k.toNat 1 1

/-- `binomial(n, k)` after fixes/C17_binomial_overflow.patch:
    `if (k < 0 || k > n) return 0;  if (k > n-k) return binomial(n, n-k);  …loop…` -/
def binomial (t : IType) (n k : Int) : Option Int :=
  if k < 0 ∨ k > n then some 0 else
  (chk t (n - k)).bind fun nk =>
  if k > nk then binomCore t n nk else binomCore t n k

/-- the algorithm of the unrepaired tree:
    `if (2*k > n) return binomial(n, n-k);  T bin = 1; for (i = n-k; i < n; ++i) bin *= i+1;  return bin / factorial(k);` -/
def binomOldLoop (t : IType) : Nat → Int → Int → Option Int
  | 0, _, bin => some bin
  | it + 1, i, bin =>
    (chk t (i + 1)).bind fun i1 =>
    (chk t (bin * i1)).bind fun b =>
    binomOldLoop t it i1 b

def binomOldCore (t : IType) (n k : Int) : Option Int :=
  (chk t (n - k)).bind fun nk =>
  (binomOldLoop t k.toNat nk 1).bind fun bin =>
  (factorial t k).bind fun f => some (Int.tdiv bin f)

def binomialOld (t : IType) (n k : Int) : Option Int :=
  if k < 0 ∨ k > n then some 0 else
  (chk t (2 * k)).bind fun k2 =>
  if k2 > n then (chk t (n - k)).bind fun nk => binomOldCore t n nk else binomOldCore t n k

/-! ### classifiers -/

inductive FpClass where
  | finite | inf | nan
  deriving Repr, DecidableEq

/-- class of an IEEE bit pattern with `eb` exponent bits and `mb` mantissa bits -/
def classify (eb mb : Nat) (bits : Nat) : FpClass :=
  let e := bits / 2 ^ mb % 2 ^ eb
  let m := bits % 2 ^ mb
  if e = 2 ^ eb - 1 then (if m = 0 then .inf else .nan) else .finite

def isNaN1 (c : FpClass) : Bool := c == .nan
def isInf1 (c : FpClass) : Bool := c == .inf
def isFinite1 (c : FpClass) : Bool := c == .finite

/-- `std::complex<K>` : `isNaN(real) || isNaN(imag)` etc. -/
def isNaNC (z : FpClass × FpClass) : Bool := isNaN1 z.1 || isNaN1 z.2
def isInfC (z : FpClass × FpClass) : Bool := isInf1 z.1 || isInf1 z.2
def isFiniteC (z : FpClass × FpClass) : Bool := isFinite1 z.1 && isFinite1 z.2

/-- `FieldVector<K,n>` : `bool out = false; for i: out |= isNaN(b[i]);` -/
def isNaNV {α} (f : α → Bool) (v : List α) : Bool := v.foldl (fun out x => out || f x) false
def isInfV {α} (f : α → Bool) (v : List α) : Bool := v.foldl (fun out x => out || f x) false
/-- `bool out = true; for i: out &= isFinite(b[i]);` -/
def isFiniteV {α} (f : α → Bool) (v : List α) : Bool := v.foldl (fun out x => out && f x) true

/-- `isUnordered(FieldVector<K,1>, FieldVector<K,1>)` = `std::isunordered(b[0], c[0])` -/
def isUnordered1 (a b : FpClass) : Bool := isNaN1 a || isNaN1 b

end DV.C17
