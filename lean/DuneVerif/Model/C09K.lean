import DuneVerif.Model.C09X
/-!
# C09 (round 4) — the matrix-vector kernels of densematrix.hh EXECUTED FROM THE SHAPES THE TRANSLATOR READS (`Gen.kernel_*`)

`mv mtv umv umtv umhv mmv mmtv mmhv usmv usmtv usmhv`: each is a loop nest over rows × cols with one update statement
`y[D] ±= [alpha *] [conjugateComplex](A[P][Q]) * x[E]`.  The translator classifies the nest (`KForm`) and reads the options
(initialisation, sign, scaling, conjugation); `kernelRunN` / `kernelRunT` do what the shape says.  `conjugateComplex` is a
parameter `cj` (the identity for every non-complex number type, math.hh).
-/
namespace DV.C09
open Gen

section Kern
variable {V : Type → Type} {L : Nat} (X : SimdLike V L) {K : Type} (R : Arith K) {r c : Nat} (cj : K → K) (s : KShape)

/-- `[alpha *] [conjugateComplex](a) * xe`, evaluated from the left -/
def kTerm (alpha : V K) : V K → V K → V K := fun a xe =>
  vmul X R (if s.scaled then vmul X R alpha (if s.conj then X.map cj a else a) else (if s.conj then X.map cj a else a)) xe

/-- `+=` or `-=` -/
def kUpd : V K → V K → V K := fun acc t => if s.sub then vsub X R acc t else vadd X R acc t

/-- `y[i] = y_field_type(0)` in front of the inner loop, if the kernel has it -/
def kPre : Option (V K) := if s.init then some (X.bcast R.zero) else none

/-- `for i < cols { [y[i] = pre;] for j < rows: y[i] = upd y[i] (term A[j][i] x[j]) }` (the nest of `mtv`) -/
def kernelM (pre : Option (V K)) (upd term : V K → V K → V K) (A : RMat (V K) r c) (x : Vector (V K) r)
    (y : Vector (V K) c) : Vector (V K) c :=
  (List.finRange c).foldl (fun (y : Vector (V K) c) (i : Fin c) =>
    let y := match pre with | some z => y.set i z | none => y
    (List.finRange r).foldl (fun (y : Vector (V K) c) (j : Fin r) => y.set i (upd y[i] (term (A.get j i) x[j]))) y) y

/-- a kernel whose result has `rows` entries (form `n`) -/
def kernelRunN (alpha : V K) (A : RMat (V K) r c) (x : Vector (V K) c) (y : Vector (V K) r) : Vector (V K) r :=
  kernelN (kPre X R s) (kUpd X R s) (kTerm X R cj s alpha) A x y

/-- a kernel whose result has `cols` entries (forms `t` and `mtv`) -/
def kernelRunT (alpha : V K) (A : RMat (V K) r c) (x : Vector (V K) r) (y : Vector (V K) c) : Vector (V K) c :=
  match s.form with
  | .mtv => kernelM (kPre X R s) (kUpd X R s) (kTerm X R cj s alpha) A x y
  | _ => kernelT (kUpd X R s) (kTerm X R cj s alpha) A x y

end Kern
-- the vector-space operations of DenseMatrix (hand-written model) -----------------------------------------------------------------

section MatSpace
variable {V : Type → Type} {L : Nat} (X : SimdLike V L) {K : Type} (R : Arith K) {r c : Nat}

def RMat.map2 {α β γ : Type} (f : α → β → γ) (A : RMat α r c) (B : RMat β r c) : RMat γ r c :=
  Vector.zipWith (fun ra rb => Vector.zipWith f ra rb) A B
def RMat.map1 {α β : Type} (f : α → β) (A : RMat α r c) : RMat β r c := Vector.map (fun ra => Vector.map f ra) A

/-- `A += B`: row by row `(*this)[i] += x[i]`, entry by entry -/
def matAdd (A B : RMat (V K) r c) : RMat (V K) r c := RMat.map2 (vadd X R) A B
/-- `A -= B` -/
def matSub (A B : RMat (V K) r c) : RMat (V K) r c := RMat.map2 (vsub X R) A B
/-- `A *= k` (a per-lane factor) -/
def matScale (k : V K) (A : RMat (V K) r c) : RMat (V K) r c := RMat.map1 (fun a => vmul X R a k) A
/-- `A /= k` -/
def matDiv (k : V K) (A : RMat (V K) r c) : RMat (V K) r c := RMat.map1 (fun a => vdiv X R a k) A
/-- `-A` -/
def matNeg (A : RMat (V K) r c) : RMat (V K) r c := RMat.map1 (vneg X R) A
/-- `A.axpy(a, B)`: `A[i][j] += a * B[i][j]` -/
def matAxpy (a : V K) (A B : RMat (V K) r c) : RMat (V K) r c := RMat.map2 (fun y x => vadd X R y (vmul X R a x)) A B

end MatSpace
end DV.C09
