import DuneVerif.Model.C04
import DuneVerif.Gen.C04
/-!
C04 — the *faithful* layer of the RemoteIndices model (namespace `DV.C04.F`); this is what the driver runs.

`Model/C04.lean` describes `buildRemote` per rank at the level "rank p processes the messages of the ranks qs".
This file adds what that level takes for granted, transcribing remoteindices.hh more closely, and uses the
decisions / rank arithmetic regenerated from the source (`Gen/C04.lean`, `DV.C04.Gen.*`) instead of hand-written copies:

* `unpackGo` / `unpackIndices`: the single-list merge-join with an explicit buffer *cursor*: every `MPI_Unpack`
  takes one entry off the buffer, the trailing `while(++n_in < remoteEntries) MPI_Unpack` is a separate step; the
  position after the call is a result, not a definition (`unpack_consumes_all` is a theorem about it).
* `unpackBoth`: the two-list merge-join reading from the buffer with a count.
* `Local` / `mkLocal` / `mkMsg`: `sourcePublish`, `destPublish`, the pair arrays (`destPairs` aliasing `sourcePairs`
  for one index set) and the packed message; `unpackCreateRemote` gets arrays *and* entry counts as the C++ does
  (`sendTwo ? destPublish : sourcePublish`).
* the ring as a state machine over all ranks: two buffers per rank, in round `proc` every rank sends
  `buffer[1-(proc%2)]` to `(rank+1)%procs`, receives into `buffer[proc%2]` from `(rank+procs-1)%procs` and labels the
  content with `(rank+procs-proc)%procs` (`ringRound`, `ringLoop`).  That the label is the origin of the content is a
  theorem (`ring_delivers`), not part of the model.
* neighbour mode at network level: rank q sends its message to the ranks in its `neighbourIds`; rank p receives
  `neighbourIds.size()` messages from whoever sent one (`senders`), in arrival order.  The collective call returns
  on every rank only if the network is balanced (`netOK`), otherwise `buildAll` is `none` (deadlock / MPI error).
* `World`: all ranks with their index set objects (contents + `seqNo`), which objects are source and target,
  `includeSelf`, hints and the `RemoteIndices` bookkeeping; events `resize`, collective `rebuild`, `free`,
  `setIndexSets`, `setIncludeSelf`, `setNeighbours` (`World.step`).  A collective `rebuild` in which the ranks do not
  agree whether to rebuild does not return (`none`).

Core Lean only.
-/
namespace DV.C04.F
open DV.C04

instance : Inhabited Msg := ⟨⟨false, 0, 0, []⟩⟩

/-- `packEntries`: the pairs that are packed (and stored in `sourcePairs` / `destPairs`) -/
def published (ign : Bool) (s : List Pair) : List Pair := s.filter (fun p => Gen.publishes ign p.pub)

/-! ### single-list `unpackIndices` with a buffer cursor -/

/-- inner `while(localIndex<localEntries && local[localIndex]->global()==index.global())` -/
def takeSame (fromSelf : Bool) (r : Wire) : List Pair → List RIdx × List Pair
  | [] => ([], [])
  | p :: ps =>
    if p.g = r.g then
      let rest := takeSame fromSelf r ps
      (if Gen.keepPair fromSelf (r.a : Int) (p.a : Int) then ⟨r.a, p⟩ :: rest.1 else rest.1, rest.2)
    else ([], p :: ps)

/-- the outer `while(localIndex<localEntries)` loop.  `k`: remote entries not yet unpacked (`remoteEntries-1-n_in`),
    `r`: the entry in `index`, `rest`: the buffer behind `*position`, last argument: `local[localIndex..]`.
    Result: the remote indices created, the number of entries still not unpacked when the loop is left, the
    buffer behind the position. -/
def unpackGo (fromSelf : Bool) : Nat → Wire → List Wire → List Pair → List RIdx × Nat × List Wire
  | 0, r, rest, loc =>
    match loc.dropWhile (fun p => p.g < r.g) with
    | [] => ([], 0, rest)
    | p :: ps => if p.g = r.g then ((takeSame fromSelf r (p :: ps)).1, 0, rest) else ([], 0, rest)
  | k + 1, r, rest, loc =>
    match loc.dropWhile (fun p => p.g < r.g) with
    | [] => ([], k + 1, rest)
    | p :: ps =>
      match rest with
      | [] => if p.g = r.g then ((takeSame fromSelf r (p :: ps)).1, 0, []) else ([], 0, [])   -- ill-formed message
      | r' :: rest' =>
        if p.g = r.g then
          let t := takeSame fromSelf r (p :: ps)
          let res := unpackGo fromSelf k r' rest' (if Gen.rewindTest r'.g r.g then p :: ps else t.2)
          (t.1 ++ res.1, res.2)
        else unpackGo fromSelf k r' rest' (p :: ps)

/-- `unpackIndices(remote, remoteEntries, local, localEntries, p_in, …, position, …, fromOurSelf)`: the list and the
    buffer behind the position after the trailing `while(++n_in < remoteEntries) MPI_Unpack(...)` -/
def unpackIndices (fromSelf : Bool) (buf : List Wire) (n : Nat) (loc : List Pair) : List RIdx × List Wire :=
  if n = 0 then ([], buf) else
  match buf with
  | [] => ([], [])
  | r :: rest =>
    let res := unpackGo fromSelf (n - 1) r rest loc
    (res.1, res.2.2.drop res.2.1)

/-! ### two-list `unpackIndices` reading from the buffer -/

/-- `while(n_in<remoteEntries && (sourceIndex<localSourceEntries || destIndex<localDestEntries))` -/
def unpackBoth : Nat → List Wire → List Pair → List Pair → List RIdx × List RIdx
  | k + 1, r :: rest, ls, ld =>
    if ls.isEmpty && ld.isEmpty then ([], [])
    else
      let ls1 := ls.dropWhile (fun p => p.g < r.g)
      let ld1 := ld.dropWhile (fun p => p.g < r.g)
      let res := unpackBoth k rest ls1 ld1
      (headMatch r ls1 ++ res.1, headMatch r ld1 ++ res.2)
  | _, _, _, _ => ([], [])

/-! ### what `buildRemote` sets up locally, the message, `unpackCreateRemote` -/

structure Local where
  /-- `sendTwo = (source_ != target_)` -/
  sendTwo : Bool := false
  sourcePublish : Nat := 0
  destPublish : Nat := 0
  /-- `sourcePairs` -/
  srcArr : List Pair := []
  /-- `destPairs` (the same array as `sourcePairs` for one index set) -/
  dstArr : List Pair := []
  deriving Inhabited

def mkLocal (ign : Bool) (d : RankData) : Local :=
  let sendTwo := Gen.sendTwo (!d.two)
  let s := published ign d.src
  let t := published ign d.tgt
  { sendTwo := sendTwo, sourcePublish := s.length,
    destPublish := if sendTwo then t.length else Gen.destPublishSent.toNat,
    srcArr := s, dstArr := if sendTwo then t else s }

/-- the packed buffer: `sendTwo`, `sourcePublish`, `destPublish`, the source entries, and for two sets the target entries -/
def mkMsg (l : Local) : Msg :=
  { two := l.sendTwo, nS := l.sourcePublish, nT := l.destPublish,
    ents := wire l.srcArr ++ (if l.sendTwo then wire l.dstArr else []) }

/-- `unpackCreateRemote(p_in, sourcePairs, destPairs, remoteProc, sourcePublish, destPublish, bufferSize, sendTwo,
    fromOurSelf)`: `none` = nothing inserted -/
def unpackCreateRemote (m : Msg) (l : Local) (fromSelf : Bool) : Option Lists :=
  let src := l.srcArr.take l.sourcePublish
  let sr : Lists :=
    if Gen.oneSetReceived m.two then
      if l.sendTwo then unpackBoth m.nS m.ents src (l.dstArr.take l.destPublish)
      else
        let r := (unpackIndices fromSelf m.ents m.nS src).1
        (r, r)
    else
      let rcv := unpackIndices fromSelf m.ents m.nS
        (l.dstArr.take (Gen.destEntries l.sendTwo l.destPublish l.sourcePublish).toNat)
      let snd := unpackIndices fromSelf rcv.2 m.nT src
      (snd.1, rcv.1)
  if Gen.dropEntry sr.2.isEmpty sr.1.isEmpty then none else some sr

/-! ### the ring -/

/-- `buffer[0]`, `buffer[1]` of one rank -/
structure Bufs where
  b0 : Msg
  b1 : Msg
  deriving Inhabited

def Bufs.get (b : Bufs) (i : Int) : Msg := if i == 0 then b.b0 else b.b1
def Bufs.set (b : Bufs) (i : Int) (m : Msg) : Bufs := if i == 0 then { b with b0 := m } else { b with b1 := m }

/-- ring round `proc` on all ranks: rank p receives into `buffer[proc%2]` what its predecessor sends from its
    `buffer[1-(proc%2)]` (the two differ — `ring_buffers_distinct` — so the predecessor's buffer is read as it was
    before the round) -/
def ringRound (P : Nat) (proc : Int) (st : List Bufs) : List Bufs :=
  (List.range P).map fun p =>
    (st.getD p default).set (Gen.ringInBuf proc)
      ((st.getD (Gen.ringRecvFrom p P).toNat default).get (Gen.ringOutBuf proc))

/-- the buffers of all ranks after `k` ring rounds, starting with the own message in `buffer[0]` -/
def ringState (P : Nat) (msgs : List Msg) : Nat → List Bufs
  | 0 => msgs.map fun m => (⟨m, default⟩ : Bufs)
  | k + 1 => ringRound P ((k + 1 : Nat) : Int) (ringState P msgs k)

/-- `for(int proc=1; proc<procs; proc++)` on all ranks at once: buffers and maps of all ranks -/
def ringLoop (P : Nat) (locals : List Local) : Nat → Int → List Bufs → List RMap → List RMap
  | 0, _, _, maps => maps
  | fuel + 1, proc, st, maps =>
    if Gen.ringCont proc P then
      let st' := ringRound P proc st
      let maps' := (List.range P).map fun p =>
        (maps.getD p []).add (Gen.ringOrigin p P proc).toNat
          (unpackCreateRemote ((st'.getD p default).get (Gen.ringInBuf proc)) (locals.getD p default) false)
      ringLoop P locals fuel (proc + 1) st' maps'
    else maps

/-! ### neighbour mode -/

/-- the ranks that send a message to `p`: those whose `neighbourIds` contain `p` -/
def senders (sys : System) (p : Nat) : List Nat :=
  (List.range sys.P).filter fun q => (nbIds (sys.rank q) q).contains p

/-- `for(received=0; received<noNeighbours; ++received) { MPI_Probe(MPI_ANY_SOURCE,…); MPI_Recv; unpackCreateRemote }` -/
def nbLoop (l : Local) (msgs : List Msg) (m0 : RMap) (arrivals : List Nat) (noNeighbours : Nat) : RMap :=
  (arrivals.take noNeighbours).foldl (fun m q => m.add q (unpackCreateRemote (msgs.getD q default) l false)) m0

/-! ### the collective `buildRemote` -/

def isRing (sys : System) (p : Nat) : Bool := Gen.ringMode ((nbIds (sys.rank p) p).length : Int)

/-- every rank returns from the collective call: all ranks use the ring, or all use hinted neighbours inside the
    communicator, every rank receives exactly the messages sent to it (`arrivals p` lists them in arrival order) and
    waits for exactly that many -/
def netOK (sys : System) (arrivals : Nat → List Nat) : Bool :=
  (List.range sys.P).all (fun p => isRing sys p) ||
  (List.range sys.P).all fun p =>
    !isRing sys p && (nbIds (sys.rank p) p).all (fun q => decide (q < sys.P)) &&
    (arrivals p).isPerm (senders sys p) && (senders sys p).length == (nbIds (sys.rank p) p).length

/-- consistent hints: whoever `p` names is a rank of the communicator and names `p` -/
def SymHints (sys : System) : Prop :=
  ∀ p, p < sys.P → ∀ q, q ∈ nbIds (sys.rank p) p → q < sys.P ∧ p ∈ nbIds (sys.rank q) q

/-- no rank has neighbour hints (naming only oneself counts as none) -/
def AllRing (sys : System) : Prop := ∀ p, p < sys.P → nbIds (sys.rank p) p = []

/-- every rank has neighbour hints -/
def AllNb (sys : System) : Prop := ∀ p, p < sys.P → nbIds (sys.rank p) p ≠ []

/-- the map of rank `p` after its own message -/
def selfMap (l : Local) (incl : Bool) (p : Nat) : RMap :=
  if Gen.handleSelf l.sendTwo incl then RMap.add [] p (unpackCreateRemote (mkMsg l) l incl) else []

/-- `buildRemote<ignorePublic>(includeSelf)` on all ranks: the maps of all ranks, `none` if the call does not return
    everywhere -/
def buildAll (ign : Bool) (sys : System) (arrivals : Nat → List Nat) : Option (List RMap) :=
  let ranks := List.range sys.P
  let locals := ranks.map fun p => mkLocal ign (sys.rank p)
  let early := ranks.map fun p => Gen.nothingToDo sys.P (locals.getD p default).sendTwo (sys.rank p).incl
  if early.all id then some (ranks.map fun _ => [])
  else if early.any id then none
  else if !netOK sys arrivals then none
  else
    let msgs := locals.map mkMsg
    let self := ranks.map fun p => selfMap (locals.getD p default) (sys.rank p).incl p
    if isRing sys 0 then
      let st0 := msgs.map fun m => (⟨m, default⟩ : Bufs)
      some (ringLoop sys.P locals sys.P Gen.ringFirst st0 self)
    else
      some (ranks.map fun p =>
        nbLoop (locals.getD p default) msgs (self.getD p []) (arrivals p) (nbIds (sys.rank p) p).length)

/-! ### the world: index set objects, `RemoteIndices` objects, events -/

/-- one `ParallelIndexSet` object: contents (ascending) and `seqNo()` -/
structure IdxObj where
  pairs : List Pair := []
  seq : Nat := 0
  deriving Inhabited, Repr

/-- one rank: three index set objects, which of them `source_` / `target_` point to, the `RemoteIndices` object -/
structure RankW where
  o0 : IdxObj := {}
  o1 : IdxObj := {}
  o2 : IdxObj := {}
  srcObj : Nat := 0
  tgtObj : Nat := 0
  incl : Bool := false
  hints : List Nat := []
  ri : RIState := {}
  deriving Inhabited

def RankW.obj (r : RankW) (i : Nat) : IdxObj := if i = 0 then r.o0 else if i = 1 then r.o1 else r.o2
def RankW.setObj (r : RankW) (i : Nat) (o : IdxObj) : RankW :=
  if i = 0 then { r with o0 := o } else if i = 1 then { r with o1 := o } else { r with o2 := o }

/-- object ids 2, 3, … all denote the third object -/
def objId (i : Nat) : Nat := if i = 0 then 0 else if i = 1 then 1 else 2
def sameObj (i j : Nat) : Bool := objId i == objId j

/-- object `o` is the rank's source or target index set -/
def RankW.refers (r : RankW) (o : Nat) : Bool := sameObj r.srcObj o || sameObj r.tgtObj o

/-- what the rank hands to `buildRemote` -/
def RankW.data (r : RankW) : RankData :=
  { src := (r.obj r.srcObj).pairs, tgt := (r.obj r.tgtObj).pairs, two := r.srcObj != r.tgtObj,
    incl := r.incl, hints := r.hints }

abbrev World := List RankW

def World.sys (w : World) : System := { P := w.length, rank := fun p => (w.getD p default).data }

/-- `isSynced()` -/
def RankW.isSynced (r : RankW) : Bool :=
  Gen.isSynced r.ri.sourceSeqNo (r.obj r.srcObj).seq r.ri.destSeqNo (r.obj r.tgtObj).seq

/-- the test in `rebuild<ignorePublic>()` -/
def RankW.needs (r : RankW) (ign : Bool) : Bool :=
  Gen.needRebuild r.ri.firstBuild ign r.ri.publicIgnored r.isSynced

/-- the bookkeeping of `rebuild` after `buildRemote` (`Gen.rebuildAssigns`) -/
def RankW.built (r : RankW) (ign : Bool) (m : RMap) : RankW :=
  { r with ri := { sourceSeqNo := (r.obj r.srcObj).seq, destSeqNo := (r.obj r.tgtObj).seq,
                   publicIgnored := ign, firstBuild := false, remote := m } }

/-- `free()` -/
def RankW.free (r : RankW) : RankW := { r with ri := { r.ri with remote := [], firstBuild := true } }

inductive Ev where
  /-- `beginResize … endResize` on object `o` of rank `p`, new contents `pairs` -/
  | resize (p o : Nat) (pairs : List Pair)
  /-- collective `rebuild<ign>()`; `arrivals p`: the order in which the neighbours' messages reach rank `p` -/
  | rebuild (ign : Bool) (arrivals : Nat → List Nat)
  /-- `free()` on rank `p` -/
  | free (p : Nat)
  /-- `setIndexSets(obj s, obj t, comm, hints)` on rank `p` -/
  | setSets (p s t : Nat) (hints : List Nat)
  /-- `setIncludeSelf(b)` on rank `p` -/
  | setIncl (p : Nat) (b : Bool)
  /-- `setNeighbours(hints)` on rank `p` -/
  | setNb (p : Nat) (hints : List Nat)

/-- events that keep `includeSelf` and (unless the object is re-initialised) the hints: everything except
    `setIncludeSelf` and `setNeighbours`, which change the outcome of the next real build without making `rebuild`
    rebuild -/
def Ev.core : Ev → Bool
  | .setIncl _ _ => false
  | .setNb _ _ => false
  | _ => true

def World.modify (w : World) (p : Nat) (f : RankW → RankW) : World :=
  w.mapIdx fun i r => if i = p then f r else r

/-- collective `rebuild<ign>()`: all ranks skip, or all ranks rebuild; anything else does not return -/
def World.rebuild (w : World) (ign : Bool) (arrivals : Nat → List Nat) : Option World :=
  if w.all (fun r => !r.needs ign) then some w
  else if w.all (fun r => r.needs ign) then
    match buildAll ign w.sys arrivals with
    | none => none
    | some maps => some (w.mapIdx fun p r => r.built ign (maps.getD p []))
  else none

def World.step (w : World) : Ev → Option World
  | .resize p o pairs => some (w.modify p fun r => r.setObj o { pairs := pairs, seq := (r.obj o).seq + 1 })
  | .rebuild ign arrivals => w.rebuild ign arrivals
  | .free p => some (w.modify p RankW.free)
  | .setSets p s t hints => some (w.modify p fun r => { r.free with srcObj := s, tgtObj := t, hints := hints })
  | .setIncl p b => some (w.modify p fun r => { r with incl := b })
  | .setNb p hints => some (w.modify p fun r => { r with hints := hints })

/-- a sequence of resizes `(rank, object, new contents)` -/
def World.resizes (w : World) (rs : List (Nat × Nat × List Pair)) : World :=
  rs.foldl (fun w e => w.modify e.1 fun r => r.setObj e.2.1 { pairs := e.2.2, seq := (r.obj e.2.1).seq + 1 }) w

def World.run (w : World) : List Ev → Option World
  | [] => some w
  | e :: es => (w.step e).bind fun w' => World.run w' es

/-- the arrival order the driver uses: senders in ascending rank order -/
def stdArrivals (sys : System) : Nat → List Nat := fun p => senders sys p

/-! ### the configuration in force -/

/-- the configuration of one `RemoteIndices` object: which index set objects it refers to, `includeSelf`, the hints -/
structure Config where
  srcObj : Nat
  tgtObj : Nat
  incl : Bool
  hints : List Nat
  deriving DecidableEq, Repr

def RankW.config (r : RankW) : Config := ⟨r.srcObj, r.tgtObj, r.incl, r.hints⟩

/-- effect of one event on the configuration of rank `p`: only the configuration calls addressed to `p` change it, and
    each *replaces* what it sets by its arguments — `setIndexSets` both index sets and the hints (an empty hint list,
    i.e. the omitted argument, included), `setNeighbours` the hints, `setIncludeSelf` the flag -/
def Config.step (p : Nat) (c : Config) : Ev → Config
  | .setSets q s t h => if q = p then { c with srcObj := s, tgtObj := t, hints := h } else c
  | .setNb q h => if q = p then { c with hints := h } else c
  | .setIncl q b => if q = p then { c with incl := b } else c
  | _ => c

/-- the configuration of rank `p` after a history: that of the last calls addressed to it (else the constructor's) -/
def Config.after (p : Nat) (c : Config) (evs : List Ev) : Config := evs.foldl (Config.step p) c

end DV.C04.F
