import DuneVerif.Model.C06
/-!
C06 — rank-level model of `communicateFixedSize` (variablesizecommunicator.hh), core Lean only.

Every rank: `setupInterfaceTrackers`; `sendFixedSize` (one `MPI_Irecv` of the scalar size per neighbour into
`recv_tracker.fixedSize`, one `MPI_Issend` of its own scalar per neighbour, tag 933881); `setupRequests` for the data
sends; the counters `no_size_to_recv = #neighbours`, `no_to_send = #non-empty send lists`, `no_to_recv = #non-empty
receive lists`; then one loop

    while(no_size_to_recv+no_to_send+no_to_recv) {
      if(no_size_to_recv) no_size_to_recv -= receiveSizeAndSetupReceive(…);   // completed scalar receives: post the data receive
      if(no_to_send)      no_to_send      -= checkSendAndContinueSending(…);
      if(validRecvRequests(data_recv_req)) no_to_recv -= checkReceiveAndContinueReceiving(…);
    }
    MPI_Waitall(size_send_req);

A *link* is one directed neighbour relation src → dst.  Its state: the scalar handshake (`pending`: send and receive
started; `matched`: MPI has delivered the scalar into the receive tracker's `fixedSize`, both requests are complete;
`seen`: `dst` has run the body of `receiveSizeAndSetupReceive` for it), the value of the receive tracker's `fixedSize`,
and the data machine `Pair` of Model/C06 whose sender side starts at once and whose receiver side starts at `seen`.
-/
namespace DV.C06
variable {α : Type}

structure FLinkSpec (α : Type) where
  src : Nat
  dst : Nat
  /-- the data handle of rank `src` -/
  h : Handle α
  /-- `fixedSize` of `src`'s send tracker for `dst`: what `sendFixedSize` transmits -/
  f : Nat
  /-- the value `dst`'s receive tracker was created with (its own handle's size); overwritten by the message -/
  own : Nat
  sendIdx : List Nat
  recvIdx : List Nat

def FLinkSpec.pair (l : FLinkSpec α) : PairSpec α := ⟨l.h, l.f, l.sendIdx, l.recvIdx⟩

inductive Scalar where
  | pending
  | matched
  | seen
deriving Repr, DecidableEq

def Scalar.weight : Scalar → Nat
  | .pending => 2
  | .matched => 1
  | .seen => 0

structure FLinkSt (α : Type) where
  sc : Scalar
  /-- `fixedSize` of `dst`'s receive tracker -/
  rf : Nat
  dt : Pair α (List (Call α))

/-- the data machine of a link after the initial `setupRequests(…, SetupSendRequest)` of `src`; `dst` has created its
    receive tracker (with its own size) and counts the link in `no_to_recv` iff its list is non-empty, but has no data
    request yet -/
def fixInitDt (B : Nat) (l : FLinkSpec α) : Pair α (List (Call α)) :=
  startSend B l.pair
    { (Pair.blank [] : Pair α (List (Call α))) with rt := Tracker.mk' 0 l.recvIdx l.own, rb := MessageBuffer.new B,
                                                      recvOpen := !l.recvIdx.isEmpty }

/-- body of `checkAndContinue` in `receiveSizeAndSetupReceive` for one completed scalar receive: the tracker now holds
    the peer's size `rf`; `skipZeroIndices; if(!finished) { SetupRecvRequest; skipZeroIndices; }` -/
def seenRecv (x : Pair α (List (Call α))) (rf : Nat) : Pair α (List (Call α)) :=
  let t := (x.rt.setFixedSize rf).skipZeroIndices
  if t.finished then { x with rt := t }
  else
    let q := setupRecv (β := α) true t x.rb
    { x with rt := q.1.skipZeroIndices, rb := q.2.1, rreq := if q.2.2 then .posted else .null }

structure FixSys (α : Type) where
  /-- per rank: 0 = in the loop, 1 = returned (loop left and `MPI_Waitall` passed) -/
  phase : List Nat
  noSize : List Nat
  toSend : List Nat
  toRecv : List Nat
  links : List (FLinkSt α)

inductive FAct where
  /-- MPI matches the scalar `MPI_Issend` of `src` with the `MPI_Irecv` of `dst` of link `i` -/
  | scalar (i : Nat)
  /-- `MPI_Testsome` reports the completed scalar receive of link `i` to `dst` -/
  | seen (i : Nat)
  /-- an action of the data machine of link `i` -/
  | data (i : Nat) (a : Action)
  /-- rank `p` finds all three counters zero, and `MPI_Waitall` on its scalar sends returns -/
  | ret (p : Nat)
deriving Repr, DecidableEq

def fNotSeen (p : Nat) (l : FLinkSpec α) (x : FLinkSt α) : Bool := l.dst == p && x.sc != .seen
def fSendOpen (p : Nat) (l : FLinkSpec α) (x : FLinkSt α) : Bool := l.src == p && x.dt.sendOpen
def fRecvOpen (p : Nat) (l : FLinkSpec α) (x : FLinkSt α) : Bool := l.dst == p && x.dt.recvOpen
/-- a scalar send of rank `p` that no receive has matched yet: `MPI_Waitall` blocks -/
def fScalarPending (p : Nat) (l : FLinkSpec α) (x : FLinkSt α) : Bool := l.src == p && x.sc == .pending

def fixStep (_B : Nat) (specs : List (FLinkSpec α)) (g : FixSys α) : FAct → Option (FixSys α)
  | .scalar i =>
    match specs[i]?, g.links[i]? with
    | some l, some x =>
      if x.sc = .pending then some { g with links := g.links.set i { x with sc := .matched, rf := l.f } } else none
    | _, _ => none
  | .seen i =>
    match specs[i]?, g.links[i]? with
    | some l, some x =>
      -- `if(no_size_to_recv) no_size_to_recv -= receiveSizeAndSetupReceive(…)` (`valid = false`: every completion counts)
      if g.phase.getD l.dst 3 = 0 ∧ g.noSize.getD l.dst 0 ≠ 0 ∧ x.sc = .matched then
        some { g with links := g.links.set i { x with sc := .seen, dt := seenRecv x.dt x.rf },
                      noSize := decIf true l.dst g.noSize }
      else none
    | _, _ => none
  | .data i a =>
    match specs[i]?, g.links[i]? with
    | some l, some x =>
      match a with
      | .deliver => (Pair.step (dataCfg l.pair) x.dt .deliver).map fun s' => { g with links := g.links.set i { x with dt := s' } }
      | .sendDone =>
        if g.phase.getD l.src 3 = 0 ∧ g.toSend.getD l.src 0 ≠ 0 then
          (Pair.step (dataCfg l.pair) x.dt .sendDone).map fun s' =>
            { g with links := g.links.set i { x with dt := s' },
                     toSend := decIf (x.dt.sendOpen && !s'.sendOpen) l.src g.toSend }
        else none
      | .recvDone =>
        -- guarded by `validRecvRequests(data_recv_req)`, which the completed request itself makes true
        if g.phase.getD l.dst 3 = 0 then
          (Pair.step (dataCfg l.pair) x.dt .recvDone).map fun s' =>
            { g with links := g.links.set i { x with dt := s' },
                     toRecv := decIf (x.dt.recvOpen && !s'.recvOpen) l.dst g.toRecv }
        else none
    | _, _ => none
  | .ret p =>
    if p < g.phase.length ∧ g.phase.getD p 3 = 0 ∧ g.noSize.getD p 0 + g.toSend.getD p 0 + g.toRecv.getD p 0 = 0 ∧
       countSel (fScalarPending p) specs g.links = 0 then
      some { g with phase := g.phase.set p 1 }
    else none

def fixExec (B : Nat) (specs : List (FLinkSpec α)) : FixSys α → List FAct → Option (FixSys α)
  | g, [] => some g
  | g, a :: as => (fixStep B specs g a).bind fun g' => fixExec B specs g' as

/-- all `n` ranks have run `sendFixedSize`, the initial data `setupRequests` and the "skip empty interfaces" loops -/
def fixInit (B n : Nat) (specs : List (FLinkSpec α)) : FixSys α :=
  { phase := List.replicate n 0,
    noSize := (List.range n).map fun p => countSel (fun (l : FLinkSpec α) (_ : Unit) => l.dst == p) specs (specs.map fun _ => ()),
    toSend := (List.range n).map fun p =>
      countSel (fun (l : FLinkSpec α) (_ : Unit) => l.src == p && !l.sendIdx.isEmpty) specs (specs.map fun _ => ()),
    toRecv := (List.range n).map fun p =>
      countSel (fun (l : FLinkSpec α) (_ : Unit) => l.dst == p && !l.recvIdx.isEmpty) specs (specs.map fun _ => ()),
    links := specs.map fun l => { sc := .pending, rf := l.own, dt := fixInitDt B l } }

def FixSys.final (g : FixSys α) : Bool :=
  g.phase.all (· == 1) && g.links.all fun x => x.sc == .seen && x.dt.final

end DV.C06
