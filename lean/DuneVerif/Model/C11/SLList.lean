/-
C11 — executable model of `Dune::SLList<T>` (dune/common/sllist.hh), core Lean only.

Pointers are abstracted to `Ptr`: `&beforeHead_` (the sentinel), an allocated `Element` named by a unique id,
or the null pointer.  The chain hanging off `beforeHead_.next_` is the list `nodes : List (id × item)` in
chain order; `tail_` is a `Ptr`; `size_` is the `int` counter; `fresh` is the allocator (next unused id).
All mutators work *through the pointers*, as the code does: `push_back` links the new element behind the
element named by `tail_` (so a wrong `tail_` loses elements), `insertAfter`/`deleteNext` locate `current`
in the chain, `empty()` compares `tail_` with the sentinel, `size()` returns the counter.
Operations on dangling/null pointers are undefined behaviour in C++; the model is totalised by leaving the
chain unchanged in that case (the theorems are stated under the invariant, where this does not happen).
After fixes/C11_sllist_selfassign.patch and fixes/C11_sllist_converting_ctor.patch.
-/
namespace DV.C11.SL

inductive Ptr where
  | head               -- &beforeHead_
  | node (id : Nat)    -- an allocated Element
  | null               -- 0
deriving Repr, DecidableEq

structure State (α : Type) where
  nodes : List (Nat × α)
  tail : Ptr
  size : Int
  fresh : Nat
deriving Repr

variable {α : Type}

/-- `SLList()` -/
def empty : State α := ⟨[], .head, 0, 0⟩

/-- index of the element with identity `id` in the chain -/
def idxOf (nodes : List (Nat × α)) (id : Nat) : Option Nat := nodes.findIdx? (fun nd => nd.1 == id)

/-- chain index at which an element linked *behind* `p` lands (`none`: `p` is null or dangling) -/
def posAfter (nodes : List (Nat × α)) : Ptr → Option Nat
  | .head => some 0
  | .node id => (idxOf nodes id).map (· + 1)
  | .null => none

/-- pointer to the chain element with index `j` (null behind the end) -/
def ptrOfIdx (nodes : List (Nat × α)) (j : Nat) : Ptr :=
  match nodes[j]? with
  | some nd => .node nd.1
  | none => .null

/-- `p->next_` -/
def next (s : State α) (p : Ptr) : Ptr :=
  match posAfter s.nodes p with
  | some j => ptrOfIdx s.nodes j
  | none => .null

/-- `p->item_` -/
def item (s : State α) : Ptr → Option α
  | .node id => (s.nodes.find? (fun nd => nd.1 == id)).map (·.2)
  | _ => none

/-- `push_back(item)`: `tail_->next_ = allocate; tail_ = tail_->next_; construct; tail_->next_ = 0; ++size_` -/
def pushBack (s : State α) (x : α) : State α :=
  let n := s.fresh
  match posAfter s.nodes s.tail with
  | some j => { nodes := s.nodes.take j ++ [(n, x)], tail := .node n, size := s.size + 1, fresh := n + 1 }
  | none => { s with tail := .node n, size := s.size + 1, fresh := n + 1 }

/-- `push_front(item)` -/
def pushFront (s : State α) (x : α) : State α :=
  let n := s.fresh
  if s.tail == .head then
    { nodes := [(n, x)], tail := .node n, size := s.size + 1, fresh := n + 1 }
  else
    { nodes := (n, x) :: s.nodes, tail := s.tail, size := s.size + 1, fresh := n + 1 }

/-- `insertAfter(current, item)`: new element gets `next_ = current->next_`; if that is null, `tail_` moves -/
def insertAfter (s : State α) (cur : Ptr) (x : α) : State α :=
  let n := s.fresh
  match posAfter s.nodes cur with
  | some j =>
    { nodes := s.nodes.take j ++ (n, x) :: s.nodes.drop j,
      tail := if j ≥ s.nodes.length then .node n else s.tail,
      size := s.size + 1, fresh := n + 1 }
  | none => s

/-- `deleteNext<watchForTail>(current)` (requires `current->next_ != 0`) -/
def deleteNext (watchForTail : Bool) (s : State α) (cur : Ptr) : State α :=
  match posAfter s.nodes cur with
  | some j =>
    match s.nodes[j]? with
    | some nd =>
      { nodes := s.nodes.take j ++ s.nodes.drop (j + 1),
        tail := if watchForTail && s.tail == .node nd.1 then cur else s.tail,
        size := s.size - 1, fresh := s.fresh }
    | none => s
  | none => s

/-- `pop_front()` -/
def popFront (s : State α) : State α := deleteNext true s .head

/-- `while(beforeHead_.next_) deleteNext<false>(&beforeHead_);` with the chain length as fuel -/
def clearLoop : Nat → State α → State α
  | 0, s => s
  | k + 1, s => if s.nodes.isEmpty then s else clearLoop k (deleteNext false s .head)

/-- `clear()` -/
def clear (s : State α) : State α := { clearLoop s.nodes.length s with tail := .head }

/-- what `for(it = begin(); it != end(); ++it) *it` shows -/
def items (s : State α) : List α := s.nodes.map (·.2)

/-- `copyElements(other)`: `push_back(*element)` for every element of `other` -/
def copyElements (s : State α) (other : State α) : State α := (items other).foldl pushBack s

/-- copy constructor -/
def copy (other : State α) : State α := copyElements empty other

/-- converting copy constructor `SLList(const SLList<T1,A1>&)` (fixes/C11_sllist_converting_ctor.patch):
    `copyElements` over the source's elements, each converted by `push_back(*element)` (`f` = the conversion `T1 → T`) -/
def copyConv {β : Type} (f : β → α) (other : State β) : State α := ((items other).map f).foldl pushBack empty

/-- `operator=(other)`; `other = none` stands for `&other == this` -/
def assign (s : State α) (other : Option (State α)) : State α :=
  match other with
  | none => s                                   -- if(this != &other) { … }
  | some o => copyElements (clear s) o

/-- the defective `operator=` of the unrepaired tree (no self test): kept to document the defect -/
def assignUnguarded (s : State α) (other : Option (State α)) : State α :=
  match other with
  | none => let c := clear s; copyElements c c
  | some o => copyElements (clear s) o

/-- `empty()` : `&beforeHead_ == tail_` -/
def isEmpty (s : State α) : Bool := s.tail == .head

/-- the element loop shared by `operator==` / `operator!=` -/
def firstDiff [BEq α] : List α → List α → Bool
  | [], _ => false
  | x :: xs, y :: ys => if x != y then true else firstDiff xs ys
  | _ :: _, [] => true

/-- `operator==` -/
def eq [BEq α] (a b : State α) : Bool :=
  if a.size != b.size then false else !(firstDiff (items a) (items b))

/-- `operator!=` -/
def ne [BEq α] (a b : State α) : Bool :=
  if a.size == b.size then firstDiff (items a) (items b) else true

/-! ### iterators -/

/-- `begin()` advanced `k` times -/
def ptrAt (s : State α) : Nat → Ptr
  | 0 => next s .head
  | k + 1 => next s (ptrAt s k)

/-- `SLListModifyIterator`: `(beforeIterator_, iterator_)` -/
structure MIt where
  before : Ptr
  cur : Ptr
deriving Repr, DecidableEq

def beginModify (s : State α) : MIt := ⟨.head, next s .head⟩
def endModify (s : State α) : MIt := ⟨s.tail, .null⟩

/-- `increment()` -/
def mIncrement (s : State α) (m : MIt) : MIt := ⟨next s m.before, next s m.cur⟩

/-- `insert(v)`: `beforeIterator_.insertAfter(v); ++beforeIterator_;` -/
def mInsert (s : State α) (m : MIt) (x : α) : State α × MIt :=
  let s' := insertAfter s m.before x
  (s', ⟨next s' m.before, m.cur⟩)

/-- `remove()`: `++iterator_; beforeIterator_.deleteNext();` -/
def mRemove (s : State α) (m : MIt) : State α × MIt :=
  let cur' := next s m.cur
  (deleteNext true s m.before, ⟨m.before, cur'⟩)

/-- `*m` -/
def mDeref (s : State α) (m : MIt) : Option α := item s m.cur

/-! ### operation histories on one list (with one modify iterator) -/

inductive Op (α : Type) where
  | pushBack (x : α) | pushFront (x : α) | popFront | clear
  | insAfter (k : Nat) (x : α)   -- `(begin()+k).insertAfter(x)`, k < size
  | delNext (k : Nat)            -- `(begin()+k).deleteNext()`, k+1 < size
  | assignSelf                   -- `s = s`
  | assignFrom (l : List α)      -- `s = other`, other holding `l`
  | mBegin | mEnd | mInc | mIns (x : α) | mRem
deriving Repr

/-- list plus the (optionally live) modify iterator -/
structure World (α : Type) where
  s : State α
  m : Option MIt

def ofList (l : List α) : State α := l.foldl pushBack empty

/-- precondition of an operation (outside it: undefined behaviour / failed assert; skipped) -/
def Op.ok (w : World α) : Op α → Bool
  | .popFront => w.s.size > 0
  | .insAfter k _ => (k : Int) < w.s.size
  | .delNext k => (k : Int) + 1 < w.s.size
  | .mInc | .mRem => match w.m with
    | some m => m.cur != .null
    | none => false
  | .mIns _ => w.m.isSome
  | _ => true

def step (w : World α) (o : Op α) : World α :=
  if o.ok w then
    match o with
    | .pushBack x => ⟨pushBack w.s x, none⟩
    | .pushFront x => ⟨pushFront w.s x, none⟩
    | .popFront => ⟨popFront w.s, none⟩
    | .clear => ⟨clear w.s, none⟩
    | .insAfter k x => ⟨insertAfter w.s (ptrAt w.s k) x, none⟩
    | .delNext k => ⟨deleteNext true w.s (ptrAt w.s k), none⟩
    | .assignSelf => ⟨assign w.s none, none⟩
    | .assignFrom l => ⟨assign w.s (some (ofList l)), none⟩
    | .mBegin => ⟨w.s, some (beginModify w.s)⟩
    | .mEnd => ⟨w.s, some (endModify w.s)⟩
    | .mInc => ⟨w.s, w.m.map (mIncrement w.s)⟩
    | .mIns x => match w.m with
      | some m => let r := mInsert w.s m x; ⟨r.1, some r.2⟩
      | none => w
    | .mRem => match w.m with
      | some m => let r := mRemove w.s m; ⟨r.1, some r.2⟩
      | none => w
  else w

def run (w : World α) (ops : List (Op α)) : World α := ops.foldl step w

/-! the same history on the abstract sequence; the modify iterator is a position `0 ≤ j ≤ length` -/
structure Spec (α : Type) where
  l : List α
  pos : Option Nat

def specStep (w : Spec α) : Op α → Spec α
  | .pushBack x => ⟨w.l ++ [x], none⟩
  | .pushFront x => ⟨x :: w.l, none⟩
  | .popFront => if 0 < w.l.length then ⟨w.l.tail, none⟩ else w
  | .clear => ⟨[], none⟩
  | .insAfter k x => if k < w.l.length then ⟨w.l.take (k + 1) ++ x :: w.l.drop (k + 1), none⟩ else w
  | .delNext k => if k + 1 < w.l.length then ⟨w.l.take (k + 1) ++ w.l.drop (k + 2), none⟩ else w
  | .assignSelf => ⟨w.l, none⟩
  | .assignFrom l => ⟨l, none⟩
  | .mBegin => ⟨w.l, some 0⟩
  | .mEnd => ⟨w.l, some w.l.length⟩
  | .mInc => match w.pos with
    | some j => if j < w.l.length then ⟨w.l, some (j + 1)⟩ else w
    | none => w
  | .mIns x => match w.pos with
    | some j => ⟨w.l.take j ++ x :: w.l.drop j, some (j + 1)⟩
    | none => w
  | .mRem => match w.pos with
    | some j => if j < w.l.length then ⟨w.l.take j ++ w.l.drop (j + 1), some j⟩ else w
    | none => w

def specRun (w : Spec α) (ops : List (Op α)) : Spec α := ops.foldl specStep w

end DV.C11.SL
