/-
C11 — executable model of `Dune::lru<Key,Tp>` (dune/common/lru.hh), core Lean only.

`_data` (a `std::list<pair<Key,Tp>>`) is a list of nodes `(id, key, value)`; the node id stands for the list
iterator, which stays valid while the node lives.  `_index` (a `std::map<Key, list::iterator>`) is an
association list `key ↦ id` with `std::map` semantics: `insert` does not overwrite, `erase(key)` removes the key.
After fixes/C11_lru_insert_existing.patch (`insert` of a present key overwrites the data and splices to front),
fixes/C11_lru_copy.patch (copying rebuilds the index) and fixes/C11_lru_const_find.patch (compile fix only).
-/
namespace DV.C11.LRU

structure State (κ ν : Type) where
  data : List (Nat × κ × ν)
  index : List (κ × Nat)
  fresh : Nat
deriving Repr

variable {κ ν : Type} [DecidableEq κ]

def empty : State κ ν := ⟨[], [], 0⟩

/-- `_index.find(key)` -/
def idxFind (ix : List (κ × Nat)) (k : κ) : Option Nat := (ix.find? (fun e => e.1 == k)).map (·.2)
/-- `_index.insert(make_pair(key,it))` : no effect when the key is present -/
def idxInsert (ix : List (κ × Nat)) (k : κ) (id : Nat) : List (κ × Nat) :=
  if (idxFind ix k).isSome then ix else (k, id) :: ix
/-- `_index.erase(key)` -/
def idxErase (ix : List (κ × Nat)) (k : κ) : List (κ × Nat) := ix.filter (fun e => !(e.1 == k))

/-- `_data.splice(_data.begin(), _data, it)` : move the node named `id` to the front -/
def spliceFront (d : List (Nat × κ × ν)) (id : Nat) : List (Nat × κ × ν) :=
  match d.find? (fun nd => nd.1 == id) with
  | some nd => nd :: d.filter (fun nd => !(nd.1 == id))
  | none => d

/-- `it->second = data` for the node named `id` -/
def setValue (d : List (Nat × κ × ν)) (id : Nat) (v : ν) : List (Nat × κ × ν) :=
  d.map (fun nd => if nd.1 == id then (nd.1, nd.2.1, v) else nd)

/-- `insert(key, data)` (repaired) -/
def insert (s : State κ ν) (k : κ) (v : ν) : State κ ν :=
  match idxFind s.index k with
  | some id => { s with data := spliceFront (setValue s.data id v) id }
  | none =>
    let id := s.fresh
    { data := (id, k, v) :: s.data, index := idxInsert s.index k id, fresh := id + 1 }

/-- `insert(key, data)` of the unrepaired tree: always a new node; the index keeps the old entry -/
def insertOld (s : State κ ν) (k : κ) (v : ν) : State κ ν :=
  let id := s.fresh
  { data := (id, k, v) :: s.data, index := idxInsert s.index k id, fresh := id + 1 }

/-- `touch(key)` : `none` = `Dune::RangeError`; otherwise the new state and the returned data -/
def touch (s : State κ ν) (k : κ) : Option (State κ ν × Option ν) :=
  match idxFind s.index k with
  | none => none
  | some id =>
    let d := spliceFront s.data id
    some ({ s with data := d }, (d.find? (fun nd => nd.1 == id)).map (·.2.2))

/-- `find(key)` dereferenced: `none` = `_data.end()` -/
def find (s : State κ ν) (k : κ) : Option (κ × ν) :=
  match idxFind s.index k with
  | none => none
  | some id => (s.data.find? (fun nd => nd.1 == id)).map (·.2)

def front (s : State κ ν) : Option ν := s.data.head?.map (·.2.2)
def back (s : State κ ν) : Option ν := s.data.getLast?.map (·.2.2)
def size (s : State κ ν) : Nat := s.data.length

/-- `pop_front()` (requires non-empty) -/
def popFront (s : State κ ν) : State κ ν :=
  match s.data with
  | [] => s
  | nd :: rest => { s with data := rest, index := idxErase s.index nd.2.1 }

/-- `pop_back()` (requires non-empty) -/
def popBack (s : State κ ν) : State κ ν :=
  match s.data.getLast? with
  | none => s
  | some nd => { s with data := s.data.dropLast, index := idxErase s.index nd.2.1 }

/-- `resize(new_size)` : `while (new_size < size()) pop_back();` with the size as fuel -/
def resizeLoop (n : Nat) : Nat → State κ ν → State κ ν
  | 0, s => s
  | fuel + 1, s => if n < size s then resizeLoop n fuel (popBack s) else s

def resize (s : State κ ν) (n : Nat) : State κ ν := resizeLoop n (size s) s

def clear (s : State κ ν) : State κ ν := { s with data := [], index := [] }

/-- the abstract recency-ordered association list -/
def abs (s : State κ ν) : List (κ × ν) := s.data.map (·.2)

/-! ### operation histories -/
inductive Op (κ ν : Type) where
  | insert (k : κ) (v : ν)
  | touch (k : κ)          -- a miss throws and leaves the container unchanged
  | popFront | popBack     -- require non-empty
  | resize (n : Nat)       -- requires n <= size
  | clear
deriving Repr

def Op.ok (s : State κ ν) : Op κ ν → Bool
  | .popFront | .popBack => 0 < size s
  | .resize n => n ≤ size s
  | _ => true

def step (s : State κ ν) (o : Op κ ν) : State κ ν :=
  if o.ok s then
    match o with
    | .insert k v => insert s k v
    | .touch k => match touch s k with
      | some r => r.1
      | none => s
    | .popFront => popFront s
    | .popBack => popBack s
    | .resize n => resize s n
    | .clear => clear s
  else s

def run (s : State κ ν) (ops : List (Op κ ν)) : State κ ν := ops.foldl step s

/-! the same history on the abstract ordered map -/
def specInsert (l : List (κ × ν)) (k : κ) (v : ν) : List (κ × ν) := (k, v) :: l.filter (fun e => !(e.1 == k))
def specTouch (l : List (κ × ν)) (k : κ) : Option (List (κ × ν)) :=
  (l.find? (fun e => e.1 == k)).map (fun e => e :: l.filter (fun e => !(e.1 == k)))
def specFind (l : List (κ × ν)) (k : κ) : Option (κ × ν) := l.find? (fun e => e.1 == k)

def specStep (l : List (κ × ν)) : Op κ ν → List (κ × ν)
  | .insert k v => specInsert l k v
  | .touch k => (specTouch l k).getD l
  | .popFront => l.tail
  | .popBack => l.dropLast
  | .resize n => if n ≤ l.length then l.take n else l
  | .clear => []

def specRun (l : List (κ × ν)) (ops : List (Op κ ν)) : List (κ × ν) := ops.foldl specStep l

/-! ### copying, and histories over two caches

`lru(const lru&)` (fixes/C11_lru_copy.patch): `_data(other._data)` — the copy owns new list nodes, which the model
names by the same ids (identities are per list) — then `rebuildIndex()`.  Value semantics make the independence of
copy and original true of the model by construction; the harness decides it for the real class. -/

/-- `_index.clear(); for (it = _data.begin(); it != _data.end(); ++it) _index.insert(make_pair(it->first, it));` -/
def rebuildIndex (d : List (Nat × κ × ν)) : List (κ × Nat) :=
  d.foldl (fun ix nd => idxInsert ix nd.2.1 nd.1) []

def copy (s : State κ ν) : State κ ν := { data := s.data, index := rebuildIndex s.data, fresh := s.fresh }

/-- the unrepaired implicit copy kept the source's index: it names nodes of the *source* list (documentation only) -/
def copyOld (s : State κ ν) : State κ ν := s

/-- `operator=(other)`; `none` stands for `&other == this` -/
def assign (s : State κ ν) (other : Option (State κ ν)) : State κ ν :=
  match other with
  | none => s                  -- if (this != &other) { … }
  | some o => copy o           -- `_data = other._data; rebuildIndex();`

inductive Side where
  | a | b
deriving Repr, DecidableEq

structure World (κ ν : Type) where
  a : State κ ν
  b : State κ ν

inductive Op2 (κ ν : Type) where
  | on (t : Side) (o : Op κ ν)
  | copyFrom (t : Side)        -- `t = other` (or `t` constructed anew as a copy of the other cache)
  | selfAssign (t : Side)
deriving Repr

def step2 (w : World κ ν) : Op2 κ ν → World κ ν
  | .on .a o => { w with a := step w.a o }
  | .on .b o => { w with b := step w.b o }
  | .copyFrom .a => { w with a := assign w.a (some w.b) }
  | .copyFrom .b => { w with b := assign w.b (some w.a) }
  | .selfAssign .a => { w with a := assign w.a none }
  | .selfAssign .b => { w with b := assign w.b none }

def run2 (w : World κ ν) (ops : List (Op2 κ ν)) : World κ ν := ops.foldl step2 w

def specStep2 (w : List (κ × ν) × List (κ × ν)) : Op2 κ ν → List (κ × ν) × List (κ × ν)
  | .on .a o => (specStep w.1 o, w.2)
  | .on .b o => (w.1, specStep w.2 o)
  | .copyFrom .a => (w.2, w.2)
  | .copyFrom .b => (w.1, w.1)
  | .selfAssign _ => w

def specRun2 (w : List (κ × ν) × List (κ × ν)) (ops : List (Op2 κ ν)) : List (κ × ν) × List (κ × ν) :=
  ops.foldl specStep2 w

end DV.C11.LRU
