/-
C11 — executable model of `Dune::ReservedVector<T,n>` (dune/common/reservedvector.hh), core Lean only.
State = `storage_` (a `std::array<T,n>`, here a list that always has length `n`) and `size_`.
`resize`/the count constructor only move `size_`, so growing shows whatever the array holds (as coded).
-/
namespace DV.C11.RV

structure State (α : Type) where
  storage : List α
  size : Nat
deriving Repr, BEq, DecidableEq

variable {α : Type}

/-- `ReservedVector()` : value-initialised storage, size 0 (`d` = value-initialised `T`) -/
def empty (n : Nat) (d : α) : State α := ⟨List.replicate n d, 0⟩

/-- `ReservedVector(count)` (asserts `count <= n`) -/
def ofCount (n : Nat) (d : α) (count : Nat) : State α := ⟨List.replicate n d, count⟩

/-- `for (i=0; i<count; ++i) storage_[i] = value;` -/
def fillLoop (st : List α) (v : α) : Nat → List α
  | 0 => st
  | k + 1 => (fillLoop st v k).set k v

/-- `ReservedVector(count, value)` -/
def ofCountValue (n : Nat) (d : α) (count : Nat) (v : α) : State α :=
  ⟨fillLoop (List.replicate n d) v count, count⟩

/-- `push_back(t)` : `storage_[size_++] = t` (requires `size_ < n`) -/
def pushBack (s : State α) (x : α) : State α := ⟨s.storage.set s.size x, s.size + 1⟩

/-- `ReservedVector(first, last)` : `for (i=0; i<n && first!=last; ++i,++size_) storage_[i] = *first++;` -/
def ofList (n : Nat) (d : α) (l : List α) : State α := (l.take n).foldl pushBack (empty n d)

/-- `pop_back()` : `if (!empty()) size_--;` -/
def popBack (s : State α) : State α := if s.size = 0 then s else ⟨s.storage, s.size - 1⟩

def clear (s : State α) : State α := ⟨s.storage, 0⟩

/-- `resize(s)` (requires `s <= n`) -/
def resize (s : State α) (k : Nat) : State α := ⟨s.storage, k⟩

/-- `operator[](i)` / `v[i] = x` (require `i < size_`) -/
def get (s : State α) (i : Nat) : Option α := s.storage[i]?
def set (s : State α) (i : Nat) (x : α) : State α := ⟨s.storage.set i x, s.size⟩

/-- `at(i)` : `none` = `std::out_of_range` -/
def at? (s : State α) (i : Nat) : Option α := if i < s.size then s.storage[i]? else none

def front (s : State α) : Option α := s.storage[0]?
def back (s : State α) : Option α := s.storage[s.size - 1]?

/-- `fill(value)` -/
def fill (s : State α) (v : α) : State α := ⟨fillLoop s.storage v s.size, s.size⟩

/-- `swap(other)` -/
def swap (a b : State α) : State α × State α := (b, a)

/-- the abstract vector: the first `size_` slots -/
def abs (s : State α) : List α := s.storage.take s.size

/-- `operator==` -/
def eqLoop [BEq α] (a b : List α) : Nat → Bool
  | 0 => true
  | k + 1 => eqLoop a b k && (match a[k]?, b[k]? with
      | some x, some y => x == y
      | _, _ => false)

def eq [BEq α] (a b : State α) : Bool := if a.size != b.size then false else eqLoop a.storage b.storage a.size

/-- `operator<` : first differing slot among the first `min(size, that.size)` decides, else the sizes -/
def ltLoop [LT α] [DecidableRel (α := α) (· < ·)] (a b : List α) (i : Nat) : Nat → Option Bool
  | 0 => none
  | fuel + 1 =>
    match a[i]?, b[i]? with
    | some x, some y => if x < y then some true else if y < x then some false else ltLoop a b (i + 1) fuel
    | _, _ => none

def lt [LT α] [DecidableRel (α := α) (· < ·)] (a b : State α) : Bool :=
  match ltLoop a.storage b.storage 0 (min a.size b.size) with
  | some r => r
  | none => a.size < b.size

def ne [BEq α] (a b : State α) : Bool := !(eq a b)
def gt [LT α] [DecidableRel (α := α) (· < ·)] (a b : State α) : Bool := lt b a
def le [LT α] [DecidableRel (α := α) (· < ·)] (a b : State α) : Bool := !(gt a b)
def ge [LT α] [DecidableRel (α := α) (· < ·)] (a b : State α) : Bool := !(lt a b)

/-! ### operation histories -/
inductive Op (α : Type) where
  | push (x : α)      -- requires size < n
  | pop | clear
  | resize (k : Nat)  -- requires k <= n
  | set (i : Nat) (x : α)  -- requires i < size
  | fill (x : α)
  | assignFrom (o : State α)  -- `*this = other` (copy/move assignment, or a freshly constructed temporary); `other`
                              -- must be a valid vector of the same capacity
deriving Repr

def Op.ok (n : Nat) (s : State α) : Op α → Bool
  | .push _ => s.size < n
  | .resize k => k ≤ n
  | .set i _ => i < s.size
  | .assignFrom o => o.storage.length == n && o.size ≤ n
  | _ => true

def step (n : Nat) (s : State α) (o : Op α) : State α :=
  if o.ok n s then
    match o with
    | .push x => pushBack s x
    | .pop => popBack s
    | .clear => clear s
    | .resize k => resize s k
    | .set i x => set s i x
    | .fill x => fill s x
    | .assignFrom o => o            -- the implicitly generated assignment copies `storage_` and `size_`
  else s

def run (n : Nat) (s : State α) (ops : List (Op α)) : State α := ops.foldl (step n) s

end DV.C11.RV
