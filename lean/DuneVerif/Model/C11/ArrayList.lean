/-
C11 — executable model of `Dune::ArrayList<T,N>` (dune/common/arraylist.hh), core Lean only.

State = the four data members:  `chunks_` (vector of shared pointers to `std::array<T,chunkSize_>`;
`none` = a pointer that has been `reset()`), `capacity_`, `size_`, `start_`.  `N` below is `chunkSize_`
(`(N > 0) ? N : 1` of the template argument, see `chunkSize`).  Iterators are plain absolute positions
(`position_`), exactly as in the code.

Every function mirrors one member function statement by statement (after fixes/C11_arraylist_purge.patch and
fixes/C11_arraylist_copy.patch).
Accesses outside the allocated chunks are undefined behaviour in C++; the model is totalised by making such
writes no-ops and such reads `none` — the refinement theorems (Props/C11.lean) are stated under the
invariant `Inv`, where all accesses are inside, and they would be false if a no-op write ever happened.
-/
namespace DV.C11.AL

/-- `constexpr static int chunkSize_ = (N > 0) ? N : 1;` -/
def chunkSize (n : Int) : Nat := if n > 0 then n.toNat else 1

structure State (α : Type) where
  chunks : List (Option (List α))
  capacity : Nat
  size : Nat
  start : Nat
deriving Repr, BEq, DecidableEq

variable {α : Type}

/-- `ArrayList()` : `capacity_(0), size_(0), start_(0)` -/
def empty : State α := ⟨[], 0, 0, 0⟩

/-- `chunks_[i/chunkSize_]->operator[](i%chunkSize_)` as a read -/
def readAt (N : Nat) (cs : List (Option (List α))) (i : Nat) : Option α :=
  match cs[i / N]? with
  | some (some c) => c[i % N]?
  | _ => none

/-- `chunks_[i/chunkSize_]->operator[](i%chunkSize_) = x` -/
def writeAt (N : Nat) (cs : List (Option (List α))) (i : Nat) (x : α) : List (Option (List α)) :=
  cs.modify (i / N) (fun oc => oc.map (fun c => c.set (i % N) x))

/-- `elementAt(i)` (absolute index) -/
def elementAt (N : Nat) (s : State α) (i : Nat) : Option α := readAt N s.chunks i

/-- `operator[](i)` = `elementAt(start_+i)` -/
def get (N : Nat) (s : State α) (i : Nat) : Option α := elementAt N s (s.start + i)

/-- `a[i] = x` through the mutable reference returned by `operator[]` -/
def set (N : Nat) (s : State α) (i : Nat) (x : α) : State α :=
  { s with chunks := writeAt N s.chunks (s.start + i) x }

/-- `push_back(entry)`; `d` is the value of a value-initialised `T` (fresh chunks are `make_shared<array>()`) -/
def push (N : Nat) (d : α) (s : State α) (x : α) : State α :=
  let index := s.start + s.size
  let s1 : State α :=
    if index = s.capacity then
      { s with chunks := s.chunks ++ [some (List.replicate N d)], capacity := s.capacity + N }
    else s
  { s1 with chunks := writeAt N s1.chunks index x, size := s1.size + 1 }

/-- `clear()` -/
def clear (_s : State α) : State α := ⟨[], 0, 0, 0⟩

/-- the loop `for(chunk=0; chunk<chunks; chunk++) { --posChunkStart; chunks_[posChunkStart].reset(); }` -/
def freeLoop (cs : List (Option (List α))) (posChunkStart : Nat) : Nat → List (Option (List α))
  | 0 => cs
  | k + 1 => freeLoop (cs.set (posChunkStart - 1) none) (posChunkStart - 1) k

/-- `ArrayListIterator::eraseToHere()` for an iterator with `position_ = p`; returns the new list state
    (the iterator afterwards has `position_ = p+1 = start_`). -/
def eraseToHere (N : Nat) (s : State α) (p : Nat) : State α :=
  let pos := p + 1                                            -- ++position_
  let size' := s.size - (pos - s.start)                       -- list_->size_ -= ++position_ - list_->start_
  let posChunkStart := pos / N
  let chunks := (pos - s.start + s.start % N) / N             -- the chunk-count formula
  { chunks := freeLoop s.chunks posChunkStart chunks, capacity := s.capacity, size := size', start := pos }

/-- `purge()` (repaired: ceil, chunk vector resized, capacity updated) -/
def purge (N : Nat) (s : State α) : State α :=
  let distance := s.start / N
  if distance > 0 then
    let chunks := (s.start % N + s.size + N - 1) / N
    -- std::copy(chunks_.begin()+distance, chunks_.begin()+(distance+chunks), chunks_.begin()); chunks_.resize(chunks)
    { chunks := (s.chunks.drop distance).take chunks,
      capacity := chunks * N,
      size := s.size,
      start := s.start % N }
  else s

/-- `begin().position_`, `end().position_` -/
def beginPos (s : State α) : Nat := s.start
def endPos (s : State α) : Nat := s.start + s.size

/-- what iterating `begin() … end()` and dereferencing shows (a missing element would show as `none`) -/
def view (N : Nat) (s : State α) : List (Option α) :=
  (List.range s.size).map (fun i => elementAt N s (s.start + i))

/-- the abstract sequence -/
def abs (N : Nat) (s : State α) : List α := (view N s).reduceOption

/-! ### operation histories -/

inductive Op (α : Type) where
  | push (x : α)
  | erase (k : Nat)        -- `(begin()+k).eraseToHere()`, requires `k < size()`
  | purge
  | clear
  | set (k : Nat) (x : α)  -- `a[k] = x`, requires `k < size()`
deriving Repr

/-- is the operation within its documented precondition in state `s`? -/
def Op.ok (s : State α) : Op α → Bool
  | .erase k => k < s.size
  | .set k _ => k < s.size
  | _ => true

/-- one step; operations outside their precondition (undefined behaviour in C++) are skipped, exactly as the
    harness skips them -/
def step (N : Nat) (d : α) (s : State α) (o : Op α) : State α :=
  if o.ok s then
    match o with
    | .push x => push N d s x
    | .erase k => eraseToHere N s (s.start + k)
    | .purge => purge N s
    | .clear => clear s
    | .set k x => set N s k x
  else s

def run (N : Nat) (d : α) (s : State α) (ops : List (Op α)) : State α := ops.foldl (step N d) s

/-- the same history on the abstract sequence -/
def specStep (l : List α) : Op α → List α
  | .push x => l ++ [x]
  | .erase k => if k < l.length then l.drop (k + 1) else l
  | .purge => l
  | .clear => []
  | .set k x => l.set k x

def specRun (l : List α) (ops : List (Op α)) : List α := ops.foldl specStep l

/-! ### copying, and histories over two lists

`ArrayList(const ArrayList&)` (fixes/C11_arraylist_copy.patch): `for(chunk : other.chunks_) if(chunk) push_back(
make_shared<array>(*chunk)) else emplace_back()`, the three counters copied.  The model has value semantics, so "the
copy shares no storage with the original" is true of the model by construction; that the real class behaves like this
is decided by the harness (two instances, each with its own `std::deque` shadow). -/

def copy (s : State α) : State α :=
  { chunks := s.chunks.map (fun c => c.map (fun a => a)),   -- allocated: make_shared<array>(*chunk); null: emplace_back()
    capacity := s.capacity, size := s.size, start := s.start }

/-- `operator=(other)`; `other = none` stands for `&other == this` -/
def assign (s : State α) (other : Option (State α)) : State α :=
  match other with
  | none => s                  -- if(this != &other) { … }
  | some o => copy o           -- ArrayList copy(other); swap the members in

inductive Side where
  | a | b
deriving Repr, DecidableEq

structure World (α : Type) where
  a : State α
  b : State α

/-- operations on two lists `a`, `b` -/
inductive Op2 (α : Type) where
  | on (t : Side) (o : Op α)   -- an operation on one of the lists
  | copyFrom (t : Side)        -- `t = other` (or `t` constructed anew as a copy of the other list)
  | selfAssign (t : Side)      -- `t = t`
deriving Repr

def step2 (N : Nat) (d : α) (w : World α) : Op2 α → World α
  | .on .a o => { w with a := step N d w.a o }
  | .on .b o => { w with b := step N d w.b o }
  | .copyFrom .a => { w with a := assign w.a (some w.b) }
  | .copyFrom .b => { w with b := assign w.b (some w.a) }
  | .selfAssign .a => { w with a := assign w.a none }
  | .selfAssign .b => { w with b := assign w.b none }

def run2 (N : Nat) (d : α) (w : World α) (ops : List (Op2 α)) : World α := ops.foldl (step2 N d) w

/-- the same history on two plain sequences -/
def specStep2 (w : List α × List α) : Op2 α → List α × List α
  | .on .a o => (specStep w.1 o, w.2)
  | .on .b o => (w.1, specStep w.2 o)
  | .copyFrom .a => (w.2, w.2)
  | .copyFrom .b => (w.1, w.1)
  | .selfAssign _ => w

def specRun2 (w : List α × List α) (ops : List (Op2 α)) : List α × List α := ops.foldl specStep2 w

end DV.C11.AL
