/-
C11 — executable model of `Dune::BitSetVector<B>` (dune/common/bitsetvector.hh), core Lean only.
State = the one underlying `std::vector<bool>`; block `i` is the bits `[i*B, (i+1)*B)`; the proxy
(`BitSetVectorReference`) operations are transcribed as loops over `getBit(i,j) = base[i*B+j]`.
A `std::bitset<B>` is a `List Bool` of length `B`, index = bit position.
-/
namespace DV.C11.BV

abbrev Bits := List Bool

/-- `BlocklessBaseClass::operator[](i*block_size+j)` as a read (out of range: `false`, UB in C++) -/
def getBit (B : Nat) (v : Bits) (i j : Nat) : Bool := v.getD (i * B + j) false

/-- `getBit(i,j) = b` -/
def setBit (B : Nat) (v : Bits) (i j : Nat) (b : Bool) : Bits := v.set (i * B + j) b

/-- `BitSetVector(n)`, `BitSetVector(n, v)` -/
def mk (B n : Nat) (b : Bool := false) : Bits := List.replicate (n * B) b

/-- `resize(n, v)` = `vector<bool>::resize(n*B, v)` -/
def resize (B : Nat) (v : Bits) (n : Nat) (b : Bool) : Bits :=
  if n * B ≤ v.length then v.take (n * B) else v ++ List.replicate (n * B - v.length) b

def clear (_v : Bits) : Bits := []

/-- `BitSetVector(const std::vector<bool>&)` : `none` = `Dune::RangeError` ("Vector size is not a multiple of the
    block size!") -/
def ofVector (B : Nat) (bits : Bits) : Option Bits := if bits.length % B != 0 then none else some bits

/-- `size()` = `BlocklessBaseClass::size()/block_size` -/
def size (B : Nat) (v : Bits) : Nat := v.length / B

/-- `setAll()` / `unsetAll()` = `assign(size, b)` -/
def assignAll (v : Bits) (b : Bool) : Bits := List.replicate v.length b

/-- `count()` over the whole vector -/
def count (v : Bits) : Nat := v.countP (· == true)

/-- `countmasked(j)` : `for i < size(): n += getBit(i,j)` -/
def countmasked (B : Nat) (v : Bits) (j : Nat) : Nat :=
  (List.range (size B v)).foldl (fun n i => n + (if getBit B v i j then 1 else 0)) 0

/-- `getRepr(i)` / conversion of a block reference to `std::bitset<B>` -/
def getRepr (B : Nat) (v : Bits) (i : Nat) : Bits := (List.range B).map (fun j => getBit B v i j)

/-- `for(j<B) getBit(j) = f j` — the write loop shared by all assigning proxy operations -/
def writeLoop (B : Nat) (v : Bits) (i : Nat) (f : Nat → Bool) : Nat → Bits
  | 0 => v
  | k + 1 => setBit B (writeLoop B v i f k) i k (f k)

/-- `ref = bool` -/
def assignBool (B : Nat) (v : Bits) (i : Nat) (b : Bool) : Bits := writeLoop B v i (fun _ => b) B

/-- `ref = bitset` (`b.test(j)`; a bitset has exactly `B` bits) -/
def assignBits (B : Nat) (v : Bits) (i : Nat) (bs : Bits) : Bits := writeLoop B v i (fun j => bs.getD j false) B

/-- `ref = otherRef` : reads `b.test(j)` *while writing* (matters only when both are the same block) -/
def assignRefLoop (B : Nat) (v : Bits) (i k : Nat) : Nat → Bits
  | 0 => v
  | j + 1 => let w := assignRefLoop B v i k j; setBit B w i j (getBit B w k j)

def assignRef (B : Nat) (v : Bits) (i k : Nat) : Bits := assignRefLoop B v i k B

/-! `std::bitset<B>` operations -/
def bAnd (a b : Bits) : Bits := List.zipWith (· && ·) a b
def bOr (a b : Bits) : Bits := List.zipWith (· || ·) a b
def bXor (a b : Bits) : Bits := List.zipWith (fun x y => x != y) a b
def bNot (a : Bits) : Bits := a.map (!·)
/-- `b << n` : bit `j` of the result is bit `j-n` -/
def bShl (a : Bits) (n : Nat) : Bits := (List.range a.length).map (fun j => if n ≤ j then a.getD (j - n) false else false)
/-- `b >> n` : bit `j` of the result is bit `j+n` -/
def bShr (a : Bits) (n : Nat) : Bits := (List.range a.length).map (fun j => a.getD (j + n) false)

/-- `ref &= x` etc. : `(*this) = bitset(*this) OP x` -/
def andBits (B : Nat) (v : Bits) (i : Nat) (x : Bits) : Bits := assignBits B v i (bAnd (getRepr B v i) x)
def orBits (B : Nat) (v : Bits) (i : Nat) (x : Bits) : Bits := assignBits B v i (bOr (getRepr B v i) x)
def xorBits (B : Nat) (v : Bits) (i : Nat) (x : Bits) : Bits := assignBits B v i (bXor (getRepr B v i) x)
def shlBlock (B : Nat) (v : Bits) (i n : Nat) : Bits := assignBits B v i (bShl (getRepr B v i) n)
def shrBlock (B : Nat) (v : Bits) (i n : Nat) : Bits := assignBits B v i (bShr (getRepr B v i) n)

/-- `ref.set()` : `for i<B: set(i)` ; `ref.reset()` : `*this = false` ; `ref.flip()` : `for i<B: flip(i)` -/
def setBlock (B : Nat) (v : Bits) (i : Nat) : Bits := writeLoop B v i (fun _ => true) B
def resetBlock (B : Nat) (v : Bits) (i : Nat) : Bits := assignBool B v i false
def flipLoop (B : Nat) (v : Bits) (i : Nat) : Nat → Bits
  | 0 => v
  | k + 1 => let w := flipLoop B v i k; setBit B w i k (!(getBit B w i k))
def flipBlock (B : Nat) (v : Bits) (i : Nat) : Bits := flipLoop B v i B

/-- `ref.set(n, val)`, `ref.reset(n)`, `ref.flip(n)` -/
def setOne (B : Nat) (v : Bits) (i n : Nat) (b : Bool) : Bits := setBit B v i n b
def flipOne (B : Nat) (v : Bits) (i n : Nat) : Bits := setBit B v i n (!(getBit B v i n))

/-- `ref.count()` : `for i<B: n += getBit(i)` -/
def countBlock (B : Nat) (v : Bits) (i : Nat) : Nat :=
  (List.range B).foldl (fun n j => n + (if getBit B v i j then 1 else 0)) 0
def anyBlock (B : Nat) (v : Bits) (i : Nat) : Bool := countBlock B v i != 0
def noneBlock (B : Nat) (v : Bits) (i : Nat) : Bool := !(anyBlock B v i)
/-- `ref.all()` : `for i<B: if (not test(i)) return false; return true` -/
def allBlock (B : Nat) (v : Bits) (i : Nat) : Bool := (List.range B).all (fun j => getBit B v i j)
/-- `ref == bitset` : `eq &= (getBit(j) == bs[j])` -/
def equalsBits (B : Nat) (v : Bits) (i : Nat) (bs : Bits) : Bool :=
  (List.range B).foldl (fun e j => e && (getBit B v i j == bs.getD j false)) true

/-! ### operation histories -/
inductive Op where
  | resize (n : Nat) (b : Bool) | clear | assignAll (b : Bool)
  | setBlock (i : Nat) | resetBlock (i : Nat) | flipBlock (i : Nat)
  | setOne (i j : Nat) (b : Bool) | flipOne (i j : Nat)
  | assignBool (i : Nat) (b : Bool) | assignBits (i : Nat) (x : Bits) | assignRef (i k : Nat)
  | andBits (i : Nat) (x : Bits) | orBits (i : Nat) (x : Bits) | xorBits (i : Nat) (x : Bits)
  | shl (i n : Nat) | shr (i n : Nat)
deriving Repr

/-- block index (and bit index / operand width) in range -/
def Op.ok (B : Nat) (v : Bits) : Op → Bool
  | .resize _ _ | .clear | .assignAll _ => true
  | .setBlock i | .resetBlock i | .flipBlock i | .assignBool i _ | .shl i _ | .shr i _ => i < size B v
  | .setOne i j _ | .flipOne i j => i < size B v && j < B
  | .assignBits i x | .andBits i x | .orBits i x | .xorBits i x => i < size B v && x.length == B
  | .assignRef i k => i < size B v && k < size B v

def step (B : Nat) (v : Bits) (o : Op) : Bits :=
  if o.ok B v then
    match o with
    | .resize n b => resize B v n b
    | .clear => clear v
    | .assignAll b => assignAll v b
    | .setBlock i => setBlock B v i
    | .resetBlock i => resetBlock B v i
    | .flipBlock i => flipBlock B v i
    | .setOne i j b => setOne B v i j b
    | .flipOne i j => flipOne B v i j
    | .assignBool i b => assignBool B v i b
    | .assignBits i x => assignBits B v i x
    | .assignRef i k => assignRef B v i k
    | .andBits i x => andBits B v i x
    | .orBits i x => orBits B v i x
    | .xorBits i x => xorBits B v i x
    | .shl i n => shlBlock B v i n
    | .shr i n => shrBlock B v i n
  else v

def run (B : Nat) (v : Bits) (ops : List Op) : Bits := ops.foldl (step B) v

/-! the same history on the abstract vector of `std::bitset<B>` blocks -/
def abs (B : Nat) (v : Bits) : List Bits := (List.range (size B v)).map (getRepr B v)

def specStep (B : Nat) (l : List Bits) : Op → List Bits
  | .resize n b => if n ≤ l.length then l.take n else l ++ List.replicate (n - l.length) (List.replicate B b)
  | .clear => []
  | .assignAll b => l.map (fun _ => List.replicate B b)
  | .setBlock i => l.modify i (fun _ => List.replicate B true)
  | .resetBlock i => l.modify i (fun _ => List.replicate B false)
  | .flipBlock i => l.modify i bNot
  | .setOne i j b => if j < B then l.modify i (fun x => x.set j b) else l
  | .flipOne i j => if j < B then l.modify i (fun x => x.set j (!(x.getD j false))) else l
  | .assignBool i b => l.modify i (fun _ => List.replicate B b)
  | .assignBits i x => if x.length = B then l.modify i (fun _ => x) else l
  | .assignRef i k => match l[k]? with
    | some x => l.modify i (fun _ => x)
    | none => l
  | .andBits i x => if x.length = B then l.modify i (fun y => bAnd y x) else l
  | .orBits i x => if x.length = B then l.modify i (fun y => bOr y x) else l
  | .xorBits i x => if x.length = B then l.modify i (fun y => bXor y x) else l
  | .shl i n => l.modify i (fun y => bShl y n)
  | .shr i n => l.modify i (fun y => bShr y n)

def specRun (B : Nat) (l : List Bits) (ops : List Op) : List Bits := ops.foldl (specStep B) l

end DV.C11.BV
