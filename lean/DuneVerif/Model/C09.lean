import DuneVerif.Gen.C09
/-!
# C09 — executable model of `Dune::LoopSIMD<T,S>` and the `Dune::Simd` abstraction layer (core Lean only)

A SIMD value with `S` entries is `Vec α S = Vector α S`; nested vectors are `Vec (Vec α S₂) S₁`.
Every operator of `loop.hh` is *executed from the loop shape the translator read off the macro body*
(`Gen.loop_…`): `loopOut` runs `for (i = lo; i < S - hiMinus; i++) out[dst i] = f(operands at their
indices)` on an uninitialised `out`, `loopIP` the same on `*this`.  A result is `none` when the translated loop
reads or writes out of range, leaves an entry of `out` unwritten (indeterminate value) or a scalar operation
is undefined.  `Proofs/C09.lean` shows that for the shapes currently in the source the loops are
`Vector.zipWith`/`Vector.map` of the scalar operation.

The scalar type and the meaning of the operator symbols are parameters (`sem`), so the theorems hold for
`Int`, `Float` (IEEE double at run time), `Bool` … alike.

The dense-matrix part (`SimdLike`, `luDecomp`, `determinant`, `solve`, `invert`, products and norms) is in
`Model/C09LU.lean`.
-/
namespace DV.C09
open Gen

abbrev Vec (α : Type) (S : Nat) := Vector α S

/-- value of an index expression at loop counter `i` (`none`: the unsigned subtraction wraps around) -/
def ixEval (S i : Nat) : Ix → Option Nat
  | .i => some i
  | .const k => some k
  | .plus k => some (i + k)
  | .minus k => if k ≤ i then some (i - k) else none
  | .rev => if i < S then some (S - 1 - i) else none

/-- read operand `v[ix(i)]` -/
def rd {α : Type} {S : Nat} (v : Vec α S) (ix : Ix) (i : Nat) : Option α :=
  (ixEval S i ix).bind fun j => v[j]?

/-- all entries written -/
def allSome {β : Type} {S : Nat} (v : Vector (Option β) S) : Option (Vec β S) :=
  if h : ∀ i : Fin S, (v[i]).isSome = true then some (Vector.ofFn fun i => (v[i]).get (h i)) else none

/-- the loop counter values `lo, lo+1, …, S - hiMinus - 1` -/
def loopRange (S : Nat) (L : Loop) : List Nat := List.range' L.lo (S - L.hiMinus - L.lo)

def stepOut {β : Type} {S : Nat} (L : Loop) (val : Nat → Option β)
    (st : Option (Vector (Option β) S)) (i : Nat) : Option (Vector (Option β) S) :=
  st.bind fun o => (ixEval S i L.dst).bind fun d => (val i).bind fun x =>
    if h : d < S then some (o.set d (some x) h) else none

/-- `LoopSIMD out; for (i = lo; i < S - hiMinus; i++) out[dst i] = val i; return out;` -/
def loopOut {β : Type} (S : Nat) (L : Loop) (val : Nat → Option β) : Option (Vec β S) :=
  if L.inPlace then none else
  ((loopRange S L).foldl (stepOut L val) (some (Vector.replicate S none))).bind allSome

def stepIP {α : Type} {S : Nat} (L : Loop) (val : Nat → Vec α S → Option α)
    (st : Option (Vec α S)) (i : Nat) : Option (Vec α S) :=
  st.bind fun o => (ixEval S i L.dst).bind fun d => (val i o).bind fun x =>
    if h : d < S then some (o.set d x h) else none

/-- `for (i = lo; i < S - hiMinus; i++) (*this)[dst i] = val i (*this); return *this;` -/
def loopIP {α : Type} (S : Nat) (L : Loop) (val : Nat → Vec α S → Option α) (self : Vec α S) : Option (Vec α S) :=
  if L.inPlace then (loopRange S L).foldl (stepIP L val) (some self) else none

namespace Simd
variable {α β γ μ : Type} {S : Nat}

/-- `out[..] = f(v[..])` -/
def un (L : Loop) (f : α → Option β) (a : Vec α S) : Option (Vec β S) :=
  match L.args with
  | [.vec 0 ia] => loopOut S L fun i => (rd a ia i).bind f
  | _ => none

/-- `out[..] = v[..] OP w[..]` -/
def binVV (L : Loop) (f : α → β → Option γ) (a : Vec α S) (b : Vec β S) : Option (Vec γ S) :=
  match L.args with
  | [.vec 0 ia, .vec 1 ib] => loopOut S L fun i => (rd a ia i).bind fun x => (rd b ib i).bind fun y => f x y
  | _ => none

/-- `out[..] = v[..] OP s` -/
def binVS (L : Loop) (f : α → β → Option γ) (a : Vec α S) (s : β) : Option (Vec γ S) :=
  match L.args with
  | [.vec 0 ia, .scalar] => loopOut S L fun i => (rd a ia i).bind fun x => f x s
  | _ => none

/-- `out[..] = s OP v[..]` -/
def binSV (L : Loop) (f : α → β → Option γ) (s : α) (b : Vec β S) : Option (Vec γ S) :=
  match L.args with
  | [.scalar, .vec 0 ib] => loopOut S L fun i => (rd b ib i).bind fun y => f s y
  | _ => none

/-- `(*this)[..] OP= v[..]` -/
def ipVV (L : Loop) (f : α → β → Option α) (self : Vec α S) (b : Vec β S) : Option (Vec α S) :=
  match L.args with
  | [.vec 0 ia, .vec 1 ib] => loopIP S L (fun i cur => (rd cur ia i).bind fun x => (rd b ib i).bind fun y => f x y) self
  | _ => none

/-- `(*this)[..] OP= s` -/
def ipVS (L : Loop) (f : α → β → Option α) (self : Vec α S) (s : β) : Option (Vec α S) :=
  match L.args with
  | [.vec 0 ia, .scalar] => loopIP S L (fun i cur => (rd cur ia i).bind fun x => f x s) self
  | _ => none

/-- `OP (*this)[..]` (prefix increment / decrement) -/
def ipUn (L : Loop) (f : α → Option α) (self : Vec α S) : Option (Vec α S) :=
  match L.args with
  | [.vec 0 ia] => loopIP S L (fun i cur => (rd cur ia i).bind f) self
  | _ => none

-- scalar arguments of another arithmetic type (`LoopSIMD<int,4> v; v < 2.5`) ----------------------------------

/-- the scalar argument as the per-lane statement sees it -/
inductive Arg (σ α : Type) where
  /-- the parameter is a free template parameter (`const U s`): the argument keeps its own type `σ`; every lane applies
      the built-in mixed-type operation (usual arithmetic conversions) -/
  | own (s : σ)
  /-- the parameter is declared `Simd::Scalar<T>`: the call converts the argument to the lanes' scalar type first -/
  | lane (x : α)
  /-- the parameter is declared `Simd::Mask<T>`: the call converts the argument to `bool` first -/
  | mask (m : Bool)

/-- the implicit conversion of the call, decided by the declared parameter type the translator read off the overload
    (`toLane`: the conversion `σ → Scalar<T>`, `truth`: the conversion to `bool`) -/
def passScalar {σ : Type} (p : ScalarParam) (toLane : σ → Option α) (truth : σ → Option Bool) (s : σ) : Option (Arg σ α) :=
  match p with
  | .own => some (.own s)
  | .laneScalar => (toLane s).map .lane
  | .laneMask => (truth s).map .mask
  | .none => none

/-- `out[..] = v[..] OP s` for a scalar argument `s` of type `σ` -/
def binVSx {σ : Type} (L : Loop) (f : α → Arg σ α → Option γ) (toLane : σ → Option α) (truth : σ → Option Bool)
    (a : Vec α S) (s : σ) : Option (Vec γ S) :=
  (passScalar L.scalarTy toLane truth s).bind fun arg => binVS L f a arg

/-- `out[..] = s OP v[..]` for a scalar argument `s` of type `σ` -/
def binSVx {σ : Type} (L : Loop) (f : Arg σ α → α → Option γ) (toLane : σ → Option α) (truth : σ → Option Bool)
    (s : σ) (b : Vec α S) : Option (Vec γ S) :=
  (passScalar L.scalarTy toLane truth s).bind fun arg => binSV L f arg b

/-- the same for a vector of vectors: the conversion happens once, at the outer call; the entries are combined with the
    already converted argument by the same overload -/
def binVSxNested {σ : Type} {S₂ : Nat} (L : Loop) (f : α → Arg σ α → Option γ) (toLane : σ → Option α)
    (truth : σ → Option Bool) (a : Vec (Vec α S₂) S) (s : σ) : Option (Vec (Vec γ S₂) S) :=
  (passScalar L.scalarTy toLane truth s).bind fun arg => binVS L (fun (x : Vec α S₂) g => binVS L f x g) a arg
def binSVxNested {σ : Type} {S₂ : Nat} (L : Loop) (f : Arg σ α → α → Option γ) (toLane : σ → Option α)
    (truth : σ → Option Bool) (s : σ) (b : Vec (Vec α S₂) S) : Option (Vec (Vec γ S₂) S) :=
  (passScalar L.scalarTy toLane truth s).bind fun arg => binSV L (fun g (y : Vec α S₂) => binSV L f g y) arg b

-- the operators of loop.hh, each through the loop shape of its macro --------------------------------------

def unary (sem : UnOp → α → Option α) (op : UnOp) (a : Vec α S) := un loop_UNARY_OP_v (sem op) a
def lnot (truth : α → Option Bool) (a : Vec α S) := un loop_lnot (fun x => (truth x).map (!·)) a
def «prefix» (sem : IncOp → α → Option α) (op : IncOp) (a : Vec α S) := ipUn loop_PREFIX_OP_v (sem op) a
/-- postfix: `out = *this; OP(*this); return out;` — returns (value, object) -/
def «postfix» (sem : IncOp → α → Option α) (op : IncOp) (a : Vec α S) : Option (Vec α S × Vec α S) :=
  («prefix» sem op a).map fun a' => (a, a')
def binaryVV (sem : BinOp → α → α → Option α) (op : BinOp) (a b : Vec α S) := binVV loop_BINARY_OP_vv (sem op) a b
def binaryVS (sem : BinOp → α → α → Option α) (op : BinOp) (a : Vec α S) (s : α) := binVS loop_BINARY_OP_vs (sem op) a s
def binarySV (sem : BinOp → α → α → Option α) (op : BinOp) (s : α) (b : Vec α S) := binSV loop_BINARY_OP_sv (sem op) s b
def shiftVV (sem : ShiftOp → α → β → Option α) (op : ShiftOp) (a : Vec α S) (b : Vec β S) := binVV loop_BITSHIFT_OP_vv (sem op) a b
def shiftVS (sem : ShiftOp → α → β → Option α) (op : ShiftOp) (a : Vec α S) (s : β) := binVS loop_BITSHIFT_OP_vs (sem op) a s
def assignVV (sem : AssignOp → α → α → Option α) (op : AssignOp) (a b : Vec α S) := ipVV loop_ASSIGNMENT_OP_vv (sem op) a b
def assignVS (sem : AssignOp → α → α → Option α) (op : AssignOp) (a : Vec α S) (s : α) := ipVS loop_ASSIGNMENT_OP_vs (sem op) a s
def compareVV (sem : CmpOp → α → α → Option Bool) (op : CmpOp) (a b : Vec α S) := binVV loop_COMPARISON_OP_vv (sem op) a b
def compareVS (sem : CmpOp → α → α → Option Bool) (op : CmpOp) (a : Vec α S) (s : α) := binVS loop_COMPARISON_OP_vs (sem op) a s
def compareSV (sem : CmpOp → α → α → Option Bool) (op : CmpOp) (s : α) (b : Vec α S) := binSV loop_COMPARISON_OP_sv (sem op) s b
def logicVV (sem : BoolOp → α → α → Option Bool) (op : BoolOp) (a b : Vec α S) := binVV loop_BOOLEAN_OP_vv (sem op) a b
def logicVS (sem : BoolOp → α → α → Option Bool) (op : BoolOp) (a : Vec α S) (s : α) := binVS loop_BOOLEAN_OP_vs (sem op) a s
def logicSV (sem : BoolOp → α → α → Option Bool) (op : BoolOp) (s : α) (b : Vec α S) := binSV loop_BOOLEAN_OP_sv (sem op) s b
-- … with a scalar operand of another arithmetic type (`σ`)
def compareVSx {σ : Type} (sem : CmpOp → α → Arg σ α → Option Bool) (toLane : σ → Option α) (truth : σ → Option Bool)
    (op : CmpOp) (a : Vec α S) (s : σ) := binVSx loop_COMPARISON_OP_vs (sem op) toLane truth a s
def compareSVx {σ : Type} (sem : CmpOp → Arg σ α → α → Option Bool) (toLane : σ → Option α) (truth : σ → Option Bool)
    (op : CmpOp) (s : σ) (b : Vec α S) := binSVx loop_COMPARISON_OP_sv (sem op) toLane truth s b
def logicVSx {σ : Type} (sem : BoolOp → α → Arg σ α → Option Bool) (toLane : σ → Option α) (truth : σ → Option Bool)
    (op : BoolOp) (a : Vec α S) (s : σ) := binVSx loop_BOOLEAN_OP_vs (sem op) toLane truth a s
def logicSVx {σ : Type} (sem : BoolOp → Arg σ α → α → Option Bool) (toLane : σ → Option α) (truth : σ → Option Bool)
    (op : BoolOp) (s : σ) (b : Vec α S) := binSVx loop_BOOLEAN_OP_sv (sem op) toLane truth s b
def shiftVSx {σ : Type} (sem : ShiftOp → α → Arg σ α → Option α) (toLane : σ → Option α) (truth : σ → Option Bool)
    (op : ShiftOp) (a : Vec α S) (s : σ) := binVSx loop_BITSHIFT_OP_vs (sem op) toLane truth a s
def math (sem : MathOp → α → Option α) (op : MathOp) (a : Vec α S) := un loop_CMATH_UNARY_OP_v (sem op) a
def mathRet (sem : MathRetOp → α → Option β) (op : MathRetOp) (a : Vec α S) := un loop_CMATH_UNARY_OP_WITH_RETURN_v (sem op) a
def stdUn (sem : StdUnOp → α → Option β) (op : StdUnOp) (a : Vec α S) := un loop_STD_UNARY_OP_v (sem op) a
def stdBin (sem : StdBinOp → α → α → Option α) (op : StdBinOp) (a b : Vec α S) := binVV loop_STD_BINARY_OP_vv (sem op) a b
def isNaN (f : α → Option Bool) (a : Vec α S) := un loop_isNaN f a
def isInf (f : α → Option Bool) (a : Vec α S) := un loop_isInf f a
def isFinite (f : α → Option Bool) (a : Vec α S) := un loop_isFinite f a

/-- cond of the scalar (interface.hh) -/
def condScalar (m : Bool) (a b : α) : Option α := some (scalarCond m a b)

-- mask reductions ---------------------------------------------------------------------------------------

def stepRed (R : Reduce) (inner : μ → Option Bool) (m : Vec μ S) (st : Option Bool) (i : Nat) : Option Bool :=
  st.bind fun out => (rd m R.ix i).bind fun e => (inner e).map fun r => if R.isOr then (out || r) else (out && r)

/-- `bool out = init; for (…) out (or= / and=) inner(mask[ix i]); return out;` -/
def reduce (R : Reduce) (inner : μ → Option Bool) (m : Vec μ S) : Option Bool :=
  (List.range' R.lo (S - R.hiMinus - R.lo)).foldl (stepRed R inner m) (some R.init)

/-- reduction `k` of a flat mask vector: the entries are scalar `bool`s (standard.hh) -/
def reduceFlat (k : RedKind) (m : Vec Bool S) : Option Bool :=
  let R := reduceOf k
  reduce R (fun b => some (scalarReduce R.inner b)) m

/-- reduction `k` of a nested mask vector -/
def reduceNested {S₂ : Nat} (k : RedKind) (m : Vec (Vec Bool S₂) S) : Option Bool :=
  let R := reduceOf k
  reduce R (reduceFlat R.inner) m

-- lane access ----------------------------------------------------------------------------------------------

/-- `Simd::lane(l, v)` for a vector of scalars (entries have one lane) -/
def lane (l : Nat) (v : Vec α S) : Option α :=
  (v[laneOuter l 1]?).bind fun x => if laneInner l 1 = 0 then some x else none

/-- `Simd::lane(l, v)` for a vector of vectors with `S₂` lanes each -/
def laneNested {S₂ : Nat} (l : Nat) (v : Vec (Vec α S₂) S) : Option α :=
  if l < laneCount S S₂ then (v[laneOuter l S₂]?).bind fun x => x[laneInner l S₂]? else none

/-- `Simd::lane(l, v) = x` -/
def setLane (l : Nat) (x : α) (v : Vec α S) : Option (Vec α S) :=
  if laneInner l 1 = 0 then (if h : laneOuter l 1 < S then some (v.set (laneOuter l 1) x h) else none) else none

def setLaneNested {S₂ : Nat} (l : Nat) (x : α) (v : Vec (Vec α S₂) S) : Option (Vec (Vec α S₂) S) :=
  if h : laneOuter l S₂ < S then
    (if h2 : laneInner l S₂ < S₂ then some (v.set (laneOuter l S₂) ((v[laneOuter l S₂]).set (laneInner l S₂) x h2) h) else none)
  else none

/-- the per-lane loop of `Simd::cond` for LoopSIMD (the only reachable overload):
    `for (l : range(lanes(mask))) lane(l, out) = lane(l, mask) ? lane(l, ifTrue) : lane(l, ifFalse)`;
    the result is indexed by *lane number* (`n` lanes), the operands are read through their `lane` function -/
def condLanes (n : Nat) (gm : Nat → Option Bool) (ga gb : Nat → Option α) : Option (Vec α n) :=
  match loop_condLanes.args with
  | [.vec 0 im, .vec 1 ia, .vec 2 ib] =>
    loopOut n loop_condLanes fun l =>
      ((ixEval n l im).bind gm).bind fun c => ((ixEval n l ia).bind ga).bind fun x => ((ixEval n l ib).bind gb).bind fun y =>
        some (if c then x else y)
  | _ => none

/-- `Simd::cond(mask, ifTrue, ifFalse)` for a vector of scalars: entry `i` is the entry `lane(l, out)` addresses
    for `l = i` -/
def cond (m : Vec Bool S) (a b : Vec α S) : Option (Vec α S) :=
  (condLanes (laneCount S 1) (lane · m) (lane · a) (lane · b)).bind fun r =>
    allSome (Vector.ofFn fun i : Fin S =>
      if laneOuter i.val 1 = i.val ∧ laneInner i.val 1 = 0 then r[i.val]? else none)

/-- `Simd::cond` for a vector of vectors: entry `(i, j)` is addressed by lane `i * S₂ + j` -/
def condNested {S₂ : Nat} (m : Vec (Vec Bool S₂) S) (a b : Vec (Vec α S₂) S) : Option (Vec (Vec α S₂) S) :=
  (condLanes (laneCount S S₂) (laneNested · m) (laneNested · a) (laneNested · b)).bind fun r =>
    allSome (Vector.ofFn fun i : Fin S => allSome (Vector.ofFn fun j : Fin S₂ =>
      let l := i.val * S₂ + j.val
      if laneOuter l S₂ = i.val ∧ laneInner l S₂ = j.val then r[l]? else none))

/-- the broadcasting constructor `LoopSIMD(Scalar<T> i)` (`fill`) and `Simd::broadcast` -/
def broadcast (x : α) : Vec α S := Vector.replicate S x

/-- lanes in storage order (outer-major) -/
def flatten {S₂ : Nat} (v : Vec (Vec α S₂) S) : List α := (v.toList.map Vector.toList).flatten

/-- defaults.hh: horizontal `max(v)`: `m = lane(0); for l = 1 … : if (m < lane(l)) m = lane(l)` -/
def hmax (lt : α → α → Bool) : List α → Option α
  | [] => none
  | x :: xs => some (xs.foldl (fun m y => if lt m y then y else m) x)
/-- defaults.hh: horizontal `min(v)`: `if (lane(l) < m) m = lane(l)` -/
def hmin (lt : α → α → Bool) : List α → Option α
  | [] => none
  | x :: xs => some (xs.foldl (fun m y => if lt y m then y else m) x)

/-- `std::max(a, b) = (a < b) ? b : a`, `std::min(a, b) = (b < a) ? b : a` -/
def stdMax (lt : α → α → Bool) (a b : α) : α := if lt a b then b else a
def stdMin (lt : α → α → Bool) (a b : α) : α := if lt b a then b else a

end Simd
end DV.C09
