/-
C14 — model of the md layouts, views and arrays of dune/common/std:
  extents.hh (static/dynamic extent pattern, dynamic index table, constructors, product),
  layout_left.hh / layout_right.hh (Horner loops, stride loops, converting constructors),
  layout_stride.hh (dot product, required_span_size, constructor from another mapping),
  mdspan.hh / mdarray.hh (element access through the mapping, container sized by required_span_size,
  construction from containers / other views), span.hh (first/last/subspan).

Arrays indexed by a dimension number (`extent(r)`, `indices[r]`, `strides_[r]`) are functions `Nat → Nat`
(only the entries below `rank` are ever read by the loops), so every definition is for an arbitrary rank.
Index arithmetic is over `Nat`: the model (and the theorems) assume that no product of extents overflows
`index_type`; the harness only generates such cases.

The loop *pieces* (initial value, bounds, step) of the offset, stride, product and span-size computations are
regenerated from the C++ sources into Gen/C14.lean on every run; the loops below run exactly these pieces.
Core Lean only.
-/
import DuneVerif.Gen.C14
import DuneVerif.Common.Proto

namespace DV.C14
open DV.C14.Gen

/-- an array indexed by the dimension number -/
abbrev Arr := Nat → Nat

/-- view a list as an array (entries beyond the end are never read by a loop bounded by the rank) -/
def arr (l : List Nat) : Arr := fun k => l.getD k 0

/-- the first `n` entries of an array -/
def toList (n : Nat) (a : Arr) : List Nat := (List.range n).map a

/-! ### loops -/

/-- `n` iterations `s = body r s; ++r` starting at `r` -/
def loopFrom {σ : Type} (body : Nat → σ → σ) : Nat → Nat → σ → σ
  | 0, _, s => s
  | n+1, r, s => loopFrom body n (r+1) (body r s)

/-- `for (r = lo; r < hi; ++r) s = body r s` -/
def forLoop {σ : Type} (lo hi : Nat) (body : Nat → σ → σ) (s : σ) : σ :=
  loopFrom body (hi - lo) lo s

/-- `n` iterations `s = body r s; --r` starting at `r` -/
def downFrom {σ : Type} (body : Nat → σ → σ) : Nat → Nat → σ → σ
  | 0, _, s => s
  | n+1, r, s => downFrom body n (r-1) (body r s)

/-- `for (r = hi; r > lo; --r) s = body r s` -/
def forDown {σ : Type} (hi lo : Nat) (body : Nat → σ → σ) (s : σ) : σ :=
  downFrom body (hi - lo) hi s

/-! ### extents.hh -/

/-- the template arguments `exts...`: `none` = `Std::dynamic_extent` -/
abbrev Pattern := List (Option Nat)

def isDyn (p : Pattern) (i : Nat) : Bool := (p.getD i (some 0)).isNone

/-- `rank_dynamic_ = ((exts == dynamic_extent) + ... + 0)` -/
def rankDynamic : Pattern → Nat
  | [] => 0
  | e :: es => (if e.isNone then 1 else 0) + rankDynamic es

/-- `make_dynamic_index()`: `di[0] = 0; for i < rank: di[i+1] = di[i] + (exts[i] == dynamic_extent)` -/
def makeDynamicIndex (p : Pattern) : List Nat :=
  forLoop 0 p.length (fun i di => di.set (i+1) (di.getD i 0 + (if isDyn p i then 1 else 0)))
    (List.replicate (p.length + 1) 0)

/-- an extents object: the static pattern and the array `dynamic_extents_` -/
structure Extents where
  pat : Pattern
  dyn : List Nat
  deriving Repr

def Extents.rank (e : Extents) : Nat := e.pat.length

/-- `static_extent(r)` -/
def staticExtent (p : Pattern) (r : Nat) : Option Nat := p.getD r (some 0)

/-- `extent(r)`: the static extent, or `dynamic_extents_[dynamic_index_[r]]` -/
def Extents.extent (e : Extents) (r : Nat) : Nat :=
  match staticExtent e.pat r with
  | some s => s
  | none => e.dyn.getD ((makeDynamicIndex e.pat).getD r 0) 0

/-- second branch of `init_dynamic_extents`: `for (i = 0, j = 0; i < rank; ++i) if (static_extent(i) == dyn) dynamic_extents_[j++] = e[i];` -/
def initFromFull (p : Pattern) (c : List Nat) : List Nat :=
  (forLoop 0 p.length
    (fun i (st : List Nat × Nat) => if isDyn p i then (st.1.set st.2 (c.getD i 0), st.2 + 1) else st)
    (List.replicate (rankDynamic p) 0, 0)).1

/-- first branch: `for (i < rank_dynamic) dynamic_extents_[i] = e[i]` -/
def initFromDyn (p : Pattern) (c : List Nat) : List Nat :=
  forLoop 0 (rankDynamic p) (fun i d => d.set i (c.getD i 0)) (List.replicate (rankDynamic p) 0)

/-- `init_dynamic_extents<N>(e)` for a container of `N = c.length` values; `none` if no constructor accepts `N` -/
def initDynamic (p : Pattern) (c : List Nat) : Option Extents :=
  if c.length = rankDynamic p then
    some ⟨p, if rankDynamic p = 0 then [] else initFromDyn p c⟩
  else if c.length = p.length then
    some ⟨p, if rankDynamic p = 0 then [] else initFromFull p c⟩
  else none

/-- `extents()` value-initialised (`E{}`, the default member initialisation used by the default constructors of the
    mappings, of `mdspan` and of `mdarray`): every dynamic extent is 0 -/
def Extents.dflt (p : Pattern) : Extents := ⟨p, List.replicate (rankDynamic p) 0⟩

/-- the precondition of the constructors taking all `rank` values: static extents agree with the given values -/
def compatible : Pattern → List Nat → Bool
  | [], [] => true
  | e :: es, v :: vs => (match e with | some s => s == v | none => true) && compatible es vs
  | _, _ => false

/-- the dynamic entries of a full extent list -/
def dynPart : Pattern → List Nat → List Nat
  | e :: es, v :: vs => if e.isNone then v :: dynPart es vs else dynPart es vs
  | _, _ => []

/-- all extents as a list (`as_array(other)` of the converting constructor) -/
def Extents.toList (e : Extents) : List Nat := (List.range e.rank).map e.extent

/-- `extents(const extents<I,e...>& other)`: `init_dynamic_extents<rank>(as_array(other))` -/
def Extents.convert (p : Pattern) (o : Extents) : Option Extents :=
  if p.length = o.rank then initDynamic p o.toList else none

/-- `operator==` of two extents objects -/
def Extents.beq (a b : Extents) : Bool :=
  a.rank == b.rank && forLoop 0 a.rank (fun i ok => ok && a.extent i == b.extent i) true

/-! ### layout_left.hh, layout_right.hh, layout_stride.hh -/

/-- `extents::product()` -/
def product (rank : Nat) (E : Arr) : Nat :=
  forLoop (product_lo rank E) (product_hi rank E) (product_step rank E) (product_init rank E)

/-- `layout_left::mapping::operator()(ii...)`; rank 0 uses the overload `operator()()` returning 0 -/
def offsetLeft (rank : Nat) (E I : Arr) : Nat :=
  if rank = 0 then 0
  else forLoop (left_lo rank I E) (left_hi rank I E) (left_step rank I E) (left_init rank I E)

/-- `layout_left::mapping::stride(i)` -/
def strideLeft (rank : Nat) (E : Arr) (i : Nat) : Nat :=
  forLoop (left_stride_lo rank E i) (left_stride_hi rank E i) (left_stride_step rank E i) (left_stride_init rank E i)

/-- `layout_right::mapping::operator()(ii...)` -/
def offsetRight (rank : Nat) (E I : Arr) : Nat :=
  if rank = 0 then 0
  else forLoop (right_lo rank I E) (right_hi rank I E) (right_step rank I E) (right_init rank I E)

/-- `layout_right::mapping::stride(i)` -/
def strideRight (rank : Nat) (E : Arr) (i : Nat) : Nat :=
  forLoop (right_stride_lo rank E i) (right_stride_hi rank E i) (right_stride_step rank E i) (right_stride_init rank E i)

/-- the fold expression `((ii * strides_[r]) + ... + 0)` over `r = k, k+1, …` (`n` terms), a right fold; the summand and
    the initial value are regenerated from layout_stride.hh (`Gen.stride_fold_term`, `Gen.stride_fold_init`) -/
def dotFrom (S I : Arr) : Nat → Nat → Nat
  | 0, _ => stride_fold_init
  | n+1, r => stride_fold_term (I r) (S r) + dotFrom S I n (r+1)

/-- `layout_stride::mapping::operator()(ii...)` -/
def offsetStride (rank : Nat) (S I : Arr) : Nat := dotFrom S I rank 0

/-- `layout_stride::mapping::size(extents, strides)` = `required_span_size()` -/
def requiredSpanStride (rank : Nat) (E S : Arr) : Nat :=
  if rank = 0 then stride_size_rank0
  else if product rank E = 0 then stride_size_empty
  else forLoop (stride_size_lo rank E S) (stride_size_hi rank E S) (stride_size_step rank E S) (stride_size_init rank E S)

inductive Layout where
  | left | right | stride
  deriving DecidableEq, Repr

/-- a layout mapping object: the extents (as the array `extent(r)`) and, for layout_stride, `strides_` -/
structure Mapping where
  lay : Layout
  rank : Nat
  ext : Arr
  str : Arr

def Mapping.offset (m : Mapping) (I : Arr) : Nat :=
  match m.lay with
  | .left => offsetLeft m.rank m.ext I
  | .right => offsetRight m.rank m.ext I
  | .stride => offsetStride m.rank m.str I

def Mapping.stride (m : Mapping) (i : Nat) : Nat :=
  match m.lay with
  | .left => strideLeft m.rank m.ext i
  | .right => strideRight m.rank m.ext i
  | .stride => m.str i

def Mapping.requiredSpan (m : Mapping) : Nat :=
  match m.lay with
  | .left => product m.rank m.ext
  | .right => product m.rank m.ext
  | .stride => requiredSpanStride m.rank m.ext m.str

/-- `is_exhaustive()`: constant `true` for left/right; for stride `rank == 0 || (rss > 0 && rss == extents().product())` -/
def Mapping.isExhaustive (m : Mapping) : Bool :=
  match m.lay with
  | .stride => m.rank == 0 || (decide (0 < m.requiredSpan) && m.requiredSpan == product m.rank m.ext)
  | _ => true

/-- `layout_stride::mapping(const M& m)`: `extents_(m.extents())`, `strides_[r] = m.stride(r)` -/
def Mapping.toStride (m : Mapping) : Mapping :=
  { lay := .stride, rank := m.rank, ext := m.ext, str := fun r => m.stride r }

/-- the assertions of `layout_left::mapping(const layout_stride::mapping<…>&)`:
    `prod = 1; for (r = 0; r < rank-1; ++r) { assert(m.stride(r) == prod); prod *= extent(r); } assert(m.stride(rank-1) == prod);` -/
def checkFromStrideLeft (rank : Nat) (E S : Arr) : Bool :=
  if rank = 0 then true
  else
    let st := forLoop 0 (rank - 1) (fun r (st : Bool × Nat) => (st.1 && S r == st.2, st.2 * E r)) (true, 1)
    st.1 && S (rank - 1) == st.2

/-- the assertions of `layout_right::mapping(const layout_stride::mapping<…>&)`:
    `prod = 1; for (r = rank-1; r > 0; --r) { assert(m.stride(r) == prod); prod *= extent(r); } assert(m.stride(0) == prod);` -/
def checkFromStrideRight (rank : Nat) (E S : Arr) : Bool :=
  if rank = 0 then true
  else
    let st := forDown (rank - 1) 0 (fun r (st : Bool × Nat) => (st.1 && S r == st.2, st.2 * E r)) (true, 1)
    st.1 && S 0 == st.2

/-- converting constructors between mapping types over the same extents values; `none` = not provided
    (left↔right needs rank ≤ 1) or an assertion of the constructor fails -/
def Mapping.convertTo (m : Mapping) (target : Layout) : Option Mapping :=
  match m.lay, target with
  | .left, .left => some m
  | .right, .right => some m
  | .left, .right => if m.rank ≤ 1 then some { m with lay := .right } else none
  | .right, .left => if m.rank ≤ 1 then some { m with lay := .left } else none
  | .stride, .left => if checkFromStrideLeft m.rank m.ext m.str then some { m with lay := .left } else none
  | .stride, .right => if checkFromStrideRight m.rank m.ext m.str then some { m with lay := .right } else none
  | _, .stride => some m.toStride

/-! ### index space -/

/-- all index tuples of the extents in row-major order (last index fastest); rank 0 has the one empty tuple -/
def allTuples : List Nat → List (List Nat)
  | [] => [[]]
  | e :: es => (List.range e).flatMap fun i => (allTuples es).map fun t => i :: t

/-! ### mdspan.hh / mdarray.hh -/

/-- `mdspan::size()`: `s = 1; for (r < rank) s *= extent(r)` (pieces regenerated from mdspan.hh) -/
def mdSize (rank : Nat) (E : Arr) : Nat :=
  forLoop (mdspan_size_lo rank E) (mdspan_size_hi rank E) (mdspan_size_step rank E) (mdspan_size_init rank E)

/-- `mdarray::size()` (pieces regenerated from mdarray.hh) -/
def mdarraySize (rank : Nat) (E : Arr) : Nat :=
  forLoop (mdarray_size_lo rank E) (mdarray_size_hi rank E) (mdarray_size_step rank E) (mdarray_size_init rank E)

/-- an md view or array: the mapping and the flat storage it addresses (`data_handle_[…]` / `container_[…]`) -/
structure Md where
  map : Mapping
  data : List Int

/-- `operator()(ii...)` / `operator[]`: `accessor_.access(data_handle_, mapping_(ii...))` resp. `container_[mapping_(ii...)]` -/
def Md.get? (a : Md) (I : Arr) : Option Int := a.data[a.map.offset I]?

/-- assignment through the returned reference -/
def Md.set (a : Md) (I : Arr) (v : Int) : Md := { a with data := a.data.set (a.map.offset I) v }

/-- a history of element assignments `a(t₁) = v₁; a(t₂) = v₂; …` on one view / array object -/
def Md.writes (a : Md) : List (List Nat × Int) → Md
  | [] => a
  | w :: ws => (a.set (arr w.1) w.2).writes ws

/-- `mdarray(const mapping_type& m[, v][, alloc])`: `container_(construct_container(N[, v]))` resp. `container_(N[, v], a)`,
    `mapping_(m)`; the element count `N` is what the member initialisers in mdarray.hh say (regenerated:
    `Gen.mdarray_from_mapping_csize`, a function of `m.required_span_size()` and the number of index tuples) -/
def Md.new (m : Mapping) (v : Int := 0) : Md :=
  ⟨m, List.replicate (mdarray_from_mapping_csize m.requiredSpan (mdarraySize m.rank m.ext)) v⟩

/-- `mdarray(const extents&/mapping&, const container_type& c)` (and the `&&`/allocator variants): the container is
    taken as it is; precondition `c.size() >= required_span_size()` -/
def Md.fromContainer (m : Mapping) (c : List Int) : Md := ⟨m, c⟩

/-- `swap(x, y)`: containers (resp. data handles) and mappings are exchanged -/
def Md.swap (x y : Md) : Md × Md := (⟨y.map, y.data⟩, ⟨x.map, x.data⟩)

/-- `mdarray::size()` of an array object: the loop over the extents — the container is not consulted -/
def Md.size (a : Md) : Nat := mdarraySize a.map.rank a.map.ext

/-- `mdarray::container_size()` -/
def Md.containerSize (a : Md) : Nat := a.data.length

/-- `mdarray(mapping[, value])` with `Container = std::array<T,N>`:
    `Impl::ContainerConstructionTraits<std::array<T,N>>::construct(size[, value])` asserts `size <= N` and returns all
    `N` elements (value-)initialised — the container may be larger than the required span -/
def Md.newArray (m : Mapping) (N : Nat) (v : Int := 0) : Option Md :=
  if m.requiredSpan ≤ N then some ⟨m, List.replicate N v⟩ else none

/-! ### views with an accessor policy -/

/-- a view as its readers see it: the mapping and what `accessor.access(data_handle, off)` yields for an offset
    (`none` = outside the storage); nothing is assumed about the accessor -/
structure View where
  map : Mapping
  acc : Nat → Option Int

/-- `operator()(ii...)` / `operator[]` of `mdspan`: `accessor_.access(data_handle_, mapping_(ii...))` -/
def View.get? (v : View) (I : Arr) : Option Int := v.acc (v.map.offset I)

/-- a view over flat storage through an accessor policy whose `access(p, i)` is `p[pos i]`
    (`default_accessor`: `pos = id`; an accessor viewing every second entry from `start`: `pos i = 2*i + start`) -/
structure AccView where
  map : Mapping
  pos : Nat → Nat
  data : List Int

def AccView.get? (a : AccView) (I : Arr) : Option Int := a.data[a.pos (a.map.offset I)]?

/-- assignment through the reference returned by the accessor -/
def AccView.set (a : AccView) (I : Arr) (v : Int) : AccView :=
  { a with data := a.data.set (a.pos (a.map.offset I)) v }

def AccView.toView (a : AccView) : View := ⟨a.map, fun i => a.data[a.pos i]?⟩

/-- the view of an array / a view with `default_accessor`: `access(p, i) = p[i]` -/
def Md.toView (a : Md) : View := ⟨a.map, fun i => a.data[i]?⟩

/-- `init_from_mdspan(other)`: nested loops over all index tuples, `container_[mapping_(ii...)] = other[ii...]`
    (`other[...]` goes through the accessor of the view) -/
def initFromView (a : Md) (other : View) (tuples : List (List Nat)) : Md :=
  tuples.foldl (fun acc t => match other.get? (arr t) with
    | some v => acc.set (arr t) v
    | none => acc) a

def initFromMdspan (a : Md) (other : Md) (tuples : List (List Nat)) : Md := initFromView a other.toView tuples

/-- `mdarray(const mdspan<…,Accessor>& other)`: `container_(construct_container(N))`, `mapping_(other.mapping())`,
    then copy — for a view with ANY accessor policy and an array of ANY layout (`m` = the converted mapping).  The element
    count `N` is what the member initialiser in mdarray.hh says (regenerated: `Gen.mdarray_from_mdspan_csize`), a function of
    the required span of the adopted mapping, the required span of the view's mapping and `other.size()` -/
def Md.fromView (m : Mapping) (other : View) : Md :=
  initFromView ⟨m, List.replicate (mdarray_from_mdspan_csize m.requiredSpan other.map.requiredSpan
    (mdSize other.map.rank other.map.ext)) 0⟩ other (allTuples (toList m.rank m.ext))

/-- `mdarray(const mdspan<…,Accessor>& other, const Alloc& a)`: `container_(N, a)` with the element count of that
    constructor's member initialiser (regenerated: `Gen.mdarray_from_mdspan_alloc_csize`) -/
def Md.fromViewAlloc (m : Mapping) (other : View) : Md :=
  initFromView ⟨m, List.replicate (mdarray_from_mdspan_alloc_csize m.requiredSpan other.map.requiredSpan
    (mdSize other.map.rank other.map.ext)) 0⟩ other (allTuples (toList m.rank m.ext))

/-- the same for a view with `default_accessor` over flat storage -/
def Md.fromMdspan (m : Mapping) (other : Md) : Md := Md.fromView m other.toView

/-! ### span.hh -/

/-- a span over some storage: position of `data()` in the storage and `size()` -/
structure Span where
  off : Nat
  size : Nat
  deriving Repr, DecidableEq

/-- the elements a span refers to -/
def Span.elems {α : Type} (s : Span) (mem : List α) : List α := (mem.drop s.off).take s.size

/-- `first(count)` / `first<Count>()`: `{data(), count}`; asserts `count <= size()` -/
def Span.first (s : Span) (count : Nat) : Option Span :=
  if count ≤ s.size then some ⟨s.off, count⟩ else none

/-- `last(count)`: `{data() + (size() - count), count}` -/
def Span.last (s : Span) (count : Nat) : Option Span :=
  if count ≤ s.size then some ⟨s.off + (s.size - count), count⟩ else none

/-- `subspan(offset, count)`, `count = none` is `dynamic_extent`:
    asserts `offset <= size() && (count == dynamic_extent || count <= size() - offset)`;
    `{data() + offset, count == dynamic_extent ? size() - offset : count}` -/
def Span.subspan (s : Span) (offset : Nat) (count : Option Nat) : Option Span :=
  match count with
  | none => if offset ≤ s.size then some ⟨s.off + offset, s.size - offset⟩ else none
  | some c => if offset ≤ s.size ∧ c ≤ s.size - offset then some ⟨s.off + offset, c⟩ else none

/-- the sub-view operations (run-time and template forms behave alike on offset and size) -/
inductive SpanOp where
  | first (count : Nat)
  | last (count : Nat)
  | sub (offset : Nat) (count : Option Nat)
  deriving Repr

def Span.apply (s : Span) : SpanOp → Option Span
  | .first c => s.first c
  | .last c => s.last c
  | .sub o c => s.subspan o c

/-- a history of sub-view operations, each applied to the result of the previous one; `none` as soon as an asserted
    precondition fails -/
def Span.run (s : Span) : List SpanOp → Option Span
  | [] => some s
  | op :: ops => match s.apply op with
    | some t => t.run ops
    | none => none

/-- `subspan_extent(O, C)` of a span with static extent `ext` (`none` = dynamic):
    `(C != dyn) ? C : (Extent != dyn) ? Extent - O : dyn` -/
def subspanExtent (ext : Option Nat) (o : Nat) (c : Option Nat) : Option Nat :=
  match c with
  | some c => some c
  | none => match ext with
    | some e => some (e - o)
    | none => none

/-- `at(i)`: throws `std::out_of_range` if `i >= size()` -/
def Span.at? {α : Type} (s : Span) (mem : List α) (i : Nat) : Option α :=
  if i < s.size then mem[s.off + i]? else none

/-! ### span.hh: the sub-view functions as regenerated from the source -/

/-- `Std::dynamic_extent` = `std::size_t(-1)` -/
def dynExt : Nat := 18446744073709551615

/-- a count / static extent argument as the C++ code sees it: `none` is `dynamic_extent` -/
def optNat (c : Option Nat) : Nat := c.getD dynExt

def natOpt (n : Nat) : Option Nat := if n = dynExt then none else some n

/-- the six sub-view member functions (run-time and template forms are separate functions in span.hh) -/
inductive SpanOpG where
  | first (count : Nat) | last (count : Nat) | sub (offset : Nat) (count : Option Nat)
  | tfirst (count : Nat) | tlast (count : Nat) | tsub (offset : Nat) (count : Option Nat)
  deriving Repr

/-- the abstract operation a member function implements -/
def SpanOpG.erase : SpanOpG → SpanOp
  | .first c => .first c
  | .last c => .last c
  | .sub o c => .sub o c
  | .tfirst c => .first c
  | .tlast c => .last c
  | .tsub o c => .sub o c

/-- `assert(pre); return span<…>{data() + off, size}` -/
def mkSub (s : Span) (pre : Bool) (off size : Nat) : Option Span :=
  if pre then some ⟨s.off + off, size⟩ else none

/-- one sub-view call on a span with static extent `ext` (`none` = dynamic), assembled from the regenerated pieces
    (`Gen.span_*_pre/_off/_size`, `Gen.span_subspan_extent`): the new static extent and the new span -/
def Span.applyG (ext : Option Nat) (s : Span) : SpanOpG → Option (Option Nat × Span)
  | .first c => (mkSub s (span_first_pre dynExt (optNat ext) s.size 0 c) (span_first_off dynExt (optNat ext) s.size 0 c)
      (span_first_size dynExt (optNat ext) s.size 0 c)).map fun t => (none, t)
  | .last c => (mkSub s (span_last_pre dynExt (optNat ext) s.size 0 c) (span_last_off dynExt (optNat ext) s.size 0 c)
      (span_last_size dynExt (optNat ext) s.size 0 c)).map fun t => (none, t)
  | .sub o c => (mkSub s (span_sub_pre dynExt (optNat ext) s.size o (optNat c)) (span_sub_off dynExt (optNat ext) s.size o (optNat c))
      (span_sub_size dynExt (optNat ext) s.size o (optNat c))).map fun t => (none, t)
  | .tfirst c => (mkSub s (span_tfirst_pre dynExt (optNat ext) s.size 0 c) (span_tfirst_off dynExt (optNat ext) s.size 0 c)
      (span_tfirst_size dynExt (optNat ext) s.size 0 c)).map fun t => (some c, t)
  | .tlast c => (mkSub s (span_tlast_pre dynExt (optNat ext) s.size 0 c) (span_tlast_off dynExt (optNat ext) s.size 0 c)
      (span_tlast_size dynExt (optNat ext) s.size 0 c)).map fun t => (some c, t)
  | .tsub o c => (mkSub s (span_tsub_pre dynExt (optNat ext) s.size o (optNat c)) (span_tsub_off dynExt (optNat ext) s.size o (optNat c))
      (span_tsub_size dynExt (optNat ext) s.size o (optNat c))).map fun t =>
        (natOpt (span_subspan_extent dynExt (optNat ext) o (optNat c)), t)

/-- a history of sub-view calls -/
def Span.runG (ext : Option Nat) (s : Span) : List SpanOpG → Option (Option Nat × Span)
  | [] => some (ext, s)
  | op :: ops => match s.applyG ext op with
    | some (e, t) => t.runG e ops
    | none => none

end DV.C14
