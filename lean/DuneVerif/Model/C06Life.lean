/-
C06 — object histories of `Dune::VariableSizeCommunicator` (variablesizecommunicator.hh: the four constructors, the
destructor, the copy constructor and `operator=`), core Lean only.

An object is its three data members: `maxBufferSize_`, `interface_` (a pointer to an `InterfaceMap`, here: the number of
the map it points to) and `communicator_` (an MPI communicator handle, here: a number).  MPI is a table of live handles:
`MPI_Comm_dup` hands out a handle that was never handed out before, `MPI_Comm_free` retires one; an MPI call that gets a
handle which is not live (never made, or freed) sets `fault`.  The handles `0 .. users-1` are the communicators the user
passes to the constructors (`MPI_COMM_WORLD`, `Interface::communicator()`, a communicator with another rank order …);
they are always valid and the class must never free them.  `origin c` is the user communicator a handle descends
from by duplication, i.e. the process group and rank numbering its messages use.

  constructors          `construct`  maxBufferSize_(size or the default), interface_(&map), MPI_Comm_dup(comm, &communicator_)
                                     (`comm` is the argument or `inf.communicator()`)
  ~VariableSizeCommunicator  `destroy`  MPI_Comm_free(&communicator_)
  copy constructor      `copy`       the two members taken over, MPI_Comm_dup(other.communicator_, &communicator_)
  operator=             `assign`     nothing if `this == &other`; else the two members taken over, the own communicator
                                     freed, MPI_Comm_dup(other.communicator_, &communicator_)
  forward/backward      `use`        point-to-point traffic on communicator_ (what is communicated: Model/C06.lean with
                                     `B := maxBufferSize`)

`default` is 32768, or the value of the macro DUNE_PARALLEL_MAX_COMMUNICATION_BUFFER_SIZE when that is defined (the
second pair of default constructors).  The value semantics the class is supposed to have (`specStep`: a copy or an
assignment takes over buffer size, map and process group of its source) is what the harness computes independently.
-/
namespace DV.C06

/-- the data members of a `VariableSizeCommunicator` -/
structure VscObj where
  maxBufferSize : Nat
  interface : Nat
  comm : Nat
deriving DecidableEq, Repr

/-- the objects of a program (by slot) and the MPI communicator table -/
structure World where
  slots : Nat → Option VscObj
  /-- number of user communicators (handles `0 .. users-1`) -/
  users : Nat
  nextComm : Nat
  liveComms : List Nat
  /-- the user communicator a handle was duplicated from, directly or through other duplicates -/
  origin : Nat → Nat
  fault : Bool

def World.init (users : Nat) : World := ⟨fun _ => none, users, users, [], id, false⟩

def setSlot {β : Type} (f : Nat → Option β) (s : Nat) (v : Option β) : Nat → Option β :=
  fun i => if i = s then v else f i

/-- is `c` a communicator an MPI call may be given? -/
def World.valid (w : World) (c : Nat) : Bool := decide (c < w.users) || w.liveComms.contains c

/-- `MPI_Comm_dup(c, &fresh)` -/
def World.dup (w : World) (c : Nat) : Nat × World :=
  (w.nextComm, { w with nextComm := w.nextComm + 1, liveComms := w.nextComm :: w.liveComms,
                        origin := fun d => if d = w.nextComm then w.origin c else w.origin d,
                        fault := w.fault || !w.valid c })

/-- `MPI_Comm_free(&c)` -/
def World.free (w : World) (c : Nat) : World :=
  { w with liveComms := w.liveComms.erase c, fault := w.fault || !w.liveComms.contains c }

inductive LifeOp where
  /-- one of the four constructors: `size = none` for the two without a buffer size argument; `user`: the communicator
      argument resp. the communicator of the `Interface` argument -/
  | construct (s : Nat) (size : Option Nat) (iface : Nat) (user : Nat)
  | copy (s t : Nat)
  | assign (s t : Nat)
  | destroy (s : Nat)
  | use (s : Nat)
deriving DecidableEq, Repr

/-- one statement of a program; `none`: the *program* is ill-formed (constructs into a used slot, names an empty slot) -/
def lifeStep (dflt : Nat) (w : World) : LifeOp → Option World
  | .construct s size iface user =>
    match w.slots s with
    | some _ => none
    | none =>
      if user < w.users then
        let (c, w) := w.dup user
        some { w with slots := setSlot w.slots s (some ⟨size.getD dflt, iface, c⟩) }
      else none
  | .copy s t =>
    match w.slots s, w.slots t with
    | none, some o =>
      let (c, w) := w.dup o.comm
      some { w with slots := setSlot w.slots s (some ⟨o.maxBufferSize, o.interface, c⟩) }
    | _, _ => none
  | .assign s t =>
    match w.slots s, w.slots t with
    | some me, some o =>
      if s = t then some w
      else
        let w := w.free me.comm
        let (c, w) := w.dup o.comm
        some { w with slots := setSlot w.slots s (some ⟨o.maxBufferSize, o.interface, c⟩) }
    | _, _ => none
  | .destroy s =>
    match w.slots s with
    | some me => let w := w.free me.comm; some { w with slots := setSlot w.slots s none }
    | none => none
  | .use s =>
    match w.slots s with
    | some me => some { w with fault := w.fault || !w.valid me.comm }
    | none => none

def lifeExec (dflt : Nat) : World → List LifeOp → Option World
  | w, [] => some w
  | w, op :: ops => (lifeStep dflt w op).bind (lifeExec dflt · ops)

/-! ### the value semantics: a slot holds (buffer size, map, user communicator) -/

abbrev SpecWorld := Nat → Option (Nat × Nat × Nat)

def specStep (users dflt : Nat) (σ : SpecWorld) : LifeOp → Option SpecWorld
  | .construct s size iface user =>
    match σ s with
    | some _ => none
    | none => if user < users then some (setSlot σ s (some (size.getD dflt, iface, user))) else none
  | .copy s t =>
    match σ s, σ t with
    | none, some v => some (setSlot σ s (some v))
    | _, _ => none
  | .assign s t =>
    match σ s, σ t with
    | some _, some v => some (setSlot σ s (some v))
    | _, _ => none
  | .destroy s =>
    match σ s with
    | some _ => some (setSlot σ s none)
    | none => none
  | .use s =>
    match σ s with
    | some _ => some σ
    | none => none

def specExec (users dflt : Nat) : SpecWorld → List LifeOp → Option SpecWorld
  | σ, [] => some σ
  | σ, op :: ops => (specStep users dflt σ op).bind (specExec users dflt · ops)

/-- what an object is configured with: buffer size, map, and the user communicator its private communicator copies -/
def objCfg (origin : Nat → Nat) (o : VscObj) : Nat × Nat × Nat := (o.maxBufferSize, o.interface, origin o.comm)
abbrev World.cfg (w : World) (o : VscObj) : Nat × Nat × Nat := objCfg w.origin o

end DV.C06
