/-
C20 — Python views of dense vectors agree with the C++ objects they wrap.

Executable model of the Python bindings of dune-common's dense vectors
(dune/python/common/{densevector,fvector,dynvector,vector,numpyvector,tuplevector,string}.hh,
python/dune/common/__init__.py).  Core Lean only.

Values are integer-valued doubles (`Int`); a vector's storage is a *block* of a shared store; a Python
object / NumPy view / tuple-vector entry denotes cells of a block, so aliasing is identity of blocks.

* plain vector operations (`vadd`, `vsub`, `vscale`, `vneg`, `vdot`, norms): what the C++ `DenseVector`
  operators compute on the entries;
* binding level (`construct`, `constructLoop`, `constructBuf`, `normIndex`, `getItem`, `setItem`, `pyIter`,
  `joinLoop`, `py…`): what the lambdas registered with pybind11 do (build an operand from a list, tuple or
  strided buffer, copy-then-`*=`, index normalisation, the legacy iteration protocol, string conversion, …);
* store level (`State`, `Eff`, `vecEff`, `tupStep`, `step`, `run`): short programs of bound operations over
  registers, the unit the correspondence check runs against the real bindings.  A vector operation is first
  turned into an *effect* (`vecEff`: which cells are written / which register is bound to which block) and the
  effect is then applied to the store (`Eff.apply`); the invariant proofs treat the two halves separately.
-/
namespace DV.C20

/-! ## errors -/

inductive Err where
  | index | value | type | runtime
  deriving DecidableEq, Repr

def Err.show : Err → String
  | .index => "ERR:Index"
  | .value => "ERR:Value"
  | .type => "ERR:Type"
  | .runtime => "ERR:Runtime"

/-! ## plain vector operations: the C++ operators on the entries -/

def vadd (a b : List Int) : List Int := List.zipWith (· + ·) a b
def vsub (a b : List Int) : List Int := List.zipWith (· - ·) a b
def vscale (k : Int) (a : List Int) : List Int := a.map (· * k)
def vneg (a : List Int) : List Int := a.map (fun e => -e)
def vaddScalar (k : Int) (a : List Int) : List Int := a.map (· + k)
def vsubScalar (k : Int) (a : List Int) : List Int := a.map (· - k)
def vdivExact (k : Int) (a : List Int) : List Int := a.map (· / k)
def vdot (a b : List Int) : Int := (List.zipWith (· * ·) a b).foldl (· + ·) 0
def iabs (e : Int) : Int := (e.natAbs : Int)
def oneNorm (a : List Int) : Int := a.foldl (fun s e => s + iabs e) 0
def infNorm (a : List Int) : Int := a.foldl (fun m e => max m (iabs e)) 0
def twoNorm2 (a : List Int) : Int := a.foldl (fun s e => s + e * e) 0

/-! ## binding level -/

/-- the specification of construction from a sequence: the first `n` numbers, zero-filled -/
def construct (n : Nat) (xs : List Int) : List Int := (xs ++ List.replicate n 0).take n

/-- what `registerFieldVector`'s list/tuple/args constructors (and `copy(*args)`) do:
    `FV *self = new FV(K(0)); for (i = 0; i < min(size, x.size()); ++i) (*self)[i] = x[i];` -/
def constructLoop (n : Nat) (xs : List Int) : List Int :=
  (List.range (min n xs.length)).foldl (fun acc i => acc.set i (xs.getD i 0)) (List.replicate n 0)

/-- entry `j` of a one-dimensional buffer whose first entry is cell `off` and whose consecutive entries are `stride`
    cells apart (the specification: which number a buffer shows at position `j`) -/
def bufEntry (mem : List Int) (off stride : Int) (j : Nat) : Int := mem.getD (off + (j : Int) * stride).toNat 0

/-! ### byte addresses: what the buffer protocol hands to the bindings

The buffer protocol (`pybind11::buffer_info`) describes a one-dimensional buffer by the address of its first entry, the
number of entries and the distance between consecutive entries **in bytes**.  That distance need not be a multiple of the
item size: the doubles may be one field of packed records (`rec["x"]` of a structured NumPy array, `as_strided`). -/

/-- how the numbers of a buffer object lie in its allocation: cell `c` starts at byte `rsz*c + fo` (`rsz` = bytes per
    record, `fo` = offset of the field inside the record).  A plain array of doubles: `rsz = 8`, `fo = 0`. -/
structure MemLay where
  rsz : Nat := 8
  fo : Nat := 0
  deriving DecidableEq, Repr

/-- byte address (relative to the allocation) of cell `c` -/
def MemLay.addr (m : MemLay) (c : Int) : Int := (m.rsz : Int) * c + (m.fo : Int)

/-- the cell that starts at byte address `a`; `none`: no number starts there (the bytes at `a` belong to other fields,
    to padding, or to two neighbouring numbers) -/
def MemLay.cellAt (m : MemLay) (a : Int) : Option Int :=
  if m.rsz = 0 then none
  else if (a - (m.fo : Int)) % (m.rsz : Int) = 0 then some ((a - (m.fo : Int)) / (m.rsz : Int)) else none

/-- the number read at byte address `a` -/
def MemLay.load (m : MemLay) (mem : List Int) (a : Int) : Int :=
  match m.cellAt a with
  | some c => mem.getD c.toNat 0
  | none => 0

/-- `pybind11::buffer_info` of a one-dimensional buffer: `ptr`, `strides[0]` (bytes), `shape[0]` -/
structure BufInfo where
  ptr : Int
  stride : Int
  shape : Nat
  deriving DecidableEq, Repr

/-- the buffer_info of the buffer that shows `len` cells of an object with layout `m`, first cell `off`, `step` cells apart -/
def bufInfo (m : MemLay) (off step : Int) (len : Nat) : BufInfo :=
  { ptr := m.addr off, stride := (m.rsz : Int) * step, shape := len }

/-- `NumPyVector::entry(i)` and NumPy's own indexing: `(char*)ptr + i*stride` -/
def entryAddr (b : BufInfo) (i : Nat) : Int := b.ptr + (i : Int) * b.stride

/-- addressing in whole items of `w` bytes, `static_cast<K*>(ptr)[i * (stride / sizeof(K))]` (the buffer constructor of
    `registerFieldVector`; C++ `/` truncates) -/
def elemAddr (w : Nat) (b : BufInfo) (i : Nat) : Int := b.ptr + (w : Int) * ((i : Int) * (b.stride.tdiv (w : Int)))

/-- NumPy's `aligned` flag for items of alignment `w` (the allocation itself is aligned): an array without entries is
    aligned; otherwise the first entry's address and, with more than one entry, the stride must be multiples of `w`.
    NumPy exports the buffer format `d` only for aligned arrays of native doubles (`=d` otherwise). -/
def BufInfo.aligned (w : Nat) (b : BufInfo) : Bool :=
  b.shape == 0 || (b.ptr % (w : Int) == 0 && (decide (b.shape ≤ 1) || b.stride % (w : Int) == 0))

/-- what `registerFieldVector`'s buffer constructor does (after the format check accepted the buffer):
    `stride = info.strides[0] / sizeof(K); sz = min(size, info.shape[0]); FV *self = new FV(K(0));`
    `for (i = 0; i < sz; ++i) (*self)[i] = static_cast<K*>(info.ptr)[i*stride];` -/
def constructBuf (n : Nat) (mem : List Int) (m : MemLay) (b : BufInfo) : List Int :=
  (List.range (min n b.shape)).foldl (fun acc i => acc.set i (m.load mem (elemAddr 8 b i))) (List.replicate n 0)

/-- `registerDynamicVector`'s list constructor: `DV *self = new DV(size, K(0)); for (i < size) (*self)[i] = x[i];` -/
def dynConstructLoop (xs : List Int) : List Int :=
  (List.range xs.length).foldl (fun acc i => acc.set i (xs.getD i 0)) (List.replicate xs.length 0)

/-- `registerDenseVector`'s index normalisation (Python semantics): `if (i < 0) i += size;`
    `if (i < 0 || i >= size) throw index_error();`  (a Python int that does not fit into `ssize_t` reaches the
    second overload, which throws `index_error` as well: the result is `none` for every such `i` anyway) -/
def normIndex (n : Nat) (i : Int) : Option Nat :=
  let j := if i < 0 then i + (n : Int) else i
  if j < 0 ∨ j ≥ (n : Int) then none else some j.toNat

def getItem (v : List Int) (i : Int) : Except Err Int :=
  match normIndex v.length i with
  | none => .error .index
  | some p => .ok (v.getD p 0)

def setItem (v : List Int) (i : Int) (x : Int) : Except Err (List Int) :=
  match normIndex v.length i with
  | none => .error .index
  | some p => .ok (v.set p x)

/-- Python's iteration over an object that has `__getitem__` but no `__iter__` (the dense vectors): call
    `__getitem__(0)`, `__getitem__(1)`, … until `IndexError`.  `fuel` bounds the number of calls. -/
def iterFrom (v : List Int) : Nat → Nat → List Int
  | _, 0 => []
  | i, fuel + 1 =>
    match getItem v (i : Int) with
    | .ok x => x :: iterFrom v (i + 1) fuel
    | .error _ => []

def pyIter (v : List Int) : List Int := iterFrom v 0 (v.length + 1)

/-- `Dune::Python::join` (string.hh): `for (s = f(*begin++); begin != end; s += f(*begin++)) s += delimiter;` -/
def joinLoop (d : String) : List String → String
  | [] => ""
  | x :: xs => xs.foldl (fun s y => s ++ d ++ y) x

/-- `to_string(FieldVector)` / DynamicVector's `__repr__` body: `"(" + join(", ", entries) + ")"`; the entries are
    printed canonically (integer-valued doubles) -/
def pyStr (v : List Int) : String := "(" ++ joinLoop ", " (v.map toString) ++ ")"

/-- `__neg__`: `T *copy = new T(self); *copy *= ValueType(-1);` -/
def pyNeg (v : List Int) : List Int := vscale (-1) v
/-- `__add__(self, list x)`: `self + x.cast<T>()` (the cast goes through the list constructor) -/
def pyAddList (n : Nat) (v L : List Int) : List Int := vadd v (constructLoop n L)
def pySubList (n : Nat) (v L : List Int) : List Int := vsub v (constructLoop n L)
/-- `__radd__(self, list x)`: `x.cast<T>() + self` -/
def pyRaddList (n : Nat) (L v : List Int) : List Int := vadd (constructLoop n L) v
/-- `__rsub__(self, list x)`: `x.cast<T>() - self` -/
def pyRsubList (n : Nat) (L v : List Int) : List Int := vsub (constructLoop n L) v
/-- `__mul__/__rmul__(self, ValueType x)`: copy, `*copy *= x` -/
def pyMul (v : List Int) (k : Int) : List Int := vscale k v
/-- `__rsub__(self, int 0)` for vectors of dimension > 1: copy, `*copy *= ValueType(-1)` -/
def pyRsubZero (v : List Int) : List Int := vscale (-1) v
/-- `registerScalarCopyingDenseVectorMethods` for `FieldVector<K,1>`: `__add__`, `__sub__`, `__radd__`, `__rsub__`
    with an `int` or a `ValueType`: `(*copy)[0] += a`, `-= a`, `= a + (*copy)[0]`, `= a - (*copy)[0]` -/
def pyScalar (isSub reflected : Bool) (c a : Int) : Int :=
  match isSub, reflected with
  | false, false => c + a
  | true, false => c - a
  | false, true => a + c
  | true, true => a - c

/-! ## Python slices (CPython's `PySlice_AdjustIndices`, used by the NumPy view the bindings hand out) -/

def adjust (n : Int) (neg : Bool) (v : Option Int) (dflt : Int) : Int :=
  match v with
  | none => dflt
  | some v =>
    if v < 0 then
      let w := v + n
      if w < 0 then (if neg then -1 else 0) else w
    else if v ≥ n then (if neg then n - 1 else n) else v

/-- `(start, length)` of `range(n)[i:j:st]`, `st ≠ 0` -/
def sliceIdx (n : Nat) (i j : Option Int) (st : Int) : Int × Nat :=
  let neg := decide (st < 0)
  let N : Int := n
  let start := adjust N neg i (if neg then N - 1 else 0)
  let stop := adjust N neg j (if neg then -1 else N)
  let len : Nat :=
    if neg then (if stop < start then ((start - stop - 1) / (-st) + 1).toNat else 0)
    else (if start < stop then ((stop - start - 1) / st + 1).toNat else 0)
  (start, len)

/-! ## store -/

/-- a NumPy array / `array.array` register: which cells of which block it shows.  `dt` is the element type of the
    buffer object: 0 = double (the only type a `NumPyVector<double>` or FieldVector shares memory with), 1 … 7 = int64,
    int32, int16, int8, uint8, uint16, float32, 8 = read-only doubles, 9 = doubles in the other byte order.  `lay`: how the
    cells lie in the bytes of the allocation. -/
structure View where
  blk : Nat
  off : Int
  step : Int
  len : Nat
  dt : Nat := 0
  lay : MemLay := {}
  deriving Repr, DecidableEq

inductive Slot where
  | d (v : Int)       -- a Python float / C++ double
  | i (v : Int)       -- a Python int / C++ int
  | f (blk : Nat)     -- a FieldVector: its cells
  deriving Repr

inductive SlotTy where
  | d | i | f (n : Nat)
  deriving DecidableEq, Repr

inductive Kind where
  | fv (n : Nat)
  | dyn
  | tup (shape : List SlotTy) (byRef : Bool)
  deriving Repr

structure State where
  blocks : List (List Int) := []
  xs : Nat → Option Nat := fun _ => none
  arrs : Nat → Option View := fun _ => none
  ts : Nat → Option (List Slot) := fun _ => none
  ss : Nat → Option (List Slot) := fun _ => none

def upd {α} (f : Nat → α) (i : Nat) (v : α) : Nat → α := fun j => if j = i then v else f j

def State.read (s : State) (b : Nat) : List Int := s.blocks.getD b []
def State.write (s : State) (b : Nat) (v : List Int) : State := { s with blocks := s.blocks.set b v }
/-- a fresh block -/
def State.alloc (s : State) (v : List Int) : State × Nat :=
  ({ s with blocks := s.blocks ++ [v] }, s.blocks.length)

def State.bindX (s : State) (x b : Nat) : State := { s with xs := upd s.xs x (some b) }
def State.bindA (s : State) (a : Nat) (v : View) : State := { s with arrs := upd s.arrs a (some v) }

/-- what the buffer protocol reports of a view -/
def View.info (v : View) : BufInfo := bufInfo v.lay v.off v.step v.len

/-- position in the block of entry `j` of a view: NumPy and `NumPyVector::entry` address it in bytes, `ptr + j*stride`;
    the position is the cell that starts there (`View.pos_eq`: cell `off + j*step`, whatever the record size) -/
def View.pos (v : View) (j : Nat) : Nat :=
  match v.lay.cellAt (entryAddr v.info j) with
  | some c => c.toNat
  | none => 0

def State.viewVals (s : State) (v : View) : List Int :=
  (List.range v.len).map fun j => (s.read v.blk).getD (v.pos j) 0

/-- write `vals` through a view, entry by entry -/
def State.viewWrite (s : State) (v : View) (vals : List Int) : State :=
  (List.range (min v.len vals.length)).foldl
    (fun st j => st.write v.blk ((st.read v.blk).set (v.pos j) (vals.getD j 0))) s

def fullView (b n : Nat) : View := { blk := b, off := 0, step := 1, len := n }

def BOUND : Int := 16777216
def IBOUND : Int := 1099511627776
def TWO63 : Int := 9223372036854775808
def TWO64 : Int := 18446744073709551616

def okVals (l : List Int) : Bool := l.all fun e => decide (iabs e ≤ BOUND)
def okInt (k : Int) : Bool := decide (iabs k ≤ BOUND)
def okIdx (i : Int) : Bool := decide (iabs i ≤ IBOUND)

def showInts (l : List Int) : String := "[" ++ ",".intercalate (l.map toString) ++ "]"
def showBool (b : Bool) : String := if b then "true" else "false"

/-! ## effects: what a bound vector operation does to the store -/

inductive Eff where
  | obs (o : String)                           -- nothing changes
  | newX (x : Nat) (v : List Int)              -- a new vector object holding `v`, bound to register `x`
  | aliasX (x b : Nat)                         -- register `x` now names the existing vector with cells `b`
  | writeB (b : Nat) (v : List Int)            -- the cells `b` of a vector are overwritten with `v`
  | bindA (a : Nat) (v : View)                 -- array register `a` becomes a view of existing cells
  | newA (a : Nat) (v : List Int)              -- array register `a` becomes a fresh array holding `v`
  | newAV (a : Nat) (mem : List Int) (off step : Int) (len dt : Nat) (m : MemLay)
                                               -- … a fresh buffer object with memory `mem` (layout `m`), shown through a strided view
  | writeCell (v : View) (p : Nat) (k : Int)   -- entry `p` of a view is written
  | writeView (v : View) (vals : List Int)     -- all entries of a view are written
  deriving Repr

def Eff.apply (s : State) : Eff → State × String
  | .obs o => (s, o)
  | .newX x v => ((s.alloc v).1.bindX x (s.alloc v).2, showInts v)
  | .aliasX x b => (s.bindX x b, showInts (s.read b))
  | .writeB b v => (s.write b v, showInts v)
  | .bindA a v => (s.bindA a v, showInts (s.viewVals v))
  | .newA a v => ((s.alloc v).1.bindA a (fullView (s.alloc v).2 v.length), showInts v)
  | .newAV a mem off step len dt m =>
    ((s.alloc mem).1.bindA a { blk := (s.alloc mem).2, off := off, step := step, len := len, dt := dt, lay := m },
     showInts ((s.alloc mem).1.viewVals { blk := (s.alloc mem).2, off := off, step := step, len := len, dt := dt, lay := m }))
  | .writeCell v p k =>
    ((s.write v.blk ((s.read v.blk).set (v.pos p) k)),
     showInts ((s.write v.blk ((s.read v.blk).set (v.pos p) k)).viewVals v))
  | .writeView v vals => (s.viewWrite v vals, showInts ((s.viewWrite v vals).viewVals v))

/-! ## programs -/

/-- how a vector is constructed; `buf s`: from a one-dimensional buffer of doubles with stride `s` (NumPy array,
    strided / reversed NumPy view, `array.array`); `badbuf`: a buffer the constructor must reject (wrong item type,
    two-dimensional) -/
inductive CtorHow where
  | list | tuple | args | buf (s : Int) (m : MemLay) | zero | fac | ilist | ituple | iargs
  | badbuf (dt : Nat)      -- a buffer the constructor must reject: element type `dt` ≠ double (or two-dimensional: `dt = 0`)
  | nakind                 -- a combination of element type and layout that does not exist (strided `array.array`)
  deriving DecidableEq, Repr

/-- memory layouts of the buffer objects the harness builds: contiguous, every 2nd entry, a column of a 2-d array
    (every 3rd entry), reversed, reversed every 2nd entry; `q R fo neg k`: one field (byte offset `fo`) of packed records
    of `R` bytes, every `(k+1)`-th record, walked backwards when `neg` -/
inductive Lay where
  | c | s2 | col | r | r2
  | q (R fo : Nat) (neg : Bool) (k : Nat)
  deriving DecidableEq, Repr

/-- distance of consecutive entries in cells (records) -/
def Lay.stride : Lay → Int
  | .c => 1
  | .s2 => 2
  | .col => 3
  | .r => -1
  | .r2 => -2
  | .q _ _ neg k => if neg then -((k + 1 : Nat) : Int) else ((k + 1 : Nat) : Int)

def Lay.memLay : Lay → MemLay
  | .q R fo _ _ => { rsz := R, fo := fo }
  | _ => {}

/-- item size in bytes of the element types -/
def dtSize (dt : Nat) : Nat :=
  match dt with
  | 2 | 7 => 4
  | 3 | 6 => 2
  | 4 | 5 => 1
  | _ => 8

/-- a field of element type `dt` fits into the records of the layout -/
def Lay.fits (lay : Lay) (dt : Nat) : Bool :=
  match lay with
  | .q R fo _ _ => decide (fo + dtSize dt ≤ R)
  | _ => true

/-- the numbers an element type can hold (beyond the global bound on exactly representable entries) -/
def dtOk (dt : Nat) (e : Int) : Bool :=
  match dt with
  | 3 => decide (-32768 ≤ e ∧ e ≤ 32767)
  | 4 => decide (-128 ≤ e ∧ e ≤ 127)
  | 5 => decide (0 ≤ e ∧ e ≤ 255)
  | 6 => decide (0 ≤ e ∧ e ≤ 65535)
  | _ => true

/-- Python kind of an operand standing for a vector -/
inductive OKind where
  | list | tuple | buf (s : Int)
  deriving DecidableEq, Repr

inductive OStat where
  | ok | type | na
  deriving DecidableEq, Repr

inductive SOp where
  | add | sub | mul | div
  deriving DecidableEq, Repr

inductive VOp where
  | new (x : Nat) (how : CtorHow) (L : List Int)
  | copy (x y : Nat) | mcopy (x y : Nat) | mcopya (x y : Nat) (L : List Int) | alias (x y : Nat)
  | binvv (isSub : Bool) (x y z : Nat)
  | binvl (isSub reflected : Bool) (ok : OKind) (x y : Nat) (L : List Int)
  | scal (which : SOp) (isInt : Bool) (x y : Nat) (k : Int)          -- mul, rmul, div, __div__
  | neg (x y : Nat)
  | intscal (isSub reflected isFloat : Bool) (x y : Nat) (k : Int)
  | inplaceV (isSub : Bool) (x y : Nat)
  | inplaceL (isSub : Bool) (ok : OKind) (x : Nat) (L : List Int)
  | inplaceS (which : SOp) (x : Nat) (k : Int)
  | assign (x y : Nat)
  | assignL (ok : OKind) (x : Nat) (L : List Int)
  | set (npidx : Bool) (x : Nat) (i k : Int)
  | get (npidx : Bool) (x : Nat) (i : Int)
  | len (x : Nat) | iter (x : Nat) | str (x : Nat)
  | slice (x : Nat) (i j s : Option Int)
  | cmpv (neg : Bool) (x y : Nat)
  | cmpl (neg : Bool) (ok : OKind) (x : Nat) (L : List Int)
  | norms (x : Nat) | dot (x y : Nat) | dotl (ok : OKind) (x : Nat) (L : List Int) | float (x : Nat)
  | view (a x : Nat) | npcopy (a x : Nat) | sl (a x : Nat) (i j s : Option Int)
  | aget (a : Nat) (i : Int) | aset (a : Nat) (i k : Int) | alist (a : Nat)
  | nscale (a : Nat) (k : Int) | nset (a : Nat) (i k : Int) | nget (a : Nat) (i : Int) | nnorms (a : Nat)
  | naxpy (a : Nat) (k : Int) (b : Nat) | nadd (a b : Nat) | nnew (a b : Nat) (k : Int) | nint (a : Nat) (k : Int) | nrun (a : Nat)
  | ndt (a b : Nat) (dt : Nat) (lay : Lay) (special : Bool) | nvscale (x : Nat) (k : Int)
  deriving Repr

inductive TOp where
  | tnew (t : Nat) (V : List Int)
  | tlen (t : Nat) | tget (t : Nat) (i : Int) | tlist (t : Nat)
  | tsetd (t : Nat) (i k : Int) | tseti (t : Nat) (i k : Int) | tsetf (t : Nat) (i : Int) (L : List Int)
  | elem (src : Bool) (t : Nat) (i j k : Int)
  | tcopy (t u : Nat) | tassign (t u : Nat)
  deriving Repr

inductive Op where
  | v (o : VOp)
  | t (o : TOp)
  deriving Repr

/-- sizes of `FieldVector<double,n>` the harness builds just in time -/
def fvSizes : List Nat := [1, 2, 3, 4, 5, 6, 9]
/-- sizes of the precompiled `FieldVector<double,n>` classes (python/dune/common/registerfvector.cc) -/
def fvSizesPre : List Nat := [0, 1, 2, 3, 4, 5, 6, 7, 8, 9, 10, 11, 12, 13, 14]

def Kind.isVec : Kind → Bool
  | .tup _ _ => false
  | _ => true
def Kind.isFv : Kind → Bool
  | .fv _ => true
  | _ => false
def Kind.isTup : Kind → Bool
  | .tup _ _ => true
  | _ => false
/-- `FieldVector<K,1>`: the only vectors with scalar `+ - int` arithmetic -/
def Kind.scalarMode : Kind → Bool
  | .fv 1 => true
  | _ => false

/-- the memory the harness lays a strided operand out in: an array filled with 77 in which entry `j` of the operand
    sits at `off + j*s`; returns `(memory, off)` -/
def stridedMem (s : Int) (L : List Int) : List Int × Int :=
  let size := max 1 (L.length * s.natAbs)
  let off : Int := if s < 0 then (size : Int) - 1 else 0
  ((List.range L.length).foldl (fun m (j : Nat) => m.set (off + (j : Int) * s).toNat (L.getD j 0)) (List.replicate size 77), off)

/-- how the bindings treat an operand of a given Python kind standing for a vector: converted through a constructor
    (`ok`), rejected with `TypeError` (`type`), or not an operation of the bindings at all (`na`: NumPy takes over) -/
def operandStatus (kd : Kind) (ok : OKind) (reflected : Bool) : OStat :=
  match ok with
  | .list => .ok
  | .tuple => if !kd.isFv || reflected then .type else .ok
  | .buf _ => if kd.isFv && !reflected then .ok else .na

/-- the vector an operand turns into: for FieldVector through the list / tuple / buffer constructor, for DynamicVector
    (lists only) through its list constructor -/
def Kind.operand (kd : Kind) (ok : OKind) (L : List Int) : List Int :=
  match kd, ok with
  | .fv n, .buf s => constructBuf n (stridedMem s L).1 {} (bufInfo {} (stridedMem s L).2 s L.length)
  | .fv n, _ => constructLoop n L
  | _, _ => dynConstructLoop L

def Kind.construct (kd : Kind) (L : List Int) : List Int := kd.operand .list L

def applySOp (w : SOp) (p q : Int) : Int :=
  match w with
  | .add => p + q
  | .sub => p - q
  | .mul => p * q
  | .div => p / q

/-- two views of one block that enumerate the same cells in the same order -/
def sameSeq (a b : View) : Bool :=
  a.len == b.len && (a.len == 0 || (a.off == b.off && (a.len == 1 || a.step == b.step)))

def effNa : Eff := .obs "na"
def effUnbound : Eff := .obs "unbound"
def effSkip : Eff := .obs "skip"

/-- result of an operation that yields a new vector `R` for register `x` (skipped when an entry leaves the exact range) -/
def effNew (x : Nat) (R : List Int) : Eff := if !okVals R then effSkip else .newX x R
/-- result of an in-place operation on the cells `b` -/
def effWrite (b : Nat) (R : List Int) : Eff := if !okVals R then effSkip else .writeB b R

/-- a writing operation of a `NumPyVector<double>` over the buffer object shown by `v` that leaves the numbers `R` in the
    vector: a buffer of doubles is shared (the cells are written); of a buffer of another element type the vector holds
    a converted copy (the write is seen through the vector — its one norm — but never reaches the buffer); a read-only
    buffer is rejected -/
def nvWrite (s : State) (v : View) (R : List Int) : Eff :=
  if v.dt == 8 then .obs Err.value.show
  else if v.dt != 0 then .obs ("w:" ++ toString (oneNorm R) ++ ":" ++ showInts (s.viewVals v))
  else .writeView v R

/-- the same for `x[p] = k` -/
def nvWriteCell (s : State) (v : View) (p : Nat) (k : Int) : Eff :=
  if v.dt == 8 then .obs Err.value.show
  else if v.dt != 0 then .obs ("w:" ++ toString (oneNorm ((s.viewVals v).set p k)) ++ ":" ++ showInts (s.viewVals v))
  else .writeCell v p k

/-- the effect of one bound vector operation (`kd` is `fv n` or `dyn`) -/
def vecEff (kd : Kind) (s : State) : VOp → Eff
  | .new x how L =>
    match kd, how with
    | _, .nakind => effNa
    | .dyn, .args | .dyn, .iargs | .dyn, .fac => effNa
    | .dyn, how =>
      if !okVals L then effSkip else
      match how with
      | .list | .ilist => .newX x (dynConstructLoop L)
      | .zero => .newX x []
      | .badbuf dt => if !L.all (dtOk dt) then effSkip else .obs Err.type.show
      | _ => .obs Err.type.show
    | .fv n, how =>
      if !okVals L then effSkip
      else if how == .fac && L.length != n then effSkip
      else match how with
        | .badbuf dt => if !L.all (dtOk dt) then effSkip else .obs Err.value.show
        | .buf st m =>
          -- a buffer NumPy does not call aligned is exported with the format `=d`: rejected by the format check (the harness
          -- accepts a rejection or exactly the buffer's numbers, and binds nothing)
          if !(bufInfo m (stridedMem st L).2 st L.length).aligned 8 then .obs "unaligned-ok"
          else .newX x (constructBuf n (stridedMem st L).1 m (bufInfo m (stridedMem st L).2 st L.length))
        | _ => .newX x (constructLoop n L)
    | _, _ => effNa
  | .copy x y | .mcopy x y =>
    if !kd.isFv then effNa else
    match s.xs y with
    | none => effUnbound
    | some b => .newX x (s.read b)
  | .mcopya x y L =>
    if !kd.isFv then effNa else
    match s.xs y with
    | none => effUnbound
    | some b =>
      if !okVals L then effSkip
      else if L.isEmpty then .newX x (s.read b) else .newX x (kd.construct L)
  | .alias x y =>
    match s.xs y with
    | none => effUnbound
    | some b => .aliasX x b
  | .binvv isSub x y z =>
    match s.xs y, s.xs z with
    | some by_, some bz =>
      let A := s.read by_
      let B := s.read bz
      if A.length != B.length then effSkip else
      effNew x (if isSub then vsub A B else vadd A B)
    | _, _ => effUnbound
  | .binvl isSub reflected ok x y L =>
    match operandStatus kd ok reflected with
    | .na => effNa
    | st =>
      match s.xs y with
      | none => effUnbound
      | some by_ =>
        let A := s.read by_
        if !okVals L then effSkip
        else if !kd.isFv && L.length != A.length then effSkip else
        let B := kd.operand ok L
        let R := match isSub, reflected with
          | false, false => vadd A B
          | true, false => vsub A B
          | false, true => vadd B A
          | true, true => vsub B A
        if !okVals R then effSkip
        else if st == .type then .obs Err.type.show
        else .newX x R
  | .scal w isInt x y k =>
    match s.xs y with
    | none => effUnbound
    | some by_ =>
      let A := s.read by_
      if !okInt k then effSkip else
      match w with
      | .div =>
        if k == 0 || A.any (fun e => e % k != 0) then effSkip else effNew x (vdivExact k A)
      | _ =>
        let R := pyMul A k
        if !okVals R then effSkip
        -- FieldVector<K,1> * int: the int converts to a vector, the product is the dot product (a float)
        else if isInt && kd.scalarMode then .obs ("f:" ++ toString (vdot A [k]))
        else .newX x R
  | .neg x y =>
    match s.xs y with
    | none => effUnbound
    | some by_ => effNew x (pyNeg (s.read by_))
  | .intscal isSub reflected isFloat x y k =>
    match s.xs y with
    | none => effUnbound
    | some by_ =>
      let A := s.read by_
      if !okInt k then effSkip else
      if kd.scalarMode then effNew x [pyScalar isSub reflected (A.getD 0 0) k]
      else if isFloat then .obs Err.type.show
      else if k != 0 then .obs Err.value.show
      else if isSub && reflected then .newX x (pyRsubZero A)
      else .aliasX x by_
  | .inplaceV isSub x y =>
    match s.xs x, s.xs y with
    | some bx, some by_ =>
      let A := s.read bx
      let B := s.read by_
      if A.length != B.length then effSkip else
      effWrite bx (if isSub then vsub A B else vadd A B)
    | _, _ => effUnbound
  | .inplaceL isSub ok x L =>
    match s.xs x with
    | none => effUnbound
    | some bx =>
      match operandStatus kd ok false with
      | .na => effNa
      | st =>
        let A := s.read bx
        if !okVals L then effSkip
        else if !kd.isFv && L.length != A.length then effSkip else
        let B := kd.operand ok L
        let R := if isSub then vsub A B else vadd A B
        if !okVals R then effSkip
        else if st == .type then .obs Err.type.show
        else .writeB bx R
  | .inplaceS w x k =>
    match s.xs x with
    | none => effUnbound
    | some bx =>
      let A := s.read bx
      if !okInt k then effSkip else
      match w with
      | .add => effWrite bx (vaddScalar k A)
      | .sub => effWrite bx (vsubScalar k A)
      | .mul => effWrite bx (vscale k A)
      | .div => if k == 0 || A.any (fun e => e % k != 0) then effSkip else effWrite bx (vdivExact k A)
  | .assign x y =>
    match s.xs x, s.xs y with
    | some bx, some by_ => .writeB bx (s.read by_)
    | _, _ => effUnbound
  | .assignL ok x L =>
    match operandStatus kd ok false with
    | .na => effNa
    | st =>
      match s.xs x with
      | none => effUnbound
      | some bx =>
        if !okVals L then effSkip
        else if st == .type then .obs Err.type.show
        else .writeB bx (kd.operand ok L)
  | .set npidx x i k =>
    match s.xs x with
    | none => effUnbound
    | some bx =>
      if !okInt k then effSkip
      else if npidx && (i < -TWO63 || i ≥ TWO63) then effSkip else
      match setItem (s.read bx) i k with
      | .error e => .obs e.show
      | .ok v => .writeB bx v
  | .get npidx x i =>
    match s.xs x with
    | none => effUnbound
    | some bx =>
      if npidx && (i < -TWO63 || i ≥ TWO63) then effSkip else
      match getItem (s.read bx) i with
      | .error e => .obs e.show
      | .ok v => .obs (toString v)
  | .len x =>
    match s.xs x with
    | none => effUnbound
    | some bx => .obs (toString (s.read bx).length)
  | .iter x =>
    match s.xs x with
    | none => effUnbound
    | some bx => .obs (showInts (pyIter (s.read bx)))
  | .str x =>
    match s.xs x with
    | none => effUnbound
    | some bx => .obs (pyStr (s.read bx))
  | .slice x i j st =>
    if !kd.isFv then effNa else
    match s.xs x with
    | none => effUnbound
    | some bx =>
      let stp := st.getD 1
      if stp == 0 then effSkip else
      let r := sliceIdx (s.read bx).length i j stp
      .obs (showInts (s.viewVals { blk := bx, off := r.1, step := stp, len := r.2 }))
  | .cmpv neg x y =>
    match s.xs x, s.xs y with
    | some bx, some by_ =>
      let A := s.read bx
      let B := s.read by_
      if A.length != B.length then effSkip else .obs (showBool ((A == B) != neg))
    | _, _ => effUnbound
  | .cmpl neg ok x L =>
    match operandStatus kd ok false with
    | .ok =>
      match s.xs x with
      | none => effUnbound
      | some bx =>
        let A := s.read bx
        if !okVals L then effSkip
        else if !kd.isFv && L.length != A.length then effSkip
        else .obs (showBool ((A == kd.operand ok L) != neg))
    | _ => effNa
  | .norms x =>
    match s.xs x with
    | none => effUnbound
    | some bx => let A := s.read bx; .obs (showInts [oneNorm A, infNorm A, twoNorm2 A])
  | .dot x y =>
    match s.xs x, s.xs y with
    | some bx, some by_ =>
      let A := s.read bx
      let B := s.read by_
      if A.length != B.length then effSkip else .obs (toString (vdot A B))
    | _, _ => effUnbound
  | .dotl ok x L =>
    match operandStatus kd ok false with
    | .na => effNa
    | st =>
      match s.xs x with
      | none => effUnbound
      | some bx =>
        let A := s.read bx
        if !okVals L then effSkip
        else if !kd.isFv && L.length != A.length then effSkip
        else if st == .type then .obs Err.type.show
        else .obs (toString (vdot A (kd.operand ok L)))
  | .float x =>
    if !kd.scalarMode then effNa else
    match s.xs x with
    | none => effUnbound
    | some bx => .obs (toString ((s.read bx).getD 0 0))
  | .view a x =>
    if !kd.isFv then effNa else
    match s.xs x with
    | none => effUnbound
    | some bx => .bindA a (fullView bx (s.read bx).length)
  | .npcopy a x =>
    match s.xs x with
    | none => effUnbound
    | some bx => .newA a (s.read bx)
  | .sl a x i j st =>
    if !kd.isFv then effNa else
    match s.xs x with
    | none => effUnbound
    | some bx =>
      let stp := st.getD 1
      if stp == 0 then effSkip else
      let r := sliceIdx (s.read bx).length i j stp
      .bindA a { blk := bx, off := r.1, step := stp, len := r.2 }
  | .aget a i =>
    match s.arrs a with
    | none => effUnbound
    | some v =>
      if !okIdx i then effSkip else
      match normIndex v.len i with
      | none => .obs Err.index.show
      | some p => .obs (toString ((s.read v.blk).getD (v.pos p) 0))
  | .aset a i k =>
    match s.arrs a with
    | none => effUnbound
    | some v =>
      if !okInt k || !okIdx i || !dtOk v.dt k then effSkip
      else if v.dt == 8 then .obs Err.value.show       -- assignment destination is read-only
      else
      match normIndex v.len i with
      | none => .obs Err.index.show
      | some p => .writeCell v p k
  | .alist a =>
    match s.arrs a with
    | none => effUnbound
    | some v => .obs (showInts (s.viewVals v))
  | .nscale a k =>
    match s.arrs a with
    | none => effUnbound
    | some v =>
      let R := vscale k (s.viewVals v)
      if !okInt k || !okVals R then effSkip else nvWrite s v R
  | .nset a i k =>
    match s.arrs a with
    | none => effUnbound
    | some v =>
      if !okInt k || i < 0 || i ≥ (v.len : Int) then effSkip else nvWriteCell s v i.toNat k
  | .nget a i =>
    match s.arrs a with
    | none => effUnbound
    | some v =>
      if i < 0 || i ≥ (v.len : Int) then effSkip
      else if v.dt == 8 then .obs Err.value.show
      else .obs (toString ((s.read v.blk).getD (v.pos i.toNat) 0))
  | .nnorms a =>
    match s.arrs a with
    | none => effUnbound
    | some v =>
      let A := s.viewVals v
      if v.dt == 8 then .obs Err.value.show
      else .obs (showInts [(A.length : Int), oneNorm A, infNorm A, twoNorm2 A])
  | .naxpy a k b =>
    match s.arrs a, s.arrs b with
    | some va, some vb =>
      if va.len != vb.len || !okInt k then effSkip
      else if va.blk == vb.blk && !sameSeq va vb then effSkip else
      let R := vadd (s.viewVals va) (vscale k (s.viewVals vb))
      if !okVals R then effSkip
      else if vb.dt == 8 then .obs Err.value.show
      else nvWrite s va R
    | _, _ => effUnbound
  | .nadd a b =>
    match s.arrs a, s.arrs b with
    | some va, some vb =>
      if va.len != vb.len then effSkip
      else if va.blk == vb.blk && !sameSeq va vb then effSkip else
      let R := vadd (s.viewVals va) (s.viewVals vb)
      if !okVals R then effSkip
      else if vb.dt == 8 then .obs Err.value.show
      else nvWrite s va R
    | _, _ => effUnbound
  | .nnew a b k =>
    match s.arrs b with
    | none => effUnbound
    | some vb =>
      let R := vscale k (s.viewVals vb)
      if !okInt k || !okVals R then effSkip
      else if vb.dt == 8 then .obs Err.value.show
      else .newA a R
  | .nint a k =>
    -- NumPyVector<double> over an int64 copy of the array: same numbers; `x *= k` stays in the converted copy
    match s.arrs a with
    | none => effUnbound
    | some v =>
      let A := s.viewVals v
      let R := vscale k A
      if !okInt k || !okVals R then effSkip else
      .obs (showInts ([(A.length : Int), oneNorm A, infNorm A, twoNorm2 A] ++ A ++ [oneNorm R] ++ A))
  | .nrun a =>
    match s.arrs a with
    | none => effUnbound
    | some v =>
      let A := s.viewVals v
      let R := (List.range A.length).map fun j => A.getD j 0 + (j : Int)
      if !okVals R then effSkip else nvWrite s v R
  | .ndt a b dt lay special =>
    -- a fresh buffer object of element type `dt` and layout `lay` holding the numbers of array register `b`
    if special && lay != .c then effNa
    else if !lay.fits dt then effNa else
    match s.arrs b with
    | none => effUnbound
    | some vb =>
      let A := s.viewVals vb
      if !A.all (dtOk dt) then effSkip
      else .newAV a (stridedMem lay.stride A).1 (stridedMem lay.stride A).2 lay.stride A.length dt lay.memLay
  | .nvscale x k =>
    -- NumPyVector<double> directly over the vector object: a FieldVector is a buffer of doubles (shared), a DynamicVector none
    match s.xs x with
    | none => effUnbound
    | some bx =>
      let R := vscale k (s.read bx)
      if !okInt k || !okVals R then effSkip
      else if !kd.isFv then .obs Err.type.show
      else .writeB bx R

/-! ## tuple vectors -/

def SlotTy.width : SlotTy → Nat
  | .f n => n
  | _ => 1

def shapeWidth : List SlotTy → Nat
  | [] => 0
  | t :: sh => t.width + shapeWidth sh

def showSlot (s : State) : Slot → String
  | .d v => "d:" ++ toString v
  | .i v => "i:" ++ toString v
  | .f b => "F" ++ toString (s.read b).length ++ ":" ++ showInts (s.read b)

def showSlots (s : State) (l : List Slot) : String := "[" ++ ",".intercalate (l.map (showSlot s)) ++ "]"

/-- build the Python-side sources and the tuple vector's slots from the flat values -/
def buildSlots (byRef : Bool) : List SlotTy → List Int → State → State × List Slot × List Slot
  | [], _, s => (s, [], [])
  | .d :: sh, V, s =>
    let (s', src, tv) := buildSlots byRef sh (V.drop 1) s
    (s', .d (V.getD 0 0) :: src, .d (V.getD 0 0) :: tv)
  | .i :: sh, V, s =>
    let (s', src, tv) := buildSlots byRef sh (V.drop 1) s
    (s', .i (V.getD 0 0) :: src, .i (V.getD 0 0) :: tv)
  | .f n :: sh, V, s =>
    let (s1, bs) := s.alloc (V.take n)
    let (s2, bt) := if byRef then (s1, bs) else s1.alloc (V.take n)
    let (s', src, tv) := buildSlots byRef sh (V.drop n) s2
    (s', .f bs :: src, .f bt :: tv)

def copySlots (byRef : Bool) : List Slot → State → State × List Slot
  | [], s => (s, [])
  | .f b :: r, s =>
    let (s1, b') := if byRef then (s, b) else s.alloc (s.read b)
    let (s2, r') := copySlots byRef r s1
    (s2, .f b' :: r')
  | sl :: r, s =>
    let (s2, r') := copySlots byRef r s
    (s2, sl :: r')

/-- `self = x` entry by entry: scalars are stored, FieldVector entries are assigned through -/
def assignSlots : List Slot → List Slot → State → State × List Slot
  | .f a :: T, .f b :: U, s =>
    let s1 := s.write a (s.read b)
    let (s2, T') := assignSlots T U s1
    (s2, .f a :: T')
  | .d _ :: T, .d v :: U, s => let (s2, T') := assignSlots T U s; (s2, .d v :: T')
  | .i _ :: T, .i v :: U, s => let (s2, T') := assignSlots T U s; (s2, .i v :: T')
  | T, _, s => (s, T)

/-- one bound tuple-vector operation (`kd` is `tup shape byRef`) -/
def tupStep (kd : Kind) (s : State) (op : TOp) : State × String :=
  let na := (s, "na")
  let unbound := (s, "unbound")
  let skip := (s, "skip")
  match op with
  | .tnew t V =>
    match kd with
    | .tup sh byRef =>
      if V.length != shapeWidth sh || !okVals V then skip else
      let (s1, src, tv) := buildSlots byRef sh V s
      let s2 := { s1 with ts := upd s1.ts t (some tv), ss := upd s1.ss t (some src) }
      (s2, showSlots s2 tv)
    | _ => na
  | .tlen t =>
    if !kd.isTup then na else
    match s.ts t with
    | none => unbound
    | some T => (s, toString T.length)
  | .tget t i =>
    if !kd.isTup then na else
    match s.ts t with
    | none => unbound
    | some T =>
      -- the index is a std::size_t: negative and too large Python ints are rejected with TypeError
      if i < 0 || i ≥ TWO64 then (s, Err.type.show)
      else match T[i.toNat]? with
        | some sl => (s, showSlot s sl)
        | none => (s, Err.index.show)
  | .tlist t =>
    if !kd.isTup then na else
    match s.ts t with
    | none => unbound
    | some T => (s, showSlots s T)
  | .tsetd t i k =>
    if !kd.isTup then na else
    match s.ts t with
    | none => unbound
    | some T =>
      if !okInt k then skip
      else if i < 0 || i ≥ TWO64 then (s, Err.type.show) else
      match T[i.toNat]? with
      | none => (s, Err.index.show)
      | some (.d _) =>
        let T' := T.set i.toNat (.d k)
        let s1 := { s with ts := upd s.ts t (some T') }
        (s1, showSlots s1 T')
      | some _ => (s, Err.runtime.show)
  | .tseti t i k =>
    if !kd.isTup then na else
    match s.ts t with
    | none => unbound
    | some T =>
      if !okInt k then skip
      else if i < 0 || i ≥ TWO64 then (s, Err.type.show) else
      match T[i.toNat]? with
      | none => (s, Err.index.show)
      | some (.d _) =>
        let T' := T.set i.toNat (.d k)
        let s1 := { s with ts := upd s.ts t (some T') }
        (s1, showSlots s1 T')
      | some (.i _) =>
        let T' := T.set i.toNat (.i k)
        let s1 := { s with ts := upd s.ts t (some T') }
        (s1, showSlots s1 T')
      | some (.f _) => (s, Err.runtime.show)
  | .tsetf t i L =>
    if !kd.isTup then na else
    match s.ts t with
    | none => unbound
    | some T =>
      if !okVals L || !(L.length == 2 || L.length == 3) then skip
      else if i < 0 || i ≥ TWO64 then (s, Err.type.show) else
      match T[i.toNat]? with
      | none => (s, Err.index.show)
      | some (.f b) =>
        if (s.read b).length != L.length then skip else
        let s1 := s.write b L
        (s1, showSlots s1 T)
      | some _ => (s, Err.runtime.show)
  | .elem src t i j k =>
    if !kd.isTup then na else
    match s.ts t, (if src then s.ss t else s.ts t) with
    | some Tt, some T =>
      if i < 0 || i ≥ (T.length : Int) || !okInt k then skip else
      match T[i.toNat]? with
      | some (.f b) =>
        (match setItem (s.read b) j k with
         | .error e => (s, e.show)
         | .ok v => let s1 := s.write b v; (s1, showSlots s1 Tt))
      | _ => skip
    | _, _ => unbound
  | .tcopy t u =>
    match kd with
    | .tup _ byRef =>
      match s.ts u with
      | none => unbound
      | some U =>
        let (s1, T) := copySlots byRef U s
        let s2 := { s1 with ts := upd s1.ts t (some T), ss := upd s1.ss t (s1.ss u) }
        (s2, showSlots s2 T)
    | _ => na
  | .tassign t u =>
    if !kd.isTup then na else
    match s.ts t, s.ts u with
    | some T, some U =>
      let (s1, T') := assignSlots T U s
      let s2 := { s1 with ts := upd s1.ts t (some T') }
      (s2, showSlots s2 T')
    | _, _ => unbound

/-- one bound operation: new state and the observation the harness prints -/
def step (kd : Kind) (s : State) : Op → State × String
  | .v o => if !kd.isVec then (s, "na") else (vecEff kd s o).apply s
  | .t o => tupStep kd s o

/-- run a program, collecting the observations -/
def run (kd : Kind) : State → List Op → State × List String
  | s, [] => (s, [])
  | s, op :: ops =>
    let (s1, o) := step kd s op
    let (s2, os) := run kd s1 ops
    (s2, o :: os)

def NV : Nat := 4
def NA : Nat := 3
def NT : Nat := 2

/-- the final dump of all registers -/
def dump (kd : Kind) (s : State) : String :=
  let parts : List String :=
    if kd.isTup then
      (List.range NT).flatMap fun k =>
        [ "t" ++ toString k ++ "=" ++ (match s.ts k with | none => "unbound" | some T => showSlots s T),
          "s" ++ toString k ++ "=" ++ (match s.ss k with | none => "unbound" | some T => showSlots s T) ]
    else
      ((List.range NV).map fun k =>
        "x" ++ toString k ++ "=" ++ (match s.xs k with | none => "unbound" | some b => showInts (s.read b)))
      ++ ((List.range NA).map fun k =>
        "a" ++ toString k ++ "=" ++ (match s.arrs k with | none => "unbound" | some v => showInts (s.viewVals v)))
  " ".intercalate parts

def answer (kd : Kind) (ops : List Op) : String :=
  let (s, obs) := run kd {} ops
  ";".intercalate obs ++ " | " ++ dump kd s

end DV.C20
