/-
C20 — Python views of dense vectors agree with the C++ objects they wrap.

Executable model of the Python bindings of dune-common's dense vectors
(dune/python/common/{densevector,fvector,dynvector,vector,numpyvector,tuplevector}.hh,
python/dune/common/__init__.py).  Core Lean only.

Values are integer-valued doubles (`Int`); a vector's storage is a *block* of a shared store; a Python
object / NumPy view / tuple-vector entry denotes cells of a block, so aliasing is identity of blocks.

* plain vector operations (`vadd`, `vsub`, `vscale`, `vneg`, `vdot`, norms): what the C++ `DenseVector`
  operators compute on the entries;
* binding level (`construct`, `constructLoop`, `normIndex`, `getItem`, `setItem`, `py…`): what the lambdas
  registered with pybind11 do (build an operand from a list, copy-then-`*=`, index normalisation, …);
* store level (`State`, `step`): short programs of bound operations over registers, the unit the
  correspondence check runs against the real bindings.
-/
namespace DV.C20

/-! ## errors -/

inductive Err where
  | index | value | type | runtime
  deriving DecidableEq, Repr

def Err.show : Err → String
  | .index => "ERR:Index"
  | .value => "ERR:Value"
  | .type => "ERR:Type"
  | .runtime => "ERR:Runtime"

/-! ## plain vector operations: the C++ operators on the entries -/

def vadd (a b : List Int) : List Int := List.zipWith (· + ·) a b
def vsub (a b : List Int) : List Int := List.zipWith (· - ·) a b
def vscale (k : Int) (a : List Int) : List Int := a.map (· * k)
def vneg (a : List Int) : List Int := a.map (fun e => -e)
def vaddScalar (k : Int) (a : List Int) : List Int := a.map (· + k)
def vsubScalar (k : Int) (a : List Int) : List Int := a.map (· - k)
def vdivExact (k : Int) (a : List Int) : List Int := a.map (· / k)
def vdot (a b : List Int) : Int := (List.zipWith (· * ·) a b).foldl (· + ·) 0
def iabs (e : Int) : Int := (e.natAbs : Int)
def oneNorm (a : List Int) : Int := a.foldl (fun s e => s + iabs e) 0
def infNorm (a : List Int) : Int := a.foldl (fun m e => max m (iabs e)) 0
def twoNorm2 (a : List Int) : Int := a.foldl (fun s e => s + e * e) 0

/-! ## binding level -/

/-- the specification of construction from a sequence: the first `n` numbers, zero-filled -/
def construct (n : Nat) (xs : List Int) : List Int := (xs ++ List.replicate n 0).take n

/-- what `registerFieldVector`'s list/tuple/args/buffer constructors do:
    `FV *self = new FV(K(0)); for (i = 0; i < min(size, x.size()); ++i) (*self)[i] = x[i];` -/
def constructLoop (n : Nat) (xs : List Int) : List Int :=
  (List.range (min n xs.length)).foldl (fun acc i => acc.set i (xs.getD i 0)) (List.replicate n 0)

/-- `registerDenseVector`'s index normalisation (Python semantics): `if (i < 0) i += size;`
    `if (i < 0 || i >= size) throw index_error();` -/
def normIndex (n : Nat) (i : Int) : Option Nat :=
  let j := if i < 0 then i + (n : Int) else i
  if j < 0 ∨ j ≥ (n : Int) then none else some j.toNat

def getItem (v : List Int) (i : Int) : Except Err Int :=
  match normIndex v.length i with
  | none => .error .index
  | some p => .ok (v.getD p 0)

def setItem (v : List Int) (i : Int) (x : Int) : Except Err (List Int) :=
  match normIndex v.length i with
  | none => .error .index
  | some p => .ok (v.set p x)

/-- `__neg__`: `T *copy = new T(self); *copy *= ValueType(-1);` -/
def pyNeg (v : List Int) : List Int := vscale (-1) v
/-- `__add__(self, list x)`: `self + x.cast<T>()` (the cast goes through the list constructor) -/
def pyAddList (n : Nat) (v L : List Int) : List Int := vadd v (constructLoop n L)
def pySubList (n : Nat) (v L : List Int) : List Int := vsub v (constructLoop n L)
/-- `__radd__(self, list x)`: `x.cast<T>() + self` -/
def pyRaddList (n : Nat) (L v : List Int) : List Int := vadd (constructLoop n L) v
/-- `__rsub__(self, list x)`: `x.cast<T>() - self` -/
def pyRsubList (n : Nat) (L v : List Int) : List Int := vsub (constructLoop n L) v
/-- `__mul__/__rmul__(self, ValueType x)`: copy, `*copy *= x` -/
def pyMul (v : List Int) (k : Int) : List Int := vscale k v
/-- `__rsub__(self, int 0)` for vectors of dimension > 1: copy, `*copy *= ValueType(-1)` -/
def pyRsubZero (v : List Int) : List Int := vscale (-1) v

/-! ## Python slices (CPython's `PySlice_AdjustIndices`, used by the NumPy view the bindings hand out) -/

def adjust (n : Int) (neg : Bool) (v : Option Int) (dflt : Int) : Int :=
  match v with
  | none => dflt
  | some v =>
    if v < 0 then
      let w := v + n
      if w < 0 then (if neg then -1 else 0) else w
    else if v ≥ n then (if neg then n - 1 else n) else v

/-- `(start, length)` of `range(n)[i:j:st]`, `st ≠ 0` -/
def sliceIdx (n : Nat) (i j : Option Int) (st : Int) : Int × Nat :=
  let neg := decide (st < 0)
  let N : Int := n
  let start := adjust N neg i (if neg then N - 1 else 0)
  let stop := adjust N neg j (if neg then -1 else N)
  let len : Nat :=
    if neg then (if stop < start then ((start - stop - 1) / (-st) + 1).toNat else 0)
    else (if start < stop then ((stop - start - 1) / st + 1).toNat else 0)
  (start, len)

/-! ## store -/

structure View where
  blk : Nat
  off : Int
  step : Int
  len : Nat
  deriving Repr

inductive Slot where
  | d (v : Int)       -- a Python float / C++ double
  | i (v : Int)       -- a Python int / C++ int
  | f (blk : Nat)     -- a FieldVector: its cells
  deriving Repr

inductive SlotTy where
  | d | i | f (n : Nat)
  deriving DecidableEq, Repr

inductive Kind where
  | fv (n : Nat)
  | dyn
  | tup (shape : List SlotTy) (byRef : Bool)
  deriving Repr

structure State where
  blocks : List (List Int) := []
  xs : Nat → Option Nat := fun _ => none
  arrs : Nat → Option View := fun _ => none
  ts : Nat → Option (List Slot) := fun _ => none
  ss : Nat → Option (List Slot) := fun _ => none

def upd {α} (f : Nat → α) (i : Nat) (v : α) : Nat → α := fun j => if j = i then v else f j

def State.read (s : State) (b : Nat) : List Int := s.blocks.getD b []
def State.write (s : State) (b : Nat) (v : List Int) : State := { s with blocks := s.blocks.set b v }
/-- a fresh block -/
def State.alloc (s : State) (v : List Int) : State × Nat :=
  ({ s with blocks := s.blocks ++ [v] }, s.blocks.length)

def State.bindX (s : State) (x b : Nat) : State := { s with xs := upd s.xs x (some b) }
def State.bindA (s : State) (a : Nat) (v : View) : State := { s with arrs := upd s.arrs a (some v) }

/-- position in the block of entry `j` of a view -/
def View.pos (v : View) (j : Nat) : Nat := (v.off + (j : Int) * v.step).toNat

def State.viewVals (s : State) (v : View) : List Int :=
  (List.range v.len).map fun j => (s.read v.blk).getD (v.pos j) 0

/-- write `vals` through a view, entry by entry -/
def State.viewWrite (s : State) (v : View) (vals : List Int) : State :=
  (List.range (min v.len vals.length)).foldl
    (fun st j => st.write v.blk ((st.read v.blk).set (v.pos j) (vals.getD j 0))) s

def fullView (b n : Nat) : View := { blk := b, off := 0, step := 1, len := n }

/-! ## programs -/

inductive CtorHow where
  | list | tuple | args | np | nps | buf | zero | fac
  deriving DecidableEq, Repr

inductive SOp where
  | add | sub | mul | div
  deriving DecidableEq, Repr

inductive Op where
  | new (x : Nat) (how : CtorHow) (L : List Int)
  | copy (x y : Nat) | mcopy (x y : Nat) | alias (x y : Nat)
  | binvv (isSub : Bool) (x y z : Nat)
  | binvl (isSub reflected : Bool) (x y : Nat) (L : List Int)
  | scal (which : SOp) (x y : Nat) (k : Int)          -- mul, rmul, div ; neg = mul by -1
  | neg (x y : Nat)
  | intscal (isSub reflected : Bool) (x y : Nat) (k : Int)
  | inplaceV (isSub : Bool) (x y : Nat)
  | inplaceL (isSub : Bool) (x : Nat) (L : List Int)
  | inplaceS (which : SOp) (x : Nat) (k : Int)
  | assign (x y : Nat)
  | set (x : Nat) (i k : Int)
  | get (x : Nat) (i : Int)
  | len (x : Nat) | iter (x : Nat) | str (x : Nat)
  | slice (x : Nat) (i j s : Option Int)
  | cmpv (neg : Bool) (x y : Nat)
  | cmpl (neg : Bool) (x : Nat) (L : List Int)
  | norms (x : Nat) | dot (x y : Nat) | dotl (x : Nat) (L : List Int) | float (x : Nat)
  | view (a x : Nat) | npcopy (a x : Nat) | sl (a x : Nat) (i j s : Option Int)
  | aget (a : Nat) (i : Int) | aset (a : Nat) (i k : Int) | alist (a : Nat)
  | nscale (a : Nat) (k : Int) | nset (a : Nat) (i k : Int) | nget (a : Nat) (i : Int) | nnorms (a : Nat)
  | naxpy (a : Nat) (k : Int) (b : Nat) | nrun (a : Nat)
  | tnew (t : Nat) (V : List Int)
  | tlen (t : Nat) | tget (t : Nat) (i : Int) | tlist (t : Nat)
  | tsetd (t : Nat) (i k : Int) | tseti (t : Nat) (i k : Int) | tsetf (t : Nat) (i : Int) (L : List Int)
  | elem (src : Bool) (t : Nat) (i j k : Int)
  | tcopy (t u : Nat) | tassign (t u : Nat)
  deriving Repr

def BOUND : Int := 16777216
def IBOUND : Int := 1099511627776

def okVals (l : List Int) : Bool := l.all fun e => decide (iabs e ≤ BOUND)
def okInt (k : Int) : Bool := decide (iabs k ≤ BOUND)
def okIdx (i : Int) : Bool := decide (iabs i ≤ IBOUND)

def showInts (l : List Int) : String := "[" ++ ",".intercalate (l.map toString) ++ "]"
def showBool (b : Bool) : String := if b then "true" else "false"

/-- sizes of `FieldVector<double,n>` the harness builds -/
def fvSizes : List Nat := [1, 2, 3, 4, 5, 6, 9]

/-- the operand a list turns into: for FieldVector the list constructor, for DynamicVector the list itself -/
def Kind.construct (kd : Kind) (L : List Int) : List Int :=
  match kd with
  | .fv n => constructLoop n L
  | _ => L

def Kind.isVec : Kind → Bool
  | .tup _ _ => false
  | _ => true
def Kind.isFv : Kind → Bool
  | .fv _ => true
  | _ => false
def Kind.isTup : Kind → Bool
  | .tup _ _ => true
  | _ => false
/-- `FieldVector<K,1>`: the only vectors with scalar `+ - int` arithmetic -/
def Kind.scalarMode : Kind → Bool
  | .fv 1 => true
  | _ => false

def SlotTy.width : SlotTy → Nat
  | .f n => n
  | _ => 1

def shapeWidth : List SlotTy → Nat
  | [] => 0
  | t :: sh => t.width + shapeWidth sh

def showSlot (s : State) : Slot → String
  | .d v => "d:" ++ toString v
  | .i v => "i:" ++ toString v
  | .f b => "F" ++ toString (s.read b).length ++ ":" ++ showInts (s.read b)

def showSlots (s : State) (l : List Slot) : String := "[" ++ ",".intercalate (l.map (showSlot s)) ++ "]"

/-- build the Python-side sources and the tuple vector's slots from the flat values -/
def buildSlots (byRef : Bool) : List SlotTy → List Int → State → State × List Slot × List Slot
  | [], _, s => (s, [], [])
  | .d :: sh, V, s =>
    let (s', src, tv) := buildSlots byRef sh (V.drop 1) s
    (s', .d (V.getD 0 0) :: src, .d (V.getD 0 0) :: tv)
  | .i :: sh, V, s =>
    let (s', src, tv) := buildSlots byRef sh (V.drop 1) s
    (s', .i (V.getD 0 0) :: src, .i (V.getD 0 0) :: tv)
  | .f n :: sh, V, s =>
    let (s1, bs) := s.alloc (V.take n)
    let (s2, bt) := if byRef then (s1, bs) else s1.alloc (V.take n)
    let (s', src, tv) := buildSlots byRef sh (V.drop n) s2
    (s', .f bs :: src, .f bt :: tv)

def copySlots (byRef : Bool) : List Slot → State → State × List Slot
  | [], s => (s, [])
  | .f b :: r, s =>
    let (s1, b') := if byRef then (s, b) else s.alloc (s.read b)
    let (s2, r') := copySlots byRef r s1
    (s2, .f b' :: r')
  | sl :: r, s =>
    let (s2, r') := copySlots byRef r s
    (s2, sl :: r')

/-- `self = x` entry by entry: scalars are stored, FieldVector entries are assigned through -/
def assignSlots : List Slot → List Slot → State → State × List Slot
  | .f a :: T, .f b :: U, s =>
    let s1 := s.write a (s.read b)
    let (s2, T') := assignSlots T U s1
    (s2, .f a :: T')
  | .d _ :: T, .d v :: U, s => let (s2, T') := assignSlots T U s; (s2, .d v :: T')
  | .i _ :: T, .i v :: U, s => let (s2, T') := assignSlots T U s; (s2, .i v :: T')
  | T, _, s => (s, T)

/-- two views of one block that enumerate the same cells in the same order -/
def sameSeq (a b : View) : Bool :=
  a.len == b.len && (a.len == 0 || (a.off == b.off && (a.len == 1 || a.step == b.step)))

def applySOp (w : SOp) (p q : Int) : Int :=
  match w with
  | .add => p + q
  | .sub => p - q
  | .mul => p * q
  | .div => p / q

/-- one bound operation: new state and the observation the harness prints -/
def step (kd : Kind) (s : State) (op : Op) : State × String :=
  let na := (s, "na")
  let unbound := (s, "unbound")
  let skip := (s, "skip")
  let newVec (s : State) (x : Nat) (v : List Int) : State × String :=
    let (s1, b) := s.alloc v
    (s1.bindX x b, showInts v)
  match op with
  | .new x how L =>
    if !kd.isVec then na else
    match kd, how with
    | .dyn, .list => if !okVals L then skip else newVec s x L
    | .dyn, .zero => newVec s x []
    | .dyn, _ => na
    | .fv n, how =>
      if !okVals L then skip
      else if how == .fac && L.length != n then skip
      else newVec s x (constructLoop n L)
    | _, _ => na
  | .copy x y | .mcopy x y =>
    if !kd.isVec then na else if !kd.isFv then na else
    match s.xs y with
    | none => unbound
    | some b => newVec s x (s.read b)
  | .alias x y =>
    if !kd.isVec then na else
    match s.xs y with
    | none => unbound
    | some b => (s.bindX x b, showInts (s.read b))
  | .binvv isSub x y z =>
    if !kd.isVec then na else
    match s.xs y, s.xs z with
    | some by_, some bz =>
      let A := s.read by_
      let B := s.read bz
      if A.length != B.length then skip else
      let R := if isSub then vsub A B else vadd A B
      if !okVals R then skip else newVec s x R
    | _, _ => unbound
  | .binvl isSub reflected x y L =>
    if !kd.isVec then na else
    match s.xs y with
    | none => unbound
    | some by_ =>
      let A := s.read by_
      if !okVals L then skip
      else if !kd.isFv && L.length != A.length then skip else
      let B := kd.construct L
      let R := match isSub, reflected with
        | false, false => vadd A B
        | true, false => vsub A B
        | false, true => vadd B A
        | true, true => vsub B A
      if !okVals R then skip else newVec s x R
  | .scal w x y k =>
    if !kd.isVec then na else
    match s.xs y with
    | none => unbound
    | some by_ =>
      let A := s.read by_
      if !okInt k then skip else
      match w with
      | .div =>
        if k == 0 || A.any (fun e => e % k != 0) then skip else
        let R := vdivExact k A
        if !okVals R then skip else newVec s x R
      | _ =>
        let R := pyMul A k
        if !okVals R then skip else newVec s x R
  | .neg x y =>
    if !kd.isVec then na else
    match s.xs y with
    | none => unbound
    | some by_ =>
      let R := pyNeg (s.read by_)
      if !okVals R then skip else newVec s x R
  | .intscal isSub reflected x y k =>
    if !kd.isVec then na else
    match s.xs y with
    | none => unbound
    | some by_ =>
      let A := s.read by_
      if !okInt k then skip else
      if kd.scalarMode then
        let a0 := A.getD 0 0
        let r := match isSub, reflected with
          | false, false => a0 + k
          | true, false => a0 - k
          | false, true => k + a0
          | true, true => k - a0
        if !okVals [r] then skip else newVec s x [r]
      else if k != 0 then (s, Err.value.show)
      else if isSub && reflected then newVec s x (pyRsubZero A)
      else (s.bindX x by_, showInts A)
  | .inplaceV isSub x y =>
    if !kd.isVec then na else
    match s.xs x, s.xs y with
    | some bx, some by_ =>
      let A := s.read bx
      let B := s.read by_
      if A.length != B.length then skip else
      let R := if isSub then vsub A B else vadd A B
      if !okVals R then skip else ((s.write bx R), showInts R)
    | _, _ => unbound
  | .inplaceL isSub x L =>
    if !kd.isVec then na else
    match s.xs x with
    | none => unbound
    | some bx =>
      let A := s.read bx
      if !okVals L then skip
      else if !kd.isFv && L.length != A.length then skip else
      let B := kd.construct L
      let R := if isSub then vsub A B else vadd A B
      if !okVals R then skip else ((s.write bx R), showInts R)
  | .inplaceS w x k =>
    if !kd.isVec then na else
    match s.xs x with
    | none => unbound
    | some bx =>
      let A := s.read bx
      if !okInt k then skip else
      let go (R : List Int) : State × String := if !okVals R then skip else ((s.write bx R), showInts R)
      match w with
      | .add => go (vaddScalar k A)
      | .sub => go (vsubScalar k A)
      | .mul => go (vscale k A)
      | .div => if k == 0 || A.any (fun e => e % k != 0) then skip else go (vdivExact k A)
  | .assign x y =>
    if !kd.isVec then na else
    match s.xs x, s.xs y with
    | some bx, some by_ => let v := s.read by_; (s.write bx v, showInts v)
    | _, _ => unbound
  | .set x i k =>
    if !kd.isVec then na else
    match s.xs x with
    | none => unbound
    | some bx =>
      if !okInt k || !okIdx i then skip else
      match setItem (s.read bx) i k with
      | .error e => (s, e.show)
      | .ok v => (s.write bx v, showInts v)
  | .get x i =>
    if !kd.isVec then na else
    match s.xs x with
    | none => unbound
    | some bx =>
      if !okIdx i then skip else
      match getItem (s.read bx) i with
      | .error e => (s, e.show)
      | .ok v => (s, toString v)
  | .len x =>
    if !kd.isVec then na else
    match s.xs x with
    | none => unbound
    | some bx => (s, toString (s.read bx).length)
  | .iter x | .str x =>
    if !kd.isVec then na else
    match s.xs x with
    | none => unbound
    | some bx => (s, showInts (s.read bx))
  | .slice x i j st =>
    if !kd.isVec then na else if !kd.isFv then na else
    match s.xs x with
    | none => unbound
    | some bx =>
      let stp := st.getD 1
      if stp == 0 then skip else
      let (start, len) := sliceIdx (s.read bx).length i j stp
      (s, showInts (s.viewVals { blk := bx, off := start, step := stp, len := len }))
  | .cmpv neg x y =>
    if !kd.isVec then na else
    match s.xs x, s.xs y with
    | some bx, some by_ =>
      let A := s.read bx
      let B := s.read by_
      if A.length != B.length then skip else (s, showBool ((A == B) != neg))
    | _, _ => unbound
  | .cmpl neg x L =>
    if !kd.isVec then na else
    match s.xs x with
    | none => unbound
    | some bx =>
      let A := s.read bx
      if !okVals L then skip
      else if !kd.isFv && L.length != A.length then skip
      else (s, showBool ((A == kd.construct L) != neg))
  | .norms x =>
    if !kd.isVec then na else
    match s.xs x with
    | none => unbound
    | some bx => let A := s.read bx; (s, showInts [oneNorm A, infNorm A, twoNorm2 A])
  | .dot x y =>
    if !kd.isVec then na else
    match s.xs x, s.xs y with
    | some bx, some by_ =>
      let A := s.read bx
      let B := s.read by_
      if A.length != B.length then skip else (s, toString (vdot A B))
    | _, _ => unbound
  | .dotl x L =>
    if !kd.isVec then na else
    match s.xs x with
    | none => unbound
    | some bx =>
      let A := s.read bx
      if !okVals L then skip
      else if !kd.isFv && L.length != A.length then skip
      else (s, toString (vdot A (kd.construct L)))
  | .float x =>
    if !kd.isVec then na else if !kd.scalarMode then na else
    match s.xs x with
    | none => unbound
    | some bx => (s, toString ((s.read bx).getD 0 0))
  | .view a x =>
    if !kd.isVec then na else if !kd.isFv then na else
    match s.xs x with
    | none => unbound
    | some bx => (s.bindA a (fullView bx (s.read bx).length), showInts (s.read bx))
  | .npcopy a x =>
    if !kd.isVec then na else
    match s.xs x with
    | none => unbound
    | some bx =>
      let v := s.read bx
      let (s1, b) := s.alloc v
      (s1.bindA a (fullView b v.length), showInts v)
  | .sl a x i j st =>
    if !kd.isVec then na else if !kd.isFv then na else
    match s.xs x with
    | none => unbound
    | some bx =>
      let stp := st.getD 1
      if stp == 0 then skip else
      let (start, len) := sliceIdx (s.read bx).length i j stp
      let v : View := { blk := bx, off := start, step := stp, len := len }
      (s.bindA a v, showInts (s.viewVals v))
  | .aget a i =>
    if !kd.isVec then na else
    match s.arrs a with
    | none => unbound
    | some v =>
      if !okIdx i then skip else
      match normIndex v.len i with
      | none => (s, Err.index.show)
      | some p => (s, toString ((s.read v.blk).getD (v.pos p) 0))
  | .aset a i k =>
    if !kd.isVec then na else
    match s.arrs a with
    | none => unbound
    | some v =>
      if !okInt k || !okIdx i then skip else
      match normIndex v.len i with
      | none => (s, Err.index.show)
      | some p =>
        let s1 := s.write v.blk ((s.read v.blk).set (v.pos p) k)
        (s1, showInts (s1.viewVals v))
  | .alist a =>
    if !kd.isVec then na else
    match s.arrs a with
    | none => unbound
    | some v => (s, showInts (s.viewVals v))
  | .nscale a k =>
    if !kd.isVec then na else
    match s.arrs a with
    | none => unbound
    | some v =>
      let R := vscale k (s.viewVals v)
      if !okInt k || !okVals R then skip else
      let s1 := s.viewWrite v R
      (s1, showInts (s1.viewVals v))
  | .nset a i k =>
    if !kd.isVec then na else
    match s.arrs a with
    | none => unbound
    | some v =>
      if !okInt k || i < 0 || i ≥ (v.len : Int) then skip else
      let s1 := s.write v.blk ((s.read v.blk).set (v.pos i.toNat) k)
      (s1, showInts (s1.viewVals v))
  | .nget a i =>
    if !kd.isVec then na else
    match s.arrs a with
    | none => unbound
    | some v =>
      if i < 0 || i ≥ (v.len : Int) then skip
      else (s, toString ((s.read v.blk).getD (v.pos i.toNat) 0))
  | .nnorms a =>
    if !kd.isVec then na else
    match s.arrs a with
    | none => unbound
    | some v =>
      let A := s.viewVals v
      (s, showInts [(A.length : Int), oneNorm A, infNorm A, twoNorm2 A])
  | .naxpy a k b =>
    if !kd.isVec then na else
    match s.arrs a, s.arrs b with
    | some va, some vb =>
      if va.len != vb.len || !okInt k then skip
      else if va.blk == vb.blk && !sameSeq va vb then skip else
      let R := vadd (s.viewVals va) (vscale k (s.viewVals vb))
      if !okVals R then skip else
      let s1 := s.viewWrite va R
      (s1, showInts (s1.viewVals va))
    | _, _ => unbound
  | .nrun a =>
    if !kd.isVec then na else
    match s.arrs a with
    | none => unbound
    | some v =>
      let A := s.viewVals v
      let R := (List.range A.length).map fun j => A.getD j 0 + (j : Int)
      if !okVals R then skip else
      let s1 := s.viewWrite v R
      (s1, showInts (s1.viewVals v))
  | .tnew t V =>
    match kd with
    | .tup sh byRef =>
      if V.length != shapeWidth sh || !okVals V then skip else
      let (s1, src, tv) := buildSlots byRef sh V s
      let s2 := { s1 with ts := upd s1.ts t (some tv), ss := upd s1.ss t (some src) }
      (s2, showSlots s2 tv)
    | _ => na
  | .tlen t =>
    if !kd.isTup then na else
    match s.ts t with
    | none => unbound
    | some T => (s, toString T.length)
  | .tget t i =>
    if !kd.isTup then na else
    match s.ts t with
    | none => unbound
    | some T =>
      if i < 0 || i > IBOUND then skip
      else if i.toNat < T.length then
        match T[i.toNat]? with
        | some sl => (s, showSlot s sl)
        | none => (s, Err.index.show)
      else (s, Err.index.show)
  | .tlist t =>
    if !kd.isTup then na else
    match s.ts t with
    | none => unbound
    | some T => (s, showSlots s T)
  | .tsetd t i k =>
    if !kd.isTup then na else
    match s.ts t with
    | none => unbound
    | some T =>
      if i < 0 || i > IBOUND then skip else if !okInt k then skip else
      match T[i.toNat]? with
      | none => (s, Err.index.show)
      | some (.d _) =>
        let T' := T.set i.toNat (.d k)
        let s1 := { s with ts := upd s.ts t (some T') }
        (s1, showSlots s1 T')
      | some _ => (s, Err.runtime.show)
  | .tseti t i k =>
    if !kd.isTup then na else
    match s.ts t with
    | none => unbound
    | some T =>
      if i < 0 || i > IBOUND then skip else if !okInt k then skip else
      match T[i.toNat]? with
      | none => (s, Err.index.show)
      | some (.d _) =>
        let T' := T.set i.toNat (.d k)
        let s1 := { s with ts := upd s.ts t (some T') }
        (s1, showSlots s1 T')
      | some (.i _) =>
        let T' := T.set i.toNat (.i k)
        let s1 := { s with ts := upd s.ts t (some T') }
        (s1, showSlots s1 T')
      | some (.f _) => (s, Err.runtime.show)
  | .tsetf t i L =>
    if !kd.isTup then na else
    match s.ts t with
    | none => unbound
    | some T =>
      if i < 0 || i > IBOUND then skip
      else if !okVals L || !fvSizes.contains L.length || L.length < 2 then skip else
      match T[i.toNat]? with
      | none => (s, Err.index.show)
      | some (.f b) =>
        if (s.read b).length != L.length then skip else
        let s1 := s.write b L
        (s1, showSlots s1 T)
      | some _ => (s, Err.runtime.show)
  | .elem src t i j k =>
    if !kd.isTup then na else
    match s.ts t, (if src then s.ss t else s.ts t) with
    | some Tt, some T =>
      if i < 0 || i ≥ (T.length : Int) || !okInt k || !okIdx j then skip else
      match T[i.toNat]? with
      | some (.f b) =>
        (match setItem (s.read b) j k with
         | .error e => (s, e.show)
         | .ok v => let s1 := s.write b v; (s1, showSlots s1 Tt))
      | _ => skip
    | _, _ => unbound
  | .tcopy t u =>
    match kd with
    | .tup _ byRef =>
      match s.ts u with
      | none => unbound
      | some U =>
        let (s1, T) := copySlots byRef U s
        let s2 := { s1 with ts := upd s1.ts t (some T), ss := upd s1.ss t (s1.ss u) }
        (s2, showSlots s2 T)
    | _ => na
  | .tassign t u =>
    if !kd.isTup then na else
    match s.ts t, s.ts u with
    | some T, some U =>
      let (s1, T') := assignSlots T U s
      let s2 := { s1 with ts := upd s1.ts t (some T') }
      (s2, showSlots s2 T')
    | _, _ => unbound

/-- run a program, collecting the observations -/
def run (kd : Kind) : State → List Op → State × List String
  | s, [] => (s, [])
  | s, op :: ops =>
    let (s1, o) := step kd s op
    let (s2, os) := run kd s1 ops
    (s2, o :: os)

def NV : Nat := 4
def NA : Nat := 3
def NT : Nat := 2

/-- the final dump of all registers -/
def dump (kd : Kind) (s : State) : String :=
  let parts : List String :=
    if kd.isTup then
      (List.range NT).flatMap fun k =>
        [ "t" ++ toString k ++ "=" ++ (match s.ts k with | none => "unbound" | some T => showSlots s T),
          "s" ++ toString k ++ "=" ++ (match s.ss k with | none => "unbound" | some T => showSlots s T) ]
    else
      ((List.range NV).map fun k =>
        "x" ++ toString k ++ "=" ++ (match s.xs k with | none => "unbound" | some b => showInts (s.read b)))
      ++ ((List.range NA).map fun k =>
        "a" ++ toString k ++ "=" ++ (match s.arrs k with | none => "unbound" | some v => showInts (s.viewVals v)))
  " ".intercalate parts

def answer (kd : Kind) (ops : List Op) : String :=
  let (s, obs) := run kd {} ops
  ";".intercalate obs ++ " | " ++ dump kd s

end DV.C20
