import DuneVerif.Model.C01
/-!
C01 — object histories: several objects, a sequence of operations, and the *storage* behind every object.

The value-level model (`Model/C01.lean`) says what one operation computes from entries.  That is all there is to say
about an owning object (FieldVector, DynamicVector, FieldMatrix, DynamicMatrix, DiagonalMatrix), but not about a
handle: a `ScalarVectorView` / `ScalarMatrixView` stands for a scalar variable, a transposed view for a matrix.  Here every
object is a *register* with a pointer `ptr` to the storage it reads and writes; storage cells are `Mat K` buffers
(a vector is stored as a 1 x n buffer, a DiagonalMatrix as its diagonal, 1 x n; a scalar as 1 x 1).  An owning object
points to its own cell for ever; what the assignment operators of the scalar views do with the pointer and what
`transposedView` holds is read from the C++ source (`Gen.svv_*`, `Gen.smv_*`, `Gen.tvHolds`).

`seqStep` runs one operation on the store through the value-level functions of `Model/C01.lean` (and therefore through the
loop nests generated from the source).  `Props/C01.lean` proves that on a well-formed store every operation writes exactly
one cell — the one of its target object — with the value-level result, leaves every other cell alone (no operand taken as
input only is altered) and keeps the store well formed, so that a history is the composition of its value-level steps.
-/
namespace DV.C01

/-- the kinds of objects of a history: FieldVector, DynamicVector, `asVector(s)` of a scalar variable / of a const scalar,
FieldMatrix, DynamicMatrix, DiagonalMatrix, `asMatrix(s)` of a scalar variable / of a const scalar, `transposedView(A)` -/
inductive RKind where
  | fv | dv | sc | scc | fm | dm | dg | sv | svc | tv
  deriving DecidableEq, Repr

/-- an object: its kind, the storage cell it refers to, and (for a transposed view) the object it was made from;
`wraps` is the object's own index otherwise -/
structure Reg where
  kind : RKind
  ptr : Nat
  wraps : Nat
  deriving DecidableEq, Repr

structure SeqState (K : Type _) where
  regs : List Reg
  bufs : List (Mat K)

inductive SOp (K : Type _) where
  /-- `object t = object s` -/
  | asg (t s : Nat)
  /-- `object t = k` -/
  | fill (t : Nat) (k : K)
  /-- `object t += object s` -/
  | add (t s : Nat)
  /-- `object t -= object s` -/
  | sub (t s : Nat)
  /-- `object t .axpy(k, object s)` -/
  | axpy (t : Nat) (k : K) (s : Nat)
  /-- `object t *= k` -/
  | scale (t : Nat) (k : K)
  /-- `object t .leftmultiply(object s)` -/
  | lmul (t s : Nat)
  /-- `object t .rightmultiply(object s)` -/
  | rmul (t s : Nat)
  /-- `object a .kernel([alpha,] object x, object y)` -/
  | kern (k : KName) (a : Nat) (alpha : K) (x y : Nat)
  /-- `(object t)[i] = (object s)[j]`: a row of a matrix object assigned from a row of another -/
  | rasg (t i s j : Nat)
  /-- `(object t)[i].axpy(k, (object s)[j])` -/
  | raxpy (t i : Nat) (k : K) (s j : Nat)

/-- the binary / unary operation names, for the availability tables -/
inductive OpK where
  | asg | fill | add | sub | axpy | scale | lmul | rmul
  deriving DecidableEq, Repr

def isVecKind : RKind → Bool
  | .fv | .dv | .sc | .scc => true
  | _ => false

def isMatKind : RKind → Bool
  | .fm | .dm | .dg | .sv | .svc => true
  | _ => false

/-! ### which combinations the check executes (mirror of `sq::opOk` in harness/cxx_c01.cc) -/

/-- vectors of equal size `n`: target kind `t`, source kind `s` -/
def vecPairOk (op : OpK) (t s : RKind) (n : Nat) : Bool :=
  match t with
  | .fv => s == .fv || s == .dv || (n == 1 && (s == .sc || s == .scc))
  | .dv => isVecKind s
  | .sc => s == .fv || s == .sc || s == .scc || (s == .dv && op != .asg)
  | _ => false

def oneByOneSrc (s : RKind) : Bool := s == .fm || s == .dm || s == .sv || s == .svc

/-- matrices of equal shape with `r` rows -/
def matPairOk (op : OpK) (t s : RKind) (r : Nat) : Bool :=
  match t with
  | .fm => if r == 1 then (if op == .add || op == .sub then s == .fm else oneByOneSrc s)
           else s == .fm || s == .dm || (op == .asg && s == .dg)
  | .dm => oneByOneSrc s || (s == .dg && op == .asg)
  | .dg => s == .dg && (op == .asg || op == .add || op == .sub)
  | .sv => if op == .asg then s == .fm || s == .sv || s == .svc else oneByOneSrc s
  | _ => false

/-- the kind of vector a row of a matrix object is: `FieldMatrix` has `FieldVector` rows, `DynamicMatrix` `DynamicVector`
rows, the row of a scalar matrix view is the scalar vector view it holds -/
def rowKind : RKind → RKind
  | .fm => .fv
  | .dm => .dv
  | .sv => .sc
  | .svc => .scc
  | k => k

/-- kernels: matrix kind `a` with `ar` stored rows (`tv`: seen through a transposed view), `x` / `y` kinds and sizes -/
def kernTripleOk (a : RKind) (ar : Nat) (tv : Bool) (x : RKind) (xn : Nat) (y : RKind) (yn : Nat) : Bool :=
  let p (k1 : RKind) (n1 : Nat) (k2 : RKind) (n2 : Nat) : Bool :=
    x == k1 && (n1 == 0 || xn == n1) && y == k2 && (n2 == 0 || yn == n2)
  if tv then
    match a with
    | .fm => ar == 2 && p .fv 2 .fv 2
    | .dg => p .fv 2 .fv 2
    | .dm => p .dv 0 .dv 0
    | .sv => p .sc 0 .sc 0 || p .fv 1 .fv 1
    | _ => false
  else
    match a with
    | .fm => if ar == 1 then p .fv 1 .fv 1 || p .sc 0 .sc 0 || p .scc 0 .sc 0 || p .dv 0 .dv 0 else p .fv 2 .fv 2
    | .sv | .svc => p .fv 1 .fv 1 || p .sc 0 .sc 0 || p .scc 0 .sc 0 || p .sc 0 .fv 1
    | .dm => p .dv 0 .dv 0 || p .scc 0 .sc 0 || p .dv 0 .sc 0
    | .dg => p .fv 2 .fv 2 || p .dv 0 .dv 0
    | _ => false

section
variable {K : Type _} [Zero K] [Add K] [Sub K] [Mul K] [Neg K] [Div K]

/-- the matrix with the entries of `A` inside its shape and 0 outside, backed by an array (a history re-reads its cells
many times; a chain of closures would be re-evaluated on every read) -/
def Mat.freeze (A : Mat K) : Mat K :=
  let arr : Array K := Array.ofFn (n := A.rows * A.cols) fun idx => A.e (idx.val / A.cols) (idx.val % A.cols)
  ⟨A.rows, A.cols, fun i j => if i < A.rows ∧ j < A.cols then arr.getD (i * A.cols + j) 0 else 0⟩

def SeqState.size (st : SeqState K) : Nat := st.regs.length

def SeqState.kind (st : SeqState K) (i : Nat) : RKind :=
  match st.regs[i]? with
  | some r => r.kind
  | none => .tv

def SeqState.ptr (st : SeqState K) (i : Nat) : Nat :=
  match st.regs[i]? with
  | some r => r.ptr
  | none => i

def SeqState.wraps (st : SeqState K) (i : Nat) : Nat :=
  match st.regs[i]? with
  | some r => r.wraps
  | none => i

/-- storage cell `i` -/
def SeqState.buf (st : SeqState K) (i : Nat) : Mat K := st.bufs.getD i (zeroMat 0 0)

/-- what object `i` shows: the cell it refers to -/
def SeqState.rd (st : SeqState K) (i : Nat) : Mat K := st.buf (st.ptr i)

/-- a write through object `i` -/
def SeqState.wr (st : SeqState K) (i : Nat) (v : Mat K) : SeqState K :=
  { st with bufs := st.bufs.set (st.ptr i) v }

/-- object `t` is re-pointed to the storage object `s` refers to -/
def SeqState.reseat (st : SeqState K) (t s : Nat) : SeqState K :=
  { st with regs := st.regs.set t ⟨st.kind t, st.ptr s, st.wraps t⟩ }

/-- a stored matrix object as a representation of the value-level model -/
def regRep (k : RKind) (b : Mat K) : Rep K :=
  match k with
  | .dg => .diag b.cols (b.e 0)
  | .sv | .svc => .scalar (b.e 0 0)
  | _ => .full b

/-- matrix object `a` as a kernel operand: a transposed view wraps the representation of the object it was made from -/
def SeqState.matRep (st : SeqState K) (a : Nat) : Rep K :=
  if st.kind a == .tv then .transposed (regRep (st.kind (st.wraps a)) (st.rd a)) else regRep (st.kind a) (st.rd a)

/-- logical number of rows of object `i` (a DiagonalMatrix is stored as its diagonal) -/
def SeqState.lrows (st : SeqState K) (i : Nat) : Nat := if st.kind i == .dg then (st.rd i).cols else (st.rd i).rows

/-- is the operation executed for these objects? -/
def opOk (st : SeqState K) : SOp K → Bool
  | .kern k a _ x y =>
    let n := st.size
    let base := if st.kind a == .tv then st.wraps a else a
    a < n && x < n && y < n && x != y &&
    (isMatKind (st.kind a) || (st.kind a == .tv && base < n && isMatKind (st.kind base))) &&
    isVecKind (st.kind x) && isVecKind (st.kind y) && st.kind y != .scc &&
    offers k (st.matRep a) &&
    kernTripleOk (st.kind base) (st.rd a).rows (st.kind a == .tv) (st.kind x) (st.rd x).cols (st.kind y) (st.rd y).cols &&
    (st.rd x).rows == 1 && (st.rd y).rows == 1 &&
    (match k with
     | .mv | .umv | .mmv | .usmv => (st.rd x).cols == (st.matRep a).cols && (st.rd y).cols == (st.matRep a).rows
     | _ => (st.rd x).cols == (st.matRep a).rows && (st.rd y).cols == (st.matRep a).cols)
  | .fill t _ | .scale t _ =>
    t < st.size && (isVecKind (st.kind t) || isMatKind (st.kind t)) && st.kind t != .scc && st.kind t != .svc
  | .asg t s => pair .asg t s
  | .add t s => pair .add t s
  | .sub t s => pair .sub t s
  | .axpy t _ s => pair .axpy t s
  | .lmul t s => pair .lmul t s && (st.rd t).rows == (st.rd t).cols
  | .rmul t s => pair .rmul t s && (st.rd t).rows == (st.rd t).cols
  | .rasg t i s j => rowPair .asg t i s j
  | .raxpy t i _ s j => rowPair .axpy t i s j
where
  rowPair (op : OpK) (t i s j : Nat) : Bool :=
    t < st.size && s < st.size && t != s &&
    isMatKind (st.kind t) && isMatKind (st.kind s) && st.kind t != .dg && st.kind s != .dg &&
    i < (st.rd t).rows && j < (st.rd s).rows && (st.rd t).cols == (st.rd s).cols &&
    vecPairOk op (rowKind (st.kind t)) (rowKind (st.kind s)) (st.rd t).cols
  -- `t == s` is executed as well: the object is its own argument (`A += A`, `A = A`, `A.leftmultiply(A)`, ...)
  pair (op : OpK) (t s : Nat) : Bool :=
    t < st.size && s < st.size &&
    st.lrows t == st.lrows s && (st.rd t).cols == (st.rd s).cols &&
    ((isVecKind (st.kind t) && isVecKind (st.kind s) && op != .lmul && op != .rmul &&
        vecPairOk op (st.kind t) (st.kind s) (st.rd t).cols) ||
     (isMatKind (st.kind t) && isMatKind (st.kind s) &&
        matPairOk op (st.kind t) (st.kind s) (st.lrows t)))

/-! ### the value written by an operation -/

/-- `target = source`: the entries of the source in the layout of the target (DenseMatrixAssigner expands a diagonal
matrix: `dense = 0; dense[i][i] = diagonal[i]`) -/
def asgVal (kt ks : RKind) (bs : Mat K) : Mat K :=
  if ks == .dg && kt != .dg then assignFrom (.diag bs.cols (bs.e 0)) else bs

/-- `target = k`: every stored entry becomes `k` (for a DiagonalMatrix: the diagonal) -/
def fillVal (bt : Mat K) (k : K) : Mat K := ⟨bt.rows, bt.cols, fun _ _ => k⟩

def resolveAssign (m row : HAssign) : HAssign :=
  match m with
  | .viaRow => row
  | x => x

/-- which assignment operator `target = source` is when the target is a scalar view (read from the source: same view type,
view of the other constness, anything else goes through the conversion to the scalar); `none` for an owning target, whose
class copies entries -/
def assignMode (kt ks : RKind) : Option HAssign :=
  match kt, ks with
  | .sc, .sc => some Gen.svv_assignSame
  | .sc, .scc => some Gen.svv_assignConv
  | .sc, _ => some Gen.svv_assignScalar
  | .sv, .sv => some (resolveAssign Gen.smv_assignSame Gen.svv_assignSame)
  | .sv, .svc => some (resolveAssign Gen.smv_assignConv Gen.svv_assignConv)
  | .sv, _ => some (resolveAssign Gen.smv_assignScalar Gen.svv_assignScalar)
  | _, _ => none

/-- `target = k` for a scalar view -/
def fillMode (kt : RKind) : Option HAssign :=
  match kt with
  | .sc => some Gen.svv_assignScalar
  | .sv => some (resolveAssign Gen.smv_assignScalar Gen.svv_assignScalar)
  | _ => none

/-- `t.rightmultiply(s)`: FieldMatrix<K,1,1> has its own, FieldMatrix an overload for FieldMatrix arguments -/
def rmulVal (kt ks : RKind) (bt bs : Mat K) : Mat K :=
  if kt == .fm && bt.rows == 1 then rightmultiply11 bt bs
  else if kt == .fm && ks == .fm then rightmultiplyFM bt bs
  else rightmultiply bt bs

/-- the matrix with row `i` replaced -/
def Mat.setRow (A : Mat K) (i : Nat) (v : Nat → K) : Mat K := ⟨A.rows, A.cols, fun r c => if r = i then v c else A.e r c⟩

/-- the vector a kernel leaves in `y`, as a 1 x n cell -/
def kernVal (conj : K → K) (k : KName) (A : Rep K) (alpha : K) (bx by' : Mat K) : Mat K :=
  ⟨1, by'.cols, fun _ => (repKernel conj k A alpha (bx.e 0) ⟨by'.cols, by'.e 0⟩).get⟩

/-- the object an operation writes through -/
def SOp.target : SOp K → Nat
  | .asg t _ | .fill t _ | .add t _ | .sub t _ | .axpy t _ _ | .scale t _ | .lmul t _ | .rmul t _ => t
  | .kern _ _ _ _ y => y
  | .rasg t _ _ _ | .raxpy t _ _ _ _ => t

/-- the value an operation computes for its target, from what the operand objects show -/
def opVal (conj : K → K) (st : SeqState K) : SOp K → Mat K
  | .asg t s => asgVal (st.kind t) (st.kind s) (st.rd s)
  | .fill t k => fillVal (st.rd t) k
  | .add t s => madd (st.rd t) (st.rd s)
  | .sub t s => msub (st.rd t) (st.rd s)
  | .axpy t k s => maxpy (st.rd t) k (st.rd s)
  | .scale t k => mscale (st.rd t) k
  | .lmul t s => leftmultiply (st.rd t) (st.rd s)
  | .rmul t s => rmulVal (st.kind t) (st.kind s) (st.rd t) (st.rd s)
  | .kern k a alpha x y => kernVal conj k (st.matRep a) alpha (st.rd x) (st.rd y)
  | .rasg t i s j => (st.rd t).setRow i ((st.rd s).e j)
  | .raxpy t i k s j => (st.rd t).setRow i (vAxpy ((st.rd t).row i) k ((st.rd s).e j)).get

/-- what an operation does with the handle of its target: `none` / `copyEntry` = it writes the value through it -/
def handleMode (st : SeqState K) : SOp K → Option HAssign
  | .asg t s => assignMode (st.kind t) (st.kind s)
  | .fill t _ => fillMode (st.kind t)
  -- the row of a scalar matrix view is its scalar vector view: assigning the row is assigning that view
  | .rasg t _ s _ => assignMode (rowKind (st.kind t)) (rowKind (st.kind s))
  | _ => none

/-- one operation on the store; `none`: not executed for these objects (or an assignment table without meaning) -/
def seqStep (conj : K → K) (st : SeqState K) (op : SOp K) : Option (SeqState K) :=
  if !opOk st op then none else
  match handleMode st op with
  | some .reseat =>
    match op with
    | .asg t s => some (st.reseat t s)
    | .rasg t _ s _ => some (st.reseat t s)
    | _ => none
  | some .viaRow => none
  | _ => some (st.wr op.target (opVal conj st op).freeze)

/-- the stores after every operation of a history -/
def seqTrace (conj : K → K) : SeqState K → List (SOp K) → Option (List (SeqState K))
  | _, [] => some []
  | st, op :: ops =>
    match seqStep conj st op with
    | none => none
    | some st' => (seqTrace conj st' ops).map (st' :: ·)

/-! ### declarations -/

/-- a declared object: kind, initial entries (raw layout; unused for a transposed view), the object a view is made from -/
structure Decl (K : Type _) where
  kind : RKind
  init : Mat K
  wraps : Nat
  /-- for a transposed view: made by `transpose(r)` from a const lvalue `std::reference_wrapper r` instead of `transposedView(A)` -/
  viaRefWrapper : Bool := false

/-- the store right after the declarations: every object refers to its own cell; `transposedView(A)` refers to the cell of
`A` if it holds a reference, to a cell of its own with a copy of `A` otherwise (read from transpose.hh, for both ways of
making the view) -/
def initState (ds : List (Decl K)) : SeqState K :=
  { regs := (List.range ds.length).map fun i =>
      match ds[i]? with
      | some d =>
        if d.kind == .tv then
          ⟨.tv, if (if d.viaRefWrapper then Gen.twRefHolds else Gen.tvHolds) == .reference then d.wraps else i, d.wraps⟩
        else ⟨d.kind, i, i⟩
      | none => ⟨.tv, i, i⟩
    bufs := ds.map fun d =>
      if d.kind == .tv then (match ds[d.wraps]? with | some b => b.init | none => d.init) else d.init }

/-- a well-formed store: one cell per object; an owning object or scalar view refers to its own cell, a transposed view to
the cell of the (non-view) object it was made from -/
def SeqState.wf (st : SeqState K) : Prop :=
  st.regs.length = st.bufs.length ∧
  ∀ i, i < st.regs.length →
    (st.kind i ≠ .tv → st.ptr i = i) ∧
    (st.kind i = .tv → st.ptr i = st.wraps i ∧ st.wraps i < st.regs.length ∧ st.kind (st.wraps i) ≠ .tv)

/-- declarations: a transposed view is made from an earlier declared object that is not a view itself -/
def declsOk (ds : List (Decl K)) : Prop :=
  ∀ (i : Nat) (d : Decl K), ds[i]? = some d → d.kind = RKind.tv → ∃ b : Decl K, ds[d.wraps]? = some b ∧ b.kind ≠ RKind.tv

end

end DV.C01
