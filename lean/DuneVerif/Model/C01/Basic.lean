/-
C01 — dense matrices act as the linear map they store.

Basic layer of the executable model (core Lean only): index functions, the counting loop, the
`KernelSig` / `DiagSig` tables that `tools/translators/tr_c01.py` fills from the C++ sources, and the
generic kernel interpreter that runs such a table as the code's loop nest.

Conventions
* a read-only vector is an index function `Nat → K` together with a length known to the caller; the vector `y`
  a kernel writes to is a `Vec K` (size + index function), and `y[t] = v` becomes `y.upd t v`; a matrix is
  `Mat K` = shape + entry function `Nat → Nat → K`.
* the scalar type `K` is only assumed to have the core operations (`Zero Add Sub Mul Neg Div`,
  `DecidableEq`) and a conjugation function `conj : K → K` passed explicitly.  The driver runs the
  definitions over `Int`, Gaussian integers and a prime field; the theorems in `Props/C01.lean`
  instantiate them in an arbitrary commutative ring.
-/
namespace DV.C01

/-- `for (i = 0; i < n; ++i) s = f i s` -/
def forN {σ : Type _} : Nat → (Nat → σ → σ) → σ → σ
  | 0, _, s => s
  | n+1, f, s => f n (forN n f s)

/-- a vector that is written to: its size and its entries.  (Read-only vectors are plain index functions.
The structure also keeps the loop state a data value for the compiled driver: with a bare function as state
the compiler may merge the binders of `fun i y => (fun k => …)` and re-evaluate every store on every read.) -/
structure Vec (K : Type _) where
  n : Nat
  get : Nat → K

/-- in-place store `y[t] = v` -/
def Vec.upd {K : Type _} (y : Vec K) (t : Nat) (v : K) : Vec K := ⟨y.n, fun k => if k = t then v else y.get k⟩

/-- a dense matrix: shape and entry function (`e i j` is `(*this)[i][j]`) -/
structure Mat (K : Type _) where
  rows : Nat
  cols : Nat
  e : Nat → Nat → K

/-- the eleven matrix-vector kernels of the dune-common matrix interface -/
inductive KName where
  | mv | mtv | umv | umtv | umhv | mmv | mmtv | mmhv | usmv | usmtv | usmhv
  deriving DecidableEq, Repr

/-- which loop variable an index expression uses -/
inductive Ix where
  | outer | inner
  deriving DecidableEq, Repr

/-- loop bound: `rows()` or `cols()` -/
inductive Dim where
  | rows | cols
  deriving DecidableEq, Repr

/-- update operator of the kernel statement: `=`, `+=`, `-=` -/
inductive Upd where
  | assign | add | sub
  deriving DecidableEq, Repr

/-- What the translator reads off one kernel of `densematrix.hh`:
```
for (outer = 0; outer < outerBound; ++outer) {
  [ yy[outer] = 0; ]                                        -- zeroInit
  for (inner = 0; inner < innerBound; ++inner)
    yy[tgt] (upd) [alpha *] [conjugateComplex] ((*this)[row][col]) * xx[xix];
}
``` -/
structure KernelSig where
  outerBound : Dim
  innerBound : Dim
  zeroInit : Bool
  tgt : Ix
  upd : Upd
  alpha : Bool
  conj : Bool
  row : Ix
  col : Ix
  xix : Ix
  deriving DecidableEq, Repr

/-- What the translator reads off one kernel of `diagonalmatrix.hh`
(`for (i = 0; i < n; ++i) y[i] (upd) [alpha *] [conjugateComplex] (diag_[i]) * x[i];`;
all three index expressions are checked to be the loop variable). -/
structure DiagSig where
  upd : Upd
  alpha : Bool
  conj : Bool
  deriving DecidableEq, Repr

def sel (ix : Ix) (o n : Nat) : Nat :=
  match ix with
  | .outer => o
  | .inner => n

def bound (d : Dim) (rows cols : Nat) : Nat :=
  match d with
  | .rows => rows
  | .cols => cols

def applyUpd {K : Type _} [Add K] [Sub K] (u : Upd) (old t : K) : K :=
  match u with
  | .assign => t
  | .add => old + t
  | .sub => old - t

section
variable {K : Type _} [Zero K] [Add K] [Sub K] [Mul K]

/-- right-hand side `[alpha *] [conj] a * xv` (C++ associates `(alpha * a) * xv`) -/
def rhs (hasAlpha hasConj : Bool) (conj : K → K) (alpha a xv : K) : K :=
  let a' := if hasConj then conj a else a
  if hasAlpha then alpha * a' * xv else a' * xv

/-- the generic dense kernel: the loop nest described by a `KernelSig`, run on `y` in place -/
def kernelSem (s : KernelSig) (conj : K → K) (rows cols : Nat) (A : Nat → Nat → K) (alpha : K)
    (x : Nat → K) (y : Vec K) : Vec K :=
  forN (bound s.outerBound rows cols) (fun o y =>
    let y0 := if s.zeroInit then y.upd o 0 else y
    forN (bound s.innerBound rows cols) (fun n y =>
      let t := sel s.tgt o n
      y.upd t (applyUpd s.upd (y.get t)
        (rhs s.alpha s.conj conj alpha (A (sel s.row o n) (sel s.col o n)) (x (sel s.xix o n))))) y0) y

/-- the generic diagonal kernel: one loop over the diagonal -/
def diagKernelSem (s : DiagSig) (conj : K → K) (n : Nat) (d : Nat → K) (alpha : K)
    (x : Nat → K) (y : Vec K) : Vec K :=
  forN n (fun i y => y.upd i (applyUpd s.upd (y.get i) (rhs s.alpha s.conj conj alpha (d i) (x i)))) y

end

/-! ### elementwise vector loops (densevector.hh)

`for (i = 0; i < size(); ++i) t[i] (op) rhs;` with `t` = `(*this)` or a copy `result` of it, and
`rhs` one of `x[i]`, `k`, `a*x[i]`, `-asImp()[i]`. -/

/-- assignment operator of an elementwise statement: `=`, `+=`, `-=`, `*=`, `/=` -/
inductive EOp where
  | set | add | sub | mul | div
  deriving DecidableEq, Repr

/-- right-hand side of an elementwise statement -/
inductive ERhs where
  /-- `x[i]` -/
  | x
  /-- the scalar argument -/
  | k
  /-- `k*x[i]` -/
  | kx
  /-- `-asImp()[i]`: the negated entry of the (unmodified) object itself -/
  | negSelf
  deriving DecidableEq, Repr

structure ElemSig where
  op : EOp
  rhs : ERhs
  deriving DecidableEq, Repr

/-- what `operator+` / `operator-` of two vectors do: copy `*this`, apply the named compound assignment -/
inductive ViaAssign where
  | plusAssign | minusAssign
  deriving DecidableEq, Repr

/-- which argument of the scalar `dot(a,b)` is conjugated (dotproduct.hh) -/
inductive ConjArg where
  | first | second | none
  deriving DecidableEq, Repr

/-- order of the arguments in the summand of a reduction: `(*this)[i] (.) x[i]` or `x[i] (.) (*this)[i]` -/
inductive ArgOrder where
  | selfX | xSelf
  deriving DecidableEq, Repr

section
variable {K : Type _} [Zero K] [Add K] [Sub K] [Mul K] [Neg K] [Div K]

def applyE (o : EOp) (old v : K) : K :=
  match o with
  | .set => v
  | .add => old + v
  | .sub => old - v
  | .mul => old * v
  | .div => old / v

def erhs (r : ERhs) (selfi k xi : K) : K :=
  match r with
  | .x => xi
  | .k => k
  | .kx => k * xi
  | .negSelf => - selfi

/-- the elementwise loop described by an `ElemSig`, run in place on `t`; `self` is the object read through
`asImp()` (only used by `negSelf`), `k` the scalar argument, `x` the vector argument -/
def elemSem (s : ElemSig) (n : Nat) (self : Nat → K) (k : K) (x : Nat → K) (t : Vec K) : Vec K :=
  forN n (fun i t => t.upd i (applyE s.op (t.get i) (erhs s.rhs (self i) k (x i)))) t

end

/-! ### elementwise loops that fill a fresh result (fvector.hh `v*k`, `k*v`, `v/k`; fmatrix.hh `A+B`, `A-B`, `A*k`, `k*A`,
`A/k`; densematrix.hh unary minus): `for i [for j] result[i][j] = L op R` -/

/-- operand of the right-hand side: entry of the first / second matrix (vector) argument, the scalar argument -/
inductive EwOpd where
  | a | b | k
  deriving DecidableEq, Repr

/-- `L + R`, `L - R`, `L * R`, `L / R`, `- L` -/
inductive EwOp where
  | add | sub | mul | div | neg
  deriving DecidableEq, Repr

structure EwSig where
  lhs : EwOpd
  op : EwOp
  rhs : EwOpd
  deriving DecidableEq, Repr

/-- how unary minus declares its result (densematrix.hh / densevector.hh): as a value of the autonomous type
(`AutonomousValue<MAT> result = asImp()`: for a scalar view a FieldMatrix<K,1,1> / FieldVector<K,1>) or with the operand's own
type (`MAT result = asImp()`: for a scalar view a second handle onto the same scalar, which the loop then writes through) -/
inductive NegResult where
  | autonomous | sameType
  deriving DecidableEq, Repr

/-- how `leftmultiply` / `rightmultiply` produce the product in place: accumulated in the copy `C` from the untouched `*this`
and `M`, then copied back (an argument that is the matrix itself is read unmodified), or written into `*this` directly while
`M` is still being read -/
inductive InPlaceVia where
  | copyBack | direct
  deriving DecidableEq, Repr

section
variable {K : Type _} [Add K] [Sub K] [Mul K] [Neg K] [Div K]

def ewOpd (o : EwOpd) (a b k : K) : K :=
  match o with
  | .a => a
  | .b => b
  | .k => k

def ewVal (s : EwSig) (a b k : K) : K :=
  match s.op with
  | .add => ewOpd s.lhs a b k + ewOpd s.rhs a b k
  | .sub => ewOpd s.lhs a b k - ewOpd s.rhs a b k
  | .mul => ewOpd s.lhs a b k * ewOpd s.rhs a b k
  | .div => ewOpd s.lhs a b k / ewOpd s.rhs a b k
  | .neg => - ewOpd s.lhs a b k

/-- `for (i = 0; i < n; ++i) result[i] = L op R;` with in-place stores into `t` -/
def ewSemVec (s : EwSig) (n : Nat) (a b : Nat → K) (k : K) (t : Vec K) : Vec K :=
  forN n (fun i t => t.upd i (ewVal s (a i) (b i) k)) t

end

/-! ### three-deep product loop nests (fmatrix.hh, densematrix.hh)

```
for (i = 0; i < extI; ++i)
  for (j = 0; j < extJ; ++j) {
    [ T[tr][tc] = 0; ]
    for (k = 0; k < extK; ++k)
      T[tr][tc] += F1 * F2;          -- F = one of the two input matrices, indexed by two of the loop variables
  }
``` -/

inductive PIdx where
  | i | j | k
  deriving DecidableEq, Repr

/-- which of the two input matrices of the product a factor reads -/
inductive POpd where
  | fst | snd
  deriving DecidableEq, Repr

/-- loop extent: rows / columns of the first / second input matrix -/
inductive PExt where
  | fstRows | fstCols | sndRows | sndCols
  deriving DecidableEq, Repr

structure PFac where
  opd : POpd
  r : PIdx
  c : PIdx
  deriving DecidableEq, Repr

structure ProdSig where
  extI : PExt
  extJ : PExt
  extK : PExt
  tr : PIdx
  tc : PIdx
  init : Bool
  f1 : PFac
  f2 : PFac
  deriving DecidableEq, Repr

/-- in-place store `M[a][b] = v` -/
def Mat.upd {K : Type _} (M : Mat K) (a b : Nat) (v : K) : Mat K :=
  ⟨M.rows, M.cols, fun r c => if r = a ∧ c = b then v else M.e r c⟩

/-- `for (i < rows) for (j < cols) result[i][j] = L op R;` with in-place stores into `T` -/
def ewSemMat {K : Type _} [Add K] [Sub K] [Mul K] [Neg K] [Div K]
    (s : EwSig) (rows cols : Nat) (A B : Nat → Nat → K) (k : K) (T : Mat K) : Mat K :=
  forN rows (fun i T => forN cols (fun j T => T.upd i j (ewVal s (A i j) (B i j) k)) T) T

def pidx (x : PIdx) (i j k : Nat) : Nat :=
  match x with
  | .i => i
  | .j => j
  | .k => k

section
variable {K : Type _} [Zero K] [Add K] [Mul K]

def pext (x : PExt) (A B : Mat K) : Nat :=
  match x with
  | .fstRows => A.rows
  | .fstCols => A.cols
  | .sndRows => B.rows
  | .sndCols => B.cols

def pfac (f : PFac) (A B : Mat K) (i j k : Nat) : K :=
  match f.opd with
  | .fst => A.e (pidx f.r i j k) (pidx f.c i j k)
  | .snd => B.e (pidx f.r i j k) (pidx f.c i j k)

/-- the product loop nest described by a `ProdSig`, run in place on `T` with inputs `A` (first) and `B` (second) -/
def prodSem (s : ProdSig) (A B : Mat K) (T : Mat K) : Mat K :=
  forN (pext s.extI A B) (fun i T =>
    forN (pext s.extJ A B) (fun j T =>
      forN (pext s.extK A B) (fun k T =>
        let a := pidx s.tr i j k
        let b := pidx s.tc i j k
        T.upd a b (T.e a b + pfac s.f1 A B i j k * pfac s.f2 A B i j k))
        (if s.init then T.upd (pidx s.tr i j 0) (pidx s.tc i j 0) 0 else T)) T) T

end

/-! ### the transposition loop nest: `for o < extO: for n < extI: T[tr][tc] = (*this)[sr][sc]` -/

structure TransSig where
  extO : Dim
  extI : Dim
  tr : Ix
  tc : Ix
  sr : Ix
  sc : Ix
  deriving DecidableEq, Repr

def transSem {K : Type _} (s : TransSig) (A : Mat K) (T : Mat K) : Mat K :=
  forN (bound s.extO A.rows A.cols) (fun o T =>
    forN (bound s.extI A.rows A.cols) (fun n T =>
      T.upd (sel s.tr o n) (sel s.tc o n) (A.e (sel s.sr o n) (sel s.sc o n))) T) T

/-! ### handle types (scalarvectorview.hh, scalarmatrixview.hh, transpose.hh)

A `ScalarVectorView` / `ScalarMatrixView` is a handle onto a scalar variable, a `TransposedMatrixWrapper` made by
`transposedView` a handle onto a matrix: their state is not a list of entries but *which storage they refer to*. -/

/-- what an assignment operator of a scalar view does -/
inductive HAssign where
  /-- `*dataP_ = *(other.dataP_)` / `*dataP_ = k`: the scalar behind the view receives the value -/
  | copyEntry
  /-- `dataP_ = other.dataP_`: the handle is re-pointed; the scalar it referred to keeps its value -/
  | reseat
  /-- ScalarMatrixView: `data_ = other.data_` / `data_ = k`, i.e. whatever the assignment operator of its row view does -/
  | viaRow
  deriving DecidableEq, Repr

/-- what `transposedView(A)` holds -/
inductive ViewHold where
  /-- a reference to `A`: later changes of `A` are seen through the view -/
  | reference
  /-- a copy of `A` taken when the view was made -/
  | copy
  deriving DecidableEq, Repr

end DV.C01
